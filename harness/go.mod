module verif/harness

go 1.21

require github.com/herohde/morlock v0.0.0

require github.com/seekerror/stdlib v0.0.0-20231216224128-fab4c1e73ebe // indirect

replace github.com/herohde/morlock => /repo
