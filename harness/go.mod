module verif/harness

go 1.21

require (
	github.com/herohde/morlock v0.0.0
	github.com/seekerror/stdlib v0.0.0-20231216224128-fab4c1e73ebe
)

require (
	github.com/golang/glog v1.2.0 // indirect
	github.com/seekerror/build v1.0.2 // indirect
	github.com/seekerror/logw v0.8.1 // indirect
	golang.org/x/exp v0.0.0-20231214170342-aacd6d4b4611 // indirect
)

replace github.com/herohde/morlock => /repo
