// Gen/Engines.lean: the constants of the historical engines (cmd/bernstein, cmd/sargon, cmd/turochamp) and of
// pkg/eval that the Lean models copy, read from the statements that hold them.
//
// Every constant is located by the *skeleton* of the statement it stands in: the statement printed by go/printer with
// every numeric literal replaced by `#` and every constant of pkg/board (`board.Queen`, `board.FileA`, ..) by `board.@`.
// The skeleton has to occur in the named function exactly as often as stated, and the function must not hold any
// numeric literal beyond those accounted for: a changed shape makes the extractor fail, a changed number changes the
// generated file (and thereby breaks a theorem of Props/GenTieEngines.lean).
package main

import (
	"fmt"
	"go/ast"
	"go/constant"
	"go/printer"
	"go/token"
	"go/types"
	"os"
	"path/filepath"
	"strings"
)

// stmtEntry is one statement (or condition, case clause, loop header) of a function.
type stmtEntry struct {
	skel  string
	lits  []string // numeric literals in source order, exact: "23", "7/2"
	lpos  []token.Pos
	syms  []string // values of the pkg/board constants in source order
	names []string // their names
	pos   token.Position
}

// fnStmts is the statement table of one function.
type fnStmts struct {
	label   string
	entries []stmtEntry
	total   int                // number of numeric literals in the body
	used    map[token.Pos]bool // the numeric literals accounted for by queries
}

func normSpace(s string) string { return strings.Join(strings.Fields(s), " ") }

func hasFuncLit(n ast.Node) bool {
	found := false
	ast.Inspect(n, func(x ast.Node) bool {
		if _, ok := x.(*ast.FuncLit); ok {
			found = true
		}
		return !found
	})
	return found
}

func isNumLit(n ast.Node) (*ast.BasicLit, bool) {
	bl, ok := n.(*ast.BasicLit)
	if !ok || (bl.Kind != token.INT && bl.Kind != token.FLOAT) {
		return nil, false
	}
	return bl, true
}

func exactLit(p *pkgInfo, bl *ast.BasicLit) string {
	v := constant.MakeFromLiteral(bl.Value, bl.Kind, 0)
	if v.Kind() == constant.Unknown {
		fail("bad numeric literal %v at %v", bl.Value, p.fset.Position(bl.Pos()))
	}
	return v.ExactString()
}

// boardConst reports the value of `board.<Name>` when Name is an integer constant of pkg/board.
func boardConst(b *pkgInfo, e ast.Node) (*ast.SelectorExpr, string, bool) {
	se, ok := e.(*ast.SelectorExpr)
	if !ok {
		return nil, "", false
	}
	x, ok := se.X.(*ast.Ident)
	if !ok || x.Name != "board" {
		return nil, "", false
	}
	c, ok := b.pkg.Scope().Lookup(se.Sel.Name).(*types.Const)
	if !ok {
		return nil, "", false
	}
	v := constant.ToInt(c.Val())
	if v.Kind() != constant.Int {
		return nil, "", false
	}
	return se, v.ExactString(), true
}

// skeleton prints the nodes (joined by sep) with literals and board constants masked.
func (p *pkgInfo) skeleton(b *pkgInfo, sep string, nodes ...ast.Node) stmtEntry {
	var e stmtEntry
	var restore []func()
	for _, n := range nodes {
		ast.Inspect(n, func(x ast.Node) bool {
			if bl, ok := isNumLit(x); ok {
				e.lits = append(e.lits, exactLit(p, bl))
				e.lpos = append(e.lpos, bl.Pos())
				old := bl.Value
				restore = append(restore, func() { bl.Value = old })
				bl.Value = "#"
				return true
			}
			if se, v, ok := boardConst(b, x); ok {
				e.syms = append(e.syms, v)
				e.names = append(e.names, se.Sel.Name)
				sel := se.Sel
				old := sel.Name
				restore = append(restore, func() { sel.Name = old })
				sel.Name = "@"
				return false
			}
			return true
		})
	}
	var parts []string
	for _, n := range nodes {
		var sb strings.Builder
		if err := printer.Fprint(&sb, p.fset, n); err != nil {
			fail("print: %v", err)
		}
		parts = append(parts, normSpace(sb.String()))
	}
	for _, r := range restore {
		r()
	}
	e.skel = strings.Join(parts, sep)
	if len(nodes) > 0 {
		e.pos = p.fset.Position(nodes[0].Pos())
	}
	return e
}

func isSimpleStmt(s ast.Stmt) bool {
	switch s.(type) {
	case *ast.ReturnStmt, *ast.AssignStmt, *ast.IncDecStmt, *ast.ExprStmt, *ast.DeclStmt, *ast.BranchStmt:
		return !hasFuncLit(s)
	}
	return false
}

// stmts builds the statement table of a function (closures included).
func (p *pkgInfo) stmts(b *pkgInfo, fn, recv string) *fnStmts {
	fd := p.funcDecl(fn, recv)
	label := fn
	if recv != "" {
		label = recv + "." + fn
	}
	if fd == nil || fd.Body == nil {
		fail("func %v not found", label)
	}
	ret := &fnStmts{label: label, used: map[token.Pos]bool{}}
	prefix := func(pre string, e stmtEntry) stmtEntry {
		e.skel = normSpace(pre + " " + e.skel)
		return e
	}
	ast.Inspect(fd.Body, func(n ast.Node) bool {
		if _, ok := isNumLit(n); ok {
			ret.total++
		}
		switch t := n.(type) {
		case *ast.ReturnStmt, *ast.AssignStmt, *ast.IncDecStmt, *ast.ExprStmt, *ast.DeclStmt:
			if isSimpleStmt(t.(ast.Stmt)) {
				ret.entries = append(ret.entries, p.skeleton(b, "; ", t))
			}
		case *ast.IfStmt:
			if t.Init != nil && isSimpleStmt(t.Init) {
				ret.entries = append(ret.entries, prefix("if", p.skeleton(b, "; ", t.Init, t.Cond)))
			} else if !hasFuncLit(t.Cond) {
				ret.entries = append(ret.entries, prefix("if", p.skeleton(b, "; ", t.Cond)))
			}
		case *ast.ForStmt:
			if t.Cond != nil && !hasFuncLit(t.Cond) {
				ret.entries = append(ret.entries, prefix("for", p.skeleton(b, "; ", t.Cond)))
			}
		case *ast.RangeStmt:
			var nodes []ast.Node
			if t.Key != nil {
				nodes = append(nodes, t.Key)
			}
			if t.Value != nil {
				nodes = append(nodes, t.Value)
			}
			nodes = append(nodes, t.X)
			ret.entries = append(ret.entries, prefix("range", p.skeleton(b, " | ", nodes...)))
		case *ast.SwitchStmt:
			if t.Tag != nil {
				ret.entries = append(ret.entries, prefix("switch", p.skeleton(b, "; ", t.Tag)))
			}
		case *ast.CaseClause:
			simple := true
			for _, s := range t.Body {
				if !isSimpleStmt(s) {
					simple = false
				}
			}
			var hdr []ast.Node
			for _, e := range t.List {
				hdr = append(hdr, e)
			}
			var body []ast.Node
			if simple {
				for _, s := range t.Body {
					body = append(body, s)
				}
			}
			h := p.skeleton(b, ", ", hdr...)
			bd := p.skeleton(b, "; ", body...)
			e := stmtEntry{lits: append(h.lits, bd.lits...), lpos: append(h.lpos, bd.lpos...), syms: append(h.syms, bd.syms...), names: append(h.names, bd.names...),
				pos: p.fset.Position(t.Pos())}
			if t.List == nil {
				e.skel = "default:"
			} else {
				e.skel = "case " + h.skel + ":"
			}
			if simple && len(body) > 0 {
				e.skel += " " + bd.skel
			} else if !simple {
				e.skel += " ..."
			}
			ret.entries = append(ret.entries, e)
		}
		return true
	})
	return ret
}

func (q *fnStmts) dump() {
	fmt.Printf("== %s (%d numeric literals)\n", q.label, q.total)
	for _, e := range q.entries {
		fmt.Printf("   %q lits=%v syms=%v %v\n", e.skel, e.lits, e.names, e.pos.Line)
	}
}

// n returns the entries with the given skeleton, in source order; there must be exactly count of them.
func (q *fnStmts) n(skel string, count int) []stmtEntry {
	var ret []stmtEntry
	for _, e := range q.entries {
		if e.skel == skel {
			ret = append(ret, e)
		}
	}
	if len(ret) != count {
		fail("%s: expected %d statement(s) of the shape %q, found %d", q.label, count, skel, len(ret))
	}
	for _, e := range ret {
		q.mark(e)
	}
	return ret
}

func (q *fnStmts) mark(e stmtEntry) {
	for _, p := range e.lpos {
		q.used[p] = true
	}
}

// run returns the unique contiguous run of statements with the given skeletons (a skeleton ending in `*` is a prefix).
func (q *fnStmts) run(skels ...string) []stmtEntry {
	match := func(e stmtEntry, s string) bool {
		if strings.HasSuffix(s, "*") {
			return strings.HasPrefix(e.skel, s[:len(s)-1])
		}
		return e.skel == s
	}
	var found [][]stmtEntry
	for i := 0; i+len(skels) <= len(q.entries); i++ {
		ok := true
		for j, s := range skels {
			if !match(q.entries[i+j], s) {
				ok = false
				break
			}
		}
		if ok {
			found = append(found, q.entries[i:i+len(skels)])
		}
	}
	if len(found) != 1 {
		fail("%s: expected exactly one run of the shape %q, found %d", q.label, skels, len(found))
	}
	for _, e := range found[0] {
		q.mark(e)
	}
	return found[0]
}

// zeros accounts for `count` statements of a shape whose literals are all 0 (empty-set tests, counters, first elements).
func (q *fnStmts) zeros(skel string, count int) {
	for _, e := range q.n(skel, count) {
		for _, l := range e.lits {
			if l != "0" {
				fail("%s: %q holds the literal %v where 0 is expected", q.label, skel, l)
			}
		}
	}
}

func (q *fnStmts) one(skel string) stmtEntry { return q.n(skel, 1)[0] }

// lit returns the single literal of the single statement with the skeleton.
func (q *fnStmts) lit(skel string) string {
	e := q.one(skel)
	if len(e.lits) != 1 {
		fail("%s: %q holds %d literals", q.label, skel, len(e.lits))
	}
	return e.lits[0]
}

// done checks that every numeric literal of the function has been accounted for.
func (q *fnStmts) done() {
	if len(q.used) != q.total {
		fail("%s: holds %d numeric literals, %d are known to the extractor (a constant was added or removed)", q.label, q.total, len(q.used))
	}
}

// ---- Lean output ----------------------------------------------------------------------------------------------------

func leanInt(v string) string {
	if strings.Contains(v, "/") {
		fail("value %v is not an integer", v)
	}
	if strings.HasPrefix(v, "-") {
		return "(" + v + ")"
	}
	return v
}

func neg(v string) string {
	if strings.HasPrefix(v, "-") {
		return v[1:]
	}
	if v == "0" {
		return v
	}
	return "-" + v
}

// leanRat renders an exact literal as `(numerator, denominator)`.
func leanRat(v string) string {
	num, den := v, "1"
	if i := strings.Index(v, "/"); i >= 0 {
		num, den = v[:i], v[i+1:]
	}
	return fmt.Sprintf("(%s, %s)", leanInt(num), den)
}

func allEqual(xs []string, what string) string {
	for _, x := range xs {
		if x != xs[0] {
			fail("%s: the occurrences differ: %v", what, xs)
		}
	}
	return xs[0]
}

// flagDefaults reads `name = flag.Uint("name", <default>, ..)` declarations of a main package.
func (p *pkgInfo) flagDefaults() [][2]string {
	var ret [][2]string
	for _, f := range p.files {
		ast.Inspect(f, func(n ast.Node) bool {
			c, ok := n.(*ast.CallExpr)
			if !ok || len(c.Args) != 3 {
				return true
			}
			pk, nm := selName(c.Fun)
			if pk != "flag" || (nm != "Uint" && nm != "Int") {
				return true
			}
			name, ok := c.Args[0].(*ast.BasicLit)
			if !ok || name.Kind != token.STRING {
				fail("flag name at %v is not a literal", p.fset.Position(c.Pos()))
			}
			val, ok := isNumLit(c.Args[1])
			if !ok {
				fail("flag default at %v is not a numeric literal", p.fset.Position(c.Pos()))
			}
			ret = append(ret, [2]string{strings.Trim(name.Value, "\""), exactLit(p, val)})
			return true
		})
	}
	if len(ret) == 0 {
		fail("no integer flags found")
	}
	return ret
}

func flagOf(fl [][2]string, name string) string {
	for _, f := range fl {
		if f[0] == name {
			return leanInt(f[1])
		}
	}
	fail("flag %v not found", name)
	return ""
}

// boardList resolves `board.<Name>` (a []Piece var of pkg/board) named in a skeleton such as "range _ | piece | board.X".
func boardListOf(b *pkgInfo, skel string) (string, []string) {
	i := strings.LastIndex(skel, "board.")
	if i < 0 {
		fail("no board list in %q", skel)
	}
	name := skel[i+len("board."):]
	for j, r := range name {
		if !(r == '_' || r >= '0' && r <= '9' || r >= 'a' && r <= 'z' || r >= 'A' && r <= 'Z') {
			name = name[:j]
			break
		}
	}
	return name, b.identList(name)
}

func emitEngines(repo, out string, b *pkgInfo) {
	dump := os.Getenv("EXTRACT_DUMP") != ""
	var sb strings.Builder
	w := func(f string, a ...interface{}) { fmt.Fprintf(&sb, f+"\n", a...) }

	ev := load(filepath.Join(repo, "pkg/eval"))
	se := load(filepath.Join(repo, "pkg/search"))
	be := load(filepath.Join(repo, "cmd/bernstein/bernstein"))
	sa := load(filepath.Join(repo, "cmd/sargon/sargon"))
	tu := load(filepath.Join(repo, "cmd/turochamp/turochamp"))
	bem := load(filepath.Join(repo, "cmd/bernstein"))
	sam := load(filepath.Join(repo, "cmd/sargon"))
	tum := load(filepath.Join(repo, "cmd/turochamp"))

	if dump {
		for _, x := range []struct {
			p          *pkgInfo
			name, recv string
		}{
			{b, "PromotionRank", ""}, {b, "CastlingRights", ""},
			{ev, "FindCapture", ""}, {ev, "SortByNominalValue", ""}, {ev, "FindPins", ""}, {ev, "Limit", ""}, {ev, "NominalValueGain", ""},
			{ev, "Evaluate", "Material"}, {se, "MVVLVA", ""}, {se, "Selection", ""},
			{be, "Evaluate", "Eval"}, {be, "Evaluate", ""}, {be, "Material", ""}, {be, "MaterialValue", ""}, {be, "Mobility", ""},
			{be, "Control", ""}, {be, "KingDefense", ""}, {be, "IsMoveSafe", ""}, {be, "IsSafe", ""}, {be, "Explore", "PlausibleMoveTable"},
			{be, "truncate", ""}, {be, "FindPlausibleMoves", ""}, {be, "TA1", ""}, {be, "Table1", ""},
			{sa, "Evaluate", "Points"}, {sa, "Reset", "Points"}, {sa, "Material", ""}, {sa, "BoardControl", ""}, {sa, "Mobility", ""},
			{sa, "Development", ""}, {sa, "king", ""}, {sa, "Exchange", ""}, {sa, "findSide", ""}, {sa, "val", ""}, {sa, "NumAttackers", ""},
			{sa, "FindAttackers", ""}, {sa, "addAttackerStack", ""}, {sa, "FindKingQueenPins", ""}, {sa, "QuietSearch", "OnePlyIfChecked"},
			{sa, "SkipUnderPromotions", ""}, {sa, "Search", "Hook"},
			{tu, "Evaluate", "Eval"}, {tu, "Evaluate", "Material"}, {tu, "material", ""}, {tu, "pieceValue", ""}, {tu, "PositionPlay", ""},
			{tu, "ConsiderableMovesOnly", ""}, {tu, "IsConsiderableMove", ""},
		} {
			x.p.stmts(b, x.name, x.recv).dump()
		}
		fmt.Println(bem.flagDefaults(), sam.flagDefaults(), tum.flagDefaults())
		return
	}
	lit1 := func(q *fnStmts, e stmtEntry) string {
		if len(e.lits) != 1 {
			fail("%s: %q holds %d literals", q.label, e.skel, len(e.lits))
		}
		return e.lits[0]
	}
	sym1 := func(q *fnStmts, e stmtEntry) string {
		if len(e.syms) != 1 {
			fail("%s: %q names %d board constants", q.label, e.skel, len(e.syms))
		}
		return e.syms[0]
	}
	// samePair: a statement naming the same board constant twice (`f(board.X) * g(board.X)`)
	samePair := func(q *fnStmts, e stmtEntry) string {
		if len(e.syms) != 2 || e.syms[0] != e.syms[1] {
			fail("%s: %q does not name one board constant twice: %v", q.label, e.skel, e.names)
		}
		return e.syms[0]
	}
	isLit := func(q *fnStmts, e stmtEntry, i int, want string) {
		if i >= len(e.lits) || e.lits[i] != want {
			fail("%s: %q: literal %d is not the structural %v: %v", q.label, e.skel, i, want, e.lits)
		}
	}
	// caseTable reads the clauses `case board.A, board.B: return <lit>` (+ optional `default: return <lit>`) of a function
	// whose switch holds nothing else.
	caseTable := func(q *fnStmts) (keys [][]string, vals []string, deflt string) {
		for _, e := range q.entries {
			switch {
			case strings.HasPrefix(e.skel, "case "):
				if !strings.HasSuffix(e.skel, ": return #") || len(e.lits) != 1 || len(e.syms) == 0 ||
					strings.Count(e.skel, "board.@") != len(e.syms) || strings.Trim(strings.TrimSuffix(strings.TrimPrefix(e.skel, "case "), ": return #"), "board.@, ") != "" {
					fail("%s: case clause of unexpected shape %q", q.label, e.skel)
				}
				keys = append(keys, e.syms)
				vals = append(vals, e.lits[0])
				q.mark(e)
			case e.skel == "default: return #":
				if deflt != "" {
					fail("%s: two default clauses", q.label)
				}
				deflt = e.lits[0]
				q.mark(e)
			}
		}
		if len(keys) == 0 {
			fail("%s: no case clauses", q.label)
		}
		return
	}
	flat := func(keys [][]string, vals []string, render func(string) string) string {
		var parts []string
		for i, ks := range keys {
			for _, k := range ks {
				parts = append(parts, fmt.Sprintf("(%s, %s)", k, render(vals[i])))
			}
		}
		return "[" + strings.Join(parts, ", ") + "]"
	}
	ratInner := func(v string) string { r := leanRat(v); return r[1 : len(r)-1] }

	w("/-! GENERATED by /verif/harness/cmd/extract from %s — do not edit. Regenerated on every check.", repo)
	w("")
	w("The constants of the historical engines and of pkg/eval, pkg/search that the models `Model/Bernstein`, `Model/Sargon`,")
	w("`Model/EvalCapture`, `Model/Search` (and `Model/Turochamp`) copy. Each is read from the statement that holds it; the")
	w("extractor fails when that statement is no longer there in the expected shape or when the function holds a numeric")
	w("literal it does not know. Pieces, files, ranks, colours and move types are the values of the pkg/board constants.")
	w("Rationals (`3.5`, `0.2`) are exact `(numerator, denominator)` pairs of the literal as written. -/")
	w("namespace Morlock.Gen")
	w("")

	// ---- pkg/board ----
	section(&sb, "Engines.lean", "pkg/board", func() {
		q := b.stmts(b, "PromotionRank", "")
		r := q.run("if c == White", "return *", "return *")
		w("-- pkg/board/square.go PromotionRank: `if c == White { return <rank> } else { return <rank> }`")
		w("def promotionRankWhite : Nat := %s", b.constInt(strings.TrimPrefix(r[1].skel, "return ")))
		w("def promotionRankBlack : Nat := %s", b.constInt(strings.TrimPrefix(r[2].skel, "return ")))
		q.done()
		w("")
	})

	// ---- pkg/eval, pkg/search ----
	section(&sb, "Engines.lean", "pkg/eval, pkg/search", func() {
		q := ev.stmts(b, "FindCapture", "")
		r := q.run("var ret []board.Placement", "range _ | piece | board.*")
		name, list := boardListOf(b, r[1].skel)
		w("-- pkg/eval/capture.go FindCapture: `for _, piece := range board.%s`, then the pawns", name)
		w("def evalFindCaptureOfficers : List Nat := %s", leanList(list))
		w("def evalFindCapturePawnMask : Nat := %s", sym1(q, q.one("bb := board.PawnCaptureboard(side.Opponent(), board.BitMask(sq)) & pos.Piece(side, board.@)")))
		w("def evalFindCapturePawnPlaced : Nat := %s", sym1(q, q.one("ret = append(ret, board.Placement{Piece: board.@, Color: side, Square: from})")))
		q.one("bb := board.Attackboard(pos.Rotated(), sq, piece) & pos.Piece(side, piece)")
		q.done()
		q = ev.stmts(b, "SortByNominalValue", "")
		q.one("return NominalValue(pieces[i].Piece) < NominalValue(pieces[j].Piece)")
		q.done()
		w("")

		q = se.stmts(b, "MVVLVA", "")
		e := q.one("if p := board.MovePriority(# * eval.NominalValueGain(m)); p > #")
		w("-- pkg/search/exploration.go MVVLVA: `if p := MovePriority(<scale> * NominalValueGain(m)); p > <above> { return p - .. }; return <none>`")
		w("def mvvlvaScale : Int := %s", leanInt(e.lits[0]))
		w("def mvvlvaAbove : Int := %s", leanInt(e.lits[1]))
		q.one("return p - board.MovePriority(eval.NominalValue(m.Piece))")
		w("def mvvlvaNone : Int := %s", leanInt(q.lit("return #")))
		q.done()
		w("")
	})

	// ---- cmd/bernstein/bernstein/eval.go ----
	section(&sb, "Engines.lean", "bernstein eval", func() {
		w("-- cmd/bernstein/bernstein/eval.go")
		q := be.stmts(b, "MaterialValue", "")
		q.one("switch piece")
		keys, vals, deflt := caseTable(q)
		if deflt == "" {
			fail("bernstein.MaterialValue: no default clause")
		}
		q.done()
		w("-- MaterialValue: (piece, value) of every `case`, and the `default`")
		w("def bernsteinMaterialValue : List (Nat × Int) := %s", flat(keys, vals, leanInt))
		w("def bernsteinMaterialValueDefault : Int := %s", leanInt(deflt))

		q = be.stmts(b, "Material", "")
		r := q.run("ret := MaterialValue(board.@) * pos.Piece(side, board.@).PopCount()",
			"ret += MaterialValue(board.@) * pos.Piece(side, board.@).PopCount()", "ret += MaterialValue(board.@) * pos.Piece(side, board.@).PopCount()",
			"ret += MaterialValue(board.@) * pos.Piece(side, board.@).PopCount()", "ret += MaterialValue(board.@) * pos.Piece(side, board.@).PopCount()", "return ret")
		var ps []string
		for _, e := range r[:5] {
			ps = append(ps, samePair(q, e))
		}
		q.done()
		w("-- Material: the pieces summed, in order")
		w("def bernsteinMaterialPieces : List Nat := %s", leanList(ps))

		q = be.stmts(b, "Evaluate", "")
		q.one("score := mobility + control + defense + factor*material")
		w("-- Evaluate: `return mathx.Max(<floor>, score)`")
		w("def bernsteinEvaluateFloor : Int := %s", leanInt(q.lit("return mathx.Max(#, score)")))
		q.done()

		q = be.stmts(b, "Evaluate", "Eval")
		w("-- Eval.Evaluate: `self == opp: return <equal>`; `self > opp: return Pawns(self) * <scale> / Pawns(opp)`; `default: return -Pawns(opp) * <scale> / Pawns(self)`")
		w("def bernsteinRatioEqual : Int := %s", leanInt(q.lit("case self == opp: return #")))
		w("def bernsteinRatioScaleAhead : Int := %s", leanInt(q.lit("case self > opp: return eval.Pawns(self) * # / eval.Pawns(opp)")))
		w("def bernsteinRatioScaleBehind : Int := %s", leanInt(q.lit("default: return -eval.Pawns(opp) * # / eval.Pawns(self)")))
		q.done()

		q = be.stmts(b, "Control", "")
		q.zeros("ret := #", 1)
		r = q.run("for sq < board.@", "sq := board.@", "sq++", "if pos.IsDefended(side, sq) && !pos.IsAttacked(side, sq)", "ret++")
		w("-- Control: `for sq := <from>; sq < <to>; sq++`")
		w("def bernsteinControlFrom : Nat := %s", sym1(q, r[1]))
		w("def bernsteinControlTo : Nat := %s", sym1(q, r[0]))
		q.done()

		q = be.stmts(b, "KingDefense", "")
		q.zeros("ret := #", 1)
		r = q.run("range _ | sq | board.KingAttackboard(pos.KingSquare(side)).ToSquares()", "if pos.IsEmpty(sq)", "if pos.IsDefendedBy(side, sq, board.*", "ret++",
			"if pos.IsDefended(side, sq) && !pos.IsAttacked(side, sq)", "ret++", "return ret")
		if !strings.HasSuffix(r[2].skel, ") && !pos.IsAttacked(side, sq)") {
			fail("bernstein.KingDefense: unexpected condition %q", r[2].skel)
		}
		name, list := boardListOf(b, r[2].skel)
		w("-- KingDefense: an empty square counts when `IsDefendedBy(side, sq, board.%s)`", name)
		w("def bernsteinKingDefenseDefenders : List Nat := %s", leanList(list))
		q.done()

		q = be.stmts(b, "IsSafe", "")
		q.zeros("if len(attackers) == #", 1)
		q.zeros("return eval.NominalValue(attackers[#].Piece) >= eval.NominalValue(piece)", 1)
		q.one("attackers := eval.SortByNominalValue(eval.FindCapture(pos, side.Opponent(), sq))")
		q.one("if !pos.IsDefended(side, sq)")
		q.done()
		w("")
	})

	// ---- cmd/bernstein/bernstein/search.go ----
	section(&sb, "Engines.lean", "bernstein search", func() {
		w("-- cmd/bernstein/bernstein/search.go")
		q := be.stmts(b, "truncate", "")
		w("-- truncate: `if limit > <min> && len(list) > limit`")
		w("def bernsteinTruncateAbove : Int := %s", leanInt(q.lit("if limit > # && len(list) > limit")))
		q.done()

		q = be.stmts(b, "FindPlausibleMoves", "")
		q.run("moves := board.FindMoves(pos.LegalMoves(side), board.Move.IsNotUnderPromotion)", "board.SortByPriority(moves, TA1(side))", "board.SortByPriority(moves, Table1)",
			"if pos.IsChecked(side)")
		r := q.run("case move.IsCaptureOrEnPassant(): return #", "return #", "case move.Piece == board.@: return #", "return #", "default: return #", "return #")
		w("-- FindPlausibleMoves, question 1 (in check): `IsCaptureOrEnPassant: <capture>`; `Piece == <piece>: <king>`; `default: <other>`")
		w("def bernsteinCheckPrioCapture : Int := %s", leanInt(lit1(q, r[0])))
		w("def bernsteinCheckPrioKingPiece : Nat := %s", sym1(q, r[2]))
		w("def bernsteinCheckPrioKing : Int := %s", leanInt(lit1(q, r[2])))
		w("def bernsteinCheckPrioOther : Int := %s", leanInt(lit1(q, r[4])))

		r = q.run("switch move.Type", "case board.@, board.@: return true", "return true",
			"case board.@: return MaterialValue(move.Capture) > MaterialValue(move.Piece) || IsMoveSafe(pos, side, move)",
			"return MaterialValue(move.Capture) > MaterialValue(move.Piece) || IsMoveSafe(pos, side, move)",
			"case board.@: return !pos.IsAttacked(side, move.To)", "return !pos.IsAttacked(side, move.To)", "default: return false", "return false")
		w("-- the `gain` closure: move types that always gain; the type judged by value or safety; the type judged by attack on the target")
		w("def bernsteinGainAlways : List Nat := %s", leanList(r[1].syms))
		w("def bernsteinGainCapture : Nat := %s", sym1(q, r[3]))
		w("def bernsteinGainEnPassant : Nat := %s", sym1(q, r[5]))
		q.one("return !IsSafe(pos, side, move.Piece, move.From) && IsMoveSafe(pos, side, move)")
		w("-- the `exchange` closure: `move.Type == <type> && MaterialValue(Capture) == MaterialValue(Piece)`")
		w("def bernsteinExchangeType : Nat := %s", sym1(q, q.one("return move.Type == board.@ && MaterialValue(move.Capture) == MaterialValue(move.Piece)")))

		r = q.run("case gain(move): rank[move] = #", "rank[move] = #", "case loss(move): rank[move] = #", "rank[move] = #", "case exchange(move): rank[move] = #", "rank[move] = #",
			"case move.IsCastle(): rank[move] = #; castle = true", "rank[move] = #", "castle = true", "default:", "if castle")
		w("-- questions 2 and 3: `rank[move] = ..` for gain, loss, exchange, castle; with castling only `rank[move] > <keep>` survive")
		w("def bernsteinRankGain : Int := %s", leanInt(lit1(q, r[0])))
		w("def bernsteinRankLoss : Int := %s", leanInt(lit1(q, r[2])))
		w("def bernsteinRankExchange : Int := %s", leanInt(lit1(q, r[4])))
		w("def bernsteinRankCastle : Int := %s", leanInt(lit1(q, r[6])))
		w("def bernsteinRankKeepAbove : Int := %s", leanInt(q.lit("return rank[move] > #")))

		w("-- `pawns := pos.Piece(side, <piece>)`; `key := PawnCaptureboard(side, PawnCaptureboard(side, pawns)&pawns)`")
		w("def bernsteinPawnsPiece : Nat := %s", sym1(q, q.one("pawns := pos.Piece(side, board.@)")))
		q.one("key := board.PawnCaptureboard(side, board.PawnCaptureboard(side, pawns)&pawns)")
		r = q.run("if move.Piece == board.@ || move.Piece == board.@", "return move.From.Rank() == board.PromotionRank(side.Opponent())", "return false")
		w("-- the `develop`, `chains`, `files` closures: the pieces developed; the piece excluded from key squares; the pieces that take files")
		w("def bernsteinDevelopPieces : List Nat := %s", leanList(r[0].syms))
		r = q.run("if move.Piece != board.@", "return key.IsSet(move.To)", "return false")
		w("def bernsteinChainsExcluded : Nat := %s", sym1(q, r[0]))
		r = q.run("if move.Piece == board.@ || move.Piece == board.@", "from := (board.BitFile(move.From.File()) & pawns) == #", "to := (board.BitFile(move.To.File()) & pawns) == #",
			"return !from && to", "return false")
		w("def bernsteinFilesPieces : List Nat := %s", leanList(r[0].syms))
		isLit(q, r[1], 0, "0")
		isLit(q, r[2], 0, "0")

		r = q.run("if _, ok := rank[move]; ok", "_, ok := rank[move]", "if !IsMoveSafe(pos, side, move)", "case develop(move): rank[move] = #", "rank[move] = #",
			"case chains(move): rank[move] = #", "rank[move] = #", "case files(move): rank[move] = #", "rank[move] = #", "case move.Piece == board.@: rank[move] = #", "rank[move] = #",
			"default: rank[move] = #", "rank[move] = #")
		w("-- questions 4 to 8: `rank[move] = ..` for develop, chains, files, `Piece == <piece>`, any other safe move")
		w("def bernsteinRankDevelop : Int := %s", leanInt(lit1(q, r[3])))
		w("def bernsteinRankChains : Int := %s", leanInt(lit1(q, r[5])))
		w("def bernsteinRankFiles : Int := %s", leanInt(lit1(q, r[7])))
		w("def bernsteinRankPawnPiece : Nat := %s", sym1(q, r[9]))
		w("def bernsteinRankPawn : Int := %s", leanInt(lit1(q, r[9])))
		w("def bernsteinRankOther : Int := %s", leanInt(lit1(q, r[11])))
		q.done()

		q = be.stmts(b, "TA1", "")
		r = q.run("if side == board.@", "return board.MovePriority(move.To.Rank().V()*# + move.To.File().V())",
			"return board.MovePriority((#-move.To.Rank().V())*# + (# - move.To.File().V()))")
		w("-- TA1: `if side == <colour> { rank*<a> + file } else { (<b>-rank)*<c> + (<d> - file) }`")
		w("def bernsteinTA1Side : Nat := %s", sym1(q, r[0]))
		w("def bernsteinTA1Mul : Int := %s", leanInt(r[1].lits[0]))
		w("def bernsteinTA1OppRankFrom : Int := %s", leanInt(r[2].lits[0]))
		w("def bernsteinTA1OppMul : Int := %s", leanInt(r[2].lits[1]))
		w("def bernsteinTA1OppFileFrom : Int := %s", leanInt(r[2].lits[2]))
		q.done()

		q = be.stmts(b, "Table1", "")
		r = q.run("switch move.Piece", "case board.@: ...", "switch move.From.File()")
		w("-- Table1: `case <piece>: switch move.From.File() { case <file>: return <value> .. default: return <fileDefault> }; default: return <default>`")
		w("def bernsteinTable1Piece : Nat := %s", sym1(q, r[1]))
		var fk [][]string
		var fv []string
		var dfl []string
		for _, e := range q.entries {
			switch {
			case e.skel == "case board.@: return #":
				fk = append(fk, e.syms)
				fv = append(fv, e.lits[0])
				q.mark(e)
			case e.skel == "default: return #":
				dfl = append(dfl, e.lits[0])
				q.mark(e)
			case strings.HasPrefix(e.skel, "case ") && e.skel != "case board.@: ...":
				fail("bernstein.Table1: case clause of unexpected shape %q", e.skel)
			}
		}
		if len(fk) == 0 || len(dfl) != 2 {
			fail("bernstein.Table1: shape not recognised (%d file cases, %d defaults)", len(fk), len(dfl))
		}
		w("def bernsteinTable1Files : List (Nat × Int) := %s", flat(fk, fv, leanInt))
		w("def bernsteinTable1FileDefault : Int := %s", leanInt(dfl[0]))
		w("def bernsteinTable1Default : Int := %s", leanInt(dfl[1]))
		q.done()

		fl := bem.flagDefaults()
		w("-- cmd/bernstein/main.go: flag defaults (`Depth: *ply`, `PlausibleMoveTable{Limit: *branch}`, `Eval{Factor: *material}`, `Noise: *noise`)")
		w("def bernsteinDefaultPly : Int := %s", flagOf(fl, "ply"))
		w("def bernsteinDefaultBranch : Int := %s", flagOf(fl, "branch"))
		w("def bernsteinDefaultMaterial : Int := %s", flagOf(fl, "material"))
		w("def bernsteinDefaultNoise : Int := %s", flagOf(fl, "noise"))
		w("")
	})

	// ---- cmd/sargon/sargon ----
	section(&sb, "Engines.lean", "sargon", func() {
		w("-- cmd/sargon/sargon/eval.go")
		q := sa.stmts(b, "Evaluate", "Points")
		r := q.run("if ptschk", "return mtrl*# + brdc/#")
		w("-- Points.Evaluate: `if ptschk { return mtrl*<a> + brdc/<b> }`; `return mtrl*<c> + eval.Limit(brdc-r.brdc0, <limit>) + brdc/<d>`")
		w("def sargonChkMtrlScale : Int := %s", leanInt(r[1].lits[0]))
		w("def sargonChkBrdcDiv : Int := %s", leanInt(r[1].lits[1]))
		e := q.one("return mtrl*# + eval.Limit(brdc-r.brdc0, #) + brdc/#")
		w("def sargonMtrlScale : Int := %s", leanInt(e.lits[0]))
		w("def sargonBrdcLimit : Int := %s", leanInt(e.lits[1]))
		w("def sargonBrdcDiv : Int := %s", leanInt(e.lits[2]))
		q.done()

		q = sa.stmts(b, "Material", "")
		q.zeros("for pieces != #", 1)
		q.one("mtrl := eval.Material{}.Evaluate(ctx, b)")
		q.one("case v < ptsl: ...")
		q.one("case ptsw1 < v: ptsw1, ptsw2 = v, ptsw1")
		q.one("case ptsw2 < v: ptsw2 = v")
		w("-- Material: `ptsw1, ptsw2 = ptsw2, <reset>`; `if loss < <below> { loss = <a>*ptsl + <b> }`; `if win > <above> { win = (<c>*ptsw2 - <d>) / <e> }`")
		w("def sargonPtsw2Reset : Int := %s", leanInt(q.lit("ptsw1, ptsw2 = ptsw2, #")))
		r = q.run("loss := ptsl", "if loss < #", "loss = #*ptsl + #", "win := ptsw2", "if win > #", "win = (#*ptsw2 - #) / #", "mtrl -= loss + win", "return mtrl, ptschk")
		w("def sargonLossBelow : Int := %s", leanInt(lit1(q, r[1])))
		w("def sargonLossMul : Int := %s", leanInt(r[2].lits[0]))
		w("def sargonLossAdd : Int := %s", leanInt(r[2].lits[1]))
		w("def sargonWinAbove : Int := %s", leanInt(lit1(q, r[4])))
		w("def sargonWinMul : Int := %s", leanInt(r[5].lits[0]))
		w("def sargonWinSub : Int := %s", leanInt(r[5].lits[1]))
		w("def sargonWinDiv : Int := %s", leanInt(r[5].lits[2]))
		q.done()

		q = sa.stmts(b, "Development", "")
		um := "# * eval.Pawns((pos.Piece(own, board.@)&^mask).PopCount()-(pos.Piece(opp, board.@)&^mask).PopCount())"
		mv := "# * eval.Pawns((pos.Piece(own, board.@)&mask).PopCount()-(pos.Piece(opp, board.@)&mask).PopCount())"
		r = q.run("mask := b.HasMoved(#)", "pawns := -"+um, "pawns -= "+um, "if b.FullMoves() < #", "pawns -= "+mv, "pawns -= "+mv,
			"pawns += king(b.HasCastled(own), (pos.Piece(own, board.@)&mask) != #)", "pawns -= king(b.HasCastled(opp), (pos.Piece(opp, board.@)&mask) != #)", "return pawns")
		w("-- Development: `mask := b.HasMoved(<depth>)`; `-<k>*(unmoved <piece>)` twice; `if b.FullMoves() < <moveno>`: `-<k>*(moved <piece>)` twice; king of <piece>")
		w("def sargonHasMovedDepth : Nat := %s", leanInt(lit1(q, r[0])))
		w("def sargonDevUnmoved : List (Nat × Int) := [(%s, %s), (%s, %s)]", samePair(q, r[1]), leanInt(lit1(q, r[1])), samePair(q, r[2]), leanInt(lit1(q, r[2])))
		w("def sargonDevMoveNo : Int := %s", leanInt(lit1(q, r[3])))
		w("def sargonDevMoved : List (Nat × Int) := [(%s, %s), (%s, %s)]", samePair(q, r[4]), leanInt(lit1(q, r[4])), samePair(q, r[5]), leanInt(lit1(q, r[5])))
		isLit(q, r[6], 0, "0")
		isLit(q, r[7], 0, "0")
		w("def sargonDevKingPiece : List Nat := [%s, %s]", sym1(q, r[6]), sym1(q, r[7]))
		q.done()

		q = sa.stmts(b, "king", "")
		r = q.run("case castled: return #", "return #", "case moved: return -#", "return -#", "default: return #", "return #")
		w("-- king: `castled: <a>`; `moved: <b>`; `default: <c>`")
		w("def sargonKingCastled : Int := %s", leanInt(lit1(q, r[0])))
		w("def sargonKingMoved : Int := %s", leanInt(neg(lit1(q, r[2]))))
		w("def sargonKingOther : Int := %s", leanInt(lit1(q, r[4])))
		q.done()

		q = sa.stmts(b, "BoardControl", "")
		q.one("return Development(ctx, b) + Mobility(ctx, b, pins)")
		q.done()
		q = sa.stmts(b, "Mobility", "")
		r = q.run("for sq < board.@", "sq := board.@", "sq++", "att := FindAttackers(pos, pins, sq, turn)", "opp := FindAttackers(pos, pins, sq, turn.Opponent())",
			"pawns += eval.Pawns(NumAttackers(att) - NumAttackers(opp))", "return pawns")
		w("-- Mobility: `for sq := <from>; sq < <to>; sq++`")
		w("def sargonMobilityFrom : Nat := %s", sym1(q, r[1]))
		w("def sargonMobilityTo : Nat := %s", sym1(q, r[0]))
		q.done()
		w("")

		w("-- cmd/sargon/sargon/exchange.go")
		q = sa.stmts(b, "Exchange", "")
		r = q.run("cur, piece, ok := pos.Square(sq)", "if !ok || piece == board.@", "return #")
		w("-- Exchange: `if !ok || piece == <piece> { return <none> }`")
		w("def sargonExchangeExempt : Nat := %s", sym1(q, r[1]))
		w("def sargonExchangeNone : Int := %s", leanInt(lit1(q, r[2])))
		q.zeros("for len(attackers) > #", 1)
		q.zeros("attacker := attackers[#]", 1)
		isLit(q, q.one("attackers = attackers[#:]"), 0, "1")
		q.zeros("willAttack := len(defenders) == # || val(attacker) <= defender", 1)
		q.zeros("willAttack = willAttack || (len(attackers) > # && val(attacker)+val(attackers[#]) <= defender+val(defenders[#]))", 1)
		q.run("residue += defender", "defender = val(attacker)", "attackers, defenders = defenders, attackers", "residue = -residue", "cur = cur.Opponent()", "if cur == side",
			"return -residue", "return residue")
		q.done()
		q = sa.stmts(b, "val", "")
		q.one("return eval.NominalValue(att.Piece.Piece)")
		q.done()
		q = sa.stmts(b, "findSide", "")
		q.zeros("i := #", 1)
		e = q.one("sort.Slice(ret[i+#:], byValue(ret[i+#:]))")
		isLit(q, e, 0, "1")
		isLit(q, e, 1, "1")
		q.done()
		q = sa.stmts(b, "NumAttackers", "")
		q.zeros("count := #", 1)
		q.done()

		q = sa.stmts(b, "FindAttackers", "")
		r = q.run("var ret []*Attacker", "range _ | piece | board.*")
		name, list := boardListOf(b, r[1].skel)
		w("-- FindAttackers: `for _, piece := range board.%s`, then the pawns", name)
		w("def sargonAttackerOfficers : List Nat := %s", leanList(list))
		q.zeros("for bb != #", 2)
		w("def sargonAttackerPawnMask : Nat := %s", sym1(q, q.one("bb := board.PawnCaptureboard(side.Opponent(), board.BitMask(sq)) & pos.Piece(side, board.@)")))
		w("def sargonAttackerPawnPlaced : Nat := %s", sym1(q, q.one("stack, ok := addAttackerStack(pos, pos.Rotated(), pins, side, board.@, from, sq)")))
		q.done()

		q = sa.stmts(b, "addAttackerStack", "")
		e = q.one("if list := pins[from]; len(list) > # || (len(list) == # && list[#] != target)")
		isLit(q, e, 2, "0")
		w("-- addAttackerStack: pinned when `len(list) > <many> || (len(list) == <one> && list[0] != target)`; nobody stands behind <piece>;")
		w("-- behind on a rank/file: <pieces>; behind on a diagonal: <pieces>")
		w("def sargonPinnedAbove : Nat := %s", leanInt(e.lits[0]))
		w("def sargonPinnedExactly : Nat := %s", leanInt(e.lits[1]))
		w("def sargonStackFront : Nat := %s", sym1(q, q.one("if piece == board.@")))
		r = q.run("if board.IsSameRankOrFile(from, target)", "attackboard := board.RookAttackboard(next, target) &^ board.RookAttackboard(r, target)",
			"bb = attackboard & (pos.Piece(side, board.@) | pos.Piece(side, board.@))")
		w("def sargonStackLine : List Nat := %s", leanList(r[2].syms))
		r = q.run("if board.IsSameDiagonal(from, target)", "attackboard := board.BishopAttackboard(next, target) &^ board.BishopAttackboard(r, target)",
			"bb = attackboard & (pos.Piece(side, board.@) | pos.Piece(side, board.@))")
		w("def sargonStackDiagonal : List Nat := %s", leanList(r[2].syms))
		q.zeros("if bb != #", 1)
		q.done()

		q = sa.stmts(b, "FindKingQueenPins", "")
		r = q.run("for side < board.@", "side := board.@", "side++", "range _ | piece | board.*", "pins = append(pins, eval.FindPins(pos, side, piece)...)")
		name, list = boardListOf(b, r[3].skel)
		w("-- FindKingQueenPins: `for side := <from>; side < <to>; side++ { for _, piece := range board.%s`", name)
		w("def sargonPinSidesFrom : Nat := %s", sym1(q, r[1]))
		w("def sargonPinSidesTo : Nat := %s", sym1(q, r[0]))
		w("def sargonPinTargets : List Nat := %s", leanList(list))
		q.done()
		w("")

		w("-- cmd/sargon/sargon/search.go")
		q = sa.stmts(b, "QuietSearch", "OnePlyIfChecked")
		w("-- OnePlyIfChecked.QuietSearch: `return <nodes>, HeuristicScore(..)` when not in check; else `s.Search(ctx, sctx, b, <depth>)`")
		w("def sargonQuietNodes : Nat := %s", leanInt(q.lit("return #, eval.HeuristicScore(q.Leaf.Evaluate(ctx, sctx, b))")))
		w("def sargonCheckDepth : Nat := %s", leanInt(q.lit("nodes, score, _, _ := s.Search(ctx, sctx, b, #)")))
		q.done()
		q = sa.stmts(b, "SkipUnderPromotions", "")
		q.one("return search.MVVLVA, board.Move.IsNotUnderPromotion")
		q.done()
		fl := sam.flagDefaults()
		w("-- cmd/sargon/main.go: flag defaults")
		w("def sargonDefaultPly : Int := %s", flagOf(fl, "ply"))
		w("def sargonDefaultNoise : Int := %s", flagOf(fl, "noise"))
		w("")
	})

	// ---- cmd/turochamp/turochamp ----
	section(&sb, "Engines.lean", "turochamp", func() {
		w("-- cmd/turochamp/turochamp/eval.go")
		q := tu.stmts(b, "pieceValue", "")
		q.one("switch piece")
		keys, vals, deflt := caseTable(q)
		if deflt != "" {
			fail("turochamp.pieceValue: unexpected default value")
		}
		q.one("default: panic(\"invalid piece\")")
		q.done()
		w("-- pieceValue: (piece, numerator, denominator) of every `case`; the `default` panics")
		w("def turochampPieceValue : List (Nat × Int × Nat) := %s", flat(keys, vals, ratInner))

		q = tu.stmts(b, "material", "")
		r := q.run("var score eval.Pawns", "range _ | piece | board.*", "score += pieceValue(piece) * eval.Pawns(pos.Piece(turn, piece).PopCount())", "if score == #", "return #", "return score")
		name, list := boardListOf(b, r[1].skel)
		w("-- material: `for _, piece := range board.%s`; `if score == <zero> { return <bare> }`", name)
		w("def turochampMaterialPieces : List Nat := %s", leanList(list))
		w("def turochampMaterialZero : Int × Nat := %s", leanRat(lit1(q, r[3])))
		w("def turochampMaterialBare : Int × Nat := %s", leanRat(lit1(q, r[4])))
		q.done()

		q = tu.stmts(b, "Evaluate", "Material")
		w("-- Material.Evaluate: `own == opp: return <equal>`; `own > opp: return own / opp`; `default: return -opp / own`")
		w("def turochampRatioEqual : Int × Nat := %s", leanRat(q.lit("case own == opp: return #")))
		q.one("case own > opp: return own / opp")
		q.one("default: return -opp / own")
		q.done()

		q = tu.stmts(b, "Evaluate", "Eval")
		q.one("pp := PositionPlay(b, b.Turn()) - PositionPlay(b, b.Turn().Opponent())")
		e := q.one("m := eval.Pawns(math.Round(float64(mat)*#) * #)")
		w("-- Eval.Evaluate: `m := Pawns(math.Round(float64(mat)*<a>) * <b>)`; `p := Pawns(math.Round(float64(pp)*<c>) / <d>)`; `return m + p`")
		w("def turochampMatScale : Int × Nat := %s", leanRat(e.lits[0]))
		w("def turochampMatShift : Int × Nat := %s", leanRat(e.lits[1]))
		e = q.one("p := eval.Pawns(math.Round(float64(pp)*#) / #)")
		w("def turochampPlayScale : Int × Nat := %s", leanRat(e.lits[0]))
		w("def turochampPlayDiv : Int × Nat := %s", leanRat(e.lits[1]))
		q.one("return m + p")
		q.done()

		q = tu.stmts(b, "PositionPlay", "")
		r = q.run("if pos.Castling()&board.CastlingRights(turn) != #", "score += #", "if b.HasCastled(turn)", "score += #", "if pos.IsChecked(turn.Opponent())", "score += #")
		isLit(q, r[0], 0, "0")
		w("-- PositionPlay: the bonuses `score += ..` for castling rights, having castled, giving check, a mating move, a castling move")
		w("def turochampCastlingRights : Int × Nat := %s", leanRat(lit1(q, r[1])))
		w("def turochampHasCastled : Int × Nat := %s", leanRat(lit1(q, r[3])))
		w("def turochampGivesCheck : Int × Nat := %s", leanRat(lit1(q, r[5])))
		r = q.run("if !mayCheckMate && next.IsCheckMate(turn.Opponent())", "mayCheckMate = true", "score += #", "if !mayCastle && m.IsCastle()", "mayCastle = true", "score += #",
			"if m.Piece != board.@ && !m.IsCastle()", "mobility[m.From]++", "if m.Type == board.@", "mobility[m.From]++")
		w("def turochampMayMate : Int × Nat := %s", leanRat(lit1(q, r[2])))
		w("def turochampMayCastle : Int × Nat := %s", leanRat(lit1(q, r[5])))
		w("-- mobility counts the moves of every piece but <piece>, twice when `m.Type == <type>`; `score += Pawns(math.Round(<a>*math.Sqrt(n))) / <b>`")
		w("def turochampMobilityExcluded : Nat := %s", sym1(q, r[6]))
		w("def turochampMobilityDouble : Nat := %s", sym1(q, r[8]))
		r = q.run("range _ | n | mobility", "score += eval.Pawns(math.Round(#*math.Sqrt(float64(n)))) / #")
		w("def turochampSqrtScale : Int × Nat := %s", leanRat(r[1].lits[0]))
		w("def turochampSqrtDiv : Int × Nat := %s", leanRat(r[1].lits[1]))
		r = q.run("middle := pos.Piece(turn, board.@) | pos.Piece(turn, board.@) | pos.Piece(turn, board.@)", "for middle != #", "from := middle.LastPopSquare()", "middle ^= board.BitMask(from)",
			"defenders := #", "range _ | p | board.*", "if bb := board.Attackboard(pos.Rotated(), from, p) & pos.Piece(turn, p); bb != #", "bb := board.Attackboard(*", "defenders += bb.PopCount()",
			"if bb := board.PawnCaptureboard(turn, pos.Piece(turn, board.@)) & board.BitMask(from); bb != #", "bb := board.PawnCaptureboard(*", "defenders += bb.PopCount()",
			"if defenders > #", "score += #", "if defenders > #", "score += #")
		isLit(q, r[1], 0, "0")
		isLit(q, r[4], 0, "0")
		isLit(q, r[6], 0, "0")
		isLit(q, r[9], 0, "0")
		name, list = boardListOf(b, r[5].skel)
		w("-- the pieces whose defence counts; defenders: `range board.%s`, then pawns; `if defenders > <a> { score += <b> }` twice", name)
		w("def turochampMiddle : List Nat := %s", leanList(r[0].syms))
		w("def turochampDefenderOfficers : List Nat := %s", leanList(list))
		w("def turochampDefenderPawn : Nat := %s", sym1(q, r[9]))
		w("def turochampDefendedAbove : Int := %s", leanInt(lit1(q, r[12])))
		w("def turochampDefended : Int × Nat := %s", leanRat(lit1(q, r[13])))
		w("def turochampDefendedTwiceAbove : Int := %s", leanInt(lit1(q, r[14])))
		w("def turochampDefendedTwice : Int × Nat := %s", leanRat(lit1(q, r[15])))
		r = q.run("if king := pos.Piece(turn, board.@); king != #", "king := pos.Piece(turn, board.@)", "attackboard := board.QueenAttackboard(pos.Rotated(), king.LastPopSquare())",
			"safety := (attackboard &^ pos.Color(turn)).PopCount()", "score -= eval.Pawns(math.Round(#*math.Sqrt(float64(safety)))) / #")
		isLit(q, r[0], 0, "0")
		w("-- king safety: `score -= Pawns(math.Round(<a>*math.Sqrt(safety))) / <b>`")
		w("def turochampSafetyPiece : Nat := %s", sym1(q, r[0]))
		w("def turochampSafetyScale : Int × Nat := %s", leanRat(r[4].lits[0]))
		w("def turochampSafetyDiv : Int × Nat := %s", leanRat(r[4].lits[1]))
		q.zeros("for pawns != #", 1)
		w("def turochampPawnPiece : Nat := %s", sym1(q, q.one("pawns := pos.Piece(turn, board.@)")))
		r = q.run("ranks := #", "if turn == board.@", "ranks += int(from.Rank() - board.@)", "ranks += int(board.@ - from.Rank())", "score += # * eval.Pawns(ranks)",
			"range _ | p | board.*", "if bb := board.Attackboard(pos.Rotated(), from, p) & pos.Piece(turn, p); bb != #", "bb := board.Attackboard(*", "score += #")
		isLit(q, r[0], 0, "0")
		isLit(q, r[6], 0, "0")
		name, list = boardListOf(b, r[5].skel)
		w("-- pawns: `if turn == <colour> { ranks += Rank() - <rank> } else { ranks += <rank> - Rank() }`; `score += <a> * Pawns(ranks)`; defended by one of board.%s: `score += <b>`", name)
		w("def turochampPawnSide : Nat := %s", sym1(q, r[1]))
		w("def turochampPawnHome : Nat := %s", sym1(q, r[2]))
		w("def turochampPawnHomeOpp : Nat := %s", sym1(q, r[3]))
		w("def turochampPawnRank : Int × Nat := %s", leanRat(lit1(q, r[4])))
		w("def turochampPawnDefenders : List Nat := %s", leanList(list))
		w("def turochampPawnDefended : Int × Nat := %s", leanRat(lit1(q, r[8])))
		q.done()

		q = tu.stmts(b, "IsConsiderableMove", "")
		q.one("if pieceValue(m.Piece) < pieceValue(m.Capture)")
		q.done()
		q = tu.stmts(b, "ConsiderableMovesOnly", "")
		q.done()
		fl := tum.flagDefaults()
		w("-- cmd/turochamp/main.go: flag defaults")
		w("def turochampDefaultPly : Int := %s", flagOf(fl, "ply"))
		w("def turochampDefaultNoise : Int := %s", flagOf(fl, "noise"))
	})

	w("")
	w("end Morlock.Gen")
	path := filepath.Join(out, "Engines.lean")
	old, _ := os.ReadFile(path)
	if string(old) != sb.String() {
		if err := os.WriteFile(path, []byte(sb.String()), 0o644); err != nil {
			fail("%v", err)
		}
		fmt.Println("Gen/Engines.lean regenerated (changed)")
	} else {
		fmt.Println("Gen/Engines.lean unchanged")
	}
}
