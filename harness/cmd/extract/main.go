// Command extract regenerates Morlock/Gen/Facts.lean from /repo's current Go source:
// the hand-typed tables, constants, iota enums, ordered piece lists and switch-value tables that
// the Lean models import. go/parser + go/types only; it copies literals and constant values, it
// does not interpret code.
package main

import (
	"crypto/sha256"
	"flag"
	"fmt"
	"go/ast"
	"go/constant"
	"go/importer"
	"go/parser"
	"go/printer"
	"go/token"
	"go/types"
	"os"
	"path/filepath"
	"sort"
	"strings"
)

type pkgInfo struct {
	fset  *token.FileSet
	files []*ast.File
	info  *types.Info
	pkg   *types.Package
}

func load(dir string) *pkgInfo {
	fset := token.NewFileSet()
	pkgs, err := parser.ParseDir(fset, dir, func(fi os.FileInfo) bool {
		return !strings.HasSuffix(fi.Name(), "_test.go")
	}, parser.ParseComments)
	if err != nil {
		fail("parse %v: %v", dir, err)
	}
	var files []*ast.File
	for _, p := range pkgs {
		names := []string{}
		for n := range p.Files {
			names = append(names, n)
		}
		sort.Strings(names)
		for _, n := range names {
			files = append(files, p.Files[n])
		}
	}
	info := &types.Info{Types: map[ast.Expr]types.TypeAndValue{}, Defs: map[*ast.Ident]types.Object{}}
	conf := types.Config{Importer: importer.Default(), Error: func(error) {}, FakeImportC: true}
	pkg, _ := conf.Check(dir, fset, files, info)
	return &pkgInfo{fset: fset, files: files, info: info, pkg: pkg}
}

func fail(f string, a ...interface{}) {
	fmt.Fprintf(os.Stderr, "extract: "+f+"\n", a...)
	os.Exit(1)
}

func (p *pkgInfo) constInt(name string) string {
	obj := p.pkg.Scope().Lookup(name)
	c, ok := obj.(*types.Const)
	if !ok {
		fail("constant %v not found", name)
	}
	v := constant.ToInt(c.Val())
	if v.Kind() != constant.Int {
		fail("constant %v is not an integer: %v", name, c.Val())
	}
	return v.ExactString()
}

// varDecl finds the value expression of a package-level var.
func (p *pkgInfo) varDecl(name string) ast.Expr {
	for _, f := range p.files {
		for _, d := range f.Decls {
			g, ok := d.(*ast.GenDecl)
			if !ok || g.Tok != token.VAR {
				continue
			}
			for _, s := range g.Specs {
				vs := s.(*ast.ValueSpec)
				for i, n := range vs.Names {
					if n.Name == name && i < len(vs.Values) {
						return vs.Values[i]
					}
				}
			}
		}
	}
	fail("var %v not found", name)
	return nil
}

func (p *pkgInfo) exprInt(e ast.Expr) string {
	tv, ok := p.info.Types[e]
	if !ok || tv.Value == nil {
		fail("expression at %v is not constant", p.fset.Position(e.Pos()))
	}
	v := constant.ToInt(tv.Value)
	if v.Kind() != constant.Int {
		fail("expression at %v is not an integer constant", p.fset.Position(e.Pos()))
	}
	return v.ExactString()
}

// table returns the elements of a composite-literal array var.
func (p *pkgInfo) table(name string) []string {
	cl, ok := p.varDecl(name).(*ast.CompositeLit)
	if !ok {
		fail("var %v is not a composite literal", name)
	}
	var ret []string
	for _, e := range cl.Elts {
		ret = append(ret, p.exprInt(e))
	}
	return ret
}

// identList returns the identifiers of a composite literal such as []Piece{King, Queen}.
func (p *pkgInfo) identList(name string) []string {
	cl, ok := p.varDecl(name).(*ast.CompositeLit)
	if !ok {
		fail("var %v is not a composite literal", name)
	}
	var ret []string
	for _, e := range cl.Elts {
		ret = append(ret, p.exprInt(e))
	}
	return ret
}

// bitMaskArgs returns the constant arguments of all BitMask(..) calls in a var's initialiser.
func (p *pkgInfo) bitMaskArgs(name string) []string {
	var ret []string
	ast.Inspect(p.varDecl(name), func(n ast.Node) bool {
		if c, ok := n.(*ast.CallExpr); ok {
			if id, ok := c.Fun.(*ast.Ident); ok && id.Name == "BitMask" && len(c.Args) == 1 {
				ret = append(ret, p.exprInt(c.Args[0]))
			}
		}
		return true
	})
	return ret
}

// enum lists the constants of a named type in declaration order.
func (p *pkgInfo) enum(typeName string, skip map[string]bool) [][2]string {
	var ret [][2]string
	for _, f := range p.files {
		for _, d := range f.Decls {
			g, ok := d.(*ast.GenDecl)
			if !ok || g.Tok != token.CONST {
				continue
			}
			for _, s := range g.Specs {
				vs := s.(*ast.ValueSpec)
				for _, n := range vs.Names {
					obj, ok := p.info.Defs[n].(*types.Const)
					if !ok {
						continue
					}
					named, ok := obj.Type().(*types.Named)
					if !ok || named.Obj().Name() != typeName || named.Obj().Pkg() != p.pkg || skip[n.Name] {
						continue
					}
					if obj.Val().Kind() == constant.String {
						ret = append(ret, [2]string{n.Name, "0"})
						continue
					}
					ret = append(ret, [2]string{n.Name, constant.ToInt(obj.Val()).ExactString()})
				}
			}
		}
	}
	if len(ret) == 0 {
		fail("enum %v not found", typeName)
	}
	return ret
}

func (p *pkgInfo) funcDecl(name, recv string) *ast.FuncDecl {
	for _, f := range p.files {
		for _, d := range f.Decls {
			fd, ok := d.(*ast.FuncDecl)
			if !ok || fd.Name.Name != name {
				continue
			}
			r := ""
			if fd.Recv != nil && len(fd.Recv.List) > 0 {
				switch t := fd.Recv.List[0].Type.(type) {
				case *ast.Ident:
					r = t.Name
				case *ast.StarExpr:
					if id, ok := t.X.(*ast.Ident); ok {
						r = id.Name
					}
				}
			}
			if r == recv {
				return fd
			}
		}
	}
	return nil
}

// switchTable extracts `case A, B: return <const>` pairs of the first switch in a function.
func (p *pkgInfo) switchTable(fn, recv string) [][2]string {
	fd := p.funcDecl(fn, recv)
	if fd == nil {
		fail("func %v not found", fn)
	}
	var ret [][2]string
	ast.Inspect(fd.Body, func(n ast.Node) bool {
		cc, ok := n.(*ast.CaseClause)
		if !ok {
			return true
		}
		if len(cc.Body) != 1 {
			return true
		}
		rs, ok := cc.Body[0].(*ast.ReturnStmt)
		if !ok || len(rs.Results) != 1 {
			return true
		}
		tv, ok := p.info.Types[rs.Results[0]]
		if !ok || tv.Value == nil {
			return true
		}
		val := tv.Value.ExactString()
		if cc.List == nil {
			ret = append(ret, [2]string{"default", val})
		}
		for _, e := range cc.List {
			name := ""
			switch t := e.(type) {
			case *ast.Ident:
				name = t.Name
			case *ast.SelectorExpr:
				name = t.Sel.Name
			default:
				name = "?"
			}
			ret = append(ret, [2]string{name, val})
		}
		return true
	})
	if len(ret) == 0 {
		fail("no switch table in %v", fn)
	}
	return ret
}

func (p *pkgInfo) bodyHash(fn, recv string) string {
	fd := p.funcDecl(fn, recv)
	if fd == nil {
		return "missing"
	}
	var sb strings.Builder
	printer.Fprint(&sb, p.fset, fd)
	return fmt.Sprintf("%x", sha256.Sum256([]byte(sb.String())))[:16]
}

func leanList(xs []string) string { return "[" + strings.Join(xs, ", ") + "]" }
func leanArr(xs []string) string  { return "#[" + strings.Join(xs, ", ") + "]" }
func leanPairs(xs [][2]string, ratAsPair bool) string {
	var parts []string
	for _, x := range xs {
		v := x[1]
		if strings.Contains(v, "/") {
			fail("non-integral value %v for %v", v, x[0])
		}
		if strings.HasPrefix(v, "-") {
			v = "(" + v + ")"
		}
		parts = append(parts, fmt.Sprintf("(\"%s\", %s)", x[0], v))
	}
	return "[" + strings.Join(parts, ", ") + "]"
}

func main() {
	repo := flag.String("repo", "/repo", "repository root")
	out := flag.String("out", "", "output directory (Morlock/Gen)")
	hashes := flag.String("hashes", "", "optional file for sha256 prefixes of modelled function bodies (informative)")
	flag.Parse()
	if *out == "" {
		fail("missing -out")
	}
	var sb strings.Builder
	w := func(f string, a ...interface{}) { fmt.Fprintf(&sb, f+"\n", a...) }
	flush := func(name string) {
		w("")
		w("end Morlock.Gen")
		path := filepath.Join(*out, name)
		old, _ := os.ReadFile(path)
		if string(old) != sb.String() {
			if err := os.WriteFile(path, []byte(sb.String()), 0o644); err != nil {
				fail("%v", err)
			}
			fmt.Printf("Gen/%s regenerated (changed)\n", name)
		} else {
			fmt.Printf("Gen/%s unchanged\n", name)
		}
		sb.Reset()
	}
	if err := os.MkdirAll(*out, 0o755); err != nil {
		fail("%v", err)
	}

	w("/-! GENERATED by /verif/harness/cmd/extract from %s — do not edit. Regenerated on every check. -/", *repo)
	w("namespace Morlock.Gen")
	w("")

	b := load(filepath.Join(*repo, "pkg/board"))
	w("-- pkg/board/bitboard.go: hand-typed rotation tables")
	for _, t := range []string{"rot90", "rot45L", "rot45R", "mask45L", "mask45R", "off45L", "off45R"} {
		xs := b.table(t)
		if len(xs) != 64 {
			fail("table %v has %d entries", t, len(xs))
		}
		w("def %s : Array Nat := %s", t, leanArr(xs))
	}
	w("def numStates : Nat := %s", b.constInt("numStates"))
	flush("Tables.lean")

	w("/-! GENERATED by /verif/harness/cmd/extract from %s — do not edit. Regenerated on every check. -/", *repo)
	w("namespace Morlock.Gen")
	w("")
	w("-- pkg/board/position.go")
	w("def whiteSquareMask : Nat := %s", b.exprInt(b.varDecl("whiteSquareMask")))
	for _, m := range []string{"whiteKingSideCastlingMask", "whiteQueenSideCastlingMask", "blackKingSideCastlingMask", "blackQueenSideCastlingMask"} {
		w("def %s : List Nat := %s", m, leanList(b.bitMaskArgs(m)))
	}
	w("")
	w("-- pkg/board/board.go")
	for _, c := range []string{"repetition3Limit", "repetition5Limit", "noprogressPlyLimit"} {
		w("def %s : Nat := %s", c, b.constInt(c))
	}
	w("")
	w("-- enums (declaration order, value)")
	w("def enumSquare : List (String × Nat) := %s", leanPairs(b.enum("Square", map[string]bool{"ZeroSquare": true, "NumSquares": true}), false))
	w("def enumPiece : List (String × Nat) := %s", leanPairs(b.enum("Piece", map[string]bool{"ZeroPiece": true, "NumPieces": true}), false))
	w("def enumColor : List (String × Nat) := %s", leanPairs(b.enum("Color", map[string]bool{"ZeroColor": true, "NumColors": true}), false))
	w("def enumMoveType : List (String × Nat) := %s", leanPairs(b.enum("MoveType", nil), false))
	w("def enumCastling : List (String × Nat) := %s", leanPairs(b.enum("Castling", nil), false))
	w("def enumOutcome : List (String × Nat) := %s", leanPairs(b.enum("Outcome", nil), false))
	w("def enumRank : List (String × Nat) := %s", leanPairs(b.enum("Rank", map[string]bool{"ZeroRank": true, "NumRanks": true}), false))
	w("def enumFile : List (String × Nat) := %s", leanPairs(b.enum("File", map[string]bool{"ZeroFile": true, "NumFiles": true}), false))
	w("def zeroPiece : Nat := %s", b.constInt("ZeroPiece"))
	w("def numPieces : Nat := %s", b.constInt("NumPieces"))
	w("def numSquares : Nat := %s", b.constInt("NumSquares"))
	w("def numCastling : Nat := %s", b.constInt("NumCastling"))
	w("")
	w("-- ordered piece lists (order matters for generator order)")
	for _, l := range []string{"AllPieces", "KingQueen", "KingQueenRookKnightBishop", "QueenRookBishop", "QueenRookKnightBishop", "QueenRookKnightBishopPawn"} {
		w("def list%s : List Nat := %s", l, leanList(b.identList(l)))
	}
	w("")

	e := load(filepath.Join(*repo, "pkg/eval"))
	w("-- pkg/eval")
	w("def enumScoreType : List (String × Nat) := %s", leanPairs(e.enum("ScoreType", nil), false))
	w("def nominalValue : List (String × Int) := %s", leanPairs(e.switchTable("NominalValue", ""), false))
	w("")

	s := load(filepath.Join(*repo, "pkg/search"))
	w("-- pkg/search")
	w("def enumBound : List (String × Nat) := %s", leanPairs(s.enum("Bound", nil), false))
	w("")

	type fn struct {
		p          *pkgInfo
		name, recv string
	}
	fns := []fn{
		{b, "Move", "Position"}, {b, "PseudoLegalMoves", "Position"}, {b, "IsAttackedBy", "Position"},
		{b, "HasInsufficientMaterial", "Position"}, {b, "xor", "Position"}, {b, "Square", "Position"},
		{b, "PushMove", "Board"}, {b, "PopMove", "Board"}, {b, "Fork", "Board"}, {b, "identicalPositionCount", "Board"},
		{b, "updateNoProgress", ""}, {b, "Hash", "ZobristTable"}, {b, "Move", "ZobristTable"},
		{b, "CastlingRightsLost", "Move"}, {b, "CastlingRookMove", "Move"}, {b, "EnPassantTarget", "Move"},
		{b, "EnPassantCapture", "Move"}, {b, "ParseMove", ""}, {b, "RookAttackboard", ""}, {b, "BishopAttackboard", ""},
		{b, "PawnCaptureboard", ""}, {b, "PawnMoveboard", ""}, {b, "Xor", "RotatedBitboard"},
		{e, "Less", "Score"}, {e, "Negate", "Score"}, {e, "IncrementMateDistance", ""}, {e, "MateDistance", "Score"},
		{s, "search", "runAlphaBeta"}, {s, "search", "runQuiescence"}, {s, "search", "runMinimax"},
		{s, "Read", "table"}, {s, "Write", "table"}, {s, "val", ""}, {s, "MVVLVA", ""},
	}
	var hs []string
	for _, f := range fns {
		hs = append(hs, fmt.Sprintf("(\"%s.%s\", \"%s\")", f.recv, f.name, f.p.bodyHash(f.name, f.recv)))
	}
	flush("Facts.lean")
	if *hashes != "" {
		js := "{\n" + strings.ReplaceAll(strings.ReplaceAll(strings.ReplaceAll(strings.Join(hs, ",\n"), "(\"", " \""), "\", \"", "\": \""), "\")", "\"") + "\n}\n"
		_ = os.WriteFile(*hashes, []byte(js), 0o644)
	}
}
