// Command extract regenerates Morlock/Gen/Facts.lean from /repo's current Go source:
// the hand-typed tables, constants, iota enums, ordered piece lists and switch-value tables that
// the Lean models import. go/parser + go/types only; it copies literals and constant values, it
// does not interpret code.
package main

import (
	"crypto/sha256"
	"flag"
	"fmt"
	"go/ast"
	"go/constant"
	"go/importer"
	"go/parser"
	"go/printer"
	"go/token"
	"go/types"
	"os"
	"path/filepath"
	"sort"
	"strconv"
	"strings"
)

type pkgInfo struct {
	fset  *token.FileSet
	files []*ast.File
	info  *types.Info
	pkg   *types.Package
}

func load(dir string) *pkgInfo {
	fset := token.NewFileSet()
	pkgs, err := parser.ParseDir(fset, dir, func(fi os.FileInfo) bool {
		return !strings.HasSuffix(fi.Name(), "_test.go")
	}, parser.ParseComments)
	if err != nil {
		fail("parse %v: %v", dir, err)
	}
	var files []*ast.File
	for _, p := range pkgs {
		names := []string{}
		for n := range p.Files {
			names = append(names, n)
		}
		sort.Strings(names)
		for _, n := range names {
			files = append(files, p.Files[n])
		}
	}
	info := &types.Info{Types: map[ast.Expr]types.TypeAndValue{}, Defs: map[*ast.Ident]types.Object{}}
	conf := types.Config{Importer: importer.Default(), Error: func(error) {}, FakeImportC: true}
	pkg, _ := conf.Check(dir, fset, files, info)
	return &pkgInfo{fset: fset, files: files, info: info, pkg: pkg}
}

// failure is what `fail` raises: inside a `section` it makes that section fall back to the baseline copy.
type failure struct{ msg string }

func fail(f string, a ...interface{}) { panic(failure{fmt.Sprintf(f, a...)}) }

func fatal(f string, a ...interface{}) {
	fmt.Fprintf(os.Stderr, "extract: "+f+"\n", a...)
	os.Exit(1)
}

// baselineDir holds the Gen files written from the tree the models were validated on (`./check --rebaseline`).
var baselineDir string

func baselineSection(file, label string) string {
	if baselineDir == "" {
		return ""
	}
	data, err := os.ReadFile(filepath.Join(baselineDir, file))
	if err != nil {
		return ""
	}
	txt := string(data)
	bm, em := "-- §begin "+label+"\n", "-- §end "+label+"\n"
	i := strings.Index(txt, bm)
	if i < 0 {
		return ""
	}
	j := strings.Index(txt[i:], em)
	if j < 0 {
		return ""
	}
	return txt[i+len(bm) : i+j]
}

// section runs fn, which appends definitions to sb. When fn cannot read what it expects in the source (the shape of the
// code changed: a harmless rewrite does that as well as a harmful one), the definitions of this section are taken from the
// baseline copy instead and the section is reported as STALE on stdout: for these facts the tie between source and model
// then rests on the implementation-vs-model streams of the run alone. Without a baseline the failure is fatal.
func section(sb *strings.Builder, file, label string, fn func()) {
	start := sb.Len()
	fmt.Fprintf(sb, "-- §begin %s\n", label)
	func() {
		defer func() {
			r := recover()
			if r == nil {
				return
			}
			f, ok := r.(failure)
			if !ok {
				panic(r)
			}
			msg := strings.Join(strings.Fields(f.msg), " ")
			old := baselineSection(file, label)
			if old == "" {
				fatal("%s (no baseline for section %q of %s)", msg, label, file)
			}
			head := sb.String()[:start]
			sb.Reset()
			sb.WriteString(head)
			fmt.Fprintf(sb, "-- §begin %s\n", label)
			sb.WriteString(old)
			fmt.Fprintf(sb, "-- STALE (taken from the baseline): %s\n", msg)
			fmt.Printf("STALE Gen/%s section %q: %s\n", file, label, msg)
		}()
		fn()
	}()
	fmt.Fprintf(sb, "-- §end %s\n", label)
}

func (p *pkgInfo) constInt(name string) string {
	obj := p.pkg.Scope().Lookup(name)
	c, ok := obj.(*types.Const)
	if !ok {
		fail("constant %v not found", name)
	}
	v := constant.ToInt(c.Val())
	if v.Kind() != constant.Int {
		fail("constant %v is not an integer: %v", name, c.Val())
	}
	return v.ExactString()
}

// varDecl finds the value expression of a package-level var.
func (p *pkgInfo) varDecl(name string) ast.Expr {
	for _, f := range p.files {
		for _, d := range f.Decls {
			g, ok := d.(*ast.GenDecl)
			if !ok || g.Tok != token.VAR {
				continue
			}
			for _, s := range g.Specs {
				vs := s.(*ast.ValueSpec)
				for i, n := range vs.Names {
					if n.Name == name && i < len(vs.Values) {
						return vs.Values[i]
					}
				}
			}
		}
	}
	fail("var %v not found", name)
	return nil
}

func (p *pkgInfo) exprInt(e ast.Expr) string {
	tv, ok := p.info.Types[e]
	if !ok || tv.Value == nil {
		fail("expression at %v is not constant", p.fset.Position(e.Pos()))
	}
	v := constant.ToInt(tv.Value)
	if v.Kind() != constant.Int {
		fail("expression at %v is not an integer constant", p.fset.Position(e.Pos()))
	}
	return v.ExactString()
}

// table returns the elements of a composite-literal array var.
func (p *pkgInfo) table(name string) []string {
	cl, ok := p.varDecl(name).(*ast.CompositeLit)
	if !ok {
		fail("var %v is not a composite literal", name)
	}
	var ret []string
	for _, e := range cl.Elts {
		ret = append(ret, p.exprInt(e))
	}
	return ret
}

// identList returns the identifiers of a composite literal such as []Piece{King, Queen}.
func (p *pkgInfo) identList(name string) []string {
	cl, ok := p.varDecl(name).(*ast.CompositeLit)
	if !ok {
		fail("var %v is not a composite literal", name)
	}
	var ret []string
	for _, e := range cl.Elts {
		ret = append(ret, p.exprInt(e))
	}
	return ret
}

// bitMaskArgs returns the constant arguments of all BitMask(..) calls in a var's initialiser.
func (p *pkgInfo) bitMaskArgs(name string) []string {
	var ret []string
	ast.Inspect(p.varDecl(name), func(n ast.Node) bool {
		if c, ok := n.(*ast.CallExpr); ok {
			if id, ok := c.Fun.(*ast.Ident); ok && id.Name == "BitMask" && len(c.Args) == 1 {
				ret = append(ret, p.exprInt(c.Args[0]))
			}
		}
		return true
	})
	return ret
}

// enum lists the constants of a named type in declaration order.
func (p *pkgInfo) enum(typeName string, skip map[string]bool) [][2]string {
	var ret [][2]string
	for _, f := range p.files {
		for _, d := range f.Decls {
			g, ok := d.(*ast.GenDecl)
			if !ok || g.Tok != token.CONST {
				continue
			}
			for _, s := range g.Specs {
				vs := s.(*ast.ValueSpec)
				for _, n := range vs.Names {
					obj, ok := p.info.Defs[n].(*types.Const)
					if !ok {
						continue
					}
					named, ok := obj.Type().(*types.Named)
					if !ok || named.Obj().Name() != typeName || named.Obj().Pkg() != p.pkg || skip[n.Name] {
						continue
					}
					if obj.Val().Kind() == constant.String {
						ret = append(ret, [2]string{n.Name, "0"})
						continue
					}
					ret = append(ret, [2]string{n.Name, constant.ToInt(obj.Val()).ExactString()})
				}
			}
		}
	}
	if len(ret) == 0 {
		fail("enum %v not found", typeName)
	}
	return ret
}

func (p *pkgInfo) funcDecl(name, recv string) *ast.FuncDecl {
	for _, f := range p.files {
		for _, d := range f.Decls {
			fd, ok := d.(*ast.FuncDecl)
			if !ok || fd.Name.Name != name {
				continue
			}
			r := ""
			if fd.Recv != nil && len(fd.Recv.List) > 0 {
				switch t := fd.Recv.List[0].Type.(type) {
				case *ast.Ident:
					r = t.Name
				case *ast.StarExpr:
					if id, ok := t.X.(*ast.Ident); ok {
						r = id.Name
					}
				}
			}
			if r == recv {
				return fd
			}
		}
	}
	return nil
}

// switchTable extracts `case A, B: return <const>` pairs of the first switch in a function.
func (p *pkgInfo) switchTable(fn, recv string) [][2]string {
	fd := p.funcDecl(fn, recv)
	if fd == nil {
		fail("func %v not found", fn)
	}
	var ret [][2]string
	ast.Inspect(fd.Body, func(n ast.Node) bool {
		cc, ok := n.(*ast.CaseClause)
		if !ok {
			return true
		}
		if len(cc.Body) != 1 {
			return true
		}
		rs, ok := cc.Body[0].(*ast.ReturnStmt)
		if !ok || len(rs.Results) != 1 {
			return true
		}
		tv, ok := p.info.Types[rs.Results[0]]
		if !ok || tv.Value == nil {
			return true
		}
		val := tv.Value.ExactString()
		if cc.List == nil {
			ret = append(ret, [2]string{"default", val})
		}
		for _, e := range cc.List {
			name := ""
			switch t := e.(type) {
			case *ast.Ident:
				name = t.Name
			case *ast.SelectorExpr:
				name = t.Sel.Name
			default:
				name = "?"
			}
			ret = append(ret, [2]string{name, val})
		}
		return true
	})
	if len(ret) == 0 {
		fail("no switch table in %v", fn)
	}
	return ret
}

// assignedConst returns the constant assigned to the local variable `name` by its `:=` in a function
// (`moves := time.Duration(40)`: the value of the conversion's argument, a literal or a named constant).
func (p *pkgInfo) assignedConst(fn, recv, name string) string {
	fd := p.funcDecl(fn, recv)
	if fd == nil {
		fail("func %v not found", fn)
	}
	ret := ""
	ast.Inspect(fd.Body, func(n ast.Node) bool {
		as, ok := n.(*ast.AssignStmt)
		if !ok || as.Tok != token.DEFINE || len(as.Lhs) != 1 || len(as.Rhs) != 1 || ret != "" {
			return true
		}
		if id, ok := as.Lhs[0].(*ast.Ident); !ok || id.Name != name {
			return true
		}
		e := as.Rhs[0]
		if call, ok := e.(*ast.CallExpr); ok && len(call.Args) == 1 {
			e = call.Args[0]
		}
		ret = p.exprInt(e)
		return true
	})
	if ret == "" {
		fail("no constant `%v := ...` in %v", name, fn)
	}
	return ret
}

func (p *pkgInfo) bodyHash(fn, recv string) string {
	fd := p.funcDecl(fn, recv)
	if fd == nil {
		return "missing"
	}
	var sb strings.Builder
	printer.Fprint(&sb, p.fset, fd)
	return fmt.Sprintf("%x", sha256.Sum256([]byte(sb.String())))[:16]
}

// ---- opening books (cmd/bernstein/bernstein/book.go, cmd/sargon/sargon/book.go) -------------------------

// selName returns "pkg.Name" / "Name" of a selector or identifier.
func selName(e ast.Expr) (string, string) {
	switch t := e.(type) {
	case *ast.Ident:
		return "", t.Name
	case *ast.SelectorExpr:
		if x, ok := t.X.(*ast.Ident); ok {
			return x.Name, t.Sel.Name
		}
	}
	return "", ""
}

// stringLine resolves an opening line expression to its move strings: a []string{..} literal, possibly wrapped in a
// conversion such as engine.Line(..), or the name of a package-level var holding one.
func (p *pkgInfo) stringLine(e ast.Expr, depth int) []string {
	if depth > 8 {
		fail("opening line nested too deeply at %v", p.fset.Position(e.Pos()))
	}
	switch t := e.(type) {
	case *ast.ParenExpr:
		return p.stringLine(t.X, depth+1)
	case *ast.Ident:
		return p.stringLine(p.varDecl(t.Name), depth+1)
	case *ast.CallExpr:
		if len(t.Args) != 1 {
			fail("opening line at %v is not a conversion", p.fset.Position(e.Pos()))
		}
		return p.stringLine(t.Args[0], depth+1)
	case *ast.CompositeLit:
		ret := []string{}
		for _, el := range t.Elts {
			bl, ok := el.(*ast.BasicLit)
			if !ok || bl.Kind != token.STRING {
				fail("opening line element at %v is not a string literal", p.fset.Position(el.Pos()))
			}
			v, err := strconv.Unquote(bl.Value)
			if err != nil {
				fail("bad string literal at %v", p.fset.Position(el.Pos()))
			}
			ret = append(ret, v)
		}
		return ret
	}
	fail("unsupported opening line expression at %v", p.fset.Position(e.Pos()))
	return nil
}

// newBookLines finds the call <pkg>.NewBook(<list>) in function fn and returns the names (or "" for literals)
// and the move strings of the lines in the list passed.
func (p *pkgInfo) newBookLines(fn string) ([]string, [][]string) {
	fd := p.funcDecl(fn, "")
	if fd == nil {
		fail("func %v not found", fn)
	}
	var names []string
	var lines [][]string
	found := 0
	ast.Inspect(fd.Body, func(n ast.Node) bool {
		c, ok := n.(*ast.CallExpr)
		if !ok {
			return true
		}
		if pk, nm := selName(c.Fun); pk != "engine" || nm != "NewBook" || len(c.Args) != 1 {
			return true
		}
		found++
		cl, ok := c.Args[0].(*ast.CompositeLit)
		if !ok {
			fail("argument of engine.NewBook at %v is not a composite literal", p.fset.Position(c.Pos()))
		}
		for _, el := range cl.Elts {
			_, nm := selName(el)
			if _, isIdent := el.(*ast.Ident); !isIdent {
				nm = ""
			}
			names = append(names, nm)
			lines = append(lines, p.stringLine(el, 0))
		}
		return true
	})
	if found != 1 {
		fail("expected exactly one engine.NewBook call in %v, found %d", fn, found)
	}
	return names, lines
}

func leanStr(s string) string {
	var sb strings.Builder
	sb.WriteByte('"')
	for _, r := range s {
		switch {
		case r == '"' || r == '\\':
			sb.WriteByte('\\')
			sb.WriteRune(r)
		case r < 0x20 || r == 0x7f:
			fmt.Fprintf(&sb, "\\x%02x", r)
		default:
			sb.WriteRune(r)
		}
	}
	sb.WriteByte('"')
	return sb.String()
}

func leanStrList(xs []string) string {
	q := make([]string, len(xs))
	for i, x := range xs {
		q[i] = leanStr(x)
	}
	return "[" + strings.Join(q, ", ") + "]"
}

// moveLiterals lists the package-level vars initialised with a board.Move{..} literal, in declaration order:
// name and the six fields (Type, From, To, Piece, Promotion, Capture; absent = 0), constants resolved in pkg/board.
func (p *pkgInfo) moveLiterals(b *pkgInfo) ([]string, [][6]string) {
	var names []string
	var vals [][6]string
	idx := map[string]int{"Type": 0, "From": 1, "To": 2, "Piece": 3, "Promotion": 4, "Capture": 5}
	for _, f := range p.files {
		for _, d := range f.Decls {
			g, ok := d.(*ast.GenDecl)
			if !ok || g.Tok != token.VAR {
				continue
			}
			for _, s := range g.Specs {
				vs := s.(*ast.ValueSpec)
				for i, n := range vs.Names {
					if i >= len(vs.Values) {
						continue
					}
					cl, ok := vs.Values[i].(*ast.CompositeLit)
					if !ok {
						continue
					}
					if pk, nm := selName(cl.Type); pk != "board" || nm != "Move" {
						continue
					}
					v := [6]string{"0", "0", "0", "0", "0", "0"}
					for _, el := range cl.Elts {
						kv, ok := el.(*ast.KeyValueExpr)
						if !ok {
							fail("move literal %v: positional fields not supported", n.Name)
						}
						_, field := selName(kv.Key)
						k, ok := idx[field]
						if !ok {
							fail("move literal %v: unknown field %v", n.Name, field)
						}
						pk, cn := selName(kv.Value)
						if pk != "board" {
							fail("move literal %v: field %v is not a board constant", n.Name, field)
						}
						v[k] = b.constInt(cn)
					}
					names = append(names, n.Name)
					vals = append(vals, v)
				}
			}
		}
	}
	if len(names) == 0 {
		fail("no board.Move literals found")
	}
	return names, vals
}

// sargonShape reads the shape of sargon.NewBook: the single initial map entry keyed fen.Strip(fen.Initial) and its
// replies, `response := <default>` and the `if isQueenSideOrKingPawn(m) { response = <other> }` assignment.
func (p *pkgInfo) sargonShape() (initial []string, deflt, other string) {
	fd := p.funcDecl("NewBook", "")
	if fd == nil {
		fail("sargon.NewBook not found")
	}
	maps := 0
	ast.Inspect(fd.Body, func(n ast.Node) bool {
		switch t := n.(type) {
		case *ast.CompositeLit:
			if _, ok := t.Type.(*ast.MapType); ok {
				maps++
				if len(t.Elts) != 1 {
					fail("sargon.NewBook: expected one initial map entry, found %d", len(t.Elts))
				}
				kv := t.Elts[0].(*ast.KeyValueExpr)
				var sb strings.Builder
				printer.Fprint(&sb, p.fset, kv.Key)
				if sb.String() != "fen.Strip(fen.Initial)" {
					fail("sargon.NewBook: initial key is %v", sb.String())
				}
				vl, ok := kv.Value.(*ast.CompositeLit)
				if !ok {
					fail("sargon.NewBook: initial replies are not a literal")
				}
				for _, el := range vl.Elts {
					id, ok := el.(*ast.Ident)
					if !ok {
						fail("sargon.NewBook: initial reply is not a named move")
					}
					initial = append(initial, id.Name)
				}
				return false
			}
		case *ast.AssignStmt:
			if len(t.Lhs) == 1 && len(t.Rhs) == 1 {
				if _, nm := selName(t.Lhs[0]); nm == "response" {
					id, ok := t.Rhs[0].(*ast.Ident)
					if !ok {
						fail("sargon.NewBook: response is not a named move")
					}
					if t.Tok == token.DEFINE {
						if deflt != "" {
							fail("sargon.NewBook: response defined twice")
						}
						deflt = id.Name
					} else {
						if other != "" {
							fail("sargon.NewBook: response assigned twice")
						}
						other = id.Name
					}
				}
			}
		case *ast.IfStmt:
			if c, ok := t.Cond.(*ast.CallExpr); ok {
				if _, nm := selName(c.Fun); nm != "isQueenSideOrKingPawn" {
					fail("sargon.NewBook: unexpected condition %v", nm)
				}
			} else {
				fail("sargon.NewBook: unexpected if condition at %v", p.fset.Position(t.Pos()))
			}
		}
		return true
	})
	if maps != 1 || deflt == "" || other == "" {
		fail("sargon.NewBook: shape not recognised (maps=%d default=%q other=%q)", maps, deflt, other)
	}
	return
}

// sargonFiles reads isQueenSideOrKingPawn: the piece compared with m.Piece and the files of the `return true` case
// (every other case must return false).
func (p *pkgInfo) sargonFiles(b *pkgInfo) (piece string, files []string) {
	fd := p.funcDecl("isQueenSideOrKingPawn", "")
	if fd == nil {
		fail("isQueenSideOrKingPawn not found")
	}
	ast.Inspect(fd.Body, func(n ast.Node) bool {
		switch t := n.(type) {
		case *ast.BinaryExpr:
			if t.Op == token.NEQ {
				var sb strings.Builder
				printer.Fprint(&sb, p.fset, t.X)
				pk, cn := selName(t.Y)
				if sb.String() != "m.Piece" || pk != "board" || piece != "" {
					fail("isQueenSideOrKingPawn: unexpected comparison")
				}
				piece = b.constInt(cn)
			}
		case *ast.SwitchStmt:
			var sb strings.Builder
			printer.Fprint(&sb, p.fset, t.Tag)
			if sb.String() != "m.From.File()" {
				fail("isQueenSideOrKingPawn: switch on %v", sb.String())
			}
		case *ast.CaseClause:
			if len(t.Body) != 1 {
				fail("isQueenSideOrKingPawn: unexpected case body")
			}
			rs, ok := t.Body[0].(*ast.ReturnStmt)
			if !ok || len(rs.Results) != 1 {
				fail("isQueenSideOrKingPawn: unexpected case body")
			}
			_, val := selName(rs.Results[0])
			if t.List == nil {
				if val != "false" {
					fail("isQueenSideOrKingPawn: default returns %v", val)
				}
				return true
			}
			if val != "true" {
				fail("isQueenSideOrKingPawn: case returns %v", val)
			}
			for _, e := range t.List {
				pk, cn := selName(e)
				if pk != "board" {
					fail("isQueenSideOrKingPawn: case is not a board constant")
				}
				files = append(files, b.constInt(cn))
			}
		}
		return true
	})
	if piece == "" || len(files) == 0 {
		fail("isQueenSideOrKingPawn: shape not recognised")
	}
	return
}

func (p *pkgInfo) constString(name string) string {
	obj := p.pkg.Scope().Lookup(name)
	c, ok := obj.(*types.Const)
	if !ok || c.Val().Kind() != constant.String {
		fail("string constant %v not found", name)
	}
	return constant.StringVal(c.Val())
}

func leanList(xs []string) string { return "[" + strings.Join(xs, ", ") + "]" }
func leanArr(xs []string) string  { return "#[" + strings.Join(xs, ", ") + "]" }
func leanPairs(xs [][2]string, ratAsPair bool) string {
	var parts []string
	for _, x := range xs {
		v := x[1]
		if strings.Contains(v, "/") {
			fail("non-integral value %v for %v", v, x[0])
		}
		if strings.HasPrefix(v, "-") {
			v = "(" + v + ")"
		}
		parts = append(parts, fmt.Sprintf("(\"%s\", %s)", x[0], v))
	}
	return "[" + strings.Join(parts, ", ") + "]"
}

func main() {
	repo := flag.String("repo", "/repo", "repository root")
	out := flag.String("out", "", "output directory (Morlock/Gen)")
	hashes := flag.String("hashes", "", "optional file for sha256 prefixes of modelled function bodies (informative)")
	flag.StringVar(&baselineDir, "baseline", "", "directory with the Gen files of the validated tree (fallback for sections that cannot be read)")
	flag.Parse()
	if *out == "" {
		fatal("missing -out")
	}
	defer func() {
		if r := recover(); r != nil {
			if f, ok := r.(failure); ok {
				fatal("%s", f.msg)
			}
			panic(r)
		}
	}()
	var sb strings.Builder
	w := func(f string, a ...interface{}) { fmt.Fprintf(&sb, f+"\n", a...) }
	flush := func(name string) {
		w("")
		w("end Morlock.Gen")
		path := filepath.Join(*out, name)
		old, _ := os.ReadFile(path)
		if string(old) != sb.String() {
			if err := os.WriteFile(path, []byte(sb.String()), 0o644); err != nil {
				fail("%v", err)
			}
			fmt.Printf("Gen/%s regenerated (changed)\n", name)
		} else {
			fmt.Printf("Gen/%s unchanged\n", name)
		}
		sb.Reset()
	}
	if err := os.MkdirAll(*out, 0o755); err != nil {
		fail("%v", err)
	}

	w("/-! GENERATED by /verif/harness/cmd/extract from %s — do not edit. Regenerated on every check. -/", *repo)
	w("namespace Morlock.Gen")
	w("")

	b := load(filepath.Join(*repo, "pkg/board"))
	e := load(filepath.Join(*repo, "pkg/eval"))
	s := load(filepath.Join(*repo, "pkg/search"))
	sc := load(filepath.Join(*repo, "pkg/search/searchctl"))
	fp := load(filepath.Join(*repo, "pkg/board/fen"))
	en := load(filepath.Join(*repo, "pkg/engine"))
	be := load(filepath.Join(*repo, "cmd/bernstein/bernstein"))
	sa := load(filepath.Join(*repo, "cmd/sargon/sargon"))
	section(&sb, "Tables.lean", "rotation tables", func() {
		w("-- pkg/board/bitboard.go: hand-typed rotation tables")
		for _, t := range []string{"rot90", "rot45L", "rot45R", "mask45L", "mask45R", "off45L", "off45R"} {
			xs := b.table(t)
			if len(xs) != 64 {
				fail("table %v has %d entries", t, len(xs))
			}
			w("def %s : Array Nat := %s", t, leanArr(xs))
		}
		w("def numStates : Nat := %s", b.constInt("numStates"))
	})
	flush("Tables.lean")

	w("/-! GENERATED by /verif/harness/cmd/extract from %s — do not edit. Regenerated on every check. -/", *repo)
	w("namespace Morlock.Gen")
	w("")
	section(&sb, "Facts.lean", "position masks", func() {
		w("-- pkg/board/position.go")
		w("def whiteSquareMask : Nat := %s", b.exprInt(b.varDecl("whiteSquareMask")))
		for _, m := range []string{"whiteKingSideCastlingMask", "whiteQueenSideCastlingMask", "blackKingSideCastlingMask", "blackQueenSideCastlingMask"} {
			w("def %s : List Nat := %s", m, leanList(b.bitMaskArgs(m)))
		}
	})
	w("")
	section(&sb, "Facts.lean", "draw limits", func() {
		w("-- pkg/board/board.go")
		for _, c := range []string{"repetition3Limit", "repetition5Limit", "noprogressPlyLimit"} {
			w("def %s : Nat := %s", c, b.constInt(c))
		}
	})
	w("")
	section(&sb, "Facts.lean", "enums", func() {
		w("-- enums (declaration order, value)")
		w("def enumSquare : List (String × Nat) := %s", leanPairs(b.enum("Square", map[string]bool{"ZeroSquare": true, "NumSquares": true}), false))
		w("def enumPiece : List (String × Nat) := %s", leanPairs(b.enum("Piece", map[string]bool{"ZeroPiece": true, "NumPieces": true}), false))
		w("def enumColor : List (String × Nat) := %s", leanPairs(b.enum("Color", map[string]bool{"ZeroColor": true, "NumColors": true}), false))
		w("def enumMoveType : List (String × Nat) := %s", leanPairs(b.enum("MoveType", nil), false))
		w("def enumCastling : List (String × Nat) := %s", leanPairs(b.enum("Castling", nil), false))
		w("def enumOutcome : List (String × Nat) := %s", leanPairs(b.enum("Outcome", nil), false))
		w("def enumRank : List (String × Nat) := %s", leanPairs(b.enum("Rank", map[string]bool{"ZeroRank": true, "NumRanks": true}), false))
		w("def enumFile : List (String × Nat) := %s", leanPairs(b.enum("File", map[string]bool{"ZeroFile": true, "NumFiles": true}), false))
		w("def zeroPiece : Nat := %s", b.constInt("ZeroPiece"))
		w("def numPieces : Nat := %s", b.constInt("NumPieces"))
		w("def numSquares : Nat := %s", b.constInt("NumSquares"))
		w("def numCastling : Nat := %s", b.constInt("NumCastling"))
	})
	w("")
	section(&sb, "Facts.lean", "piece lists", func() {
		w("-- ordered piece lists (order matters for generator order)")
		for _, l := range []string{"AllPieces", "KingQueen", "KingQueenRookKnightBishop", "QueenRookBishop", "QueenRookKnightBishop", "QueenRookKnightBishopPawn"} {
			w("def list%s : List Nat := %s", l, leanList(b.identList(l)))
		}
	})
	w("")

	section(&sb, "Facts.lean", "eval", func() {
		w("-- pkg/eval")
		w("def enumScoreType : List (String × Nat) := %s", leanPairs(e.enum("ScoreType", nil), false))
		w("def nominalValue : List (String × Int) := %s", leanPairs(e.switchTable("NominalValue", ""), false))
	})
	w("")

	section(&sb, "Facts.lean", "search", func() {
		w("-- pkg/search")
		w("def enumBound : List (String × Nat) := %s", leanPairs(s.enum("Bound", nil), false))
	})
	w("")

	section(&sb, "Facts.lean", "time control", func() {
		w("-- pkg/search/searchctl/timectrl.go: `moves := time.Duration(<n>)` in TimeControl.Limits (moves assumed to the end of the game)")
		w("def defaultHorizon : Int := %s", sc.assignedConst("Limits", "TimeControl", "moves"))
	})
	w("")

	type fn struct {
		p          *pkgInfo
		name, recv string
	}
	fns := []fn{
		{b, "Move", "Position"}, {b, "PseudoLegalMoves", "Position"}, {b, "IsAttackedBy", "Position"},
		{b, "HasInsufficientMaterial", "Position"}, {b, "xor", "Position"}, {b, "Square", "Position"},
		{b, "PushMove", "Board"}, {b, "PopMove", "Board"}, {b, "Fork", "Board"}, {b, "identicalPositionCount", "Board"},
		{b, "updateNoProgress", ""}, {b, "Hash", "ZobristTable"}, {b, "Move", "ZobristTable"},
		{b, "CastlingRightsLost", "Move"}, {b, "CastlingRookMove", "Move"}, {b, "EnPassantTarget", "Move"},
		{b, "EnPassantCapture", "Move"}, {b, "ParseMove", ""}, {b, "RookAttackboard", ""}, {b, "BishopAttackboard", ""},
		{b, "PawnCaptureboard", ""}, {b, "PawnMoveboard", ""}, {b, "Xor", "RotatedBitboard"},
		{e, "Less", "Score"}, {e, "Negate", "Score"}, {e, "IncrementMateDistance", ""}, {e, "MateDistance", "Score"},
		{s, "search", "runAlphaBeta"}, {s, "search", "runQuiescence"}, {s, "search", "runMinimax"},
		{s, "Read", "table"}, {s, "Write", "table"}, {s, "val", ""}, {s, "MVVLVA", ""},
	}
	var hs []string
	for _, f := range fns {
		hs = append(hs, fmt.Sprintf("(\"%s.%s\", \"%s\")", f.recv, f.name, f.p.bodyHash(f.name, f.recv)))
	}
	flush("Facts.lean")

	// ---- Gen/Books.lean: the data of the opening books as they are in the source ----
	w("/-! GENERATED by /verif/harness/cmd/extract from %s — do not edit. Regenerated on every check. -/", *repo)
	w("namespace Morlock.Gen")
	w("")
	section(&sb, "Books.lean", "fen", func() {
		w("-- pkg/board/fen/fen.go")
		w("def fenInitial : String := %s", leanStr(fp.constString("Initial")))
	})
	w("")
	section(&sb, "Books.lean", "bernstein book", func() {
		w("-- cmd/bernstein/bernstein/book.go: the list passed to engine.NewBook (names of the vars, \"\" for an inline literal), resolved")
		bnames, blines := be.newBookLines("NewBook")
		w("def bernsteinLineNames : List String := %s", leanStrList(bnames))
		{
			var ls []string
			for _, l := range blines {
				ls = append(ls, leanStrList(l))
			}
			w("def bernsteinLines : List (List String) := [%s]", strings.Join(ls, ", "))
		}
	})
	w("")
	section(&sb, "Books.lean", "sargon book", func() {
		w("-- cmd/sargon/sargon/book.go: the move literals (name, Type, From, To, Piece, Promotion, Capture; absent field = 0)")
		snames, svals := sa.moveLiterals(b)
		{
			var ls []string
			for i, n := range snames {
				v := svals[i]
				ls = append(ls, fmt.Sprintf("(%s, %s, %s, %s, %s, %s, %s)", leanStr(n), v[0], v[1], v[2], v[3], v[4], v[5]))
			}
			w("def sargonMoves : List (String × Nat × Nat × Nat × Nat × Nat × Nat) := [%s]", strings.Join(ls, ", "))
		}
		sinit, sdef, soth := sa.sargonShape()
		w("-- sargon.NewBook: replies of the initial position; `response := ..`; `if isQueenSideOrKingPawn(m) { response = .. }`")
		w("def sargonInitialReplies : List String := %s", leanStrList(sinit))
		w("def sargonDefaultResponse : String := %s", leanStr(sdef))
		w("def sargonFileResponse : String := %s", leanStr(soth))
		spiece, sfiles := sa.sargonFiles(b)
		w("-- isQueenSideOrKingPawn: `m.Piece != <piece>` returns false; the files of the `return true` case")
		w("def sargonFilePiece : Nat := %s", spiece)
		w("def sargonFiles : List Nat := %s", leanList(sfiles))
	})
	flush("Books.lean")

	// ---- Gen/Engines.lean: the constants of the historical engines (engines.go) ----
	emitEngines(*repo, *out, b)
	for _, f := range []struct {
		tag string
		f   fn
	}{{"engine", fn{en, "NewBook", ""}}, {"engine", fn{en, "Find", "book"}}, {"fen", fn{fp, "Strip", ""}}, {"fen", fn{fp, "Encode", ""}},
		{"fen", fn{fp, "Decode", ""}}, {"sargon", fn{sa, "NewBook", ""}}, {"sargon", fn{sa, "Find", "Book"}},
		{"sargon", fn{sa, "isQueenSideOrKingPawn", ""}}, {"bernstein", fn{be, "NewBook", ""}}} {
		hs = append(hs, fmt.Sprintf("(\"%s:%s.%s\", \"%s\")", f.tag, f.f.recv, f.f.name, f.f.p.bodyHash(f.f.name, f.f.recv)))
	}
	if *hashes != "" {
		js := "{\n" + strings.ReplaceAll(strings.ReplaceAll(strings.ReplaceAll(strings.Join(hs, ",\n"), "(\"", " \""), "\", \"", "\": \""), "\")", "\"") + "\n}\n"
		_ = os.WriteFile(*hashes, []byte(js), 0o644)
	}
}
