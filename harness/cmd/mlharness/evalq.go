package main

import (
	"math/rand"

	"github.com/herohde/morlock/pkg/board"
)

// evalQueries emits the queries of pkg/eval derived from the attack relation (FindCapture, FindPins).
// Filled in by evalops.go when those ops exist.
var evalQueries = func(o *Out, r *rand.Rand, f string, p *board.Position, turn board.Color) {}
