package main

import (
	"context"
	"fmt"
	"math/rand"
	"strings"

	"github.com/herohde/morlock/pkg/board"
	"github.com/herohde/morlock/pkg/board/fen"
	"github.com/herohde/morlock/pkg/eval"
	"github.com/herohde/morlock/pkg/search"
)

// refNegamax is the harness' own exhaustive negamax (no window, no table, no ordering) over the real
// board: used to look for failing inputs at depths the Lean reference cannot afford. It relies on the
// board for rules and draw detection (C01/C05) and on eval.Score for the score algebra (C09).
func refNegamax(b *board.Board, depth int, root bool) eval.Score {
	if !root && b.Result().Outcome == board.Draw {
		return eval.ZeroScore
	}
	if depth == 0 {
		return eval.HeuristicScore(eval.Material{}.Evaluate(context.Background(), b))
	}
	best := eval.NegInfScore
	legal := false
	for _, m := range b.Position().PseudoLegalMoves(b.Turn()) {
		if !b.PushMove(m) {
			continue
		}
		legal = true
		s := eval.IncrementMateDistance(refNegamax(b, depth-1, false)).Negate()
		b.PopMove()
		if best.Less(s) {
			best = s
		}
	}
	if !legal {
		if b.Position().IsChecked(b.Turn()) {
			return eval.NegInfScore
		}
		return eval.ZeroScore
	}
	return best
}

func boardFromLine(start string, moves []string) *board.Board {
	p, turn, np, fm, err := fen.Decode(start)
	if err != nil {
		panic(err)
	}
	b := board.NewBoard(zobrist(0), p, turn, np, fm)
	for _, mv := range moves {
		for _, m := range b.Position().PseudoLegalMoves(b.Turn()) {
			if moveUci(m) == strings.TrimPrefix(mv, "m:") {
				b.PushMove(m)
				break
			}
		}
	}
	return b
}

// deepMateStarts: basic mates where the defender has several losing lines of different length
// (mate-score windows several plies deep).
var deepMateStarts = []string{
	"k7/8/8/Q1R5/8/8/8/2K5 b - - 0 1", "8/8/8/1k3K2/8/8/8/1RR5 b - - 0 1", "8/8/2R5/8/7k/4K3/8/8 w - - 0 1",
	"5n2/2Q5/8/8/8/R1K3R1/6k1/8 b - - 0 1", "4k3/2Q4K/8/8/8/8/8/8 w - - 0 1", "8/8/8/8/8/2k5/1q6/K7 w - - 0 1",
	"6k1/8/6K1/8/8/8/8/R7 w - - 0 1", "k7/7R/7R/8/8/8/8/7K w - - 0 1", "8/8/8/4k3/8/8/3QK3/8 w - - 0 1",
	"7k/8/8/8/8/8/6R1/K5R1 b - - 0 1",
}

// deepOracle compares the implementation with the harness negamax at depths 4-6 in sparse positions.
func deepOracle(o *Out, r *rand.Rand, n int) {
	ab, _ := searchCfg("full-static")
	for i := 0; i < n; i++ {
		start := deepMateStarts[i%len(deepMateStarts)]
		var moves []string
		if i >= len(deepMateStarts) {
			start, moves, _ = randomLine(r, 10)
		}
		b := boardFromLine(start, moves)
		men := pieceCount(b)
		d := 4
		switch {
		case men <= 4:
			d = 5
		case men > 7:
			d = 3
		}
		if men <= 3 && r.Intn(2) == 0 {
			d = 6
		}
		_, s1, _, err := ab.Search(context.Background(), &search.Context{TT: search.NoTranspositionTable{}}, b.Fork(), d)
		s2 := refNegamax(b.Fork(), d, true)
		ok := "ok"
		if err != nil || s1 != s2 {
			ok = fmt.Sprintf("MISMATCH alphabeta=%s exhaustive=%s", fmtScore(s1), fmtScore(s2))
		}
		o.Emit(fmt.Sprintf("published deep-negamax d=%d %s ; %s", d, start, strings.Join(moves, " ")), ok)
		o.Count(fmt.Sprintf("deep-oracle:d%d", d))
	}
}

// deepClipOracle: windows (incl. mate-score bounds) at depths the Lean reference cannot afford; Clip is
// judged against the harness negamax with the implementation's own score order (C09).
func deepClipOracle(o *Out, r *rand.Rand, n int) {
	ab, _ := searchCfg("full-static")
	le := func(a, b eval.Score) bool { return a == b || a.Less(b) }
	for i := 0; i < n; i++ {
		start := deepMateStarts[i%len(deepMateStarts)]
		b := boardFromLine(start, nil)
		d := 4
		if pieceCount(b) <= 4 {
			d = 5
		}
		v := refNegamax(b.Fork(), d, true)
		res := "ok"
		var tried []string
		for k := 0; k < 6 && res == "ok"; k++ {
			a, bb := parseScore(randomBound(r)), parseScore(randomBound(r))
			if !a.Less(bb) {
				a, bb = bb, a
			}
			if !a.Less(bb) {
				continue
			}
			tried = append(tried, fmtScore(a)+".."+fmtScore(bb))
			_, got, _, err := ab.Search(context.Background(), &search.Context{Alpha: a, Beta: bb, TT: search.NoTranspositionTable{}}, b.Fork(), d)
			ok := err == nil
			switch {
			case a.Less(v) && v.Less(bb):
				ok = ok && got == v
			case le(v, a):
				ok = ok && le(v, got) && le(got, a)
			default:
				ok = ok && le(bb, got) && le(got, v)
			}
			if !ok {
				res = fmt.Sprintf("MISMATCH window=(%s,%s) value=%s returned=%s", fmtScore(a), fmtScore(bb), fmtScore(v), fmtScore(got))
			}
		}
		o.Emit(fmt.Sprintf("published deep-clip d=%d %s ; %s", d, start, strings.Join(tried, ",")), res)
		o.Count("deep-clip-oracle")
	}
}

// ttSequenceOracle: a deep search, two PV moves played, a shallower search with the same table;
// every result must equal the table-free exhaustive value (C11 over successive game positions).
func ttSequenceOracle(o *Out, r *rand.Rand, n int) {
	ab, _ := searchCfg("full-static")
	for i := 0; i < n; i++ {
		start := deepMateStarts[i%len(deepMateStarts)]
		var moves []string
		if i >= len(deepMateStarts) && r.Intn(2) == 0 {
			start, moves, _ = noRepeatLine(r, 8)
		}
		b := boardFromLine(start, moves)
		men := pieceCount(b)
		d1 := 4
		if men <= 4 {
			d1 = 5 + r.Intn(2)
		} else if men > 8 {
			d1 = 3
		}
		tt := search.NewTranspositionTable(context.Background(), uint64(1)<<uint(10+r.Intn(11)))
		var log []string
		ok := "ok"
		check := func(d int) []board.Move {
			_, s1, pv, err := ab.Search(context.Background(), &search.Context{TT: tt}, b, d)
			s2 := refNegamax(b.Fork(), d, true)
			log = append(log, fmt.Sprintf("d%d", d))
			if (err != nil || s1 != s2) && ok == "ok" {
				ok = fmt.Sprintf("MISMATCH after %s: with-table=%s exhaustive=%s", strings.Join(log, ","), fmtScore(s1), fmtScore(s2))
			}
			return pv
		}
		pv := check(d1)
		for k := 0; k < 2 && k < len(pv); k++ {
			for _, m := range b.Position().PseudoLegalMoves(b.Turn()) {
				if m.Equals(pv[k]) {
					if b.PushMove(m) {
						log = append(log, moveUci(m))
					}
					break
				}
			}
		}
		for _, d2 := range []int{d1 - 2, 1, d1 - 1} {
			if d2 >= 1 {
				check(d2)
			}
		}
		o.Emit(fmt.Sprintf("published tt-sequence %s %s ; %s", start, strings.Join(moves, " "), strings.Join(log, ",")), ok)
		o.Count("tt-sequence-oracle")
	}
}
