package main

import (
	"bufio"
	"context"
	"fmt"
	"math/rand"
	"os"
	"os/exec"
	"runtime"
	"strconv"
	"strings"
	"sync"
	"sync/atomic"
	"time"

	"github.com/herohde/morlock/cmd/bernstein/bernstein"
	"github.com/herohde/morlock/cmd/sargon/sargon"
	"github.com/herohde/morlock/cmd/turochamp/turochamp"
	"github.com/herohde/morlock/pkg/board"
	"github.com/herohde/morlock/pkg/board/fen"
	"github.com/herohde/morlock/pkg/engine"
	"github.com/herohde/morlock/pkg/engine/uci"
	"github.com/herohde/morlock/pkg/eval"
	"github.com/herohde/morlock/pkg/search"
)

// gate lets a script park the search at its n-th static evaluation and release it later, so that
// relative timings of the search goroutine and the command loop are chosen by the script.
type gate struct {
	mu      sync.Mutex
	armed   int
	count   int
	parked  chan struct{}
	release chan struct{}
	delay   time.Duration
}

func (g *gate) arm(n int) {
	g.mu.Lock()
	defer g.mu.Unlock()
	g.armed, g.count = n, 0
	g.parked, g.release = make(chan struct{}), make(chan struct{})
}

func (g *gate) hit() {
	g.mu.Lock()
	g.count++
	park := g.armed > 0 && g.count == g.armed
	var parked, release chan struct{}
	if park {
		g.armed = 0
		parked, release = g.parked, g.release
	}
	d := g.delay
	g.mu.Unlock()
	if park {
		close(parked)
		<-release
	}
	if d > 0 {
		time.Sleep(d)
	}
}

type gateEval struct {
	inner eval.Evaluator
	g     *gate
}

func (e gateEval) Evaluate(ctx context.Context, b *board.Board) eval.Pawns {
	e.g.hit()
	return e.inner.Evaluate(ctx, b)
}

// bundled engines, wired as in their main.go (search, evaluator, exploration, options, book)
func bundledEngine(kind string, seed int64, g *gate) (*engine.Engine, []uci.Option) {
	ctx := context.Background()
	switch kind {
	case "turochamp":
		s := search.AlphaBeta{Eval: search.Quiescence{Explore: turochamp.ConsiderableMovesOnly, Eval: search.Leaf{Eval: gateEval{turochamp.Eval{}, g}}}}
		return engine.New(ctx, "TUROCHAMP", "x", s, engine.WithOptions(engine.Options{Depth: 2, Noise: 10}), engine.WithZobrist(seed)), nil
	case "sargon":
		points := &sargon.Points{}
		s := sargon.Hook{Eval: search.AlphaBeta{Explore: sargon.SkipUnderPromotions, Eval: sargon.OnePlyIfChecked{Leaf: search.Leaf{Eval: gateEval{points, g}}}}, Hook: points}
		return engine.New(ctx, "SARGON", "x", s, engine.WithOptions(engine.Options{Depth: 2, Noise: 10}), engine.WithZobrist(seed)),
			[]uci.Option{uci.UseBook(sargon.NewBook(), seed)}
	case "bernstein":
		s := search.AlphaBeta{Explore: bernstein.PlausibleMoveTable{Limit: 7}.Explore, Eval: search.Leaf{Eval: gateEval{bernstein.Eval{Factor: 8}, g}}}
		return engine.New(ctx, "BERNSTEIN", "x", s, engine.WithOptions(engine.Options{Depth: 4, Noise: 10}), engine.WithZobrist(seed)),
			[]uci.Option{uci.UseBook(bernstein.NewBook(), seed)}
	case "bookplain":
		// the plain engine with a book of its own whose lines castle (the bundled books do not): a book move is played unchecked,
		// so the book must be looked up by the whole position - castling rights and e.p. square included
		bk, err := engine.NewBook([]engine.Line{
			{"e2e4", "e7e5", "g1f3", "b8c6", "f1b5", "a7a6", "b5a4", "g8f6", "e1g1"},
			{"d2d4", "d7d5", "c1f4", "c8f5", "b1c3", "b8c6", "d1d2", "d8d7", "e1c1", "e8c8"},
			{"e2e4", "c7c5", "e4e5", "d7d5", "e5d6"},
		})
		if err != nil {
			panic(err)
		}
		s := search.AlphaBeta{Eval: search.Leaf{Eval: gateEval{eval.Material{}, g}}}
		return engine.New(ctx, "bookplain", "x", s, engine.WithOptions(engine.Options{Depth: 1}), engine.WithZobrist(seed)), []uci.Option{uci.UseBook(bk, seed)}
	case "morlock":
		s := search.AlphaBeta{Eval: search.Leaf{Eval: gateEval{eval.Material{}, g}}}
		return engine.New(ctx, "morlock", "x", s, engine.WithOptions(engine.Options{Hash: 1}), engine.WithTable(search.NewMinDepthTranspositionTable(1)), engine.WithZobrist(seed)), nil
	default: // "plain": material alpha-beta, no hash, no noise, no book: the deterministic configuration the model predicts
		s := search.AlphaBeta{Eval: search.Leaf{Eval: gateEval{eval.Material{}, g}}}
		return engine.New(ctx, "plain", "x", s, engine.WithOptions(engine.Options{}), engine.WithZobrist(seed)), nil
	}
}

type uciSession struct {
	e      *engine.Engine
	d      *uci.Driver
	in     chan string
	g      *gate
	mu     sync.Mutex
	lines  []string // everything the driver printed, in order
	closed bool     // output channel closed
	taken  int
	goMark int          // number of lines printed when the latest go was sent
	stall  atomic.Int64 // > 0: the reader of the driver's output does not read (a GUI that is busy), value = per-line delay in microseconds
}

func newUciSession(kind string, seed int64) *uciSession {
	g := &gate{}
	used := strings.HasSuffix(kind, "+used")
	e, opts := bundledEngine(strings.TrimSuffix(kind, "+used"), seed, g)
	if used {
		// the driver is attached to an engine that has been used before (a second session on one engine, an engine set up
		// through its Go API): whatever the engine holds, the first position command sets the game up from scratch
		_ = e.Move(context.Background(), "e2e4")
		_ = e.Move(context.Background(), "e7e5")
	}
	s := &uciSession{e: e, in: make(chan string, 64), g: g}
	d, out := uci.NewDriver(context.Background(), e, s.in, opts...)
	s.d = d
	go func() {
		for l := range out {
			if us := s.stall.Load(); us > 0 {
				time.Sleep(time.Duration(us) * time.Microsecond) // a slow reader: the driver's output channel fills up
			}
			s.mu.Lock()
			s.lines = append(s.lines, l)
			s.mu.Unlock()
		}
		s.mu.Lock()
		s.closed = true
		s.mu.Unlock()
	}()
	return s
}

func (s *uciSession) waitFor(pred func(lines []string) bool, timeout time.Duration) bool {
	deadline := time.Now().Add(timeout)
	for {
		s.mu.Lock()
		ok := pred(s.lines[s.taken:])
		s.mu.Unlock()
		if ok {
			return true
		}
		if time.Now().After(deadline) {
			return false
		}
		time.Sleep(200 * time.Microsecond)
	}
}

func keepLine(l string) bool {
	return !(strings.HasPrefix(l, "id ") || strings.HasPrefix(l, "option ") || l == "uciok" || strings.HasPrefix(l, "info"))
}

// take returns the canonical new lines since the last take (id/option/uciok/info dropped).
func (s *uciSession) take() []string {
	s.mu.Lock()
	defer s.mu.Unlock()
	var ret []string
	for _, l := range s.lines[s.taken:] {
		if keepLine(l) {
			ret = append(ret, strings.ReplaceAll(l, " ", "_"))
		}
	}
	s.taken = len(s.lines)
	return ret
}

func containsPrefix(lines []string, p string) bool {
	for _, l := range lines {
		if strings.HasPrefix(l, p) {
			return true
		}
	}
	return false
}

// runUciScript executes the steps and returns the trace: one item per step.
func runUciScript(kind string, seed int64, steps []string) string {
	s := newUciSession(kind, seed)
	z := zobrist(seed)
	var trace []string
	emit := func(tag string) {
		out := s.take()
		if len(out) == 0 {
			trace = append(trace, tag)
		} else {
			trace = append(trace, tag+"="+strings.Join(out, ","))
		}
	}
	inputClosed := false
	syncFailed := false
	for _, st := range steps {
		st = strings.TrimSpace(st)
		switch {
		case strings.HasPrefix(st, "> ") || st == ">":
			if !inputClosed {
				if strings.HasPrefix(st, "> go") {
					s.mu.Lock()
					s.goMark = len(s.lines)
					s.mu.Unlock()
				}
				select {
				case s.in <- strings.TrimPrefix(strings.TrimPrefix(st, ">"), " "):
				case <-time.After(3 * time.Second * loadScale()):
					trace = append(trace, "INPUT-BLOCKED")
					continue
				}
			}
			if strings.HasPrefix(st, "> go") {
				// the answer may come at once (book, mate, no legal move): leave it to the step that waits for it
				trace = append(trace, "sent")
			} else {
				emit("sent")
			}
		case st == "sync":
			// isready must be answered by readyok
			ok := false
			// thirty seconds (stretched under load): the deadline is there to tell a dead command loop from a live one, and a
			// burst of other work on the machine has been seen to delay an answer by more than three seconds; once a sync of
			// this script has failed, the verdict is in and the later ones do not wait long
			patience := 30 * time.Second * loadScale()
			if syncFailed {
				patience = 500 * time.Millisecond
			}
			if !inputClosed {
				select {
				case s.in <- "isready":
					ok = s.waitFor(func(l []string) bool { return containsPrefix(l, "readyok") }, patience)
				case <-time.After(patience):
				}
			}
			if !ok {
				syncFailed = true
			}
			if ok {
				emit("sync")
			} else {
				emit("NO-READYOK")
			}
		case strings.HasPrefix(st, "wait-bestmove"):
			ms := 5000
			if f := strings.Fields(st); len(f) > 1 {
				ms, _ = strconv.Atoi(f[1])
			}
			// once several waits of this run have already expired (the run is failing anyway), later waits are cut short so
			// that a driver that never answers costs minutes, not an hour
			if (uciNoAnswer.Load() >= 3 || os.Getenv("VERIF_UCI_FAST") == "1") && ms > 2500 {
				ms = 2500
			}
			// answered = a bestmove has been printed since the latest go (possibly before this step)
			if s.waitFor(func(l []string) bool {
				return containsPrefix(l, "bestmove") || (s.goMark <= len(s.lines) && containsPrefix(s.lines[s.goMark:], "bestmove"))
			}, time.Duration(ms)*time.Millisecond*loadScale()) {
				emit("answered")
			} else {
				uciNoAnswer.Add(1)
				emit("NO-BESTMOVE")
			}
		case strings.HasPrefix(st, "slowreader"): // from now on the reader takes <us> microseconds per line (0 = reads at once again)
			us, _ := strconv.Atoi(strings.Fields(st)[1])
			s.stall.Store(int64(us))
			trace = append(trace, "reader")
		case strings.HasPrefix(st, "lenient"): // for the monitor only: answers up to `lenient off` are not attributed to a particular go
			trace = append(trace, "lenient")
		case strings.HasPrefix(st, "settle"): // sleep, longer on an oversubscribed machine: lets answers already under way arrive
			ms, _ := strconv.Atoi(strings.Fields(st)[1])
			time.Sleep(time.Duration(ms) * time.Millisecond * loadScale())
			emit("settled")
		case strings.HasPrefix(st, "sleep"):
			ms, _ := strconv.Atoi(strings.Fields(st)[1])
			time.Sleep(time.Duration(ms) * time.Millisecond)
			emit("slept")
		case strings.HasPrefix(st, "quiet"):
			ms, _ := strconv.Atoi(strings.Fields(st)[1])
			time.Sleep(time.Duration(ms) * time.Millisecond)
			emit("quiet")
		case strings.HasPrefix(st, "gate"):
			n, _ := strconv.Atoi(strings.Fields(st)[1])
			s.g.arm(n)
			trace = append(trace, "armed")
		case strings.HasPrefix(st, "slow"):
			us, _ := strconv.Atoi(strings.Fields(st)[1])
			s.g.mu.Lock()
			s.g.delay = time.Duration(us) * time.Microsecond
			s.g.mu.Unlock()
			trace = append(trace, "slow")
		case st == "wait-parked":
			s.g.mu.Lock()
			p := s.g.parked
			s.g.mu.Unlock()
			select {
			case <-p:
				emit("parked")
			case <-time.After(5 * time.Second * loadScale()):
				emit("NOT-PARKED")
			}
		case st == "release":
			s.g.mu.Lock()
			r := s.g.release
			s.g.mu.Unlock()
			func() {
				defer func() { recover() }()
				close(r)
			}()
			trace = append(trace, "released")
		case st == "close":
			if !inputClosed {
				close(s.in)
				inputClosed = true
			}
			trace = append(trace, "closed-input")
		case strings.HasPrefix(st, "wait-closed"):
			select {
			case <-s.d.Closed():
				time.Sleep(20 * time.Millisecond)
				emit("driver-closed")
			case <-time.After(3 * time.Second * loadScale()):
				emit("DRIVER-NOT-CLOSED")
			}
		case st == "state":
			trace = append(trace, "state="+strings.ReplaceAll(s.e.Position()+" "+obsBoard(z, s.e.Board()), " ", "_"))
		case st == "alive":
			select {
			case <-s.d.Closed():
				trace = append(trace, "DRIVER-EXITED")
			default:
				trace = append(trace, "alive")
			}
		default:
			trace = append(trace, "bad-step")
		}
	}
	return strings.Join(trace, " ")
}

// legalUci lists the legal moves of the position a `position` line describes (implementation rules).
func positionAfter(line string) (*board.Board, bool) {
	f := strings.Fields(line)
	if len(f) < 2 || f[0] != "position" {
		return nil, false
	}
	start := fen.Initial
	i := 2
	if f[1] == "fen" && len(f) >= 8 {
		start = strings.Join(f[2:8], " ")
		i = 8
	}
	p, turn, np, fm, err := fen.Decode(start)
	if err != nil {
		return nil, false
	}
	b := board.NewBoard(zobrist(0), p, turn, np, fm)
	for ; i < len(f); i++ {
		if f[i] == "moves" {
			continue
		}
		found := false
		for _, m := range b.Position().PseudoLegalMoves(b.Turn()) {
			if moveUci(m) == f[i] {
				found = b.PushMove(m)
				break
			}
		}
		if !found {
			return nil, false
		}
	}
	return b, true
}

func init() {
	registerEval("uci", func(a []string) string {
		// uci <kind> <seed> ; step ;; step ;; ...
		seed, _ := strconv.ParseInt(a[1], 10, 64)
		rest := strings.Join(a[3:], " ")
		return runUciScript(a[0], seed, strings.Split(rest, " ;; "))
	})
	childOps["uci"] = true
}

// childOps are evaluated in a child process: a crash in a goroutine of the code under test (e.g. a
// send on a closed channel) would otherwise take the harness down.
var childOps = map[string]bool{}

// uciHangs counts child scripts killed for not finishing; after three the limit drops (the run is failing anyway).
var uciHangs atomic.Int64

// loadScale stretches wall-clock limits when the machine is oversubscribed (other checks running beside this one): the
// one-minute load average per CPU, doubled, between 1 and 8. A limit is there to bound the cost of a real hang, not to
// judge speed, so erring on the long side is right.
func loadScale() time.Duration {
	data, err := os.ReadFile("/proc/loadavg")
	if err != nil {
		return 1
	}
	f := strings.Fields(string(data))
	if len(f) == 0 {
		return 1
	}
	load, err := strconv.ParseFloat(f[0], 64)
	if err != nil {
		return 1
	}
	// the average lags behind a burst: the number of runnable tasks right now (fourth field, "running/total") counts as well
	if len(f) > 3 {
		if k := strings.Index(f[3], "/"); k > 0 {
			if running, err := strconv.ParseFloat(f[3][:k], 64); err == nil && running > load {
				load = running
			}
		}
	}
	k := int(2 * load / float64(runtime.NumCPU()))
	if k < 1 {
		k = 1
	}
	if k > 8 {
		k = 8
	}
	return time.Duration(k)
}

func childLimit() time.Duration {
	if uciHangs.Load() >= 3 {
		return 15 * time.Second * loadScale()
	}
	return 90 * time.Second * loadScale()
}

// uciNoAnswer counts expired bestmove waits of this harness run (in-process scripts and child scripts).
var uciNoAnswer atomic.Int64

func evalInChild(line string) string {
	cmd := exec.Command(os.Args[0], "-evalop", line, "-out", os.TempDir(), "child")
	cmd.Env = os.Environ()
	if uciNoAnswer.Load() >= 3 {
		cmd.Env = append(cmd.Env, "VERIF_UCI_FAST=1")
	}
	done := make(chan struct{})
	var out []byte
	var err error
	go func() {
		out, err = cmd.CombinedOutput()
		close(done)
	}()
	select {
	case <-done:
	case <-time.After(childLimit()):
		_ = cmd.Process.Kill()
		<-done
		uciHangs.Add(1)
		return "hang"
	}
	txt := strings.TrimSpace(string(out))
	if strings.Contains(txt, "NO-BESTMOVE") {
		uciNoAnswer.Add(1)
	}
	if err != nil {
		first := txt
		for _, l := range strings.Split(txt, "\n") {
			if strings.HasPrefix(l, "panic:") || strings.HasPrefix(l, "fatal error:") || strings.Contains(l, "DATA RACE") {
				first = l
				break
			}
		}
		if len(first) > 160 {
			first = first[:160]
		}
		return "panic:" + strings.ReplaceAll(first, " ", "_")
	}
	lines := strings.Split(txt, "\n")
	return lines[len(lines)-1]
}

func fmtDur(d time.Duration) string { return fmt.Sprint(d.Milliseconds()) }

// stdinlines <seed> <count>: the way the bundled programs receive their commands (engine.ReadStdinLines on os.Stdin): every
// line written arrives as ONE line, unchanged and in order - also a `position ... moves ...` of a long game, which runs to
// several kilobytes. (bufio.Scanner's own limit of 64 KiB per line is not approached.) Evaluated in a child process, whose
// stdin is replaced by a pipe.
func init() {
	childOps["stdinlines"] = true
	registerEval("stdinlines", func(a []string) string {
		seed, _ := strconv.ParseInt(a[0], 10, 64)
		n, _ := strconv.Atoi(a[1])
		r := rand.New(rand.NewSource(seed))
		pr, pw, err := os.Pipe()
		if err != nil {
			return "HARNESS pipe"
		}
		os.Stdin = pr
		ctx, cancel := context.WithCancel(context.Background())
		defer cancel()
		in := engine.ReadStdinLines(ctx)
		var sent []string
		for i := 0; i < n; i++ {
			plies := []int{0, 3, 40, 200, 700, 813, 814, 815, 816, 820, 831, 1200, 1638, 1639, 1640, 3000, 6000}[r.Intn(17)]
			if r.Intn(3) == 0 {
				plies = r.Intn(7000)
			}
			var sb strings.Builder
			sb.WriteString("position startpos")
			if plies > 0 {
				sb.WriteString(" moves")
			}
			for k := 0; k < plies; k++ {
				sb.WriteByte(' ')
				sb.WriteByte(byte('a' + r.Intn(8)))
				sb.WriteByte(byte('1' + r.Intn(8)))
				sb.WriteByte(byte('a' + r.Intn(8)))
				sb.WriteByte(byte('1' + r.Intn(8)))
			}
			sent = append(sent, sb.String(), "go depth 1")
		}
		go func() {
			w := bufio.NewWriter(pw)
			for _, l := range sent {
				w.WriteString(l)
				w.WriteByte('\n')
			}
			w.Flush()
			pw.Close()
		}()
		var got []string
		deadline := time.After(60 * time.Second * loadScale())
	loop:
		for {
			select {
			case l, ok := <-in:
				if !ok {
					break loop
				}
				got = append(got, l)
				if len(got) > len(sent)+64 {
					break loop
				}
			case <-deadline:
				return fmt.Sprintf("MISMATCH %d of %d lines arrived, then nothing for a minute", len(got), len(sent))
			}
		}
		for i := range sent {
			if i >= len(got) {
				return fmt.Sprintf("MISMATCH %d lines sent, %d arrived", len(sent), len(got))
			}
			if got[i] != sent[i] {
				return fmt.Sprintf("MISMATCH line %d, sent with %d bytes, arrived as a line of %d bytes", i, len(sent[i]), len(got[i]))
			}
		}
		if len(got) != len(sent) {
			return fmt.Sprintf("MISMATCH %d lines sent, %d arrived", len(sent), len(got))
		}
		return "ok"
	})
}
