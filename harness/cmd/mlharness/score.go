package main

import (
	"fmt"
	"math"
	"math/rand"
	"strconv"
	"strings"

	"github.com/herohde/morlock/pkg/eval"
)

// f32key is the order embedding float32\{NaN} -> int64 (sign-magnitude bits, ±0 -> 0).
func f32key(x eval.Pawns) int64 {
	b := math.Float32bits(float32(x))
	if b&0x80000000 != 0 {
		return -int64(b & 0x7fffffff)
	}
	return int64(b)
}

// negZeroKey spells the float -0.0 in an op line (sign bit set, magnitude 0). It is the same VALUE as +0.0 - results are printed
// with the key 0 for both - but a comparison done on bit patterns could tell them apart.
const negZeroKey = -2147483648

func keyF32(k int64) eval.Pawns {
	if k == negZeroKey {
		return eval.Pawns(math.Float32frombits(0x80000000))
	}
	if k < 0 {
		return eval.Pawns(math.Float32frombits(uint32(-k) | 0x80000000))
	}
	return eval.Pawns(math.Float32frombits(uint32(k)))
}

func fmtScore(s eval.Score) string {
	t := "X"
	switch s.Type {
	case eval.Heuristic:
		t = "H"
	case eval.MateInX:
		t = "M"
	case eval.Inf:
		t = "I"
	case eval.NegInf:
		t = "N"
	case eval.Invalid:
		t = "X"
	default:
		t = "?"
	}
	return fmt.Sprintf("%s:%d:%d", t, s.Mate, f32key(s.Pawns))
}

func parseScore(str string) eval.Score {
	p := strings.Split(str, ":")
	mate, _ := strconv.Atoi(p[1])
	key, _ := strconv.ParseInt(p[2], 10, 64)
	var t eval.ScoreType
	switch p[0] {
	case "H":
		t = eval.Heuristic
	case "M":
		t = eval.MateInX
	case "I":
		t = eval.Inf
	case "N":
		t = eval.NegInf
	default:
		t = eval.Invalid
	}
	return eval.Score{Type: t, Mate: int8(mate), Pawns: keyF32(key)}
}

func init() {
	registerEval("score", func(a []string) string {
		switch a[0] {
		case "less":
			return fmt.Sprint(parseScore(a[1]).Less(parseScore(a[2])))
		case "neg":
			return fmtScore(parseScore(a[1]).Negate())
		case "inc":
			return fmtScore(eval.IncrementMateDistance(parseScore(a[1])))
		case "dec":
			return fmtScore(eval.DecrementMateDistance(parseScore(a[1])))
		case "decinc": // one ply closer, then one ply further: the value every field of which is reported
			return fmtScore(eval.IncrementMateDistance(eval.DecrementMateDistance(parseScore(a[1]))))
		case "roundtrip": // the search's window round trip: Negate(Increment(Decrement(Negate(s))))
			return fmtScore(eval.IncrementMateDistance(eval.DecrementMateDistance(parseScore(a[1]).Negate())).Negate())
		case "deceq": // a decided score reached by decrementing is THE decided score (equal, not only equally ranked)
			x := eval.DecrementMateDistance(parseScore(a[1]))
			return fmt.Sprint(x == eval.InfScore, x == eval.NegInfScore, x.Negate().Negate() == x)
		case "max":
			return fmtScore(eval.Max(parseScore(a[1]), parseScore(a[2])))
		case "min":
			return fmtScore(eval.Min(parseScore(a[1]), parseScore(a[2])))
		case "heur": // the constructor itself: every float32 (the infinities included; NaN is outside) is kept as it is
			k, _ := strconv.ParseInt(a[1], 10, 64)
			return fmtScore(eval.HeuristicScore(keyF32(k)))
		case "mate":
			k, _ := strconv.Atoi(a[1])
			return fmtScore(eval.MateInXScore(int8(k)))
		case "dist":
			d, ok := parseScore(a[1]).MateDistance()
			if !ok {
				return "none"
			}
			return fmt.Sprint(d)
		case "negneg":
			x := parseScore(a[1])
			return fmt.Sprint(x.Negate().Negate() == x)
		case "antitone":
			x, y := parseScore(a[1]), parseScore(a[2])
			return fmt.Sprint(x.Less(y) == y.Negate().Less(x.Negate()))
		case "incmono":
			x, y := parseScore(a[1]), parseScore(a[2])
			return fmt.Sprint(x.Less(y) == eval.IncrementMateDistance(x).Less(eval.IncrementMateDistance(y)))
		case "trans":
			x, y, z := parseScore(a[1]), parseScore(a[2]), parseScore(a[3])
			return fmt.Sprint(!(x.Less(y) && y.Less(z)) || x.Less(z))
		case "tricho":
			x, y := parseScore(a[1]), parseScore(a[2])
			n := 0
			if x.Less(y) {
				n++
			}
			if x == y {
				n++
			}
			if y.Less(x) {
				n++
			}
			return fmt.Sprint(n)
		}
		return "bad-op"
	})
	register("score", genScore)
}

func scoreFloats(r *rand.Rand) []float32 {
	floats := []float32{0, float32(math.Copysign(0, -1)), 1, -1, 0.5, -0.5, 3, -3, 100, -100, 103, -103, 1e-45, -1e-45,
		1.17549435e-38, -1.17549435e-38, math.MaxFloat32, -math.MaxFloat32, float32(math.Inf(1)), float32(math.Inf(-1)),
		0.01, -0.01, 9.99, -9.99, 2.5, -2.5, 1e10, -1e10}
	for i := 0; i < 12; i++ {
		floats = append(floats, float32(r.NormFloat64()*10))
	}
	return floats
}

func scorePool(r *rand.Rand) []eval.Score {
	pool := []eval.Score{eval.InfScore, eval.NegInfScore, eval.InvalidScore}
	for m := -128; m <= 127; m++ {
		pool = append(pool, eval.MateInXScore(int8(m)))
	}
	for _, f := range scoreFloats(r) {
		pool = append(pool, eval.HeuristicScore(eval.Pawns(f)))
	}
	return pool
}

// spell is fmtScore for the operand of an op line: the one difference is that the float -0.0 is spelled as such.
func spell(s eval.Score) string {
	if s.Type == eval.Heuristic && math.Float32bits(float32(s.Pawns)) == 0x80000000 {
		return fmt.Sprintf("H:%d:%d", s.Mate, int64(negZeroKey))
	}
	return fmtScore(s)
}

func genScore(o *Out, r *rand.Rand, thorough bool) {
	pool := scorePool(r)
	o.info["pool_size"] = len(pool)
	for _, a := range pool {
		sa := spell(a)
		for _, op := range []string{"neg", "inc", "dist", "negneg", "dec", "decinc", "roundtrip", "deceq"} {
			o.do("score " + op + " " + sa)
		}
		o.Count("unary")
	}
	// the constructors (the pool above is spelled field by field in the op lines, so a constructor that alters its argument
	// would go unseen there)
	for _, f := range scoreFloats(r) {
		o.do(fmt.Sprintf("score heur %d", f32key(eval.Pawns(f))))
		o.Count("constructor:heuristic")
	}
	for m := -128; m <= 127; m++ {
		o.do(fmt.Sprintf("score mate %d", m))
		o.Count("constructor:mate")
	}
	for _, a := range pool {
		sa := spell(a)
		for _, b := range pool {
			sb := spell(b)
			for _, op := range []string{"less", "max", "min", "antitone", "incmono", "tricho"} {
				o.do("score " + op + " " + sa + " " + sb)
			}
			o.Count("pair:" + sa[:1] + sb[:1])
			if a != b {
				o.Nontrivial(sa + "|" + sb)
			}
		}
	}
	n := 20000
	if thorough {
		n = 2000000
	}
	for i := 0; i < n; i++ {
		a, b, c := pool[r.Intn(len(pool))], pool[r.Intn(len(pool))], pool[r.Intn(len(pool))]
		o.do("score trans " + spell(a) + " " + spell(b) + " " + spell(c))
		o.Count("triple")
	}
}
