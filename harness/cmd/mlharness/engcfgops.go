package main

// engcfg: the configuration side of engine.Engine (options, the game's table, its noise, what a launched search is handed)
// against Model/EngineCfg.lean. The engine is built around a spy search that records what it is given and returns at once;
// the unexported fields (opts, tt, noise, searches, active) are read through reflection (read-only).

import (
	"context"
	"fmt"
	"math/rand"
	"reflect"
	"strconv"
	"strings"
	"sync"
	"time"
	"unsafe"

	"github.com/herohde/morlock/pkg/board"
	"github.com/herohde/morlock/pkg/board/fen"
	"github.com/herohde/morlock/pkg/engine"
	"github.com/herohde/morlock/pkg/eval"
	"github.com/herohde/morlock/pkg/search"
	"github.com/herohde/morlock/pkg/search/searchctl"
	"github.com/seekerror/stdlib/pkg/lang"
)

type spyCall struct {
	tt     search.TranspositionTable
	noise  []eval.Pawns
	nlimit int
}

// spySearch records the context of the first call of every launch and the deepest depth asked for; from depth 64 on it waits
// for the halt (an unlimited analysis).
type spySearch struct {
	mu       sync.Mutex
	first    chan spyCall
	maxDepth int
}

func (s *spySearch) Search(ctx context.Context, sctx *search.Context, b *board.Board, depth int) (uint64, eval.Score, []board.Move, error) {
	s.mu.Lock()
	if depth == 1 {
		c := spyCall{tt: sctx.TT}
		c.nlimit = int(reflect.ValueOf(sctx.Noise).FieldByName("limit").Int())
		for i := 0; i < 24; i++ {
			c.noise = append(c.noise, sctx.Noise.Evaluate(ctx, b))
		}
		select {
		case s.first <- c:
		default:
		}
	}
	if depth > s.maxDepth {
		s.maxDepth = depth
	}
	s.mu.Unlock()
	if depth >= 64 {
		<-ctx.Done()
		return 0, eval.Score{}, nil, search.ErrHalted
	}
	select {
	case <-ctx.Done():
		return 0, eval.Score{}, nil, search.ErrHalted
	default:
	}
	return 1, eval.HeuristicScore(0), nil, nil
}

func engField(e *engine.Engine, name string) reflect.Value {
	f := reflect.ValueOf(e).Elem().FieldByName(name)
	return reflect.NewAt(f.Type(), unsafe.Pointer(f.UnsafeAddr())).Elem() // readable copy of an unexported field
}

// engCfgFieldsOK: the unexported fields this file reads exist under the names and kinds it expects. If a refactoring has renamed
// them the stream is skipped (and says so in the evidence) rather than turned into an alarm: what it checks is then covered only
// by the behavioural ops (`reanalyse`, `newgames`, `noise`, `twin`).
func engCfgFieldsOK() bool {
	t := reflect.TypeOf(engine.Engine{})
	want := map[string][]reflect.Kind{"tt": {reflect.Interface}, "noise": {reflect.Int}, "searches": {reflect.Int64}, "active": {reflect.Interface, reflect.Ptr}}
	for name, kinds := range want {
		f, ok := t.FieldByName(name)
		if !ok {
			return false
		}
		okKind := false
		for _, k := range kinds {
			if f.Type.Kind() == k {
				okKind = true
			}
		}
		if !okKind {
			return false
		}
	}
	f, ok := reflect.TypeOf(eval.Random{}).FieldByName("limit")
	return ok && f.Type.Kind() == reflect.Int
}

func init() {
	registerEval("engcfg", func(a []string) string {
		if len(a) < 4 || a[3] != ";" {
			return "bad-op"
		}
		if !engCfgFieldsOK() {
			return "HARNESS-skipped: the unexported fields of engine.Engine / eval.Random have other names or kinds"
		}
		d, _ := strconv.Atoi(a[0])
		h, _ := strconv.Atoi(a[1])
		n, _ := strconv.Atoi(a[2])
		const seed = 11
		ctx := context.Background()
		spy := &spySearch{first: make(chan spyCall, 1)}
		e := engine.New(ctx, "cfg", "x", spy, engine.WithOptions(engine.Options{Depth: uint(d), Hash: uint(h), Noise: uint(n)}), engine.WithZobrist(seed))
		var prevTT interface{}
		ttOf := func() search.TranspositionTable {
			v := engField(e, "tt").Interface()
			if v == nil {
				return nil
			}
			return v.(search.TranspositionTable)
		}
		isNone := func(t search.TranspositionTable) bool {
			if t == nil {
				return true
			}
			_, ok := t.(search.NoTranspositionTable)
			return ok
		}
		same := func(x, y interface{}) bool {
			if x == nil || y == nil {
				return false
			}
			vx, vy := reflect.ValueOf(x), reflect.ValueOf(y)
			if vx.Kind() != reflect.Ptr || vy.Kind() != reflect.Ptr {
				return false
			}
			return vx.Pointer() == vy.Pointer()
		}
		obs := func() string {
			o := e.Options()
			t := ttOf()
			tt := "none:0"
			if !isNone(t) {
				if same(prevTT, t) {
					tt = fmt.Sprintf("same:%d", t.Size())
				} else {
					tt = fmt.Sprintf("new:%d", t.Size())
				}
			}
			if isNone(t) {
				prevTT = nil
			} else {
				prevTT = t
			}
			return fmt.Sprintf("opts=%d,%d,%d tt=%s noise=%d searches=%d active=%v", o.Depth, o.Hash, o.Noise, tt,
				engField(e, "noise").Int(), engField(e, "searches").Int(), !engField(e, "active").IsNil())
		}
		outs := []string{"start " + obs()}
		for _, it := range a[4:] {
			res := "bad-item"
			num := func(s string) (int, bool) { v, err := strconv.Atoi(s); return v, err == nil && v >= 0 }
			switch {
			case it == "tb":
				_ = e.TakeBack(ctx)
				res = "-"
			case it == "x":
				if _, err := e.Halt(ctx); err != nil {
					res = "err"
				} else {
					res = "ok"
				}
			case it == "r1", it == "r0":
				f := fen.Initial
				if it == "r0" {
					f = "not a fen"
				}
				if err := e.Reset(ctx, f); err != nil {
					res = "err"
				} else {
					res = "ok"
				}
			case it == "m1":
				_ = e.Move(ctx, []string{"e2e4", "e7e5", "a1a8", "g1f3"}[len(outs)%4])
				res = "-"
			case it == "m0":
				if err := e.Move(ctx, "zz"); err != nil {
					res = "err"
				} else {
					res = "ok"
				}
			case strings.HasPrefix(it, "d") || strings.HasPrefix(it, "h") || strings.HasPrefix(it, "n"):
				v, ok := num(it[1:])
				if !ok {
					break
				}
				switch it[0] {
				case 'd':
					e.SetDepth(uint(v))
				case 'h':
					e.SetHash(uint(v))
				case 'n':
					e.SetNoise(uint(v))
				}
				res = "ok"
			case strings.HasPrefix(it, "a"):
				opt := searchctl.Options{}
				if it != "a-" {
					v, ok := num(it[1:])
					if !ok {
						break
					}
					opt.DepthLimit = lang.Some(uint(v))
				}
				game := ttOf()
				spy.mu.Lock()
				spy.maxDepth = 0
				spy.mu.Unlock()
				select {
				case <-spy.first:
				default:
				}
				out, err := e.Analyze(ctx, opt)
				if err != nil {
					res = "err"
					break
				}
				var call spyCall
				select {
				case call = <-spy.first:
				case <-time.After(20 * time.Second * loadScale()):
					return "MISMATCH the launched search never called the root search"
				}
				// the limit: the depth at which the analysis ends by itself - or none, if it reaches 64 and goes on
				closed := make(chan struct{})
				go func() {
					for range out {
					}
					close(closed)
				}()
				limit := "none"
				deadline := time.After(20 * time.Second * loadScale())
			wait:
				for {
					select {
					case <-closed:
						spy.mu.Lock()
						limit = strconv.Itoa(spy.maxDepth)
						spy.mu.Unlock()
						break wait
					case <-deadline:
						return "MISMATCH the analysis neither ended nor reached depth 64"
					case <-time.After(time.Millisecond):
						spy.mu.Lock()
						m := spy.maxDepth
						spy.mu.Unlock()
						if m >= 64 {
							break wait
						}
					}
				}
				tt := "none:0"
				if !isNone(call.tt) {
					if same(call.tt, game) {
						tt = fmt.Sprintf("game:%d", call.tt.Size())
					} else {
						tt = fmt.Sprintf("other:%d", call.tt.Size())
					}
				}
				nz := "none"
				if call.nlimit > 0 {
					nz = fmt.Sprintf("%d:?", call.nlimit)
					var matches []int64
					for k := int64(0); k <= 64; k++ {
						ref := eval.NewRandom(call.nlimit, seed+k)
						ok := true
						for _, v := range call.noise {
							if ref.Evaluate(ctx, nil) != v {
								ok = false
								break
							}
						}
						if ok {
							matches = append(matches, k)
						}
					}
					if len(matches) > 0 {
						k := matches[0]
						// with a limit of 1 (or 2, rarely) several sources give the same values: they are the same source for every
						// purpose; the engine's own count, reported separately, then names the one meant
						for _, m := range matches {
							if m == engField(e, "searches").Int() {
								k = m
							}
						}
						nz = fmt.Sprintf("%d:%d", call.nlimit, k)
					}
				}
				res = fmt.Sprintf("launched limit=%s tt=%s noise=%s", limit, tt, nz)
			}
			outs = append(outs, res+" "+obs())
		}
		e.Halt(ctx)
		return strings.Join(outs, " | ")
	})
	register("engcfg", func(o *Out, r *rand.Rand, thorough bool) {
		n := 60
		if thorough {
			n = 3000
		}
		if !engCfgFieldsOK() {
			o.Count("engcfg:SKIPPED-unexported-fields-renamed")
			o.info["engcfg"] = "skipped: the unexported fields of engine.Engine / eval.Random have other names or kinds than the harness reads"
			return
		}
		curated := []string{
			"engcfg 2 1 0 ; a4 x a- x h0 r1 a- x",
			"engcfg 0 0 5 ; a3 x n0 a2 x r1 a2 x n7 a1 x r1 a1 x a1",
			"engcfg 3 2 0 ; a- a- x r0 a- x r1 a- m0 m1 a2 tb a- x h1 r1 a- x h1 r1 a-",
			"engcfg 0 0 0 ; a- x a0 x d5 a- x a7 x a-",
		}
		for _, l := range curated {
			o.do(l)
			o.Count("engcfg:curated")
			o.Nontrivial(l)
		}
		for i := 0; i < n; i++ {
			var items []string
			k := 4 + r.Intn(16)
			for j := 0; j < k; j++ {
				switch x := r.Intn(100); {
				case x < 30:
					items = append(items, []string{"a-", "a-", fmt.Sprintf("a%d", r.Intn(7)), fmt.Sprintf("a%d", 1+r.Intn(30))}[r.Intn(4)])
				case x < 50:
					items = append(items, "x")
				case x < 62:
					items = append(items, []string{"r1", "r1", "r1", "r0"}[r.Intn(4)])
				case x < 70:
					items = append(items, fmt.Sprintf("d%d", r.Intn(6)))
				case x < 80:
					items = append(items, fmt.Sprintf("h%d", []int{0, 0, 1, 1, 2, 4}[r.Intn(6)])) // powers of two: the table rounds other sizes down (its own business, C17)
				case x < 90:
					items = append(items, fmt.Sprintf("n%d", []int{0, 0, 1, 2, 5, 30, 10000}[r.Intn(7)]))
				case x < 94:
					items = append(items, "m1")
				case x < 97:
					items = append(items, "m0")
				default:
					items = append(items, "tb")
				}
			}
			line := fmt.Sprintf("engcfg %d %d %d ; %s", r.Intn(5), []int{0, 1, 1, 2}[r.Intn(4)], []int{0, 0, 3, 50}[r.Intn(4)], strings.Join(items, " "))
			res := o.do(line)
			for _, key := range []string{"tt=new", "tt=none", "noise=none", "limit=none", " err ", "tt=game"} {
				if strings.Contains(res, key) {
					o.Count("engcfg:" + strings.TrimSpace(key))
				}
			}
			o.Nontrivial(line)
		}
	})
}
