package main

import (
	"fmt"
	"math"
	"math/rand"
	"strconv"
	"strings"

	"github.com/herohde/morlock/pkg/board"
	"github.com/herohde/morlock/pkg/board/fen"
)

var ztCache = map[int64]*board.ZobristTable{}

func zobrist(seed int64) *board.ZobristTable {
	if z, ok := ztCache[seed]; ok {
		return z
	}
	z := board.NewZobristTable(seed)
	ztCache[seed] = z
	return z
}

// ztableLine recovers every key through the exported Hash (normalised: turn[White] folded into the
// castling keys) and prints them for the Lean driver.
func ztableLine(seed int64) string {
	z := zobrist(seed)
	empty := func(c board.Castling, ep board.Square) *board.Position {
		p, _ := board.NewPosition(nil, c, ep)
		return p
	}
	h0 := z.Hash(empty(0, 0), board.White)
	parts := []string{"ztable", strconv.FormatInt(seed, 10)}
	for c := board.ZeroColor; c < board.NumColors; c++ {
		for k := board.NoPiece; k < board.NumPieces; k++ {
			for sq := board.ZeroSquare; sq < board.NumSquares; sq++ {
				if k == board.NoPiece {
					parts = append(parts, "0")
					continue
				}
				p, _ := board.NewPosition([]board.Placement{{Square: sq, Color: c, Piece: k}}, 0, 0)
				parts = append(parts, strconv.FormatUint(uint64(z.Hash(p, board.White)^h0), 16))
			}
		}
	}
	for c := board.ZeroCastling; c < board.NumCastling; c++ {
		parts = append(parts, strconv.FormatUint(uint64(z.Hash(empty(c, 0), board.White)), 16))
	}
	for sq := board.ZeroSquare; sq < board.NumSquares; sq++ {
		parts = append(parts, strconv.FormatUint(uint64(z.Hash(empty(0, sq), board.White)^h0), 16))
	}
	parts = append(parts, strconv.FormatUint(uint64(z.Hash(empty(0, 0), board.Black)^h0), 16))
	return strings.Join(parts, " ")
}

func fmtResult(r board.Result) string {
	switch r.Outcome {
	case board.Draw:
		switch r.Reason {
		case board.Repetition3:
			return "D:rep3"
		case board.Repetition5:
			return "D:rep5"
		case board.NoProgress:
			return "D:np"
		case board.InsufficientMaterial:
			return "D:mat"
		case board.Stalemate:
			return "D:stale"
		}
		return "D:?"
	case board.WhiteWins:
		return "1-0"
	case board.BlackWins:
		return "0-1"
	}
	return "-"
}

func optMove(m board.Move, ok bool) string {
	if !ok {
		return "none"
	}
	return moveUci(m)
}

func obsBoard(z *board.ZobristTable, b *board.Board) string {
	last, ok1 := b.LastMove()
	second, ok2 := b.SecondToLastMove()
	return strings.Join([]string{
		fen.Encode(b.Position(), b.Turn(), b.NoProgress(), b.FullMoves()),
		strconv.FormatUint(uint64(b.Hash()), 16),
		strconv.FormatUint(uint64(z.Hash(b.Position(), b.Turn())), 16),
		strconv.Itoa(b.Ply()), fmt.Sprint(b.HasCastled(board.White)), fmt.Sprint(b.HasCastled(board.Black)),
		optMove(last, ok1), optMove(second, ok2), strconv.FormatUint(uint64(b.HasMoved(4)), 16), fmtResult(b.Result()),
	}, " ")
}

func init() {
	registerEval("ztable", func(a []string) string {
		// quality of the table as recovered through the exported Hash (C07: positions differing in one component hash
		// differently): the separating keys must be non-zero and pairwise distinct
		vals := make([]uint64, 0, len(a))
		for _, x := range a[1:] {
			v, _ := strconv.ParseUint(x, 16, 64)
			vals = append(vals, v)
		}
		if len(vals) != 896+16+64+1 {
			return "bad-ztable"
		}
		var keys []uint64
		for i := 0; i < 896; i++ {
			if (i/64)%7 != 0 {
				keys = append(keys, vals[i])
			}
		}
		for i := 1; i < 16; i++ {
			keys = append(keys, vals[896+i]^vals[896])
		}
		for i := 0; i < 8; i++ {
			keys = append(keys, vals[912+16+i])
		}
		for i := 0; i < 8; i++ {
			keys = append(keys, vals[912+40+i])
		}
		keys = append(keys, vals[976])
		zero, dup := 0, 0
		seen := map[uint64]int{}
		for _, k := range keys {
			if k == 0 {
				zero++
			}
			seen[k]++
		}
		for _, n := range seen {
			dup += n - 1
		}
		return fmt.Sprintf("ok keys=%d dup=%d zero=%d", len(keys), dup, zero)
	})
	gameEval := func(a []string) string {
		seed, _ := strconv.ParseInt(a[0], 10, 64)
		z := zobrist(seed)
		i := 1
		for i < len(a) && a[i] != ";" {
			i++
		}
		p, turn, np, fm, err := fen.Decode(strings.Join(a[1:i], " "))
		if err != nil {
			return "err"
		}
		boards := []*board.Board{board.NewBoard(z, p, turn, np, fm)}
		active := 0
		all := func() string {
			var parts []string
			for _, b := range boards {
				parts = append(parts, obsBoard(z, b))
			}
			return strings.Join(parts, " / ")
		}
		outs := []string{"start " + all()}
		if i < len(a) {
			i++
		}
		for ; i < len(a); i++ {
			op := a[i]
			quiet := strings.HasPrefix(op, "!") // the step is made, the boards are not asked anything afterwards
			op = strings.TrimPrefix(op, "!")
			b := boards[active]
			res := "bad-op"
			switch {
			case op == "q": // pure queries must leave no trace
				p := b.Position()
				res = fmt.Sprintf("q:%v:%v:%v:%d", p.IsChecked(b.Turn()), p.IsChecked(b.Turn().Opponent()), p.IsCheckMate(b.Turn()), len(p.LegalMoves(b.Turn())))
			case strings.HasPrefix(op, "m:"):
				res = "nomove"
				for _, m := range b.Position().PseudoLegalMoves(b.Turn()) {
					if moveUci(m) == op[2:] {
						if b.PushMove(m) {
							res = "ok"
						} else {
							res = "illegal"
						}
						break
					}
				}
			case op == "pop":
				m, ok := b.PopMove()
				res = optMove(m, ok)
			case op == "fork":
				boards = append(boards, b.Fork())
				res = strconv.Itoa(len(boards) - 1)
			case strings.HasPrefix(op, "on:"):
				id, err := strconv.Atoi(op[3:])
				if err == nil && id >= 0 && id < len(boards) {
					active = id
					res = "ok"
				} else {
					res = "bad"
				}
			case op == "adj":
				res = fmtResult(b.AdjudicateNoLegalMoves())
			}
			if quiet {
				outs = append(outs, res+" unobserved")
			} else {
				outs = append(outs, res+" "+all())
			}
		}
		return strings.Join(outs, " | ")
	}
	registerEval("game", gameEval)
	registerEval("gamex", gameEval)
	register("game", genGame)
}

// gameSim mirrors the op script on real boards so that the generator can pick legal moves.
type gameSim struct {
	z      *board.ZobristTable
	boards []*board.Board
	base   []int // pop floor per board (moves on the line when it was created)
	depth  []int
	active int
	ops    []string
	tags   map[string]bool
	deep   bool // take-backs below fork points allowed (emitted as `gamex`: implementation vs arena model only)
}

func (g *gameSim) push(r *rand.Rand, pick func([]board.Move) (board.Move, bool)) bool {
	b := g.boards[g.active]
	legal := b.Position().LegalMoves(b.Turn())
	if len(legal) == 0 {
		g.ops = append(g.ops, "adj")
		b.AdjudicateNoLegalMoves()
		g.tags["adjudicated"] = true
		return false
	}
	m, ok := pick(legal)
	if !ok {
		return false
	}
	if !b.PushMove(m) {
		return false
	}
	g.ops = append(g.ops, "m:"+moveUci(m))
	g.depth[g.active]++
	switch {
	case m.IsCastle():
		g.tags["castle"] = true
	case m.Type == board.EnPassant:
		g.tags["ep"] = true
	case m.IsPromotion():
		g.tags["promo"] = true
	}
	if b.Result().Outcome == board.Draw {
		g.tags["draw:"+fmtResult(b.Result())] = true
	}
	return true
}

func (g *gameSim) pop() {
	// deep: take-backs below the point where the board was forked (or forked from) are allowed too. The boards then share
	// mutable history; the reference has no opinion there, the arena model of the pointers has (`gamex`: impl vs model only)
	if g.depth[g.active] > g.base[g.active] || (g.deep && g.depth[g.active] > 0) {
		if g.depth[g.active] <= g.base[g.active] {
			g.tags["pop-below-fork-point"] = true
		}
		g.boards[g.active].PopMove()
		g.depth[g.active]--
		g.ops = append(g.ops, "pop")
		g.tags["pop"] = true
	}
}

func (g *gameSim) fork() {
	if len(g.boards) >= 4 {
		return
	}
	g.boards = append(g.boards, g.boards[g.active].Fork())
	g.base = append(g.base, g.depth[g.active])
	g.depth = append(g.depth, g.depth[g.active])
	// the original must not pop below the fork point either (shared history must not be mutated)
	if g.base[g.active] < g.depth[g.active] {
		g.base[g.active] = g.depth[g.active]
	}
	g.ops = append(g.ops, "fork")
	g.tags["fork"] = true
}

func (g *gameSim) switchTo(id int) {
	if id != g.active && id < len(g.boards) {
		g.active = id
		g.ops = append(g.ops, "on:"+strconv.Itoa(id))
	}
}

func newSim(seed int64, f string) *gameSim {
	p, turn, np, fm, err := fen.Decode(f)
	if err != nil {
		panic("bad fen in generator: " + f)
	}
	z := zobrist(seed)
	return &gameSim{z: z, boards: []*board.Board{board.NewBoard(z, p, turn, np, fm)}, base: []int{0}, depth: []int{0}, tags: map[string]bool{}}
}

func biased(r *rand.Rand) func([]board.Move) (board.Move, bool) {
	return func(legal []board.Move) (board.Move, bool) {
		total := 0
		ws := make([]int, len(legal))
		for i, m := range legal {
			w := 2
			switch {
			case m.IsCastle(), m.Type == board.EnPassant:
				w = 40
			case m.IsPromotion():
				w = 10
			case m.IsCapture():
				w = 6
			}
			if m.IsCapture() && (m.To == board.A1 || m.To == board.H1 || m.To == board.A8 || m.To == board.H8) {
				w = 40 // a rook captured on its home square: castling rights change without a king or rook move
			}
			ws[i] = w
			total += w
		}
		x := r.Intn(total)
		for i, w := range ws {
			if x < w {
				return legal[i], true
			}
			x -= w
		}
		return legal[0], true
	}
}

// quiet prefers reversible moves (officers, no captures), to build up repetitions and the clock.
func quiet(r *rand.Rand) func([]board.Move) (board.Move, bool) {
	return func(legal []board.Move) (board.Move, bool) {
		var q []board.Move
		for _, m := range legal {
			if m.Type == board.Normal {
				q = append(q, m)
			}
		}
		if len(q) == 0 || r.Intn(25) == 0 {
			return legal[r.Intn(len(legal))], true
		}
		return q[r.Intn(len(q))], true
	}
}

// undo plays the reverse of the last-but-one own move if possible (shuffles back and forth).
func shuffle(r *rand.Rand, b *board.Board) func([]board.Move) (board.Move, bool) {
	return func(legal []board.Move) (board.Move, bool) {
		if prev, ok := b.SecondToLastMove(); ok && r.Intn(8) != 0 {
			for _, m := range legal {
				if m.From == prev.To && m.To == prev.From && m.Type == board.Normal {
					return m, true
				}
			}
		}
		return quiet(r)(legal)
	}
}

var gameStarts = []string{
	fen.Initial,
	"r3k2r/8/8/8/8/8/8/R3K2R w KQkq - 10 20",
	"r3k2r/8/8/8/8/8/8/R3K2R w KQkq - 96 60",
	"r3k2r/pppppppp/8/8/8/8/PPPPPPPP/R3K2R w KQkq - 90 40",
	"4k3/8/8/8/8/8/8/4K2R w K - 97 70",
	"6k1/8/8/8/2b5/8/3p4/3K1B2 w - - 0 1",
	"2b3k1/8/8/8/8/8/3p4/2BK4 w - - 0 1",
	"8/8/8/8/8/2k5/3p4/3K4 w - - 0 1",
	"8/8/8/8/8/2k5/3n4/3K4 w - - 3 1",
	"8/8/8/3k4/8/2b5/3r4/3K4 w - - 0 1",
	"8/5P2/8/8/8/2k5/8/3K4 w - - 0 1",
	"8/5P2/8/8/8/2k5/6b1/3K4 w - - 0 1",
	"4k3/8/8/8/8/8/8/4KBNR w K - 0 1",
	"k7/7R/6R1/8/8/8/8/7K w - - 0 1",
	"7k/5Q2/6K1/8/8/8/8/8 w - - 0 1",
	"rnbqkbnr/pppp1ppp/8/8/4pP2/8/PPPPP1PP/RNBQKBNR b KQkq f3 0 2",
	"8/8/8/2k5/3Pp3/8/8/4K3 b - d3 0 1",
	"r3k2r/p1ppqpb1/bn2pnp1/3PN3/1p2P3/2N2Q1p/PPPBBPPP/R3K2R w KQkq - 0 1",
	"8/8/8/8/8/1k6/8/K1B2b2 w - - 99 80",
	"8/8/4k3/8/8/3BB3/8/4K3 w - - 0 1",
	"r3k2r/1P4P1/8/8/8/8/1p4p1/R3K2R w KQkq - 0 1",
	"r3k2r/8/8/3BB3/3bb3/8/8/R3K2R w KQkq - 0 1",
	"r3k2r/2N2N2/8/8/8/8/2n2n2/R3K2R b KQkq - 0 1",
	"r3k2r/8/8/8/Q6q/8/8/R3K2R w KQkq - 0 1",
	// clocks beyond 100 are legitimate (the draw has to be claimed, play goes on): around the limits of narrow integer types
	"8/8/8/8/8/1k6/8/K1B2b2 w - - 250 200", "8/8/8/8/8/1k6/8/K1B2b2 b - - 254 200", "r3k2r/8/8/8/8/8/8/R3K2R w KQkq - 253 300",
	"8/8/8/8/8/1k6/8/K1B2b2 w - - 300 400", "4k3/8/8/8/8/8/4P3/R3K3 w Q - 127 100", "8/8/8/8/8/1k6/8/K1B2b2 w - - 65534 40000",
	"4k3/8/8/8/8/8/8/R3K3 w - - 32766 20000",
	// two bishops of ONE side on squares of one colour (needs a promotion): K+B+B v K is dead material exactly then
	"7k/P7/8/3B4/8/8/8/K7 w - - 0 1", "k7/8/8/8/3b4/8/p7/7K b - - 0 1", "7k/8/8/3B4/8/5B2/6r1/K7 w - - 0 1",
}

func genGame(o *Out, r *rand.Rand, thorough bool) {
	n := 350
	if thorough {
		n = 12000
	}
	seeds := []int64{0, 1, r.Int63n(1 << 40)}
	for _, s := range seeds {
		o.do(ztableLine(s))
	}
	// the property holds for EVERY seed: the edges of the seed domain get their tables recovered and judged too
	// (separating keys non-zero and pairwise distinct), and one of them is used for games
	edge := []int64{-1, 1 << 32, -(1 << 32), 3 << 32, 1 << 62, math.MaxInt64, math.MinInt64}
	for _, s := range edge {
		o.do(ztableLine(s))
		o.Count("ztable:edge-seed")
	}
	seeds = append(seeds, edge[r.Intn(len(edge))])
	// the move that mates or stalemates also completes a draw condition (hundredth quiet half-move, capture into bare
	// material): adjudication must still say checkmate / stalemate
	for _, c := range [][2]string{
		{"k7/7R/6R1/8/8/8/8/7K w - - 99 60", "m:g6g8 adj"},
		{"7k/8/5K2/8/8/8/8/6Q1 w - - 99 70", "m:g1g6 adj"},
		{"7K/8/5k2/8/8/8/8/6q1 b - - 99 70", "m:g1g6 adj"},
		{"k7/2n5/1K6/8/8/8/8/6B1 w - - 3 50", "m:b6c7 adj q"},
		{"5k2/5P2/5K2/8/8/8/8/8 b - - 99 80", "adj q"},
		{"R6k/6pp/8/8/8/8/8/6K1 b - - 100 90", "adj q"},
		// a five-fold repetition / a clock beyond 100 is reported, and the game can still be continued and taken back
		{fen.Initial, strings.TrimSpace(strings.Repeat("m:g1f3 m:g8f6 m:f3g1 m:f6g8 ", 4)) + " m:e2e4 q m:e7e5 pop pop pop"},
		{"4k3/8/8/8/8/8/8/R3K3 w Q - 99 80", "m:a1a2 m:e8e7 m:a2a3 m:e7e8 q m:e1d1 pop"},
	} {
		line := fmt.Sprintf("game 0 %s ; %s", c[0], c[1])
		o.do(line)
		o.Count("game:curated-terminal-draw")
		o.Nontrivial(line)
	}
	for i := 0; i < n; i++ {
		seed := seeds[r.Intn(len(seeds))]
		start := gameStarts[r.Intn(len(gameStarts))]
		if r.Intn(3) == 0 {
			start = corpus[r.Intn(len(corpus))]
		}
		if r.Intn(6) == 0 {
			if f, ok := synthetic(r); ok {
				start = f
			}
		}
		g := newSim(seed, start)
		g.deep = i%5 == 4
		style := r.Intn(4)
		steps := 10 + r.Intn(60)
		if style == 1 {
			steps = 20 + r.Intn(110) // long quiet games: fifty-move rule and five-fold repetition
		}
		for k := 0; k < steps; k++ {
			x := r.Intn(100)
			if g.deep && x >= 16 && x < 30 {
				x = 0 // many more take-backs in the scripts that may go below fork points
			}
			switch {
			case x < 6 && (style != 1 || g.deep):
				g.pop()
			case x < 9:
				g.fork()
			case x < 14 && len(g.boards) > 1:
				g.switchTo(r.Intn(len(g.boards)))
			case x < 16 && style != 1:
				// pop and replay: the take-back must be an exact inverse
				g.pop()
				g.push(r, biased(r))
			default:
				b := g.boards[g.active]
				switch style {
				case 0:
					g.push(r, biased(r))
				case 1:
					g.push(r, shuffle(r, b))
				case 2:
					g.push(r, quiet(r))
				default:
					if r.Intn(2) == 0 {
						g.push(r, shuffle(r, b))
					} else {
						g.push(r, biased(r))
					}
				}
			}
			if r.Intn(60) == 0 {
				// a fixed (mostly illegal) move; when it happens to be playable the simulation must follow it,
				// otherwise the pop floors below are computed for a different line
				junk := []string{"e2e5", "a1a1", "e1g1", "e7e8q", "h7h8n", "zzzz"}[r.Intn(6)]
				g.ops = append(g.ops, "m:"+junk)
				jb := g.boards[g.active]
				for _, m := range jb.Position().PseudoLegalMoves(jb.Turn()) {
					if moveUci(m) == junk {
						if jb.PushMove(m) {
							g.depth[g.active]++
						}
						break
					}
				}
			}
		}
		// sparse observation and pure queries: some steps are made without asking the boards anything afterwards (`!`), and
		// `q` asks questions that must leave no trace (a memo must never become part of a position or outlive its history)
		if i%2 == 1 {
			var ops2 []string
			for _, op := range g.ops {
				if (strings.HasPrefix(op, "m:") || op == "pop") && r.Intn(3) == 0 {
					op = "!" + op
				}
				ops2 = append(ops2, op)
				if r.Intn(8) == 0 {
					ops2 = append(ops2, []string{"q", "!q"}[r.Intn(2)])
				}
			}
			g.ops = ops2
			g.tags["sparse-observation"] = true
		}
		word := "game"
		if g.deep {
			word = "gamex"
		}
		line := fmt.Sprintf("%s %d %s ; %s", word, seed, start, strings.Join(g.ops, " "))
		o.do(line)
		nt := false
		for t := range g.tags {
			o.Count("game:" + t)
			nt = true
		}
		o.Count("game:total")
		if nt {
			o.Nontrivial(line)
		}
	}
}
