package main

import (
	"context"
	"fmt"
	"math/rand"
	"strconv"
	"strings"

	"github.com/herohde/morlock/pkg/board"
	"github.com/herohde/morlock/pkg/board/fen"
	"github.com/herohde/morlock/pkg/engine"
	"github.com/herohde/morlock/pkg/eval"
	"github.com/herohde/morlock/pkg/search"
)

func newEngine(seed int64, opts engine.Options) *engine.Engine {
	return engine.New(context.Background(), "verif", "verif", search.AlphaBeta{Eval: search.Leaf{Eval: eval.Material{}}},
		engine.WithZobrist(seed), engine.WithOptions(opts))
}

func init() {
	registerEval("engine", func(a []string) string {
		seed, _ := strconv.ParseInt(a[0], 10, 64)
		z := zobrist(seed)
		e := newEngine(seed, engine.Options{})
		ctx := context.Background()
		obs := func() string { return e.Position() + " " + obsBoard(z, e.Board()) }
		outs := []string{"start " + obs()}
		i := 1
		for i < len(a) && a[i] != ";" {
			i++
		}
		for i++; i < len(a); i++ {
			it := a[i]
			var err error
			switch {
			case strings.HasPrefix(it, "reset:"):
				err = e.Reset(ctx, hexRunes(it[6:]))
			case strings.HasPrefix(it, "mv:"):
				err = e.Move(ctx, hexRunes(it[3:]))
			case it == "tb":
				err = e.TakeBack(ctx)
			default:
				err = fmt.Errorf("bad item")
			}
			tail := ""
			if strings.HasPrefix(it, "reset:") {
				// what C19 asks of an accepted FEN, whatever its spelling: a well-formed value that re-encodes to a FEN which
				// decodes to the same position (the reference has no opinion on which odd spellings a decoder may accept)
				tail = " wf=-"
				if err == nil {
					p := e.Position()
					b := e.Board()
					p2, t2, np2, fm2, err2 := fen.Decode(p)
					wf := err2 == nil && fen.Encode(p2, t2, np2, fm2) == p &&
						fen.Encode(b.Position(), b.Turn(), b.NoProgress(), b.FullMoves()) == p && b.Hash() == z.Hash(b.Position(), b.Turn())
					tail = fmt.Sprintf(" wf=%v", wf)
				}
			}
			if err != nil {
				outs = append(outs, "err "+obs()+tail)
			} else {
				outs = append(outs, "ok "+obs()+tail)
			}
		}
		return strings.Join(outs, " | ")
	})
	register("engine", genEngine)
}

func genEngine(o *Out, r *rand.Rand, thorough bool) {
	n := 250
	if thorough {
		n = 10000
	}
	seeds := []int64{0, 1}
	for _, s := range seeds {
		o.do(ztableLine(s))
	}
	junk := []string{"e2e5", "a1a1", "e1g1", "e7e8", "e7e8k", "e2e4q", "E2E4", "zzzz", "", "e2", "e2e4e5", "e2é", "😀", "h7h8Q", "A7A8r", "0000", "e2-e4",
		"e\u0132e\u0134", "\u0165\u0132e4", "e2e\uff34", "\U00010065\U00010032e4"} // the last four: aliases of e2e4 (same low bytes, other code points)
	for i := range junk {
		if strings.Contains(junk[i], "\\") {
			if u, err := strconv.Unquote(`"` + junk[i] + `"`); err == nil {
				junk[i] = u
			}
		}
	}
	// rejected input while a draw can be claimed (third occurrence; clock at 100): a pinned piece's moves are pseudo-legal, so
	// they reach PushMove - and must leave everything, the pending result included, as it was
	hx := func(items ...string) string {
		var out []string
		for _, it := range items {
			k, v, _ := strings.Cut(it, ":")
			if v != "" {
				it = k + ":" + runesHex(v)
			}
			out = append(out, it)
		}
		return strings.Join(out, " ")
	}
	for _, sc := range []string{
		hx("reset:4k3/8/8/8/1b6/8/3N4/4K2R w - - 0 1", "mv:e1f1", "mv:e8f8", "mv:f1e1", "mv:f8e8", "mv:e1f1", "mv:e8f8", "mv:f1e1", "mv:f8e8", "mv:d2f3", "mv:d2b3", "mv:zzzz", "mv:e1e2", "tb", "mv:d2e4", "mv:e1d1"),
		hx("reset:4k3/8/8/8/1b6/8/3N4/4K2R w - - 98 70", "mv:e1f1", "mv:e8f8", "mv:d2f3", "mv:f1g1", "tb", "mv:d2c4", "mv:f1e1"),
		hx("reset:4k3/8/8/8/8/8/8/R3K2n w Q - 0 1", "mv:a1a8", "mv:e8e7", "mv:a8h8", "mv:e7e6", "mv:h8h1", "mv:e6e5", "mv:e1e2", "mv:h1h8", "tb"),
		// a game set up with a clock that is larger than its history (the record says 7, 30 or 250 half-moves were played before it): the
		// repetition scan must stop at the set-up position; a third and a fifth occurrence complete while it looks back that far
		hx("reset:4k1n1/8/8/8/8/8/8/4K1N1 w - - 7 30", "mv:g1f3", "mv:g8f6", "mv:f3g1", "mv:f6g8", "mv:g1f3", "mv:g8f6", "mv:f3g1", "mv:f6g8", "mv:e1e5", "mv:g1f3", "mv:g8f6", "mv:f3g1", "mv:f6g8", "mv:g1f3", "mv:g8f6", "mv:f3g1", "mv:f6g8", "tb", "mv:g8h6"),
		hx("reset:4k1n1/8/8/8/8/8/8/4K1N1 b - - 30 55", "mv:g8f6", "mv:g1f3", "mv:f6g8", "mv:f3g1", "mv:g8f6", "mv:g1f3", "mv:f6g8", "mv:f3g1", "mv:zzzz", "tb", "tb", "mv:f6g8", "mv:f3g1"),
		// a record whose castling field names a rook that is not on its corner (the decoder accepts any field with any placement; play
		// never produces this): castling with the absent rook is not a move, with the present one it is
		hx("reset:r3k2r/8/8/8/8/8/8/R3K3 w KQkq - 0 1", "mv:e1g1", "mv:e1c1", "mv:e8g8", "tb", "mv:e8c8"),
		hx("reset:r3k2r/8/8/8/8/8/8/R3K2N w KQkq - 0 1", "mv:e1g1", "mv:h1g3", "mv:e8g8", "mv:e1c1"),
		hx("reset:4k2r/8/8/8/8/8/8/4K2R b Kq - 0 1", "mv:e8c8", "mv:e8g8", "mv:h8h2", "mv:e1g1", "mv:e1c1"),
		hx("reset:1r2k3/8/8/8/8/8/8/1R2K2B w KQkq - 3 9", "mv:e1c1", "mv:e1g1", "mv:b1b8", "mv:e8c8", "mv:e8g8", "mv:e8d8"),
		hx("reset:4k1n1/8/8/8/8/8/8/4K1N1 w - - 250 200", "mv:g1f3", "mv:g8f6", "mv:f3g1", "mv:f6g8", "mv:g1f3", "mv:g8f6", "mv:f3g1", "mv:f6g8", "mv:g1h3"),
	} {
		line := "engine 0 ; " + sc
		o.do(line)
		o.Count("engine:curated-rejected-while-drawn")
		o.Nontrivial(line)
	}
	for i := 0; i < n; i++ {
		seed := seeds[r.Intn(2)]
		start := gameStarts[r.Intn(len(gameStarts))]
		if r.Intn(2) == 0 {
			start = corpus[r.Intn(len(corpus))]
		}
		p, turn, np, fm, _ := fen.Decode(start)
		b := board.NewBoard(zobrist(seed), p, turn, np, fm)
		depth := 0
		items := []string{}
		if r.Intn(4) != 0 {
			items = append(items, "reset:"+runesHex(start))
		} else {
			p, turn, np, fm, _ = fen.Decode(fen.Initial)
			b = board.NewBoard(zobrist(seed), p, turn, np, fm)
		}
		tags := map[string]bool{}
		steps := 5 + r.Intn(40)
		for k := 0; k < steps; k++ {
			x := r.Intn(100)
			switch {
			case x < 10: // rejected text, sometimes followed by a take-back (stale state must not leak)
				items = append(items, "mv:"+runesHex(junk[r.Intn(len(junk))]))
				tags["junk"] = true
			case x < 22:
				if depth > 0 {
					b.PopMove()
					depth--
				}
				items = append(items, "tb")
				tags["takeback"] = true
			case x < 25:
				f := corpus[r.Intn(len(corpus))]
				switch r.Intn(4) {
				case 0:
					f = mutate(r, f)
				case 1:
					// the diagram the game has just reached, set up as a NEW game: verbatim, or with other clocks (nothing of
					// the old game - clocks, history, take-back - may survive a reset to the same diagram)
					np, fm := b.NoProgress(), b.FullMoves()
					if r.Intn(2) == 0 {
						np, fm = r.Intn(60), 1+r.Intn(90)
					}
					f = fen.Encode(b.Position(), b.Turn(), np, fm)
					tags["reset-same-diagram"] = true
				}
				if p2, t2, np2, fm2, err := fen.Decode(f); err == nil {
					if !chessWF(p2, t2) {
						// decodable but not a chess position (castling right without the king at home, phantom
						// e.p. target, two kings): move legality is only specified on well-formed positions (C01)
						o.Count("engine:mutated-reset-not-wf-skipped")
						continue
					}
					b = board.NewBoard(zobrist(seed), p2, t2, np2, fm2)
					depth = 0
				}
				items = append(items, "reset:"+runesHex(f))
				tags["reset"] = true
				if p3, t3, np3, fm3, err := fen.Decode(f); err != nil || fen.Encode(p3, t3, np3, fm3) != f {
					// not the canonical spelling of a FEN: whether a decoder accepts it is its own business (C19 asks that what
					// it accepts be well formed and round-trip), so the script does not depend on it - the game is set up again from
					// the canonical record of the shadow board
					items = append(items, "reset:"+runesHex(fen.Encode(b.Position(), b.Turn(), b.NoProgress(), b.FullMoves())))
					depth = 0
					tags["reset-noncanonical+resync"] = true
				}
			case x < 30: // a pseudo-legal but illegal move, or the other side's move
				ms := b.Position().PseudoLegalMoves(b.Turn())
				if r.Intn(2) == 0 {
					ms = b.Position().PseudoLegalMoves(b.Turn().Opponent())
				}
				if len(ms) > 0 {
					m := ms[r.Intn(len(ms))]
					txt := moveUci(m)
					if r.Intn(3) == 0 {
						txt = strings.ToUpper(txt)
					}
					items = append(items, "mv:"+runesHex(txt))
					// keep the shadow board in step the way Engine.Move does
					for _, c := range b.Position().PseudoLegalMoves(b.Turn()) {
						if moveUci(c) == moveUci(m) {
							if b.PushMove(c) {
								depth++
							}
							break
						}
					}
				}
			default:
				legal := b.Position().LegalMoves(b.Turn())
				if len(legal) == 0 {
					continue
				}
				m, _ := biased(r)(legal)
				b.PushMove(m)
				depth++
				txt := moveUci(m)
				if r.Intn(8) == 0 {
					txt = strings.ToUpper(txt)
					tags["uppercase"] = true
				}
				items = append(items, "mv:"+runesHex(txt))
				if m.IsCastle() || m.IsPromotion() || m.Type == board.EnPassant {
					tags["special"] = true
				}
			}
		}
		line := fmt.Sprintf("engine %d ; %s", seed, strings.Join(items, " "))
		o.do(line)
		for t := range tags {
			o.Count("engine:" + t)
		}
		o.Count("engine:total")
		o.Nontrivial(line)
	}
}

// chessWF is the decidable chess-level part of C01's well-formedness (Lean: Proofs.Gen.WFc): at most one king per
// side, castling rights imply the king at home, an e.p. target is empty, on the sixth rank of the side to move, with
// an enemy pawn directly behind it.
func chessWF(p *board.Position, turn board.Color) bool {
	if p.Piece(board.White, board.King).PopCount() > 1 || p.Piece(board.Black, board.King).PopCount() > 1 {
		return false
	}
	at := func(sq board.Square, c board.Color, k board.Piece) bool {
		cc, kk, ok := p.Square(sq)
		return ok && cc == c && kk == k
	}
	if p.Castling()&board.CastlingRights(board.White) != 0 && !at(board.E1, board.White, board.King) {
		return false
	}
	if p.Castling()&board.CastlingRights(board.Black) != 0 && !at(board.E8, board.Black, board.King) {
		return false
	}
	if p.Piece(turn.Opponent(), board.King) != 0 && p.IsChecked(turn.Opponent()) {
		// the side that has just moved left its king attacked (adjacent kings included): no game reaches this, and the mover
		// could capture a king
		return false
	}
	if ep, ok := p.EnPassant(); ok {
		if !p.IsEmpty(ep) {
			return false
		}
		if turn == board.White {
			if ep.Rank() != board.Rank6 || !at(ep-8, board.Black, board.Pawn) {
				return false
			}
		} else {
			if ep.Rank() != board.Rank3 || !at(ep+8, board.White, board.Pawn) {
				return false
			}
		}
	}
	return true
}
