package main

import (
	"fmt"
	"math/rand"
	"strings"
	"sync"

	"github.com/herohde/morlock/cmd/bernstein/bernstein"
	"github.com/herohde/morlock/pkg/board"
	"github.com/herohde/morlock/pkg/board/fen"
)

// ---- deterministic scripts (compared with the Lean model of the driver) -------------------------

func playoutMoves(r *rand.Rand, start string, n int) []string {
	p, turn, np, fm, err := fen.Decode(start)
	if err != nil {
		return nil
	}
	b := board.NewBoard(zobrist(0), p, turn, np, fm)
	var ms []string
	for i := 0; i < n; i++ {
		legal := b.Position().LegalMoves(b.Turn())
		if len(legal) == 0 {
			break
		}
		m, _ := biased(r)(legal)
		b.PushMove(m)
		ms = append(ms, moveUci(m))
	}
	return ms
}

func positionLine(start string, moves []string) string {
	s := "position startpos"
	if start != fen.Initial {
		s = "position fen " + start
	}
	if len(moves) > 0 {
		s += " moves " + strings.Join(moves, " ")
	}
	return s
}

func genUciDet(o *Out, r *rand.Rand, thorough bool) {
	n := 90
	if thorough {
		n = 2500
	}
	o.do(ztableLine(0))
	// the commands reach the driver through engine.ReadStdinLines: long `position` lines included, one line each
	{
		line := fmt.Sprintf("published stdinlines %d %d", r.Int63n(1<<40), 24)
		o.do(line)
		o.Count("stdin-lines-intact")
		o.Nontrivial(line)
	}
	starts := []string{fen.Initial, fen.Initial, fen.Initial}
	starts = append(starts, gameStarts...)
	starts = append(starts, mateStarts...)
	for i := 0; i < n; i++ {
		var steps []string
		add := func(s ...string) { steps = append(steps, s...) }
		tags := map[string]bool{}
		start := starts[r.Intn(len(starts))]
		moves := playoutMoves(r, start, r.Intn(10))
		cmds := 2 + r.Intn(5)
		for k := 0; k < cmds; k++ {
			switch x := r.Intn(100); {
			case x < 30: // extend the game by 1-3 moves
				ext := playoutMoves(r, start, len(moves)+1+r.Intn(3))
				if len(ext) >= len(moves) && strings.Join(ext[:len(moves)], " ") == strings.Join(moves, " ") {
					moves = ext
				} else {
					// a fresh playout is another game of the same length class
					moves = ext
					tags["other-game"] = true
				}
				tags["extend"] = true
			case x < 42: // verbatim repeat
				tags["repeat"] = true
			case x < 52: // shorten
				if len(moves) > 0 {
					moves = moves[:r.Intn(len(moves))]
				}
				tags["shorten"] = true
			case x < 64: // another game
				start = starts[r.Intn(len(starts))]
				moves = playoutMoves(r, start, r.Intn(8))
				tags["other-game"] = true
			case x < 70: // clocks whose text is a prefix of the next ones
				base := "4k3/8/8/8/8/8/4P3/4K3 w - - 0 1"
				add("> position fen "+base, "sync", "state")
				start = "4k3/8/8/8/8/8/4P3/4K3 w - - 0 1" + fmt.Sprint(r.Intn(10))
				moves = playoutMoves(r, start, 1+r.Intn(3))
				tags["prefix-clock"] = true
			case x < 76: // the FEN the engine stands on, sent as a new game: the old history must be gone
				if b, ok := positionAfter(positionLine(start, moves)); ok && len(moves) > 0 {
					if r.Intn(2) == 0 {
						add("> ucinewgame")
					}
					start = fen.Encode(b.Position(), b.Turn(), b.NoProgress(), b.FullMoves())
					moves = nil
					if r.Intn(2) == 0 {
						moves = playoutMoves(r, start, 1+r.Intn(4))
					}
					tags["same-fen-new-game"] = true
				}
			case x < 80:
				add("> ucinewgame")
				tags["ucinewgame"] = true
				continue
			case x < 83: // an option set in the middle of a game must not touch the game (it takes effect at the next new game)
				add(fmt.Sprintf("> setoption name Hash value %d", r.Intn(3)), "sync", "state")
				tags["setoption-midgame"] = true
				// ... and the same game goes on: repeated or extended
				if r.Intn(2) == 0 {
					ext := playoutMoves(r, start, len(moves)+1+r.Intn(2))
					if len(ext) >= len(moves) && strings.Join(ext[:len(moves)], " ") == strings.Join(moves, " ") {
						moves = ext
					}
				}
			case x < 86 && r.Intn(5) < 2: // malformed: white space other than one blank between the moves
				// `continuation` cuts the extra words with strings.Fields (every unicode.IsSpace rune, runs of them), the
				// new-position path cuts the line with strings.Split(_, " "): with a remembered line that this one extends
				// the moves are played, without one the line is rejected at the first glued move. The model must predict both.
				ext := playoutMoves(r, start, len(moves)+2+r.Intn(2))
				if len(ext) >= len(moves)+2 && strings.Join(ext[:len(moves)], " ") == strings.Join(moves, " ") {
					// (two plain blanks are left out on purpose: the reference reading of the script, `Driver.denote`, takes a run of
					// blanks as one separator - as the UCI protocol does - while the real new-position path sees an empty move and
					// rejects the line; that difference is reported as a finding, see C10 `double_space_paths_differ`)
					ws := []string{"\t", "\v", "\f", "\u0085", "\u00a0", "\u2003", "\u3000", " \t", "\t ", "\t\t", "\u1680\u202f"}[r.Intn(11)]
					base := positionLine(start, moves)
					if r.Intn(4) != 0 {
						add("> "+base, "sync", "state")
						tags["ws-extends-remembered"] = true
					} else {
						add("> ucinewgame")
						tags["ws-from-scratch"] = true
					}
					extra := ext[len(moves):]
					l := base
					if len(moves) == 0 {
						l += " moves"
					}
					l += " " + extra[0] + ws + strings.Join(extra[1:], ws)
					add("> "+l, "sync", "state")
					if r.Intn(3) == 0 { // ... and a line that extends the odd one by a blank and a word that is no move
						add("> "+l+" "+"a1a1", "sync", "state")
					}
					if r.Intn(2) == 0 {
						moves = ext // the next line is then the same game, spelled properly
					}
					tags["malformed"] = true
					tags["ws-between-moves"] = true
				}
				continue
			case x < 86: // malformed: must be survived; the next command sets up from scratch
				add("> "+[]string{"position startpos moves e2e5", "position fen 8/8 w - - 0 1", "position startpos moves", "position", "position fen", "position startpos moves e2e4 e2e4",
					"position fen 4k3/8/8/8/8/8/4P3/4K3 w - -", "position fen 4k3/8/8/8/8/8/4P3/4K3 w", "position fen 4k3/8/8/8/8/8/4P3/4K3 w - - 0", "position fen 4k3/8/8/8/8/8/4P3/4K3"}[r.Intn(10)], "sync", "alive")
				tags["malformed"] = true
				continue
			}
			add("> "+positionLine(start, moves), "sync", "state")
			if r.Intn(4) == 0 {
				b, ok := positionAfter(positionLine(start, moves))
				if ok {
					d := 1 + r.Intn(2)
					if pieceCount(b) <= 6 {
						d = 1 + r.Intn(3)
					}
					add(fmt.Sprintf("> go depth %d", d), "wait-bestmove", "state")
					tags["go"] = true
					if r.Intn(3) == 0 {
						add(fmt.Sprintf("> go depth %d", d), "wait-bestmove")
						tags["repeated-go"] = true
					}
				}
			}
		}
		line := "uci plain 0 ; " + strings.Join(steps, " ;; ")
		o.do(line)
		for t := range tags {
			o.Count("ucidet:" + t)
		}
		o.Count("ucidet:total")
		o.Nontrivial(line)
	}
	// hash table on: a second go on the same position, and successive positions, share the table
	for i := 0; i < n/10+2; i++ {
		start := starts[r.Intn(len(starts))]
		moves := playoutMoves(r, start, r.Intn(6))
		b, ok := positionAfter(positionLine(start, moves))
		if !ok {
			continue
		}
		d := 2
		if pieceCount(b) <= 6 {
			d = 3
		}
		steps := []string{"> setoption name Hash value 1", "> " + positionLine(start, moves), "sync",
			fmt.Sprintf("> go depth %d", d), "wait-bestmove", fmt.Sprintf("> go depth %d", d), "wait-bestmove", "state"}
		ext := playoutMoves(r, start, len(moves)+2)
		if len(ext) > len(moves) && strings.Join(ext[:len(moves)], " ") == strings.Join(moves, " ") {
			steps = append(steps, "> "+positionLine(start, ext), "sync", fmt.Sprintf("> go depth %d", d), "wait-bestmove", "state")
		}
		line := "uci plain 0 ; " + strings.Join(steps, " ;; ")
		o.do(line)
		o.Count("ucidet:hash-on")
		o.Nontrivial(line)
	}
	// white space between moves (the audit's witness): a tab-separated extension of the remembered line is played
	// (strings.Fields), the same line without a remembered line is rejected (strings.Split(_, " ")), and a line
	// extending the odd line by whole words goes on from it
	for _, l := range []string{
		"uci plain 0 ; > position startpos moves e2e4 ;; sync ;; state ;; > position startpos moves e2e4 e7e5\tg1f3 ;; sync ;; state ;; " +
			"> position startpos moves e2e4 e7e5\tg1f3 b8c6 ;; sync ;; state ;; > ucinewgame ;; > position startpos moves e2e4 e7e5\tg1f3 ;; sync ;; state ;; " +
			"> position startpos moves e2e4 e7e5 g1f3 ;; sync ;; state",
		"uci plain 0 ; > position startpos ;; sync ;; > position startpos moves\u00a0e2e4\u3000 e7e5 ;; sync ;; state ;; > position startpos\tmoves\te2e4 ;; sync ;; state ;; " +
			"> position startpos moves d2d4 ;; sync ;; state",
		"uci plain 0 ; > position fen 4k3/8/8/8/8/8/4P3/4K3 w - - 0 1 ;; sync ;; > position fen 4k3/8/8/8/8/8/4P3/4K3 w - - 0 1 \v moves \f e2e4\u0085e8d8 ;; sync ;; state ;; " +
			"> position fen 4k3/8/8/8/8/8/4P3/4K3 w - - 0 1 moves e2e4 ;; sync ;; state",
	} {
		o.do(l)
		o.Count("ucidet:ws-between-moves-curated")
		o.Nontrivial(l)
	}
	// a root where a draw can be claimed still gets a legal move
	shuffle := "g1f3 g8f6 f3g1 f6g8 g1f3 g8f6 f3g1 f6g8"
	for _, d := range []int{1, 2} {
		line := fmt.Sprintf("uci plain 0 ; > position startpos moves %s ;; sync ;; state ;; > go depth %d ;; wait-bestmove ;; state", shuffle, d)
		o.do(line)
		o.Count("ucidet:drawn-root")
		o.Nontrivial(line)
	}
	// five-fold repetition and a clock far beyond 100: the draw is automatic by the rules, but the game can still be continued
	// on the board and a go must still be answered with a legal move; the line may also go on
	five := shuffle + " " + shuffle
	for _, l := range []string{
		fmt.Sprintf("uci plain 0 ; > position startpos moves %s ;; sync ;; state ;; > go depth 2 ;; wait-bestmove ;; state", five),
		fmt.Sprintf("uci plain 0 ; > position startpos moves %s e2e4 ;; sync ;; state ;; > go depth 1 ;; wait-bestmove ;; state", five),
		"uci plain 0 ; > position fen 4k3/8/8/8/8/8/8/R3K3 w - - 120 90 moves a1a2 e8e7 ;; sync ;; state ;; > go depth 2 ;; wait-bestmove ;; state",
	} {
		o.do(l)
		o.Count("ucidet:automatic-draw-root")
		o.Nontrivial(l)
	}
	// two set-ups in a row whose records differ only in the case of letters (in a FEN that is the colour of the men): the second
	// is a different game, not a repetition or an extension of the first
	for _, l := range []string{
		"uci plain 0 ; > position fen 4k3/8/8/8/8/8/8/4K3 w - - 0 1 ;; sync ;; state ;; > position fen 4K3/8/8/8/8/8/8/4k3 w - - 0 1 ;; sync ;; state",
		"uci plain 0 ; > position fen 4k1n1/8/8/8/8/8/8/1N2K3 w - - 0 1 moves b1c3 ;; sync ;; state ;; > position fen 4K1N1/8/8/8/8/8/8/1n2k3 w - - 0 1 moves g8f6 ;; sync ;; state ;; > position fen 4K1N1/8/8/8/8/8/8/1n2k3 w - - 0 1 moves g8f6 b1c3 ;; sync ;; state",
		"uci plain 0 ; > position fen r3k3/8/8/8/8/8/8/4K2R w - - 3 9 ;; sync ;; state ;; > position fen R3K3/8/8/8/8/8/8/4k2r w - - 3 9 moves a8a7 ;; sync ;; state ;; > go depth 1 ;; wait-bestmove ;; state",
	} {
		o.do(l)
		o.Count("ucidet:case-twins")
		o.Nontrivial(l)
	}
	// the best move is an under-promotion (to a knight: mate; to a rook: the queen would stalemate): the answer must spell it
	for _, l := range []string{
		"uci plain 0 ; > position fen 6nr/5Ppk/7p/8/8/8/8/K7 w - - 0 1 ;; sync ;; state ;; > go depth 2 ;; wait-bestmove ;; state",
		"uci plain 0 ; > position fen 8/k1P5/8/K7/8/8/8/8 w - - 0 1 ;; sync ;; state ;; > go depth 2 ;; wait-bestmove ;; state",
		"uci plain 0 ; > position fen 6nr/5Ppk/7p/8/8/8/8/K7 w - - 0 1 moves f7f8n ;; sync ;; state ;; > go depth 1 ;; wait-bestmove ;; state",
	} {
		o.do(l)
		o.Count("ucidet:underpromotion-best")
		o.Nontrivial(l)
	}
	// a pseudo-legal move that is not legal (a check ignored, a king walking into an attack) in a move list: refused like any
	// other bad move, and the driver keeps answering; during a search too
	for _, l := range []string{
		"uci plain 0 ; > position startpos moves e2e4 d7d5 f1b5 g8f6 ;; sync ;; state ;; > position startpos moves e2e4 d7d5 f1b5 c7c6 ;; sync ;; state ;; > go depth 1 ;; wait-bestmove ;; state",
		"uci plain 0 ; > position fen 4k3/8/8/8/8/8/4r3/4K3 w - - 0 1 moves e1e2 e8e7 ;; sync ;; state ;; > position fen 4k3/8/8/8/8/8/4r3/4K3 w - - 0 1 moves e1d1 ;; sync ;; state",
	} {
		o.do(l)
		o.Count("ucidet:pseudo-legal-illegal")
		o.Nontrivial(l)
	}
	// an update that appends a whole shuffle (the diagram, the rights and the side to move come back), then an update that
	// extends THAT line: the shuffle is in the game once, the counters say so
	for _, l := range []string{
		"uci plain 0 ; > position startpos moves e2e4 e7e5 ;; sync ;; state ;; > position startpos moves e2e4 e7e5 g1f3 g8f6 f3g1 f6g8 ;; sync ;; state ;; > position startpos moves e2e4 e7e5 g1f3 g8f6 f3g1 f6g8 d2d4 ;; sync ;; state",
		"uci plain 0 ; > position fen 4k3/R7/8/8/8/8/8/4K3 w - - 11 40 ;; sync ;; state ;; > position fen 4k3/R7/8/8/8/8/8/4K3 w - - 11 40 moves a7b7 e8d8 b7a7 d8e8 ;; sync ;; state ;; > position fen 4k3/R7/8/8/8/8/8/4K3 w - - 11 40 moves a7b7 e8d8 b7a7 d8e8 e1e2 ;; sync ;; state",
		"uci plain 0 ; > position startpos ;; sync ;; > position startpos moves g1f3 g8f6 f3g1 f6g8 ;; sync ;; state ;; > position startpos moves g1f3 g8f6 f3g1 f6g8 g1f3 g8f6 f3g1 f6g8 ;; sync ;; state ;; > position startpos moves g1f3 g8f6 f3g1 f6g8 g1f3 g8f6 f3g1 f6g8 e2e4 ;; sync ;; state",
	} {
		o.do(l)
		o.Count("ucidet:shuffle-in-one-update")
		o.Nontrivial(l)
	}
	// a line of ANOTHER game that is rejected midway (its legal prefix has been played by then and leaves the same side to move),
	// sent between two lines of one game: the line after it is that game, whatever the rejected one left behind
	for _, l := range []string{
		"uci plain 0 ; > position startpos moves e2e4 ;; sync ;; state ;; > position startpos moves d2d4 d7d5 c2c4 c2c5 ;; sync ;; state ;; > position startpos moves e2e4 e7e5 ;; sync ;; state ;; > go depth 1 ;; wait-bestmove ;; state",
		"uci plain 0 ; > position startpos moves d2d4 d7d5 ;; sync ;; state ;; > position startpos moves e2e4 d7d5 zz g1f3 ;; sync ;; state ;; > position startpos moves d2d4 d7d5 g1f3 ;; sync ;; state ;; > go depth 1 ;; wait-bestmove ;; state",
		"uci plain 0 ; > position fen 4k3/8/8/8/8/8/4P3/4K3 w - - 0 1 moves e2e4 ;; sync ;; state ;; > position fen 4k3/8/8/8/8/8/4P3/4K3 w - - 0 1 moves e2e3 e8e7 e3e4 e3e4 ;; sync ;; state ;; > position fen 4k3/8/8/8/8/8/4P3/4K3 w - - 0 1 moves e2e4 e8d8 ;; sync ;; state",
	} {
		o.do(l)
		o.Count("ucidet:rejected-line-between-two-of-one-game")
		o.Nontrivial(l)
	}
	for i := 0; i < 4; i++ {
		start := fen.Initial
		k := 1 + r.Intn(4)
		l1, other := playoutMoves(r, start, k), playoutMoves(r, start, k)
		ext := append(append([]string{}, l1...), "zz")
		if b, ok := positionAfter(positionLine(start, l1)); ok {
			if legal := b.Position().LegalMoves(b.Turn()); len(legal) > 0 {
				ext[len(ext)-1] = moveUci(legal[r.Intn(len(legal))])
			}
		}
		if len(l1) != k || len(other) != k || strings.Join(l1, " ") == strings.Join(other, " ") || ext[len(ext)-1] == "zz" {
			continue
		}
		bad := positionLine(start, other) + " " + []string{"e2e5", "zz", "a1a1", "e1e1"}[r.Intn(4)]
		l := fmt.Sprintf("uci plain 0 ; > %s ;; sync ;; state ;; > %s ;; sync ;; state ;; > %s ;; sync ;; state", positionLine(start, l1), bad, positionLine(start, ext))
		o.do(l)
		o.Count("ucidet:rejected-line-between-two-of-one-game")
		o.Nontrivial(l)
	}
	// a driver attached to an engine that has been used before: the first position command of the session sets the game up from
	// scratch, it does not extend whatever the engine holds
	for _, l := range []string{
		"uci plain+used 0 ; > position startpos ;; sync ;; state ;; > position startpos moves d2d4 ;; sync ;; state",
		"uci plain+used 0 ; > position startpos moves d2d4 ;; sync ;; state ;; > go depth 1 ;; wait-bestmove ;; state",
		"uci plain+used 0 ; > position startpos moves g1f3 g8f6 ;; sync ;; state ;; > position startpos moves g1f3 g8f6 f3g1 ;; sync ;; state",
		"uci plain+used 0 ; sync ;; > position startpos moves e2e4 e7e5 g1f3 ;; sync ;; state",
	} {
		o.do(l)
		o.Count("ucidet:driver-on-a-used-engine")
		o.Nontrivial(l)
	}
}

// ---- interleavings (checked by a monitor over the event trace) ------------------------------------

// junkUciLine returns a command line that is almost a proper one (valid UTF-8, no step separator).
func junkUciLine(r *rand.Rand) string {
	bases := []string{
		"position startpos moves e2e4 e7e5 g1f3 b8c6",
		"position fen r3k2r/p1ppqpb1/bn2pnp1/3PN3/1p2P3/2N2Q1p/PPPBBPPP/R3K2R w KQkq - 0 1 moves e1g1 e8c8",
		"position fen 8/4P1k1/8/8/8/8/1r6/1R5K w - - 0 1 moves e7e8n",
		"go depth 2", "go wtime 1000 btime 1000 movestogo 5", "go movetime 40", "go infinite", "go nodes 100 depth 1",
		"setoption name Hash value 16", "setoption name Noise value 5", "ucinewgame", "stop", "debug on", "ponderhit",
	}
	junk := []string{"b5é", "e2é", "e2日", "g1ф", "é2e4", "ｅ２ｅ４", "e2e4\u00a0", "e7e8x", "e7e8", "a9a1", "e2e", "e2e4e4", "E2E4", "ĲĴĲĴ", "eĲeĴ",
		"99999999999999999999", "-9223372036854775808", "9223372036854775807", "-1", "0x10", "1e3", "NaN", "+5", "İ", "\u0085", "\u200b",
		"moves", "fen", "startpos", "name", "value", "depth", "", strings.Repeat("e2e4", 80), strings.Repeat("9", 400), "--", "e2e4;", "#", "0000", "(none)"}
	if r.Intn(8) == 0 {
		// a record cut short: fewer than the six fields of a FEN after `fen` (with or without a move list behind it)
		f := strings.Split("4k3/8/8/8/8/8/4P3/4K3 w - - 0 1", " ")
		l := "position fen " + strings.Join(f[:1+r.Intn(5)], " ")
		if r.Intn(3) == 0 {
			l += " moves e2e4"
		}
		return l
	}
	if r.Intn(3) == 0 {
		// a move list with one word that is almost a move: byte length and rune length differ, squares off the board, letters
		// that only look like the ASCII ones, a promotion letter too many or of the wrong kind
		almost := []string{"b5é", "e2é", "e2日", "g1ф", "é2e4", "e2éé", "ee2e4", "e2e4é", "e7e8é", "e2e4\u0301", "ｅ２ｅ４", "e2ｅ4", "ĲĴĲĴ", "eĲeĴ", "e²e4",
			"e2e9", "i2i4", "e0e1", "e2e4k", "e7e8p", "e7e8K", "e2-e4", "e2e4+", "e2 e4", "e2", "e2e", "e2e4e5", "\u00e92e4", "日日日日", "日日日", "éééé", "ééééé", "a1\U0001F600", "\U0001F600a1a2"}
		if r.Intn(6) == 0 { // a move that is pseudo-legal but illegal (check ignored; king into an attack; pinned piece)
			return []string{"position startpos moves e2e4 d7d5 f1b5 g8f6", "position fen 4k3/8/8/8/8/8/4r3/4K3 w - - 0 1 moves e1d1 e8e7 e1e2",
				"position fen 4k3/8/8/8/1b6/8/3N4/4K3 w - - 0 1 moves d2f3"}[r.Intn(3)]
		}
		pre := []string{"position startpos moves", "position startpos moves e2e4 e7e5", "position fen 8/4P1k1/8/8/8/8/1r6/1R5K w - - 0 1 moves"}[r.Intn(3)]
		l := pre + " " + almost[r.Intn(len(almost))]
		if r.Intn(3) == 0 {
			l += " e7e5"
		}
		return l
	}
	w := strings.Split(bases[r.Intn(len(bases))], " ")
	switch r.Intn(6) {
	case 0, 1: // replace a word
		w[r.Intn(len(w))] = junk[r.Intn(len(junk))]
	case 2: // insert a word
		k := r.Intn(len(w) + 1)
		w = append(w[:k], append([]string{junk[r.Intn(len(junk))]}, w[k:]...)...)
	case 3: // drop a word
		if len(w) > 1 {
			k := r.Intn(len(w))
			w = append(w[:k], w[k+1:]...)
		}
	case 4: // double a word
		k := r.Intn(len(w))
		w = append(w[:k+1], w[k:]...)
	default: // the last word cut short or extended by a non-ASCII letter
		l := w[len(w)-1]
		if r.Intn(2) == 0 && len(l) > 1 {
			w[len(w)-1] = l[:len(l)-1]
		} else {
			w[len(w)-1] = l + []string{"é", "日", "ß", "Ĵ"}[r.Intn(4)]
		}
	}
	line := strings.Join(w, " ")
	line = strings.ReplaceAll(strings.ReplaceAll(line, ";;", ";"), "##", "#")
	return line
}

type raceScript struct {
	kind  string
	steps []string
	what  string
}

// monitor judges a trace: every step outcome is a token; capitalised tokens are failures of the
// harness' expectations (NO-READYOK, NO-BESTMOVE, DRIVER-EXITED, ...). Best moves are checked for
// legality in the position of the go they answer, and `quiet` windows must stay silent.
func monitor(sc raceScript, trace string) string {
	if strings.HasPrefix(trace, "panic:") || trace == "hang" {
		return "VIOLATION:" + trace
	}
	toks := strings.Fields(trace)
	if len(toks) != len(sc.steps) {
		return "VIOLATION:trace-length " + trace
	}
	var pos *board.Board // position of the most recent go
	var cur *board.Board // position last set up
	cur, _ = positionAfter("position startpos")
	answered := 0
	goSeen := false
	lenient := false
	for i, st := range sc.steps {
		tok := toks[i]
		if strings.HasPrefix(st, "lenient") {
			// junk `go` lines may or may not start searches, and the answer of a search that has finished may be printed after the
			// next command was read (the forwarder prints on its own): in such a stretch answers are not counted or attributed
			lenient = st == "lenient on"
			continue
		}
		if strings.HasPrefix(st, "> position") {
			if b, ok := positionAfter(st[2:]); ok {
				cur = b
			}
		}
		if strings.HasPrefix(st, "> go") {
			pos, answered, goSeen = cur, 0, true
		}
		name, outs := tok, ""
		if k := strings.Index(tok, "="); k >= 0 {
			name, outs = tok[:k], tok[k+1:]
		}
		switch name {
		case "NO-READYOK", "NO-BESTMOVE", "DRIVER-EXITED", "DRIVER-NOT-CLOSED", "INPUT-BLOCKED", "NOT-PARKED", "bad-step":
			return fmt.Sprintf("VIOLATION:%s at step %d (%s)", name, i, st)
		}
		for _, l := range strings.Split(outs, ",") {
			if !strings.HasPrefix(l, "bestmove_") || lenient {
				continue
			}
			mv := strings.TrimPrefix(l, "bestmove_")
			if !goSeen || pos == nil {
				return fmt.Sprintf("VIOLATION:bestmove without go at step %d", i)
			}
			answered++
			if answered > 1 {
				return fmt.Sprintf("VIOLATION:second bestmove for one go at step %d (%s)", i, l)
			}
			legal := pos.Position().LegalMoves(pos.Turn())
			if mv == "0000" {
				if len(legal) > 0 {
					return fmt.Sprintf("VIOLATION:null move although legal moves exist at step %d", i)
				}
				continue
			}
			ok := false
			for _, m := range legal {
				if moveUci(m) == mv {
					ok = true
				}
			}
			if !ok {
				return fmt.Sprintf("VIOLATION:bestmove %s is not legal in the position of the go it answers (stale or illegal) at step %d", mv, i)
			}
			if name == "quiet" {
				return fmt.Sprintf("VIOLATION:bestmove %s during a window in which no search may report at step %d", mv, i)
			}
		}
	}
	return "ok"
}

// squeezedAllUnsafe looks for a well-formed position, side to move not in check, in which every legal move is "unsafe" in
// BERNSTEIN's sense (the piece moved can be taken with gain).
func squeezedAllUnsafe(r *rand.Rand) (string, bool) {
	for tries := 0; tries < 60000; tries++ {
		f, ok := synthetic(r)
		if !ok {
			continue
		}
		p, t, _, _, _ := fen.Decode(f)
		if p.IsChecked(t) {
			continue
		}
		legal := p.LegalMoves(t)
		if len(legal) == 0 || len(legal) > 4 {
			continue
		}
		all := true
		for _, m := range legal {
			if bernstein.IsMoveSafe(p, t, m) {
				all = false
				break
			}
		}
		if all {
			return f, true
		}
	}
	return "", false
}

func raceScripts(r *rand.Rand, n int) []raceScript {
	kinds := []string{"plain", "plain", "morlock", "turochamp", "sargon", "bernstein"}
	posA := []string{"position startpos", "position startpos moves d2d4 d7d5", "position fen r3k2r/p1ppqpb1/bn2pnp1/3PN3/1p2P3/2N2Q1p/PPPBBPPP/R3K2R w KQkq - 0 1"}
	posB := []string{"position startpos moves e2e4", "position startpos moves d2d4 d7d5 c2c4", "position fen r3k2r/p1ppqpb1/bn2pnp1/3PN3/1p2P3/2N2Q1p/PPPBBPPP/R3K2R b KQkq - 0 1"}
	var ret []raceScript
	for i := 0; i < n; i++ {
		kind := kinds[r.Intn(len(kinds))]
		a, b := r.Intn(len(posA)), r.Intn(len(posB))
		switch i % 11 {
		case 0: // a superseded search must stay silent; the new go gets its own answer
			second := []string{"> go depth 2", fmt.Sprintf("sleep %d", 5+r.Intn(30)), "release", "wait-bestmove 8000", "quiet 1200", "sync", "alive"}
			if r.Intn(2) == 0 { // the new search is open-ended: nothing may be reported until it is stopped
				second = []string{"> go infinite", fmt.Sprintf("sleep %d", 5+r.Intn(30)), "release", "quiet 1200", "> stop", "wait-bestmove 8000", "quiet 300", "sync"}
			}
			steps := []string{fmt.Sprintf("gate %d", 150+r.Intn(200)), "> " + posA[a], "> go depth 4", "wait-parked", fmt.Sprintf("slow %d", 100+r.Intn(300))}
			if r.Intn(2) == 0 {
				steps = append(steps, "> ucinewgame")
			}
			steps = append(steps, "> "+posB[b])
			ret = append(ret, raceScript{"plain", append(steps, second...), "supersede"})
		case 1: // stop during a search
			ret = append(ret, raceScript{kind, []string{"slow 50", "> " + posA[a], "> go infinite", fmt.Sprintf("sleep %d", 20+r.Intn(200)), "> stop", "wait-bestmove 8000", "quiet 500", "> stop", "quiet 200", "sync"}, "infinite+stop"})
		case 2: // isready while searching
			ret = append(ret, raceScript{kind, []string{"slow 100", "> " + posB[b], "> go depth 5", "sync", "sync", "> stop", "wait-bestmove 8000", "quiet 300"}, "isready during search"})
		case 3: // quit / end of input during a search
			end := []string{"> quit", "close"}[r.Intn(2)]
			ret = append(ret, raceScript{kind, []string{"slow 40", "> " + posA[a], "> go depth 3", fmt.Sprintf("sleep %d", 10+r.Intn(60)), end, "wait-closed", "quiet 2500"}, "shutdown during search"})
		case 4: // an old movetime timer must not halt a later search
			ret = append(ret, raceScript{"plain", []string{"> " + posA[a], "> go depth 1 movetime 300", "wait-bestmove 4000", "> " + posB[b], "slow 200", "> go infinite", "sleep 600", "quiet 10", "> stop", "wait-bestmove 4000", "quiet 300"}, "stale movetime timer"})
		case 5: // movetime and clocks end the search by themselves
			g := []string{"> go movetime 150", "> go wtime 2000 btime 2000 movestogo 10", "> go wtime 1000 btime 1000", "> go infinite movetime 100",
				"> go wtime 0 btime 0", "> go wtime -35 btime 1000 movestogo 3", "> go movestogo 5", "> go wtime 1 btime 1 movestogo 1",
				"> go wtime 1000 btime 1000 movestogo -1", "> go wtime 600 btime 600 movestogo 0", "> go wtime 800 btime 800 movestogo -2", "> go movestogo -1 movetime 200"}[r.Intn(12)]
			ret = append(ret, raceScript{kind, []string{"slow 30", "> " + posA[a], g, "wait-bestmove 9000", "quiet 400", "sync"}, "time limits"})
		case 6: // unknown and malformed lines
			if i%22 == 17 {
				ret = append(ret, raceScript{kind, []string{"> foo bar", "> ", "> go depth", "sync", "> go depth x", "sync", "> position fen 8/8 w - - 0 1", "sync", "> position startpos moves e2e5", "sync", "> setoption", "> debug on",
					"> " + posB[b], "> go depth 1", "wait-bestmove 8000", "alive"}, "malformed lines"})
			} else {
				// generated junk: well-formed commands with one token replaced, inserted, dropped or doubled (non-ASCII tokens whose byte
				// length differs from their rune length, numbers beyond every integer type, empty words, very long words); every line
				// must be survived and isready answered after it, and a proper position + go must then get its legal answer
				steps := []string{"lenient on"}
				for k := 0; k < 10; k++ {
					l := junkUciLine(r)
					steps = append(steps, "> "+l, "sync")
					if strings.HasPrefix(l, "position") {
						// whatever the driver made of it, the game is set up afresh, so that the monitor knows the position of later searches
						steps = append(steps, "> ucinewgame", "> position startpos", "sync")
					}
				}
				// an endless search a junk `go` may have started is ended; its answer may come after the readyok
				steps = append(steps, "> stop", "sync", "settle 400", "lenient off", "> ucinewgame", "> "+posB[b], "> go depth 1", "wait-bestmove 8000", "alive")
				ret = append(ret, raceScript{kind, steps, "generated junk lines"})
			}
		case 7: // a second go supersedes the first
			ret = append(ret, raceScript{"plain", []string{"slow 100", "> " + posA[a], "> go depth 5", fmt.Sprintf("sleep %d", 10+r.Intn(50)), "> go depth 1", "wait-bestmove 8000", "quiet 1500", "sync"}, "go during search"})
		case 8: // ucinewgame / position during a search, then nothing may be reported
			ret = append(ret, raceScript{kind, []string{"slow 100", "> " + posA[a], "> go depth 5", fmt.Sprintf("sleep %d", 10+r.Intn(50)), []string{"> ucinewgame", "> " + posB[b]}[r.Intn(2)], "sync", "quiet 1500", "> go depth 1", "wait-bestmove 8000"}, "abandon search"})
		case 9: // bundled engines answer go with a legal move (book, noise, quiescence, depth default)
			k := kinds[2+r.Intn(4)]
			first := "> go" // the historical engines have a default depth; morlock searches until stopped
			if k == "morlock" {
				first = "> go depth 2"
			}
			ret = append(ret, raceScript{k, []string{"> " + []string{"position startpos", posA[a], posB[b]}[r.Intn(3)], first, "wait-bestmove 20000", "quiet 200", "> go depth 1", "wait-bestmove 20000"}, "bundled engines"})
		case 10: // bundled engines in squeezed positions (one to three legal moves, often all of them bad): still a legal move
			k := kinds[2+r.Intn(4)]
			if i%2 == 0 {
				// ... and every legal move hangs the piece moved (BERNSTEIN ranks such moves last; it must still play one)
				if f, ok := squeezedAllUnsafe(r); ok {
					ret = append(ret, raceScript{"bernstein", []string{"> position fen " + f, "> go", "wait-bestmove 20000", "quiet 100"}, "bundled engines squeezed"})
				}
				continue
			}
			if f, ok := squeezed(r, 1+r.Intn(3)); ok {
				ret = append(ret, raceScript{k, []string{"> position fen " + f, "> go depth 2", "wait-bestmove 20000", "quiet 100"}, "bundled engines squeezed"})
			}
		}
	}
	// always: the options the driver knows (a configured depth ends a bare go; the book can be switched off; noise), and
	// commands it ignores
	ret = append(ret,
		raceScript{"plain", []string{"> setoption name Depth value 2", "> position startpos", "> go", "wait-bestmove 9000", "quiet 100",
			"> setoption name Noise value 30", "> go", "wait-bestmove 9000", "quiet 100", "> setoption name Depth value -1", "> setoption name Depth", "> setoption", "sync", "alive"}, "options"},
		raceScript{"sargon", []string{"> setoption name OwnBook value false", "> position startpos", "> go depth 1", "wait-bestmove 20000", "quiet 100",
			"> setoption name OwnBook value true", "> go", "wait-bestmove 20000", "quiet 100", "> ponderhit", "> register later", "sync", "alive"}, "options"})
	// every value of the declared range of the noise option, the smallest ones included, is a setting the engine must play with
	// (the option takes effect with the next new game)
	{
		var steps []string
		for _, v := range []int{1, 2, 3, 1 + r.Intn(9), 10000, 0} {
			steps = append(steps, fmt.Sprintf("> setoption name Noise value %d", v), "> ucinewgame", "> position startpos", "> go depth 2", "wait-bestmove 20000", "quiet 100", "sync")
		}
		ret = append(ret, raceScript{[]string{"plain", "morlock"}[r.Intn(2)], append(steps, "alive"), "options"})
	}
	// a book whose lines castle and capture en passant: the same placement reached after the king (or the rook) has moved, or
	// without the e.p. right, is another position - the book move of the line would be illegal there
	for _, ms := range []string{
		"e2e4 e7e5 e1e2 b8c6 e2e1 c6b8 g1f3 b8c6 f1b5 a7a6 b5a4 g8f6",
		"e2e4 e7e5 g1f3 b8c6 f1b5 a7a6 b5a4 g8f6",
		"d2d4 d7d5 c1f4 c8f5 b1c3 b8c6 d1d2 d8d7 a1b1 a8b8 b1a1 b8a8",
		"d2d4 d7d5 c1f4 c8f5 b1c3 b8c6 d1d2 d8d7 e1c1",
		"e2e4 c7c5 e4e5 d7d6 g1f3 d6d5 f3g1",
		"e2e4 c7c5 e4e5 d7d5",
	} {
		ret = append(ret, raceScript{"bookplain", []string{"> position startpos moves " + ms, "> go", "wait-bestmove 20000", "quiet 100", "sync", "alive"}, "book with castling"})
	}
	// options an engine never advertised (a book switch sent to an engine without a book, unknown names) must be survived
	for _, kind := range []string{"plain", "morlock", "turochamp"} {
		ret = append(ret, raceScript{kind, []string{"> setoption name OwnBook value true", "sync", "> position startpos", "> go depth 1", "wait-bestmove 20000", "quiet 100",
			"> setoption name OwnBook value false", "> setoption name Ponder value true", "> setoption name UCI_AnalyseMode value true", "> setoption name MultiPV value 4", "sync",
			"> position startpos moves e2e4", "> go depth 1", "wait-bestmove 20000", "quiet 100", "alive"}, "options not advertised"})
	}
	// an endless search that ends without a stop (superseded by a position, a new game, another go) leaves nothing behind:
	// the finite search after it ends by itself and is answered
	for i, sup := range []string{"> position startpos moves e2e4", "> ucinewgame", "> go infinite", "> position startpos"} {
		kind := []string{"plain", "morlock", "plain", "turochamp"}[i]
		steps := []string{"> position startpos", "> go infinite", fmt.Sprintf("sleep %d", 20+r.Intn(80)), sup, "sync"}
		if sup == "> go infinite" {
			steps = append(steps, "sleep 30", "> position startpos moves d2d4", "sync")
		}
		if sup == "> ucinewgame" {
			steps = append(steps, "> position startpos moves g1f3")
		}
		steps = append(steps, "quiet 300", "> go depth 2", "wait-bestmove 20000", "quiet 200", "> go depth 1", "wait-bestmove 20000", "sync", "alive")
		ret = append(ret, raceScript{kind, steps, "endless search superseded"})
	}
	// always: a GUI that reads slowly while an open-ended search of a position without moves reports iteration after iteration
	// (every info channel fills up); quit / end of input must still shut the driver down
	for _, end := range []string{"> quit", "close"} {
		ret = append(ret, raceScript{"plain", []string{"slowreader 1000", "> position fen 7k/5Q2/6K1/8/8/8/8/8 b - - 0 1", "> go infinite", "sleep 500", end, "wait-closed", "quiet 300"}, "slow reader"})
	}
	// always: numeric arguments at the edges (the parser accepts any integer; whatever it means to the time control, the
	// driver must answer and stay alive)
	ret = append(ret,
		raceScript{"plain", []string{"> position startpos", "> go wtime 1000 btime 1000 movestogo -1", "wait-bestmove 9000", "quiet 100", "sync",
			"> go movestogo -1 movetime 150", "wait-bestmove 9000", "quiet 100", "sync", "alive"}, "numeric edges"},
		raceScript{"plain", []string{"> position startpos moves e2e4", "> go depth -1 movetime 120", "wait-bestmove 9000", "quiet 100", "> go movetime -5 depth 1", "wait-bestmove 9000",
			"quiet 100", "> go wtime -1000 btime -1000 movestogo -7", "wait-bestmove 9000", "quiet 100", "sync", "alive"}, "numeric edges"},
		raceScript{"plain", []string{"> position startpos", "> go wtime 1000 btime 1000 movestogo 9223372036854775807", "wait-bestmove 9000", "quiet 100", "sync",
			"> go wtime 1000 btime 1000 movestogo 9223372036854775806", "wait-bestmove 9000", "quiet 100", "> go wtime 9223372036854 btime 9223372036854 movestogo 4611686018427387903", "sleep 300", "> stop",
			"wait-bestmove 9000", "quiet 100", "sync", "alive"}, "numeric edges"},
		raceScript{"plain", []string{"> position startpos moves d2d4", "> go wtime 9223372036854775807 btime 9223372036854775807 movestogo 1", "sleep 200", "> stop", "wait-bestmove 9000", "quiet 100",
			"> go wtime -9223372036854775808 btime -9223372036854775808", "wait-bestmove 9000", "quiet 100", "> go movetime 9223372036854775807", "sleep 200", "> stop", "wait-bestmove 9000", "quiet 100",
			"> go depth 9223372036854775807 movetime 150", "wait-bestmove 9000", "quiet 100", "> go depth 99999999999999999999", "sync", "> setoption name Noise value 9223372036854775807", "> setoption name Depth value -5",
			"> position startpos", "> go movetime 150", "wait-bestmove 9000", "quiet 100", "sync", "alive"}, "numeric edges"},
		raceScript{"plain", []string{"> setoption name Hash value -1", "> position startpos", "sync", "> setoption name Hash value 99999999999", "> position startpos moves e2e4", "sync",
			"> setoption name Hash value 9223372036854775807", "> ucinewgame", "> position startpos", "sync", "> setoption name Hash value 1", "> position startpos", "> go depth 2", "wait-bestmove 9000", "quiet 100", "alive"}, "numeric edges"})
	return ret
}

func genUciRace(o *Out, r *rand.Rand, thorough bool) {
	n := 80
	if thorough {
		n = 600
	}
	scripts := raceScripts(r, n)
	results := make([]string, len(scripts))
	var wg sync.WaitGroup
	sem := make(chan struct{}, 12)
	for i := range scripts {
		wg.Add(1)
		sem <- struct{}{}
		go func(i int) {
			defer wg.Done()
			defer func() { <-sem }()
			sc := scripts[i]
			line := fmt.Sprintf("uci %s 0 ; %s", sc.kind, strings.Join(sc.steps, " ;; "))
			trace := evalInChild(line)
			results[i] = monitor(sc, trace)
			if results[i] != "ok" {
				results[i] += " trace=" + strings.ReplaceAll(trace, " ", "|")
			}
		}(i)
	}
	wg.Wait()
	for i, sc := range scripts {
		line := fmt.Sprintf("published uci-monitor %s ; uci %s 0 ; %s", strings.ReplaceAll(sc.what, " ", "-"), sc.kind, strings.Join(sc.steps, " ;; "))
		o.Emit(line, results[i])
		o.Count("race:" + sc.what)
		o.Count("engine:" + sc.kind)
		o.Nontrivial(line)
	}
}

func init() {
	register("ucidet", genUciDet)
	register("ucirace", genUciRace)
	// replaying a monitor line re-runs the script
	registerEval("published", func(a []string) string {
		if len(a) > 2 && a[0] == "uci-monitor" {
			k := 0
			for k < len(a) && a[k] != ";" {
				k++
			}
			rest := a[k+1:]
			if len(rest) > 3 && rest[0] == "uci" {
				steps := strings.Split(strings.Join(rest[4:], " "), " ;; ")
				sc := raceScript{kind: rest[1], steps: steps}
				res := monitor(sc, evalInChild(strings.Join(rest, " ")))
				return res
			}
		}
		if len(a) > 0 {
			if fn, ok := evaluators[a[0]]; ok && a[0] != "published" {
				line := strings.Join(a, " ")
				if childOps[a[0]] {
					return evalInChild(line)
				}
				return fn(a[1:])
			}
		}
		return "ok"
	})
}
