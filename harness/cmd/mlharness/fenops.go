package main

import (
	"fmt"
	"math/rand"
	"strconv"
	"strings"

	"github.com/herohde/morlock/pkg/board"
	"github.com/herohde/morlock/pkg/board/fen"
)

// runesHex encodes the runes of a Go string ([]rune conversion, as the decoders see it).
func runesHex(s string) string {
	rs := []rune(s)
	if len(rs) == 0 {
		return "-"
	}
	parts := make([]string, len(rs))
	for i, r := range rs {
		parts[i] = strconv.FormatInt(int64(r), 16)
	}
	return strings.Join(parts, "-")
}

func hexRunes(h string) string {
	if h == "-" || h == "" {
		return ""
	}
	var rs []rune
	for _, p := range strings.Split(h, "-") {
		n, _ := strconv.ParseInt(p, 16, 32)
		rs = append(rs, rune(n))
	}
	return string(rs)
}

func fenTotal(s string) string {
	p, turn, np, fm, err := fen.Decode(s)
	if err != nil {
		return "good"
	}
	if p == nil {
		return "bad:nil-position"
	}
	e1 := fen.Encode(p, turn, np, fm)
	p2, t2, np2, fm2, err := fen.Decode(e1)
	if err != nil || p2 == nil {
		return "bad:reencode-rejected"
	}
	if !viewsOK(p) {
		return "bad:views"
	}
	if np < 0 || fm < 0 {
		return "bad:negative-clock" // a count of half-moves / a move number: not a well-formed value below zero
	}
	if *p2 != *p || t2 != turn || np2 != np || fm2 != fm {
		return "bad:roundtrip"
	}
	return "good"
}

func init() {
	registerEval("fen", func(a []string) string {
		switch a[0] {
		case "dec":
			p, turn, np, fm, err := fen.Decode(hexRunes(a[1]))
			if err != nil {
				return "err"
			}
			if p == nil {
				return "nil-position"
			}
			return "ok:" + fen.Encode(p, turn, np, fm)
		case "total":
			return fenTotal(hexRunes(a[1]))
		case "canon":
			f := strings.Join(a[1:], " ")
			p, turn, np, fm, err := fen.Decode(f)
			if err != nil {
				return "err"
			}
			if e := fen.Encode(p, turn, np, fm); e != f {
				return "diff:" + e
			}
			return "same"
		case "move":
			m, err := board.ParseMove(hexRunes(a[1]))
			if err != nil {
				return "err"
			}
			return "ok:" + moveUci(m)
		case "square":
			sq, err := board.ParseSquareStr(hexRunes(a[1]))
			if err != nil {
				return "err"
			}
			return "ok:" + sq.String()
		}
		return "bad-op"
	})
	register("fenstrings", genFenStrings)
	register("fencanon", genFenCanon)
}

var nastyRunes = []rune{'9', '0', '٣', '８', 'К', 'к', 0, '\t', ' ', '\n', '/', '-', '+', 'x', 'Z', 'k', 'K', 'P', 'p', '1', '8', ' ', 0xFFFD, '𝟠', 'e', '3', '6', 'w', 'b'}

var findingFens = []string{
	"8/8/8/8/8/8/8/8P" + strings.Repeat("9", 28) + "3 w - - 0 1",
	"P" + strings.Repeat("9", 28) + "3P7/8/8/8/8/8/8/8 w - - 0 1",
	"8/8/8/8/8/8/8/9 w - - 0 1", "0/8/8/8/8/8/8/8 w - - 0 1", "8/8/8/8/8/8/8/7 w - - 0 1", "8/8/8/8/8/8/8/8/1 w - - 0 1",
	"44/8/8/8/8/8/8/8 w - - 0 1", "88888888 w - - 0 1", "8/8/8/8/8/8/8/8 w - - 0 1",
	"k7/8/8/8/8/8/8/K7 w - - -0 +1", "k7/8/8/8/8/8/8/K7 w - - 007 0010", "k7/8/8/8/8/8/8/K7 w - - 99999999999999999999 1",
	"k7/8/8/8/8/8/8/K7 w - - 9223372036854775807 9223372036854775807", "k7/8/8/8/8/8/8/K7 w - - 9223372036854775808 1",
	"k7/8/8/8/8/8/8/K7 w - - -1 1", "k7/8/8/8/8/8/8/K7 w - - 1_0 1", "k7/8/8/8/8/8/8/K7 w KK - 0 1", "k7/8/8/8/8/8/8/K7 w qkQK - 0 1",
	"k7/8/8/8/8/8/8/K7 w  - 0 1", "k7/8/8/8/8/8/8/K7 W - h1 0 1", "k7/8/8/8/8/8/8/K7 B - E4 0 1", "k7/8/8/8/8/8/8/K7 w - e9 0 1",
	"k7/8/8/8/8/8/8/K7 w - i3 0 1", " k7/8/8/8/8/8/8/K7 w - - 0 1 ", " k7/8/8/8/8/8/8/K7 w - - 0 1 ", "k7/8/8/8/8/8/8/K7  w - - 0 1",
	"k7/8/8/8/8/8/8/K7 w - - 0", "k7/8/8/8/8/8/8/K7 w - - 0 1 1", "", " ", "      ", "k7/8/8/8/8/8/8/K7\tw - - 0 1",
	"kK6/8/8/8/8/8/8/KKKKKKKK w - - 0 1", "pppppppp/8/8/8/8/8/8/PPPPPPPP w KQkq a3 0 1",
}

func mutate(r *rand.Rand, s string) string {
	rs := []rune(s)
	n := 1 + r.Intn(3)
	for i := 0; i < n; i++ {
		switch r.Intn(8) {
		case 0: // delete
			if len(rs) > 0 {
				k := r.Intn(len(rs))
				rs = append(rs[:k:k], rs[k+1:]...)
			}
		case 1: // insert nasty rune
			k := r.Intn(len(rs) + 1)
			rs = append(rs[:k:k], append([]rune{nastyRunes[r.Intn(len(nastyRunes))]}, rs[k:]...)...)
		case 2: // replace: by a nasty rune, or by an alias of the character itself (same low byte / low 16 bits)
			if len(rs) > 0 {
				k := r.Intn(len(rs))
				if r.Intn(3) == 0 {
					rs[k] += []rune{0x100, 0x200, 0x300, 0xFF00, 0x10000, 0xFEE0, 0x20000}[r.Intn(7)]
				} else {
					rs[k] = nastyRunes[r.Intn(len(nastyRunes))]
				}
			}
		case 3: // duplicate a chunk
			if len(rs) > 1 {
				a := r.Intn(len(rs))
				b := a + r.Intn(len(rs)-a)
				rs = append(rs[:b:b], append(append([]rune{}, rs[a:b]...), rs[b:]...)...)
			}
		case 4: // long digit run
			k := r.Intn(len(rs) + 1)
			run := []rune(strings.Repeat(string("9087"[r.Intn(4)]), 1+r.Intn(40)))
			rs = append(rs[:k:k], append(run, rs[k:]...)...)
		case 5: // drop or duplicate a field
			f := strings.Split(string(rs), " ")
			if len(f) > 1 {
				k := r.Intn(len(f))
				if r.Intn(2) == 0 {
					f = append(f[:k:k], f[k+1:]...)
				} else {
					f = append(f[:k:k], append([]string{f[k]}, f[k:]...)...)
				}
				rs = []rune(strings.Join(f, " "))
			}
		case 6: // swap two fields
			f := strings.Split(string(rs), " ")
			if len(f) > 1 {
				a, b := r.Intn(len(f)), r.Intn(len(f))
				f[a], f[b] = f[b], f[a]
				rs = []rune(strings.Join(f, " "))
			}
		case 7: // digit inflation inside the placement
			for k := range rs {
				if rs[k] >= '1' && rs[k] <= '8' && r.Intn(4) == 0 {
					rs[k] = rune('0' + r.Intn(10))
				}
			}
		}
	}
	return string(rs)
}

func genFenStrings(o *Out, r *rand.Rand, thorough bool) {
	n := 6000
	if thorough {
		n = 300000
	}
	emit := func(s string) {
		h := runesHex(s)
		res := o.do("fen dec " + h)
		o.do("fen total " + h)
		switch {
		case strings.HasPrefix(res, "ok:"):
			o.Count("fen:accepted")
		case res == "err":
			o.Count("fen:rejected")
		default:
			o.Count("fen:" + res)
		}
		if res != "err" || len(s) > 10 {
			o.Nontrivial(h)
		}
	}
	for _, s := range findingFens {
		emit(s)
	}
	var valid []string
	walk(r, 20, 60, 60, func(f string, p *board.Position, turn board.Color) { valid = append(valid, f) })
	for i := 0; i < n; i++ {
		base := valid[r.Intn(len(valid))]
		switch r.Intn(10) {
		case 0:
			emit(base)
		case 1: // raw bytes
			b := make([]byte, r.Intn(40))
			r.Read(b)
			emit(string(b))
		case 2:
			emit(findingFens[r.Intn(len(findingFens))])
		case 3:
			emit(mutate(r, findingFens[r.Intn(len(findingFens))]))
		default:
			emit(mutate(r, base))
		}
	}
	// moves and squares
	files := []rune("abcdefghABCDEFGHiI0 кК")
	ranks := []rune("1234567890٣８ ")
	promos := []rune("qrbnQRBNkKpPx1 ")
	m := n / 2
	for i := 0; i < m; i++ {
		var rs []rune
		switch r.Intn(6) {
		case 0:
			rs = []rune{files[r.Intn(8)], ranks[r.Intn(8)], files[r.Intn(8)], ranks[r.Intn(8)]}
		case 1:
			rs = []rune{files[r.Intn(16)], ranks[r.Intn(8)], files[r.Intn(16)], ranks[r.Intn(8)], promos[r.Intn(len(promos))]}
		default:
			l := r.Intn(8)
			for k := 0; k < l; k++ {
				switch k % 2 {
				case 0:
					rs = append(rs, files[r.Intn(len(files))])
				default:
					rs = append(rs, ranks[r.Intn(len(ranks))])
				}
			}
			if r.Intn(3) == 0 && len(rs) > 0 {
				rs[len(rs)-1] = promos[r.Intn(len(promos))]
			}
		}
		if r.Intn(5) == 0 && len(rs) > 0 {
			// an alias of a valid character: the same low byte (or low 16 bits), another code point - a parser that narrows a
			// rune before comparing it would take it for the ASCII character
			k := r.Intn(len(rs))
			rs[k] += []rune{0x100, 0x200, 0x300, 0xFF00, 0x10000, 0xFEE0, 0x20000}[r.Intn(7)]
			o.Count("move:aliased-rune")
		}
		res := o.do("fen move " + runesHex(string(rs)))
		o.Count("move:" + res[:2])
		o.Nontrivial("m" + string(rs))
		if len(rs) >= 2 {
			res := o.do("fen square " + runesHex(string(rs[:2])))
			o.Count("square:" + res[:2])
		}
	}
	for i := 0; i < 200; i++ {
		b := make([]byte, r.Intn(7))
		r.Read(b)
		o.do("fen move " + runesHex(string(b)))
		o.do("fen square " + runesHex(string(b)))
	}
}

func genFenCanon(o *Out, r *rand.Rand, thorough bool) {
	playouts, synth := 150, 500
	if thorough {
		playouts, synth = 5000, 20000
	}
	clocks := []int{0, 1, 7, 49, 50, 99, 100, 101, 150, 1000, 123456, 1000000}
	walk(r, playouts, 100, synth, func(f string, p *board.Position, turn board.Color) {
		np, fm := clocks[r.Intn(len(clocks))], 1+clocks[r.Intn(len(clocks))]
		if r.Intn(3) == 0 {
			parts := strings.Split(f, " ")
			np, _ = strconv.Atoi(parts[4])
			fm, _ = strconv.Atoi(parts[5])
		}
		s := fen.Encode(p, turn, np, fm)
		res := o.do("fen canon " + s)
		o.do("fen total " + runesHex(s))
		o.Count("canon:" + strings.SplitN(res, ":", 2)[0])
		parts := strings.Split(s, " ")
		o.Count("rights:" + parts[2])
		if parts[3] != "-" {
			o.Count("ep:set")
		}
		o.Count("turn:" + parts[1])
		o.Nontrivial(strings.Join(parts[:4], " ") + fmt.Sprint(np, fm))
	})
	// all 16 rights sets on a position where they are consistent, en passant on both ranks
	for c := 0; c < 16; c++ {
		rights := ""
		for i, ch := range "KQkq" {
			if c&(1<<i) != 0 {
				rights += string(ch)
			}
		}
		if rights == "" {
			rights = "-"
		}
		for _, t := range []string{"w", "b"} {
			o.do(fmt.Sprintf("fen canon r3k2r/8/8/8/8/8/8/R3K2R %s %s - %d %d", t, rights, r.Intn(100), 1+r.Intn(100)))
		}
	}
	for f := 0; f < 8; f++ {
		o.do(fmt.Sprintf("fen canon 4k3/8/8/8/%s/8/8/4K3 b - %c3 0 1", epRank(f, 'P'), 'a'+rune(f)))
		o.do(fmt.Sprintf("fen canon 4k3/8/8/%s/8/8/8/4K3 w - %c6 0 1", epRank(f, 'p'), 'a'+rune(f)))
	}
}

func epRank(file int, pawn byte) string {
	s := ""
	if file > 0 {
		s += strconv.Itoa(file)
	}
	s += string(pawn)
	if file < 7 {
		s += strconv.Itoa(7 - file)
	}
	return s
}
