package main

import (
	"fmt"
	"math/rand"
	"sort"
	"strconv"
	"strings"

	"github.com/herohde/morlock/pkg/board"
	"github.com/herohde/morlock/pkg/board/fen"
)

// ---- canonical text ------------------------------------------------------------------------

func moveUci(m board.Move) string {
	s := m.From.String() + m.To.String()
	switch m.Promotion {
	case board.Queen:
		s += "q"
	case board.Rook:
		s += "r"
	case board.Knight:
		s += "n"
	case board.Bishop:
		s += "b"
	}
	return s
}

func fmtMove(m board.Move) string {
	return fmt.Sprintf("%s:%d:%d:%d", moveUci(m), m.Type, m.Piece, m.Capture)
}

func posKey(p *board.Position, turn board.Color) string {
	return strings.Join(strings.Split(fen.Encode(p, turn, 0, 1), " ")[:4], " ")
}

func parseColorArg(s string) board.Color {
	if s == "b" {
		return board.Black
	}
	return board.White
}

// viewsOK is the implementation-side image of the model's WF: every redundant view of the
// position agrees with every other (exported API only).
func viewsOK(p *board.Position) bool {
	var all board.Bitboard
	for c := board.ZeroColor; c < board.NumColors; c++ {
		var union board.Bitboard
		n := 0
		for k := board.ZeroPiece; k < board.NumPieces; k++ {
			union |= p.Piece(c, k)
			n += p.Piece(c, k).PopCount()
		}
		if union != p.Color(c) || n != p.Color(c).PopCount() {
			return false
		}
		all |= p.Color(c)
	}
	if p.Color(board.White)&p.Color(board.Black) != 0 || all != p.All() {
		return false
	}
	if p.Rotated() != board.NewRotatedBitboard(p.All()) {
		return false
	}
	for sq := board.ZeroSquare; sq < board.NumSquares; sq++ {
		c, k, ok := p.Square(sq)
		if ok != p.All().IsSet(sq) || p.IsEmpty(sq) == ok {
			return false
		}
		if ok && (!p.Piece(c, k).IsSet(sq) || !p.Color(c).IsSet(sq)) {
			return false
		}
	}
	return true
}

func findMove(p *board.Position, turn board.Color, uci string) (board.Move, bool) {
	for _, m := range p.PseudoLegalMoves(turn) {
		if moveUci(m) == uci {
			return m, true
		}
	}
	return board.Move{}, false
}

func perft(p *board.Position, turn board.Color, d int) uint64 {
	if d == 0 {
		return 1
	}
	var n uint64
	for _, m := range p.PseudoLegalMoves(turn) {
		if next, ok := p.Move(m); ok {
			n += perft(next, turn.Opponent(), d-1)
		}
	}
	return n
}

func init() {
	registerEval("chess", func(a []string) string {
		switch a[0] {
		case "gen":
			p, turn, _, _, err := fen.Decode(strings.Join(a[1:], " "))
			if err != nil {
				return "err"
			}
			ms := p.PseudoLegalMoves(turn)
			parts := []string{strconv.Itoa(len(ms))}
			for _, m := range ms {
				l := ":-"
				if _, ok := p.Move(m); ok {
					l = ":L"
				}
				parts = append(parts, fmtMove(m)+l)
			}
			return strings.Join(parts, " ")
		case "legal":
			p, turn, _, _, err := fen.Decode(strings.Join(a[1:], " "))
			if err != nil {
				return "err"
			}
			var parts []string
			for _, m := range p.LegalMoves(turn) {
				parts = append(parts, fmtMove(m))
			}
			sort.Strings(parts)
			return strings.Join(parts, " ")
		case "apply":
			f := strings.Join(a[1:len(a)-1], " ")
			p, turn, _, _, err := fen.Decode(f)
			if err != nil {
				return "err"
			}
			before := *p
			m, ok := findMove(p, turn, a[len(a)-1])
			if !ok {
				return "nomove"
			}
			next, ok := p.Move(m)
			if *p != before {
				return "SOURCE-MUTATED"
			}
			if !ok {
				return "illegal"
			}
			s := posKey(next, turn.Opponent())
			if !viewsOK(next) {
				s += " VIEWS-BROKEN"
			}
			return s
		case "perft":
			p, turn, _, _, err := fen.Decode(strings.Join(a[1:len(a)-1], " "))
			if err != nil {
				return "err"
			}
			d, _ := strconv.Atoi(a[len(a)-1])
			return fmt.Sprint(perft(p, turn, d))
		case "attacks":
			sq, _ := strconv.Atoi(a[2])
			occ, _ := strconv.ParseUint(a[3], 16, 64)
			rot := board.NewRotatedBitboard(board.Bitboard(occ))
			var bb board.Bitboard
			switch a[1] {
			case "K":
				bb = board.Attackboard(rot, board.Square(sq), board.King)
			case "Q":
				bb = board.Attackboard(rot, board.Square(sq), board.Queen)
			case "R":
				bb = board.Attackboard(rot, board.Square(sq), board.Rook)
			case "B":
				bb = board.Attackboard(rot, board.Square(sq), board.Bishop)
			case "N":
				bb = board.Attackboard(rot, board.Square(sq), board.Knight)
			case "Pw":
				bb = board.PawnCaptureboard(board.White, board.BitMask(board.Square(sq)))
			case "Pb":
				bb = board.PawnCaptureboard(board.Black, board.BitMask(board.Square(sq)))
			default:
				return "bad-op"
			}
			return strconv.FormatUint(uint64(bb), 16)
		case "isattacked":
			p, _, _, _, err := fen.Decode(strings.Join(a[3:], " "))
			if err != nil {
				return "err"
			}
			sq, _ := strconv.Atoi(a[2])
			return fmt.Sprint(p.IsAttacked(parseColorArg(a[1]), board.Square(sq)))
		case "isattackedby":
			p, _, _, _, err := fen.Decode(strings.Join(a[4:], " "))
			if err != nil {
				return "err"
			}
			sq, _ := strconv.Atoi(a[2])
			var list []board.Piece
			for _, ch := range a[3] {
				if ch >= '0' && ch <= '6' {
					list = append(list, board.Piece(ch-'0'))
				}
			}
			return fmt.Sprint(p.IsAttackedBy(parseColorArg(a[1]), board.Square(sq), list))
		case "ischecked":
			p, _, _, _, err := fen.Decode(strings.Join(a[2:], " "))
			if err != nil {
				return "err"
			}
			return fmt.Sprint(p.IsChecked(parseColorArg(a[1])))
		case "playq":
			i := 1
			for i < len(a) && a[i] != ";" {
				i++
			}
			p, turn, _, _, err := fen.Decode(strings.Join(a[1:i], " "))
			if err != nil {
				return "err"
			}
			for i++; i < len(a); i++ {
				m, ok := findMove(p, turn, a[i])
				if !ok {
					return "stuck"
				}
				next, ok := p.Move(m)
				if !ok {
					return "stuck"
				}
				p, turn = next, turn.Opponent()
			}
			att := func(by board.Color) string {
				var bb uint64
				for sq := board.ZeroSquare; sq < board.NumSquares; sq++ {
					if p.IsAttacked(by.Opponent(), sq) {
						bb |= 1 << sq
					}
				}
				return strconv.FormatUint(bb, 16)
			}
			v := "v"
			if !viewsOK(p) {
				v = "VIEWS-BROKEN"
			}
			return strings.Join([]string{posKey(p, turn), att(board.White), att(board.Black), fmt.Sprint(p.IsChecked(board.White)),
				fmt.Sprint(p.IsChecked(board.Black)), fmt.Sprint(p.IsCheckMate(turn)), v}, " ")
		case "ismate":
			p, turn, _, _, err := fen.Decode(strings.Join(a[1:], " "))
			if err != nil {
				return "err"
			}
			return fmt.Sprint(p.IsCheckMate(turn))
		}
		return "bad-op"
	})
}

// ---- position generators ----------------------------------------------------------------------

// corpus: the six Chess Programming Wiki perft positions plus edge cases (castling, en passant,
// pins, double check, promotion races, stalemate, mate).
var corpus = []string{
	fen.Initial,
	"r3k2r/p1ppqpb1/bn2pnp1/3PN3/1p2P3/2N2Q1p/PPPBBPPP/R3K2R w KQkq - 0 1",
	"8/2p5/3p4/KP5r/1R3p1k/8/4P1P1/8 w - - 0 1",
	"r3k2r/Pppp1ppp/1b3nbN/nP6/BBP1P3/q4N2/Pp1P2PP/R2Q1RK1 w kq - 0 1",
	"r2q1rk1/pP1p2pp/Q4n2/bbp1p3/Np6/1B3NBn/pPPP1PPP/R3K2R b KQ - 0 1",
	"rnbq1k1r/pp1Pbppp/2p5/8/2B5/8/PPP1NnPP/RNBQK2R w KQ - 1 8",
	"r4rk1/1pp1qppp/p1np1n2/2b1p1B1/2B1P1b1/P1NP1N2/1PP1QPPP/R4RK1 w - - 0 10",
	"r3k2r/8/8/8/8/8/8/R3K2R w KQkq - 0 1",
	"r3k2r/8/8/8/8/8/8/R3K2R b KQkq - 0 1",
	"r3k2r/8/8/4q3/8/8/8/R3K2R w KQkq - 0 1", // e-file check: no castling
	"r3k2r/8/8/8/5b2/8/8/R3K2R w KQkq - 0 1", // bishop eyes d2/c1?: through-check cases
	"r3k2r/8/8/8/8/5n2/8/R3K2R w KQkq - 0 1", // knight check
	"4k3/8/8/8/8/8/8/R3K2R w KQ - 0 1",
	"r3k2r/8/8/8/8/8/6p1/R3K2R w KQkq - 0 1",   // pawn attacks f1,h1
	"r3k2r/1P6/8/8/8/8/1p6/R3K2R w KQkq - 0 1", // promotion capturing a rook on its home square
	"8/8/8/2k5/3Pp3/8/8/4K3 b - d3 0 1",        // en passant available
	"8/8/8/8/k2Pp2Q/8/8/3K4 b - d3 0 1",        // en passant exposes the king along the rank
	"8/8/8/8/k2Pp2R/8/8/3K4 b - d3 0 1",
	"4k3/8/8/8/3pP3/8/8/4K2B b - e3 0 1",
	"3k4/3p4/8/K1P4r/8/8/8/8 b - - 0 1",
	"8/8/4k3/8/2pP4/8/B7/4K3 b - d3 0 1", // en passant pinned diagonally
	"4k3/8/8/8/8/8/4r3/R3K2R w KQ - 0 1",
	"7k/5Q2/6K1/8/8/8/8/8 b - - 0 1",    // stalemate
	"7k/6Q1/6K1/8/8/8/8/8 b - - 0 1",    // mate
	"R6k/6pp/8/8/8/8/8/6K1 b - - 0 1",   // back-rank mate
	"4k3/4r3/8/8/8/8/4R3/4K3 w - - 0 1", // pin on the e-file
	"4k3/8/8/8/7b/8/5N2/4K3 w - - 0 1",  // pinned knight
	"4k3/8/8/1b6/8/3N4/4K3/8 w - - 0 1",
	"8/8/8/8/8/5k2/4n1p1/4K2R w K - 0 1", // double check-ish
	"4k3/8/8/8/8/2n5/8/R3K3 w Q - 0 1",
	"k7/7R/6R1/8/8/8/8/7K w - - 0 1",
	"8/P7/8/8/8/8/7p/k6K w - - 0 1",           // promotions both sides
	"n1n5/PPPk4/8/8/8/8/4Kppp/5N1N b - - 0 1", // promotion position (perft)
	"rnbqkbnr/pppp1ppp/8/8/4pP2/8/PPPPP1PP/RNBQKBNR b KQkq f3 0 2",
	"rnbqkb1r/ppp1pppp/5n2/3pP3/8/8/PPPP1PPP/RNBQKBNR w KQkq d6 0 3",
	"2kr3r/p1ppqpb1/bn2Qnp1/3PN3/1p2P3/2N5/PPPBBPPP/R3K2R b KQ - 3 2",
	"rnb2k1r/pp1Pbppp/2p5/q7/2B5/8/PPPQNnPP/RNB1K2R w KQ - 3 9",
	"2r5/3pk3/8/2P5/8/2K5/8/8 w - - 5 4",
	"8/8/8/8/8/8/6k1/4K2R w K - 0 1",
	"8/8/8/8/8/8/1k6/R3K3 w Q - 0 1",
	"4k2r/6K1/8/8/8/8/8/8 b k - 0 1",
	"r3k3/1K6/8/8/8/8/8/8 b q - 0 1",
	"K1k5/8/P7/8/8/8/8/8 w - - 0 1",
	"8/8/1k6/2b5/2pP4/8/5K2/8 b - d3 0 1",
	"5k2/8/8/8/8/8/8/4K2R w K - 0 1",
	"3k4/8/8/8/8/8/8/R3K3 w Q - 0 1",
	"r3k2r/1b4bq/8/8/8/8/7B/R3K2R w KQkq - 0 1",
	"r3k2r/8/3Q4/8/8/5q2/8/R3K2R b KQkq - 0 1",
	"8/k1P5/8/1K6/8/8/8/8 w - - 0 1",
	"8/8/2k5/5q2/5n2/8/5K2/8 b - - 0 1",
	"r1bqkbnr/pppp1ppp/2n5/1B2p3/4P3/5N2/PPPP1PPP/RNBQK2R b KQkq - 3 3",
	"6k1/8/8/8/2b5/8/3p4/3K1B2 w - - 0 1",
	"2b3k1/8/8/8/8/8/3p4/2BK4 w - - 0 1",
}

type posFeatures struct {
	check, ep, castle, promo, pinned, mate, stale bool
}

func classify(p *board.Position, turn board.Color) posFeatures {
	var f posFeatures
	f.check = p.IsChecked(turn)
	_, f.ep = p.EnPassant()
	pseudo := p.PseudoLegalMoves(turn)
	legal := 0
	for _, m := range pseudo {
		_, ok := p.Move(m)
		if ok {
			legal++
		}
		if m.IsCastle() {
			f.castle = true
		}
		if m.IsPromotion() {
			f.promo = true
		}
		if m.Type == board.EnPassant {
			f.ep = true
		}
	}
	f.pinned = legal < len(pseudo)
	f.mate = legal == 0 && f.check
	f.stale = legal == 0 && !f.check
	return f
}

func (f posFeatures) nontrivial() bool {
	return f.check || f.ep || f.castle || f.promo || f.pinned || f.mate || f.stale
}

func (o *Out) countFeatures(f posFeatures) {
	for k, v := range map[string]bool{"check": f.check, "ep": f.ep, "castle": f.castle, "promo": f.promo,
		"pinned/illegal-pseudo": f.pinned, "mate": f.mate, "stalemate": f.stale} {
		if v {
			o.Count("pos:" + k)
		}
	}
	o.Count("pos:total")
}

// pickMove chooses a legal move with a bias towards the rare kinds.
func pickMove(r *rand.Rand, p *board.Position, turn board.Color) (board.Move, *board.Position, bool) {
	type cand struct {
		m    board.Move
		next *board.Position
		w    int
	}
	var cs []cand
	total := 0
	for _, m := range p.PseudoLegalMoves(turn) {
		next, ok := p.Move(m)
		if !ok {
			continue
		}
		w := 2
		switch {
		case m.IsCastle(), m.Type == board.EnPassant:
			w = 40
		case m.IsPromotion():
			w = 12
		case m.Type == board.Jump:
			w = 5
		case m.IsCapture():
			w = 6
		case m.Piece == board.King || m.Piece == board.Rook:
			w = 3
		}
		if m.IsCapture() && (m.To == board.A1 || m.To == board.H1 || m.To == board.A8 || m.To == board.H8) {
			w = 40
		}
		if next.IsChecked(turn.Opponent()) {
			w += 6
		}
		cs = append(cs, cand{m, next, w})
		total += w
	}
	if len(cs) == 0 {
		return board.Move{}, nil, false
	}
	x := r.Intn(total)
	for _, c := range cs {
		if x < c.w {
			return c.m, c.next, true
		}
		x -= c.w
	}
	return cs[0].m, cs[0].next, true
}

// synthetic builds a random well-formed position: one king each, no pawns on the back ranks, the
// side not to move not in check, castling rights only with king and rook at home.
func synthetic(r *rand.Rand) (string, bool) {
	var cells [64]byte
	place := func(ch byte) int {
		for {
			sq := r.Intn(64)
			if cells[sq] == 0 {
				if (ch == 'P' || ch == 'p') && (sq/8 == 0 || sq/8 == 7) {
					continue
				}
				cells[sq] = ch
				return sq
			}
		}
	}
	wk := place('K')
	for {
		bk := r.Intn(64)
		dx, dy := bk%8-wk%8, bk/8-wk/8
		if cells[bk] == 0 && (dx < -1 || dx > 1 || dy < -1 || dy > 1) {
			cells[bk] = 'k'
			break
		}
	}
	n := r.Intn(12)
	if r.Intn(4) == 0 {
		n = r.Intn(28)
	}
	kinds := "QRBNPPPqrbnppp"
	if r.Intn(5) == 0 {
		kinds = "QQQRBNqqqrbnPp" // odd material
	}
	for i := 0; i < n; i++ {
		place(kinds[r.Intn(len(kinds))])
	}
	// sometimes force castling set-ups
	if r.Intn(3) == 0 {
		for _, sq := range []int{0, 3, 7} {
			cells[sq] = 0
		}
		for i := range cells {
			if cells[i] == 'K' {
				cells[i] = 0
			}
		}
		cells[3] = 'K'
		if r.Intn(2) == 0 {
			cells[0] = 'R'
		}
		if r.Intn(2) == 0 {
			cells[7] = 'R'
		}
		if cells[59] == 0 && r.Intn(2) == 0 {
			for i := range cells {
				if cells[i] == 'k' {
					cells[i] = 0
				}
			}
			cells[59] = 'k'
			if r.Intn(2) == 0 {
				cells[56] = 'r'
			}
			if r.Intn(2) == 0 {
				cells[63] = 'r'
			}
		}
	}
	var sb strings.Builder
	for rank := 7; rank >= 0; rank-- {
		blanks := 0
		for file := 7; file >= 0; file-- {
			ch := cells[rank*8+file]
			if ch == 0 {
				blanks++
				continue
			}
			if blanks > 0 {
				sb.WriteString(strconv.Itoa(blanks))
				blanks = 0
			}
			sb.WriteByte(ch)
		}
		if blanks > 0 {
			sb.WriteString(strconv.Itoa(blanks))
		}
		if rank > 0 {
			sb.WriteByte('/')
		}
	}
	rights := ""
	if cells[3] == 'K' && cells[0] == 'R' && r.Intn(4) != 0 {
		rights += "K"
	}
	if cells[3] == 'K' && cells[7] == 'R' && r.Intn(4) != 0 {
		rights += "Q"
	}
	if cells[59] == 'k' && cells[56] == 'r' && r.Intn(4) != 0 {
		rights += "k"
	}
	if cells[59] == 'k' && cells[63] == 'r' && r.Intn(4) != 0 {
		rights += "q"
	}
	if rights == "" {
		rights = "-"
	}
	turn := "w"
	if r.Intn(2) == 0 {
		turn = "b"
	}
	f := fmt.Sprintf("%s %s %s - %d %d", sb.String(), turn, rights, r.Intn(30), 1+r.Intn(60))
	p, t, _, _, err := fen.Decode(f)
	if err != nil {
		return "", false
	}
	kings := 0
	for sq := 0; sq < 64; sq++ {
		if cells[sq] == 'K' || cells[sq] == 'k' {
			kings++
		}
	}
	if kings != 2 || p.IsChecked(t.Opponent()) {
		return "", false
	}
	return f, true
}

// lines generates played lines: a start FEN and the moves played from it (no re-decoding in between).
func lines(r *rand.Rand, n, maxPlies int, visit func(start string, moves []string, feats map[string]bool)) {
	for i := 0; i < n; i++ {
		start := corpus[r.Intn(len(corpus))]
		if r.Intn(4) == 0 {
			if f, ok := synthetic(r); ok {
				start = f
			}
		}
		p, turn, _, _, _ := fen.Decode(start)
		var moves []string
		feats := map[string]bool{}
		plies := 1 + r.Intn(maxPlies)
		for k := 0; k < plies; k++ {
			m, next, ok := pickMove(r, p, turn)
			if !ok {
				break
			}
			switch {
			case m.IsCastle():
				feats["castle"] = true
			case m.Type == board.EnPassant:
				feats["ep"] = true
			case m.IsPromotion():
				feats["promo"] = true
			case m.IsCapture():
				feats["capture"] = true
			}
			moves = append(moves, moveUci(m))
			p, turn = next, turn.Opponent()
			if r.Intn(3) == 0 {
				visit(start, append([]string{}, moves...), feats)
			}
		}
		visit(start, moves, feats)
	}
}

// corpusRejected collects corpus FENs that fen.Decode refused while a generator ran; main turns each into a "fen dec" op,
// so that the run reports the string as a concrete disagreement with the model instead of dying in the generator.
var corpusRejected []string

// walk visits positions: corpus, playouts from corpus positions, synthetic positions and short
// playouts from them. visit gets (fen with clocks, position, turn).
func walk(r *rand.Rand, playouts, maxPlies, synth int, visit func(f string, p *board.Position, turn board.Color)) {
	seen := map[string]bool{}
	emit := func(p *board.Position, turn board.Color, np, fm int) {
		f := fen.Encode(p, turn, np, fm)
		key := strings.Join(strings.Split(f, " ")[:4], " ")
		if seen[key] {
			return
		}
		seen[key] = true
		visit(f, p, turn)
	}
	play := func(start string, plies int, every int) {
		p, turn, np, fm, err := fen.Decode(start)
		if err != nil {
			// a standard FEN of the corpus that the decoder no longer accepts: reported as an op of its own (see main)
			corpusRejected = append(corpusRejected, start)
			return
		}
		emit(p, turn, np, fm)
		for i := 0; i < plies; i++ {
			m, next, ok := pickMove(r, p, turn)
			if !ok {
				return
			}
			if m.Type == board.Normal {
				np++
			} else {
				np = 0
			}
			p, turn = next, turn.Opponent()
			if turn == board.White {
				fm++
			}
			if every <= 1 || r.Intn(every) == 0 || classify(p, turn).nontrivial() && r.Intn(2) == 0 {
				emit(p, turn, np, fm)
			}
		}
	}
	for _, f := range corpus {
		play(f, 0, 1)
	}
	for i := 0; i < playouts; i++ {
		play(corpus[r.Intn(len(corpus))], 1+r.Intn(maxPlies), 3)
	}
	for i := 0; i < synth; {
		f, ok := synthetic(r)
		if !ok {
			continue
		}
		i++
		play(f, r.Intn(12), 2)
	}
	// en-passant shapes (the corpus and random play reach few): plain ones, and those where the capture is the only way
	// out of check
	plain, only := synth/8+10, synth/40+6
	for tries := 0; tries < synth*40+4000 && (plain > 0 || only > 0); tries++ {
		f, ok, onlyEP := epSynthetic(r)
		if !ok {
			continue
		}
		if onlyEP && only > 0 {
			only--
			play(f, 0, 1)
		} else if !onlyEP && plain > 0 {
			plain--
			play(f, r.Intn(3), 1)
		}
	}
}

func decode(f string) (*board.Position, board.Color, int, int, error) { return fen.Decode(f) }

// epSynthetic builds a well-formed position in which a pawn has just made its double step next to an enemy pawn (the
// en-passant capture is pseudo-legal), biased towards the rare shapes: the double-stepped pawn gives check, the capturing
// side's king is boxed in, the capture exposes or shields a rank/diagonal. The second result says that the side to move is
// in check and every legal reply is an en-passant capture.
func epSynthetic(r *rand.Rand) (string, bool, bool) {
	var cells [64]byte
	whiteStepped := r.Intn(2) == 0 // White made the double step, Black to move
	f := r.Intn(8)
	g := f + 1
	if f == 7 || (f > 0 && r.Intn(2) == 0) {
		g = f - 1
	}
	land, origin, target, kingRank := 3, 1, 2, 4
	pawnO, pawnS, kingS, kingO := byte('P'), byte('p'), byte('k'), byte('K')
	if !whiteStepped {
		land, origin, target, kingRank = 4, 6, 5, 3
		pawnO, pawnS, kingS, kingO = 'p', 'P', 'K', 'k'
	}
	// squares are numbered h1 = 0 ... a8 = 63 in this engine: index = rank*8 + (7 - file)
	at := func(file, rank int) int { return rank*8 + (7 - file) }
	cells[at(f, land)] = pawnO
	cells[at(g, land)] = pawnS
	reserved := map[int]bool{at(f, origin): true, at(f, target): true}
	free := func(sq int) bool { return cells[sq] == 0 && !reserved[sq] }
	// the capturing side's king: often on a square the stepped pawn attacks
	ks := -1
	if r.Intn(3) != 0 {
		kf := f + 1
		if f == 7 || (f > 0 && r.Intn(2) == 0) {
			kf = f - 1
		}
		if free(at(kf, kingRank)) {
			ks = at(kf, kingRank)
		}
	}
	for ks < 0 {
		if sq := r.Intn(64); free(sq) {
			ks = sq
		}
	}
	cells[ks] = kingS
	for {
		sq := r.Intn(64)
		dx, dy := sq%8-ks%8, sq/8-ks/8
		if free(sq) && (dx < -1 || dx > 1 || dy < -1 || dy > 1) {
			cells[sq] = kingO
			break
		}
	}
	n := r.Intn(10)
	own, opp := "qrbnpp", "QRBNPQR"
	if !whiteStepped {
		own, opp = "QRBNPP", "qrbnpqr"
	}
	for i := 0; i < n; i++ {
		for tries := 0; tries < 20; tries++ {
			sq := r.Intn(64)
			if r.Intn(2) == 0 { // near the boxed king
				sq = ks + []int{-9, -8, -7, -1, 1, 7, 8, 9, -16, 16, -2, 2}[r.Intn(12)]
				if sq < 0 || sq > 63 {
					continue
				}
			}
			ch := opp[r.Intn(len(opp))]
			if r.Intn(3) == 0 {
				ch = own[r.Intn(len(own))]
			}
			if !free(sq) || ((ch == 'P' || ch == 'p') && (sq/8 == 0 || sq/8 == 7)) {
				continue
			}
			cells[sq] = ch
			break
		}
	}
	var sb strings.Builder
	for rank := 7; rank >= 0; rank-- {
		blanks := 0
		for file := 7; file >= 0; file-- {
			ch := cells[rank*8+file]
			if ch == 0 {
				blanks++
				continue
			}
			if blanks > 0 {
				sb.WriteString(strconv.Itoa(blanks))
				blanks = 0
			}
			sb.WriteByte(ch)
		}
		if blanks > 0 {
			sb.WriteString(strconv.Itoa(blanks))
		}
		if rank > 0 {
			sb.WriteByte('/')
		}
	}
	turn := "b"
	if !whiteStepped {
		turn = "w"
	}
	fenStr := fmt.Sprintf("%s %s - %c%d 0 %d", sb.String(), turn, 'a'+byte(f), target+1, 2+r.Intn(40))
	p, t, _, _, err := fen.Decode(fenStr)
	if err != nil || !chessWF(p, t) || p.IsChecked(t.Opponent()) {
		return "", false, false
	}
	if ep, ok := p.EnPassant(); !ok || int(ep) != at(f, target) {
		return "", false, false
	}
	only := false
	if p.IsChecked(t) {
		legal := p.LegalMoves(t)
		only = len(legal) > 0
		for _, m := range legal {
			if m.Type != board.EnPassant {
				only = false
			}
		}
	}
	return fenStr, true, only
}

// squeezed looks for a well-formed position in which the side to move is not in check and has at most `max` legal moves.
func squeezed(r *rand.Rand, max int) (string, bool) {
	for tries := 0; tries < 4000; tries++ {
		f, ok := synthetic(r)
		if !ok {
			continue
		}
		p, t, _, _, _ := fen.Decode(f)
		if p.IsChecked(t) {
			continue
		}
		if n := len(p.LegalMoves(t)); n >= 1 && n <= max {
			return f, true
		}
	}
	return "", false
}
