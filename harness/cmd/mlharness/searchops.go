package main

import (
	"context"
	"fmt"
	"github.com/herohde/morlock/cmd/bernstein/bernstein"
	"github.com/herohde/morlock/cmd/turochamp/turochamp"
	"math/rand"
	"strconv"
	"strings"
	"time"

	"github.com/herohde/morlock/pkg/board"
	"github.com/herohde/morlock/pkg/board/fen"
	"github.com/herohde/morlock/pkg/eval"
	"github.com/herohde/morlock/pkg/search"
)

// pollCtx is a context whose Done() is the cancellation poll: the k-th call and all later ones
// return a closed channel (k = 0: never). No hook in the repository is needed for this.
type pollCtx struct {
	polls, cancelAt int
	closed, open    chan struct{}
}

func newPollCtx(cancelAt int) *pollCtx {
	c := &pollCtx{cancelAt: cancelAt, closed: make(chan struct{}), open: make(chan struct{})}
	close(c.closed)
	return c
}
func (c *pollCtx) Deadline() (time.Time, bool) { return time.Time{}, false }
func (c *pollCtx) Done() <-chan struct{} {
	c.polls++
	if c.cancelAt > 0 && c.polls >= c.cancelAt {
		return c.closed
	}
	return c.open
}
func (c *pollCtx) Err() error {
	if c.cancelAt > 0 && c.polls >= c.cancelAt {
		// a context ends by cancellation or by its deadline: both kinds halt a search (odd k: the deadline kind)
		if c.cancelAt%2 == 1 {
			return context.DeadlineExceeded
		}
		return context.Canceled
	}
	return nil
}
func (c *pollCtx) Value(key interface{}) interface{} { return nil }

func capturesOnly(ctx context.Context, b *board.Board) (board.MovePriorityFn, board.MovePredicateFn) {
	return search.MVVLVA, func(m board.Move) bool { return m.IsCapture() }
}

func noUnderPromo(ctx context.Context, b *board.Board) (board.MovePriorityFn, board.MovePredicateFn) {
	return search.MVVLVA, board.Move.IsNotUnderPromotion
}

func searchCfg(name string) (search.Search, bool) {
	if name == "minimax" { // the repository's own reference search
		return search.Minimax{Eval: search.Leaf{Eval: eval.Material{}}}, true
	}
	return searchCfgAB(name)
}

func searchCfgAB(name string) (search.AlphaBeta, bool) {
	leaf := search.Leaf{Eval: eval.Material{}}
	quiet := search.Quiescence{Explore: capturesOnly, Eval: leaf}
	switch name {
	case "full-static":
		return search.AlphaBeta{Eval: leaf}, true
	case "full-quiet":
		return search.AlphaBeta{Eval: quiet}, true
	case "nup-static":
		return search.AlphaBeta{Explore: noUnderPromo, Eval: leaf}, true
	case "nup-quiet":
		return search.AlphaBeta{Explore: noUnderPromo, Eval: quiet}, true
	case "bern-static": // the search the BERNSTEIN engine runs (plausible-move table at every node, its own evaluation)
		return search.AlphaBeta{Explore: bernstein.PlausibleMoveTable{Limit: 7}.Explore, Eval: search.Leaf{Eval: bernstein.Eval{Factor: 8}}}, true
	case "turo-quiet": // the search the TUROCHAMP engine runs (cmd/turochamp/main.go)
		return search.AlphaBeta{Eval: search.Quiescence{Explore: turochamp.ConsiderableMovesOnly, Eval: search.Leaf{Eval: turochamp.Eval{}}}}, true
	}
	return search.AlphaBeta{}, false
}

func pvStr(pv []board.Move) string {
	if len(pv) == 0 {
		return "-"
	}
	var parts []string
	for _, m := range pv {
		parts = append(parts, moveUci(m))
	}
	return strings.Join(parts, ",")
}

// pvLegal replays the PV on a fork with the implementation's own rules.
func pvLegal(b *board.Board, pv []board.Move) bool {
	f := b.Fork()
	for _, m := range pv {
		found := false
		for _, x := range f.Position().PseudoLegalMoves(f.Turn()) {
			if x.Equals(m) {
				if !f.PushMove(x) {
					return false
				}
				found = true
				break
			}
		}
		if !found {
			return false
		}
	}
	return true
}

// restoredAfterSearch compares everything the board reports before and after. The result may become
// more informative (no legal move: mate/stalemate adjudicated at the root) but not less.
func restoredAfterSearch(before, after string) bool {
	if before == after {
		return true
	}
	bt, at := strings.Split(before, " "), strings.Split(after, " ")
	if len(bt) != len(at) {
		return false
	}
	for i := range bt {
		if bt[i] != at[i] {
			if i == len(bt)-1 && bt[i] == "-" && (at[i] == "D:stale" || at[i] == "1-0" || at[i] == "0-1") {
				continue
			}
			return false
		}
	}
	return true
}

func init() {
	registerEval("search", func(a []string) string {
		seed, _ := strconv.ParseInt(a[0], 10, 64)
		z := zobrist(seed)
		ab, ok := searchCfg(strings.TrimSuffix(a[1], "~"))
		if !ok {
			return "bad-op"
		}
		ttSize, _ := strconv.ParseUint(a[2], 10, 64)
		minDepth, _ := strconv.Atoi(a[3])
		i := 4
		for i < len(a) && a[i] != ";" {
			i++
		}
		p, turn, np, fm, err := fen.Decode(strings.Join(a[4:i], " "))
		if err != nil {
			return "err"
		}
		b := board.NewBoard(z, p, turn, np, fm)
		var tt search.TranspositionTable = search.NoTranspositionTable{}
		if ttSize > 0 {
			if minDepth > 0 {
				tt = search.NewMinDepthTranspositionTable(minDepth)(context.Background(), ttSize)
			} else {
				tt = search.NewTranspositionTable(context.Background(), ttSize)
			}
		}
		var outs []string
		// ONE context object for all the full-window searches of the script, as a caller that keeps its search.Context would
		// use it: a search must leave it as it found it (windowed searches get a context of their own)
		shared := &search.Context{TT: tt}
		for i++; i < len(a); i++ {
			it := a[i]
			switch {
			case strings.HasPrefix(it, "m:"):
				res := "nomove"
				for _, m := range b.Position().PseudoLegalMoves(b.Turn()) {
					if moveUci(m) == it[2:] {
						if b.PushMove(m) {
							res = "ok"
						} else {
							res = "illegal"
						}
						break
					}
				}
				outs = append(outs, res)
			case it == "fork":
				// the rest of the script runs on a fork of the board, as every search launched by the engine does
				b = b.Fork()
				outs = append(outs, "forked")
			case it == "pop":
				m, ok := b.PopMove()
				outs = append(outs, optMove(m, ok))
			case strings.HasPrefix(it, "s:"):
				f := strings.Split(it[2:], ":")
				if len(f) != 8 {
					outs = append(outs, "bad-item")
					continue
				}
				depth, _ := strconv.Atoi(f[0])
				alpha := parseScore(strings.Join(f[1:4], ":"))
				beta := parseScore(strings.Join(f[4:7], ":"))
				cancelAt, _ := strconv.Atoi(f[7])
				ctx := newPollCtx(cancelAt)
				sctx := &search.Context{Alpha: alpha, Beta: beta, TT: tt}
				if alpha == (eval.Score{}) && beta == (eval.Score{}) {
					sctx = shared
				}
				before := obsBoard(z, b)
				nodes, score, pv, err := ab.Search(ctx, sctx, b, depth)
				restored := restoredAfterSearch(before, obsBoard(z, b)) && sctx.Alpha == alpha && sctx.Beta == beta
				if err != nil {
					if err == search.ErrHalted {
						outs = append(outs, fmt.Sprintf("halted restored=%v", restored))
					} else {
						outs = append(outs, "error:"+err.Error())
					}
					continue
				}
				first := "none"
				if len(pv) > 0 {
					first = moveUci(pv[0])
				}
				outs = append(outs, fmt.Sprintf("n=%d r=%s pv=%s first=%s pvlegal=%v pvlen=%v restored=%v",
					nodes, fmtScore(score), pvStr(pv), first, pvLegal(b, pv), len(pv) <= depth, restored))
			default:
				outs = append(outs, "bad-item")
			}
		}
		return strings.Join(outs, " | ")
	})
	register("c03", genC03)
	register("c13", genC13)
	register("c09win", genC09Win)
	register("c11", genC11)
	register("c12", genC12)
}

const fullWin = "X:0:0:X:0:0"

// searchStarts: positions + histories for searches. Sparse endgames allow deeper searches.
var mateStarts = []string{
	"k7/7R/6R1/8/8/8/8/7K w - - 0 1", "k7/7R/7R/8/8/8/8/7K w - - 0 1", "5n2/2Q5/8/8/8/R1K3R1/6k1/8 b - - 0 1",
	"7k/5Q2/6K1/8/8/8/8/8 w - - 0 1", "R6k/6pp/8/8/8/8/8/6K1 b - - 0 1", "6k1/5ppp/8/8/8/8/8/R5K1 w - - 0 1",
	"8/8/8/8/8/5k2/4q3/7K w - - 0 1", "8/8/8/8/8/2k5/1q6/K7 w - - 0 1", "1k6/ppp5/8/8/8/8/8/K2R4 w - - 0 1",
	"8/8/8/8/8/1K6/2Q5/k7 b - - 0 1", "4k3/4P3/4K3/8/8/8/8/8 b - - 0 1", "8/8/8/8/8/4k3/4p3/4K3 w - - 0 1",
	"3k4/3P4/3K4/8/8/8/8/8 w - - 0 1", "k7/2K5/8/8/8/8/8/1R6 w - - 0 1", "7k/8/5KQ1/8/8/8/8/8 b - - 0 1",
	// the best move is an under-promotion (knight mates, rook avoids stalemate)
	"6r1/5Ppp/7k/5K2/6P1/8/8/8 w - - 0 1", "2r5/kP6/p7/8/8/8/6B1/1R5K w - - 0 1", "8/5P1k/5K2/8/8/8/8/8 w - - 0 1",
}

func randomLine(r *rand.Rand, maxPlies int) (string, []string, *board.Board) {
	start := corpus[r.Intn(len(corpus))]
	switch r.Intn(4) {
	case 0:
		start = mateStarts[r.Intn(len(mateStarts))]
	case 1:
		if f, ok := synthetic(r); ok {
			start = f
		}
	}
	p, turn, np, fm, _ := fen.Decode(start)
	b := board.NewBoard(zobrist(0), p, turn, np, fm)
	var moves []string
	n := r.Intn(maxPlies + 1)
	for k := 0; k < n; k++ {
		legal := b.Position().LegalMoves(b.Turn())
		if len(legal) == 0 {
			break
		}
		m, _ := biased(r)(legal)
		if !b.PushMove(m) {
			break
		}
		moves = append(moves, "m:"+moveUci(m))
	}
	return start, moves, b
}

func pieceCount(b *board.Board) int { return b.Position().All().PopCount() }

// pickDepth bounds the work of the exhaustive reference: deep searches only in sparse positions.
func pickDepth(r *rand.Rand, b *board.Board, thorough bool, quiet bool) int {
	n := pieceCount(b)
	d := 1 + r.Intn(2)
	switch {
	case n <= 4:
		d = 1 + r.Intn(4)
	case n <= 8:
		d = 1 + r.Intn(3)
	}
	if r.Intn(12) == 0 {
		d = 0
	}
	if quiet {
		switch {
		case n > 8 && d > 1:
			d = 1
		case n > 5 && d > 2:
			d = 2
		}
	}
	return d
}

// pickCfg chooses a configuration; the exhaustive reference quiescence is only affordable with few
// men on the board, so on busy positions quiescence configurations run implementation-vs-model only
// (suffix "~": the driver prints no reference line).
func pickCfg(r *rand.Rand, b *board.Board) string {
	cfg := cfgNames[r.Intn(len(cfgNames))]
	if strings.HasSuffix(cfg, "quiet") && pieceCount(b) > 12 {
		if r.Intn(2) == 0 {
			return cfg + "~"
		}
		return strings.Replace(cfg, "quiet", "static", 1)
	}
	return cfg
}

var cfgNames = []string{"full-static", "full-quiet", "nup-static", "nup-quiet"}

func genC03(o *Out, r *rand.Rand, thorough bool) {
	n := 260
	if thorough {
		n = 2500
	}
	seeds := []int64{0, 1}
	for _, s := range seeds {
		o.do(ztableLine(s))
	}
	emit := func(cfg string, start string, moves []string, items []string) {
		line := fmt.Sprintf("search %d %s 0 0 %s ; %s", seeds[r.Intn(2)], cfg, start, strings.Join(append(append([]string{}, moves...), items...), " "))
		res := o.do(line)
		o.Count("cfg:" + cfg)
		if strings.Contains(res, "r=M:") || strings.Contains(res, "r=N:") || strings.Contains(res, "r=I:") {
			o.Count("mate-score")
		}
		o.Nontrivial(line)
	}
	// drawish histories: the root or nodes in the tree are repetitions
	shuffles := []string{"m:g1f3 m:g8f6 m:f3g1 m:f6g8", "m:b1c3 m:b8c6 m:c3b1 m:c6b8"}
	for i := 0; i < 6; i++ {
		h := strings.Split(strings.Repeat(shuffles[i%2]+" ", 1+i%3), " ")
		h = h[:len(h)-1]
		if i >= 3 {
			h = append(h, "m:e2e4", "m:e7e5")
		}
		emit([]string{"full-static", "nup-static", "full-quiet~"}[i%3], fen.Initial, h, []string{fmt.Sprintf("s:%d:%s:0", 1+i%2, fullWin)})
		o.Count("history:repetition")
	}
	// the same kind of history searched on a FORK of the game board (the engine's way): the position right after the last
	// irreversible move (here: the set-up position) has occurred twice, a move in the tree brings it about a third time
	for i, h := range []string{"m:g1f3 m:g8f6 m:f3g1 m:f6g8 m:g1f3 m:g8f6 m:f3g1", "m:b1c3 m:b8c6 m:c3b1 m:c6b8 m:b1c3 m:b8c6 m:c3b1",
		"m:e2e4 m:e7e5 m:g1f3 m:g8f6 m:f3g1 m:f6g8 m:g1f3 m:g8f6 m:f3g1"} {
		for d := 1; d <= 2; d++ {
			emit([]string{"full-static", "nup-static", "full-quiet~"}[i%3], fen.Initial, append(strings.Split(h, " "), "fork"), []string{fmt.Sprintf("s:%d:%s:0", d, fullWin)})
			o.Count("history:repetition-on-a-fork")
		}
	}
	// ... and the weaker side completes the third occurrence itself (a rook against a queen: the draw is worth more than anything else)
	for _, tail := range [][]string{{"fork"}, {}} {
		emit("full-static", "q6k/8/8/8/8/8/8/1R4K1 b - - 0 1", append([]string{"m:h8g8", "m:b1c1", "m:g8h8", "m:c1b1", "m:h8g8", "m:b1c1", "m:g8h8"}, tail...),
			[]string{"s:1:" + fullWin + ":0", "s:2:" + fullWin + ":0"})
		o.Count("history:repetition-wanted-by-the-weaker-side")
	}
	// draws that arise exactly at the search horizon (capture into insufficient material, the clock
	// reaching 100, a third occurrence completed by the last ply)
	for _, h := range []struct {
		fen   string
		moves []string
		d     int
	}{
		{"k7/8/8/3p4/4B3/8/8/6K1 w - - 0 1", nil, 1}, {"k7/8/8/3p4/4B3/8/8/6K1 w - - 0 1", nil, 3},
		{"4k3/8/8/8/8/8/4P3/R3K3 w - - 99 60", nil, 1}, {"4k3/8/8/8/8/8/4P3/R3K3 w - - 98 60", nil, 2},
		{"4k3/8/8/8/8/8/4P3/R3K3 b - - 97 60", nil, 3},
		{"6k1/8/8/8/8/8/3n4/R3K3 w - - 0 1", []string{"m:a1a2", "m:g8h8", "m:a2a1", "m:h8g8", "m:a1a2", "m:g8h8", "m:a2a1"}, 1},
		{"6k1/8/8/8/8/8/3n4/R3K3 w - - 0 1", []string{"m:a1a2", "m:g8h8", "m:a2a1", "m:h8g8", "m:a1a2", "m:g8h8"}, 2},
		{"8/8/8/8/8/2k5/3n4/3K4 w - - 3 1", nil, 1}, {"8/8/4k3/8/8/3bB3/8/4K3 w - - 0 1", nil, 2}, {"8/5P2/8/8/8/2k5/6b1/3K4 w - - 0 1", nil, 2},
		// every kind of move that restarts the count, made at clock 99: quiet promotion (mating / winning), capture-promotion,
		// en passant, double step, castling does NOT restart it
		{"7k/4P3/6K1/8/8/8/8/8 w - - 99 80", nil, 2}, {"7k/4P3/6K1/8/8/8/8/8 w - - 99 80", nil, 3}, {"8/4P3/8/8/8/k7/8/4K3 w - - 99 80", nil, 1},
		{"3r3k/4P3/6K1/8/8/8/8/8 w - - 99 80", nil, 1}, {"4k3/8/8/8/3pP3/8/8/4K3 b - e3 99 80", nil, 1}, {"4k3/8/8/8/8/8/4P3/4K3 w - - 99 80", nil, 1},
		{"4k3/8/8/8/8/8/8/R3K2R w KQ - 99 80", nil, 1},
	} {
		emit([]string{"full-static", "nup-static", "full-quiet"}[r.Intn(3)], h.fen, h.moves, []string{fmt.Sprintf("s:%d:%s:0", h.d, fullWin)})
		o.Count("history:horizon-draw")
	}
	// dead positions that arise BELOW the horizon, inside the capture search (an exchange down to king and minor piece, or to
	// bare kings): worth 0 there as anywhere
	for _, f := range []string{"4k3/8/8/8/8/8/3r4/2B1K3 w - - 0 1", "5rk1/8/8/8/8/8/8/1N3RK1 b - - 0 1", "4k3/8/8/8/8/2n5/3R4/4K3 b - - 0 1", "8/8/4k3/8/8/3bB3/8/4K3 w - - 0 1",
		"4k3/3p4/8/8/8/8/3R4/4K3 w - - 0 1", "3qk3/8/8/8/8/8/8/3QK3 w - - 0 1"} {
		for _, cfg := range []string{"full-quiet", "nup-quiet"} {
			emit(cfg, f, nil, []string{"s:0:" + fullWin + ":0", "s:1:" + fullWin + ":0", "s:2:" + fullWin + ":0"})
			o.Count("history:dead-position-below-horizon")
		}
	}
	// one move mates, every other allows a mate: a forced win and a forced loss meet in one comparison
	for _, f := range []string{"6k1/5ppp/8/8/8/5pPq/5P1P/1n2RRK1 w - - 0 1", "1N2rrk1/5p1p/5PpQ/8/8/8/5PPP/6K1 b - - 0 1"} {
		emit("full-static", f, nil, []string{"s:3:" + fullWin + ":0"})
		emit("full-quiet", f, nil, []string{"s:2:" + fullWin + ":0"})
		o.Count("history:mate-for-and-against")
	}
	emit("full-static", "r3k2r/8/8/8/8/8/8/R3K2R w KQkq - 98 60", []string{"m:e1g1"}, []string{"s:2:" + fullWin + ":0"})
	emit("full-static", "4k3/8/8/8/8/8/4p3/R3K3 w Q - 99 60", nil, []string{"s:3:" + fullWin + ":0"})
	for i := 0; i < n; i++ {
		start, moves, b := randomLine(r, 24)
		cfg := pickCfg(r, b)
		d := pickDepth(r, b, thorough, strings.HasSuffix(cfg, "quiet"))
		if r.Intn(3) == 0 {
			moves = append(append([]string{}, moves...), "fork")
			o.Count("searched-on-a-fork")
		}
		emit(cfg, start, moves, []string{fmt.Sprintf("s:%d:%s:0", d, fullWin)})
		o.Count(fmt.Sprintf("depth:%d", d))
	}
	// the search the BERNSTEIN engine runs (node-dependent exploration, float evaluation): implementation vs model
	bn := n / 4
	for i := 0; i < bn; i++ {
		start, moves, b := randomLine(r, 16)
		if b.Position().Piece(board.White, board.King) == 0 || b.Position().Piece(board.Black, board.King) == 0 {
			continue
		}
		d := 1 + r.Intn(3)
		emit("bern-static~", start, moves, []string{fmt.Sprintf("s:%d:%s:0", d, fullWin)})
		o.Count("cfg:bern-static")
	}
	// the search the TUROCHAMP engine runs (quiescence over the considerable moves, which look at the board after the move and
	// at the move before it; evaluation reads the castled flags, so lines with castling are preferred): implementation vs model
	tn := n / 6
	for i := 0; i < tn; i++ {
		start, moves, b := randomLine(r, 20)
		if b.Position().Piece(board.White, board.King) == 0 || b.Position().Piece(board.Black, board.King) == 0 {
			continue
		}
		d := 1 + r.Intn(2)
		emit("turo-quiet~", start, moves, []string{fmt.Sprintf("s:%d:%s:0", d, fullWin)})
		o.Count("cfg:turo-quiet")
		if b.HasCastled(board.White) || b.HasCastled(board.Black) {
			o.Count("cfg:turo-quiet:castled")
		}
	}
	dn := 12
	if thorough {
		dn = 300
	}
	deepOracle(o, r, dn)
	// the repository's own reference search as a second opinion at greater depth (implementation only)
	m := 40
	if thorough {
		m = 600
	}
	for i := 0; i < m; i++ {
		start, moves, b := randomLine(r, 16)
		d := pickDepth(r, b, thorough, false) + 1
		if pieceCount(b) <= 6 {
			d++
		}
		if b.Result().Outcome == board.Draw {
			// Minimax returns 0 at a root that is already drawn; AlphaBeta always searches the root (C05): not comparable
			o.Count("repo-minimax:drawn-root-skipped")
			continue
		}
		ab, _ := searchCfg("full-static")
		mm := search.Minimax{Eval: search.Leaf{Eval: eval.Material{}}}
		_, s1, _, _ := ab.Search(context.Background(), &search.Context{TT: search.NoTranspositionTable{}}, b.Fork(), d)
		_, s2, _, _ := mm.Search(context.Background(), &search.Context{TT: search.NoTranspositionTable{}}, b.Fork(), d)
		ok := "ok"
		if s1 != s2 {
			ok = fmt.Sprintf("MISMATCH alphabeta=%s minimax=%s", fmtScore(s1), fmtScore(s2))
		}
		o.Emit(fmt.Sprintf("published minimax-vs-alphabeta d=%d %s ; %s", d, start, strings.Join(moves, " ")), ok)
		o.Count("repo-minimax")
	}
}

func randomBound(r *rand.Rand) string {
	switch r.Intn(8) {
	case 7:
		return fmt.Sprintf("M:%d:0", []int{-8, -6, -4, -2, 1, 3, 5, 7}[r.Intn(8)])
	case 0:
		return "N:0:0"
	case 1:
		return "I:0:0"
	case 2:
		return fmt.Sprintf("M:%d:0", 1+r.Intn(6))
	case 3:
		return fmt.Sprintf("M:%d:0", -1-r.Intn(6))
	default:
		return fmt.Sprintf("H:0:%d", f32key(eval.Pawns(r.Intn(13)-6)))
	}
}

// genC09Win: searches under one-sided windows (one bound of the search context set, the other left at its zero value): what
// comes back is a score of the order - the value of the position clipped to the window - never the "not set" marker.
func genC09Win(o *Out, r *rand.Rand, thorough bool) {
	n := 30
	if thorough {
		n = 600
	}
	o.do(ztableLine(0))
	for i := 0; i < n; i++ {
		start, moves, b := randomLine(r, 12)
		cfg := pickCfg(r, b)
		d := pickDepth(r, b, false, strings.HasSuffix(cfg, "quiet"))
		if d > 2 {
			d = 2
		}
		var items []string
		for k := 0; k < 4; k++ {
			bd := randomBound(r)
			for (k%2 == 0 && bd[:1] == "I") || (k%2 == 1 && bd[:1] == "N") {
				bd = randomBound(r)
			}
			if k%2 == 0 {
				items = append(items, fmt.Sprintf("s:%d:%s:X:0:0:0", d, bd))
			} else {
				items = append(items, fmt.Sprintf("s:%d:X:0:0:%s:0", d, bd))
			}
		}
		line := fmt.Sprintf("search 0 %s 0 0 %s ; %s", cfg, start, strings.Join(append(moves, items...), " "))
		o.do(line)
		o.Count("one-sided-window:" + cfg)
		o.Nontrivial(line)
	}
}

func genC13(o *Out, r *rand.Rand, thorough bool) {
	n := 200
	if thorough {
		n = 2500
	}
	o.do(ztableLine(0))
	// stalemates and mates under narrowed windows (the quiescence search must rate them exactly, also
	// when the stalemated side is ahead in material and the static value is above beta)
	for _, f := range []string{
		"8/8/7p/7p/7p/7P/p1K5/k7 b - - 0 1", "8/8/7p/7p/7p/7P/p2K4/k7 w - - 0 1", "K7/P1k5/7p/7P/7P/7P/8/8 w - - 0 1",
		"K7/P2k4/7p/7P/7P/7P/8/8 b - - 0 1", "7k/5Q2/6K1/8/8/8/8/8 b - - 0 1", "7k/6Q1/6K1/8/8/8/8/8 b - - 0 1", "k7/P7/K7/8/8/8/8/8 b - - 0 1",
	} {
		for _, cfg := range []string{"full-quiet", "nup-quiet", "full-static"} {
			var items []string
			for d := 0; d <= 2; d++ {
				items = append(items, fmt.Sprintf("s:%d:%s:0", d, fullWin))
				for _, w := range [][2]float32{{-1, 1}, {-5, 2}, {0, 3}, {-4, -1}, {2, 6}, {-3, 0}} {
					items = append(items, fmt.Sprintf("s:%d:H:0:%d:H:0:%d:0", d, f32key(eval.Pawns(w[0])), f32key(eval.Pawns(w[1]))))
				}
				items = append(items, fmt.Sprintf("s:%d:M:-3:0:H:0:%d:0", d, f32key(2)), fmt.Sprintf("s:%d:H:0:%d:M:3:0:0", d, f32key(-2)))
			}
			line := fmt.Sprintf("search 0 %s 0 0 %s ; %s", cfg, f, strings.Join(items, " "))
			o.do(line)
			o.Count("terminal-under-window")
			o.Nontrivial(line)
		}
	}
	dc := 20
	if thorough {
		dc = 400
	}
	deepClipOracle(o, r, dc)
	for i := 0; i < n; i++ {
		start, moves, b := randomLine(r, 16)
		cfg := pickCfg(r, b)
		d := pickDepth(r, b, thorough, strings.HasSuffix(cfg, "quiet"))
		var items []string
		items = append(items, fmt.Sprintf("s:%d:%s:0", d, fullWin))
		for k := 0; k < 4; k++ {
			a, bnd := randomBound(r), randomBound(r)
			sa, sb := parseScore(a), parseScore(bnd)
			if !sa.Less(sb) {
				a, bnd = bnd, a
				sa, sb = sb, sa
			}
			if !sa.Less(sb) {
				continue
			}
			items = append(items, fmt.Sprintf("s:%d:%s:%s:0", d, a, bnd))
			o.Count("window:" + a[:1] + bnd[:1])
		}
		// one-sided windows: only one bound is set in the search context, the other one is left at its zero value ("not set",
		// i.e. unbounded on that side)
		for k := 0; k < 2; k++ {
			bd := randomBound(r)
			for (k == 0 && bd[:1] == "I") || (k == 1 && bd[:1] == "N") { // an empty window is not a window
				bd = randomBound(r)
			}
			if k == 0 {
				items = append(items, fmt.Sprintf("s:%d:%s:X:0:0:0", d, bd))
				o.Count("window:" + bd[:1] + "-unset")
			} else {
				items = append(items, fmt.Sprintf("s:%d:X:0:0:%s:0", d, bd))
				o.Count("window:unset-" + bd[:1])
			}
		}
		tts := 0
		if r.Intn(3) == 0 {
			// with a table shared by the searches of the line: what a narrowed search stored (a horizon score that failed high or
			// low is a bound, not a value) must not answer the full-window search that follows it
			tts = 1 << 14
			items = append(items[1:], items[0], items[0])
			o.Count("windows-then-full-window-on-one-table")
		}
		line := fmt.Sprintf("search 0 %s %d 0 %s ; %s", cfg, tts, start, strings.Join(append(moves, items...), " "))
		o.do(line)
		o.Count("cfg:" + cfg)
		o.Nontrivial(line)
	}
	// curated: sparse positions with a better capture behind the one that cuts off, narrowed window then the full one, one table
	for _, f := range []string{"k7/3ppnpn/1p6/r6Q/8/8/8/7K w - - 0 1", "7k/8/8/3q4/2P1P3/8/8/3R3K w - - 0 1", "4k3/8/8/2n1b3/3P4/8/8/3QK3 w - - 0 1"} {
		for d := 1; d <= 2; d++ {
			var items []string
			for _, w := range [][2]float32{{-1.5, 0.5}, {-3, -2}, {0, 1}, {-6, -4}, {2, 5}} {
				items = append(items, fmt.Sprintf("s:%d:H:0:%d:H:0:%d:0", d, f32key(eval.Pawns(w[0])), f32key(eval.Pawns(w[1]))), fmt.Sprintf("s:%d:%s:0", d, fullWin))
			}
			for _, cfg := range []string{"full-quiet", "nup-quiet"} {
				line := fmt.Sprintf("search 0 %s 16384 0 %s ; %s", cfg, f, strings.Join(items, " "))
				o.do(line)
				o.Count("windows-then-full-window-on-one-table")
				o.Nontrivial(line)
			}
		}
	}
}

// noRepeatLine plays a line in which no position occurs twice and the clock stays low, so that no
// repetition or fifty-move draw can arise inside a shallow tree (the hypothesis of C11).
func noRepeatLine(r *rand.Rand, maxPlies int) (string, []string, *board.Board) {
	for {
		start := corpus[r.Intn(len(corpus))]
		if r.Intn(3) == 0 {
			start = mateStarts[r.Intn(len(mateStarts))]
		}
		p, turn, np, fm, _ := fen.Decode(start)
		if np > 60 {
			continue
		}
		b := board.NewBoard(zobrist(0), p, turn, np, fm)
		seen := map[string]bool{posKey(p, turn): true}
		var moves []string
		n := r.Intn(maxPlies + 1)
		for k := 0; k < n; k++ {
			legal := b.Position().LegalMoves(b.Turn())
			if len(legal) == 0 {
				break
			}
			m, _ := biased(r)(legal)
			next, _ := b.Position().Move(m)
			key := posKey(next, b.Turn().Opponent())
			if seen[key] {
				continue
			}
			seen[key] = true
			b.PushMove(m)
			moves = append(moves, "m:"+moveUci(m))
		}
		if b.NoProgress() > 80 {
			continue
		}
		return start, moves, b
	}
}

func genC11(o *Out, r *rand.Rand, thorough bool) {
	n := 220
	if thorough {
		n = 2000
	}
	o.do(ztableLine(0))
	o.do(ztableLine(1))
	sizes := []int{32, 64, 1 << 10, 1 << 14, 1 << 20}
	// the table's lifetime is the game: through the engine, a later game (same engine, table size unchanged) and a second engine
	// built from the same options report what a fresh engine reports - entries of an earlier game are not "true values" any more
	// once the evaluation (noise) or the history differs
	for k, kind := range []string{"morlock", "plain"} {
		ms := playoutMoves(r, fen.Initial, 2+r.Intn(2))
		line := fmt.Sprintf("published newgames %s %d 3 %s ; %s", kind, 1+k, fen.Initial, strings.Join(ms, " "))
		o.do(line)
		o.Count("newgames:" + kind)
		o.Nontrivial(line)
	}
	// an evaluation with LARGE values in the table (TUROCHAMP's: the material ratio in thousandths, around 1000 for level material;
	// the score may be arbitrary): the search the TUROCHAMP engine runs, over a table, position searched again and the game going
	// on - implementation vs model (no reference column for this configuration)
	tq := 3
	if thorough {
		tq = 40
	}
	for i := 0; i < tq; i++ {
		start, moves, b := noRepeatLine(r, 10)
		if b.Position().Piece(board.White, board.King) == 0 || b.Position().Piece(board.Black, board.King) == 0 {
			continue
		}
		items := []string{fmt.Sprintf("s:1:%s:0", fullWin), fmt.Sprintf("s:2:%s:0", fullWin), fmt.Sprintf("s:2:%s:0", fullWin), fmt.Sprintf("s:1:%s:0", fullWin)}
		if legal := b.Position().LegalMoves(b.Turn()); len(legal) > 0 {
			items = append(items, "m:"+moveUci(legal[r.Intn(len(legal))]), fmt.Sprintf("s:1:%s:0", fullWin), fmt.Sprintf("s:2:%s:0", fullWin))
		}
		line := fmt.Sprintf("search 0 turo-quiet~ %d 0 %s ; %s", []int{1 << 10, 1 << 14}[r.Intn(2)], start, strings.Join(append(append([]string{}, moves...), items...), " "))
		o.do(line)
		o.Count("cfg:turo-quiet+table")
		o.Nontrivial(line)
	}
	for i := 0; i < n; i++ {
		start, moves, b := noRepeatLine(r, 12)
		cfg := pickCfg(r, b)
		size := sizes[r.Intn(len(sizes))]
		minDepth := 0
		if r.Intn(3) == 0 {
			minDepth = 1
		}
		maxd := pickDepth(r, b, thorough, strings.HasSuffix(cfg, "quiet"))
		if maxd < 1 {
			maxd = 1
		}
		if maxd > 3 {
			maxd = 3 // a third occurrence needs 8 plies; keep the trees below that
		}
		var items []string
		// iterative deepening, repeated searches, and successive positions of a game sharing the table
		for d := 1; d <= maxd; d++ {
			items = append(items, fmt.Sprintf("s:%d:%s:0", d, fullWin))
		}
		items = append(items, fmt.Sprintf("s:%d:%s:0", maxd, fullWin))
		f := b.Fork()
		seen := map[string]bool{}
		for k := 0; k < 2; k++ {
			legal := f.Position().LegalMoves(f.Turn())
			if len(legal) == 0 {
				break
			}
			m := legal[r.Intn(len(legal))]
			if m.Type == board.Normal && seen[moveUci(m)] {
				continue
			}
			seen[moveUci(m)] = true
			f.PushMove(m)
			items = append(items, "m:"+moveUci(m))
			for d := 1; d <= maxd; d++ {
				items = append(items, fmt.Sprintf("s:%d:%s:0", d, fullWin))
			}
		}
		// take-backs: a position searched as a ROOT (possibly one the board calls drawn only when it is reached by a capture,
		// or a mate/stalemate) and then met again as a CHILD of its predecessor, one ply deeper, with the same table
		if r.Intn(2) == 0 {
			f2 := f.Fork()
			legal := f2.Position().LegalMoves(f2.Turn())
			if len(legal) > 0 {
				m, _ := biased(r)(legal)  // captures weighted
				for _, c := range legal { // prefer a capture into a bare position if there is one
					if c.IsCapture() && f2.Position().All().PopCount() <= 4 {
						m = c
						break
					}
				}
				items = append(items, "m:"+moveUci(m))
				for d := 1; d <= maxd; d++ {
					items = append(items, fmt.Sprintf("s:%d:%s:0", d, fullWin))
				}
				items = append(items, "pop")
				for d := 1; d <= maxd+1 && d <= 4; d++ {
					items = append(items, fmt.Sprintf("s:%d:%s:0", d, fullWin))
				}
				o.Count("tt:takeback")
			}
		}
		line := fmt.Sprintf("search %d %s %d %d %s ; %s", r.Intn(2), cfg, size, minDepth, start, strings.Join(append(moves, items...), " "))
		o.do(line)
		o.Count(fmt.Sprintf("tt-size:%d", size))
		o.Count("cfg:" + cfg)
		o.Nontrivial(line)
	}
}

func init() {
	register("c11deep", func(o *Out, r *rand.Rand, thorough bool) {
		n := 12
		if thorough {
			n = 400
		}
		ttSequenceOracle(o, r, n)
	})
}

func genC12(o *Out, r *rand.Rand, thorough bool) {
	n := 40
	if thorough {
		n = 150
	}
	o.do(ztableLine(0))
	// "can be halted at any moment": a Halt that arrives while the first iteration of the iterative harness is still running
	// waits for it and returns a completed depth-1 result (it must not wait for ever)
	for i := 0; i < 4; i++ {
		line := fmt.Sprintf("iterhalt %d %s", []int{1, 2, 3, 1 + r.Intn(30)}[i], corpus[r.Intn(len(corpus))])
		o.do(line)
		o.Count("iterhalt")
		o.Nontrivial(line)
	}
	// ... a caller that never reads the reports and asks by Halt only; and a search superseding a halted one from the same
	// position on an engine whose evaluator keeps per-search state (SARGON): what the halted one does while unwinding must not
	// reach its successor
	for _, l := range []string{"published unread 3 " + fen.Initial, "published unread 4 4k3/8/8/8/8/8/4P3/4K3 w - - 0 1", "published supersede sargon 25 2 e2e4 same"} {
		o.do(l)
		o.Count("halt:" + strings.Fields(l)[1])
		o.Nontrivial(l)
	}
	sizes := []int{0, 64, 1 << 12, 1 << 20}
	// roots at which a draw can be claimed (third occurrence, clock at 100): halting must hand the board
	// back with that result intact
	for _, h := range []struct {
		fen   string
		moves string
	}{
		{fen.Initial, "m:g1f3 m:g8f6 m:f3g1 m:f6g8 m:g1f3 m:g8f6 m:f3g1 m:f6g8"},
		{"4k3/8/8/8/8/8/4P3/R3K3 w - - 99 60", "m:a1a2"},
		{"6k1/8/8/8/8/8/3n4/R3K3 w - - 0 1", "m:a1a2 m:g8h8 m:a2a1 m:h8g8 m:a1a2 m:g8h8 m:a2a1 m:h8g8"},
	} {
		b := boardFromLine(h.fen, strings.Split(h.moves, " "))
		for _, d := range []int{1, 2} {
			ab, _ := searchCfg("full-static")
			ctx := newPollCtx(0)
			ab.Search(ctx, &search.Context{TT: search.NoTranspositionTable{}}, b.Fork(), d)
			ks := []int{1, 2, 3, 4, ctx.polls / 2, ctx.polls - 1, ctx.polls, ctx.polls + 1}
			for _, k := range ks {
				if k < 1 {
					continue
				}
				line := fmt.Sprintf("search 0 full-static 0 0 %s ; %s s:%d:%s:%d s:%d:%s:0", h.fen, h.moves, d, fullWin, k, d, fullWin)
				o.do(line)
				o.Count("cancel-points:drawn-root")
				o.Nontrivial(line)
			}
		}
	}
	// a halted (and a finished) search must leave the board fit for the rest of the game: the position it was run on comes back
	// for the third time later, inside the tree of a later search - the take-backs of the first search must not have upset
	// the repetition bookkeeping (a count that is only consulted when a position recurs)
	for _, h := range []struct{ fen, before, after string }{
		{fen.Initial, "m:g1f3 m:g8f6 m:f3g1 m:f6g8", "m:g1f3 m:g8f6 m:f3g1"},
		{fen.Initial, "m:e2e4 m:e7e5 m:g1f3 m:b8c6 m:f3g1 m:c6b8", "m:g1f3 m:b8c6 m:f3g1"},
		{"6k1/8/8/p7/P7/7P/8/6K1 w - - 0 1", "m:g1f2 m:g8f7 m:f2g1 m:f7g8", "m:g1f2 m:g8f7 m:f2g1"},
	} {
		b := boardFromLine(h.fen, strings.Split(h.before, " "))
		ab, _ := searchCfg("full-static")
		ctx := newPollCtx(0)
		ab.Search(ctx, &search.Context{TT: search.NoTranspositionTable{}}, b.Fork(), 2)
		for _, k := range []int{0, 2, ctx.polls / 2, ctx.polls - 1} {
			if k < 0 {
				continue
			}
			line := fmt.Sprintf("search 0 full-static 0 0 %s ; %s s:2:%s:%d %s s:2:%s:0 s:1:%s:0", h.fen, h.before, fullWin, k, h.after, fullWin, fullWin)
			o.do(line)
			o.Count("halt-then-repetition")
			o.Nontrivial(line)
		}
	}
	for i := 0; i < n; i++ {
		start, moves, b := noRepeatLine(r, 10)
		cfg := pickCfg(r, b)
		size := sizes[r.Intn(len(sizes))]
		d := pickDepth(r, b, thorough, strings.HasSuffix(cfg, "quiet"))
		if d < 1 {
			d = 1
		}
		if d > 3 {
			d = 3
		}
		// how many polls does the undisturbed search make?
		ab, _ := searchCfg(strings.TrimSuffix(cfg, "~"))
		ctx := newPollCtx(0)
		ab.Search(ctx, &search.Context{TT: search.NoTranspositionTable{}}, b.Fork(), d)
		total := ctx.polls
		points := []int{1, 2, 3, total - 1, total, total + 1}
		for k := 0; k < 10; k++ {
			points = append(points, 1+r.Intn(total+1))
		}
		if thorough && total < 250 {
			points = nil
			for k := 1; k <= total+1; k++ {
				points = append(points, k)
			}
		}
		for _, k := range points {
			if k < 1 {
				continue
			}
			// halt at poll k, then search again with the same table: must equal a search that never saw the halted one
			items := []string{fmt.Sprintf("s:%d:%s:%d", d, fullWin, k), fmt.Sprintf("s:%d:%s:0", d, fullWin)}
			if r.Intn(3) == 0 {
				items = append([]string{fmt.Sprintf("s:%d:%s:0", maxInt(1, d-1), fullWin)}, items...)
			}
			if d > 1 && r.Intn(2) == 0 {
				// ... or a SHALLOWER search follows the halted one (what the halted deeper search stored must not answer it)
				items[len(items)-1] = fmt.Sprintf("s:%d:%s:0", 1+r.Intn(d-1), fullWin)
				if r.Intn(2) == 0 {
					items = append(items, fmt.Sprintf("s:%d:%s:0", d, fullWin))
				}
				o.Count("cancel-then-shallower")
			}
			line := fmt.Sprintf("search 0 %s %d 0 %s ; %s", cfg, size, start, strings.Join(append(append([]string{}, moves...), items...), " "))
			o.do(line)
			o.Count("cancel-points")
			o.Nontrivial(line)
		}
		o.Count(fmt.Sprintf("tt-size:%d", size))
	}
	// the repository's reference search (minimax.go) is anchored in C12 as well: halted at every one of its polls (one per
	// node and one at the end), it must say so and hand the board back; implementation vs the model `minimaxSearch` (no reference
	// column: its value at a drawn root is 0 by design)
	mm := n / 6
	for i := 0; i < mm; i++ {
		start, moves, b := noRepeatLine(r, 8)
		d := 1 + r.Intn(2)
		if pieceCount(b) <= 6 {
			d = 2 + r.Intn(2)
		}
		ms, _ := searchCfg("minimax")
		ctx := newPollCtx(0)
		ms.Search(ctx, &search.Context{TT: search.NoTranspositionTable{}}, b.Fork(), d)
		total := ctx.polls
		if total > 60000 {
			continue
		}
		for _, k := range []int{0, 1, 2, total / 2, total - 1, total, total + 1, 1 + r.Intn(total+1)} {
			if k < 0 {
				continue
			}
			line := fmt.Sprintf("search 0 minimax~ 0 0 %s ; %s", start, strings.Join(append(append([]string{}, moves...), fmt.Sprintf("s:%d:%s:%d", d, fullWin, k), fmt.Sprintf("s:%d:%s:0", maxInt(1, d-1), fullWin)), " "))
			o.do(line)
			o.Count("minimax:cancel-points")
			o.Nontrivial(line)
		}
	}
}

func maxInt(a, b int) int {
	if a > b {
		return a
	}
	return b
}
