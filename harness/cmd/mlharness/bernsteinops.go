package main

import (
	"context"
	"fmt"
	"math/rand"
	"sort"
	"strconv"
	"strings"

	"github.com/herohde/morlock/cmd/bernstein/bernstein"
	"github.com/herohde/morlock/cmd/sargon/sargon"
	"github.com/herohde/morlock/pkg/search"
	"github.com/herohde/morlock/pkg/board"
	"github.com/herohde/morlock/pkg/board/fen"
	"github.com/herohde/morlock/pkg/eval"
)

// bernstein ops: the Bernstein engine's evaluation (eval.go), exchange test (exchange.go, pkg/eval/capture.go) and plausible
// move table (search.go) against Model.Bernstein, with every intermediate component.
//
//	bernstein <factor> <limit> <fen6> ; m:<uci> ...

func bernsteinSplit(a []string) (start string, moves []string) {
	i := 0
	for i < len(a) && a[i] != ";" {
		i++
	}
	start = strings.Join(a[:i], " ")
	if i < len(a) {
		for _, m := range a[i+1:] {
			if m != "" {
				moves = append(moves, m)
			}
		}
	}
	return start, moves
}

func fmtPlacements(l []board.Placement) string {
	var sb strings.Builder
	for _, pl := range l {
		sb.WriteString(strconv.Itoa(int(pl.Piece)))
		sb.WriteString(pl.Square.String())
	}
	return sb.String()
}

func fmtPlacementsSorted(l []board.Placement) string {
	var s []string
	for _, pl := range l {
		s = append(s, strconv.Itoa(int(pl.Piece))+pl.Square.String())
	}
	sort.Strings(s)
	return strings.Join(s, "")
}

func strsOrDash(l []string) string {
	if len(l) == 0 {
		return "-"
	}
	return strings.Join(l, ",")
}

func bit01(b bool) string {
	if b {
		return "1"
	}
	return "0"
}

func bernsteinBase(pos *board.Position, side board.Color) []board.Move {
	moves := board.FindMoves(pos.LegalMoves(side), board.Move.IsNotUnderPromotion)
	board.SortByPriority(moves, bernstein.TA1(side))
	board.SortByPriority(moves, bernstein.Table1)
	return moves
}

func init() {
	registerEval("bernstein", func(a []string) string {
		factor, err1 := strconv.Atoi(a[0])
		limit, err2 := strconv.Atoi(a[1])
		if err1 != nil || err2 != nil {
			return "bad-op"
		}
		start, moves := bernsteinSplit(a[2:])
		b := boardFromLine(start, moves)
		ctx := context.Background()
		pos, turn := b.Position(), b.Turn()
		opp := turn.Opponent()

		self := bernstein.Evaluate(pos, factor, turn)
		other := bernstein.Evaluate(pos, factor, opp)
		ev := bernstein.Eval{Factor: factor}.Evaluate(ctx, b)
		two := func(f func(c board.Color) int) string {
			return fmt.Sprintf("%d/%d", f(turn), f(opp))
		}

		base := bernsteinBase(pos, turn)
		var safe []string
		for _, m := range base {
			safe = append(safe, moveUci(m)+":"+bit01(bernstein.IsMoveSafe(pos, turn, m))+bit01(bernstein.IsSafe(pos, turn, m.Piece, m.From)))
		}
		sort.Strings(safe)
		uciList := func(l []board.Move) string {
			var s []string
			for _, m := range l {
				s = append(s, moveUci(m))
			}
			return strsOrDash(s)
		}
		plausible := bernstein.FindPlausibleMoves(b)
		table := plausible
		if limit > 0 && len(table) > limit {
			table = table[:limit]
		}
		prio, pick := bernstein.PlausibleMoveTable{Limit: limit}.Explore(ctx, b)
		legal := pos.LegalMoves(turn)
		var sel []string
		for _, m := range legal {
			if pick(m) {
				sel = append(sel, fmt.Sprintf("%s:%d", moveUci(m), prio(m)))
			}
		}

		// the properties of the real plausible list, judged with the harness' own legality computation
		// (every pseudo-legal move that Position.Move accepts), text-wise
		legalSet := map[string]bool{}
		castleLegal := false
		var nupLegal []string
		for _, m := range pos.PseudoLegalMoves(turn) {
			if _, ok := pos.Move(m); ok {
				legalSet[moveUci(m)] = true
				if m.Type == board.KingSideCastle || m.Type == board.QueenSideCastle {
					castleLegal = true
				}
				if u := moveUci(m); len(u) == 4 || u[4] == 'q' {
					nupLegal = append(nupLegal, u)
				}
			}
		}
		plOK := []bool{true, true, true, (len(plausible) == 0) == (len(legalSet) == 0), true}
		seen := map[string]bool{}
		var pn []string
		for _, m := range plausible {
			u := moveUci(m)
			pn = append(pn, u)
			if !legalSet[u] {
				plOK[0] = false
			}
			if len(u) == 5 && u[4] != 'q' {
				plOK[1] = false
			}
			if seen[u] {
				plOK[2] = false
			}
			seen[u] = true
		}
		if !castleLegal {
			a, c := append([]string{}, pn...), append([]string{}, nupLegal...)
			sort.Strings(a)
			sort.Strings(c)
			plOK[4] = strings.Join(a, ",") == strings.Join(c, ",")
		}
		// the table the search gets: recomputed from the Explore predicate, not from our own truncation
		tblOK := []bool{true, limit <= 0 || len(sel) <= limit, (len(sel) == 0) == (len(plausible) == 0), limit > 0 || len(sel) == len(plausible)}
		picked := map[string]bool{}
		for _, m := range legal {
			if pick(m) {
				picked[moveUci(m)] = true
			}
		}
		for i, m := range plausible { // picked moves = a prefix of the plausible list
			if picked[moveUci(m)] != (i < len(picked)) {
				tblOK[0] = false
			}
		}
		selOK := []bool{true, true}
		for _, m := range legal {
			in := false
			for _, t := range table {
				if t == m {
					in = true
				}
			}
			if pick(m) != in {
				selOK[0] = false
			}
		}
		for i, m := range table {
			if int(prio(m)) != len(table)-i {
				selOK[1] = false
			}
		}
		flags := func(l []bool) string {
			s := ""
			for _, b := range l {
				s += bit01(b)
			}
			return s
		}

		var caps, atts []string
		capOK := true
		for sq := board.ZeroSquare; sq < board.NumSquares; sq++ {
			for _, c := range []board.Color{board.White, board.Black} {
				raw := eval.FindCapture(pos, c, sq)
				before := fmtPlacementsSorted(raw)
				srt := eval.SortByNominalValue(append([]board.Placement{}, raw...))
				for i := 1; i < len(srt); i++ {
					if eval.NominalValue(srt[i-1].Piece) > eval.NominalValue(srt[i].Piece) {
						capOK = false
					}
				}
				if fmtPlacementsSorted(srt) != before {
					capOK = false
				}
			}
			if pos.IsEmpty(sq) {
				continue
			}
			one := func(c board.Color) string {
				raw := eval.FindCapture(pos, c, sq)
				s := fmtPlacements(raw)
				return s + ">" + fmtPlacements(eval.SortByNominalValue(raw))
			}
			caps = append(caps, sq.String()+":"+one(board.White)+"/"+one(board.Black))
			bySq := func(c board.Color) string {
				raw := eval.FindCapture(pos, c, sq)
				sort.SliceStable(raw, func(i, j int) bool { return raw[i].Square < raw[j].Square })
				return fmtPlacements(raw)
			}
			atts = append(atts, sq.String()+":"+bySq(board.White)+"/"+bySq(board.Black))
		}

		return fmt.Sprintf("self=%d opp=%d eval=%s mobT=%d mobO=%d ctl=%s def=%s mat=%s chk=%s base=%s safe=%s plausible=%s table=%s sel=%s pl-ok=%s tbl-ok=%s sel-ok=%s cap=%s cap-ok=%s att=%s",
			self, other, fmt32(float32(ev)),
			bernstein.Mobility(pos, turn), bernstein.Mobility(pos, opp),
			two(func(c board.Color) int { return bernstein.Control(pos, c) }),
			two(func(c board.Color) int { return bernstein.KingDefense(pos, c) }),
			two(func(c board.Color) int { return bernstein.Material(pos, c) }),
			bit01(pos.IsChecked(turn)), uciList(base), strsOrDash(safe), uciList(plausible), uciList(table), strsOrDash(sel),
			flags(plOK), flags(tblOK), flags(selOK), strsOrDash(caps), bit01(capOK), strsOrDash(atts))
	})
	registerEval("explore2", func(a []string) string {
		// explore2 <kind> <fenA> ; <fenB>: the move filters of the engines (BERNSTEIN's plausible-move table, SARGON's and
		// TUROCHAMP's explorations) are functions of the board they were asked about: a filter obtained for board A still answers
		// for A after a filter for another board was obtained (no state shared between the two), and equals a filter asked afresh
		kind := a[0]
		i := 1
		for i < len(a) && a[i] != ";" {
			i++
		}
		fa, fb := strings.Join(a[1:i], " "), ""
		if i < len(a) {
			fb = strings.Join(a[i+1:], " ")
		}
		ba, bb := boardFromLine(fa, nil), boardFromLine(fb, nil)
		if ba == nil || bb == nil {
			return "err"
		}
		ctx := context.Background()
		var ex search.Exploration
		switch kind {
		case "bernstein":
			ex = bernstein.PlausibleMoveTable{Limit: 7}.Explore
		case "bernstein3":
			ex = bernstein.PlausibleMoveTable{Limit: 3}.Explore
		case "sargon":
			ex = sargon.SkipUnderPromotions
		default:
			return "bad-op"
		}
		sel := func(b *board.Board, pick board.MovePredicateFn) string {
			var out []string
			for _, m := range b.Position().LegalMoves(b.Turn()) {
				if pick(m) {
					out = append(out, moveUci(m))
				}
			}
			sort.Strings(out)
			return strings.Join(out, ",")
		}
		_, pickA := ex(ctx, ba)
		first := sel(ba, pickA)
		_, pickB := ex(ctx, bb)
		selB := sel(bb, pickB)
		again := sel(ba, pickA) // the filter obtained BEFORE the other board was looked at
		_, pickA2 := ex(ctx, ba)
		fresh := sel(ba, pickA2)
		_, pickB2 := ex(ctx, bb)
		if first != again || first != fresh {
			return fmt.Sprintf("MISMATCH the filter for %s selects [%s] when asked at once, [%s] after another board was looked at, [%s] when asked afresh", strings.ReplaceAll(fa, " ", "_"), first, again, fresh)
		}
		if selB != sel(bb, pickB2) || selB != sel(bb, pickB) {
			return "MISMATCH the filter of the second board changed"
		}
		if len(ba.Position().LegalMoves(ba.Turn())) > 0 && first == "" {
			return "MISMATCH no move selected although a legal move exists"
		}
		return "ok"
	})
	register("bernstein", genBernstein)
}

// curated edge cases: bare kings, squeezes, one side with only a king, promotions, en passant, castling just made or possible,
// many queens, checks with capture/block/flee choices, pawn chains, open files.
var bernsteinCurated = []string{
	"4k3/8/8/8/8/8/8/4K3 w - - 0 1 ;",
	"4k3/8/8/8/8/8/8/4K3 b - - 0 1 ;",
	"k7/2Q5/8/8/8/8/8/K7 b - - 0 1 ;",
	"7k/5Q2/6K1/8/8/8/8/8 b - - 0 1 ;",
	"8/8/8/8/8/1k6/p7/K7 w - - 0 1 ;",
	"k7/8/1K6/8/8/8/8/7Q b - - 0 1 ;",
	"K7/2q5/8/8/8/8/8/k7 b - - 0 1 ;",
	"1r4k1/8/3p4/8/4P3/8/7r/K7 w - - 0 1 ;",
	"rnbqkbnr/pppppppp/8/8/8/8/PPPPPPPP/RNBQKBNR w KQkq - 0 1 ;",
	"rnbqkbnr/pppppppp/8/8/8/8/PPPPPPPP/RNBQKBNR w KQkq - 0 1 ; m:e2e4",
	"rnbqkbnr/pppppppp/8/8/8/8/PPPPPPPP/RNBQKBNR w KQkq - 0 1 ; m:e2e4 m:e7e5 m:g1f3 m:b8c6 m:f1c4 m:f8c5",
	"rnbqkbnr/pppppppp/8/8/8/8/PPPPPPPP/RNBQKBNR w KQkq - 0 1 ; m:e2e4 m:e7e5 m:g1f3 m:b8c6 m:f1c4 m:f8c5 m:e1g1",
	"rnbqkbnr/pppppppp/8/8/8/8/PPPPPPPP/RNBQKBNR w KQkq - 0 1 ; m:e2e4 m:e7e5 m:g1f3 m:b8c6 m:f1c4 m:f8c5 m:e1g1 m:g8f6",
	"r3k2r/pppq1ppp/2npbn2/2b1p3/2B1P3/2NPBN2/PPPQ1PPP/R3K2R w KQkq - 0 1 ;",
	"r3k2r/pppq1ppp/2npbn2/2b1p3/2B1P3/2NPBN2/PPPQ1PPP/R3K2R b KQkq - 0 1 ;",
	"r3k2r/pppq1ppp/2npbn2/2b1p3/2B1P3/2NPBN2/PPPQ1PPP/R3K2R w KQkq - 0 1 ; m:e1c1",
	"r3k2r/pppq1ppp/2npbn2/2b1p3/2B1P3/2NPBN2/PPPQ1PPP/R3K2R w KQkq - 0 1 ; m:e1c1 m:e8g8",
	"r3k2r/8/8/8/8/8/8/R3K2R w KQkq - 0 1 ;",
	"r3k2r/8/8/8/8/8/8/R3K2R b KQkq - 0 1 ;",
	"4k3/P7/8/8/8/8/8/4K3 w - - 0 1 ;",
	"1n2k3/P7/8/8/8/8/8/4K3 w - - 0 1 ;",
	"4k3/8/8/8/8/8/p7/1N2K3 b - - 0 1 ;",
	"4k3/8/8/8/3p4/8/4P3/4K3 w - - 0 1 ; m:e2e4",
	"4k3/3p4/8/4P3/8/8/8/4K3 b - - 0 1 ; m:d7d5",
	"4k3/3p4/8/4P3/8/8/8/3RK3 b - - 0 1 ; m:d7d5",
	"QQQQ1k2/QQQQ4/8/8/8/8/8/4K3 w - - 0 1 ;",
	"QQQQ1k2/QQQQ4/8/8/8/8/8/4K3 b - - 0 1 ;",
	"qqqqqqq1/qqqqqqq1/8/8/8/8/7k/K7 b - - 0 1 ;",
	"qqqqqqq1/qqqqqqq1/qqqq4/8/8/8/4k3/K7 w - - 0 1 ;",
	"QQQQQQQ1/QQQQQQQ1/QQQQ4/8/8/8/4K3/k7 w - - 0 1 ;",
	"4k3/8/8/8/8/8/4r3/4K3 w - - 0 1 ;",
	"4k3/8/8/8/7b/8/3N4/R3K2R w KQ - 0 1 ;",
	"4k3/4r3/8/8/8/8/3N1B2/R3K2R w KQ - 0 1 ;",
	"6k1/5ppp/8/8/8/8/5PPP/R5K1 w - - 0 1 ; m:a1a8",
	"k7/8/8/8/8/8/PPPPPPPP/K7 w - - 0 1 ;",
	"k7/pppppppp/8/8/8/8/8/K7 b - - 0 1 ;",
	"k7/8/8/8/2P5/1P1P4/P3P3/K7 w - - 0 1 ;",
	"k7/p3p3/1p1p4/2p5/8/8/8/K7 b - - 0 1 ;",
	"k2r4/8/8/8/8/8/PPP1PPPP/KR1Q4 w - - 0 1 ;",
	"7k/8/8/3q4/4P3/8/8/K7 w - - 0 1 ;",
	"7k/8/8/3p4/4Q3/8/8/K7 w - - 0 1 ;",
	"7k/8/2p5/3p4/4Q3/8/8/K7 w - - 0 1 ;",
	"7k/8/2p5/3n4/4B3/8/8/K7 w - - 0 1 ;",
	"8/8/8/8/8/5k2/5p2/5K2 w - - 0 1 ;",
	"5k2/5P2/5K2/8/8/8/8/8 b - - 0 1 ;",
	"8/8/8/8/8/8/8/K1k5 w - - 0 1 ;",
	// the opponent's mobility counts phantom en-passant captures while the en-passant target is set (see Props/C20Bernstein)
	"4k3/4p3/8/3p4/8/8/8/4K3 w - d6 0 1 ;",
	"4k3/4p3/8/3p4/8/8/8/4K3 w - - 0 1 ;",
	"4k3/3p4/8/8/8/8/8/4K3 b - - 0 1 ; m:d7d5",
	"rnbqkbnr/pppppppp/8/8/8/8/PPPPPPPP/RNBQKBNR w KQkq - 0 1 ; m:e2e4 m:d7d5",
	// IsMoveSafe judges a promoted queen as a pawn (obs_isMoveSafe_promotion_judged_as_pawn)
	"8/P7/1n6/7k/8/8/8/R3K3 w - - 0 1 ;",
	"rnbqkbnr/pppppppp/8/8/8/8/PPPPPPPP/RNBQKBNR b KQkq - 0 1 ;",
	// a side without a king: KingDefense indexes king[64] and panics
	"8/8/8/8/8/8/8/K7 w - - 0 1 ;",
	"k7/8/8/8/8/8/8/8 w - - 0 1 ;",
}

func genBernstein(o *Out, r *rand.Rand, thorough bool) {
	n := 620
	if thorough {
		n = 13000
	}
	// a filter is a function of the board it was asked about, whatever other boards were looked at since
	e2 := 12
	if thorough {
		e2 = 300
	}
	for i := 0; i < e2; i++ {
		fa := corpus[r.Intn(len(corpus))]
		fb := corpus[r.Intn(len(corpus))]
		if i%3 == 0 {
			fb = mirrorFEN(fa) // the colour-mirrored twin: same ply, same shape
		}
		if i%3 == 1 {
			fa = fen.Initial
		}
		line := fmt.Sprintf("published explore2 %s %s ; %s", []string{"bernstein", "bernstein3", "sargon"}[r.Intn(3)], fa, fb)
		o.do(line)
		o.Count("explore2")
		o.Nontrivial(line)
	}
	factors := []int{1, 8, 20, 0, 100, 3, 10000, 7}
	limits := []int{7, 1, 3, 0, 50, -1, 2, 5}
	feats := func(line string, b *board.Board, limit int) {
		pos, turn := b.Position(), b.Turn()
		o.countFeatures(classify(pos, turn))
		legal := pos.LegalMoves(turn)
		plaus := bernstein.FindPlausibleMoves(b)
		castle, promo, unsafe := false, false, false
		for _, m := range legal {
			if m.IsCastle() {
				castle = true
			}
			if m.IsPromotion() {
				promo = true
			}
			if !bernstein.IsMoveSafe(pos, turn, m) {
				unsafe = true
			}
		}
		if castle && !pos.IsChecked(turn) {
			o.Count("bernstein:castle-branch")
			if len(plaus) < len(legal) {
				o.Count("bernstein:castle-branch-prunes")
			}
		}
		if promo {
			o.Count("bernstein:promotion-available")
		}
		if unsafe {
			o.Count("bernstein:some-unsafe-move")
		}
		if limit > 0 && len(plaus) > limit {
			o.Count("bernstein:truncated")
		}
		if len(b.Position().All().ToSquares()) <= 3 {
			o.Count("bernstein:three-men-or-fewer")
		}
		if pos.Color(turn).PopCount() == 1 || pos.Color(turn.Opponent()).PopCount() == 1 {
			o.Count("bernstein:lone-king")
		}
		if m, ok := b.LastMove(); ok {
			switch {
			case m.IsCastle():
				o.Count("bernstein:after-castling")
			case m.Type == board.Jump:
				o.Count("bernstein:after-jump")
			case m.IsPromotion():
				o.Count("bernstein:after-promotion")
			}
		}
		s, p := bernstein.Evaluate(pos, 8, turn), bernstein.Evaluate(pos, 8, turn.Opponent())
		switch {
		case s == p:
			o.Count("bernstein:eval-equal")
		case s > p:
			o.Count("bernstein:eval-ahead")
		default:
			o.Count("bernstein:eval-behind")
		}
		if s == 1 || p == 1 {
			o.Count("bernstein:score-clamped-to-1")
		}
		o.Nontrivial(line)
	}
	for i, c := range bernsteinCurated {
		factor, limit := factors[i%len(factors)], limits[(i/2)%len(limits)]
		line := fmt.Sprintf("bernstein %d %d %s", factor, limit, c)
		o.do(line)
		start, moves := bernsteinSplit(strings.Split(c, " "))
		if cb := boardFromLine(start, moves); cb.Position().Piece(board.White, board.King) != 0 && cb.Position().Piece(board.Black, board.King) != 0 {
			feats(line, cb, limit)
		} else {
			o.Count("bernstein:no-king-panic")
		}
		o.Count("bernstein:curated")
	}
	for i := 0; i < n; i++ {
		start, moves, b := randomLine(r, 24)
		switch r.Intn(6) {
		case 0: // squeezed positions: few men
			for k := 0; k < 50; k++ {
				if f, ok := synthetic(r); ok {
					bb := boardFromLine(f, nil)
					if pieceCount(bb) <= 6 {
						start, moves, b = f, nil, bb
						break
					}
				}
			}
		case 1, 2, 3: // from the initial position: development, castling, pawn-centre preferences
			start = "rnbqkbnr/pppppppp/8/8/8/8/PPPPPPPP/RNBQKBNR w KQkq - 0 1"
			moves = nil
			b = boardFromLine(start, nil)
			for k, plies := 0, r.Intn(60); k < plies; k++ {
				legal := b.Position().LegalMoves(b.Turn())
				if len(legal) == 0 {
					break
				}
				m := legal[r.Intn(len(legal))]
				if r.Intn(3) == 0 {
					m, _ = biased(r)(legal)
				}
				if !b.PushMove(m) {
					break
				}
				moves = append(moves, "m:"+moveUci(m))
			}
		}
		factor := factors[r.Intn(len(factors))]
		if r.Intn(10) == 0 {
			factor = r.Intn(10001)
		}
		limit := limits[r.Intn(len(limits))]
		line := fmt.Sprintf("bernstein %d %d %s ; %s", factor, limit, start, strings.Join(moves, " "))
		o.do(line)
		feats(line, b, limit)
	}
}
