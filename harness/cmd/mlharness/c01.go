package main

import (
	"fmt"
	"math/rand"
	"strings"

	"github.com/herohde/morlock/pkg/board"
)

// published perft counts (Chess Programming Wiki)
var perftTable = []struct {
	fen    string
	counts []uint64 // depth 1..
}{
	{corpus[0], []uint64{20, 400, 8902, 197281, 4865609}},
	{corpus[1], []uint64{48, 2039, 97862, 4085603}},
	{corpus[2], []uint64{14, 191, 2812, 43238, 674624}},
	{corpus[3], []uint64{6, 264, 9467, 422333}},
	{corpus[5], []uint64{44, 1486, 62379, 2103487}},
	{corpus[6], []uint64{46, 2079, 89890, 3894594}},
}

func init() {
	register("c01", func(o *Out, r *rand.Rand, thorough bool) {
		playouts, synth := 120, 400
		if thorough {
			playouts, synth = 6000, 20000
		}
		walk(r, playouts, 120, synth, func(f string, p *board.Position, turn board.Color) {
			feat := classify(p, turn)
			o.countFeatures(feat)
			if feat.nontrivial() {
				o.Nontrivial(strings.Join(strings.Split(f, " ")[:4], " "))
			}
			o.do("chess gen " + f)
			o.do("chess legal " + f)
		})
		// move generation rests on the slider lookups: in a fresh process, whichever piece is asked first (queen before any
		// bishop; rook first) gets the right squares - see `rawline`
		rawBase := 2 * r.Int63n(1<<40)
		for i := 0; i < 2; i++ {
			line := fmt.Sprintf("published rawline %d 600", rawBase+int64(i))
			o.do(line)
			o.Count("fresh-process-slider-lookups")
			o.Nontrivial(line)
		}
		// perft: implementation vs model vs reference semantics vs the published counts
		for _, t := range perftTable {
			maxd := 2
			if thorough {
				maxd = 3
			}
			for d := 1; d <= maxd && d <= len(t.counts); d++ {
				res := o.do(fmt.Sprintf("chess perft %s %d", t.fen, d))
				o.Count("perft")
				ok := "ok"
				if res != fmt.Sprint(t.counts[d-1]) {
					ok = fmt.Sprintf("MISMATCH impl=%s published=%d", res, t.counts[d-1])
				}
				o.Emit(fmt.Sprintf("published perft %d %s", d, t.fen), ok)
			}
		}
		// deep perft on the implementation alone against the published counts
		for _, t := range perftTable {
			d := 3
			if thorough {
				d = len(t.counts)
			}
			p, turn, _, _, _ := decode(t.fen)
			got := perft(p, turn, d)
			o.Count("perft-deep")
			ok := "ok"
			if got != t.counts[d-1] {
				ok = fmt.Sprintf("MISMATCH impl=%d published=%d", got, t.counts[d-1])
			}
			o.Emit(fmt.Sprintf("published perft-deep %d %s", d, t.fen), ok)
		}
	})
}
