package main

import (
	"context"
	"fmt"
	"math/rand"
	"sort"
	"strconv"
	"strings"

	"github.com/herohde/morlock/cmd/sargon/sargon"
	"github.com/herohde/morlock/pkg/board"
	"github.com/herohde/morlock/pkg/board/fen"
	"github.com/herohde/morlock/pkg/eval"
	"github.com/herohde/morlock/pkg/search"
)

// sargon ops: the SARGON evaluation (cmd/sargon/sargon) against Model.Sargon, component by component.
//
//	sargon <fen6> ; m:<uci> ... ; root=<k> [q=<alpha>/<beta>/<cancelAt>]
//
// Points.Reset runs on the board after the first k moves, Points.Evaluate after all of them.

// sargonFindSide is a copy of the unexported sargon.findSide (exchange.go), used only to REPORT the order in
// which the real sort.Slice leaves the attackers; the exchange values themselves come from sargon.Exchange.
func sargonFindSide(attackers []*sargon.Attacker, turn board.Color, stable bool) []*sargon.Attacker {
	sortFn := sort.Slice
	if stable {
		sortFn = sort.SliceStable
	}
	val := func(att *sargon.Attacker) eval.Pawns { return eval.NominalValue(att.Piece.Piece) }
	byValue := func(list []*sargon.Attacker) func(i, j int) bool {
		return func(i, j int) bool { return val(list[i]) < val(list[j]) }
	}
	var ret []*sargon.Attacker
	for _, att := range attackers {
		if att.Piece.Color == turn {
			ret = append(ret, att)
		}
	}
	sortFn(ret, byValue(ret))
	for i := 0; i < len(ret); i++ {
		att := ret[i]
		if att.Behind == nil {
			continue
		}
		ret = append(ret, att.Behind)
		sortFn(ret[i+1:], byValue(ret[i+1:]))
	}
	return ret
}

func sargonStackKey(a *sargon.Attacker) string {
	var parts []string
	for ; a != nil; a = a.Behind {
		parts = append(parts, fmt.Sprintf("%d@%d", int(a.Piece.Piece), int(a.Piece.Square)))
	}
	return strings.Join(parts, "+")
}

type sargonInfo struct {
	line                                      string
	pins, multiPins, stacks, deepStacks       int
	maxDirect, maxSide                        int
	ptschk, check, exchNonzero, tieWithBehind bool
	unstable                                  string
	fullMoves                                 int
	intended                                  eval.Pawns // the value if the negated local brdc0 of Points.Evaluate were used
	points                                    eval.Pawns
}

func sargonEval(a []string) sargonInfo {
	var info sargonInfo
	i := 0
	for i < len(a) && a[i] != ";" {
		i++
	}
	start := strings.Join(a[:i], " ")
	var moves []string
	j := i + 1
	for ; j < len(a) && a[j] != ";"; j++ {
		if strings.HasPrefix(a[j], "m:") {
			moves = append(moves, a[j][2:])
		}
	}
	root := 0
	q := ""
	keys := true
	doReset, doForget := true, false
	for j++; j < len(a); j++ {
		switch {
		case strings.HasPrefix(a[j], "root="):
			root, _ = strconv.Atoi(a[j][5:])
		case strings.HasPrefix(a[j], "q="):
			q = a[j][2:]
		case a[j] == "keys=0":
			keys = false
		case a[j] == "reset=0":
			doReset = false
		case a[j] == "forget=1":
			doForget = true
		}
	}
	p, turn0, np, fm, err := fen.Decode(start)
	if err != nil {
		info.line = "err"
		return info
	}
	b := board.NewBoard(zobrist(0), p, turn0, np, fm)
	push := func(ms []string) bool {
		for _, mv := range ms {
			done := false
			for _, m := range b.Position().PseudoLegalMoves(b.Turn()) {
				if moveUci(m) == mv {
					done = b.PushMove(m)
					break
				}
			}
			if !done {
				return false
			}
		}
		return true
	}
	if root > len(moves) {
		root = len(moves)
	}
	if !push(moves[:root]) {
		info.line = "badmove"
		return info
	}
	ctx := context.Background()
	pts := &sargon.Points{}
	brdc0 := sargon.BoardControl(ctx, b, sargon.FindKingQueenPins(b.Position()))
	side0 := b.Turn()
	if doReset {
		pts.Reset(ctx, b)
		// another board searched with the same Points must not disturb this one (the reference values are kept per board)
		other := b.Fork()
		if ms := other.Position().LegalMoves(other.Turn()); len(ms) > 0 {
			other.PushMove(ms[0])
		}
		pts.Reset(ctx, other)
		defer pts.Forget(other)
	}
	if doForget {
		pts.Forget(b)
	}
	if !doReset || doForget {
		brdc0, side0 = 0, board.White // the zero values
	}
	if !push(moves[root:]) {
		info.line = "badmove"
		return info
	}
	pos, turn := b.Position(), b.Turn()
	pins := sargon.FindKingQueenPins(pos)
	points := pts.Evaluate(ctx, b)
	// the evaluation is a pure function of the board and the captured reference values: asked again (same evaluator, same
	// board) it must answer again, and the same
	if again := pts.Evaluate(ctx, b); again != points {
		info.line = fmt.Sprintf("UNSTABLE first=%v again=%v", points, again)
		return info
	}
	info.points = points
	mtrl, ptschk := sargon.Material(ctx, b, pins)
	info.ptschk = ptschk
	info.fullMoves = b.FullMoves()
	{
		// Points.Evaluate computes `brdc0 = -brdc0` when the side to move is not the side of the root, then uses p.brdc0
		brdc := sargon.BoardControl(ctx, b, pins)
		b0 := brdc0
		if turn != side0 {
			b0 = -b0
		}
		info.intended = mtrl*4 + eval.Limit(brdc-b0, 6) + brdc/100
		if ptschk {
			info.intended = mtrl*4 + brdc/100
		}
	}
	info.check = pos.IsChecked(turn)
	out := []string{
		fmt.Sprintf("points=%s mtrl2=%d ptschk=%v brdc=%d", fmt32(float32(points)), int(mtrl*2), ptschk, int(sargon.BoardControl(ctx, b, pins))),
		fmt.Sprintf("mob=%d", int(sargon.Mobility(ctx, b, pins))),
		fmt.Sprintf("dev=%d", int(sargon.Development(ctx, b))),
		fmt.Sprintf("brdc0=%d", int(brdc0)),
	}
	// pins
	type pr struct{ a, b int }
	var prs []pr
	for k, l := range pins {
		info.pins++
		if len(l) > 1 {
			info.multiPins++
		}
		for _, att := range l {
			prs = append(prs, pr{int(k), int(att)})
		}
	}
	sort.Slice(prs, func(i, j int) bool { return prs[i].a < prs[j].a || (prs[i].a == prs[j].a && prs[i].b < prs[j].b) })
	ps := "-"
	if len(prs) > 0 {
		var l []string
		for _, e := range prs {
			l = append(l, fmt.Sprintf("%d>%d", e.a, e.b))
		}
		ps = strings.Join(l, ",")
	}
	out = append(out, "pins="+ps)
	// eval.FindPins for the four (side, piece) pairs: sorted attacker/pinned/target
	{
		var groups []string
		for _, g := range []struct {
			n string
			c board.Color
			k board.Piece
		}{{"wK", board.White, board.King}, {"wQ", board.White, board.Queen}, {"bK", board.Black, board.King}, {"bQ", board.Black, board.Queen}} {
			fp := eval.FindPins(pos, g.c, g.k)
			sort.Slice(fp, func(i, j int) bool {
				a, b := fp[i], fp[j]
				if a.Attacker != b.Attacker {
					return a.Attacker < b.Attacker
				}
				if a.Pinned != b.Pinned {
					return a.Pinned < b.Pinned
				}
				return a.Target < b.Target
			})
			t := "-"
			if len(fp) > 0 {
				var l []string
				for _, e := range fp {
					l = append(l, fmt.Sprintf("%d/%d/%d", int(e.Attacker), int(e.Pinned), int(e.Target)))
				}
				t = strings.Join(l, ",")
			}
			groups = append(groups, g.n+":"+t)
		}
		out = append(out, "fp="+strings.Join(groups, ";"))
	}
	// the squares heading the stacks of FindAttackers, sorted
	{
		var dirs []string
		for sq := board.ZeroSquare; sq < board.NumSquares; sq++ {
			one := func(c board.Color) string {
				l := sargon.FindAttackers(pos, pins, sq, c)
				if len(l) == 0 {
					return "-"
				}
				var sqs []int
				for _, a := range l {
					sqs = append(sqs, int(a.Piece.Square))
				}
				sort.Ints(sqs)
				var ks []string
				for _, x := range sqs {
					ks = append(ks, strconv.Itoa(x))
				}
				return strings.Join(ks, ".")
			}
			w, bl := one(board.White), one(board.Black)
			if w == "-" && bl == "-" {
				continue
			}
			dirs = append(dirs, fmt.Sprintf("%d:%s/%s", int(sq), w, bl))
		}
		out = append(out, "dir="+strings.Join(dirs, ","))
	}
	// attackers of every square
	var atts []string
	for sq := board.ZeroSquare; sq < board.NumSquares; sq++ {
		one := func(c board.Color) string {
			l := sargon.FindAttackers(pos, pins, sq, c)
			if len(l) > info.maxDirect {
				info.maxDirect = len(l)
			}
			if len(l) == 0 {
				return "-"
			}
			var ks []string
			for _, a := range l {
				ks = append(ks, sargonStackKey(a))
				if a.Behind != nil {
					info.stacks++
					if a.Behind.Behind != nil {
						info.deepStacks++
					}
				}
			}
			return strings.Join(ks, ".")
		}
		w, bl := one(board.White), one(board.Black)
		if w == "-" && bl == "-" {
			continue
		}
		atts = append(atts, fmt.Sprintf("%d:%s/%s", int(sq), w, bl))
	}
	out = append(out, "att="+strings.Join(atts, ","))
	// exchange value of every occupied square
	var exs []string
	for _, sq := range pos.All().ToSquares() {
		v := int(sargon.Exchange(pos, pins, turn.Opponent(), sq))
		if v != 0 {
			info.exchNonzero = true
		}
		cur, piece, ok := pos.Square(sq)
		switch {
		case !ok:
			exs = append(exs, fmt.Sprintf("%d:%d:empty", int(sq), v))
		case piece == board.King:
			exs = append(exs, fmt.Sprintf("%d:%d:K", int(sq), v))
		default:
			fs := func(c board.Color) string {
				direct := sargon.FindAttackers(pos, pins, sq, c)
				// a tie in value between two direct attackers of which one has somebody behind: the only place where
				// the order left by an unstable sort could matter
				for x := range direct {
					for y := range direct {
						if x != y && direct[x].Behind != nil && eval.NominalValue(direct[x].Piece.Piece) == eval.NominalValue(direct[y].Piece.Piece) {
							info.tieWithBehind = true
						}
					}
				}
				l := sargonFindSide(direct, c, false)
				if len(l) > info.maxSide {
					info.maxSide = len(l)
				}
				for i, x := range sargonFindSide(direct, c, true) {
					if x != l[i] && info.unstable == "" {
						info.unstable = fmt.Sprintf("square %d, %d direct attackers", int(sq), len(direct))
					}
				}
				if len(l) == 0 {
					return "-"
				}
				var ks []string
				for _, a := range l {
					ks = append(ks, fmt.Sprintf("%d@%d", int(a.Piece.Piece), int(a.Piece.Square)))
				}
				return strings.Join(ks, ".")
			}
			d, a := fs(cur), fs(cur.Opponent())
			if keys {
				exs = append(exs, fmt.Sprintf("%d:%d:%s:%s", int(sq), v, d, a))
			} else {
				exs = append(exs, fmt.Sprintf("%d:%d", int(sq), v))
			}
		}
	}
	out = append(out, "exch="+strings.Join(exs, ","))
	line := strings.Join(out, " ")
	if q != "" {
		f := strings.Split(q, "/")
		if len(f) != 3 {
			line += " q=bad"
		} else {
			cancelAt, _ := strconv.Atoi(f[2])
			pctx := newPollCtx(cancelAt)
			sctx := &search.Context{Alpha: parseScore(f[0]), Beta: parseScore(f[1]), TT: search.NoTranspositionTable{}}
			nodes, score := sargon.OnePlyIfChecked{Leaf: search.Leaf{Eval: pts}}.QuietSearch(pctx, sctx, b)
			line += fmt.Sprintf(" q=%d/%s", nodes, fmtScore(score))
		}
	}
	info.line = line
	return info
}

func startFullMoves(f string) int {
	p := strings.Split(f, " ")
	n, _ := strconv.Atoi(p[len(p)-1])
	return n
}

// sargonCurated: edge cases of the heuristics. Each entry: start FEN, moves, root.
var sargonCurated = []struct {
	fen   string
	moves string
	root  int
}{
	{"8/8/8/4k3/8/8/8/K7 w - - 0 1", "", 0},                                                  // bare kings
	{"7k/5Q2/6K1/8/8/8/8/8 b - - 0 1", "", 0},                                                // stalemate
	{"k7/2Q5/8/8/8/8/8/K7 w - - 0 1", "", 0},                                                 // squeeze
	{"8/8/8/8/8/1k6/p7/K7 w - - 0 1", "", 0},                                                 // stalemate-like
	{"k7/8/8/8/8/8/PPPPPPPP/RNBQKBNR w KQ - 0 1", "", 0},                                     // one side only a king
	{"rnbqkbnr/pppppppp/8/8/8/8/8/4K3 b kq - 0 1", "", 0},                                    // the other
	{"8/P5k1/8/8/8/8/7p/4K3 w - - 0 1", "m:a7a8q m:h2h1n", 1},                                // promotions in the history
	{"8/P5k1/8/8/8/8/7p/4K3 w - - 0 1", "m:a7a8r m:h2h1q m:e1d2", 0},                         //
	{"rnbqkbnr/ppp1pppp/8/8/3pP3/8/PPPP1PPP/RNBQKBNR b KQkq e3 0 3", "m:d4e3", 0},            // en passant just made
	{"rnbqkbnr/ppp1pppp/8/8/3p4/8/PPPPPPPP/RNBQKBNR w KQkq - 0 3", "m:e2e4 m:d4e3", 1},       // en passant available then taken
	{"r3k2r/pppqbppp/2npbn2/4p3/4P3/2NPBN2/PPPQBPPP/R3K2R w KQkq - 4 8", "m:e1g1 m:e8c8", 0}, // castling just made, both
	{"r3k2r/pppqbppp/2npbn2/4p3/4P3/2NPBN2/PPPQBPPP/R3K2R w KQkq - 4 8", "m:e1c1 m:e8g8 m:c1b1", 1},
	{"r3k2r/pppq1ppp/2npbn2/2b1p3/2B1P3/2NPBN2/PPPQ1PPP/R3K2R w KQkq - 4 3", "m:e1e2 m:e8e7 m:a1d1 m:h8e8", 2}, // kings moved, early rooks
	{"QQQQ3k/QQQQ4/8/8/8/8/5qqq/K4qqq w - - 0 1", "", 0},                                                       // many queens
	{"3qk3/3q4/3q4/8/8/3Q4/3Q4/3QK3 w - - 0 1", "", 0},                                                         // triple batteries on a file
	{"3qk3/3r4/3q4/3p4/3P4/3Q4/3R4/3QK3 w - - 0 1", "", 0},                                                     // Q-R-Q stacks
	{"4k3/8/8/3p4/2B1Q3/1Q3B2/Q5B1/4K3 w - - 0 1", "", 0},                                                      // diagonal batteries on d5
	{"4k3/8/2b1b3/3p4/2P1P3/1B3B2/Q5Q1/4K3 w - - 0 1", "", 0},                                                  // pawns in front of bishops and queens
	{"4k3/4r3/8/8/4N3/8/8/4K3 w - - 0 1", "", 0},                                                               // knight pinned to king
	{"4k3/4r3/8/4Q3/4N3/8/8/4K3 w - - 0 1", "", 0},                                                             // behind the queen: no pin
	{"3qk3/8/8/8/3N4/8/8/3QK3 w - - 0 1", "", 0},                                                               // Q on Q pin (omitted)
	{"3rk3/8/8/8/3N4/8/8/3QK3 w - - 0 1", "", 0},                                                               // pinned to the queen by a rook
	{"b3k3/8/8/3N4/8/8/6Q1/r2B3K w - - 0 1", "", 0},                                                            // piece pinned twice (two attackers)
	{"4k3/8/8/8/8/8/8/r1NKQ2r w - - 0 1", "", 0},                                                               // one piece shields king and queen from the same rook?
	{"4k3/8/8/b7/8/2N5/3K4/8 w - - 0 1", "", 0},                                                                // bishop pin
	{"4k3/8/8/b7/8/2R5/3K4/8 w - - 0 1", "", 0},                                                                // pinned rook may not attack sideways
	{"4k3/8/8/b7/8/2B5/3K4/8 w - - 0 1", "", 0},                                                                // pinned bishop may take its attacker
	{"k7/8/8/8/3p4/8/1Q1R1R2/3QK3 w - - 0 1", "", 0},                                                           // two queens (tie), one with a rook behind: order-sensitive
	{"k7/8/8/8/3p4/8/1Q3Q2/3RK3 w - - 0 1", "", 0},                                                             //
	{"3rk3/3q4/8/8/3P4/8/1Q3Q2/3RK3 b - - 0 1", "", 0},                                                         //
	{"3rk3/3q4/8/8/3P4/8/1Q3Q2/3QK2R b - - 0 1", "", 0},                                                        // Q behind Q among a tie of three queens
	{"k2r4/3q4/8/1q3q2/3P4/8/1Q3Q2/3QK2R b - - 0 1", "", 0},                                                    // ties on both sides
	{"6k1/8/6p1/3p3Q/8/6N1/8/6K1 w - - 0 9", "m:g3e4", 1},                                                      // ptschk depends on the order of the squares: true here, false in the mirror image
	{"3q3k/8/8/8/RQ1r4/8/5Q2/7K w - - 0 1", "", 0},                                                             // value depends on the order of the two queens
	{"3q3k/8/8/8/1Q1r1QR1/8/8/7K w - - 0 1", "", 0},
	{"3q3k/8/8/8/RQ1r4/8/5Q2/7K b - - 0 1", "", 0},
	// thirteen white men attack e4 directly: the only way to make sort.Slice leave its insertion-sort range
	{"4R3/k7/3NQN2/2N3N1/1R2p2Q/2NBK1N1/3N1N2/8 w - - 0 1", "", 0},
	{"4R3/k7/3NQN2/2N3N1/1R2p2Q/2NBK1N1/3N1N2/8 b - - 0 1", "", 0},
	{"8/k7/3NQN2/2N3N1/1R2p1QR/2NBK1N1/3N1N2/8 w - - 0 1", "", 0},
	{"8/k7/3NQN2/2N3N1/1R2p1QR/2NBK1N1/3N1N2/8 b - - 0 1", "", 0},
	{"4R3/k7/3NQN2/2N3N1/1R2p1QR/2N1K1N1/3N1N2/8 w - - 0 1", "", 0},
	{"4R3/k7/3NQN2/2N3N1/1R2p1QR/2N1K1N1/3N1N2/8 b - - 0 1", "", 0},
	{"4R3/k6p/3NQN2/2N3N1/1R2P2Q/2NBK1N1/3N1N2/8 w - - 0 1", "", 0},
	{"4R3/k6p/3NQN2/2N3N1/1R2P2Q/2NBK1N1/3N1N2/8 b - - 0 1", "", 0},
}

func init() {
	registerEval("sargon", func(a []string) string { return sargonEval(a).line })
	register("sargon", func(o *Out, r *rand.Rand, thorough bool) {
		o.do(ztableLine(0))
		var emit func(start string, moves []string, root int, q string, mirrored bool)
		emit = func(start string, moves []string, root int, q string, mirrored bool) {
			line := fmt.Sprintf("sargon %s ; %s ; root=%d", start, strings.Join(moves, " "), root)
			if q != "" {
				line += " q=" + q
			}
			info := sargonEval(strings.Split(line, " ")[1:])
			if info.unstable != "" {
				// sort.Slice is insertion sort (stable) up to 12 elements and pdqsort beyond: the order of equal-valued
				// attackers then differs from the model's stable sort. Compare the values only, record the witness.
				o.Count("sort.Slice left ties in a non-stable order (>12 direct attackers)")
				if _, ok := o.info["unstable-sort"]; !ok {
					o.info["unstable-sort"] = line + " : " + info.unstable
				}
				line += " keys=0"
				info = sargonEval(strings.Split(line, " ")[1:])
			}
			o.Emit(line, info.line)
			o.Count("ops")
			if info.line == "err" || info.line == "badmove" {
				o.Count("BROKEN-INPUT")
				return
			}
			if !mirrored && (q == "" || r.Intn(3) == 0) {
				// the colour-swapped mirror image: same game seen from the other side; is the evaluation the same?
				var mm []string
				for _, m := range moves {
					mm = append(mm, "m:"+mirrorMove(strings.TrimPrefix(m, "m:")))
				}
				mline := fmt.Sprintf("sargon %s ; %s ; root=%d", mirrorFEN(start), strings.Join(mm, " "), root)
				minfo := sargonEval(strings.Split(mline, " ")[1:])
				o.Count("mirror-pairs")
				if minfo.ptschk != info.ptschk {
					o.Count("mirror-pairs: ptschk differs (Material's loop is order-dependent)")
					if _, ok := o.info["ptschk-order-dependent"]; !ok {
						o.info["ptschk-order-dependent"] = fmt.Sprintf("%s => ptschk=%v %v ; mirror image %s => ptschk=%v %v", line, info.ptschk, info.points, mline, minfo.ptschk, minfo.points)
					}
				}
				if minfo.ptschk != info.ptschk && minfo.points != info.points && !info.tieWithBehind && !minfo.tieWithBehind && startFullMoves(start) >= 8 {
					o.Count("mirror-pairs: ptschk and the value differ (no tie-with-behind, game from move 8 on)")
					if _, ok := o.info["ptschk-changes-value"]; !ok {
						o.info["ptschk-changes-value"] = fmt.Sprintf("%s => ptschk=%v %v ; mirror image %s => ptschk=%v %v", line, info.ptschk, info.points, mline, minfo.ptschk, minfo.points)
					}
				}
				if minfo.points != info.points && !info.tieWithBehind && !minfo.tieWithBehind && minfo.ptschk == info.ptschk && startFullMoves(start) >= 8 {
					o.Count("mirror-pairs: differs without a tie-with-behind, with equal ptschk, game from move 8 on")
					if _, ok := o.info["other-asymmetry"]; !ok {
						o.info["other-asymmetry"] = fmt.Sprintf("%s => %v ; mirror image %s => %v", line, info.points, mline, minfo.points)
					}
				}
				if minfo.points != info.points {
					o.Count("mirror-pairs: evaluation differs from the mirror image's")
					key := "not-colour-blind"
					if info.tieWithBehind && minfo.ptschk == info.ptschk {
						key = "not-colour-blind (order of tied attackers)"
					}
					if _, ok := o.info[key]; !ok {
						o.info[key] = fmt.Sprintf("%s => %v ; mirror image %s => %v", line, info.points, mline, minfo.points)
					}
				}
				emit(mirrorFEN(start), mm, root, "", true)
			}
			flags := map[string]bool{
				"pins": info.pins > 0, "pinned-by-two": info.multiPins > 0, "stack": info.stacks > 0, "stack-depth>=3": info.deepStacks > 0,
				"ptschk": info.ptschk, "check": info.check, "exchange-nonzero": info.exchNonzero, "tie-with-behind": info.tieWithBehind,
				"root-earlier": root < len(moves), "root-other-side": (len(moves)-root)%2 == 1, "history": len(moves) > 0,
				"points-nonzero": info.points != 0, "direct>=8": info.maxDirect >= 8, "direct>12 (pdqsort)": info.maxDirect > 12,
				"side-list>12": info.maxSide > 12, "quiet-search": q != "", "quiet-search-in-check": q != "" && info.check,
			}
			for k, v := range flags {
				if v {
					o.Count("f:" + k)
				}
			}
			if info.intended != info.points {
				o.Count("dead store in Points.Evaluate changes the value")
				if _, ok := o.info["dead-store-brdc0"]; !ok {
					o.info["dead-store-brdc0"] = fmt.Sprintf("%s => %v ; with the negated brdc0 the code computes and drops: %v", line, info.points, info.intended)
				}
			}
			if info.pins > 0 || info.stacks > 0 || info.ptschk || info.exchNonzero {
				o.Nontrivial(line)
			}
		}
		randQ := func(check bool) string {
			if !check && r.Intn(3) != 0 {
				return ""
			}
			win := []string{"X:0:0", "X:0:0"}
			switch r.Intn(4) {
			case 0:
				win = []string{fmt.Sprintf("H:0:%d", f32key(eval.Pawns(-3-r.Intn(20)))), fmt.Sprintf("H:0:%d", f32key(eval.Pawns(3+r.Intn(20))))}
			case 1:
				win = []string{"N:0:0", "I:0:0"}
			}
			cancel := 0
			if r.Intn(6) == 0 {
				cancel = 1 + r.Intn(12)
			}
			return fmt.Sprintf("%s/%s/%d", win[0], win[1], cancel)
		}
		for _, c := range sargonCurated {
			var ms []string
			if c.moves != "" {
				ms = strings.Split(c.moves, " ")
			}
			emit(c.fen, ms, c.root, "", false)
			emit(c.fen, ms, len(ms), "X:0:0/X:0:0/0", false)
			o.Count("curated")
		}
		n := 80
		if thorough {
			n = 7000
		}
		for i := 0; i < n; i++ {
			start, moves, b := randomLine(r, 16)
			switch r.Intn(6) {
			case 0: // odd material, many queens
				for k := 0; k < 40; k++ {
					if f, ok := synthetic(r); ok && strings.Count(strings.ToLower(strings.Split(f, " ")[0]), "q") >= 3 {
						start, moves = f, nil
						b = boardFromLine(start, nil)
						break
					}
				}
			case 1: // opening phase: development terms, castling, early rook and queen moves
				start = fen.Initial
				moves = nil
				b = boardFromLine(start, nil)
				for k, n := 0, 4+r.Intn(20); k < n; k++ {
					legal := b.Position().LegalMoves(b.Turn())
					if len(legal) == 0 {
						break
					}
					m, _ := biased(r)(legal)
					if !b.PushMove(m) {
						break
					}
					moves = append(moves, "m:"+moveUci(m))
				}
			}
			root := len(moves)
			if len(moves) > 0 && r.Intn(3) != 0 {
				root = r.Intn(len(moves) + 1)
			}
			emit(start, moves, root, randQ(b.Position().IsChecked(b.Turn())), false)
			if i%4 == 0 && len(moves) > 0 { // the same diagram without its history (same hash; HasMoved / HasCastled / last moves differ)
				emit(finalFEN(start, moves), nil, 0, "", false)
				o.Count("bare-diagram")
			}
			if i%9 == 0 {
				opt := []string{"reset=0", "forget=1"}[(i/9)%2]
				line := fmt.Sprintf("sargon %s ; %s ; root=%d %s", start, strings.Join(moves, " "), root, opt)
				o.do(line)
				o.Count("ops")
				o.Count("f:" + opt + " (zero reference values)")
			}
		}
	})
}
