package main

import (
	"context"
	"fmt"
	"math"
	"math/rand"
	"sort"
	"strconv"
	"strings"

	"github.com/herohde/morlock/cmd/turochamp/turochamp"
	"github.com/herohde/morlock/pkg/board"
	"github.com/herohde/morlock/pkg/board/fen"
	"github.com/herohde/morlock/pkg/eval"
)

// turochamp ops: the TUROCHAMP evaluation (cmd/turochamp/turochamp/eval.go) and its "considerable moves" filter
// (quiescence.go) against Model.Turochamp.
//
//	turochamp <fen6> ; m:<uci> ...
//
// The exported functions (Material.Evaluate, PositionPlay, Eval.Evaluate, ConsiderableMovesOnly) are run on the real
// board. What they do not expose is observed indirectly or recomputed:
//   - material(pos, c) is observed through the real Material.Evaluate on a derived position (the pieces of c against a
//     bare king: the ratio is then 2*material, an exact operation),
//   - the parts of PositionPlay are recomputed by tcPlay below, a copy of the Go function in which the iteration order
//     of the mobility map is a parameter. The copy is checked on every op: the value of the real function must be one
//     of the values the copy yields over all iteration orders.
//
// PositionPlay sums float32 terms in Go map order. The impl line reports the value for the insertion order (what the
// model computes) and, if some other order gives other float32 bits, `ppnd=<number of distinct values>`; the real
// function is then called repeatedly to see the nondeterminism happen.

type tcParts struct {
	castleRight, hasCastled, check, mayMate, mayCastle bool
	keys                                               []board.Square // mobility map keys, insertion order
	cnt                                                map[board.Square]int
	pre                                                float32 // score before the mobility sum
	defenders                                          []int
	safety                                             int // -1: no king
	pawns                                              []string
}

// tcPre is part (0)-(1) of PositionPlay up to (excluding) the sum over the mobility map.
func tcPre(b *board.Board, turn board.Color) *tcParts {
	pos := b.Position()
	ret := &tcParts{cnt: map[board.Square]int{}, safety: -1}
	var score eval.Pawns
	if pos.Castling()&board.CastlingRights(turn) != 0 {
		ret.castleRight = true
		score += 1
	}
	if b.HasCastled(turn) {
		ret.hasCastled = true
		score += 1
	}
	if pos.IsChecked(turn.Opponent()) {
		ret.check = true
		score += 0.5
	}
	for _, m := range pos.PseudoLegalMoves(turn) {
		next, ok := pos.Move(m)
		if !ok {
			continue
		}
		if !ret.mayMate && next.IsCheckMate(turn.Opponent()) {
			ret.mayMate = true
			score += 1
		}
		if !ret.mayCastle && m.IsCastle() {
			ret.mayCastle = true
			score += 1
		}
		if m.Piece != board.Pawn && !m.IsCastle() {
			if _, ok := ret.cnt[m.From]; !ok {
				ret.keys = append(ret.keys, m.From)
			}
			ret.cnt[m.From]++
			if m.Type == board.Capture {
				ret.cnt[m.From]++
			}
		}
	}
	ret.pre = float32(score)
	return ret
}

func tcTerm(n int) eval.Pawns {
	return eval.Pawns(math.Round(10*math.Sqrt(float64(n)))) / 10
}

// tcPost is the rest of PositionPlay from the value of the score after the mobility sum.
func tcPost(b *board.Board, turn board.Color, after float32, parts *tcParts) float32 {
	pos := b.Position()
	score := eval.Pawns(after)

	middle := pos.Piece(turn, board.Rook) | pos.Piece(turn, board.Knight) | pos.Piece(turn, board.Bishop)
	for middle != 0 {
		from := middle.LastPopSquare()
		middle ^= board.BitMask(from)

		defenders := 0
		for _, p := range board.KingQueenRookKnightBishop {
			if bb := board.Attackboard(pos.Rotated(), from, p) & pos.Piece(turn, p); bb != 0 {
				defenders += bb.PopCount()
			}
		}
		if bb := board.PawnCaptureboard(turn, pos.Piece(turn, board.Pawn)) & board.BitMask(from); bb != 0 {
			defenders += bb.PopCount()
		}
		if defenders > 0 {
			score += 1
		}
		if defenders > 1 {
			score += 0.5
		}
		if parts != nil {
			parts.defenders = append(parts.defenders, defenders)
		}
	}

	if king := pos.Piece(turn, board.King); king != 0 {
		attackboard := board.QueenAttackboard(pos.Rotated(), king.LastPopSquare())
		safety := (attackboard &^ pos.Color(turn)).PopCount()
		score -= eval.Pawns(math.Round(10*math.Sqrt(float64(safety)))) / 10
		if parts != nil {
			parts.safety = safety
		}
	}

	pawns := pos.Piece(turn, board.Pawn)
	for pawns != 0 {
		from := pawns.LastPopSquare()
		pawns ^= board.BitMask(from)

		ranks := 0
		if turn == board.White {
			ranks += int(from.Rank() - board.Rank2)
		} else {
			ranks += int(board.Rank7 - from.Rank())
		}
		score += 0.2 * eval.Pawns(ranks)
		def := false
		for _, p := range board.KingQueenRookKnightBishop {
			if bb := board.Attackboard(pos.Rotated(), from, p) & pos.Piece(turn, p); bb != 0 {
				score += 0.3
				def = true
				break
			}
		}
		if parts != nil {
			d := "-"
			if def {
				d = "d"
			}
			parts.pawns = append(parts.pawns, strconv.Itoa(ranks)+d)
		}
	}
	return float32(score)
}

// tcSums returns every float32 value the mobility sum can have (over all iteration orders), the value for the
// insertion order first. ok=false if there are too many keys to enumerate.
func tcSums(parts *tcParts) (canon float32, all []float32, ok bool) {
	n := len(parts.keys)
	terms := make([]eval.Pawns, n)
	s := eval.Pawns(parts.pre)
	for i, k := range parts.keys {
		terms[i] = tcTerm(parts.cnt[k])
		s += terms[i]
	}
	canon = float32(s)
	if n > 14 {
		return canon, []float32{canon}, false
	}
	reach := make([]map[float32]bool, 1<<uint(n))
	reach[0] = map[float32]bool{parts.pre: true}
	for mask := 0; mask < 1<<uint(n); mask++ {
		if reach[mask] == nil {
			continue
		}
		for i := 0; i < n; i++ {
			if mask&(1<<uint(i)) != 0 {
				continue
			}
			nm := mask | 1<<uint(i)
			if reach[nm] == nil {
				reach[nm] = map[float32]bool{}
			}
			for v := range reach[mask] {
				reach[nm][float32(eval.Pawns(v)+terms[i])] = true
			}
		}
	}
	all = []float32{canon}
	var rest []float32
	for v := range reach[1<<uint(n)-1] {
		if v != canon {
			rest = append(rest, v)
		}
	}
	sort.Slice(rest, func(i, j int) bool { return rest[i] < rest[j] })
	return canon, append(all, rest...), true
}

func (p *tcParts) String(b *board.Board) string {
	bit := func(x bool) string {
		if x {
			return "1"
		}
		return "0"
	}
	var seq, sorted []string
	var ns []int
	for _, k := range p.keys {
		seq = append(seq, fmt.Sprintf("%s:%d", strings.ToLower(k.String()), p.cnt[k]))
		ns = append(ns, p.cnt[k])
	}
	sort.Ints(ns)
	for _, n := range ns {
		sorted = append(sorted, strconv.Itoa(n))
	}
	var defs []string
	for _, d := range p.defenders {
		defs = append(defs, strconv.Itoa(d))
	}
	return fmt.Sprintf("cr=%s hc=%s chk=%s mate=%s cas=%s pre=%s mob=%s mobseq=%s def=%s safety=%d pawns=%s",
		bit(p.castleRight), bit(p.hasCastled), bit(p.check), bit(p.mayMate), bit(p.mayCastle), fmt32(p.pre),
		strings.Join(sorted, ","), strings.Join(seq, ","), strings.Join(defs, ","), p.safety, strings.Join(p.pawns, ","))
}

// tcMaterial observes the unexported material(pos, c) through Material.Evaluate: the pieces of c against a bare king.
func tcMaterial(pos *board.Position, c board.Color) float32 {
	var pl []board.Placement
	used := board.Bitboard(0)
	for k := board.ZeroPiece; k < board.NumPieces; k++ {
		if k == board.King {
			continue
		}
		for _, sq := range pos.Piece(c, k).ToSquares() {
			pl = append(pl, board.Placement{Square: sq, Color: c, Piece: k})
			used |= board.BitMask(sq)
		}
	}
	// two kings somewhere (they do not count)
	var free []board.Square
	for sq := board.ZeroSquare; sq < board.NumSquares && len(free) < 2; sq++ {
		if used&board.BitMask(sq) == 0 {
			free = append(free, sq)
		}
	}
	if len(free) == 2 {
		pl = append(pl, board.Placement{Square: free[0], Color: c, Piece: board.King}, board.Placement{Square: free[1], Color: c.Opponent(), Piece: board.King})
	}
	p, err := board.NewPosition(pl, 0, 0)
	if err != nil {
		panic(err)
	}
	b := board.NewBoard(zobrist(0), p, c, 0, 1)
	v := float32(turochamp.Material{}.Evaluate(context.Background(), b))
	if v == 0 {
		return 0.5 // own == opp == 0.5
	}
	return v / 2
}

type tcStats struct {
	ppnd, evalnd, seen, skipped int
	witness                     []string
	mirrorWitness               []string
}

var tcStat tcStats

func tcSplit(a []string) (string, []string) {
	i := 0
	for i < len(a) && a[i] != ";" {
		i++
	}
	start := strings.Join(a[:i], " ")
	var moves []string
	if i < len(a) {
		for _, m := range a[i+1:] {
			if m != "" {
				moves = append(moves, m)
			}
		}
	}
	return start, moves
}

func init() {
	registerEval("turochamp", func(a []string) string {
		start, moves := tcSplit(a)
		b := boardFromLine(start, moves)
		ctx := context.Background()
		pos, turn := b.Position(), b.Turn()
		var out []string

		mat := float32(turochamp.Material{}.Evaluate(ctx, b))
		out = append(out, "mat="+fmt32(mat), "matS="+fmt32(tcMaterial(pos, turn)), "matO="+fmt32(tcMaterial(pos, turn.Opponent())))

		// PositionPlay for both sides: real value, recomputed parts, order analysis
		var finals [2][]float32
		for i, c := range []board.Color{turn, turn.Opponent()} {
			name := []string{"self", "opp"}[i]
			parts := tcPre(b, c)
			canonSum, sums, complete := tcSums(parts)
			canon := tcPost(b, c, canonSum, parts)
			seen := map[float32]bool{}
			for _, s := range sums {
				v := tcPost(b, c, s, nil)
				if !seen[v] {
					seen[v] = true
					finals[i] = append(finals[i], v)
				}
			}
			real := float32(turochamp.PositionPlay(b, c))
			if complete && !seen[real] {
				return fmt.Sprintf("HARNESS-COPY-DISAGREES pp_%s real=%s copy=%s", name, fmt32(real), fmt32(canon))
			}
			if !complete {
				tcStat.skipped++
			}
			nd := ""
			if len(finals[i]) > 1 {
				// look at the real function: does it actually return different values?
				obs := map[float32]bool{}
				for k := 0; k < 200; k++ {
					obs[float32(turochamp.PositionPlay(b, c))] = true
				}
				tcStat.ppnd++
				if len(obs) > 1 {
					tcStat.seen++
				}
				if len(tcStat.witness) < 8 {
					var vs, os []string
					for _, v := range finals[i] {
						vs = append(vs, fmt32(v))
					}
					for v := range obs {
						os = append(os, fmt32(v))
					}
					sort.Strings(os)
					tcStat.witness = append(tcStat.witness, fmt.Sprintf("turochamp %s | PositionPlay(%s) possible=%s observed-in-200-calls=%s",
						strings.Join(a, " "), name, strings.Join(vs, ","), strings.Join(os, ",")))
				}
				nd = fmt.Sprintf(" ppnd=%d", len(finals[i]))
				_ = nd
			}
			// the impl line has the value for the insertion order; if the order cannot matter this is the real value
			// (an incomplete enumeration of the orders - many mobility terms - may have met only one value although the real
			// call, in Go's map order of the moment, returns a neighbour one ulp away: never report the real value in that case)
			v := canon
			if complete && len(finals[i]) == 1 {
				v = real
			}
			out = append(out, fmt.Sprintf("pp_%s=%s %s:[%s]", name, fmt32(v), name, parts.String(b)))
		}

		ev := float32(turochamp.Eval{}.Evaluate(ctx, b))
		// Eval over every combination of iteration orders
		evs := map[float32]bool{}
		for _, s := range finals[0] {
			for _, o := range finals[1] {
				pp := eval.Pawns(s) - eval.Pawns(o)
				m := eval.Pawns(math.Round(float64(mat)*100) * 10)
				p := eval.Pawns(math.Round(float64(pp)*100) / 1000)
				evs[float32(m+p)] = true
			}
		}
		if !evs[ev] {
			return "HARNESS-COPY-DISAGREES eval real=" + fmt32(ev)
		}
		if len(evs) > 1 {
			tcStat.evalnd++
			tcStat.witness = append(tcStat.witness, "EVAL-ORDER-DEPENDENT turochamp "+strings.Join(a, " "))
		}
		out = append(out, "eval="+fmt32(ev))

		// considerable moves: as the searches use the exploration (predicate asked after the move was made on the same board)
		var cons []string
		f := b.Fork()
		prio, pick := turochamp.ConsiderableMovesOnly(ctx, f)
		nlegal := 0
		for _, m := range pos.PseudoLegalMoves(turn) {
			if !f.PushMove(m) {
				continue
			}
			nlegal++
			if pick(m) {
				cons = append(cons, fmt.Sprintf("%s:%d", moveUci(m), prio(m)))
			}
			f.PopMove()
		}
		// moves accepted by Position.Move for either colour (PositionPlay iterates both; for the side not to move this
		// includes en-passant captures onto the en-passant target of the side to move)
		accepted := func(c board.Color) (n, ep int) {
			for _, m := range pos.PseudoLegalMoves(c) {
				if _, ok := pos.Move(m); ok {
					n++
					if m.Type == board.EnPassant {
						ep++
					}
				}
			}
			return
		}
		ns, es := accepted(turn)
		no, eo := accepted(turn.Opponent())
		out = append(out, fmt.Sprintf("nmoves=%d/%d ep=%d/%d", ns, no, es, eo))
		out = append(out, fmt.Sprintf("legal=%d considerable=%s", nlegal, strings.Join(cons, ",")))
		return strings.Join(out, " ")
	})
	register("turochamp", genTurochamp)
}

// curated edge cases
var tcCurated = []string{
	"4k3/8/8/8/8/8/8/4K3 w - - 0 1",                      // bare kings
	"4k3/8/8/8/8/8/8/4K3 b - - 0 1",                      //
	"4k3/8/8/8/8/8/PPPPPPPP/RNBQKBNR w KQ - 0 1",         // one side only a king
	"rnbqkbnr/pppppppp/8/8/8/8/8/4K3 w kq - 0 1",         //
	"7k/5Q2/6K1/8/8/8/8/8 b - - 0 1",                     // stalemate
	"7k/5Q2/6K1/8/8/8/8/8 w - - 0 1",                     //
	"7k/6Q1/6K1/8/8/8/8/8 b - - 0 1",                     // mate
	"k7/2Q5/8/8/8/8/8/K7 w - - 0 1",                      // mate threats
	"6k1/5ppp/8/8/8/8/8/R3K2R w KQ - 0 1",                // back-rank mate threat and castling
	"QQQQQQ2/8/8/8/8/8/k7/4K3 w - - 0 1",                 // many queens
	"QQQ4k/QQQ5/8/8/8/8/8/K7 w - - 0 1",                  //
	"qqqq4/qqqq4/8/8/8/8/7P/K6k b - - 0 1",               //
	"8/P7/8/8/8/8/7p/k6K w - - 0 1",                      // promotions
	"n1n5/PPPk4/8/8/8/8/4Kppp/5N1N b - - 0 1",            //
	"8/8/8/2k5/3Pp3/8/8/4K3 b - d3 0 1",                  // en passant
	"r3k2r/8/8/8/8/8/8/R3K2R w KQkq - 0 1",               // castling
	"r3k2r/pppppppp/8/8/8/8/PPPPPPPP/R3K2R w KQkq - 0 1", //
	"8/8/8/8/8/1k6/p7/K7 w - - 0 1",                      // squeezed king
	"k7/8/1K6/8/8/8/8/7Q b - - 0 1",                      //
	"K7/2q5/8/8/8/8/8/k7 b - - 0 1",                      //
	"1r4k1/8/3p4/8/4P3/8/7r/K7 w - - 0 1",                //
	"8/8/8/8/8/8/8/8 w - - 0 1",                          // no pieces at all (not a chess position: totality)
	"8/8/8/8/8/8/8/R7 w - - 0 1",                         // no kings
	"4k3/8/8/8/8/8/8/R7 w - - 0 1",                       // white has no king
	"P3k3/8/8/8/8/8/8/p3K3 w - - 0 1",                    // pawns on the last ranks (ranks advanced = 6, uint8)
	"p3k3/8/8/8/8/8/8/P3K3 w - - 0 1",                    // pawns on their own back ranks: Rank1-Rank2 wraps to 255 in uint8
	"r1bqkbnr/pppp1ppp/2n5/1B2p3/4P3/5N2/PPPP1PPP/RNBQK2R b KQkq - 3 3",
}

// curated lines (with histories): castling just made, recaptures, en passant just made, promotions
var tcLines = [][2]string{
	{fen.Initial, "e2e4 e7e5 g1f3 b8c6 f1c4 f8c5 e1g1"},
	{fen.Initial, "e2e4 e7e5 g1f3 b8c6 f1c4 f8c5 e1g1 g8f6 d2d3 e8g8"},
	{fen.Initial, "e2e4 d7d5 e4d5 d8d5 b1c3"},
	{fen.Initial, "e2e4 d7d5 e4d5 d8d5 b1c3 d5e5"},
	{fen.Initial, "e2e4 d7d5 e4d5 g8f6 d2d4 f6d5 c2c4"},
	{fen.Initial, "e2e4 e7e6 e4e5 d7d5 e5d6"},
	{fen.Initial, "e2e4 e7e6 e4e5 d7d5 e5d6 c7d6"},
	{fen.Initial, "d2d4 d7d5 c2c4 d5c4 e2e3 b7b5 a2a4 c7c6 a4b5 c6b5 d1f3"},
	{fen.Initial, "f2f3 e7e5 g2g4"},                // fool's mate threat
	{fen.Initial, "f2f3 e7e5 g2g4 d8h4"},           // mated
	{fen.Initial, "e2e4 e7e5 d1h5 b8c6 f1c4 g8f6"}, // scholar's mate available
	{"r3k2r/pppq1ppp/2npbn2/2b1p3/2B1P3/2NPBN2/PPPQ1PPP/R3K2R w KQkq - 0 1", "e1c1 e8c8"},
	{"r3k2r/pppq1ppp/2npbn2/2b1p3/2B1P3/2NPBN2/PPPQ1PPP/R3K2R w KQkq - 0 1", "e1g1 e8c8 c4e6 d7e6"},
	{"8/P7/8/8/8/8/7p/k6K w - - 0 1", "a7a8q h2h1q"},
	{"1n5k/P7/8/8/8/8/8/K7 w - - 0 1", "a7b8r"},
	{"1n5k/P7/8/8/8/8/8/K7 w - - 0 1", "a7b8q h8g7"},
	// one diagram, two histories: castled / walked there by hand (both colours, both wings)
	{"r3k2r/p6p/8/8/8/8/P6P/R3K2R w KQkq - 0 1", "e1g1 a7a6 g1h1 a6a5 h1g1 a5a4"},
	{"r3k2r/p6p/8/8/8/8/P6P/R3K2R w KQkq - 0 1", "h1f1 a7a6 e1f2 a6a5 f2g1 a5a4"},
	{"r3k2r/p6p/8/8/8/8/P6P/R3K2R w KQkq - 0 1", "e1c1 h7h6 c1b1 h6h5 b1c1 h5h4"},
	{"r3k2r/p6p/8/8/8/8/P6P/R3K2R w KQkq - 0 1", "a1d1 h7h6 e1d2 h6h5 d2c1 h5h4"},
	{"r3k2r/p6p/8/8/8/8/P6P/R3K2R b KQkq - 0 1", "e8g8 a2a3 g8h8 a3a4 h8g8 a4a5"},
	{"r3k2r/p6p/8/8/8/8/P6P/R3K2R b KQkq - 0 1", "h8f8 a2a3 e8f7 a3a4 f7g8 a4a5"},
	{"r3k2r/p6p/8/8/8/8/P6P/R3K2R b KQkq - 0 1", "e8c8 h2h3 c8b8 h3h4 b8c8 h4h5"},
	{"r3k2r/p6p/8/8/8/8/P6P/R3K2R b KQkq - 0 1", "a8d8 h2h3 e8d7 h3h4 d7c8 h4h5"},
}

func genTurochamp(o *Out, r *rand.Rand, thorough bool) {
	tcStat = tcStats{}
	o.do(ztableLine(0))
	emit := func(start string, moves []string, kind string) {
		line := "turochamp " + start + " ;"
		if len(moves) > 0 {
			line += " " + strings.Join(moves, " ")
		}
		res := o.do(line)
		o.Count("tc:" + kind)
		o.Nontrivial(line)
		b := boardFromLine(start, moves)
		o.countFeatures(classify(b.Position(), b.Turn()))
		if b.HasCastled(board.White) || b.HasCastled(board.Black) {
			o.Count("tc:has-castled")
		}
		if m, ok := b.LastMove(); ok {
			if m.IsCaptureOrEnPassant() {
				o.Count("tc:last-move-capture")
			}
			if m.IsCastle() {
				o.Count("tc:castling-just-made")
			}
			if m.Type == board.EnPassant {
				o.Count("tc:en-passant-just-made")
			}
			if m.IsPromotion() {
				o.Count("tc:promotion-just-made")
			}
		}
		p := b.Position()
		for _, c := range []board.Color{board.White, board.Black} {
			if p.Color(c).PopCount() == 1 {
				o.Count("tc:bare-king-side")
			}
			if p.Piece(c, board.Queen).PopCount() > 1 {
				o.Count("tc:several-queens")
			}
		}
		if !strings.Contains(res, " ep=0/0 ") {
			o.Count("tc:en-passant-move-accepted")
		}
		if strings.Contains(res, " ep=") && !strings.Contains(res, "/0 legal=") {
			o.Count("tc:en-passant-move-accepted-for-side-NOT-to-move")
		}
		if strings.Contains(res, "mate=1") {
			o.Count("tc:mate-threat")
		}
		if strings.Contains(res, "cas=1") {
			o.Count("tc:may-castle")
		}
		if !strings.HasSuffix(res, "considerable=") {
			o.Count("tc:some-considerable-move")
		}
		if strings.HasPrefix(res, "HARNESS") || res == "panic" {
			o.Count("tc:HARNESS-PROBLEM")
		}
		if strings.Contains(res, "cas=1") && tcPushPop < 40 {
			// the evaluation after every legal move was tried and taken back on the SAME board (a search does exactly that) is the
			// evaluation before: nothing the evaluator reads - the has-castled flags among it - may be left behind
			tcPushPop++
			o.do("published tcpushpop " + strings.TrimPrefix(line, "turochamp "))
			o.Count("tc:push-pop-then-evaluate")
		}
		// colour-blindness on the real code: the mirrored, colour-swapped line
		if strings.Count(start, " ") == 5 && b.Position().Piece(board.White, board.King) != 0 && b.Position().Piece(board.Black, board.King) != 0 && res != "panic" {
			func() {
				defer func() {
					if e := recover(); e != nil { // the op above compares the evaluation with the model; a panic only on the mirrored board is a witness of its own
						o.Count("tc:MIRROR-EVAL-PANICS")
						tcStat.witness = append(tcStat.witness, "EVAL-PANICS-ON-MIRROR "+line)
					}
				}()
				var mm []string
				for _, m := range moves {
					mm = append(mm, "m:"+mirrorMove(strings.TrimPrefix(m, "m:")))
				}
				mb := boardFromLine(mirrorFEN(start), mm)
				ctx := context.Background()
				if float32(turochamp.Eval{}.Evaluate(ctx, b)) == float32(turochamp.Eval{}.Evaluate(ctx, mb)) {
					o.Count("tc:mirror-eval-equal")
				} else {
					o.Count("tc:MIRROR-EVAL-DIFFERS")
					tcStat.witness = append(tcStat.witness, "EVAL-NOT-COLOURBLIND "+line)
				}
				if float32(turochamp.Material{}.Evaluate(ctx, b)) != float32(turochamp.Material{}.Evaluate(ctx, mb)) {
					o.Count("tc:MIRROR-MATERIAL-DIFFERS")
				}
				// PositionPlay summed in insertion order (what the model computes) on both boards
				for _, c := range []board.Color{board.White, board.Black} {
					pa, pb := tcPre(b, c), tcPre(mb, c.Opponent())
					sa, _, _ := tcSums(pa)
					sb, _, _ := tcSums(pb)
					va, vb := tcPost(b, c, sa, nil), tcPost(mb, c.Opponent(), sb, nil)
					if va == vb {
						o.Count("tc:mirror-pp-insertion-order-equal")
					} else {
						o.Count("tc:mirror-pp-insertion-order-differs")
						if len(tcStat.mirrorWitness) < 4 {
							tcStat.mirrorWitness = append(tcStat.mirrorWitness, fmt.Sprintf("%s | PositionPlay(%v) insertion order: %s, mirrored board: %s", line, c, fmt32(va), fmt32(vb)))
						}
					}
				}
			}()
		}
	}
	for _, f := range tcCurated {
		emit(f, nil, "curated")
	}
	for _, l := range tcLines {
		ms := strings.Fields(l[1])
		for i := range ms {
			ms[i] = "m:" + ms[i]
		}
		for k := 0; k <= len(ms); k++ {
			emit(l[0], ms[:k], "curated-line")
		}
	}
	n := 260
	if thorough {
		n = 9000
	}
	for i := 0; i < n; i++ {
		var start string
		var moves []string
		switch r.Intn(6) {
		case 0: // a game from the initial position (reachable positions)
			start = fen.Initial
			b := boardFromLine(start, nil)
			k := 4 + r.Intn(60)
			for j := 0; j < k; j++ {
				legal := b.Position().LegalMoves(b.Turn())
				if len(legal) == 0 {
					break
				}
				m, _ := biased(r)(legal)
				if !b.PushMove(m) {
					break
				}
				moves = append(moves, "m:"+moveUci(m))
			}
			emit(start, moves, "game-from-start")
			if i%3 == 0 { // the same diagram without its history (same hash, other castled flags / last moves)
				emit(finalFEN(start, moves), nil, "bare-diagram")
			}
			continue
		case 1: // squeezed positions: few men
			for k := 0; k < 50; k++ {
				if f, ok := synthetic(r); ok {
					start = f
					if pieceCount(boardFromLine(f, nil)) <= 6 {
						break
					}
				}
			}
			if start != "" {
				_, ms, _ := randomLineFrom(r, start, 4)
				emit(start, ms, "sparse")
				continue
			}
		}
		start, moves, _ = randomLine(r, 14)
		emit(start, moves, "random-line")
		if i%4 == 0 && len(moves) > 0 {
			emit(finalFEN(start, moves), nil, "bare-diagram")
		}
	}
	o.info["turochamp_order_dependent_positionplay"] = tcStat.ppnd
	o.info["turochamp_order_dependence_observed_on_real_code"] = tcStat.seen
	o.info["turochamp_order_dependent_eval"] = tcStat.evalnd
	o.info["turochamp_order_analysis_skipped"] = tcStat.skipped
	o.info["turochamp_order_witnesses"] = tcStat.witness
	o.info["turochamp_mirror_insertion_order_witnesses"] = tcStat.mirrorWitness
}

func randomLineFrom(r *rand.Rand, start string, maxPlies int) (string, []string, *board.Board) {
	p, turn, np, fm, _ := fen.Decode(start)
	b := board.NewBoard(zobrist(0), p, turn, np, fm)
	var moves []string
	n := r.Intn(maxPlies + 1)
	for k := 0; k < n; k++ {
		legal := b.Position().LegalMoves(b.Turn())
		if len(legal) == 0 {
			break
		}
		m, _ := biased(r)(legal)
		if !b.PushMove(m) {
			break
		}
		moves = append(moves, "m:"+moveUci(m))
	}
	return start, moves, b
}

var tcPushPop int

func init() {
	registerEval("tcpushpop", func(a []string) string {
		i := 0
		for i < len(a) && a[i] != ";" {
			i++
		}
		var moves []string
		if i < len(a) {
			moves = a[i+1:]
		}
		b := boardFromLine(strings.Join(a[:i], " "), moves)
		ctx := context.Background()
		before := turochamp.Eval{}.Evaluate(ctx, b)
		cw, cb := b.HasCastled(board.White), b.HasCastled(board.Black)
		for _, m := range b.Position().PseudoLegalMoves(b.Turn()) {
			if b.PushMove(m) {
				b.PopMove()
				if b.HasCastled(board.White) != cw || b.HasCastled(board.Black) != cb {
					return fmt.Sprintf("MISMATCH after %v was played and taken back the has-castled flags are %v/%v, they were %v/%v", m, b.HasCastled(board.White), b.HasCastled(board.Black), cw, cb)
				}
			}
		}
		after := turochamp.Eval{}.Evaluate(ctx, b)
		if float32(after) != float32(before) {
			return fmt.Sprintf("MISMATCH the evaluation is %s before and %s after every legal move was tried and taken back", fmt32(float32(before)), fmt32(float32(after)))
		}
		return "ok"
	})
}
