package main

// Opening books: engine.NewBook / book.Find, sargon.NewBook / Book.Find, bernstein.NewBook, fen.Strip against
// Model/Book.lean. The books are Go maps behind unexported fields: they are read out completely through reflection
// (read-only access to unexported fields is allowed), so the comparison with the model is on the WHOLE map, not only on
// the keys a walk would reach; every entry is cross-checked through the exported Find.

import (
	"context"
	"fmt"
	"math/rand"
	"reflect"
	"sort"
	"strings"

	"github.com/herohde/morlock/cmd/bernstein/bernstein"
	"github.com/herohde/morlock/cmd/sargon/sargon"
	"github.com/herohde/morlock/pkg/board"
	"github.com/herohde/morlock/pkg/board/fen"
	"github.com/herohde/morlock/pkg/engine"
)

func bookByName(which string) engine.Book {
	switch which {
	case "sargon":
		return sargon.NewBook()
	case "bernstein":
		return bernstein.NewBook()
	}
	return nil
}

// bookEntries reads the unexported `moves map[string][]board.Move` of *engine.book / *sargon.Book.
func bookEntries(bk interface{}) map[string][]board.Move {
	v := reflect.ValueOf(bk)
	for v.Kind() == reflect.Ptr || v.Kind() == reflect.Interface {
		v = v.Elem()
	}
	m := v.FieldByName("moves")
	if !m.IsValid() || m.Kind() != reflect.Map {
		// the field may have been renamed: take the one field that is a map from strings to lists
		m = reflect.Value{}
		for i := 0; v.Kind() == reflect.Struct && i < v.NumField(); i++ {
			if f := v.Field(i); f.Kind() == reflect.Map && f.Type().Key().Kind() == reflect.String && f.Type().Elem().Kind() == reflect.Slice {
				m = f
				break
			}
		}
	}
	if !m.IsValid() || m.Kind() != reflect.Map {
		// another representation altogether (a sorted slice, a trie, ...): enumerate the book through its public face
		if b, ok := bk.(engine.Book); ok {
			return bookEntriesByWalk(b)
		}
		panic("book has no moves map")
	}
	ret := map[string][]board.Move{}
	it := m.MapRange()
	for it.Next() {
		k := it.Key().String()
		s := it.Value()
		list := []board.Move{}
		for i := 0; i < s.Len(); i++ {
			e := s.Index(i)
			list = append(list, board.Move{
				Type:      board.MoveType(e.FieldByName("Type").Uint()),
				From:      board.Square(e.FieldByName("From").Uint()),
				To:        board.Square(e.FieldByName("To").Uint()),
				Piece:     board.Piece(e.FieldByName("Piece").Uint()),
				Promotion: board.Piece(e.FieldByName("Promotion").Uint()),
				Capture:   board.Piece(e.FieldByName("Capture").Uint()),
			})
		}
		ret[k] = list
	}
	return ret
}

// bookEntriesByWalk enumerates a book without looking inside it: from the initial position, ask `Find`, play every reply, ask
// again. Books are built from lines that start at the initial position, so every entry is reached (an entry filed under a
// position no line reaches would be missed: the reflective reading above is therefore preferred while it works).
func bookEntriesByWalk(bk engine.Book) map[string][]board.Move {
	ret := map[string][]board.Move{}
	todo := []string{fen.Initial}
	// a reply table (SARGON's) also files positions after ANY first move of the opponent: those are tried as well
	if p0, t0, _, _, err := fen.Decode(fen.Initial); err == nil {
		for _, c := range p0.LegalMoves(t0) {
			if next, ok := p0.Move(c); ok {
				todo = append(todo, fen.Encode(next, t0.Opponent(), 0, 1))
			}
		}
	}
	visited := map[string]bool{}
	for len(todo) > 0 && len(ret) < 100000 {
		f := todo[0]
		todo = todo[1:]
		key := fen.Strip(f)
		if visited[key] {
			continue
		}
		visited[key] = true
		ms, err := bk.Find(context.Background(), f)
		if err != nil || len(ms) == 0 {
			continue
		}
		ret[key] = append([]board.Move{}, ms...)
		p, turn, _, _, derr := fen.Decode(f)
		if derr != nil {
			continue
		}
		for _, m := range ms {
			for _, c := range p.PseudoLegalMoves(turn) {
				if c.Equals(m) {
					if next, ok := p.Move(c); ok {
						todo = append(todo, fen.Encode(next, turn.Opponent(), 0, 1))
					}
					break
				}
			}
		}
	}
	return ret
}

func fmtReplies(ms []board.Move) string {
	if len(ms) == 0 {
		return "-"
	}
	var parts []string
	for _, m := range ms {
		parts = append(parts, fmtMove(m))
	}
	sort.Strings(parts)
	return strings.Join(parts, ",")
}

// fmtBook prints the whole map, sorted; every entry must be what the exported Find returns for the key with clocks.
func fmtBook(bk engine.Book) string {
	entries := bookEntries(bk)
	var parts []string
	for k, ms := range entries {
		got, err := bk.Find(context.Background(), k+" 17 42")
		if err != nil || fmtReplies(got) != fmtReplies(ms) || len(got) != len(ms) {
			return "FIND-MISMATCH " + strings.ReplaceAll(k, " ", "_")
		}
		parts = append(parts, strings.ReplaceAll(k, " ", "_")+"="+fmtReplies(ms))
	}
	sort.Strings(parts)
	// a client may do what it likes with a list it was handed (here: append its first reply once more, as a book merger or a
	// "prefer the main line" tweak would): every other position must still offer what it offered
	for k := range entries {
		if got, err := bk.Find(context.Background(), k+" 0 1"); err == nil && len(got) > 0 {
			_ = append(got, got[0])
		}
	}
	for k, ms := range bookEntries(bk) {
		if fmtReplies(ms) != fmtReplies(entries[k]) {
			return "MISMATCH FIND-ALIASED " + strings.ReplaceAll(k, " ", "_") + " offers " + fmtReplies(ms) + " after a client appended to the list of another position; it offered " + fmtReplies(entries[k])
		}
	}
	return strings.Join(append([]string{fmt.Sprintf("n=%d", len(entries))}, parts...), " ")
}

func init() {
	registerEval("bookm", func(a []string) string {
		bk := bookByName(a[0])
		if bk == nil {
			return "bad-op"
		}
		return fmtBook(bk)
	})
	registerEval("bookfind", func(a []string) string {
		bk := bookByName(a[0])
		if bk == nil {
			return "bad-op"
		}
		ms, err := bk.Find(context.Background(), hexRunes(a[1])) // a panic (fewer than four fields) is mapped to "panic" by evalOp
		if err != nil {
			return "err"
		}
		return fmtReplies(ms)
	})
	registerEval("booknew", func(a []string) string {
		var lines []engine.Line
		if len(a) > 0 {
			cur := engine.Line{}
			for _, t := range a {
				if t == ";" {
					lines = append(lines, cur)
					cur = engine.Line{}
					continue
				}
				cur = append(cur, hexRunes(t))
			}
			lines = append(lines, cur)
		}
		bk, err := engine.NewBook(lines)
		if err != nil {
			// a book handed back TOGETHER with the error (a caller may ignore the error, as cmd/bernstein does) is still a book:
			// whatever it offers must be a legal move of the position it is filed under
			if v := reflect.ValueOf(bk); bk != nil && !(v.Kind() == reflect.Ptr && v.IsNil()) {
				for k, ms := range bookEntries(bk) {
					p, turn, _, _, derr := fen.Decode(k + " 0 1")
					if derr != nil {
						return "MISMATCH the book handed back with the error has the key " + strings.ReplaceAll(k, " ", "_") + ", not a position"
					}
					legal := p.LegalMoves(turn)
					for _, m := range ms {
						ok := false
						for _, l := range legal {
							if l == m {
								ok = true
							}
						}
						if !ok {
							return fmt.Sprintf("MISMATCH the book handed back with the error offers %v at %s, not a legal move there", m, strings.ReplaceAll(k, " ", "_"))
						}
					}
				}
			}
			switch {
			case strings.HasSuffix(err.Error(), " not legal"):
				return "err:notlegal"
			case strings.HasSuffix(err.Error(), " not found"):
				return "err:notfound"
			default:
				return "err:parse"
			}
		}
		return fmtBook(bk)
	})
	registerEval("bookstrip", func(a []string) string {
		return runesHex(fen.Strip(hexRunes(a[0])))
	})
	register("books", genBooks)
}

// curated lines from the initial position
var bookLines = map[string][]string{
	"castle":      {"e2e4", "e7e5", "g1f3", "g8f6", "f1c4", "f8c5", "e1g1", "e8g8", "d2d3"},
	"castle-long": {"d2d4", "d7d5", "b1c3", "b8c6", "c1f4", "c8f5", "d1d2", "d8d7", "e1c1", "e8c8", "a2a3"},
	"ep":          {"e2e4", "a7a6", "e4e5", "d7d5", "e5d6", "c7d6"},
	"ep-declined": {"e2e4", "a7a6", "e4e5", "d7d5", "a2a3", "a6a5"},
	"promo-q":     {"h2h4", "g7g5", "h4g5", "h7h6", "g5h6", "f8g7", "h6g7", "g8f6", "g7h8q", "f6g8"},
	"promo-n":     {"h2h4", "g7g5", "h4g5", "h7h6", "g5h6", "f8g7", "h6g7", "g8f6", "g7h8n"},
	"promo-r":     {"h2h4", "g7g5", "h4g5", "h7h6", "g5h6", "f8g7", "h6g7", "g8f6", "g7h8r"},
	"promo-b":     {"h2h4", "g7g5", "h4g5", "h7h6", "g5h6", "f8g7", "h6g7", "g8f6", "g7h8B"},
	"promo-push":  {"a2a4", "b7b5", "a4b5", "a7a6", "b5a6", "c8b7", "a6a7", "b7c6", "a7b8q"},
	"transpose-1": {"g1f3", "g8f6", "b1c3", "b8c6", "e2e4"},
	"transpose-2": {"b1c3", "g8f6", "g1f3", "b8c6", "d2d4"},
	"transpose-3": {"g1f3", "b8c6", "b1c3", "g8f6", "e2e3"},
	"upper":       {"E2E4", "E7E5", "G1F3"},
	"mate":        {"f2f3", "e7e5", "g2g4", "d8h4"},
	// failures
	"pinned":         {"e2e4", "e7e5", "f1b5", "d7d6"},                         // d-pawn pinned: pseudo-legal, not legal
	"in-check":       {"e2e4", "f7f6", "d1h5", "a7a6"},                         // ignores the check
	"king-into":      {"e2e4", "e7e5", "d1h5", "e8e7", "h5e5", "e7e6"},         // Ke6 next to the queen
	"castle-through": {"e2e4", "e7e5", "g1f3", "b7b6", "f1a6", "c8a6", "e1g1"}, // f1 attacked by the bishop on a6
	"after-mate":     {"f2f3", "e7e5", "g2g4", "d8h4", "a2a3"},
	"not-found":      {"e2e4", "e7e5", "e4e5"},
	"not-found-own":  {"e2e4", "e7e5", "d1d2"},
	"wrong-side":     {"e2e4", "d2d4"},
	"promo-missing":  {"h2h4", "g7g5", "h4g5", "h7h6", "g5h6", "f8g7", "h6g7", "g8f6", "g7h8"}, // promotion letter missing
	"promo-extra":    {"e2e4q"},
	"parse-rank":     {"e2e9"},
	"parse-king":     {"h2h4", "g7g5", "h4g5", "h7h6", "g5h6", "f8g7", "h6g7", "g8f6", "g7h8k"},
	"parse-empty":    {"e2e4", ""},
	"parse-long":     {"e2e4", "e7e5qq"},
	"parse-unicode":  {"e2e４"},
	"parse-blank":    {"e2 e4"},
}

// randomBookLine plays a random line from the initial position. fail: 0 none, 1 end with an illegal pseudo-legal move
// (if one exists), 2 end with a move that is not generated, 3 end with garbage.
func randomBookLine(r *rand.Rand, plies int, fail int, feats map[string]bool) []string {
	p, turn, _, _, _ := fen.Decode(fen.Initial)
	var line []string
	for k := 0; k < plies; k++ {
		m, next, ok := pickMove(r, p, turn)
		if !ok {
			feats["ended"] = true
			break
		}
		switch {
		case m.IsCastle():
			feats["castle"] = true
		case m.Type == board.EnPassant:
			feats["ep"] = true
		case m.IsPromotion():
			feats["promo"] = true
		case m.IsCapture():
			feats["capture"] = true
		}
		s := moveUci(m)
		if r.Intn(9) == 0 {
			s = strings.ToUpper(s)
		}
		line = append(line, s)
		p, turn = next, turn.Opponent()
	}
	switch fail {
	case 1:
		// play on until some generated move is refused by Position.Move (pin, check ignored, castling through check)
		for extra := 0; extra < 80; extra++ {
			var bad []board.Move
			for _, m := range p.PseudoLegalMoves(turn) {
				if _, ok := p.Move(m); !ok {
					bad = append(bad, m)
				}
			}
			if len(bad) > 0 {
				m := bad[r.Intn(len(bad))]
				feats["fail:illegal-pseudo"] = true
				if m.IsCastle() {
					feats["fail:illegal-castle"] = true
				}
				return append(line, moveUci(m))
			}
			m, next, ok := pickMove(r, p, turn)
			if !ok {
				break
			}
			line = append(line, moveUci(m))
			p, turn = next, turn.Opponent()
		}
	case 2:
		for tries := 0; tries < 50; tries++ {
			s := board.Square(r.Intn(64)).String() + board.Square(r.Intn(64)).String()
			if r.Intn(6) == 0 {
				s += string("qrbn"[r.Intn(4)])
			}
			if _, ok := findMove(p, turn, s); !ok {
				feats["fail:notfound"] = true
				return append(line, s)
			}
		}
	case 3:
		feats["fail:garbage"] = true
		g := []string{"", "e2", "e2e", "e2e4e5", "i2i4", "e0e4", "e2e4k", "e2e4p", "e7e8x", "0000", "e2-e4", "ｅ2e4", "e2e4 "}
		return append(line, g[r.Intn(len(g))])
	}
	return line
}

func genBooks(o *Out, r *rand.Rand, thorough bool) {
	enc := func(lines [][]string) string {
		var toks []string
		for i, l := range lines {
			if i > 0 {
				toks = append(toks, ";")
			}
			for _, m := range l {
				toks = append(toks, runesHex(m))
			}
		}
		return strings.Join(append([]string{"booknew"}, toks...), " ")
	}
	find := func(which, f string) {
		res := o.do("bookfind " + which + " " + runesHex(f))
		switch res {
		case "panic":
			o.Count("find:" + which + ":panic")
		case "-":
			o.Count("find:" + which + ":miss")
		default:
			o.Count("find:" + which + ":hit")
			o.Nontrivial("find " + which + " " + f)
		}
	}
	clocks := func() string {
		switch r.Intn(5) {
		case 0:
			return "0 1"
		case 1:
			return fmt.Sprintf("%d %d", r.Intn(100), 1+r.Intn(200))
		case 2:
			return "x y" // Find does not parse the clocks
		case 3:
			return fmt.Sprintf("%d", r.Intn(50)) // five fields
		default:
			return fmt.Sprintf("%d %d extra fields", r.Intn(100), r.Intn(100))
		}
	}

	// (1) the whole books
	for _, which := range []string{"sargon", "bernstein"} {
		res := o.do("bookm " + which)
		o.Count("bookm")
		o.info["keys:"+which] = len(bookEntries(bookByName(which)))
		if strings.Contains(res, "MISMATCH") || res == "panic" {
			o.Count("bookm:BROKEN")
		}
	}

	// (2) Find on every key: bare key, with clocks of every kind, damaged
	for _, which := range []string{"sargon", "bernstein"} {
		var keys []string
		for k := range bookEntries(bookByName(which)) {
			keys = append(keys, k)
		}
		sort.Strings(keys)
		for _, k := range keys {
			find(which, k)
			find(which, k+" 0 1")
			for i := 0; i < 3; i++ {
				find(which, k+" "+clocks())
			}
			f := strings.Split(k, " ")
			find(which, strings.Join(f[:3], " "))                                // three fields: Strip panics
			find(which, f[0])                                                    // one field
			find(which, " "+k+" 0 1")                                            // leading blank: first field empty, fields shifted
			find(which, strings.Join(f, "  ")+" 0 1")                            // double blanks
			find(which, strings.Join(f, "\t")+" 0 1")                            // tabs are not separators
			find(which, f[0]+" "+f[1]+" "+f[2]+" - 0 1")                         // en-passant field dropped
			find(which, f[0]+" "+f[1]+" - "+f[3]+" 0 1")                         // rights dropped
			find(which, strings.ToUpper(f[0])+" "+f[1]+" "+f[2]+" "+f[3]+" 0 1") // other position
			find(which, k+"\n")
		}
	}
	for _, s := range []string{"", " ", "   ", "    ", "a b c", "a b c d", "a b c d e", "a  b c", "    x"} {
		find("sargon", s)
		find("bernstein", s)
		o.do("bookstrip " + runesHex(s))
		o.Count("strip")
	}

	// (3) every position after one and two plies, with clocks as the engine reports them
	{
		p0, t0, _, _, _ := fen.Decode(fen.Initial)
		find("sargon", fen.Initial)
		find("bernstein", fen.Initial)
		for _, m1 := range p0.LegalMoves(t0) {
			p1, _ := p0.Move(m1)
			np := 1
			if m1.Piece == board.Pawn {
				np = 0
			}
			find("sargon", fen.Encode(p1, t0.Opponent(), np, 1))
			find("bernstein", fen.Encode(p1, t0.Opponent(), np, 1))
			for _, m2 := range p1.LegalMoves(t0.Opponent()) {
				if !thorough && r.Intn(6) != 0 {
					continue
				}
				p2, _ := p1.Move(m2)
				find("sargon", fen.Encode(p2, t0, r.Intn(3), 2))
				find("bernstein", fen.Encode(p2, t0, r.Intn(3), 2))
			}
		}
	}

	// (4) other positions and damaged strings
	n := 150
	if thorough {
		n = 6000
	}
	cnt := 0
	walk(r, n/10, 30, n/10, func(f string, p *board.Position, turn board.Color) {
		if cnt >= n {
			return
		}
		cnt++
		which := []string{"sargon", "bernstein"}[r.Intn(2)]
		find(which, f)
		if r.Intn(3) == 0 {
			s := mutate(r, f)
			find(which, s)
			o.do("bookstrip " + runesHex(s))
			o.Count("strip")
		}
	})
	for i := 0; i < n; i++ {
		// random field soup
		k := r.Intn(8)
		var f []string
		for j := 0; j < k; j++ {
			f = append(f, []string{"", "a", "-", "w", "KQkq", "8/8", "0", "é", "\t"}[r.Intn(9)])
		}
		s := strings.Join(f, " ")
		o.do("bookstrip " + runesHex(s))
		o.Count("strip")
		if r.Intn(4) == 0 {
			find("sargon", s)
		}
	}

	// (5) engine.NewBook on arbitrary lines
	newbook := func(lines [][]string, tag string) {
		res := o.do(enc(lines))
		o.Count("newbook")
		o.Count("newbook:" + tag)
		switch {
		case strings.HasPrefix(res, "err:"), res == "panic":
			o.Count("newbook:result:" + res)
		case strings.Contains(res, "MISMATCH"):
			o.Count("newbook:BROKEN")
		default:
			o.Count("newbook:result:ok")
			if strings.Contains(res, ",") {
				o.Count("newbook:key-with-several-replies")
			}
			o.Nontrivial(enc(lines))
		}
	}
	newbook(nil, "empty-list")
	newbook([][]string{{}}, "empty-line")
	newbook([][]string{{}, {}}, "empty-line")
	var names []string
	for k := range bookLines {
		names = append(names, k)
	}
	sort.Strings(names)
	for _, k := range names {
		newbook([][]string{bookLines[k]}, "curated")
	}
	var good [][]string
	for _, k := range names {
		if res := evalOp(enc([][]string{bookLines[k]})); !strings.HasPrefix(res, "err:") && res != "panic" {
			good = append(good, bookLines[k])
		}
	}
	newbook(good, "curated-all") // all good lines together: shared prefixes, transpositions, four promotions on one key
	newbook(append(append([][]string{}, good...), good...), "curated-twice")
	for _, k := range names { // a failing line after good ones, and before
		if res := evalOp(enc([][]string{bookLines[k]})); strings.HasPrefix(res, "err:") {
			newbook(append(append([][]string{}, good[:3]...), bookLines[k]), "good-then-bad")
			newbook(append([][]string{bookLines[k]}, good[:2]...), "bad-then-good")
		}
	}
	sets := 120
	if thorough {
		sets = 6000
	}
	for i := 0; i < sets; i++ {
		var lines [][]string
		feats := map[string]bool{}
		k := 1 + r.Intn(6)
		fail := 0
		if r.Intn(4) == 0 {
			fail = 1 + r.Intn(3)
		}
		failAt := r.Intn(k)
		for j := 0; j < k; j++ {
			maxPlies := 12
			if r.Intn(3) == 0 {
				maxPlies = 120
			}
			f := 0
			if j == failAt {
				f = fail
			}
			var l []string
			if len(lines) > 0 && r.Intn(2) == 0 && f == 0 {
				// share a prefix with an earlier line, then continue differently (or identically)
				prev := lines[r.Intn(len(lines))]
				cut := r.Intn(len(prev) + 1)
				l = append([]string{}, prev[:cut]...)
				feats["shared-prefix"] = true
				// continue from there by replaying
				p, turn, _, _, _ := fen.Decode(fen.Initial)
				ok := true
				for _, s := range l {
					m, found := findMove(p, turn, strings.ToLower(s))
					if !found {
						ok = false
						break
					}
					next, legal := p.Move(m)
					if !legal {
						ok = false
						break
					}
					p, turn = next, turn.Opponent()
				}
				if ok {
					for x := r.Intn(8); x > 0; x-- {
						m, next, more := pickMove(r, p, turn)
						if !more {
							break
						}
						l = append(l, moveUci(m))
						p, turn = next, turn.Opponent()
					}
				}
			} else {
				l = randomBookLine(r, r.Intn(maxPlies+1), f, feats)
			}
			lines = append(lines, l)
		}
		for f := range feats {
			o.Count("newbook:lines-with:" + f)
		}
		newbook(lines, "random")
	}
}
