package main

import (
	"fmt"
	"math/rand"
	"strconv"
	"strings"

	"github.com/herohde/morlock/pkg/board"
	"github.com/herohde/morlock/pkg/board/fen"
)

func init() {
	register("c06", func(o *Out, r *rand.Rand, thorough bool) {
		// (1) exhaustive: every square x every state of each line through it, for the sliders;
		//     every square for king, knight and both pawn colours.
		for sq := 0; sq < 64; sq++ {
			f, rk := sq%8, sq/8
			for _, k := range []string{"K", "N", "Pw", "Pb"} {
				o.do(fmt.Sprintf("chess attacks %s %d 0", k, sq))
				o.do(fmt.Sprintf("chess attacks %s %d %x", k, sq, r.Uint64()))
			}
			for state := 0; state < 256; state++ {
				// rank line and file line
				rankOcc := uint64(state) << (8 * uint(rk))
				var fileOcc uint64
				for i := 0; i < 8; i++ {
					if state&(1<<uint(i)) != 0 {
						fileOcc |= 1 << uint(8*i+f)
					}
				}
				o.do(fmt.Sprintf("chess attacks R %d %x", sq, rankOcc))
				o.do(fmt.Sprintf("chess attacks R %d %x", sq, fileOcc))
				o.do(fmt.Sprintf("chess attacks Q %d %x", sq, rankOcc|fileOcc))
				// both diagonals
				var d1, d2 uint64
				i1, i2 := 0, 0
				for s := 0; s < 64; s++ {
					sf, sr := s%8, s/8
					if sf-sr == f-rk {
						if state&(1<<uint(i1)) != 0 {
							d1 |= 1 << uint(s)
						}
						i1++
					}
					if sf+sr == f+rk {
						if state&(1<<uint(i2)) != 0 {
							d2 |= 1 << uint(s)
						}
						i2++
					}
				}
				if state < 1<<uint(i1) {
					o.do(fmt.Sprintf("chess attacks B %d %x", sq, d1))
				}
				if state < 1<<uint(i2) {
					o.do(fmt.Sprintf("chess attacks B %d %x", sq, d2))
				}
				o.Count("line-states")
				o.Nontrivial(fmt.Sprintf("%d:%d", sq, state))
			}
		}
		o.info["exhaustive_lines"] = "64 squares x 256 states x {rank, file, both diagonals}"
		// (2) random full occupancies (bits off the lines must not matter)
		n := 300
		if thorough {
			n = 20000
		}
		for i := 0; i < n; i++ {
			occ := r.Uint64()
			switch r.Intn(3) {
			case 0:
				occ &= r.Uint64()
			case 1:
				occ |= r.Uint64()
			}
			sq := r.Intn(64)
			for _, k := range []string{"R", "B", "Q"} {
				o.do(fmt.Sprintf("chess attacks %s %d %x", k, sq, occ))
			}
			o.Count("random-occupancy")
		}
		// (2') the same questions asked of the zero value + Xor as the very first thing a fresh process does
		rawBase := 2 * r.Int63n(1<<40)
		for i := 0; i < 2; i++ {
			line := fmt.Sprintf("published rawline %d %d", rawBase+int64(i), n*4) // even seed: queen asked first; odd: rook, bishop, queen
			o.do(line)
			o.Count("fresh-process-zero-value-occupancies")
			o.Nontrivial(line)
		}
		// (3) derived queries on positions
		playouts, synth := 60, 250
		if thorough {
			playouts, synth = 3000, 12000
		}
		walk(r, playouts, 100, synth, func(f string, p *board.Position, turn board.Color) {
			feat := classify(p, turn)
			o.countFeatures(feat)
			if feat.nontrivial() {
				o.Nontrivial(strings.Join(strings.Split(f, " ")[:4], " "))
			}
			o.do("chess ischecked w " + f)
			o.do("chess ischecked b " + f)
			o.do("chess ismate " + f)
			for i := 0; i < 6; i++ {
				c := "w"
				if r.Intn(2) == 0 {
					c = "b"
				}
				o.do(fmt.Sprintf("chess isattacked %s %d %s", c, r.Intn(64), f))
			}
			// the same query restricted to a list of piece kinds: any list, not only the ones the repository's callers pass
			// (a queen must count exactly when Queen is listed, whatever else is)
			lists := []string{"5", "4", "2", "45", "25", "65", "6", "3", "1", "321", "54", "52", "642", "5421", "123456", "654321", "", "55", "44"}
			for i := 0; i < 8; i++ {
				c := "w"
				if r.Intn(2) == 0 {
					c = "b"
				}
				sq := r.Intn(64)
				if all := p.All(); all != 0 && r.Intn(2) == 0 { // a square in line with something
					sqs := all.ToSquares()
					sq = int(sqs[r.Intn(len(sqs))])
					sq = (sq + []int{1, 8, 9, 7, 2, 16, 18, 14, 0}[r.Intn(9)]) % 64
				}
				o.do(fmt.Sprintf("chess isattackedby %s %d %s %s", c, sq, lists[r.Intn(len(lists))]+"x", f))
				o.Count("isattackedby")
			}
			evalQueries(o, r, f, p, turn)
		})
	})
	register("playq", func(o *Out, r *rand.Rand, thorough bool) {
		n := 250
		if thorough {
			n = 15000
		}
		lines(r, n, 40, func(start string, moves []string, feats map[string]bool) {
			line := "chess playq " + start + " ; " + strings.Join(moves, " ")
			o.do(line)
			for k := range feats {
				o.Count("line:" + k)
			}
			o.Count("line:total")
			if len(feats) > 0 {
				o.Nontrivial(line)
			}
		})
	})
	register("c02", func(o *Out, r *rand.Rand, thorough bool) {
		playouts, synth := 100, 300
		if thorough {
			playouts, synth = 5000, 15000
		}
		walk(r, playouts, 120, synth, func(f string, p *board.Position, turn board.Color) {
			feat := classify(p, turn)
			o.countFeatures(feat)
			for _, m := range p.PseudoLegalMoves(turn) {
				res := o.do("chess apply " + f + " " + moveUci(m))
				o.Count("apply:" + m.Type.String())
				if res == "illegal" {
					o.Count("apply:illegal")
				}
				if m.Type != board.Normal && m.Type != board.Push {
					o.Nontrivial(f + moveUci(m))
				}
				// one more view of the successor: who attacks a square, asked with piece lists in any order
				if next, ok := p.Move(m); ok && r.Intn(6) == 0 {
					nf := fen.Encode(next, turn.Opponent(), 0, 1)
					sq := int(m.To)
					if r.Intn(2) == 0 {
						sq = (sq + []int{1, 8, 9, 7, 63, 56, 55, 57}[r.Intn(8)]) % 64
					}
					o.do(fmt.Sprintf("chess isattackedby %s %d %sx %s", []string{"w", "b"}[r.Intn(2)], sq, []string{"12", "13", "16", "123456", "142", "21", "15", "135"}[r.Intn(8)], nf))
					o.Count("successor:isattackedby")
				}
			}
			if r.Intn(10) == 0 {
				o.do("chess apply " + f + " " + []string{"e2e5", "a1a1", "e1g1", "e8c8", "e7e8q", "zz"}[r.Intn(6)])
			}
		})
	})
}

// rawline <seed> <count>: evaluated in a FRESH process, before anything there has built a position or a rotated bitboard
// through a constructor: the zero RotatedBitboard is the empty board and Xor builds every occupancy from it, so slider
// attack sets asked of such a value - the first thing the process does - must already be those of a ray walk.
func init() {
	childOps["rawline"] = true
	registerEval("rawline", func(a []string) string {
		seed, _ := strconv.ParseInt(a[0], 10, 64)
		n, _ := strconv.Atoi(a[1])
		r := rand.New(rand.NewSource(seed))
		ray := func(occ uint64, sq int, dirs [][2]int) uint64 {
			var ret uint64
			for _, d := range dirs {
				f, rk := sq%8+d[0], sq/8+d[1]
				for f >= 0 && f < 8 && rk >= 0 && rk < 8 {
					ret |= 1 << uint(rk*8+f)
					if occ&(1<<uint(rk*8+f)) != 0 {
						break
					}
					f, rk = f+d[0], rk+d[1]
				}
			}
			return ret
		}
		rookDirs, bishopDirs := [][2]int{{1, 0}, {-1, 0}, {0, 1}, {0, -1}}, [][2]int{{1, 1}, {1, -1}, {-1, 1}, {-1, -1}}
		for i := 0; i < n; i++ {
			occ := r.Uint64() & r.Uint64()
			if i == 0 {
				occ = 0
			}
			sq := r.Intn(64)
			var rb board.RotatedBitboard // NOT NewRotatedBitboard: the zero value and Xor only
			for s := 0; s < 64; s++ {
				if occ&(1<<uint(s)) != 0 {
					rb = rb.Xor(board.Square(s))
				}
			}
			if uint64(rb.Mask()) != occ {
				return fmt.Sprintf("MISMATCH zero-value+Xor occupancy %x reads back as %x", occ, uint64(rb.Mask()))
			}
			wr, wb := ray(occ, sq, rookDirs), ray(occ, sq, bishopDirs)
			if seed%2 == 0 { // the queen first: in these runs it is the very first slider lookup of the process
				if got := uint64(board.QueenAttackboard(rb, board.Square(sq))); got != wr|wb {
					return fmt.Sprintf("MISMATCH first queries of a process: queen on %d, occupancy %x (zero value + Xor), asked before rook and bishop: %x, ray walk %x", sq, occ, got, wr|wb)
				}
			}
			if got := uint64(board.RookAttackboard(rb, board.Square(sq))); got != wr {
				return fmt.Sprintf("MISMATCH first queries of a process: rook on %d, occupancy %x (zero value + Xor): %x, ray walk %x", sq, occ, got, wr)
			}
			if got := uint64(board.BishopAttackboard(rb, board.Square(sq))); got != wb {
				return fmt.Sprintf("MISMATCH first queries of a process: bishop on %d, occupancy %x (zero value + Xor): %x, ray walk %x", sq, occ, got, wb)
			}
			if got := uint64(board.QueenAttackboard(rb, board.Square(sq))); got != wr|wb {
				return fmt.Sprintf("MISMATCH first queries of a process: queen on %d, occupancy %x (zero value + Xor): %x, ray walk %x", sq, occ, got, wr|wb)
			}
		}
		return "ok"
	})
}
