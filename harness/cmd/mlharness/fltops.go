package main

import (
	"fmt"
	"math"
	"math/rand"
	"strconv"
)

// flt ops: Go's float32/float64 arithmetic against the exact rational model (Model.Flt), bit for bit.

func fmt32(f float32) string {
	if math.IsInf(float64(f), 0) || math.IsNaN(float64(f)) {
		return "none"
	}
	if f == 0 {
		return "0"
	}
	return strconv.FormatUint(uint64(math.Float32bits(f)), 16)
}

func fmt64(f float64) string {
	if math.IsInf(f, 0) || math.IsNaN(f) {
		return "none"
	}
	if f == 0 {
		return "0"
	}
	return strconv.FormatUint(math.Float64bits(f), 16)
}

func init() {
	registerEval("flt", func(a []string) string {
		x, _ := strconv.ParseUint(a[1], 16, 64)
		var y uint64
		if len(a) > 2 {
			y, _ = strconv.ParseUint(a[2], 16, 64)
		}
		a32, b32 := math.Float32frombits(uint32(x)), math.Float32frombits(uint32(y))
		a64, b64 := math.Float64frombits(x), math.Float64frombits(y)
		bad32 := func(f float32) bool { return math.IsInf(float64(f), 0) || math.IsNaN(float64(f)) }
		bad64 := func(f float64) bool { return math.IsInf(f, 0) || math.IsNaN(f) }
		switch a[0] {
		case "cvt":
			if bad64(a64) {
				return "none"
			}
			return fmt32(float32(a64))
		case "ext":
			if bad32(a32) {
				return "none"
			}
			return fmt64(float64(a32))
		case "sqrt64":
			if bad64(a64) {
				return "none"
			}
			return fmt64(math.Sqrt(a64))
		case "round64":
			if bad64(a64) {
				return "none"
			}
			return strconv.FormatInt(int64(math.Round(a64)), 10)
		case "trunc32":
			if bad32(a32) {
				return "none"
			}
			return strconv.FormatInt(int64(a32), 10)
		case "ofint32":
			return fmt32(float32(int64(x) - 4294967296))
		}
		if len(a) < 3 {
			return "bad-op"
		}
		switch a[0] {
		case "add32", "sub32", "mul32", "div32", "lt32":
			if bad32(a32) || bad32(b32) {
				return "none"
			}
			switch a[0] {
			case "add32":
				return fmt32(a32 + b32)
			case "sub32":
				return fmt32(a32 - b32)
			case "mul32":
				return fmt32(a32 * b32)
			case "div32":
				if b32 == 0 {
					return "none"
				}
				return fmt32(a32 / b32)
			default:
				return fmt.Sprintf("%v %v", a32 < b32, a32 == b32)
			}
		case "add64", "sub64", "mul64", "div64":
			if bad64(a64) || bad64(b64) {
				return "none"
			}
			switch a[0] {
			case "add64":
				return fmt64(a64 + b64)
			case "sub64":
				return fmt64(a64 - b64)
			case "mul64":
				return fmt64(a64 * b64)
			default:
				if b64 == 0 {
					return "none"
				}
				return fmt64(a64 / b64)
			}
		}
		return "bad-op"
	})
	register("flt", genFlt)
}

// interesting float32 values: small (half-)integers and tenths as the evaluators produce them, plus random bit patterns
func rand32(r *rand.Rand) float32 {
	switch r.Intn(8) {
	case 0:
		return float32(r.Intn(400)-200) / 2
	case 1:
		return float32(r.Intn(4000)-2000) / 10
	case 2:
		return float32(r.Intn(2000000)-1000000) / 1000
	case 3:
		return float32(r.Intn(230))
	case 4:
		return math.Float32frombits(r.Uint32())
	case 5: // near the ends of the range (overflow, subnormals)
		return math.Float32frombits(uint32(r.Intn(1<<25)) | uint32(r.Intn(2))<<31)
	case 6:
		return math.Float32frombits(0x7f000000 + uint32(r.Intn(1<<23)))
	default:
		return float32(r.NormFloat64() * 100)
	}
}

func rand64(r *rand.Rand) float64 {
	switch r.Intn(7) {
	case 0:
		return float64(r.Intn(300))
	case 1:
		return float64(rand32(r))
	case 2:
		return float64(rand32(r)) * 100
	case 3:
		return math.Float64frombits(r.Uint64())
	case 4:
		return float64(r.Intn(100000))/100 + 0.5
	case 5:
		return math.Float64frombits(uint64(r.Int63n(1 << 54)))
	default:
		return r.NormFloat64() * 1000
	}
}

func genFlt(o *Out, r *rand.Rand, thorough bool) {
	n := 4000
	if thorough {
		n = 400000
	}
	h32 := func(f float32) string { return strconv.FormatUint(uint64(math.Float32bits(f)), 16) }
	h64 := func(f float64) string { return strconv.FormatUint(math.Float64bits(f), 16) }
	for i := 0; i < 300; i++ { // every square root the evaluators can ask for
		o.do("flt sqrt64 " + h64(float64(i)))
		o.do("flt round64 " + h64(10*math.Sqrt(float64(i))))
	}
	for i := 0; i < n; i++ {
		var line string
		switch r.Intn(12) {
		case 0:
			line = "flt cvt " + h64(rand64(r))
		case 1:
			line = "flt ext " + h32(rand32(r))
		case 2:
			line = "flt sqrt64 " + h64(math.Abs(rand64(r)))
		case 3:
			line = "flt round64 " + h64(math.Mod(rand64(r), 1e15))
		case 4:
			f := rand32(r)
			if f > 1e15 || f < -1e15 {
				f = 1
			}
			line = "flt trunc32 " + h32(f)
		case 5:
			line = "flt ofint32 " + strconv.FormatUint(uint64(4294967296+int64(r.Intn(1<<26))-(1<<25)), 16)
		case 6:
			op := []string{"add64", "sub64", "mul64", "div64"}[r.Intn(4)]
			line = "flt " + op + " " + h64(rand64(r)) + " " + h64(rand64(r))
		default:
			op := []string{"add32", "sub32", "mul32", "div32", "lt32"}[r.Intn(5)]
			line = "flt " + op + " " + h32(rand32(r)) + " " + h32(rand32(r))
		}
		o.do(line)
		o.Nontrivial(line)
		o.Count("flt:" + line[4:8])
	}
}
