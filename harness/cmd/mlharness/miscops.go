package main

import (
	"context"
	"fmt"
	"math"
	"math/rand"
	"strconv"
	"strings"
	"sync"
	"sync/atomic"
	"time"
	"unicode"

	"github.com/herohde/morlock/cmd/bernstein/bernstein"
	"github.com/herohde/morlock/cmd/sargon/sargon"
	"github.com/herohde/morlock/cmd/turochamp/turochamp"
	"github.com/herohde/morlock/pkg/board"
	"github.com/herohde/morlock/pkg/board/fen"
	"github.com/herohde/morlock/pkg/engine"
	"github.com/herohde/morlock/pkg/eval"
	"github.com/herohde/morlock/pkg/search"
	"github.com/herohde/morlock/pkg/search/searchctl"
	"github.com/seekerror/stdlib/pkg/lang"
)

// ================================ C15 =========================================================

func init() {
	registerEval("limits", func(a []string) string {
		w, _ := strconv.ParseInt(a[0], 10, 64)
		b, _ := strconv.ParseInt(a[1], 10, 64)
		m, _ := strconv.ParseInt(a[2], 10, 64)
		tc := searchctl.TimeControl{White: time.Duration(w), Black: time.Duration(b), Moves: int(m)}
		c := parseColorArg(a[3])
		soft, hard := tc.Limits(c)
		rem := w
		if c == board.Black {
			rem = b
		}
		return fmt.Sprintf("%d %d ok=%v", int64(soft), int64(hard), 0 <= soft && soft <= hard && int64(hard) <= rem)
	})
	registerEval("iter", func(a []string) string {
		// iter <limit> <fen6> ; moves  -- iterative deepening through Engine.Analyze on the plain engine
		limit, _ := strconv.Atoi(a[0])
		i := 1
		for i < len(a) && a[i] != ";" {
			i++
		}
		e := newEngine(0, engine.Options{})
		ctx := context.Background()
		if err := e.Reset(ctx, strings.Join(a[1:i], " ")); err != nil {
			return "err"
		}
		for i++; i < len(a); i++ {
			if err := e.Move(ctx, strings.TrimPrefix(a[i], "m:")); err != nil {
				return "err-move"
			}
		}
		before := e.Position() + " " + obsBoard(zobrist(0), e.Board())
		out, err := e.Analyze(ctx, searchctl.Options{DepthLimit: lang.Some(uint(limit))})
		if err != nil {
			return "err-analyze"
		}
		var seen []search.PV
		done := make(chan struct{})
		go func() {
			for pv := range out {
				seen = append(seen, pv)
			}
			close(done)
		}()
		select {
		case <-done:
		case <-time.After(20 * time.Second * loadScale()):
			return "hang"
		}
		last, herr := e.Halt(ctx)
		after := e.Position() + " " + obsBoard(zobrist(0), e.Board())
		increasing, faithful := true, true
		ab, _ := searchCfg("full-static")
		for k, pv := range seen {
			if k > 0 && seen[k-1].Depth >= pv.Depth {
				increasing = false
			}
			_, s, moves, _ := ab.Search(ctx, &search.Context{TT: search.NoTranspositionTable{}}, e.Board(), pv.Depth)
			if s != pv.Score || pvStr(moves) != pvStr(pv.Moves) {
				faithful = false
			}
		}
		lastSeen := "none"
		if len(seen) > 0 {
			l := seen[len(seen)-1]
			lastSeen = fmt.Sprintf("%d:%s:%s", l.Depth, fmtScore(l.Score), pvStr(l.Moves))
		}
		return fmt.Sprintf("last=%s halt=%d:%s:%s:%v increasing=%v faithful=%v untouched=%v", lastSeen, last.Depth, fmtScore(last.Score), pvStr(last.Moves), herr == nil, increasing, faithful, before == after)
	})
	registerEval("iterlate", func(a []string) string {
		// iterlate <limit> <fen6>: the listener reads the reports only after the analysis has had time to finish (tiny trees,
		// limits beyond any buffer size): what it then finds must end with the deepest completed iteration - the limit, or the
		// depth at which a forced mate within the depth ended it - and that is what Halt returns
		limit, _ := strconv.Atoi(a[0])
		e := newEngine(0, engine.Options{})
		ctx := context.Background()
		if err := e.Reset(ctx, strings.Join(a[1:], " ")); err != nil {
			return "err"
		}
		out, err := e.Analyze(ctx, searchctl.Options{DepthLimit: lang.Some(uint(limit))})
		if err != nil {
			return "err-analyze"
		}
		time.Sleep(400 * time.Millisecond * loadScale())
		var seen []search.PV
		done := make(chan struct{})
		go func() {
			for pv := range out {
				seen = append(seen, pv)
			}
			close(done)
		}()
		select {
		case <-done:
		case <-time.After(20 * time.Second * loadScale()):
			return "hang"
		}
		last, _ := e.Halt(ctx)
		if len(seen) == 0 {
			return "MISMATCH nothing reported"
		}
		l := seen[len(seen)-1]
		ab, _ := searchCfg("full-static")
		_, s, moves, _ := ab.Search(ctx, &search.Context{TT: search.NoTranspositionTable{}}, e.Board(), l.Depth)
		if s != l.Score || pvStr(moves) != pvStr(l.Moves) {
			return fmt.Sprintf("MISMATCH last report of depth %d is not the result of a direct search to that depth", l.Depth)
		}
		if l.Depth != limit && !mateWithin(l.Score, l.Depth) {
			return fmt.Sprintf("MISMATCH analysis with depth limit %d ended with a last report of depth %d (score %s)", limit, l.Depth, fmtScore(l.Score))
		}
		if last.Depth != l.Depth || last.Score != l.Score {
			return fmt.Sprintf("MISMATCH Halt returns depth %d, the last report has depth %d", last.Depth, l.Depth)
		}
		for k := 1; k < len(seen); k++ {
			if seen[k-1].Depth >= seen[k].Depth {
				return "MISMATCH report depths not increasing"
			}
		}
		return "ok"
	})
	registerEval("reanalyse", func(a []string) string {
		// reanalyse <kind> <hashMB> <fen6> ; l1 l2 ... : successive analyses of ONE position on one engine (table kept between
		// them) with the given depth limits: each reports exactly the depths 1..limit (or stops at a forced mate within the depth),
		// every report equal to a direct table-free search of that depth, and ends by itself
		kind := a[0]
		hash, _ := strconv.Atoi(a[1])
		i := 2
		for i < len(a) && a[i] != ";" {
			i++
		}
		start := strings.Join(a[2:i], " ")
		ctx := context.Background()
		var e *engine.Engine
		if kind == "morlock" {
			e = engine.New(ctx, kind, "x", search.AlphaBeta{Eval: search.Leaf{Eval: eval.Material{}}}, engine.WithOptions(engine.Options{Hash: uint(hash)}),
				engine.WithTable(search.NewMinDepthTranspositionTable(1)))
		} else {
			e = engine.New(ctx, kind, "x", histEngines()[kind](&gate{}), engine.WithOptions(engine.Options{Hash: uint(hash)}))
		}
		if err := e.Reset(ctx, start); err != nil {
			return "err"
		}
		ref := histEngines()["plain"](&gate{})
		if kind != "morlock" {
			ref = histEngines()[kind](&gate{})
		}
		optDepth := 0
		for _, ls := range a[i+1:] {
			if strings.HasPrefix(ls, "h") {
				// h<N>: the user changes the hash size (0 = off) and starts the game anew on the same position; from then on the
				// table in use is the one just configured - with 0, none: the old one must be gone, contents and all
				n, err := strconv.Atoi(ls[1:])
				if err != nil {
					continue
				}
				e.SetHash(uint(n))
				if err := e.Reset(ctx, start); err != nil {
					return "err-reset"
				}
				hash = n
				continue
			}
			if strings.HasPrefix(ls, "o") {
				// o<N>: the user configures the engine's own depth (what an analysis without an explicit limit searches to)
				n, err := strconv.Atoi(ls[1:])
				if err != nil {
					continue
				}
				e.SetDepth(uint(n))
				optDepth = n
				continue
			}
			sopt := searchctl.Options{}
			limit, err := strconv.Atoi(ls)
			if ls == "-" {
				// no explicit limit: the configured depth applies - whatever explicit limits earlier analyses carried
				if optDepth == 0 {
					continue
				}
				limit, err = optDepth, nil
			} else {
				sopt.DepthLimit = lang.Some(uint(limit))
			}
			if err != nil {
				continue
			}
			optsBefore := e.Options()
			out, err := e.Analyze(ctx, sopt)
			if err != nil {
				return "err-analyze"
			}
			if e.Options() != optsBefore {
				return fmt.Sprintf("MISMATCH an analysis (limit %q) changed the engine's options from %v to %v", ls, optsBefore, e.Options())
			}
			var seen []search.PV
			done := make(chan struct{})
			go func() {
				for pv := range out {
					seen = append(seen, pv)
				}
				close(done)
			}()
			select {
			case <-done:
			case <-time.After(30 * time.Second * loadScale()):
				e.Halt(ctx)
				var ds []int
				for _, pv := range seen {
					ds = append(ds, pv.Depth)
				}
				return fmt.Sprintf("MISMATCH analysis with depth limit %d did not end by itself; reported depths %v", limit, ds)
			}
			e.Halt(ctx)
			if len(seen) == 0 {
				return fmt.Sprintf("MISMATCH analysis with depth limit %d reported nothing", limit)
			}
			lastD := 0
			for _, pv := range seen {
				if pv.Depth <= lastD || pv.Depth > limit {
					return fmt.Sprintf("MISMATCH analysis with depth limit %d reported depth %d after depth %d", limit, pv.Depth, lastD)
				}
				lastD = pv.Depth
				nodes, sc, moves, err := ref.Search(ctx, &search.Context{TT: search.NoTranspositionTable{}}, e.Board(), pv.Depth)
				if err != nil || sc != pv.Score {
					return fmt.Sprintf("MISMATCH limit %d: depth %d reported score %s, a direct table-free search gives %s", limit, pv.Depth, fmtScore(pv.Score), fmtScore(sc))
				}
				if hash == 0 && (nodes != pv.Nodes || fmt.Sprint(moves) != fmt.Sprint(pv.Moves) || pv.Hash != 0) {
					// with the hash off the analysis IS the table-free search: same line, same work, nothing reported in use
					return fmt.Sprintf("MISMATCH limit %d with the hash off: depth %d reported pv %v, %d nodes, table use %v; a direct table-free search gives %v, %d nodes",
						limit, pv.Depth, pv.Moves, pv.Nodes, pv.Hash, moves, nodes)
				}
			}
			// the channel keeps only the latest report, so gaps are possible; the first analysis' end is not: the limit or a mate
			if lastD != limit && !mateWithin(seen[len(seen)-1].Score, lastD) {
				return fmt.Sprintf("MISMATCH analysis with depth limit %d ended at depth %d", limit, lastD)
			}
		}
		return "ok"
	})
	registerEval("resetrace", func(a []string) string {
		// resetrace <n> <hashMB>: Analyze, then Reset to the same position with the same table size while the halted search may
		// still be unwinding (Halt only signals it), n times; meant for the race-detector build. Afterwards the engine must work.
		n, _ := strconv.Atoi(a[0])
		hash, _ := strconv.Atoi(a[1])
		ctx := context.Background()
		e := engine.New(ctx, "r", "x", search.AlphaBeta{Eval: search.Leaf{Eval: eval.Material{}}}, engine.WithOptions(engine.Options{Hash: uint(hash)}))
		start := "r3k2r/p1ppqpb1/bn2pnp1/3PN3/1p2P3/2N2Q1p/PPPBBPPP/R3K2R w KQkq - 0 1"
		for k := 0; k < n; k++ {
			if err := e.Reset(ctx, start); err != nil {
				return "err"
			}
			out, err := e.Analyze(ctx, searchctl.Options{})
			if err != nil {
				return "err-analyze"
			}
			go func() {
				for range out {
				}
			}()
			time.Sleep(time.Duration(1+k%7) * time.Millisecond)
		}
		if err := e.Reset(ctx, fen.Initial); err != nil {
			return "err"
		}
		o2, err := e.Analyze(ctx, searchctl.Options{DepthLimit: lang.Some(uint(2))})
		if err != nil {
			return "err-analyze"
		}
		var last search.PV
		for pv := range o2 {
			last = pv
		}
		e.Halt(ctx)
		if last.Depth != 2 || len(last.Moves) == 0 {
			return "MISMATCH the engine does not analyse any more after the resets"
		}
		return "ok"
	})
	registerEval("halttc", func(a []string) string {
		// halttc <clock-ms> <wait-ms> <fen6>: an analysis under a time control whose hard limit passes (the engine's own timer halts
		// the search), and only then the user's Halt - twice: both must return the deepest iteration that was reported, a result
		// of a direct search of that depth
		clock, _ := strconv.Atoi(a[0])
		wait, _ := strconv.Atoi(a[1])
		e := newEngine(0, engine.Options{})
		ctx := context.Background()
		if err := e.Reset(ctx, strings.Join(a[2:], " ")); err != nil {
			return "err"
		}
		tc := searchctl.TimeControl{White: time.Duration(clock) * time.Millisecond, Black: time.Duration(clock) * time.Millisecond}
		out, err := e.Analyze(ctx, searchctl.Options{TimeControl: lang.Some(tc)})
		if err != nil {
			return "err-analyze"
		}
		var seen []search.PV
		done := make(chan struct{})
		go func() {
			for pv := range out {
				seen = append(seen, pv)
			}
			close(done)
		}()
		time.Sleep(time.Duration(wait) * time.Millisecond * loadScale())
		first, _ := e.Board(), 0
		_ = first
		pv1, _ := e.Halt(ctx)
		select {
		case <-done:
		case <-time.After(20 * time.Second * loadScale()):
			return "hang"
		}
		pv2, _ := e.Halt(ctx)
		deepest := 0
		for _, pv := range seen {
			if pv.Depth > deepest {
				deepest = pv.Depth
			}
		}
		if pv1.Depth < deepest || pv1.Depth == 0 {
			return fmt.Sprintf("MISMATCH Halt after the hard limit returned depth %d although depth %d was reported", pv1.Depth, deepest)
		}
		ab, _ := searchCfg("full-static")
		_, s, moves, _ := ab.Search(ctx, &search.Context{TT: search.NoTranspositionTable{}}, e.Board(), pv1.Depth)
		if s != pv1.Score || pvStr(moves) != pvStr(pv1.Moves) {
			return fmt.Sprintf("MISMATCH Halt returned a depth-%d result that a direct search of that depth does not give", pv1.Depth)
		}
		if pv2.Depth != 0 && (pv2.Depth != pv1.Depth || pv2.Score != pv1.Score) {
			return fmt.Sprintf("MISMATCH a second Halt returned depth %d, the first depth %d", pv2.Depth, pv1.Depth)
		}
		return "ok"
	})
	registerEval("iterhalt", func(a []string) string {
		// iterhalt <gateN> <fen6>: a halt that arrives while depth 1 is still running must wait for it
		n, _ := strconv.Atoi(a[0])
		g := &gate{}
		e, _ := bundledEngine("plain", 0, g)
		ctx := context.Background()
		if err := e.Reset(ctx, strings.Join(a[1:], " ")); err != nil {
			return "err"
		}
		legal := len(e.Board().Position().LegalMoves(e.Board().Turn())) > 0
		g.arm(n)
		out, err := e.Analyze(ctx, searchctl.Options{})
		if err != nil {
			return "err-analyze"
		}
		var maxSeen int32
		go func() {
			for pv := range out {
				atomic.StoreInt32(&maxSeen, int32(pv.Depth))
			}
		}()
		select {
		case <-g.parked:
		case <-time.After(2 * time.Second * loadScale()):
			e.Halt(ctx)
			return "halt-complete=true" // fewer than n evaluations in the whole search: nothing to test
		}
		reported := atomic.LoadInt32(&maxSeen)
		res := make(chan search.PV, 1)
		go func() {
			pv, _ := e.Halt(ctx)
			res <- pv
		}()
		time.Sleep(15 * time.Millisecond)
		close(g.release)
		select {
		case pv := <-res:
			ok := pv.Depth >= 1 && int32(pv.Depth) >= reported && (len(pv.Moves) > 0 || !legal)
			return fmt.Sprintf("halt-complete=%v", ok)
		case <-time.After(10 * time.Second * loadScale()):
			return "hang"
		}
	})
	register("c15", func(o *Out, r *rand.Rand, thorough bool) {
		o.do(ztableLine(0))
		// (1) time-control arithmetic: dense grid + random 64-bit values
		ms := int64(time.Millisecond)
		clocks := []int64{0, 1, 2, 3, 79, 80, 81, ms, 7 * ms, 999 * ms, 1000 * ms, 60000 * ms, 3600000 * ms, 1 << 40, 1 << 50, 1<<62 - 1,
			-1, -81, -500 * ms, -(1 << 50), -(1<<62 - 1)} // negative: a clock that has run out (C15LimitsNeg)
		for _, w := range clocks {
			for _, m := range []int64{0, 1, 2, 3, 10, 39, 40, 41, 100, 1 << 20, 1<<31 - 1, 1 << 31, 1<<62 - 1, 1 << 62, 1<<63 - 2, 1<<63 - 1, -1, -(1 << 62), -(1 << 63)} {
				for _, c := range []string{"w", "b"} {
					o.do(fmt.Sprintf("limits %d %d %d %s", w, clocks[r.Intn(len(clocks))], m, c))
					o.do(fmt.Sprintf("limits %d %d %d %s", clocks[r.Intn(len(clocks))], w, m, c))
					o.Count("limits:grid")
				}
			}
		}
		n := 2000
		if thorough {
			n = 200000
		}
		for i := 0; i < n; i++ {
			w, b, m := r.Int63n(1<<uint(1+r.Intn(62))), r.Int63n(1<<uint(1+r.Intn(62))), r.Int63n(1<<uint(1+r.Intn(62)))
			if r.Intn(6) == 0 { // close to the top of the range: Moves+1 and 2*(Moves+1) wrap there
				m = 1<<63 - 1 - r.Int63n(1<<uint(1+r.Intn(20)))
			}
			if r.Intn(10) == 0 {
				w, m = -w, -m // outside the property: model must still agree
			}
			o.do(fmt.Sprintf("limits %d %d %d %s", w, b, m, []string{"w", "b"}[r.Intn(2)]))
			o.Count("limits:random")
			o.Nontrivial(fmt.Sprint(w, b, m))
		}
		// (2) iterative deepening: each reported depth equals a direct fixed-depth search; stops at the
		//     limit or at a forced mate within the depth; halting returns a completed iteration
		k := 40
		if thorough {
			k = 1500
		}
		for i := 0; i < k; i++ {
			start, moves, b := randomLine(r, 12)
			limit := 1 + r.Intn(3)
			if pieceCount(b) <= 5 {
				limit = 2 + r.Intn(4)
			}
			line := fmt.Sprintf("iter %d %s ; %s", limit, start, strings.Join(moves, " "))
			res := o.do(line)
			o.Count("iter")
			if strings.Contains(res, "last=") && !strings.Contains(res, fmt.Sprintf("last=%d:", limit)) {
				o.Count("iter:stopped-early-on-mate")
			}
			o.Nontrivial(line)
		}
		// the bundled wirings: quiescence leaves report mates beyond the depth, also for the side being mated
		kinds := []string{"turochamp", "turochamp", "sargon", "bernstein", "plain"}
		for i := 0; i < k; i++ {
			start, moves, b := randomLine(r, 8)
			if i%2 == 0 { // sparse mating positions, either side to move
				start = mateStarts[r.Intn(len(mateStarts))]
				_, moves, b = randomLineFrom(r, start, r.Intn(3))
			}
			kind := kinds[r.Intn(len(kinds))]
			limit := 1 + r.Intn(2)
			if pieceCount(b) <= 5 {
				limit = 2 + r.Intn(2)
			}
			line := fmt.Sprintf("published iterx %s %d %s ; %s", kind, limit, start, strings.Join(moves, " "))
			o.do(line)
			o.Count("iterx:" + kind)
			o.Nontrivial(line)
		}
		// (2b) a listener that comes late: tiny trees, limits beyond any plausible buffer
		for k, f := range []string{"7k/5Q2/6K1/8/8/8/8/8 b - - 0 1", "5k2/5P2/5K2/8/8/8/8/8 b - - 0 1", "7k/7P/7K/8/8/8/8/8 b - - 0 1", "k7/8/K7/8/8/8/8/8 b - - 0 1"} {
			for _, lim := range []int{3, 17, 40, 200} { // 200: beyond the 127 an int8 ply counter would suggest
				if k == 3 && lim > 3 { // the last one has a (small) tree: K v K is not drawn until a capture leads to it
					lim = 9
				}
				if lim == 40 && !thorough && r.Intn(2) == 0 {
					continue
				}
				if lim == 200 && k != 0 && !thorough {
					continue
				}
				line := fmt.Sprintf("published iterlate %d %s", lim, f)
				o.do(line)
				o.Count("iterlate")
				o.Nontrivial(line)
			}
		}
		// (2b') the engine's own timer halts first, the user's Halt comes second
		for i := 0; i < 2; i++ {
			line := fmt.Sprintf("published halttc %d %d %s", []int{400, 1200}[i], []int{150, 250}[i], []string{fen.Initial, "r3k2r/p1ppqpb1/bn2pnp1/3PN3/1p2P3/2N2Q1p/PPPBBPPP/R3K2R w KQkq - 0 1"}[i])
			o.do(line)
			o.Count("halttc")
			o.Nontrivial(line)
		}
		// (2c) successive analyses of one position with different limits on one engine, table kept between them
		ra := 4
		if thorough {
			ra = 60
		}
		for i := 0; i < ra; i++ {
			kind := []string{"morlock", "plain", "plain", "turochamp"}[i%4]
			start := corpus[r.Intn(len(corpus))]
			if i%2 == 0 {
				start = fen.Initial
			}
			lims := [][]int{{4, 2, 1, 3}, {3, 3, 1}, {2, 4, 2}, {1, 3, 2, 4}}[r.Intn(4)]
			if kind == "turochamp" {
				lims = [][]int{{2, 1, 2}, {1, 2, 1}}[r.Intn(2)]
			}
			var ls []string
			for _, l := range lims {
				ls = append(ls, strconv.Itoa(l))
			}
			if i%2 == 1 && len(ls) > 2 {
				// the table is switched off (and, in longer lists, on again) between two analyses
				ls = append(ls[:2:2], append([]string{"h0"}, ls[2:]...)...)
				if len(ls) > 4 {
					ls = append(ls[:4:4], append([]string{"h1"}, ls[4:]...)...)
				}
			}
			hs := []int{0, 1, 1, 2}[r.Intn(4)]
			if i == 1 {
				hs = 1
			}
			if i%4 == 2 || i%4 == 3 {
				// the engine's own depth, used by analyses without an explicit limit, before and after analyses with one
				deep := "3"
				if kind == "turochamp" {
					deep = "2"
				}
				ls = append([]string{"o2", "-"}, append(ls, "-", "o1", "-", deep, "-")...)
			}
			line := fmt.Sprintf("published reanalyse %s %d %s ; %s", kind, hs, start, strings.Join(ls, " "))
			o.do(line)
			o.Count("reanalyse:" + kind)
			o.Nontrivial(line)
		}
		// (3) the clock through the UCI driver: whatever else the go command carries (increments, moves to go), an open-ended
		// search is ended before the time left on the mover's clock runs out - the answer must be there when the flag would fall
		// (the wait is the time left; on an oversubscribed machine it is stretched, the engine's own timer is not)
		cl := 3
		if thorough {
			cl = 30
		}
		for i := 0; i < cl; i++ {
			left := []int{1500, 2500, 4000}[r.Intn(3)]
			other := []int{left, 100, 600000}[r.Intn(3)]
			g := fmt.Sprintf("go wtime %d btime %d", left, other)
			switch i % 3 {
			case 0: // a large increment is not time on the clock
				inc := []int{60000, 600000, 3600000}[r.Intn(3)]
				g += fmt.Sprintf(" winc %d binc %d", inc, inc)
			case 1:
				g += fmt.Sprintf(" movestogo %d", []int{1, 2, 30}[r.Intn(3)])
			default:
				g += fmt.Sprintf(" winc %d binc 0 movestogo %d", []int{1000, 100000}[r.Intn(2)], []int{1, 5}[r.Intn(2)])
			}
			line := fmt.Sprintf("published uci-monitor clock-through-uci ; uci plain 0 ; slow 200 ;; > position startpos ;; > %s ;; wait-bestmove %d ;; sync", g, left)
			o.do(line)
			o.Count("uci-clock")
			o.Nontrivial(line)
		}
		// the side to move is being mated, and the quiescence leaves see the mate beyond the depth (score M-k with k > depth)
		for i := 0; i < k/8+3; i++ {
			if f, ok := matedBeyondDepth(r); ok {
				line := fmt.Sprintf("published iterx turochamp %d %s ; ", 2+r.Intn(2), f)
				o.do(line)
				o.Count("iterx:mated-beyond-depth")
				o.Nontrivial(line)
			}
		}
		for i := 0; i < k/8+2; i++ {
			start, moves, _ := randomLine(r, 6)
			if i%2 == 0 {
				start, moves = fen.Initial, []string{"m:e2e4", "m:e7e5", "m:g1f3", "m:b8c6", "m:f1c4", "m:f8c5"}[:2*r.Intn(4)]
			}
			line := fmt.Sprintf("published iterseq plain %d %d %s ; %s", []int{0, 0, 3}[i%3], 1+r.Intn(2), start, strings.Join(moves, " "))
			o.do(line)
			o.Count("iterseq")
			o.Nontrivial(line)
		}
		for i := 0; i < k/2; i++ {
			start := corpus[r.Intn(len(corpus))]
			gateN := 1 + r.Intn(40)
			if r.Intn(3) == 0 {
				gateN = 1 + r.Intn(3)
			}
			line := fmt.Sprintf("iterhalt %d %s", gateN, start)
			o.do(line)
			o.Count("iterhalt")
			o.Nontrivial(line)
		}
	})
}

// matedBeyondDepth looks for a sparse position in which the TUROCHAMP wiring, searching one ply, already reports that the side
// to move is mated in more than one ply (its quiescence follows mating moves beyond the horizon).
func matedBeyondDepth(r *rand.Rand) (string, bool) {
	s := histEngines()["turochamp"](&gate{})
	for tries := 0; tries < 400; tries++ {
		f, ok := synthetic(r)
		if !ok {
			continue
		}
		b := boardFromLine(f, nil)
		if pieceCount(b) > 5 || b.Position().IsChecked(b.Turn()) {
			continue
		}
		_, sc, _, err := s.Search(context.Background(), &search.Context{TT: search.NoTranspositionTable{}}, b, 1)
		if err == nil && sc.Type == eval.MateInX && sc.Mate < -1 {
			return f, true
		}
	}
	return "", false
}

// wiredEngine builds an engine around ONE search object of the given kind (as the binaries do), noise off, no hash table.
func wiredEngine(kind string, depth uint) (*engine.Engine, search.Search) {
	s := histEngines()[kind](&gate{})
	return engine.New(context.Background(), kind, "x", s, engine.WithOptions(engine.Options{Depth: depth})), s
}

// mateWithin reads the raw score fields (not Score.MateDistance): a forced mate, for either side, within d plies.
func mateWithin(sc eval.Score, d int) bool {
	if sc.Type == eval.Inf || sc.Type == eval.NegInf {
		return true // the game is already decided: a mate in zero plies
	}
	if sc.Type != eval.MateInX {
		return false
	}
	m := int(sc.Mate)
	if m < 0 {
		m = -m
	}
	return m <= d
}

func init() {
	registerEval("iterx", func(a []string) string {
		// iterx <kind> <limit> <fen6> ; moves: iterative deepening on the bundled engine wirings (quiescence leaves can report
		// mates beyond the depth, for either side): depths 1,2,... each equal to a direct fixed-depth search; the analysis ends at
		// the limit or at the first depth d whose score is a forced mate within d plies - no earlier, no later.
		kind := a[0]
		limit, _ := strconv.Atoi(a[1])
		i := 2
		for i < len(a) && a[i] != ";" {
			i++
		}
		start := strings.Join(a[2:i], " ")
		var moves []string
		if i < len(a) {
			moves = a[i+1:]
		}
		ctx := context.Background()
		e, _ := wiredEngine(kind, 0)
		if err := e.Reset(ctx, start); err != nil {
			return "err"
		}
		var played []string // the game as it stands: take-backs ("tb") remove the last move
		for _, m := range moves {
			if m == "tb" {
				if e.TakeBack(ctx) != nil || len(played) == 0 {
					return "err-takeback"
				}
				played = played[:len(played)-1]
				continue
			}
			if m != "" && e.Move(ctx, strings.TrimPrefix(m, "m:")) != nil {
				return "err-move"
			}
			if m != "" {
				played = append(played, m)
			}
		}
		moves = played
		out, err := e.Analyze(ctx, searchctl.Options{DepthLimit: lang.Some(uint(limit))})
		if err != nil {
			return "err-analyze"
		}
		var pvs []search.PV
		done := make(chan struct{})
		go func() {
			for pv := range out {
				pvs = append(pvs, pv)
			}
			close(done)
		}()
		select {
		case <-done:
		case <-time.After(60 * time.Second * loadScale()):
			e.Halt(ctx)
			return "MISMATCH analysis with a depth limit did not end"
		}
		e.Halt(ctx)
		if len(pvs) == 0 {
			return "MISMATCH no iteration reported"
		}
		for k, pv := range pvs {
			// the report channel keeps only the latest unread report: gaps are possible, going back is not
			if (k == 0 && pv.Depth < 1) || (k > 0 && pv.Depth <= pvs[k-1].Depth) {
				return fmt.Sprintf("MISMATCH depths out of order at report %d: depth %d", k, pv.Depth)
			}
			ref := searchOnce(kind, 0, start, moves, pv.Depth)
			got := fmt.Sprintf("%d %s %s", pv.Nodes, fmtScore(pv.Score), pvStr(pv.Moves))
			if got != ref {
				return fmt.Sprintf("MISMATCH depth %d: analysis=%s direct=%s", pv.Depth, strings.ReplaceAll(got, " ", "_"), strings.ReplaceAll(ref, " ", "_"))
			}
			last := k == len(pvs)-1
			stop := pv.Depth == limit || mateWithin(pv.Score, pv.Depth)
			if stop && !last {
				return fmt.Sprintf("MISMATCH went on after depth %d (limit %d, score %s)", pv.Depth, limit, fmtScore(pv.Score))
			}
			if !stop && last {
				return fmt.Sprintf("MISMATCH ended at depth %d below the limit %d without a forced mate within the depth (score %s)", pv.Depth, limit, fmtScore(pv.Score))
			}
		}
		return "ok"
	})
	registerEval("iterseq", func(a []string) string {
		// iterseq <kind> <default> <first> <fen6> ; moves: two analyses on ONE engine: the first with an explicit depth, the second
		// without. The limit of the first must not outlive it: the second runs to the configured default, or, without a default,
		// until it is halted.
		kind := a[0]
		def, _ := strconv.Atoi(a[1])
		first, _ := strconv.Atoi(a[2])
		i := 3
		for i < len(a) && a[i] != ";" {
			i++
		}
		start := strings.Join(a[3:i], " ")
		var moves []string
		if i < len(a) {
			moves = a[i+1:]
		}
		ctx := context.Background()
		e, _ := wiredEngine(kind, uint(def))
		setup := func() bool {
			if e.Reset(ctx, start) != nil {
				return false
			}
			for _, m := range moves {
				if m != "" && e.Move(ctx, strings.TrimPrefix(m, "m:")) != nil {
					return false
				}
			}
			return true
		}
		if !setup() {
			return "err"
		}
		out, err := e.Analyze(ctx, searchctl.Options{DepthLimit: lang.Some(uint(first))})
		if err != nil {
			return "err-analyze"
		}
		for range out {
		}
		e.Halt(ctx)
		if !setup() {
			return "err"
		}
		out, err = e.Analyze(ctx, searchctl.Options{})
		if err != nil {
			return "err-analyze"
		}
		want := def
		if def == 0 {
			want = first + 2 // no limit at all: it must still be running two depths beyond the first analysis' limit
		}
		var lastPV search.PV
		timeout := time.After(60 * time.Second * loadScale())
		for {
			select {
			case pv, ok := <-out:
				if !ok {
					e.Halt(ctx)
					if mateWithin(lastPV.Score, lastPV.Depth) {
						return "ok"
					}
					if def > 0 && lastPV.Depth == def {
						return "ok"
					}
					return fmt.Sprintf("MISMATCH second analysis ended by itself at depth %d (default %d, first analysis had depth %d)", lastPV.Depth, def, first)
				}
				lastPV = pv
				if def == 0 && pv.Depth >= want {
					e.Halt(ctx)
					return "ok"
				}
				if def > 0 && pv.Depth > def {
					e.Halt(ctx)
					return fmt.Sprintf("MISMATCH went beyond the configured default %d", def)
				}
			case <-timeout:
				e.Halt(ctx)
				return "ok" // too slow to tell
			}
		}
	})
}

// ================================ C17 =========================================================

func ttNew(size uint64, minDepth int) search.TranspositionTable {
	if size == 0 {
		return search.NoTranspositionTable{}
	}
	if minDepth > 0 {
		return search.NewMinDepthTranspositionTable(minDepth)(context.Background(), size)
	}
	return search.NewTranspositionTable(context.Background(), size)
}

func init() {
	registerEval("tt", func(a []string) string {
		size, _ := strconv.ParseUint(a[0], 10, 64)
		minDepth, _ := strconv.Atoi(a[1])
		tt := ttNew(size, minDepth)
		entries := tt.Size() >> 5
		var outs []string
		for _, op := range a[3:] {
			f := strings.Split(op, ":")
			switch f[0] {
			case "w":
				h, _ := strconv.ParseUint(f[1], 16, 64)
				bound, _ := strconv.Atoi(f[2])
				ply, _ := strconv.Atoi(f[3])
				depth, _ := strconv.Atoi(f[4])
				score := parseScore(strings.Join(f[5:8], ":"))
				from, _ := strconv.Atoi(f[8])
				to, _ := strconv.Atoi(f[9])
				promo, _ := strconv.Atoi(f[10])
				ok := tt.Write(board.ZobristHash(h), search.Bound(bound), ply, depth, score, board.Move{From: board.Square(from), To: board.Square(to), Promotion: board.Piece(promo)})
				outs = append(outs, fmt.Sprint(ok))
			case "r":
				h, _ := strconv.ParseUint(f[1], 16, 64)
				bound, depth, score, m, ok := tt.Read(board.ZobristHash(h))
				if !ok {
					outs = append(outs, "miss")
				} else {
					outs = append(outs, fmt.Sprintf("%d:%d:%s:%d-%d-%d", bound, depth, fmtScore(score), m.From, m.To, m.Promotion))
				}
			case "u":
				outs = append(outs, fmt.Sprintf("%d/%d", int(math.Round(tt.Used()*float64(entries))), entries))
			}
		}
		return strings.Join(outs, " ")
	})
	// ttstress <size> <writers> <readers> <hashes> <rounds> <seed>: concurrent use with self-describing payloads
	registerEval("ttstress", func(a []string) string {
		size, _ := strconv.ParseUint(a[0], 10, 64)
		writers, _ := strconv.Atoi(a[1])
		readers, _ := strconv.Atoi(a[2])
		nh, _ := strconv.Atoi(a[3])
		rounds, _ := strconv.Atoi(a[4])
		seed, _ := strconv.ParseInt(a[5], 10, 64)
		tt := search.NewTranspositionTable(context.Background(), size)
		entries := tt.Size() >> 5
		rr := rand.New(rand.NewSource(seed))
		hashes := make([]board.ZobristHash, nh)
		for i := range hashes {
			hashes[i] = board.ZobristHash(rr.Uint64())
		}
		// every stored tuple is a function of (hash index, k): a mixture of two stores is not
		payload := func(hi int, k uint32) (search.Bound, int, int, eval.Score, board.Move) {
			// small replacement values (0..12): about half of the stores replace, so that stores to an
			// occupied slot keep happening throughout the run
			depth := int(k % 5)
			ply := int((k / 5) % 5)
			return search.Bound(k % 2), ply, depth, eval.HeuristicScore(eval.Pawns(float32(k))), // k < 2^20: exact in float32
				board.Move{From: board.Square(k % 64), To: board.Square((k / 64) % 64), Promotion: board.Piece(k % 7)}
		}
		var mixtures, lostHigh, wentDown int64
		ownSlot := make([]bool, nh)
		slotUsers := map[uint64]int{}
		for hi := range hashes {
			slotUsers[uint64(hashes[hi])&(entries-1)]++
		}
		for hi := range hashes {
			ownSlot[hi] = slotUsers[uint64(hashes[hi])&(entries-1)] == 1
		}
		var wg sync.WaitGroup
		type rec struct {
			mu      sync.Mutex
			maxOK   int // largest replacement value of a store that reported success
			written map[uint32]bool
		}
		recs := make([]*rec, nh)
		for i := range recs {
			recs[i] = &rec{written: map[uint32]bool{}}
		}
		stop := int32(0)
		for w := 0; w < writers; w++ {
			wg.Add(1)
			go func(w int) {
				defer wg.Done()
				lr := rand.New(rand.NewSource(seed + int64(w) + 1))
				for i := 0; i < rounds; i++ {
					hi := lr.Intn(nh)
					k := uint32(lr.Intn(1 << 20))
					bound, ply, depth, score, mv := payload(hi, k)
					recs[hi].mu.Lock()
					recs[hi].written[k] = true
					recs[hi].mu.Unlock()
					if tt.Write(hashes[hi], bound, ply, depth, score, mv) {
						v := ply + 2*depth
						recs[hi].mu.Lock()
						if v > recs[hi].maxOK {
							recs[hi].maxOK = v
						}
						recs[hi].mu.Unlock()
					}
				}
			}(w)
		}
		var rg sync.WaitGroup
		for rd := 0; rd < readers; rd++ {
			rg.Add(1)
			go func(rd int) {
				defer rg.Done()
				lr := rand.New(rand.NewSource(seed - int64(rd) - 1))
				lastVal := make([]int, nh)
				for atomic.LoadInt32(&stop) == 0 {
					hi := lr.Intn(nh)
					bound, depth, score, mv, ok := tt.Read(hashes[hi])
					if !ok {
						continue
					}
					// a slot's replacement value never goes down; seen through one hash that owns its slot
					if ownSlot[hi] {
						_, p0, d0, _, _ := payload(hi, uint32(score.Pawns))
						if v := p0 + 2*d0; v < lastVal[hi] {
							atomic.AddInt64(&wentDown, 1)
						} else {
							lastVal[hi] = v
						}
					}
					// the score names the store (k): every other field must be that store's, and that store
					// must have been made for this hash
					k := uint32(score.Pawns)
					b2, _, d2, s2, m2 := payload(hi, k)
					recs[hi].mu.Lock()
					w := recs[hi].written[k]
					recs[hi].mu.Unlock()
					if !(b2 == bound && d2 == depth && s2 == score && m2 == mv && w) {
						atomic.AddInt64(&mixtures, 1)
					}
					u := tt.Used()
					if u < 0 || u > 1 {
						atomic.AddInt64(&mixtures, 1<<20)
					}
				}
			}(rd)
		}
		wg.Wait()
		atomic.StoreInt32(&stop, 1)
		rg.Wait()
		// quiescent checks: fill fraction counts every occupied slot once; the surviving entry of a slot
		// has the largest replacement value among the successful stores to it
		slots := map[uint64]int{}
		for hi := range hashes {
			slot := uint64(hashes[hi]) & (entries - 1)
			if recs[hi].maxOK > 0 || len(recs[hi].written) > 0 {
				_ = slot
			}
			slots[slot] = slots[slot]
		}
		occupied := map[uint64]bool{}
		slotMax := map[uint64]int{}
		for hi := range hashes {
			slot := uint64(hashes[hi]) & (entries - 1)
			if len(recs[hi].written) > 0 {
				occupied[slot] = true // the first store to an empty slot always succeeds
			}
			if recs[hi].maxOK > slotMax[slot] {
				slotMax[slot] = recs[hi].maxOK
			}
		}
		for hi := range hashes {
			slot := uint64(hashes[hi]) & (entries - 1)
			_, d, sc, _, ok := tt.Read(hashes[hi])
			if ok {
				_, ply, _, _, _ := payload(hi, uint32(sc.Pawns))
				if ply+2*d < slotMax[slot] {
					atomic.AddInt64(&lostHigh, 1)
				}
			}
		}
		// rendezvous phase: the writers meet at a barrier and store to one fresh slot at the same moment,
		// one of them an entry of high replacement value, the others low ones. If the high store reports
		// success, no low store may replace it in any interleaving.
		barrierLost := int64(0)
		{
			tb := search.NewTranspositionTable(context.Background(), 1<<22)  // 131072 slots, one per round
			tb2 := search.NewTranspositionTable(context.Background(), 1<<23) // 262144 slots, one per writer and round
			nw := writers
			if nw < 3 {
				nw = 3
			}
			brounds := 20000
			if nw*brounds > 200000 {
				brounds = 200000 / nw
			}
			var arrived int64
			deepOK := make([]bool, brounds)
			var bw sync.WaitGroup
			for w := 0; w < nw; w++ {
				bw.Add(1)
				go func(w int) {
					defer bw.Done()
					for rd := 0; rd < brounds; rd++ {
						atomic.AddInt64(&arrived, 1)
						for spin := 0; atomic.LoadInt64(&arrived) < int64(nw*(rd+1)); spin++ {
							if spin&0x3ff == 0x3ff {
								time.Sleep(0)
							}
						}
						// every writer also occupies a fresh slot of its own at the same moment: the fill
						// counter is bumped concurrently
						tb2.Write(board.ZobristHash(uint64(rd*nw+w)|0x7f4a7c15<<32), search.ExactBound, 0, 1, eval.ZeroScore, board.Move{})
						h := board.ZobristHash(uint64(rd) | 0x5bd1e995<<32)
						if w == 0 {
							deepOK[rd] = tb.Write(h, search.ExactBound, 0, 10, eval.HeuristicScore(1.5), board.Move{From: board.E2, To: board.E4})
						} else {
							tb.Write(h, search.ExactBound, 0, 1, eval.HeuristicScore(-0.25), board.Move{From: board.G1, To: board.F3})
						}
					}
				}(w)
			}
			bw.Wait()
			for rd := 0; rd < brounds; rd++ {
				_, d, _, _, ok := tb.Read(board.ZobristHash(uint64(rd) | 0x5bd1e995<<32))
				if deepOK[rd] && (!ok || d != 10) {
					barrierLost++
				}
			}
			if u := int(math.Round(tb.Used() * float64(tb.Size()>>5))); u != brounds {
				barrierLost += 1 << 30
			}
			if u := int(math.Round(tb2.Used() * float64(tb2.Size()>>5))); u != brounds*nw {
				barrierLost += 1 << 30
			}
		}
		used := int(math.Round(tt.Used() * float64(entries)))
		res := "ok"
		switch {
		case mixtures > 0:
			res = fmt.Sprintf("MIXTURE lookups-returning-a-tuple-no-single-store-wrote=%d", mixtures)
		case used != len(occupied):
			res = fmt.Sprintf("USED reported=%d occupied=%d", used, len(occupied))
		case barrierLost >= 1<<30:
			res = "USED rendezvous-phase: fill count differs from the number of occupied slots"
		case barrierLost > 0:
			res = fmt.Sprintf("REPLACED-HIGHER entries-of-value-20-replaced-by-a-store-of-value-2=%d", barrierLost)
		case wentDown > 0:
			res = fmt.Sprintf("REPLACED-HIGHER lookups-that-saw-the-replacement-value-of-a-slot-decrease=%d", wentDown)
		case lostHigh > 0:
			res = fmt.Sprintf("REPLACED-HIGHER slots-whose-entry-is-below-a-successful-store=%d", lostHigh)
		}
		return res
	})
	childOps["ttstress"] = true
	register("c17", func(o *Out, r *rand.Rand, thorough bool) {
		// (1) sequential sequences, implementation vs model exactly
		n := 300
		if thorough {
			n = 20000
		}
		for i := 0; i < n; i++ {
			size := []int{32, 64, 256, 1024, 1 << 16}[r.Intn(5)]
			minDepth := 0
			if r.Intn(4) == 0 {
				minDepth = 1 + r.Intn(3)
			}
			nh := 2 + r.Intn(12)
			hs := make([]uint64, nh)
			for k := range hs {
				hs[k] = r.Uint64()
				if r.Intn(3) == 0 && k > 0 {
					hs[k] = hs[k-1] ^ (uint64(r.Intn(4)+1) << 40) // same slot in small tables, different hash
				}
			}
			var ops []string
			for k := 0; k < 10+r.Intn(40); k++ {
				h := hs[r.Intn(nh)]
				switch r.Intn(10) {
				case 0, 1, 2:
					ops = append(ops, fmt.Sprintf("r:%x", h))
				case 3:
					ops = append(ops, "u")
				default:
					score := fmt.Sprintf("H:0:%d", f32key(eval.Pawns(r.Intn(9)-4)))
					if r.Intn(5) == 0 {
						score = fmt.Sprintf("M:%d:0", r.Intn(9)-4)
					}
					depth, ply := r.Intn(8), r.Intn(40)
					if r.Intn(30) == 0 {
						depth, ply = 32760+r.Intn(20), 65530+r.Intn(10) // uint16 wrap-around of the replacement value
					}
					ops = append(ops, fmt.Sprintf("w:%x:%d:%d:%d:%s:%d:%d:%d", h, r.Intn(2), ply, depth, score, r.Intn(64), r.Intn(64), []int{0, 0, 2, 3, 4, 5}[r.Intn(6)]))
				}
			}
			line := fmt.Sprintf("tt %d %d ; %s", size, minDepth, strings.Join(ops, " "))
			o.do(line)
			o.Count("tt:sequential")
			o.Nontrivial(line)
		}
		// (2) concurrent stress with self-describing payloads
		m := 6
		if thorough {
			m = 60
		}
		for i := 0; i < m; i++ {
			size := []int{64, 1024, 1 << 16}[i%3]
			nh := []int{2, 4, 16, 200}[i%4]
			// few hashes = heavy contention on the same slots and on the recorder's lock: fewer rounds there keep the op
			// to a second or two on an idle machine (it took 16 s at load 17 with 40000 rounds and 2 hashes)
			rounds := 40000
			if nh <= 4 {
				rounds = 12000
			}
			line := fmt.Sprintf("published ttstress %d %d %d %d %d %d", size, 3+r.Intn(4), 2+r.Intn(3), nh, rounds, r.Int63n(1<<30))
			o.do(line)
			o.Count("tt:stress")
			o.Nontrivial(line)
		}
	})
}

// ================================ C18 =========================================================

func histEngines() map[string]func(g *gate) search.Search {
	return map[string]func(g *gate) search.Search{
		"plain": func(g *gate) search.Search {
			return search.AlphaBeta{Eval: search.Leaf{Eval: gateEval{eval.Material{}, g}}}
		},
		"turochamp": func(g *gate) search.Search {
			return search.AlphaBeta{Eval: search.Quiescence{Explore: turochamp.ConsiderableMovesOnly, Eval: search.Leaf{Eval: gateEval{turochamp.Eval{}, g}}}}
		},
		"sargon": func(g *gate) search.Search {
			points := &sargon.Points{}
			return sargon.Hook{Eval: search.AlphaBeta{Explore: sargon.SkipUnderPromotions, Eval: sargon.OnePlyIfChecked{Leaf: search.Leaf{Eval: gateEval{points, g}}}}, Hook: points}
		},
		"bernstein": func(g *gate) search.Search {
			return search.AlphaBeta{Explore: bernstein.PlausibleMoveTable{Limit: 7}.Explore, Eval: search.Leaf{Eval: gateEval{bernstein.Eval{Factor: 8}, g}}}
		},
	}
}

func searchOnce(kind string, seed int64, start string, moves []string, depth int) string {
	return searchWith(histEngines()[kind](&gate{}), seed, start, moves, depth)
}

// finalFEN is the FEN of the position reached by the moves (the same diagram and clocks, but no history).
func finalFEN(start string, moves []string) string {
	p, turn, np, fm, err := fen.Decode(start)
	if err != nil {
		return start
	}
	b := board.NewBoard(board.NewZobristTable(0), p, turn, np, fm)
	for _, mv := range moves {
		for _, m := range b.Position().PseudoLegalMoves(b.Turn()) {
			if moveUci(m) == strings.TrimPrefix(mv, "m:") {
				b.PushMove(m)
				break
			}
		}
	}
	return fen.Encode(b.Position(), b.Turn(), b.NoProgress(), b.FullMoves())
}

// searchWith runs one search on the given search object (which may have been used before).
func searchWith(s search.Search, seed int64, start string, moves []string, depth int) string {
	p, turn, np, fm, err := fen.Decode(start)
	if err != nil {
		return "err"
	}
	b := board.NewBoard(board.NewZobristTable(seed), p, turn, np, fm)
	for _, mv := range moves {
		for _, m := range b.Position().PseudoLegalMoves(b.Turn()) {
			if moveUci(m) == strings.TrimPrefix(mv, "m:") {
				b.PushMove(m)
				break
			}
		}
	}
	n, score, pv, err := s.Search(context.Background(), &search.Context{TT: search.NoTranspositionTable{}}, b, depth)
	if err != nil {
		return "err:" + err.Error()
	}
	return fmt.Sprintf("%d %s %s", n, fmtScore(score), pvStr(pv))
}

func init() {
	registerEval("det", func(a []string) string {
		// det <kind> <depth> <fen6> ; moves
		kind := a[0]
		depth, _ := strconv.Atoi(a[1])
		i := 2
		for i < len(a) && a[i] != ";" {
			i++
		}
		start := strings.Join(a[2:i], " ")
		var moves []string
		if i < len(a) {
			for _, m := range a[i+1:] {
				if m != "" {
					moves = append(moves, m)
				}
			}
		}
		ref := searchOnce(kind, 0, start, moves, depth)
		// repeated, other hash seeds, after other searches
		for _, seed := range []int64{0, 1, 987654321} {
			if got := searchOnce(kind, seed, start, moves, depth); got != ref {
				return fmt.Sprintf("MISMATCH seed=%d got=%s ref=%s", seed, strings.ReplaceAll(got, " ", "_"), strings.ReplaceAll(ref, " ", "_"))
			}
		}
		searchOnce(kind, 0, fen.Initial, nil, 2)
		if got := searchOnce(kind, 0, start, moves, depth); got != ref {
			return "MISMATCH after-other-search"
		}
		// the SAME search object (one per engine in the binaries) used before: on another game, and on the same diagram
		// reached without the history (set up from its FEN) - state captured for an earlier search must not leak
		bare := finalFEN(start, moves)
		refBare := searchOnce(kind, 0, bare, nil, depth)
		so := histEngines()[kind](&gate{})
		searchWith(so, 0, fen.Initial, []string{"m:g1f3"}, 1)
		if got := searchWith(so, 0, bare, nil, depth); got != refBare {
			return "MISMATCH same-object bare-after-other"
		}
		if got := searchWith(so, 0, start, moves, depth); got != ref {
			return "MISMATCH same-object game-after-its-bare-diagram"
		}
		if got := searchWith(so, 0, bare, nil, depth); got != refBare {
			return "MISMATCH same-object bare-diagram-after-its-game"
		}
		if got := searchWith(so, 1, start, moves, depth); got != ref {
			return "MISMATCH same-object repeated"
		}
		// alongside searches on other engines
		var wg sync.WaitGroup
		res := make([]string, 4)
		for k := range res {
			wg.Add(1)
			go func(k int) {
				defer wg.Done()
				if k%2 == 0 {
					res[k] = searchOnce(kind, int64(k), start, moves, depth)
				} else {
					searchOnce("sargon", 0, corpus[1], nil, 1)
					res[k] = searchOnce(kind, 0, start, moves, depth)
				}
			}(k)
		}
		wg.Wait()
		for k := range res {
			if res[k] != ref {
				return fmt.Sprintf("MISMATCH concurrent[%d]", k)
			}
		}
		return "ok"
	})
	registerEval("isolate", func(a []string) string {
		// isolate <kind> <gateN> <hashMB> <fen6> ; moves ; move-to-play
		// analysis is parked inside an evaluation, the engine's game moves on, the search unwinds:
		// the engine's own game must be exactly what a fresh engine given the same moves reports
		kind := a[0]
		gateN, _ := strconv.Atoi(a[1])
		hash, _ := strconv.Atoi(a[2])
		i := 3
		for i < len(a) && a[i] != ";" {
			i++
		}
		start := strings.Join(a[3:i], " ")
		var moves []string
		j := i + 1
		for j < len(a) && a[j] != ";" {
			if a[j] != "" {
				moves = append(moves, strings.TrimPrefix(a[j], "m:"))
			}
			j++
		}
		play := ""
		for j++; j < len(a); j++ {
			if a[j] != "" {
				play = a[j]
			}
		}
		ctx := context.Background()
		build := func(g *gate) *engine.Engine {
			e := engine.New(ctx, kind, "x", histEngines()[kind](g), engine.WithOptions(engine.Options{Hash: uint(hash)}))
			if err := e.Reset(ctx, start); err != nil {
				return nil
			}
			for _, m := range moves {
				if e.Move(ctx, m) != nil {
					return nil
				}
			}
			return e
		}
		g := &gate{}
		e := build(g)
		if e == nil {
			return "err"
		}
		z := zobrist(0)
		before := e.Position() + " " + obsBoard(z, e.Board())
		g.arm(gateN)
		out, err := e.Analyze(ctx, searchctl.Options{DepthLimit: lang.Some(uint(4))})
		if err != nil {
			return "err-analyze"
		}
		drained := make(chan struct{})
		go func() {
			for range out {
			}
			close(drained)
		}()
		parked := false
		select {
		case <-g.parked:
			parked = true
		case <-drained:
		case <-time.After(5 * time.Second * loadScale()):
			return "hang"
		}
		if mid := e.Position() + " " + obsBoard(z, e.Board()); mid != before {
			return "MISMATCH engine game changed while analysing"
		}
		if parked {
			// the halted search is let go a little later: if it was parked before its first iteration
			// completed, the halt below waits for it; otherwise it unwinds after the engine's game moved on
			rel := g.release
			go func() {
				time.Sleep(25 * time.Millisecond)
				close(rel)
			}()
		}
		if play != "" {
			if err := e.Move(ctx, play); err != nil { // halts the analysis, then plays
				return "err-play"
			}
		} else {
			e.Halt(ctx)
		}
		select {
		case <-drained:
		case <-time.After(10 * time.Second * loadScale()):
			return "hang"
		}
		time.Sleep(2 * time.Millisecond)
		if !parked {
			g.arm(0) // the search ended before the gate: do not park the follow-up analysis
		}
		fresh := build(&gate{})
		if play != "" {
			fresh.Move(ctx, play)
		}
		got, want := e.Position()+" "+obsBoard(z, e.Board()), fresh.Position()+" "+obsBoard(z, fresh.Board())
		if got != want {
			return "MISMATCH engine game after analysis+move differs from a fresh engine: " + strings.ReplaceAll(got, " ", "_") + " vs " + strings.ReplaceAll(want, " ", "_")
		}
		// a new analysis on both must agree completely (nothing of the halted search may linger)
		run := func(x *engine.Engine) string {
			o2, err := x.Analyze(ctx, searchctl.Options{DepthLimit: lang.Some(uint(2))})
			if err != nil {
				return "err"
			}
			var last search.PV
			for pv := range o2 {
				last = pv
			}
			x.Halt(ctx)
			return fmt.Sprintf("%d %d %s %s", last.Depth, last.Nodes, fmtScore(last.Score), pvStr(last.Moves))
		}
		// a reset engine must not remember the previous game's table either
		if hash > 0 {
			e.Reset(ctx, start)
			fresh.Reset(ctx, start)
		}
		if a1, a2 := run(e), run(fresh); a1 != a2 {
			return "MISMATCH follow-up analysis differs from a fresh engine: " + strings.ReplaceAll(a1, " ", "_") + " vs " + strings.ReplaceAll(a2, " ", "_")
		}
		return "ok"
	})
	childOps["isolate"] = true
	registerEval("noise", func(a []string) string {
		// two engines with the same seed and noise give the same answers to the same script
		seed, _ := strconv.ParseInt(a[0], 10, 64)
		run := func() string {
			ctx := context.Background()
			e := engine.New(ctx, "n", "x", search.AlphaBeta{Eval: search.Leaf{Eval: eval.Material{}}}, engine.WithZobrist(seed), engine.WithOptions(engine.Options{Noise: 50}))
			var outs []string
			for _, mv := range append([]string{""}, a[1:]...) {
				if mv != "" && e.Move(ctx, mv) != nil {
					return "err"
				}
				o2, _ := e.Analyze(ctx, searchctl.Options{DepthLimit: lang.Some(uint(2))})
				var last search.PV
				for pv := range o2 {
					last = pv
				}
				e.Halt(ctx)
				outs = append(outs, fmtScore(last.Score)+pvStr(last.Moves))
			}
			return strings.Join(outs, "|")
		}
		solo := run()
		if y := run(); solo != y {
			return "MISMATCH same seed, different answers"
		}
		// ... nor on the games the engine played before: another game first (with analyses), then the game set up again
		{
			ctx := context.Background()
			e := engine.New(ctx, "n", "x", search.AlphaBeta{Eval: search.Leaf{Eval: eval.Material{}}}, engine.WithZobrist(seed), engine.WithOptions(engine.Options{Noise: 50}))
			play := func(ms []string) string {
				var outs []string
				for _, mv := range append([]string{""}, ms...) {
					if mv != "" && e.Move(ctx, mv) != nil {
						return "err"
					}
					o2, _ := e.Analyze(ctx, searchctl.Options{DepthLimit: lang.Some(uint(2))})
					var last search.PV
					for pv := range o2 {
						last = pv
					}
					e.Halt(ctx)
					outs = append(outs, fmtScore(last.Score)+pvStr(last.Moves))
				}
				return strings.Join(outs, "|")
			}
			play([]string{"d2d4", "d7d5", "c2c4"})
			if e.Reset(ctx, fen.Initial) != nil {
				return "err"
			}
			if got := play(a[1:]); got != solo {
				return "MISMATCH the same game after another game on the same engine (noise on) answers differently: " + strings.ReplaceAll(got, " ", "_") + " vs " + strings.ReplaceAll(solo, " ", "_")
			}
			// noise switched off takes effect with the next game: the answers are those of an engine that never had noise
			e.SetNoise(0)
			if e.Reset(ctx, fen.Initial) != nil {
				return "err"
			}
			quiet := play(a[1:])
			e0 := e
			e = engine.New(ctx, "n", "x", search.AlphaBeta{Eval: search.Leaf{Eval: eval.Material{}}}, engine.WithZobrist(seed+5), engine.WithOptions(engine.Options{}))
			if want := play(a[1:]); quiet != want {
				return "MISMATCH noise switched off and a new game started, yet the answers differ from a noise-free engine's: " + strings.ReplaceAll(quiet, " ", "_") + " vs " + strings.ReplaceAll(want, " ", "_")
			}
			_ = e0
		}
		// several engines alive at once, used in turn: each must answer as it does alone (the noise source is per engine)
		ctx := context.Background()
		mk := func(sd int64) *engine.Engine {
			return engine.New(ctx, "n", "x", search.AlphaBeta{Eval: search.Leaf{Eval: eval.Material{}}}, engine.WithZobrist(sd), engine.WithOptions(engine.Options{Noise: 50}))
		}
		es := []*engine.Engine{mk(seed), mk(seed), mk(seed + 1)}
		outs := make([][]string, len(es))
		for _, mv := range append([]string{""}, a[1:]...) {
			for k, e := range es {
				if mv != "" && e.Move(ctx, mv) != nil {
					return "err"
				}
				o2, _ := e.Analyze(ctx, searchctl.Options{DepthLimit: lang.Some(uint(2))})
				var last search.PV
				for pv := range o2 {
					last = pv
				}
				e.Halt(ctx)
				outs[k] = append(outs[k], fmtScore(last.Score)+pvStr(last.Moves))
			}
		}
		for k := 0; k < 2; k++ {
			if got := strings.Join(outs[k], "|"); got != solo {
				return fmt.Sprintf("MISMATCH engine %d of 3 used in turn answers differently from the same engine alone", k)
			}
		}
		return "ok"
	})
	registerEval("newgames", func(a []string) string {
		// newgames <kind> <hashMB> <depth> <fen6> ; moves: what an engine reports for a game does not depend on the games it played
		// before - in particular a new game starts with a table of its own. Wirings: "morlock" is cmd/morlock's (plain alpha-beta,
		// material, min-depth table factory passed with engine.WithTable); the other kinds use the engine's default factory.
		kind := a[0]
		hash, _ := strconv.Atoi(a[1])
		depth, _ := strconv.Atoi(a[2])
		i := 3
		for i < len(a) && a[i] != ";" {
			i++
		}
		start := strings.Join(a[3:i], " ")
		var moves []string
		if i < len(a) {
			for _, m := range a[i+1:] {
				if m != "" {
					moves = append(moves, strings.TrimPrefix(m, "m:"))
				}
			}
		}
		ctx := context.Background()
		// ONE option value shared by every engine built here, as a binary that builds several engines would share it
		tableOpt := engine.WithTable(search.NewMinDepthTranspositionTable(1))
		mk := func() *engine.Engine {
			opts := []engine.Option{engine.WithOptions(engine.Options{Hash: uint(hash)})}
			if kind == "morlock" {
				opts = append(opts, tableOpt)
				return engine.New(ctx, kind, "x", search.AlphaBeta{Eval: search.Leaf{Eval: eval.Material{}}}, opts...)
			}
			return engine.New(ctx, kind, "x", histEngines()[kind](&gate{}), opts...)
		}
		game := func(e *engine.Engine, st string, ms []string) string {
			if err := e.Reset(ctx, st); err != nil {
				return "err-reset"
			}
			var outs []string
			for k := 0; k <= len(ms); k++ {
				if k > 0 {
					if e.Move(ctx, ms[k-1]) != nil {
						return "err-move"
					}
				}
				o2, err := e.Analyze(ctx, searchctl.Options{DepthLimit: lang.Some(uint(depth))})
				if err != nil {
					outs = append(outs, "no-analysis")
					continue
				}
				var last search.PV
				for pv := range o2 {
					last = pv
				}
				e.Halt(ctx)
				outs = append(outs, fmt.Sprintf("%d/%d/%s/%s", last.Depth, last.Nodes, fmtScore(last.Score), pvStr(last.Moves)))
			}
			return strings.Join(outs, "|")
		}
		e1 := mk()
		ref := game(e1, start, moves)
		if strings.HasPrefix(ref, "err") {
			return ref
		}
		if got := game(e1, start, moves); got != ref {
			return "MISMATCH the same game played again on the same engine: " + strings.ReplaceAll(got, " ", "_") + " vs " + strings.ReplaceAll(ref, " ", "_")
		}
		game(e1, fen.Initial, []string{"e2e4", "e7e5"})
		if got := game(e1, start, moves); got != ref {
			return "MISMATCH the same game after another game on the same engine"
		}
		e2 := mk()
		if got := game(e2, start, moves); got != ref {
			return "MISMATCH a second engine built from the same options: " + strings.ReplaceAll(got, " ", "_") + " vs " + strings.ReplaceAll(ref, " ", "_")
		}
		if got := game(e1, start, moves); got != ref {
			return "MISMATCH the first engine after the second one played the game"
		}
		return "ok"
	})
	registerEval("twin", func(a []string) string {
		// twin <kind> <fen6> ; moves: two engines are given the same game; one analyses (to depth 1, to the end) before every
		// move, the other never does. Everything they report about the game - position, clocks, hash, result (repetitions!),
		// last moves - must be equal after every move, and so must a final analysis. An analysis never alters the game.
		kind := a[0]
		i := 1
		for i < len(a) && a[i] != ";" {
			i++
		}
		start := strings.Join(a[1:i], " ")
		var moves []string
		if i < len(a) {
			for _, m := range a[i+1:] {
				if m != "" {
					moves = append(moves, strings.TrimPrefix(m, "m:"))
				}
			}
		}
		ctx := context.Background()
		ea, _ := wiredEngine(kind, 0)
		eb, _ := wiredEngine(kind, 0)
		if ea.Reset(ctx, start) != nil || eb.Reset(ctx, start) != nil {
			return "err"
		}
		z := zobrist(0)
		analyse := func(e *engine.Engine, d uint) string {
			o2, err := e.Analyze(ctx, searchctl.Options{DepthLimit: lang.Some(d)})
			if err != nil {
				return "no-analysis"
			}
			var last search.PV
			for pv := range o2 {
				last = pv
			}
			e.Halt(ctx)
			return fmt.Sprintf("%d/%d/%s/%s", last.Depth, last.Nodes, fmtScore(last.Score), pvStr(last.Moves))
		}
		for k, m := range moves {
			analyse(ea, 1)
			errA, errB := ea.Move(ctx, m), eb.Move(ctx, m)
			if (errA == nil) != (errB == nil) {
				return fmt.Sprintf("MISMATCH move %d (%s) accepted by one engine only", k, m)
			}
			if ga, gb := ea.Position()+" "+obsBoard(z, ea.Board()), eb.Position()+" "+obsBoard(z, eb.Board()); ga != gb {
				return fmt.Sprintf("MISMATCH after move %d (%s) the engine that analysed reports %s, the other %s", k, m, strings.ReplaceAll(ga, " ", "_"), strings.ReplaceAll(gb, " ", "_"))
			}
		}
		if ra, rb := analyse(ea, 2), analyse(eb, 2); ra != rb {
			return "MISMATCH final analysis: " + strings.ReplaceAll(ra, " ", "_") + " vs " + strings.ReplaceAll(rb, " ", "_")
		}
		return "ok"
	})
	registerEval("noiserace", func(a []string) string {
		// noiserace <n> <noise>: with evaluation noise on (the default of the SARGON and TUROCHAMP binaries), a deep analysis is
		// superseded at once by a shallow one, n times on fresh engines with one seed: the halted search may still be evaluating
		// while its successor runs. The successor must answer the same every time (its noise is reproducible from the seed and
		// does not depend on how far the halted search got), and - under the race detector - no generator is shared.
		n, _ := strconv.Atoi(a[0])
		noise, _ := strconv.Atoi(a[1])
		ctx := context.Background()
		first := ""
		for i := 0; i < n; i++ {
			e := engine.New(ctx, "n", "x", search.AlphaBeta{Eval: search.Leaf{Eval: eval.Material{}}}, engine.WithZobrist(7), engine.WithOptions(engine.Options{Noise: uint(noise)}))
			if e.Move(ctx, "e2e4") != nil {
				return "err-move"
			}
			outA, err := e.Analyze(ctx, searchctl.Options{DepthLimit: lang.Some(uint(6))})
			if err != nil {
				return "err-analyze"
			}
			go func() {
				for range outA {
				}
			}()
			time.Sleep(time.Duration(1+i%9) * time.Millisecond)
			if e.Move(ctx, "e7e5") != nil { // halts the analysis (without waiting for it to unwind), then plays
				return "err-move"
			}
			outB, err := e.Analyze(ctx, searchctl.Options{DepthLimit: lang.Some(uint(2))})
			if err != nil {
				return "err-analyze"
			}
			var pv search.PV
			for p := range outB {
				pv = p
			}
			e.Halt(ctx)
			got := fmt.Sprintf("%d/%s/%s", pv.Depth, fmtScore(pv.Score), pvStr(pv.Moves))
			if i == 0 {
				first = got
			} else if got != first {
				return fmt.Sprintf("MISMATCH run %d answers %s, run 0 answered %s (same seed, same game, same noise)", i, strings.ReplaceAll(got, " ", "_"), strings.ReplaceAll(first, " ", "_"))
			}
		}
		return "ok"
	})
	registerEval("unread", func(a []string) string {
		// unread <limit> <fen6>: a caller of the iterative harness that asks by Halt only and never reads the report channel: the
		// search still runs to its limit (an unread report is replaced by the next one), Halt returns the last completed iteration
		// and the channel is closed afterwards
		limit, _ := strconv.Atoi(a[0])
		p, turn, np, fm, err := fen.Decode(strings.Join(a[1:], " "))
		if err != nil {
			return "err"
		}
		b := board.NewBoard(zobrist(0), p, turn, np, fm)
		reached := make(chan struct{})
		var once sync.Once
		root := notifySearch{inner: search.AlphaBeta{Eval: search.Leaf{Eval: eval.Material{}}}, at: limit, fn: func() { once.Do(func() { close(reached) }) }}
		it := &searchctl.Iterative{Root: root}
		h, out := it.Launch(context.Background(), b, search.NoTranspositionTable{}, eval.Random{}, searchctl.Options{DepthLimit: lang.Some(uint(limit))})
		select {
		case <-reached:
		case <-time.After(20 * time.Second * loadScale()):
			pv := h.Halt()
			return fmt.Sprintf("MISMATCH with nobody reading the reports the search never completed depth %d (Halt returns depth %d)", limit, pv.Depth)
		}
		time.Sleep(200 * time.Millisecond * loadScale())
		pv := h.Halt()
		if pv.Depth != limit && !mateWithin(pv.Score, pv.Depth) {
			return fmt.Sprintf("MISMATCH Halt returns depth %d, depth %d had been completed", pv.Depth, limit)
		}
		deadline := time.After(10 * time.Second * loadScale())
		for {
			select {
			case _, ok := <-out:
				if !ok {
					return "ok"
				}
			case <-deadline:
				return "MISMATCH the report channel is not closed after the search ended and was halted"
			}
		}
	})
	registerEval("supersede", func(a []string) string {
		// supersede <kind> <n> <depth> <moveA> <moveB>: n times on a fresh engine (wired as the binaries wire it: ONE search
		// object per engine): play moveA, start a deep analysis and supersede it at once (Halt, play moveB, analyse at <depth>) -
		// exactly what the driver does on `position` + `go` during a search. The superseding search must return what the same
		// search returns on an engine that never ran the first one (the halted search may still be unwinding, or entering its next
		// iteration, while its successor runs).
		kind := a[0]
		n, _ := strconv.Atoi(a[1])
		depth, _ := strconv.Atoi(a[2])
		ctx := context.Background()
		last := func(out <-chan search.PV) string {
			var pv search.PV
			for p := range out {
				pv = p
			}
			return fmt.Sprintf("%v/%d/%v", pv.Score, pv.Nodes, pv.Moves)
		}
		newE := func() *engine.Engine {
			g := &gate{}
			switch kind {
			case "sargon":
				points := &sargon.Points{}
				// the halted search is made to unwind LATE: its return is held until its successor is under way (a few milliseconds
				// into it), so that whatever it does on the way out (SARGON's hook forgets its reference values) meets a running successor
				inner := &lateReturn{inner: search.AlphaBeta{Explore: sargon.SkipUnderPromotions, Eval: sargon.OnePlyIfChecked{Leaf: search.Leaf{Eval: gateEval{points, g}}}}}
				s := sargon.Hook{Eval: inner, Hook: points}
				return engine.New(ctx, "SARGON", "x", s, engine.WithOptions(engine.Options{}))
			case "turochamp":
				s := search.AlphaBeta{Eval: search.Quiescence{Explore: turochamp.ConsiderableMovesOnly, Eval: search.Leaf{Eval: gateEval{turochamp.Eval{}, g}}}}
				return engine.New(ctx, "TUROCHAMP", "x", s, engine.WithOptions(engine.Options{}))
			case "bernstein":
				s := search.AlphaBeta{Explore: bernstein.PlausibleMoveTable{Limit: 7}.Explore, Eval: search.Leaf{Eval: gateEval{bernstein.Eval{Factor: 8}, g}}}
				return engine.New(ctx, "BERNSTEIN", "x", s, engine.WithOptions(engine.Options{}))
			default:
				s := search.AlphaBeta{Eval: search.Leaf{Eval: gateEval{eval.Material{}, g}}}
				return engine.New(ctx, "plain", "x", s, engine.WithOptions(engine.Options{}))
			}
		}
		same := a[4] == "same" // the superseding search starts from the SAME position (go, stop, go): nothing is played in between
		solo := newE()
		if solo.Move(ctx, a[3]) != nil || (!same && solo.Move(ctx, a[4]) != nil) {
			return "err-move"
		}
		out, err := solo.Analyze(ctx, searchctl.Options{DepthLimit: lang.Some(uint(depth))})
		if err != nil {
			return "err-analyze"
		}
		want := last(out)
		for i := 0; i < n; i++ {
			e := newE()
			e.Move(ctx, a[3])
			outA, err := e.Analyze(ctx, searchctl.Options{DepthLimit: lang.Some(uint(6))})
			if err != nil {
				return "err-analyze"
			}
			go func() {
				for range outA {
				}
			}()
			e.Halt(ctx)
			if !same {
				e.Move(ctx, a[4])
			}
			outB, err := e.Analyze(ctx, searchctl.Options{DepthLimit: lang.Some(uint(depth))})
			if err != nil {
				return "err-analyze"
			}
			if got := last(outB); got != want {
				return fmt.Sprintf("MISMATCH run=%d superseding=%s alone=%s", i, strings.ReplaceAll(got, " ", "_"), strings.ReplaceAll(want, " ", "_"))
			}
			e.Halt(ctx)
		}
		return "ok"
	})
	register("c18", func(o *Out, r *rand.Rand, thorough bool) {
		n := 16
		if thorough {
			n = 800
		}
		kinds := []string{"plain", "turochamp", "sargon", "bernstein"}
		for i := 0; i < n; i++ {
			start, moves, b := randomLine(r, 10)
			kind := kinds[i%4]
			d := 1 + r.Intn(2)
			if kind == "plain" && pieceCount(b) <= 8 {
				d = 3
			}
			line := fmt.Sprintf("published det %s %d %s ; %s", kind, d, start, strings.Join(moves, " "))
			o.do(line)
			o.Count("det:" + kind)
			o.Nontrivial(line)
		}
		for i := 0; i < n/2+4; i++ {
			start, moves, b := randomLine(r, 8)
			legal := b.Position().LegalMoves(b.Turn())
			play := ""
			if len(legal) > 0 && r.Intn(4) != 0 {
				play = moveUci(legal[r.Intn(len(legal))])
			}
			hash := 0
			if r.Intn(3) == 0 {
				hash = 1
			}
			line := fmt.Sprintf("published isolate %s %d %d %s ; %s ; %s", kinds[r.Intn(4)], 30+r.Intn(300), hash, start, strings.Join(moves, " "), play)
			o.do(line)
			o.Count("isolate")
			o.Nontrivial(line)
		}
		for i := 0; i < 6; i++ {
			ms := playoutMoves(r, fen.Initial, 3)
			o.do(fmt.Sprintf("published noise %d %s", r.Int63n(1000), strings.Join(ms, " ")))
			o.Count("noise")
		}
		// noise on and a search superseding one that is still unwinding: the successor's answer is reproducible
		{
			k := 12
			if thorough {
				k = 150
			}
			line := fmt.Sprintf("published noiserace %d %d", k, []int{10, 50, 400}[r.Intn(3)])
			o.do(line)
			o.Count("noiserace")
			o.Nontrivial(line)
		}
		// games in sequence on one engine, and engines built from one option value: each game gets a table of its own
		ng := 4
		if thorough {
			ng = 120
		}
		for i := 0; i < ng; i++ {
			kind := []string{"morlock", "morlock", "plain", "turochamp"}[i%4]
			start, moves := fen.Initial, playoutMoves(r, fen.Initial, 2+r.Intn(3))
			if i%2 == 1 {
				start = "r3k2r/p1ppqpb1/bn2pnp1/3PN3/1p2P3/2N2Q1p/PPPBBPPP/R3K2R w KQkq - 0 1"
				moves = playoutMoves(r, start, 1+r.Intn(2))
			}
			d := 3
			if kind == "turochamp" {
				d = 1
			}
			line := fmt.Sprintf("published newgames %s %d %d %s ; %s", kind, 1+r.Intn(2), d, start, strings.Join(moves, " "))
			o.do(line)
			o.Count("newgames:" + kind)
			o.Nontrivial(line)
		}
		// the reports of one analysis, all kept and read after it has ended: each is the search of its own depth (what was returned
		// for depth d depends on the game and d only - not on the iterations that came after it) ...
		kx := 5
		if thorough {
			kx = 120
		}
		for i := 0; i < kx; i++ {
			start, moves, b := randomLine(r, 8)
			limit := 3
			if pieceCount(b) <= 6 {
				limit = 4 + r.Intn(2)
			}
			line := fmt.Sprintf("published iterx plain %d %s ; %s", limit, start, strings.Join(moves, " "))
			o.do(line)
			o.Count("iterx:kept-reports")
			o.Nontrivial(line)
		}
		// ... the game includes its repetitions, however it got there: the engine analyses a fork of its board, possibly after
		// take-backs - what it reports is what a search of the same game replayed from scratch reports (a move in the tree
		// completes a third occurrence)
		{
			line := "published iterx plain 2 q6k/8/8/8/8/8/8/1R4K1 b - - 0 1 ; h8g8 b1c1 g8h8 c1b1 h8g8 b1c1 g8h8"
			o.do(line)
			o.Count("iterx:repetition-history")
			o.Nontrivial(line)
		}
		for i, h := range []string{"g1f3 g8f6 f3g1 f6g8 g1f3 g8f6 f3g1", "g1f3 g8f6 f3g1 f6g8 g1f3 tb g1f3 g8f6 f3g1 f6g8", "b1c3 b8c6 c3b1 c6b8 e2e4 tb b1c3 b8c6 c3b1",
			"e2e4 e7e5 g1f3 b8c6 f3g1 c6b8 g1f3 b8c6 f3g1", "g1f3 g8f6 f3g1 f6g8 g1f3 g8f6 f3g1 f6g8 tb tb f3h4 tb f3g1"} {
			kind := []string{"plain", "turochamp", "plain", "sargon", "turochamp"}[i]
			lim := 3
			if kind != "plain" {
				lim = 2
			}
			line := fmt.Sprintf("published iterx %s %d %s ; %s", kind, lim, fen.Initial, h)
			o.do(line)
			o.Count("iterx:repetition-history")
			o.Nontrivial(line)
		}
		// ... and an analysis is a function of the game and of what was asked: explicit limits of earlier analyses do not become the
		// engine's configured depth, the options are what the user set
		for i := 0; i < 3; i++ {
			kind := []string{"plain", "morlock", "turochamp"}[i]
			deep := []string{"4", "3", "2"}[i]
			line := fmt.Sprintf("published reanalyse %s %d %s ; o2 - %s - 1 - o1 - %s -", kind, r.Intn(2), []string{fen.Initial, corpus[r.Intn(len(corpus))]}[r.Intn(2)], deep, deep)
			o.do(line)
			o.Count("reanalyse:configured-depth")
			o.Nontrivial(line)
		}
		// an engine that analyses before every move and one that never does: the same game, through repetitions
		shuffles := [][]string{
			{"g1f3", "g8f6", "f3g1", "f6g8", "g1f3", "g8f6", "f3g1", "f6g8", "g1f3"},
			{"e2e4", "e7e5", "g1f3", "b8c6", "f3g1", "c6b8", "g1f3", "b8c6", "f3g1", "c6b8", "g1f3"},
			{"b1c3", "b8c6", "c3b1", "c6b8", "b1c3", "b8c6", "c3b1", "c6b8", "e2e4"},
		}
		tw := 4
		if thorough {
			tw = 60
		}
		for i := 0; i < tw; i++ {
			kind := kinds[i%4]
			ms := shuffles[r.Intn(len(shuffles))]
			start := fen.Initial
			if i >= 4 && r.Intn(2) == 0 { // a pawn ending with king shuffles (repetitions one ply before the end)
				start = "6k1/8/8/p7/P7/7P/8/6K1 w - - 0 1"
				ms = []string{"g1f2", "g8f7", "f2g1", "f7g8", "g1f2", "g8f7", "f2g1", "f7g8", "g1f2"}
			}
			line := fmt.Sprintf("published twin %s %s ; %s", kind, start, strings.Join(ms, " "))
			o.do(line)
			o.Count("twin:" + kind)
			o.Nontrivial(line)
		}
		// a search superseding one that is still unwinding (or entering its next iteration) returns what it returns alone
		sn := 150
		if thorough {
			sn = 2500
		}
		for _, sc := range []string{"sargon %d 2 e2e4 same", "turochamp %d 1 d2d4 same", "sargon %d 2 e2e4 e7e5", "sargon %d 2 d2d4 g8f6", "turochamp %d 1 e2e4 e7e5", "bernstein %d 2 e2e4 e7e5", "plain %d 3 e2e4 d7d5"} {
			k := sn
			if !strings.HasPrefix(sc, "sargon") {
				k = sn / 5
			}
			line := "published supersede " + fmt.Sprintf(sc, k)
			o.do(line)
			o.Count("supersede")
			o.Nontrivial(line)
		}
	})
}

// ================================ C20 =========================================================

// mirrorFEN flips the board top to bottom and swaps the colours.
func mirrorFEN(f string) string {
	p := strings.Split(f, " ")
	ranks := strings.Split(p[0], "/")
	for i, j := 0, len(ranks)-1; i < j; i, j = i+1, j-1 {
		ranks[i], ranks[j] = ranks[j], ranks[i]
	}
	swap := func(s string) string {
		return strings.Map(func(c rune) rune {
			if unicode.IsUpper(c) {
				return unicode.ToLower(c)
			}
			return unicode.ToUpper(c)
		}, s)
	}
	p[0] = swap(strings.Join(ranks, "/"))
	if p[1] == "w" {
		p[1] = "b"
	} else {
		p[1] = "w"
	}
	if p[2] != "-" {
		c := swap(p[2])
		out := ""
		for _, ch := range "KQkq" {
			if strings.ContainsRune(c, ch) {
				out += string(ch)
			}
		}
		p[2] = out
	}
	if p[3] != "-" {
		p[3] = string(p[3][0]) + string('1'+('8'-p[3][1]))
	}
	return strings.Join(p, " ")
}

func mirrorMove(m string) string {
	b := []byte(m)
	b[1] = '1' + ('8' - b[1])
	b[3] = '1' + ('8' - b[3])
	return string(b)
}

func boardWith(start string, moves []string) *board.Board {
	return boardFromLine(start, moves)
}

func init() {
	registerEval("hist", func(a []string) string {
		// hist <fen6> ; moves : evaluations finite + colour-blind; filters sound; for the three historical engines
		i := 0
		for i < len(a) && a[i] != ";" {
			i++
		}
		start := strings.Join(a[:i], " ")
		var moves, mmoves []string
		if i < len(a) {
			for _, m := range a[i+1:] {
				m = strings.TrimPrefix(m, "m:")
				if m == "" {
					continue
				}
				moves = append(moves, m)
				mmoves = append(mmoves, mirrorMove(m))
			}
		}
		b := boardWith(start, moves)
		mb := boardWith(mirrorFEN(start), mmoves)
		if posKey(mb.Position(), mb.Turn()) != strings.Join(strings.Split(mirrorFEN(fen.Encode(b.Position(), b.Turn(), 0, 1)), " ")[:4], " ") {
			return "harness-mirror-broken"
		}
		ctx := context.Background()
		evals := map[string]eval.Evaluator{
			"material": eval.Material{}, "turochamp": turochamp.Eval{}, "turochamp-material": turochamp.Material{},
			"bernstein1": bernstein.Eval{Factor: 1}, "bernstein8": bernstein.Eval{Factor: 8}, "bernstein20": bernstein.Eval{Factor: 20},
		}
		for name, ev := range evals {
			v, mv := float64(ev.Evaluate(ctx, b)), float64(ev.Evaluate(ctx, mb))
			if math.IsNaN(v) || math.IsInf(v, 0) {
				return fmt.Sprintf("NONFINITE %s=%v", name, v)
			}
			if v != mv {
				return fmt.Sprintf("NOT-COLOURBLIND %s: %v vs mirrored %v", name, v, mv)
			}
		}
		pts := &sargon.Points{}
		pts.Reset(ctx, b)
		if v := float64(pts.Evaluate(ctx, b)); math.IsNaN(v) || math.IsInf(v, 0) {
			return fmt.Sprintf("NONFINITE sargon=%v", v)
		}
		// filters
		legal := map[string]board.Move{}
		for _, m := range b.Position().LegalMoves(b.Turn()) {
			legal[moveUci(m)] = m
		}
		plaus := bernstein.FindPlausibleMoves(b)
		seen := map[string]bool{}
		for _, m := range plaus {
			u := moveUci(m)
			if _, ok := legal[u]; !ok {
				return "FILTER bernstein selects an illegal move " + u
			}
			if seen[u] {
				return "FILTER bernstein selects a move twice " + u
			}
			seen[u] = true
			if m.IsUnderPromotion() {
				return "FILTER bernstein selects an under-promotion " + u
			}
		}
		nonUnder := 0
		for _, m := range legal {
			if !m.IsUnderPromotion() {
				nonUnder++
			}
		}
		if len(legal) > 0 && len(plaus) == 0 {
			return "FILTER bernstein selects nothing although a legal move exists"
		}
		for _, limit := range []int{1, 3, 7} {
			_, pick := bernstein.PlausibleMoveTable{Limit: limit}.Explore(ctx, b)
			cnt := 0
			for _, m := range legal {
				if pick(m) {
					cnt++
				}
			}
			if cnt > limit {
				return fmt.Sprintf("FILTER bernstein limit %d exceeded: %d", limit, cnt)
			}
			if len(legal) > 0 && cnt == 0 {
				return fmt.Sprintf("FILTER bernstein limit %d selects nothing", limit)
			}
			for _, m := range b.Position().PseudoLegalMoves(b.Turn()) {
				if _, ok := legal[moveUci(m)]; !ok && pick(m) {
					return "FILTER bernstein table picks an illegal move " + moveUci(m)
				}
			}
		}
		_, pick := sargon.SkipUnderPromotions(ctx, b)
		cnt := 0
		for _, m := range legal {
			if pick(m) {
				cnt++
				if m.IsUnderPromotion() {
					return "FILTER sargon picks an under-promotion"
				}
			}
		}
		if len(legal) > 0 && cnt == 0 {
			return "FILTER sargon selects nothing"
		}
		// considerable moves are judged after the move was made: every legal move can be judged
		for _, m := range legal {
			f := b.Fork()
			if !f.PushMove(m) {
				return "harness: legal move refused"
			}
			turochamp.IsConsiderableMove(m, f)
		}
		return "ok"
	})
	registerEval("book", func(a []string) string {
		// every book reply is legal in the position it is keyed on (breadth-first over the book)
		ctx := context.Background()
		var bk engine.Book
		if a[0] == "sargon" {
			bk = sargon.NewBook()
		} else {
			bk = bernstein.NewBook()
		}
		type node struct {
			f string
			d int
		}
		queue := []node{{fen.Initial, 0}}
		seenPos := map[string]bool{}
		positions, replies := 0, 0
		for len(queue) > 0 {
			n := queue[0]
			queue = queue[1:]
			key := strings.Join(strings.Split(n.f, " ")[:4], " ")
			if seenPos[key] || n.d > 14 {
				continue
			}
			seenPos[key] = true
			ms, err := bk.Find(ctx, n.f)
			if err != nil {
				return "book-error"
			}
			if len(ms) == 0 {
				continue
			}
			positions++
			p, turn, np, fm, _ := fen.Decode(n.f)
			for _, m := range ms {
				replies++
				ok := false
				for _, l := range p.LegalMoves(turn) {
					if l.Equals(m) {
						ok = true
						next, _ := p.Move(l)
						nfm := fm
						if turn == board.Black {
							nfm++
						}
						_ = np
						// all legal replies of the opponent lead to positions the book may know
						for _, r2 := range next.LegalMoves(turn.Opponent()) {
							nn, _ := next.Move(r2)
							queue = append(queue, node{fen.Encode(nn, turn, 0, nfm), n.d + 2})
						}
						queue = append(queue, node{fen.Encode(next, turn.Opponent(), 0, nfm), n.d + 1})
					}
				}
				if !ok {
					return fmt.Sprintf("ILLEGAL-BOOK-MOVE %s in %s", moveUci(m), strings.ReplaceAll(n.f, " ", "_"))
				}
			}
		}
		return fmt.Sprintf("ok")
	})
	register("c20", func(o *Out, r *rand.Rand, thorough bool) {
		n := 150
		if thorough {
			n = 6000
		}
		for i := 0; i < n; i++ {
			start, moves, b := randomLine(r, 14)
			if r.Intn(5) == 0 { // squeezed positions: few men, king boxed in
				for k := 0; k < 50; k++ {
					if f, ok := synthetic(r); ok {
						start, moves = f, nil
						b = boardFromLine(start, nil)
						if pieceCount(b) <= 6 {
							break
						}
					}
				}
			}
			line := fmt.Sprintf("published hist %s ; %s", start, strings.Join(moves, " "))
			o.do(line)
			f := classify(b.Position(), b.Turn())
			o.countFeatures(f)
			o.Nontrivial(line)
		}
		for _, s := range []string{"k7/2Q5/8/8/8/8/8/K7 w - - 0 1", "1r4k1/8/3p4/8/4P3/8/7r/K7 w - - 0 1", "7k/5Q2/6K1/8/8/8/8/8 b - - 0 1", "8/8/8/8/8/1k6/p7/K7 w - - 0 1",
			"k7/8/1K6/8/8/8/8/7Q b - - 0 1", "K7/2q5/8/8/8/8/8/k7 b - - 0 1"} {
			o.do("published hist " + s + " ;")
			o.Count("hist:curated")
		}
		o.do("published book sargon")
		o.do("published book bernstein")
	})
}

// notifySearch calls fn when a search of depth `at` has returned.
type notifySearch struct {
	inner search.Search
	at    int
	fn    func()
}

func (n notifySearch) Search(ctx context.Context, sctx *search.Context, b *board.Board, depth int) (uint64, eval.Score, []board.Move, error) {
	nodes, sc, pv, err := n.inner.Search(ctx, sctx, b, depth)
	if depth >= n.at && err == nil {
		n.fn()
	}
	return nodes, sc, pv, err
}

// lateReturn holds the return of a halted search until the next search has been entered (plus a few milliseconds), at most 2 s.
type lateReturn struct {
	inner search.Search
	mu    sync.Mutex
	held  chan struct{}
}

func (l *lateReturn) Search(ctx context.Context, sctx *search.Context, b *board.Board, depth int) (uint64, eval.Score, []board.Move, error) {
	l.mu.Lock()
	if h := l.held; h != nil {
		l.held = nil
		time.AfterFunc(3*time.Millisecond, func() { close(h) })
	}
	l.mu.Unlock()
	n, sc, pv, err := l.inner.Search(ctx, sctx, b, depth)
	if err == search.ErrHalted {
		h := make(chan struct{})
		l.mu.Lock()
		l.held = h
		l.mu.Unlock()
		select {
		case <-h:
		case <-time.After(2 * time.Second):
		}
	}
	return n, sc, pv, err
}
