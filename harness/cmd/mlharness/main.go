// Command mlharness runs the real morlock code (from /repo's working tree, via the replace
// directive in go.mod) on generated inputs and writes, line-aligned:
//
//	<out>/ops.txt   one operation per line, the input of the Lean driver
//	<out>/impl.txt  what the implementation did for that operation (canonical text)
//	<out>/stats.json  distribution of what was generated
//
// Every random choice derives from one PRNG seeded by -seed.
package main

import (
	"bufio"
	"encoding/json"
	"flag"
	"fmt"
	"math/rand"
	"os"
	"path/filepath"
	"runtime/debug"
	"sort"
	"strconv"
	"strings"
	"sync/atomic"
	"time"
)

// Out collects the line-aligned streams.
type Out struct {
	ops, impl *bufio.Writer
	n         int
	stats     map[string]int
	distinct  map[string]struct{}
	samples   []string
	info      map[string]interface{}
}

// Emit writes one op and what the implementation answered.
func (o *Out) Emit(op, impl string) {
	if strings.ContainsAny(op, "\n\r") || strings.ContainsAny(impl, "\n\r") {
		panic("newline in op or impl line: " + op)
	}
	fmt.Fprintln(o.ops, op)
	fmt.Fprintln(o.impl, impl)
	o.n++
	if len(o.samples) < 12 && (o.n < 4 || o.n%997 == 0) {
		o.samples = append(o.samples, op+" => "+impl)
	}
}

// Count bumps a distribution counter.
func (o *Out) Count(key string) { o.stats[key]++ }

// Nontrivial records a distinct non-trivial case by its canonical key.
func (o *Out) Nontrivial(key string) { o.distinct[key] = struct{}{} }

type genFn func(o *Out, r *rand.Rand, thorough bool)

var generators = map[string]genFn{}

func register(name string, fn genFn) { generators[name] = fn }

// newLogDir is where the repository's logging (glog) writes while the harness runs it. glog's flush daemon fsyncs its files
// every few seconds WHILE HOLDING the logging lock, and the driver logs every command: on a disk busy with other jobs an fsync
// of many seconds stalls the command loop (an `isready` answered late - seen once, see DESIGN section 7). A memory file system
// makes the fsync free; the fallback is the directory given (or the system's temporary directory).
func newLogDir(fallback string) string {
	if st, err := os.Stat("/dev/shm"); err == nil && st.IsDir() {
		if d, err := os.MkdirTemp("/dev/shm", "mlh-glog"); err == nil {
			return d
		}
	}
	if fallback == "" {
		d, _ := os.MkdirTemp("", "mlh-glog")
		return d
	}
	_ = os.MkdirAll(fallback, 0o755)
	return fallback
}

func main() {
	seed := flag.Int64("seed", 1, "PRNG seed")
	tier := flag.String("tier", "quick", "quick|thorough")
	outDir := flag.String("out", "", "output directory")
	replay := flag.String("replay", "", "file with op lines to run instead of generating")
	evalop := flag.String("evalop", "", "evaluate one op line in this process and print the result (child mode)")
	flag.Parse()
	if *evalop != "" {
		glogDir := newLogDir("")
		_ = flag.Set("log_dir", glogDir)
		_ = flag.Set("stderrthreshold", "FATAL")
		res := evalOpHere(*evalop)
		os.RemoveAll(glogDir)
		fmt.Println(res)
		return
	}
	if flag.NArg() != 1 || *outDir == "" {
		names := []string{}
		for k := range generators {
			names = append(names, k)
		}
		sort.Strings(names)
		fmt.Fprintf(os.Stderr, "usage: mlharness -out DIR [-seed N] [-tier T] <stream>\nstreams: %v\n", names)
		os.Exit(2)
	}
	name := flag.Arg(0)
	if err := os.MkdirAll(*outDir, 0o755); err != nil {
		panic(err)
	}
	// the repository logs through glog: keep it out of /tmp and off stderr
	glogDir := newLogDir(filepath.Join(*outDir, "glog"))
	_ = flag.Set("log_dir", glogDir)
	_ = flag.Set("stderrthreshold", "FATAL")
	defer os.RemoveAll(glogDir)
	fo, err := os.Create(filepath.Join(*outDir, "ops.txt"))
	if err != nil {
		panic(err)
	}
	fi, err := os.Create(filepath.Join(*outDir, "impl.txt"))
	if err != nil {
		panic(err)
	}
	o := &Out{ops: bufio.NewWriterSize(fo, 1<<20), impl: bufio.NewWriterSize(fi, 1<<20),
		stats: map[string]int{}, distinct: map[string]struct{}{}, info: map[string]interface{}{}}

	if *replay != "" {
		runReplay(o, name, *replay)
	} else {
		fn, ok := generators[name]
		if !ok {
			fmt.Fprintf(os.Stderr, "unknown stream %q\n", name)
			os.Exit(2)
		}
		fn(o, rand.New(rand.NewSource(*seed)), *tier == "thorough")
		seenRej := map[string]bool{}
		for _, f := range corpusRejected {
			if !seenRej[f] {
				seenRej[f] = true
				o.do("fen dec " + runesHex(f))
				o.Count("corpus-fen-REJECTED")
			}
		}
	}
	o.ops.Flush()
	o.impl.Flush()
	fo.Close()
	fi.Close()

	if o.samples == nil {
		o.samples = []string{}
	}
	st := map[string]interface{}{
		"evaluations":         o.n,
		"distinct_nontrivial": len(o.distinct),
		"distribution":        o.stats,
		"samples":             o.samples,
		"info":                o.info,
	}
	js, _ := json.MarshalIndent(st, "", " ")
	if err := os.WriteFile(filepath.Join(*outDir, "stats.json"), js, 0o644); err != nil {
		panic(err)
	}
}

// evaluators maps the first word of an op line to the function that runs the implementation on it.
var evaluators = map[string]func(args []string) string{}

func registerEval(word string, fn func(args []string) string) { evaluators[word] = fn }

// evalOp runs the implementation on one op line, mapping a panic to "panic".
func evalOp(line string) string {
	if w := strings.SplitN(line, " ", 2)[0]; childOps[w] {
		return evalInChild(line)
	}
	return evalOpHere(line)
}

// opHangs counts in-process ops abandoned because the implementation never returned (e.g. a leaked lock).
var opHangs atomic.Int64

func evalOpHere(line string) string {
	parts := strings.Split(line, " ")
	fn, ok := evaluators[parts[0]]
	if !ok {
		return "bad-op"
	}
	if opHangs.Load() >= 3 {
		return "not-run-after-3-hangs" // the run has failed already; do not spend two minutes on every further op
	}
	done := make(chan string, 1)
	go func() {
		defer func() {
			if e := recover(); e != nil {
				res := "panic"
				if os.Getenv("VERIF_DEBUG") != "" {
					res = fmt.Sprintf("panic:%v", e)
					debug.PrintStack()
				}
				done <- res
			}
		}()
		done <- fn(parts[1:])
	}()
	// an op that never returns is reported as "hang" (its goroutine is abandoned); once that has happened the patience for
	// the remaining ops is short, so that a deadlocking implementation costs minutes, not the whole time budget
	limit := 400 * time.Second * loadScale()
	if opHangs.Load() > 0 {
		limit = 120 * time.Second * loadScale()
	}
	select {
	case res := <-done:
		return res
	case <-time.After(limit):
		opHangs.Add(1)
		return "hang"
	}
}

// do emits an op after evaluating it on the implementation.
func (o *Out) do(line string) string {
	res := evalOp(line)
	o.Emit(line, res)
	return res
}

func runReplay(o *Out, name, file string) {
	f, err := os.Open(file)
	if err != nil {
		panic(err)
	}
	defer f.Close()
	sc := bufio.NewScanner(f)
	sc.Buffer(make([]byte, 1<<20), 1<<26)
	var lines []string
	for sc.Scan() {
		if line := sc.Text(); line != "" {
			lines = append(lines, line)
		}
	}
	// ops that name a Zobrist seed need the table of that seed registered with the driver first
	seen := map[int64]bool{}
	for _, line := range lines {
		f := strings.Fields(line)
		k := -1
		switch f[0] {
		case "game", "search", "engine":
			k = 1
		case "uci":
			k = 2
		case "iter":
			f, k = []string{"iter", "0"}, 1
		}
		if k > 0 && k < len(f) {
			if seed, err := strconv.ParseInt(f[k], 10, 64); err == nil && !seen[seed] {
				seen[seed] = true
				o.do(ztableLine(seed))
			}
		}
	}
	for _, line := range lines {
		o.do(line)
	}
}
