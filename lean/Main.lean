import Morlock.Driver.Score
import Morlock.Driver.Chess
import Morlock.Driver.Game
import Morlock.Driver.Fen
import Morlock.Driver.Search
import Morlock.Driver.Engine
import Morlock.Driver.Uci
import Morlock.Driver.Misc
import Morlock.Driver.Flt
import Morlock.Driver.Bernstein
import Morlock.Driver.Book
import Morlock.Driver.Sargon
import Morlock.Driver.Turochamp
import Morlock.Driver.EngineCfg
open Morlock.Driver in
def dispatchPure (toks : List String) : String :=
  match toks with
  | "score" :: args => scoreOp args
  | "chess" :: args => chessOp args
  | "fen" :: args => fenOp args
  | "limits" :: args => limitsOp args
  | "tt" :: args => ttOp args
  | "flt" :: args => fltOp args
  | "engcfg" :: args => engCfgOp args
  | "published" :: _ => "ok ## ok"   -- the harness compared the implementation with a published constant
  | _ => "bad-op"

/-!
# mldriver — runs the Lean model (and reference semantics) on the harness' op lines

One op per input line, one canonical output line `model[ ## spec]`.
-/
open Morlock.Driver

def dispatch (st : DriverState) (line : String) : DriverState × String :=
  match splitSp line with
  | "ztable" :: args =>
    match parseZTable args with
    | some e => ({ st with ztables := e :: st.ztables }, ztableQuality e.2)
    | none => (st, "bad-ztable")
  | "game" :: args => (st, gameOp st args)
  -- the same script judged against the model only: take-backs below fork points (shared, mutable history)
  | "gamex" :: args => (st, ((gameOp st args).splitOn " ## ").headD "")
  | "search" :: args => (st, searchOp st args)
  | "engine" :: args => (st, engineOp st args)
  | "uci" :: args => (st, uciOp st args)
  | "iter" :: args => (st, iterOp st args)
  | "bernstein" :: args => (st, bernsteinOp st args)
  | "sargon" :: args => (st, sargonOp st args)
  | "turochamp" :: args => (st, turochampOp st args)
  | "bookm" :: _ | "bookfind" :: _ | "booknew" :: _ | "bookstrip" :: _ => (st, bookOp st (splitSp line))
  | "iterhalt" :: _ => (st, "halt-complete=true ## halt-complete=true")
  | other => (st, dispatchPure other)

partial def loop (h : IO.FS.Stream) (out : IO.FS.Stream) (st : DriverState) : IO Unit := do
  let line ← h.getLine
  if line.isEmpty then return ()
  let l := if line.back == '\n' then (line.dropEnd 1).toString else line
  let (st', res) := dispatch st l
  out.putStrLn res
  loop h out st'

def main : IO Unit := do
  let stdin ← IO.getStdin
  let stdout ← IO.getStdout
  loop stdin stdout {}
