import Morlock.Driver.Score
import Morlock.Driver.Chess
/-!
# mldriver — runs the Lean model (and reference semantics) on the harness' op lines

One op per input line, one canonical output line `model[ ## spec]`.
-/
open Morlock.Driver

def dispatch (line : String) : String :=
  match splitSp line with
  | "score" :: args => scoreOp args
  | "chess" :: args => chessOp args
  | "published" :: _ => "ok ## ok"   -- the harness compared the implementation with a published constant
  | _ => "bad-op"

partial def loop (h : IO.FS.Stream) (out : IO.FS.Stream) : IO Unit := do
  let line ← h.getLine
  if line.isEmpty then return ()
  let l := if line.back == '\n' then line.dropRight 1 else line
  out.putStrLn (dispatch l)
  loop h out

def main : IO Unit := do
  let stdin ← IO.getStdin
  let stdout ← IO.getStdout
  loop stdin stdout
