/-!
# Basic machine-integer helpers shared by all models

Go fixed-width arithmetic is modelled on `Int`/`Nat` with explicit wrap-around.
-/
namespace Morlock

/-- Two's-complement wrap to `int8`. -/
def wrap8 (x : Int) : Int := (x + 128) % 256 - 128

/-- Two's-complement wrap to `int64`. -/
def wrap64 (x : Int) : Int := (x + 9223372036854775808) % 18446744073709551616 - 9223372036854775808

/-- Wrap to `uint8`. -/
def u8 (x : Int) : Nat := (x % 256).toNat

/-- Wrap to `uint16`. -/
def u16 (x : Int) : Nat := (x % 65536).toNat

def M64 : Nat := 18446744073709551616

/-- Wrap to `uint64`. -/
def u64 (x : Nat) : Nat := x % M64

/-- Order-embedding key of the `float32` nearest to a small integer (exact for `|n| < 2^24`):
    the IEEE-754 bit pattern of `|n|`, negated for negative `n`. -/
def f32keyOfInt (n : Int) : Int :=
  let a := n.natAbs
  if a = 0 then 0 else
    let e := Nat.log2 a
    let mant := if e ≤ 23 then (a <<< (23 - e)) % 8388608 else (a >>> (e - 23)) % 8388608
    let bits : Int := ((e + 127) * 8388608 + mant : Nat)
    if n < 0 then -bits else bits

theorem wrap8_id {x : Int} (h1 : -128 ≤ x) (h2 : x ≤ 127) : wrap8 x = x := by
  unfold wrap8; omega

theorem wrap8_range (x : Int) : -128 ≤ wrap8 x ∧ wrap8 x ≤ 127 := by
  unfold wrap8; omega

end Morlock
