import Morlock.Model.Bernstein
import Morlock.Driver.Chess
import Morlock.Driver.Game
import Morlock.Spec.Search
/-!
Driver op `bernstein <factor> <limit> <fen6> ; m:<uci> ...`: the Bernstein evaluation and plausible-move
table of the model on the position reached, with every intermediate component — and, after ` ## `, what the
REFERENCE semantics (`Spec`, mailbox board; namespace `RefB` below) says about each component (`*` = no constraint).
-/
namespace Morlock.Driver
open Morlock Morlock.Model Morlock.Model.Bernstein

def optInt (o : Option Int) : String := match o with | some v => toString v | none => "panic"

def fmtPawns (o : Option Flt.Q) : String :=
  match o with
  | none => "none"
  | some q => match Flt.bits32 q with
    | some b => hexStr b
    | none => "none"

def movesStr (l : List Move) : String := if l.isEmpty then "-" else String.intercalate "," (l.map moveUci)

def bit01 (b : Bool) : String := if b then "1" else "0"

def fmtPlacement (pl : Placement) : String := s!"{pl.piece.code}{Fen.squareString pl.square}"

/-- `FindCapture` + `SortByNominalValue` on every occupied square, for both colours. -/
def capStr (p : Position) : String :=
  let items := (List.range 64).filterMap fun sq =>
    if p.isEmpty sq then none else
      let one (c : Color) : String :=
        let raw := findCapture p c sq
        String.intercalate "" (raw.map fmtPlacement) ++ ">" ++ String.intercalate "" ((sortByNominalValue raw).map fmtPlacement)
      some s!"{Fen.squareString sq}:{one .white}/{one .black}"
  if items.isEmpty then "-" else String.intercalate "," items

/-! ## reference side: everything below is computed from `Spec` only -/
namespace RefB
open Morlock.Spec

def code (k : Kind) : Nat := (kindPiece k).code

/-- the `c` men attacking `sq`, by ascending square -/
def attackers (p : Pos) (c : Spec.Color) (sq : Sq) : List (Sq × Kind) :=
  allSquares.filterMap fun s =>
    match p.at s with
    | some (c', k) =>
      if c' = c && (if k = .pawn then (pawnTargets c s).contains sq else (officerTargets p.occ k s).contains sq)
      then some (s, k) else none
    | none => none

def material (p : Pos) (c : Spec.Color) : Int :=
  allSquares.foldl (fun acc s => match p.at s with
    | some (c', k) => if c' = c && k ≠ .king then acc + kindValue k else acc
    | none => acc) 0

def control (p : Pos) (c : Spec.Color) : Int :=
  ((allSquares.filter fun sq => attackedBy p c sq && !attackedBy p c.opp sq).length : Int)

def kingDefense (p : Pos) (c : Spec.Color) : Option Int :=
  (kingSquare? p c).map fun ks =>
    (((officerTargets p.occ .king ks).filter fun sq =>
      if p.occ sq then attackedBy p c sq && !attackedBy p c.opp sq
      else (attackers p c sq).any (fun a => a.2 ≠ .king) && !attackedBy p c.opp sq).length : Int)

/-- number of legal moves of `c`; for the side not to move only defined without an en-passant target -/
def mobility (p : Pos) (c : Spec.Color) : Option Int :=
  if c = p.turn then some ((legalMoves p).length : Int)
  else if p.ep.isSome then none
  else some ((legalMoves { p with turn := c }).length : Int)

def score (p : Pos) (factor : Int) (c : Spec.Color) : Option Int :=
  match mobility p c, kingDefense p c with
  | some m, some d => some (max 1 (m + control p c + d + factor * material p c))
  | _, _ => none

/-- `IsSafe` by `isSafe_spec`: not attacked, or defended and no attacker cheaper than the piece -/
def isSafe (p : Pos) (c : Spec.Color) (k : Kind) (sq : Sq) : Bool :=
  let att := attackers p c.opp sq
  if att.isEmpty then true
  else if !attackedBy p c sq then false
  else att.all fun a => decide (kindValue k ≤ kindValue a.2)

def notUnderPromo (m : SMove) : Bool := match m.promo with | none => true | some k => k == .queen

/-- `IsMoveSafe`: the moved man (a promoting pawn counts as a pawn, as in the engine) is safe on its destination afterwards -/
def isMoveSafe (p : Pos) (m : SMove) : Bool :=
  match p.at m.from with
  | some (c, k) => isSafe (apply p m) c k m.to
  | none => false

def safeStr (p : Pos) : String :=
  let items := ((legalMoves p).filter notUnderPromo).map fun m =>
    let k := match p.at m.from with | some (_, k) => k | none => .pawn
    s!"{moveName m}:{if isMoveSafe p m then "1" else "0"}{if isSafe p p.turn k m.from then "1" else "0"}"
  if items.isEmpty then "-" else String.intercalate "," (sortStrings items)

def attStr (p : Pos) : String :=
  let items := allSquares.filterMap fun sq =>
    if !p.occ sq then none else
      let one (c : Spec.Color) : String := String.intercalate "" ((attackers p c sq).map fun a => s!"{code a.2}{sqName a.1}")
      some s!"{sqName sq}:{one .white}/{one .black}"
  if items.isEmpty then "-" else String.intercalate "," items

end RefB

def optStar (o : Option Int) : String := match o with | some v => toString v | none => "*"

def flags (l : List Bool) : String := String.intercalate "" (l.map bit01)

def namesNodup : List String → Bool
  | [] => true
  | x :: xs => !xs.contains x && namesNodup xs

/-- the properties of the plausible list, judged against the reference legal moves:
legal, no under-promotion, no duplicate, non-empty iff a legal move exists, complete when no castling move is legal -/
def plausibleFlags (sp : Spec.Pos) (plausible : List Move) : String :=
  let legal := Spec.legalMoves sp
  let names := legal.map Spec.moveName
  let pn := plausible.map moveUci
  flags [pn.all names.contains, plausible.all (fun m => RefB.notUnderPromo (absMove m)), namesNodup pn,
    pn.isEmpty == names.isEmpty,
    legal.any (Spec.isCastle sp) || sortStrings pn == sortStrings ((legal.filter RefB.notUnderPromo).map Spec.moveName)]

/-- prefix of the plausible list, within the limit, non-empty iff the plausible list is -/
def tableFlags (plausible table : List Move) (limit : Int) : String :=
  let pn := plausible.map moveUci
  let tn := table.map moveUci
  flags [tn == pn.take tn.length, limit ≤ 0 || (tn.length : Int) ≤ limit, tn.isEmpty == pn.isEmpty,
    limit > 0 || tn.length == pn.length]

/-- `Explore` picks exactly the table, with priorities `len - index` -/
def selFlags (table legal : List Move) (prio : Move → Int) (pick : Move → Bool) : String :=
  let tn := table.map moveUci
  flags [legal.all fun m => pick m == tn.contains (moveUci m),
    (table.zipIdx).all fun (m, i) => prio m == (table.length : Int) - (i : Int)]

def capSortedOk (p : Position) : Bool :=
  (List.range 64).all fun sq => [Color.white, Color.black].all fun c =>
    let raw := findCapture p c sq
    let srt := sortByNominalValue raw
    let vals := srt.map fun pl => nominalValue pl.piece
    (vals.zip (vals.drop 1)).all (fun (a, b) => decide (a ≤ b)) &&
      sortStrings (raw.map fmtPlacement) == sortStrings (srt.map fmtPlacement)

def attStrModel (p : Position) : String :=
  let items := (List.range 64).filterMap fun sq =>
    if p.isEmpty sq then none else
      let one (c : Color) : String :=
        let l := stableSort (fun (a b : Placement) => decide (a.square < b.square)) (findCapture p c sq)
        String.intercalate "" (l.map fmtPlacement)
      some s!"{Fen.squareString sq}:{one .white}/{one .black}"
  if items.isEmpty then "-" else String.intercalate "," items

def safeStrModel (p : Position) (turn : Color) (base : List Move) : String :=
  let items := base.map fun m => s!"{moveUci m}:{bit01 (isMoveSafe p turn m)}{bit01 (isSafe p turn m.piece m.from)}"
  if items.isEmpty then "-" else String.intercalate "," (sortStrings items)

def bernsteinOp (_st : DriverState) (args : List String) : String :=
  match args with
  | factor :: limit :: rest =>
    match factor.toInt?, limit.toInt? with
    | some factor, some limit =>
      let fenToks := rest.takeWhile (· ≠ ";")
      let items := (rest.dropWhile (· ≠ ";")).drop 1
      match Fen.decode (joinSp fenToks).toList, Spec.parseFen (joinSp fenToks) with
      | some d, some sg =>
        -- the moves of the line, matched among the pseudo-legal moves as the harness does; a refused move is skipped
        let (p, turn) := items.foldl (fun (acc : Position × Color) it =>
          let (p, turn) := acc
          if it.startsWith "m:" then
            let uci := (it.drop 2).toString
            match (p.pseudoLegalMoves turn).find? (fun m => moveUci m == uci) with
            | none => acc
            | some m => match p.move m with
              | none => acc
              | some p' => (p', turn.opp)
          else acc) (d.pos, d.turn)
        -- the reference position reached by the same moves
        let sp := items.foldl (fun (sp : Spec.Pos) it =>
          if it.startsWith "m:" then
            let uci := (it.drop 2).toString
            match (Spec.legalMoves sp).find? (fun m => Spec.moveName m == uci) with
            | none => sp
            | some m => Spec.apply sp m
          else sp) sg.pos
        let opp := turn.opp
        let two (f : Color → String) : String := f turn ++ "/" ++ f opp
        let base := baseMoves p turn
        let plausible := findPlausibleMoves p turn
        let table := truncate plausible limit
        let (prio, pick) := explore limit p turn
        let legal := p.legalMoves turn
        let sel := (legal.filter pick).map fun m => s!"{moveUci m}:{prio m}"
        let strs (l : List String) : String := if l.isEmpty then "-" else String.intercalate "," l
        -- a side without a king: the Go evaluation panics (`king[64]`), the harness reports `panic` for the whole op
        let model :=
          if (evaluate p factor turn).isNone || (evaluate p factor opp).isNone then "panic" else
          s!"self={optInt (evaluate p factor turn)} opp={optInt (evaluate p factor opp)} eval={fmtPawns (evalEvaluate p factor turn)}" ++
          s!" mobT={mobility p turn} mobO={mobility p opp} ctl={two fun c => toString (control p c)}" ++
          s!" def={two fun c => optInt (kingDefense p c)} mat={two fun c => toString (material p c)}" ++
          s!" chk={bit01 (p.isChecked turn)} base={movesStr base} safe={safeStrModel p turn base}" ++
          s!" plausible={movesStr plausible} table={movesStr table} sel={strs sel}" ++
          s!" pl-ok={plausibleFlags sp plausible} tbl-ok={tableFlags plausible table limit} sel-ok={selFlags table legal prio pick}" ++
          s!" cap={capStr p} cap-ok={bit01 (capSortedOk p)} att={attStrModel p}"
        let st := sp.turn
        let so := sp.turn.opp
        let spec :=
          if (RefB.kingDefense sp st).isNone || (RefB.kingDefense sp so).isNone then "panic" else
          let two' (f : Spec.Color → String) : String := f st ++ "/" ++ f so
          s!"self={optStar (RefB.score sp factor st)} opp={optStar (RefB.score sp factor so)} eval=*" ++
          s!" mobT={optStar (RefB.mobility sp st)} mobO={optStar (RefB.mobility sp so)} ctl={two' fun c => toString (RefB.control sp c)}" ++
          s!" def={two' fun c => optInt (RefB.kingDefense sp c)} mat={two' fun c => toString (RefB.material sp c)}" ++
          s!" chk={bit01 (Spec.inCheck sp st)} base=* safe={RefB.safeStr sp}" ++
          s!" plausible=* table=* sel=* pl-ok=11111 tbl-ok=1111 sel-ok=11 cap=* cap-ok=1 att={RefB.attStr sp}"
        model ++ " ## " ++ spec
      | _, _ => "err"
    | _, _ => "bad-op"
  | _ => "bad-op"

end Morlock.Driver
