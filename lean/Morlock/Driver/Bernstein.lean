import Morlock.Model.Bernstein
import Morlock.Driver.Chess
import Morlock.Driver.Game
/-!
Driver op `bernstein <factor> <limit> <fen6> ; m:<uci> ...`: the Bernstein evaluation and plausible-move
table of the model on the position reached, with every intermediate component.
-/
namespace Morlock.Driver
open Morlock Morlock.Model Morlock.Model.Bernstein

def optInt (o : Option Int) : String := match o with | some v => toString v | none => "panic"

def fmtPawns (o : Option Flt.Q) : String :=
  match o with
  | none => "none"
  | some q => match Flt.bits32 q with
    | some b => hexStr b
    | none => "none"

def movesStr (l : List Move) : String := if l.isEmpty then "-" else String.intercalate "," (l.map moveUci)

def bit01 (b : Bool) : String := if b then "1" else "0"

def fmtPlacement (pl : Placement) : String := s!"{pl.piece.code}{Fen.squareString pl.square}"

/-- `FindCapture` + `SortByNominalValue` on every occupied square, for both colours. -/
def capStr (p : Position) : String :=
  let items := (List.range 64).filterMap fun sq =>
    if p.isEmpty sq then none else
      let one (c : Color) : String :=
        let raw := findCapture p c sq
        String.intercalate "" (raw.map fmtPlacement) ++ ">" ++ String.intercalate "" ((sortByNominalValue raw).map fmtPlacement)
      some s!"{Fen.squareString sq}:{one .white}/{one .black}"
  if items.isEmpty then "-" else String.intercalate "," items

def bernsteinOp (_st : DriverState) (args : List String) : String :=
  match args with
  | factor :: limit :: rest =>
    match factor.toInt?, limit.toInt? with
    | some factor, some limit =>
      let fenToks := rest.takeWhile (· ≠ ";")
      let items := (rest.dropWhile (· ≠ ";")).drop 1
      match Fen.decode (joinSp fenToks).toList with
      | none => "err"
      | some d =>
        -- the moves of the line, matched among the pseudo-legal moves as the harness does; a refused move is skipped
        let (p, turn) := items.foldl (fun (acc : Position × Color) it =>
          let (p, turn) := acc
          if it.startsWith "m:" then
            let uci := (it.drop 2).toString
            match (p.pseudoLegalMoves turn).find? (fun m => moveUci m == uci) with
            | none => acc
            | some m => match p.move m with
              | none => acc
              | some p' => (p', turn.opp)
          else acc) (d.pos, d.turn)
        let opp := turn.opp
        let two (f : Color → String) : String := f turn ++ "/" ++ f opp
        let base := baseMoves p turn
        let plausible := findPlausibleMoves p turn
        let table := truncate plausible limit
        let (prio, pick) := explore limit p turn
        let legal := p.legalMoves turn
        let sel := (legal.filter pick).map fun m => s!"{moveUci m}:{prio m}"
        let safe := base.map fun m => s!"{moveUci m}:{bit01 (isMoveSafe p turn m)}{bit01 (isSafe p turn m.piece m.from)}"
        let strs (l : List String) : String := if l.isEmpty then "-" else String.intercalate "," l
        -- a side without a king: the Go evaluation panics (`king[64]`), the harness reports `panic` for the whole op
        if (evaluate p factor turn).isNone || (evaluate p factor opp).isNone then "panic" else
        s!"self={optInt (evaluate p factor turn)} opp={optInt (evaluate p factor opp)} eval={fmtPawns (evalEvaluate p factor turn)}" ++
        s!" mob={two fun c => toString (mobility p c)} ctl={two fun c => toString (control p c)}" ++
        s!" def={two fun c => optInt (kingDefense p c)} mat={two fun c => toString (material p c)}" ++
        s!" chk={bit01 (p.isChecked turn)} safe={strs safe} plausible={movesStr plausible} table={movesStr table} sel={strs sel}" ++
        s!" cap={capStr p}"
    | _, _ => "bad-op"
  | _ => "bad-op"

end Morlock.Driver
