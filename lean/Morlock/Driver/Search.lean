import Morlock.Model.BoardGame
import Morlock.Model.EngineExplore
import Morlock.Model.Minimax
import Morlock.Spec.Search
import Morlock.Driver.Game
import Morlock.Driver.Score
namespace Morlock.Driver
open Morlock Morlock.Model

structure SearchCfgM where
  ex : World → Explore
  le : LeafEval World
  /-- `Minimax.Search` (pkg/search/minimax.go) instead of `AlphaBeta.Search`: no window, no table -/
  minimax : Bool := false
  /-- the game searched (leaf evaluation): material unless stated otherwise -/
  game : ZTable → Game World := materialGame

/-- BERNSTEIN's evaluation (factor 8, as the harness wires it) as a leaf key -/
def bernsteinKey (pos : Position) (turn : Color) : Int := bernsteinKeyF 8 pos turn

def capturesOnly : Explore := { prio := mvvlva, pick := fun m => m.isCapture }
def noUnderPromo : Explore := { prio := mvvlva, pick := fun m => !m.isUnderPromotion }

def cfgModel (zt : ZTable) (name : String) : Option SearchCfgM :=
  match name with
  | "full-static" => some { ex := constEx fullExploration, le := .static }
  | "full-quiet" => some { ex := constEx fullExploration, le := .quiescence (constEx capturesOnly) 64 }
  | "nup-static" => some { ex := constEx noUnderPromo, le := .static }
  | "nup-quiet" => some { ex := constEx noUnderPromo, le := .quiescence (constEx capturesOnly) 64 }
  -- the search the BERNSTEIN engine runs: plausible-move table (limit 7) at every node, its own evaluation at the leaves
  | "bern-static" => some { ex := bernsteinExplore 7, le := .static, game := fun z => boardGame z bernsteinKey }
  -- the search the TUROCHAMP engine runs: full exploration, quiescence over the considerable moves (the predicate sees the
  -- board after the move), its own evaluation (position, side, castled flags) at the leaves
  -- the repository's own reference search, `Minimax{Eval: Material}` (C12 anchors it: it must report a halt too)
  | "minimax" => some { ex := constEx fullExploration, le := .static, minimax := true }
  | "turo-quiet" => some { ex := constEx fullExploration, le := turochampLeaf zt 64, game := fun z => boardGameW z turochampKey }
  | _ => none

def specIsCapture (p : Spec.Pos) (m : Spec.SMove) : Bool := p.occ m.to   -- en passant is not a `Capture` type move
def specNotUnderPromo (_ : Spec.Pos) (m : Spec.SMove) : Bool := m.promo.isNone || m.promo == some .queen

def cfgSpec (name : String) : Option Spec.SearchCfg :=
  let leaf : Spec.Pos → Int := fun p => f32keyOfInt (Spec.material p)
  match name with
  | "full-static" => some ⟨fun _ _ => true, none, leaf⟩
  | "full-quiet" => some ⟨fun _ _ => true, some specIsCapture, leaf⟩
  | "nup-static" => some ⟨specNotUnderPromo, none, leaf⟩
  | "nup-quiet" => some ⟨specNotUnderPromo, some specIsCapture, leaf⟩
  | "bern-static" => some ⟨fun _ _ => true, none, leaf⟩   -- no reference for this configuration: always run as `bern-static~`
  | "turo-quiet" => some ⟨fun _ _ => true, none, leaf⟩    -- likewise: `turo-quiet~`
  | "minimax" => some ⟨fun _ _ => true, none, leaf⟩       -- likewise: `minimax~`
  | _ => none

def pvStr (pv : List Move) : String := if pv.isEmpty then "-" else String.intercalate "," (pv.map moveUci)

/-- Is the PV a legal line from the node? (model replay) -/
def pvLegalModel (z : ZTable) (w : World) : List Move → Bool
  | [] => true
  | m :: rest =>
    let bd := w.board 0
    match ((w.cur 0).pos.pseudoLegalMoves bd.turn).find? (fun x => x.equals m) with
    | none => false
    | some x => match w.pushMove z 0 x with
      | none => false
      | some w' => pvLegalModel z w' rest

structure SearchRun where
  w : World
  g : Spec.Game
  st : SState

def searchItem (z : ZTable) (cm : SearchCfgM) (cs : Spec.SearchCfg) (noSpec : Bool) (r : SearchRun) (item : String) :
    SearchRun × String × String :=
  if item.startsWith "m:" then
    let uci := (item.drop 2).toString
    let bd := r.w.board 0
    match ((r.w.cur 0).pos.pseudoLegalMoves bd.turn).find? (fun m => moveUci m == uci) with
    | none => (r, "nomove", "nomove")
    | some m => match r.w.pushMove z 0 m with
      | none => (r, "illegal", "illegal")
      | some w' =>
        match (Spec.legalMoves r.g.current).find? (fun sm => Spec.moveName sm == uci) with
        | none => ({ r with w := w' }, "ok", "spec-illegal")
        | some sm => ({ r with w := w', g := { r.g with moves := r.g.moves ++ [sm] } }, "ok", "ok")
  else if item == "fork" then
    -- the script goes on on `Board.Fork()` of the board (what the engine hands its searches): the same game
    (r, "forked", "forked")
  else if item == "pop" then
    match r.w.popMove 0 with
    | none => (r, "none", "none")
    | some (w', m) => ({ r with w := w', g := { r.g with moves := r.g.moves.dropLast } }, moveUci m, moveUci m)
  else if item.startsWith "s:" then
    match (item.drop 2).toString.splitOn ":" with
    | [ds, at_, am, ak, bt, bm, bk, cs_] =>
      match ds.toNat?, parseScore? s!"{at_}:{am}:{ak}", parseScore? s!"{bt}:{bm}:{bk}", cs_.toNat? with
      | some d, some a, some b, some cancel =>
        let g := cm.game z
        let st0 : SState := { r.st with polls := 0, cancelAt := if cancel = 0 then none else some cancel, nodes := 0 }
        let (res, st1) := if cm.minimax then Model.minimaxSearch g r.w d st0 else alphaBetaSearch g cm.ex cm.le r.w d a b st0
        -- side effect on the caller's board: a root without legal moves is adjudicated by the search
        -- (`AdjudicateNoLegalMoves`), unless the search never got there
        let rootBd := r.w.board 0
        let noLegal := ((r.w.cur 0).pos.legalMoves rootBd.turn).isEmpty
        let reaches := match cm.le with | .static => d ≥ 1 | .quiescence _ _ => d ≥ 1 || rootBd.result.outcome != .draw
        let blocked := rootBd.result.reason == .checkmate || rootBd.result.reason == .stalemate
        let w1 := if res.isSome && noLegal && reaches && !blocked && rootBd.result.outcome != .draw
          then (r.w.adjudicateNoLegalMoves 0).1 else r.w
        let r' := { r with st := st1, w := w1 }
        match res with
        | none =>
          -- ... and the other way round: halted in the model, possibly finished by an implementation that polls less often
          if noSpec then (r', "halted restored=true", "-") else
          (r', "halted restored=true", "<<halted restored=true ~~ n=* r=* pv=* first=* pvlegal=true pvlen=true restored=true>>")
        | some sr =>
          let first := match sr.pv with | m :: _ => moveUci m | [] => "none"
          let model := s!"n={sr.nodes} r={fmtScore sr.score} pv={pvStr sr.pv} first={first} pvlegal={boolStr (pvLegalModel z r.w sr.pv)} pvlen={boolStr (sr.pv.length ≤ d)} restored=true"
          if noSpec then (r', model, "-") else
          -- reference: exhaustive negamax over the history
          let (v, bests) := Spec.negamaxWithBest cs d r.g
          let lo := if a.isInvalid then Score.negInfScore else a
          let hi := if b.isInvalid then Score.infScore else b
          let full := lo == Score.negInfScore && hi == Score.infScore
          let rv := Spec.rank v
          let rpat :=
            if Spec.rank lo < rv && rv < Spec.rank hi then s!"r={fmtScore v}"
            else if rv ≤ Spec.rank lo then s!"r=[{fmtScore v}..{fmtScore lo}]"
            else s!"r=[{fmtScore hi}..{fmtScore v}]"
          let firstPat :=
            if !full then "first=*"
            else match bests with
              | [] => if d = 0 || (Spec.legalMoves r.g.current).isEmpty || Spec.rank v == Spec.rank Score.negInfScore then "first=*" else "first=none"
              | ms => "first={" ++ String.intercalate "|" (ms.map Spec.moveName) ++ "}"
          let full := s!"n=* {rpat} pv=* {firstPat} pvlegal=true pvlen=true restored=true"
          -- a cancellation that the model's search never reaches (it finishes within `cancel` polls): an implementation that
          -- polls more often may be halted by it - where the polls are is not the property's business (C12: a halt is clean
          -- wherever it lands) - so both outcomes are right
          (r', model, if cancel = 0 then full else s!"<<{full} ~~ halted restored=true>>")
      | _, _, _, _ => (r, "bad-item", "bad-item")
    | _ => (r, "bad-item", "bad-item")
  else (r, "bad-item", "bad-item")

def searchOp (st : DriverState) (args : List String) : String :=
  match args with
  | seed :: cfg :: ttSize :: minDepth :: rest =>
    let noSpec := cfg.endsWith "~"
    let cfg := if noSpec then (cfg.dropEnd 1).toString else cfg
    match st.ztables.find? (fun e => e.1 == seed), cfgSpec cfg, ttSize.toNat?, minDepth.toNat? with
    | some (_, za), some cs, some tts, some md =>
      let z := za.table
      match cfgModel z cfg with
      | none => "bad-op"
      | some cm =>
      let fenToks := rest.takeWhile (· ≠ ";")
      let items := (rest.dropWhile (· ≠ ";")).drop 1
      let f := joinSp fenToks
      match Fen.decode f.toList, Spec.parseFen f with
      | some d, some sg =>
        let (w, _) := (({} : World).newBoard z d.pos d.turn d.noprogress d.fullmoves)
        let r0 : SearchRun := { w := w, g := { start := sg }, st := { tt := TTState.new tts md } }
        let (_, ms, ss) := items.foldl (fun (acc : SearchRun × List String × List String) it =>
          let (r, ms, ss) := acc
          let (r', m, s) := searchItem z cm cs noSpec r it
          (r', ms ++ [m], ss ++ [s])) (r0, [], [])
        if noSpec then String.intercalate " | " ms
        else String.intercalate " | " ms ++ " ## " ++ String.intercalate " | " ss
      | _, _ => "err"
    | _, _, _, _ => "bad-op"
  | _ => "bad-op"

end Morlock.Driver
