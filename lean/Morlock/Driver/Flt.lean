import Morlock.Model.Flt
import Morlock.Driver.Chess
/-! Driver op `flt <op> <hex bits> [<hex bits>]`: the exact floating-point model against Go's arithmetic. -/
namespace Morlock.Driver
open Morlock.Model.Flt

def fltOut (f : Fmt) (r : Option Q) : String :=
  match r with
  | none => "none"
  | some q => match bits f q with
    | none => "none"
    | some b => hexStr b

def fltOp (args : List String) : String :=
  match args with
  | [op, a] =>
    match parseHex? a with
    | none => "bad-op"
    | some a =>
      match op with
      | "cvt" => match ofBits f64 a with | none => "none" | some x => fltOut f32 (rnd f32 x)
      | "ext" => match ofBits f32 a with | none => "none" | some x => fltOut f64 (some x)
      | "sqrt64" => match ofBits f64 a with | none => "none" | some x => fltOut f64 (sqrt f64 x)
      | "round64" => match ofBits f64 a with | none => "none" | some x => toString x.roundAway
      | "trunc32" => match ofBits f32 a with | none => "none" | some x => toString x.trunc
      | "ofint32" => fltOut f32 (rnd f32 (Q.ofInt ((a : Int) - 4294967296)))
      | _ => "bad-op"
  | [op, a, b] =>
    match parseHex? a, parseHex? b with
    | some a, some b =>
      let bin (f : Fmt) (g : Fmt → Q → Q → Option Q) : String :=
        match ofBits f a, ofBits f b with
        | some x, some y => fltOut f (g f x y)
        | _, _ => "none"
      match op with
      | "add32" => bin f32 add | "sub32" => bin f32 sub | "mul32" => bin f32 mul | "div32" => bin f32 div
      | "add64" => bin f64 add | "sub64" => bin f64 sub | "mul64" => bin f64 mul | "div64" => bin f64 div
      | "lt32" => match ofBits f32 a, ofBits f32 b with
        | some x, some y => boolStr (x.lt y) ++ " " ++ boolStr (x == y)
        | _, _ => "none"
      | _ => "bad-op"
    | _, _ => "bad-op"
  | _ => "bad-op"

end Morlock.Driver
