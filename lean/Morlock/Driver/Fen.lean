import Morlock.Driver.Chess
namespace Morlock.Driver
open Morlock Morlock.Model

/-- code points as `-`-separated hex → runes (invalid scalars become U+FFFD, as Go's `[]rune`) -/
def parseRunes (s : String) : List Char :=
  if s = "" || s = "-" then [] else
  (s.splitOn "-").map fun h =>
    match parseHex? h with
    | some n => if n.isValidChar then Char.ofNat n else Char.ofNat 0xFFFD
    | none => Char.ofNat 0xFFFD

/-- model image of "well-formed value": views agree and re-encoding decodes to the same position -/
def fenTotal (s : List Char) : String :=
  match Fen.decode s with
  | none => "good"
  | some d =>
    let e1 := Fen.encode d.pos d.turn d.noprogress d.fullmoves
    match Fen.decode e1.toList with
    | none => "bad:reencode-rejected"
    | some d2 =>
      if !viewsOk d.pos then "bad:views"
      else if d2 != d then "bad:roundtrip"
      else "good"

def fenOp (args : List String) : String :=
  match args with
  | ["dec", hex] =>
    match Fen.decode (parseRunes hex) with
    | none => "err"
    | some d => "ok:" ++ Fen.encode d.pos d.turn d.noprogress d.fullmoves
  | ["total", hex] => withSpec (fenTotal (parseRunes hex)) (some "good")
  | "canon" :: fen =>
    let f := joinSp fen
    let model := match Fen.decode f.toList with
      | none => "err"
      | some d => let e := Fen.encode d.pos d.turn d.noprogress d.fullmoves; if e = f then "same" else "diff:" ++ e
    withSpec model ((Spec.parseFen f).map fun g => if Spec.printFen g = f then "same" else "diff:" ++ Spec.printFen g)
  | ["move", hex] =>
    match Fen.parseMove (parseRunes hex) with
    | none => "err"
    | some m => "ok:" ++ moveUci m
  | ["square", hex] =>
    match Fen.parseSquareStr (parseRunes hex) with
    | none => "err"
    | some sq => "ok:" ++ Fen.squareString sq
  | _ => "bad-op"

end Morlock.Driver
