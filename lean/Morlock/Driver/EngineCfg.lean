import Morlock.Model.EngineCfg
import Morlock.Driver.Util
namespace Morlock.Driver
open Morlock.Model.EngineCfg

/-! `engcfg <depth> <hash> <noise> ; item ...` - the configuration side of the engine (`Model/EngineCfg.lean`) on a script:
`d<N>` / `h<N>` / `n<N>` the setters, `r1` / `r0` a reset with a good / a bad FEN, `m1` / `m0` a move text that parses / does
not, `tb`, `a<N>` / `a-` an analysis with / without an explicit depth limit, `x` halt. One observation per item. -/

def parseCfgOp (s : String) : Option Op :=
  let num (t : String) : Option Nat := t.toNat?
  if s == "tb" then some .takeBack
  else if s == "x" then some .halt
  else if s == "a-" then some (.analyze none)
  else if s == "r1" then some (.reset true)
  else if s == "r0" then some (.reset false)
  else if s == "m1" then some (.move true)
  else if s == "m0" then some (.move false)
  else match s.toList with
    | 'd' :: r => (num (String.ofList r)).map .setDepth
    | 'h' :: r => (num (String.ofList r)).map .setHash
    | 'n' :: r => (num (String.ofList r)).map .setNoise
    | 'a' :: r => (num (String.ofList r)).map (fun n => .analyze (some n))
    | _ => none

def cfgObs (before after : Cfg) : String :=
  let tt := match after.table with
    | none => "none"
    | some g => if before.table == some g then "same" else "new"
  s!"opts={after.opts.depth},{after.opts.hash},{after.opts.noise} tt={tt}:{after.bytes} noise={after.noise} searches={after.searches} active={after.active}"

def launchObs (c : Cfg) (l : Launch) : String :=
  let lim := if l.depthLimit == 0 then "none" else toString l.depthLimit
  let tt := match l.table with
    | none => "none"
    | some g => if c.table == some g then "game" else "other"
  let nz := match l.noise with
    | none => "none"
    | some (n, k) => s!"{n}:{k}"
  s!"launched limit={lim} tt={tt}:{l.bytes} noise={nz}"

def engCfgOp (args : List String) : String :=
  match args with
  | d :: h :: n :: ";" :: items =>
    match d.toNat?, h.toNat?, n.toNat? with
    | some d, some h, some n =>
      let c0 := new { depth := d, hash := h, noise := n }
      let start := s!"start {cfgObs { c0 with table := none } c0}"
      let rec go (c : Cfg) (items : List String) (acc : List String) : List String :=
        match items with
        | [] => acc.reverse
        | it :: rest =>
          match parseCfgOp it with
          | none => go c rest ("bad-item" :: acc)
          | some op =>
            let (c', out) := step c op
            let o := match out with
              | .done => "ok"
              | .error => "err"
              | .launched l => launchObs c l
            -- whether a move that parses is then accepted (or there is a move to take back) is the position side's business: not reported here
            let o := match op with | .move true => "-" | .takeBack => "-" | _ => o
            go c' rest (s!"{o} {cfgObs c c'}" :: acc)
      " | ".intercalate (start :: go c0 items [])
    | _, _, _ => "bad-op"
  | _ => "bad-op"

end Morlock.Driver
