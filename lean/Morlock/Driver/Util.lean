/-! Text helpers for the line protocol. -/
namespace Morlock.Driver

def splitSp (s : String) : List String := s.splitOn " "

def parseInt? (s : String) : Option Int := s.toInt?

def parseNat? (s : String) : Option Nat := s.toNat?

/-- `model ## spec` (spec omitted when the reference semantics does not apply to the input). -/
def withSpec (model : String) (spec : Option String) : String :=
  match spec with
  | some s => model ++ " ## " ++ s
  | none => model

def boolStr (b : Bool) : String := if b then "true" else "false"

end Morlock.Driver
