import Morlock.Model.Turochamp
import Morlock.Driver.Game
import Morlock.Driver.Flt
/-! Driver op `turochamp <fen6> ; m:<uci> ...`: the TUROCHAMP evaluation and its considerable-moves filter on the model board. -/
namespace Morlock.Driver
open Morlock Morlock.Model Morlock.Model.Turochamp

def tcBits (r : Option Flt.Q) : String := fltOut Flt.f32 r

def tcBit (b : Bool) : String := if b then "1" else "0"

def tcOptNat (n : Option Nat) : String := match n with | some n => toString n | none => "panic"

def natLt (a b : Nat) : Bool := a < b

def tcParts (p : Parts) : String :=
  let sorted := (p.mob.map (·.2)).toArray.qsort natLt |>.toList
  let pawn (e : Nat × Option Bool) : String :=
    toString e.1 ++ (match e.2 with | some true => "d" | some false => "-" | none => "panic")
  s!"cr={tcBit p.castleRight} hc={tcBit p.hasCastled} chk={tcBit p.check} mate={tcBit p.mayMate} cas={tcBit p.mayCastle} " ++
  s!"pre={tcBits p.pre} mob={String.intercalate "," (sorted.map toString)} " ++
  s!"mobseq={String.intercalate "," (p.mob.map fun e => Fen.squareString e.1 ++ ":" ++ toString e.2)} " ++
  s!"def={String.intercalate "," (p.defenders.map tcOptNat)} " ++
  s!"safety={match p.safety with | some n => toString n | none => "-1"} " ++
  s!"pawns={String.intercalate "," (p.pawns.map pawn)}"

/-- play the `m:` moves on board 0, as `Engine.Move` does (text matched among the pseudo-legal moves) -/
def tcPlay (z : ZTable) (w : World) : List String → World
  | [] => w
  | op :: rest =>
    if op.startsWith "m:" then
      let uci := (op.drop 2).toString
      let bd := w.board 0
      match ((w.cur 0).pos.pseudoLegalMoves bd.turn).find? (fun m => moveUci m == uci) with
      | none => tcPlay z w rest
      | some m => match w.pushMove z 0 m with
        | none => tcPlay z w rest
        | some w' => tcPlay z w' rest
    else tcPlay z w rest

def turochampOp (st : DriverState) (args : List String) : String :=
  match st.ztables.find? (fun e => e.1 == "0") with
  | none => "no-ztable"
  | some (_, za) =>
    let z := za.table
    let fenToks := args.takeWhile (· ≠ ";")
    let ops := ((args.dropWhile (· ≠ ";")).drop 1).filter (· ≠ "")
    match Fen.decode (joinSp fenToks).toList with
    | none => "err"
    | some d =>
      let (w0, _) := (({} : World).newBoard z d.pos d.turn d.noprogress d.fullmoves)
      let w := tcPlay z w0 ops
      let pos := (w.cur 0).pos
      let turn := (w.board 0).turn
      let side (name : String) (c : Color) : String :=
        s!"pp_{name}={tcBits (positionPlay w 0 c)} {name}:[{tcParts (parts pos (hasCastled w 0 c) c)}]"
      let cons := match considerableMoves z w 0 with
        | none => "panic"
        | some l => String.intercalate "," (l.map fun m => moveUci m ++ ":" ++ toString (mvvlva m))
      joinSp [
        "mat=" ++ tcBits (materialEvaluate pos turn),
        "matS=" ++ tcBits (material pos turn),
        "matO=" ++ tcBits (material pos turn.opp),
        side "self" turn,
        side "opp" turn.opp,
        "eval=" ++ tcBits (evaluate w 0),
        (let cnt (c : Color) : Nat × Nat :=
           ((pos.legalMoves c).length, ((pos.legalMoves c).filter fun m => m.ty == .enPassant).length)
         s!"nmoves={(cnt turn).1}/{(cnt turn.opp).1} ep={(cnt turn).2}/{(cnt turn.opp).2}"),
        s!"legal={(pos.legalMoves turn).length}",
        "considerable=" ++ cons]

end Morlock.Driver
