import Morlock.Model.Book
import Morlock.Driver.Fen
import Morlock.Driver.Game
import Morlock.Spec.Fen
/-!
Driver ops for the opening books (`Model/Book.lean`):

* `bookm <sargon|bernstein>` — the whole book: `n=<keys>` then every key (blanks as `_`) with its replies, keys and replies sorted;
* `bookfind <sargon|bernstein> <hex runes of the FEN>` — `Find`: `panic` (fewer than four fields), `-` (no entry), or the sorted replies;
* `booknew <hex runes of a move> ... ; <next line> ...` — `engine.NewBook` on arbitrary lines: `err:parse|notlegal|notfound`, `panic`, or the book;
* `bookstrip <hex runes>` — `fen.Strip`: `panic` or the hex runes of the result.

Moves are printed with all six fields (`from to promotion : type : piece : capture`).
-/
namespace Morlock.Driver
open Morlock Morlock.Model Morlock.Model.Book

def runesHexStr (l : List Char) : String :=
  if l.isEmpty then "-" else String.intercalate "-" (l.map fun c => hexStr c.toNat)

def fmtReplies (ms : List Move) : String :=
  if ms.isEmpty then "-" else String.intercalate "," (sortStrings (ms.map fmtMove))

def fmtTable (t : Table) : String :=
  let entries := t.map fun (k, ms) => (String.ofList (k.map fun c => if c = ' ' then '_' else c)) ++ "=" ++ fmtReplies ms
  joinSp (s!"n={t.length}" :: sortStrings entries)

/-- Reference side: every reply, looked up by name among the reference legal moves of the position the key spells;
    `full` = also recompute type, piece and capture from the rules (the SARGON literals carry no piece). -/
def specTable (t : Table) (full : Bool) : String :=
  let entries := t.map fun (k, ms) =>
    let ks := String.ofList k
    let shown := String.ofList (k.map fun c => if c = ' ' then '_' else c)
    match Spec.parseFen (ks ++ " 0 1") with
    | none => shown ++ "=UNPARSABLE-KEY"
    | some g =>
      let legal := Spec.legalMoves g.pos
      let rs := ms.map fun m =>
        match legal.find? (fun sm => Spec.moveName sm == moveUci m) with
        | none => "ILLEGAL:" ++ moveUci m
        | some sm => if full then fmtSpecMove g.pos sm else fmtMove m
      shown ++ "=" ++ (if rs.isEmpty then "-" else String.intercalate "," (sortStrings rs))
  joinSp (s!"n={t.length}" :: sortStrings entries)

def fmtErr : Err → String
  | .parse => "err:parse" | .notLegal => "err:notlegal" | .notFound => "err:notfound" | .panic => "panic"

def bookByName (which : String) : Option (Option Table) :=
  match which with
  | "sargon" => some sargonNewBook
  | "bernstein" => some (match bernsteinNewBook with | .ok t => some t | .error _ => none)
  | _ => none

/-- split the tokens of `booknew` into lines at `;` -/
def splitLines (toks : List String) : List (List String) :=
  let rec go : List String → List String → List (List String)
    | [], cur => [cur.reverse]
    | t :: ts, cur => if t = ";" then cur.reverse :: go ts [] else go ts (t :: cur)
  go toks []

def bookOp (_st : DriverState) (args : List String) : String :=
  match args with
  | ["bookm", which] =>
    match bookByName which with
    | none => "bad-op"
    | some none => "panic"
    | some (some t) => withSpec (fmtTable t) (some (specTable t (which != "sargon")))
  | ["bookfind", which, hex] =>
    match bookByName which with
    | none => "bad-op"
    | some none => "panic"
    | some (some t) =>
      match find t (parseRunes hex) with
      | none => "panic"
      | some ms => fmtReplies ms
  | "booknew" :: toks =>
    let lines := if toks.isEmpty then [] else (splitLines toks).map fun l => l.map parseRunes
    match newBook lines with
    | .error e => fmtErr e
    | .ok t => withSpec (fmtTable t) (some (specTable t true))
  | ["bookstrip", hex] =>
    match strip (parseRunes hex) with
    | none => "panic"
    | some s => runesHexStr s
  | _ => "bad-op"

end Morlock.Driver
