import Morlock.Spec.Score
import Morlock.Model.Search
import Morlock.Driver.Util
namespace Morlock.Driver
open Morlock.Model Morlock.Model.Score Morlock.Spec

def fmtScore (s : Score) : String :=
  let t := match s.ty with
    | .heuristic => "H" | .mateInX => "M" | .inf => "I" | .negInf => "N" | .invalid => "X"
  s!"{t}:{s.mate}:{s.pawns}"

def parseScore? (s : String) : Option Score :=
  match s.splitOn ":" with
  | [t, m, k] => do
    let m ← m.toInt?
    let k ← k.toInt?
    let k := if k == -2147483648 then 0 else k   -- the float -0.0 spelled out: the same value as +0.0
    let ty ← match t with
      | "H" => some ScoreType.heuristic | "M" => some .mateInX | "I" => some .inf
      | "N" => some .negInf | "X" => some .invalid | _ => none
    pure ⟨ty, m, k⟩
  | _ => none

def scoreOp (args : List String) : String :=
  match args with
  | ["less", a, b] => match parseScore? a, parseScore? b with
    | some a, some b =>
      withSpec (boolStr (a.less b))
        (if Valid a ∧ Valid b then some (boolStr (rank a < rank b)) else none)
    | _, _ => "bad-op"
  | ["neg", a] => match parseScore? a with
    | some a => fmtScore a.negate
    | _ => "bad-op"
  | ["inc", a] => match parseScore? a with
    | some a => fmtScore a.incMate
    | _ => "bad-op"
  | ["dec", a] => match parseScore? a with
    | some a => fmtScore (decMate a)
    | _ => "bad-op"
  | ["decinc", a] => match parseScore? a with
    | some a => fmtScore (decMate a).incMate
    | _ => "bad-op"
  | ["roundtrip", a] => match parseScore? a with
    | some a => fmtScore (decMate a.negate).incMate.negate
    | _ => "bad-op"
  | ["deceq", a] => match parseScore? a with
    | some a =>
      let x := decMate a
      s!"{boolStr (x == Score.infScore)} {boolStr (x == Score.negInfScore)} {boolStr (x.negate.negate == x)}"
    | _ => "bad-op"
  | ["max", a, b] => match parseScore? a, parseScore? b with
    | some a, some b =>
      withSpec (fmtScore (Score.max a b))
        (if Valid a ∧ Valid b then some (fmtScore (if rank a < rank b then b else a)) else none)
    | _, _ => "bad-op"
  | ["min", a, b] => match parseScore? a, parseScore? b with
    | some a, some b =>
      withSpec (fmtScore (Score.min a b))
        (if Valid a ∧ Valid b then some (fmtScore (if rank a < rank b then a else b)) else none)
    | _, _ => "bad-op"
  | ["heur", k] => match k.toInt? with
    | some k => withSpec (fmtScore (heuristicScore k)) (some s!"H:0:{k}")   -- the heuristic score OF that value
    | none => "bad-op"
  | ["mate", m] => match m.toInt? with
    | some m => withSpec (fmtScore (mateInXScore m)) (some s!"M:{m}:0")
    | none => "bad-op"
  | ["dist", a] => match parseScore? a with
    | some a => match a.mateDistance with
      | some d => toString d
      | none => "none"
    | _ => "bad-op"
  | ["negneg", a] => match parseScore? a with
    | some a => withSpec (boolStr (a.negate.negate == a)) (if Valid a then some "true" else none)
    | _ => "bad-op"
  | ["antitone", a, b] => match parseScore? a, parseScore? b with
    | some a, some b =>
      withSpec (boolStr (a.less b == b.negate.less a.negate))
        (if Valid a ∧ Valid b ∧ NoMin a ∧ NoMin b then some "true" else none)
    | _, _ => "bad-op"
  | ["incmono", a, b] => match parseScore? a, parseScore? b with
    | some a, some b =>
      withSpec (boolStr (a.less b == a.incMate.less b.incMate))
        (if Valid a ∧ Valid b ∧ Incable a ∧ Incable b then some "true" else none)
    | _, _ => "bad-op"
  | ["trans", a, b, c] => match parseScore? a, parseScore? b, parseScore? c with
    | some a, some b, some c =>
      withSpec (boolStr (!(a.less b && b.less c) || a.less c))
        (if Valid a ∧ Valid b ∧ Valid c then some "true" else none)
    | _, _, _ => "bad-op"
  | ["tricho", a, b] => match parseScore? a, parseScore? b with
    | some a, some b =>
      let n := (if a.less b then 1 else 0) + (if a == b then 1 else 0) + (if b.less a then 1 else 0)
      withSpec (toString n) (if Valid a ∧ Valid b then some "1" else none)
    | _, _ => "bad-op"
  | _ => "bad-op"

end Morlock.Driver
