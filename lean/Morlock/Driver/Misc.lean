import Morlock.Model.TimeCtl
import Morlock.Driver.Uci
import Morlock.Model.IterConc
namespace Morlock.Driver
open Morlock Morlock.Model

def limitsOp (args : List String) : String :=
  match args with
  | [w, b, m, c] =>
    match w.toInt?, b.toInt?, m.toInt? with
    | some w, some b, some m =>
      let rem := if c = "b" then b else w
      let (soft, hard) := limits rem m
      let ok := decide (0 ≤ soft) && decide (soft ≤ hard) && decide (hard ≤ rem)
      -- the property: for a clock that has not run out and a sane move count, 0 ≤ soft ≤ hard ≤ remaining
      withSpec s!"{soft} {hard} ok={boolStr ok}" (if 0 ≤ rem ∧ rem < 4611686018427387904 then some "* * ok=true" else none)
    | _, _, _ => "bad-op"
  | _ => "bad-op"

def ttOp (args : List String) : String :=
  match args with
  | size :: minDepth :: ";" :: ops =>
    match size.toNat?, minDepth.toInt? with
    | some size, some md =>
      let t0 := TTState.new size md
      let (_, outs) := ops.foldl (fun (acc : TTState × List String) op =>
        let (t, outs) := acc
        match op.splitOn ":" with
        | ["w", h, bound, ply, depth, st, sm, sk, fr, to, pr] =>
          match parseHex? h, bound.toNat?, ply.toInt?, depth.toInt?, parseScore? s!"{st}:{sm}:{sk}", fr.toNat?, to.toNat?, pr.toNat? with
          | some h, some bound, some ply, some depth, some sc, some fr, some to, some pr =>
            let (t', ok) := t.write h bound ply depth sc { «from» := fr, to := to, promotion := Piece.ofCode pr }
            (t', outs ++ [boolStr ok])
          | _, _, _, _, _, _, _, _ => (t, outs ++ ["bad"])
        | ["r", h] =>
          match parseHex? h with
          | some h => match t.read h with
            | some e => (t, outs ++ [s!"{e.bound}:{e.depth}:{fmtScore e.score}:{e.from}-{e.to}-{e.promotion.code}"])
            | none => (t, outs ++ ["miss"])
          | none => (t, outs ++ ["bad"])
        | ["u"] => (t, outs ++ [s!"{t.used}/{t.slots.size}"])
        | _ => (t, outs ++ ["bad"])) (t0, [])
      joinSp outs
    | _, _ => "bad-op"
  | _ => "bad-op"

/-- `iter <limit> <fen> ; moves`: iterative deepening through the engine on the plain configuration. -/
def iterOp (st : DriverState) (args : List String) : String :=
  match args, st.ztables.find? (fun e => e.1 == "0") with
  | limit :: rest, some (_, za) =>
    let z := za.table
    let fenToks := rest.takeWhile (· ≠ ";")
    let mvs := ((rest.dropWhile (· ≠ ";")).drop 1).map fun m => if m.startsWith "m:" then (m.drop 2).toString else m
    match limit.toNat? with
    | none => "bad-op"
    | some limit =>
      let (e0, ok) := (default : EngineM).reset z (joinSp fenToks).toList
      if !ok then "err" else
      let (e, ok) := mvs.foldl (fun (acc : EngineM × Bool) m => if !acc.2 then acc else acc.1.move z m.toList) (e0, true)
      if !ok then "err-move" else
      let g := materialGame z
      let (w, fid) := e.w.fork 0
      let wf : World := { nodes := w.nodes, boards := #[w.board fid] }
      let rec go (fuel d : Nat) (last : Option (Nat × SearchResult)) (mates : List (Nat × Option Nat)) :
          Option (Nat × SearchResult) × List (Nat × Option Nat) :=
        match fuel with
        | 0 => (last, mates)
        | fuel + 1 =>
          match (alphaBetaSearch g (constEx fullExploration) .static wf d Score.negInfScore Score.infScore {}).1 with
          | none => (last, mates)
          | some sr =>
            let md := sr.score.mateDistance.map Int.toNat
            let mateStop := match sr.score.mateDistance with | some md => md ≤ (d : Int) | none => false
            let mates := mates ++ [(d, md)]
            if d == limit || mateStop then (some (d, sr), mates) else go fuel (d + 1) (some (d, sr)) mates
      match go limit 1 none [] with
      | (none, _) => "none"
      | (some (d, sr), mates) =>
        let l := s!"{d}:{fmtScore sr.score}:{pvStr sr.pv}"
        -- conformance of the small-step model IterConc (the C15 theorems are about it): under the canonical
        -- schedule (searcher runs, consumer receives, then one Halt caller) it must report depths 1..d and stop there
        let cfg : IterConc.Cfg := { limit := some limit, search := fun k => k, mate := fun k => (mates.lookup k).join }
        let sched : List IterConc.Act := (List.replicate (12 * (d + 2)) [IterConc.Act.searcher false, .consumer]).flatten ++ List.replicate 8 (.halt 0)
        let fin := IterConc.run cfg (IterConc.init 1) sched
        let concOk := fin.sent.map (·.depth) == (List.range d).map (· + 1) && fin.spc == .exited &&
          (match fin.halts with | [.done _ res] => res.depth == d | _ => false)
        let tag := if concOk then "" else s!" CONC-MISMATCH:sent={fin.sent.map (·.depth)}"
        s!"last={l} halt={l}:true increasing=true faithful=true untouched=true{tag}"
  | _, _ => "bad-op"

end Morlock.Driver
