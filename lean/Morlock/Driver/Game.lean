import Morlock.Model.Board
import Morlock.Spec.Game
import Morlock.Driver.Chess
namespace Morlock.Driver
open Morlock Morlock.Model

/-- Zobrist keys recovered by the harness through `ZobristTable.Hash` (normalised so that
    `turn[White] = 0`; every hash contains exactly one castling and one turn key, so the
    normalised table is observationally equal to the real one). -/
structure ZArrays where
  pieces : Array Nat    -- [2][7][64]
  castling : Array Nat  -- [16]
  enpassant : Array Nat -- [64]
  turnB : Nat

def ZArrays.table (a : ZArrays) : ZTable :=
  { pieces := fun c p sq => a.pieces.getD ((c.code * 7 + p.code) * 64 + sq) 0
    castling := fun c => a.castling.getD c 0
    enpassant := fun sq => a.enpassant.getD sq 0
    turn := fun c => match c with | .white => 0 | .black => a.turnB }

structure DriverState where
  ztables : List (String × ZArrays) := []

def parseZTable (args : List String) : Option (String × ZArrays) :=
  match args with
  | seed :: vals =>
    match vals.mapM parseHex? with
    | some vs =>
      if vs.length ≠ 896 + 16 + 64 + 1 then none else
        let arr := vs.toArray
        some (seed, { pieces := arr.extract 0 896, castling := arr.extract 896 912,
                      enpassant := arr.extract 912 976, turnB := arr.getD 976 0 })
    | none => none
  | _ => none

/-- C07, second half ("positions differing in one component get different hashes"): the keys that separate two positions
differing in one component - the 768 piece keys, the differences of the 16 castling keys, the 16 reachable en-passant keys
and the side key - must be non-zero and pairwise distinct. Printed as `ok keys=<n> dup=<d> zero=<z>`; the reference demands
`dup=0 zero=0`. -/
def ztableQuality (z : ZArrays) : String :=
  let pieceKeys := (List.range 896).filterMap fun i => if (i / 64) % 7 == 0 then none else some (z.pieces.getD i 0)
  let c0 := z.castling.getD 0 0
  let castleKeys := (List.range 15).map fun i => (z.castling.getD (i + 1) 0) ^^^ c0
  let epKeys := ((List.range 8).map fun i => z.enpassant.getD (16 + i) 0) ++ ((List.range 8).map fun i => z.enpassant.getD (40 + i) 0)
  let keys := pieceKeys ++ castleKeys ++ epKeys ++ [z.turnB]
  let zeros := (keys.filter (· == 0)).length
  let sorted := keys.toArray.qsort (· < ·) |>.toList
  let dup := (sorted.zip (sorted.drop 1)).filter (fun (a, b) => a == b) |>.length
  s!"ok keys={keys.length} dup={dup} zero={zeros} ## ok keys={keys.length} dup=0 zero=0"

def fmtResult (r : Result) : String :=
  match r.outcome, r.reason with
  | .draw, .repetition3 => "D:rep3" | .draw, .repetition5 => "D:rep5" | .draw, .noProgress => "D:np"
  | .draw, .insufficientMaterial => "D:mat" | .draw, .stalemate => "D:stale" | .draw, _ => "D:?"
  | .whiteWins, _ => "1-0" | .blackWins, _ => "0-1"
  | _, _ => "-"

def optMove (m : Option Move) : String := match m with | some m => moveUci m | none => "none"

def obsModel (w : World) (z : ZTable) (b : Nat) : String :=
  let bd := w.board b
  let c := w.cur b
  joinSp [Fen.encode c.pos bd.turn c.noprogress bd.moves, hexStr c.hash, hexStr (z.hash c.pos bd.turn),
    toString bd.ply, boolStr bd.castledW, boolStr bd.castledB, optMove (w.lastMove b), optMove (w.secondToLastMove b),
    hexStr (w.hasMoved b 4), fmtResult bd.result]

/-- Reference board: a game plus what the result may be (`res`: what the board must report). -/
structure SBoard where
  game : Spec.Game
  /-- per position of the line (start first): the expected result token there -/
  res : List String

def specDrawToken (g : Spec.Game) : Option String :=
  match g.drawReasons with
  | [] => none
  | rs => some ("{" ++ String.intercalate "|" (rs.map fun r => match r with
      | .repetition3 => "D:rep3" | .repetition5 => "D:rep5" | .noProgress => "D:np" | .material => "D:mat") ++ "}")

def specScratchHash (z : ZTable) (g : Spec.Game) : String :=
  match Fen.decode g.fen.toList with
  | some d => hexStr (z.hash d.pos d.turn)
  | none => "?"

def obsSpec (z : ZTable) (sb : SBoard) : String :=
  let g := sb.game
  let h := specScratchHash z g
  let mv (m : Option Spec.SMove) : String := match m with | some m => Spec.moveName m | none => "none"
  let moved := (g.hasMoved 4).foldl (fun acc s => acc ||| (1 <<< s)) 0
  joinSp [g.fen, h, h, toString (g.moves.length + 1), boolStr (g.hasCastled .white), boolStr (g.hasCastled .black),
    mv g.moves.getLast?, mv (g.moves.dropLast).getLast?, hexStr moved, sb.res.getLastD "-"]

structure GameRun where
  w : World
  sbs : Array SBoard
  active : Nat := 0
  base : Array Nat    -- per board: number of moves already on the line when the board was created (pop floor)

def allObs (z : ZTable) (r : GameRun) : String × String :=
  let ids := List.range r.w.boards.size
  (String.intercalate " / " (ids.map fun b => obsModel r.w z b),
   String.intercalate " / " (ids.map fun b => obsSpec z (r.sbs.getD b ⟨default, []⟩)))

def gameStep (z : ZTable) (r : GameRun) (op : String) : GameRun × String × String :=
  let b := r.active
  let sb := r.sbs.getD b ⟨default, []⟩
  if op.startsWith "m:" then
    let uci := (op.drop 2).toString
    let bd := r.w.board b
    let c := r.w.cur b
    -- the model side: match the text among the pseudo-legal moves, as `Engine.Move` does
    let (w', mres) :=
      match (c.pos.pseudoLegalMoves bd.turn).find? (fun m => moveUci m == uci) with
      | none => (r.w, "nomove")
      | some m => match r.w.pushMove z b m with
        | none => (r.w, "illegal")
        | some w' => (w', "ok")
    -- the reference side
    let g := sb.game
    let (sb', sres) :=
      match (Spec.legalMoves g.current).find? (fun m => Spec.moveName m == uci) with
      | none => (sb, if (Spec.pseudoMoves g.current).any (fun m => Spec.moveName m == uci) then "illegal" else "nomove")
      | some m =>
        let g' : Spec.Game := { g with moves := g.moves ++ [m] }
        let prev := sb.res.getLastD "-"
        let tok := match specDrawToken g' with
          | some t => t
          | none => if prev = "-" then "-" else "*"     -- a draw that happened earlier may still be reported
        ({ game := g', res := sb.res ++ [tok] }, "ok")
    ({ r with w := w', sbs := r.sbs.setIfInBounds b sb' }, mres, sres)
  else if op = "pop" then
    let (w', mres) := match r.w.popMove b with
      | none => (r.w, "none")
      | some (w', m) => (w', moveUci m)
    let g := sb.game
    let (sb', sres) :=
      if g.moves.length ≤ r.base.getD b 0 then (sb, "none")
      else
        let m := g.moves.getLast?
        -- after a take-back the board reports "not drawn" (if the position was not drawn before the move)
        let res' := sb.res.dropLast
        let res' := if res'.getLastD "-" = "-" then res' else res'.dropLast ++ ["*"]
        ({ game := { g with moves := g.moves.dropLast }, res := res' }, match m with | some m => Spec.moveName m | none => "none")
    ({ r with w := w', sbs := r.sbs.setIfInBounds b sb' }, mres, sres)
  else if op = "fork" then
    let (w', id) := r.w.fork b
    ({ r with w := w', sbs := r.sbs.push sb, base := r.base.push sb.game.moves.length }, toString id, toString r.sbs.size)
  else if op.startsWith "on:" then
    match (op.drop 3).toString.toNat? with
    | some id => if id < r.w.boards.size then ({ r with active := id }, "ok", "ok") else (r, "bad", "bad")
    | none => (r, "bad", "bad")
  else if op = "adj" then
    let (w', res) := r.w.adjudicateNoLegalMoves b
    let g := sb.game
    let tok := if Spec.inCheck g.current g.current.turn then (if g.current.turn = .white then "0-1" else "1-0") else "D:stale"
    let stok := if (Spec.legalMoves g.current).isEmpty then tok else "*"
    ({ r with w := w', sbs := r.sbs.setIfInBounds b { sb with res := sb.res.dropLast ++ [stok] } }, fmtResult res, stok)
  else if op = "q" then
    -- pure queries: they must not influence anything reported later (no memo may become part of the position)
    let bd := r.w.board b
    let pos := (r.w.cur b).pos
    let g := sb.game
    let ms := s!"q:{boolStr (pos.isChecked bd.turn)}:{boolStr (pos.isChecked bd.turn.opp)}:{boolStr (pos.isCheckMate bd.turn)}:{(pos.legalMoves bd.turn).length}"
    let nl := (Spec.legalMoves g.current).length
    let chk := Spec.inCheck g.current g.current.turn
    let ss := s!"q:{boolStr chk}:{boolStr (Spec.inCheck g.current g.current.turn.opp)}:{boolStr (chk && nl == 0)}:{nl}"
    (r, ms, ss)
  else (r, "bad-op", "bad-op")

def gameOp (st : DriverState) (args : List String) : String :=
  match args with
  | seed :: rest =>
    match st.ztables.find? (fun e => e.1 == seed) with
    | none => "no-ztable"
    | some (_, za) =>
      let z := za.table
      let fenToks := rest.takeWhile (· ≠ ";")
      let ops := (rest.dropWhile (· ≠ ";")).drop 1
      let f := joinSp fenToks
      match Fen.decode f.toList, Spec.parseFen f with
      | some d, some sg =>
        let (w, _) := (({} : World).newBoard z d.pos d.turn d.noprogress d.fullmoves)
        let r0 : GameRun := { w := w, sbs := #[⟨{ start := sg }, ["-"]⟩], base := #[0] }
        let (o0m, o0s) := allObs z r0
        let (_, outsM, outsS) := ops.foldl (fun (acc : GameRun × List String × List String) op =>
          let (r, ms, ss) := acc
          -- `!op`: the step is made but nothing is asked of the boards afterwards (sparse observation)
          let quiet := op.startsWith "!"
          let op := if quiet then (op.drop 1).toString else op
          let (r', mres, sres) := gameStep z r op
          if quiet then (r', ms ++ [mres ++ " unobserved"], ss ++ [sres ++ " unobserved"]) else
          let (om, os) := allObs z r'
          (r', ms ++ [mres ++ " " ++ om], ss ++ [sres ++ " " ++ os])) (r0, ["start " ++ o0m], ["start " ++ o0s])
        String.intercalate " | " outsM ++ " ## " ++ String.intercalate " | " outsS
      | _, _ => "err"
  | _ => "bad-op"

end Morlock.Driver
