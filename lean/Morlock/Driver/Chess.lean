import Morlock.Model.Fen
import Morlock.Model.Abs
import Morlock.Spec.Fen
import Morlock.Driver.Util
namespace Morlock.Driver
open Morlock Morlock.Model

def moveUci (m : Move) : String :=
  Fen.squareString m.from ++ Fen.squareString m.to ++
    (match m.promotion with | .queen => "q" | .rook => "r" | .knight => "n" | .bishop => "b" | _ => "")

def fmtMove (m : Move) : String :=
  s!"{moveUci m}:{m.ty.code}:{m.piece.code}:{m.capture.code}"

def classCode : Spec.MoveClass → Nat
  | .normal => 1 | .push => 2 | .jump => 3 | .enPassant => 4 | .queenSideCastle => 5 | .kingSideCastle => 6
  | .capture => 7 | .promotion => 8 | .capturePromotion => 9

def fmtSpecMove (p : Spec.Pos) (m : Spec.SMove) : String :=
  match Spec.describe p m with
  | some (cls, k, cap) =>
    -- the engine does not report the pawn taken en passant in the capture field
    s!"{Spec.moveName m}:{classCode cls}:{(kindPiece k).code}:{match cap with | some c => (kindPiece c).code | none => 0}"
  | none => s!"{Spec.moveName m}:?"

def sortStrings (l : List String) : List String := (l.toArray.qsort (· < ·)).toList

def joinSp (l : List String) : String := String.intercalate " " l

def posKey (p : Position) (turn : Color) : String :=
  -- first four FEN fields
  joinSp ((Fen.encode p turn 0 1).splitOn " " |>.take 4)

def perftModel : Nat → Position → Color → Nat
  | 0, _, _ => 1
  | d + 1, p, c => (p.pseudoLegalMoves c).foldl (fun acc m =>
      match p.move m with
      | some p' => acc + perftModel d p' c.opp
      | none => acc) 0

def parseHex? (s : String) : Option Nat :=
  s.toList.foldlM (fun acc c =>
    if '0' ≤ c && c ≤ '9' then some (acc * 16 + (c.toNat - '0'.toNat))
    else if 'a' ≤ c && c ≤ 'f' then some (acc * 16 + (c.toNat - 'a'.toNat + 10))
    else none) 0

def hexStr (n : Nat) : String := String.ofList (Nat.toDigits 16 n)

def specAttackSet (kind : String) (sq occ : Nat) : Option Nat :=
  let occF : Nat → Bool := fun s => occ.testBit s
  let toBB (l : List Nat) : Nat := l.foldl (fun acc s => acc ||| (1 <<< s)) 0
  match kind with
  | "K" => some (toBB (Spec.officerTargets occF .king sq))
  | "Q" => some (toBB (Spec.officerTargets occF .queen sq))
  | "R" => some (toBB (Spec.officerTargets occF .rook sq))
  | "B" => some (toBB (Spec.officerTargets occF .bishop sq))
  | "N" => some (toBB (Spec.officerTargets occF .knight sq))
  | "Pw" => some (toBB (Spec.pawnTargets .white sq))
  | "Pb" => some (toBB (Spec.pawnTargets .black sq))
  | _ => none

def modelAttackSet (kind : String) (sq occ : Nat) : Option Nat :=
  let r := newRotated occ
  match kind with
  | "K" => attackboard r sq .king
  | "Q" => attackboard r sq .queen
  | "R" => attackboard r sq .rook
  | "B" => attackboard r sq .bishop
  | "N" => attackboard r sq .knight
  | "Pw" => some (pawnCaptureboard .white (bitMask sq))
  | "Pb" => some (pawnCaptureboard .black (bitMask sq))
  | _ => none

def colorOf? (s : String) : Option Color :=
  match s with | "w" => some .white | "b" => some .black | _ => none

/-- Are all redundant views of a model position consistent with each other? (model image of `WF`) -/
def viewsOk (p : Position) : Bool :=
  let unionW := p.white.pawn ||| p.white.bishop ||| p.white.knight ||| p.white.rook ||| p.white.queen ||| p.white.king
  let unionB := p.black.pawn ||| p.black.bishop ||| p.black.knight ||| p.black.rook ||| p.black.queen ||| p.black.king
  let sumW := popCount p.white.pawn + popCount p.white.bishop + popCount p.white.knight + popCount p.white.rook + popCount p.white.queen + popCount p.white.king
  let sumB := popCount p.black.pawn + popCount p.black.bishop + popCount p.black.knight + popCount p.black.rook + popCount p.black.queen + popCount p.black.king
  unionW == p.white.all && unionB == p.black.all && sumW == popCount p.white.all && sumB == popCount p.black.all &&
  (p.white.all &&& p.black.all) == 0 && (p.white.all ||| p.black.all) == p.rotated.rot &&
  p.rotated == newRotated p.rotated.rot && p.rotated.rot < M64

def chessOp (args : List String) : String :=
  match args with
  | "gen" :: fen =>
    match Fen.decode (joinSp fen).toList with
    | none => "err"
    | some d =>
      let ms := d.pos.pseudoLegalMoves d.turn
      joinSp (toString ms.length :: ms.map fun m => fmtMove m ++ (if (d.pos.move m).isSome then ":L" else ":-"))
  | "legal" :: fen =>
    let f := joinSp fen
    match Fen.decode f.toList with
    | none => "err"
    | some d =>
      let ms := d.pos.legalMoves d.turn
      let model := joinSp (sortStrings (ms.map fmtMove))
      withSpec model ((Spec.parseFen f).map fun g =>
        joinSp (sortStrings ((Spec.legalMoves g.pos).map (fmtSpecMove g.pos))))
  | "apply" :: rest =>
    match rest.reverse with
    | mv :: fenRev =>
      let f := joinSp fenRev.reverse
      match Fen.decode f.toList with
      | none => "err"
      | some d =>
        let model :=
          match (d.pos.pseudoLegalMoves d.turn).find? (fun m => moveUci m == mv) with
          | none => "nomove"
          | some m => match d.pos.move m with
            | none => "illegal"
            | some p' => posKey p' d.turn.opp ++ (if viewsOk p' then "" else " VIEWS-BROKEN")
        withSpec model ((Spec.parseFen f).map fun g =>
          match (Spec.pseudoMoves g.pos).find? (fun m => Spec.moveName m == mv) with
          | none => "nomove"
          | some m => if Spec.isLegal g.pos m then Spec.printPosKey (Spec.apply g.pos m) else "illegal")
    | [] => "bad-op"
  | "perft" :: rest =>
    match rest.reverse with
    | ds :: fenRev =>
      let f := joinSp fenRev.reverse
      match Fen.decode f.toList, ds.toNat? with
      | some d, some depth =>
        withSpec (toString (perftModel depth d.pos d.turn)) ((Spec.parseFen f).map fun g => toString (Spec.perft depth g.pos))
      | _, _ => "err"
    | [] => "bad-op"
  | ["attacks", kind, sqs, occs] =>
    match sqs.toNat?, parseHex? occs with
    | some sq, some occ =>
      match modelAttackSet kind sq occ with
      | some bb => withSpec (hexStr bb) ((specAttackSet kind sq occ).map hexStr)
      | none => "panic"
    | _, _ => "bad-op"
  | "isattacked" :: cs :: sqs :: fen =>
    -- `Position.IsAttacked(c, sq)`: is `sq` attacked by the opponent of `c`
    let f := joinSp fen
    match Fen.decode f.toList, colorOf? cs, sqs.toNat? with
    | some d, some c, some sq =>
      withSpec (boolStr (d.pos.isAttacked c sq))
        ((Spec.parseFen f).map fun g => boolStr (Spec.attackedBy g.pos (absColor c).opp sq))
    | _, _, _ => "err"
  | "isattackedby" :: cs :: sqs :: lst :: fen =>
    -- `Position.IsAttackedBy(c, sq, list)`: is `sq` attacked by one of the listed kinds of pieces of the opponent of `c`
    -- (`lst`: the piece codes as digits, in the order given; any list, also ones no caller in the repository uses)
    let f := joinSp fen
    let pieces := lst.toList.filterMap fun ch => if '0' ≤ ch && ch ≤ '6' then some (Piece.ofCode (ch.toNat - 48)) else none
    match Fen.decode f.toList, colorOf? cs, sqs.toNat? with
    | some d, some c, some sq =>
      withSpec (boolStr (d.pos.isAttackedBy c sq pieces))
        ((Spec.parseFen f).map fun g =>
          let kinds := pieces.filterMap absKind
          boolStr (Spec.allSquares.any fun s =>
            match g.pos.at s with
            | some (c', k) =>
              c' = (absColor c).opp && kinds.contains k &&
                (if k = .pawn then (Spec.pawnTargets c' s).contains sq else (Spec.officerTargets g.pos.occ k s).contains sq)
            | none => false))
    | _, _, _ => "err"
  | "ischecked" :: cs :: fen =>
    let f := joinSp fen
    match Fen.decode f.toList, colorOf? cs with
    | some d, some c =>
      withSpec (boolStr (d.pos.isChecked c)) ((Spec.parseFen f).map fun g => boolStr (Spec.inCheck g.pos (absColor c)))
    | _, _ => "err"
  | "ismate" :: fen =>
    let f := joinSp fen
    match Fen.decode f.toList with
    | some d =>
      withSpec (boolStr (d.pos.isCheckMate d.turn))
        ((Spec.parseFen f).map fun g => boolStr (Spec.inCheck g.pos g.pos.turn && (Spec.legalMoves g.pos).isEmpty))
    | _ => "err"
  | "playq" :: rest =>
    -- play the moves without re-decoding in between, then ask the derived queries
    let fenToks := rest.takeWhile (· ≠ ";")
    let mvs := (rest.dropWhile (· ≠ ";")).drop 1
    let f := joinSp fenToks
    match Fen.decode f.toList with
    | none => "err"
    | some d =>
      let fin := mvs.foldl (fun (acc : Option (Position × Color)) mv =>
        match acc with
        | none => none
        | some (p, c) =>
          match (p.pseudoLegalMoves c).find? (fun m => moveUci m == mv) with
          | none => none
          | some m => (p.move m).map fun p' => (p', c.opp)) (some (d.pos, d.turn))
      let model := match fin with
        | none => "stuck"
        | some (p, c) =>
          let att (by_ : Color) : Nat := (List.range 64).foldl (fun acc sq => if p.isAttacked by_.opp sq then acc ||| (1 <<< sq) else acc) 0
          joinSp [posKey p c, hexStr (att .white), hexStr (att .black), boolStr (p.isChecked .white), boolStr (p.isChecked .black),
            boolStr (p.isCheckMate c), if viewsOk p then "v" else "VIEWS-BROKEN"]
      withSpec model ((Spec.parseFen f).map fun g =>
        let fin := mvs.foldl (fun (acc : Option Spec.Pos) mv =>
          match acc with
          | none => none
          | some p => ((Spec.legalMoves p).find? (fun m => Spec.moveName m == mv)).map (Spec.apply p)) (some g.pos)
        match fin with
        | none => "stuck"
        | some p =>
          let att (by_ : Spec.Color) : Nat := (List.range 64).foldl (fun acc sq => if Spec.attackedBy p by_ sq then acc ||| (1 <<< sq) else acc) 0
          joinSp [Spec.printPosKey p, hexStr (att .white), hexStr (att .black), boolStr (Spec.inCheck p .white), boolStr (Spec.inCheck p .black),
            boolStr (Spec.inCheck p p.turn && (Spec.legalMoves p).isEmpty), "v"])
  | _ => "bad-op"

end Morlock.Driver
