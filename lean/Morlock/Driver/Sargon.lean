import Morlock.Model.Sargon
import Morlock.Spec.Pins
import Morlock.Spec.Fen
import Morlock.Model.BoardGame
import Morlock.Driver.Game
import Morlock.Driver.Score
import Morlock.Driver.Flt
/-!
Driver op `sargon <fen6> ; m:<uci> … ; root=<k>[ ; q=<alpha>/<beta>/<cancel>]`: the SARGON evaluation
(`Points.Reset` at the board after the first `k` moves, `Points.Evaluate` after all of them) with every component,
and optionally `OnePlyIfChecked.QuietSearch` at the final board.
-/
namespace Morlock.Driver
open Morlock Morlock.Model Morlock.Model.Sargon
open Morlock.Model.Flt (Q bits32)

def errStr : SErr → String
  | .fuel => "err:fuel" | .attackboard => "err:attackboard" | .index => "err:index" | .float => "err:float"

def pawnsStr (q : Q) : String := match bits32 q with | some b => hexStr b | none => "none"

/-- order key of a float32 value (sign-magnitude bits), as `f32key` of the harness -/
def f32keyQ (q : Q) : Int :=
  match bits32 q with
  | some b => if b ≥ 2147483648 then -((b - 2147483648 : Nat) : Int) else (b : Int)
  | none => 0

def insPair (x : Nat × Nat) : List (Nat × Nat) → List (Nat × Nat)
  | [] => [x]
  | y :: ys => if x.1 < y.1 || (x.1 == y.1 && x.2 < y.2) then x :: y :: ys else y :: insPair x ys

def pinsStr (pins : Pins) : String :=
  match pins.foldl (fun acc x => insPair x acc) [] with
  | [] => "-"
  | l => String.intercalate "," (l.map fun e => s!"{e.1}>{e.2}")

def stackKey (a : Attacker) : String :=
  String.intercalate "+" ((a.front :: a.behind).map fun p => s!"{p.piece.code}@{p.square}")

def sideKeys (l : List Attacker) : String :=
  if l.isEmpty then "-" else String.intercalate "." (l.map fun a => s!"{a.front.piece.code}@{a.front.square}")

def exceptStr {α : Type} (f : α → String) : Except SErr α → String
  | .ok a => f a
  | .error e => errStr e

/-- per square: white and black `FindAttackers` (stacks in the order of the Go slice) -/
def attStr (pos : Position) (pins : Pins) : String :=
  String.intercalate "," ((List.range 64).filterMap fun sq =>
    let one (c : Color) : String := exceptStr (fun l => if l.isEmpty then "-" else String.intercalate "." (l.map stackKey))
      (findAttackers pos pins sq c)
    let w := one .white
    let b := one .black
    if w == "-" && b == "-" then none else some s!"{sq}:{w}/{b}")

/-- per occupied square: exchange value (for `side`), and the flattened defender / attacker lists -/
def exchStr (pos : Position) (pins : Pins) (side : Color) (keys : Bool) : String :=
  String.intercalate "," ((toSquares pos.all).map fun sq =>
    let v := exceptStr (fun (x : Int) => toString x) (exchange pos pins side sq)
    if !keys && (match pos.square sq with | some (_, k) => k != .king | none => false) then s!"{sq}:{v}" else
    match pos.square sq with
    | none => s!"{sq}:{v}:empty"
    | some (cur, piece) =>
      if piece = .king then s!"{sq}:{v}:K" else
      let fs (c : Color) : String :=
        match findAttackers pos pins sq c with
        | .error e => errStr e
        | .ok l => exceptStr sideKeys (findSide l c)
      s!"{sq}:{v}:{fs cur}:{fs cur.opp}")

def sortNats (l : List Nat) : List Nat := (l.toArray.qsort (· < ·)).toList

def tripleLt (x y : Nat × Nat × Nat) : Bool :=
  x.1 < y.1 || (x.1 == y.1 && (x.2.1 < y.2.1 || (x.2.1 == y.2.1 && x.2.2 < y.2.2)))

def triplesStr (l : List (Nat × Nat × Nat)) : String :=
  if l.isEmpty then "-" else
    String.intercalate "," (((l.toArray.qsort tripleLt).toList).map fun e => s!"{e.1}/{e.2.1}/{e.2.2}")

def natsStr (l : List Nat) : String := if l.isEmpty then "-" else String.intercalate "." ((sortNats l).map toString)

def fpGroups : List (String × Color × Piece) :=
  [("wK", .white, .king), ("wQ", .white, .queen), ("bK", .black, .king), ("bQ", .black, .queen)]

/-- `eval.FindPins` for the four (side, piece) pairs SARGON asks for: sorted `attacker/pinned/target` -/
def fpModel (pos : Position) : String :=
  String.intercalate ";" (fpGroups.map fun (n, c, k) =>
    n ++ ":" ++ triplesStr ((findPins pos c k).map fun pin => (pin.attacker, pin.pinned, pin.target)))

def fpSpec (q : Spec.Pos) : String :=
  String.intercalate ";" (fpGroups.map fun (n, c, k) =>
    n ++ ":" ++ triplesStr (Spec.specPins q (absColor c) (kindOf' k)))
where kindOf' : Piece → Spec.Kind
  | .queen => .queen | _ => .king

/-- the reference's king/queen pins as `(pinned, attacker)`, queen-on-queen pins omitted -/
def kqPinsSpec (q : Spec.Pos) : Pins :=
  ([Spec.Color.white, Spec.Color.black].flatMap fun c =>
    [Spec.Kind.king, Spec.Kind.queen].flatMap fun k =>
      (Spec.specPins q c k).filterMap fun (a, f, _) =>
        match q.at a with
        | some (_, ka) => if ka = k then none else some (f, a)
        | none => some (f, a))

/-- squares heading the stacks of `FindAttackers`, per square and side -/
def dirModel (pos : Position) (pins : Pins) : String :=
  String.intercalate "," ((List.range 64).filterMap fun sq =>
    let one (c : Color) : String := exceptStr (fun l => natsStr (l.map fun a => a.front.square)) (findAttackers pos pins sq c)
    let w := one .white
    let b := one .black
    if w == "-" && b == "-" then none else some s!"{sq}:{w}/{b}")

def dirSpec (q : Spec.Pos) (pins : Pins) : String :=
  String.intercalate "," ((List.range 64).filterMap fun sq =>
    let one (c : Spec.Color) : String := natsStr (Spec.specDirect q (fun s => isPinnedFor pins s sq) sq c)
    let w := one .white
    let b := one .black
    if w == "-" && b == "-" then none else some s!"{sq}:{w}/{b}")

/-- the reference position after the moves (reference move generator and `apply`) -/
def specAfter (q : Spec.Pos) : List String → Option Spec.Pos
  | [] => some q
  | m :: rest =>
    match (Spec.legalMoves q).find? (fun sm => Spec.moveName sm == m) with
    | none => none
    | some sm => specAfter (Spec.apply q sm) rest

def sargonGame (z : ZTable) (pts : Points) : Game World :=
  { boardGame z (fun _ _ => 0) with
    eval := fun w => match evaluate pts (BView.ofWorld w 0) with | .ok q => f32keyQ q | .error _ => 0 }

def pushUci (z : ZTable) (w : World) (uci : String) : Option World :=
  let bd := w.board 0
  match ((w.cur 0).pos.pseudoLegalMoves bd.turn).find? (fun m => moveUci m == uci) with
  | none => none
  | some m => w.pushMove z 0 m

def pushAll (z : ZTable) (w : World) : List String → Option World
  | [] => some w
  | m :: rest => match pushUci z w m with
    | none => none
    | some w' => pushAll z w' rest

def sargonOp (st : DriverState) (args : List String) : String :=
  match st.ztables.find? (fun e => e.1 == "0") with
  | none => "no-ztable"
  | some (_, za) =>
    let z := za.table
    let fenToks := args.takeWhile (· ≠ ";")
    let rest := (args.dropWhile (· ≠ ";")).drop 1
    let moves := (rest.takeWhile (· ≠ ";")).filterMap fun t => if t.startsWith "m:" then some (t.drop 2).toString else none
    let tail := (rest.dropWhile (· ≠ ";")).drop 1
    let opts := tail.filter (· ≠ ";")
    let root := (opts.findSome? fun t => if t.startsWith "root=" then (t.drop 5).toString.toNat? else none).getD 0
    let qopt := opts.findSome? fun t => if t.startsWith "q=" then some (t.drop 2).toString else none
    match Fen.decode (joinSp fenToks).toList with
    | none => "err"
    | some d =>
      let (w0, _) := (({} : World).newBoard z d.pos d.turn d.noprogress d.fullmoves)
      match pushAll z w0 (moves.take root) with
      | none => "badmove"
      | some wr =>
      match pushAll z wr (moves.drop root) with
      | none => "badmove"
      | some w =>
        let vr := BView.ofWorld wr 0
        let v := BView.ofWorld w 0
        -- `reset=0`: `Reset` is never called for the board; `forget=1`: `Forget(b)` between `Reset` and `Evaluate`
        let m0 : PointsMap := {}
        let m1 : Except SErr PointsMap := if opts.contains "reset=0" then .ok m0 else m0.reset 0 vr
        match m1 with
        | .error e => "reset " ++ errStr e
        | .ok m1 =>
          let m2 := if opts.contains "forget=1" then m1.forget 0 else m1
          let pts := m2.root 0
          let pins := findKingQueenPins v.pos
          let main :=
            match evaluateParts pts v with
            | .error e => "points=" ++ errStr e
            | .ok r =>
              s!"points={pawnsStr r.points} mtrl2={r.mtrl2} ptschk={boolStr r.ptschk} brdc={r.brdc}"
          let line := joinSp [main,
            "mob=" ++ exceptStr (fun (x : Int) => toString x) (mobility v pins),
            s!"dev={development v}", s!"brdc0={pts.brdc0}",
            "pins=" ++ pinsStr pins,
            "fp=" ++ fpModel v.pos,
            "dir=" ++ dirModel v.pos pins,
            "att=" ++ attStr v.pos pins,
            "exch=" ++ exchStr v.pos pins v.turn.opp (!opts.contains "keys=0")]
          -- the reference side: pins and direct attackers from `Spec/Pins.lean` on the reference position
          let spec : Option String :=
            match Spec.parseFen (joinSp fenToks) with
            | none => none
            | some sg =>
              match specAfter sg.pos moves with
              | none => none
              | some sp =>
                let spins := kqPinsSpec sp
                some (joinSp (["points=*", "mtrl2=*", "ptschk=*", "brdc=*", "mob=*", "dev=*", "brdc0=*",
                  "pins=" ++ pinsStr spins, "fp=" ++ fpSpec sp, "dir=" ++ dirSpec sp spins, "att=*", "exch=*"] ++
                  (if qopt.isSome then ["q=*"] else [])))
          (fun (model : String) => withSpec model spec) <|
          match qopt with
          | none => line
          | some q =>
            match q.splitOn "/" with
            | [a, b, c] =>
              match parseScore? a, parseScore? b, c.toNat? with
              | some a, some b, some cancel =>
                let g := sargonGame z pts
                let st0 : SState := { cancelAt := if cancel = 0 then none else some cancel }
                let (s, st1) := onePlyIfChecked g w a b st0
                line ++ s!" q={st1.nodes}/{fmtScore s}"
              | _, _, _ => line ++ " q=bad"
            | _ => line ++ " q=bad"

end Morlock.Driver
