import Morlock.Driver.Engine
import Morlock.Driver.Search
import Morlock.Model.UciSeq
import Morlock.Model.UciConc
import Morlock.Model.UciPos
namespace Morlock.Driver
open Morlock Morlock.Model

/-- `strings.TrimSpace` / `strings.Fields` on ASCII-space separated text. -/
def trimSp (s : String) : String := String.ofList (Fen.trimSpace s.toList)
def fieldsSp (s : String) : List String := (s.splitOn " ").filter (· ≠ "")

/-- `continuation(last, line)` of uci.go (the kernel-evaluable definition lives in `Model.UciSeq`). -/
def continuation (last line : String) : Option (List String) :=
  (Model.UciSeq.continuation last.toList line.toList).map fun l => l.map String.ofList

/-- Sequential model of the UCI driver for the deterministic part of the protocol. -/
structure UciM where
  eng : EngineM
  lastPosition : String := ""
  hashMB : Nat := 0
  depthOpt : Nat := 0
  tt : TTState := {}

/-- Reference: the game the most recent well-formed `position` line describes, set up from scratch. -/
def denote (line : String) : Option SBoard :=
  let toks := fieldsSp line
  match toks with
  | "position" :: rest =>
    let (fenStr, after) : String × List String :=
      match rest with
      | "fen" :: r => (joinSp (r.take 6), r.drop 6)
      | "startpos" :: r => ("rnbqkbnr/pppppppp/8/8/8/8/PPPPPPPP/RNBQKBNR w KQkq - 0 1", r)
      | r => ("rnbqkbnr/pppppppp/8/8/8/8/PPPPPPPP/RNBQKBNR w KQkq - 0 1", r)
    match Spec.parseFen fenStr with
    | none => none
    | some sg =>
      let mvs := after.filter (· ≠ "moves")
      mvs.foldlM (fun (sb : SBoard) mv =>
        match (Spec.legalMoves sb.game.current).find? (fun sm => Spec.moveName sm == mv) with
        | none => none
        | some sm =>
          let g' : Spec.Game := { sb.game with moves := sb.game.moves ++ [sm] }
          let prev := sb.res.getLastD "-"
          let tok := match specDrawToken g' with | some t => t | none => if prev = "-" then "-" else "*"
          some ⟨g', sb.res ++ [tok]⟩) ⟨{ start := sg }, ["-"]⟩
  | _ => none

/-- The concrete engine as an `UciPos.Eng`: the engine proper plus the transposition table `Reset` installs
    (`hashMB` = the `Hash` option at the time of the command). -/
def engOf (z : ZTable) (hashMB : Nat) : Model.UciPos.Eng (EngineM × TTState) where
  reset fen :=
    let (e', ok) := EngineM.reset z default fen
    if ok then some (e', if hashMB > 0 then TTState.new (hashMB * 1048576) else {}) else none
  move s arg :=
    let (e', ok) := s.1.move z arg
    if ok then some (e', s.2) else none

/-- The `position` handler: `Model.UciPos.position` (the function the C10 theorems are about) on the
    concrete engine. -/
def uciPosition (z : ZTable) (u : UciM) (line : String) : UciM :=
  let r := Model.UciPos.position (engOf z u.hashMB) ((u.eng, u.tt), u.lastPosition.toList) line.toList
  { u with eng := r.1.1, tt := r.1.2, lastPosition := String.ofList r.2 }

/-- `go depth N` on the deterministic configuration: iterative deepening 1..N sharing the table;
    stops early once a forced mate within the searched depth is found. Returns the best move text. -/
def uciGoDepth (z : ZTable) (u : UciM) (limit : Nat) : UciM × String :=
  let g := materialGame z
  let (w, fid) := u.eng.w.fork 0
  -- the search board is board `fid` of the forked world; the search model looks at board 0, so
  -- rebuild a world whose board 0 is the fork (same nodes)
  let wf : World := { nodes := w.nodes, boards := #[w.board fid] }
  let rec iter (fuel : Nat) (d : Nat) (tt : TTState) (best : String) : TTState × String :=
    match fuel with
    | 0 => (tt, best)
    | fuel + 1 =>
      let (res, st) := alphaBetaSearch g (constEx fullExploration) .static wf d Score.negInfScore Score.infScore { tt := tt }
      match res with
      | none => (st.tt, best)
      | some sr =>
        let best := match sr.pv with | m :: _ => moveUci m | [] => "0000"
        let mateStop := match sr.score.mateDistance with | some md => md ≤ (d : Int) | none => false
        if d == limit || mateStop then (st.tt, best) else iter fuel (d + 1) st.tt best
  let (tt', best) := iter limit 1 u.tt "0000"
  ({ u with tt := tt' }, best)

/-! ### Conformance of the small-step model `UciConc` on deterministic scripts

The theorems of C04/C16 are about `Model.UciConc`. On the deterministic scripts of the `ucidet`
stream the small-step model is run under the canonical schedule (each command processed to the
end, a search run to completion when the script waits for its answer, forwarders drained) and its
visible events (`readyok`, `bestmove` of go number k) must be those of the sequential model, which
the stream ties to the real driver exactly. -/
namespace Conc
open Morlock.Model.UciConc

def consumed (s : State) : Nat := (s.log.filter fun e => match e with | .consume _ => true | _ => false).length

/-- run the loop until `k` commands are consumed and it is back at `select`; unblock it by letting searches make progress -/
def settle (k : Nat) : Nat → State → State
  | 0, s => s
  | fuel + 1, s =>
    if s.loop == .select && consumed s ≥ k then s else
    let s' := step s (.loop .cmd)
    if s' != s then settle k fuel s' else
      -- blocked: let every search iterate once (closes init), exit if halted, and forwarders run
      let s1 := (List.range s.srch.length).foldl (fun s j => step s (.searchIter j)) s
      let s2 := (List.range s1.srch.length).foldl (fun s j => if (searchAt s j).quit then step s (.searchExit j) else s) s1
      let s3 := (List.range s2.fwds.length).foldl (fun s j => step (step (step s (.fwd j)) (.fwd j)) (.fwd j)) s2
      if s3 != s then settle k fuel s3 else s

/-- the script waits for the answer: the active search finishes by itself, forwarders drain -/
def finish : Nat → State → State
  | 0, s => s
  | fuel + 1, s =>
    let s1 := (List.range s.srch.length).foldl (fun s j => if (searchAt s j).done then s else step (step s (.searchIter j)) (.searchExit j)) s
    let s2 := (List.range s1.fwds.length).foldl (fun s j => step s (.fwd j)) s1
    if s2 != s then finish fuel s2 else s

def visible (before after : State) : String :=
  let new := (after.log.take (after.log.length - before.log.length)).reverse
  String.join (new.filterMap fun e => match e with
    | .send .readyok => some "R"
    | .send (.bestmove id _) => some s!"B{id}"
    | .sendClosed _ => some "!"
    | _ => none)

end Conc

/-- abstract command of a script line for the small-step model -/
def concCmd (line : String) : Model.UciConc.Cmd :=
  let toks := fieldsSp line
  match toks.headD "" |>.toLower with
  | "isready" => .isready
  | "ucinewgame" => .ucinewgame
  | "position" => .position
  | "stop" => .stop
  | "quit" => .quit
  | "go" =>
    match toks.drop 1 with
    | ["depth", n] => if n.toNat?.isSome then .go {} else .goMalformed
    | [] => .go {}
    | _ => .goMalformed
  | _ => .other

/-- visible events of the small-step model along a deterministic script, one item per step -/
def concTrace (steps : List String) : List String :=
  let cmds := steps.filterMap fun st =>
    let st := trimSp st
    if st.startsWith "> " then some (concCmd (st.drop 2).toString) else if st = "sync" then some .isready else if st = "close" then some .eof else none
  let (_, _, out) := steps.foldl (fun (acc : Model.UciConc.State × Nat × List String) st =>
    let (s, k, out) := acc
    let st := trimSp st
    if st.startsWith "> " || st = "sync" || st = "close" then
      let s' := Conc.settle (k + 1) 200 s
      (s', k + 1, out ++ [Conc.visible s s'])
    else if st.startsWith "wait-bestmove" then
      let s' := Conc.finish 50 s
      (s', k, out ++ [Conc.visible s s'])
    else (s, k, out ++ [""])) (Model.UciConc.init cmds, 0, [])
  out

/-- the same abstraction of the sequential model's trace: R for readyok, B<k> for the answer to the k-th go -/
def seqAbstract (steps : List String) (ms : List String) : List String :=
  let (_, out) := (steps.zip ms).foldl (fun (acc : Nat × List String) (st, m) =>
    let (gos, out) := acc
    let st := trimSp st
    let gos := if st.startsWith "> " && (concCmd (st.drop 2).toString matches .go _) then gos + 1 else gos
    let item := if m.startsWith "sync=readyok" then "R" else if m.startsWith "answered=bestmove" then s!"B{gos}" else ""
    (gos, out ++ [item])) (0, [])
  out

def uciOp (st : DriverState) (args : List String) : String :=
  match args with
  | kind :: seed :: ";" :: rest =>
    if kind ≠ "plain" && kind ≠ "plain+used" then "bad-op" else
    match st.ztables.find? (fun e => e.1 == seed) with
    | none => "no-ztable"
    | some (_, za) =>
      let z := za.table
      let steps := (joinSp rest).splitOn " ;; "
      let initFen := "rnbqkbnr/pppppppp/8/8/8/8/PPPPPPPP/RNBQKBNR w KQkq - 0 1"
      let e0 := (EngineM.reset z default initFen.toList).1
      -- "plain+used": the driver is attached to an engine that has already played 1. e4 e5 through its own API
      let e0 := if kind == "plain+used" then (EngineM.move z (EngineM.move z e0 "e2e4".toList).1 "e7e5".toList).1 else e0
      let u0 : UciM := { eng := e0 }
      let sb0 : Option SBoard := (Spec.parseFen initFen).map fun sg => ⟨{ start := sg }, ["-"]⟩
      let stateM (u : UciM) : String := "state=" ++ (u.eng.position ++ " " ++ obsModel u.eng.w z 0).replace " " "_"
      let stateS (sb : Option SBoard) : String := match sb with
        | some sb => "state=" ++ (sb.game.fen ++ " " ++ obsSpec z sb).replace " " "_"
        | none => "state=*"
      let (_, _, _, ms, ss) := steps.foldl (fun (acc : UciM × Option SBoard × Option String × List String × List String) step =>
        let (u, sb, pending, ms, ss) := acc
        let step := trimSp step
        if step.startsWith "> " then
          let line := (step.drop 2).toString
          let cmd := ((trimSp line).splitOn " ").headD ""
          if cmd.toLower = "position" then
            let u' := uciPosition z u line
            -- reference: the last well-formed position command, from scratch; a malformed one leaves "unknown"
            (u', denote line, none, ms ++ ["sent"], ss ++ ["sent"])
          else if cmd.toLower = "ucinewgame" then ({ u with lastPosition := "" }, sb, none, ms ++ ["sent"], ss ++ ["sent"])
          else if cmd.toLower = "setoption" then
            let a := ((trimSp line).splitOn " ").drop 1
            let name := a.getD 1 ""
            let value := (a.getD 3 "").toNat?.getD 0
            let u' := if name = "Hash" then { u with hashMB := value } else if name = "Depth" then { u with depthOpt := value } else u
            (u', sb, none, ms ++ ["sent"], ss ++ ["sent"])
          else if cmd.toLower = "go" then
            let a := ((trimSp line).splitOn " ").drop 1
            let limit := match a with
              | ["depth", n] => n.toNat?.getD 0
              | [] => u.depthOpt
              | _ => 0
            if limit = 0 then (u, sb, some "?", ms ++ ["sent"], ss ++ ["sent"]) else
              let (u', best) := uciGoDepth z u limit
              (u', sb, some best, ms ++ ["sent"], ss ++ ["sent"])
          else (u, sb, pending, ms ++ ["sent"], ss ++ ["sent"])
        else if step = "sync" then (u, sb, pending, ms ++ ["sync=readyok"], ss ++ ["sync=readyok"])
        else if step.startsWith "wait-bestmove" then
          let m := match pending with | some b => "answered=bestmove_" ++ b | none => "NO-BESTMOVE"
          let s := match sb with
            | some sb =>
              let legal := Spec.legalMoves sb.game.current
              if legal.isEmpty then "answered=bestmove_0000"
              else "answered={" ++ String.intercalate "|" (legal.map fun sm => "bestmove_" ++ Spec.moveName sm) ++ "}"
            | none => "answered=*"
          (u, sb, none, ms ++ [m], ss ++ [s])
        else if step = "state" then (u, sb, pending, ms ++ [stateM u], ss ++ [stateS sb])
        else if step = "alive" then (u, sb, pending, ms ++ ["alive"], ss ++ ["alive"])
        else if step.startsWith "wait-closed" then (u, sb, pending, ms ++ ["driver-closed"], ss ++ ["driver-closed"])
        else if step = "close" then (u, sb, pending, ms ++ ["closed-input"], ss ++ ["closed-input"])
        else (u, sb, pending, ms ++ ["bad-step"], ss ++ ["bad-step"]))
        (u0, sb0, none, [], [])
      -- conformance of the small-step model (C04/C16 theorems are about it)
      let conc := concTrace steps
      let seqA := seqAbstract steps ms
      let tag := if conc == seqA then "" else " CONC-MISMATCH:" ++ String.intercalate "," conc ++ "/" ++ String.intercalate "," seqA
      joinSp ms ++ tag ++ " ## " ++ joinSp ss
  | _ => "bad-op"

end Morlock.Driver
