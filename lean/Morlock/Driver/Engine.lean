import Morlock.Driver.Game
import Morlock.Driver.Fen
import Morlock.Model.EngineM
namespace Morlock.Driver
open Morlock Morlock.Model

/-! The engine model itself (`EngineM`: `reset`, `move`, `takeBack`, `position`) lives in `Model/EngineM.lean`; the
theorems about it are in `Props/C19` and `Props/C10Engine`. This file runs it against the reference game. -/

/-- What the string denotes, case-insensitively in the file and promotion letters (as `ParseMove` documents). -/
def normMoveText (s : List Char) : Option String :=
  let lower (c : Char) : Char := if 'A' ≤ c && c ≤ 'Z' then Char.ofNat (c.toNat + 32) else c
  let isFile (c : Char) := 'a' ≤ lower c && lower c ≤ 'h'
  let isRank (c : Char) := '1' ≤ c && c ≤ '8'
  match s with
  | [a, b, c, d] => if isFile a && isRank b && isFile c && isRank d then some (String.ofList [lower a, b, lower c, d]) else none
  | [a, b, c, d, p] =>
    if isFile a && isRank b && isFile c && isRank d && (lower p = 'q' || lower p = 'r' || lower p = 'b' || lower p = 'n')
    then some (String.ofList [lower a, b, lower c, d, lower p]) else none
  | _ => none

structure EngineRun where
  m : EngineM
  sb : SBoard

def engineOp (st : DriverState) (args : List String) : String :=
  match args with
  | seed :: rest =>
    match st.ztables.find? (fun e => e.1 == seed) with
    | none => "no-ztable"
    | some (_, za) =>
      let z := za.table
      let items := (rest.dropWhile (· ≠ ";")).drop 1
      let initFen := "rnbqkbnr/pppppppp/8/8/8/8/PPPPPPPP/RNBQKBNR w KQkq - 0 1"
      match Spec.parseFen initFen with
      | none => "err"
      | some sg0 =>
      let r0 : EngineRun := { m := (EngineM.reset z default initFen.toList).1, sb := ⟨{ start := sg0 }, ["-"]⟩ }
      let obsM (r : EngineRun) : String := r.m.position ++ " " ++ obsModel r.m.w z 0
      let obsS (r : EngineRun) : String := r.sb.game.fen ++ " " ++ obsSpec z r.sb
      let (_, ms, ss) := items.foldl (fun (acc : EngineRun × List String × List String) it =>
        let (r, ms, ss) := acc
        let isReset := it.startsWith "reset:"
        let (r', okM, okS) : EngineRun × Bool × Bool :=
          if it.startsWith "reset:" then
            let txt := parseRunes (it.drop 6).toString
            let (m', ok) := r.m.reset z txt
            -- reference: the accepted text, normalised to the standard FEN it re-encodes to (C19.accepted_normalised),
            -- becomes the game; rejected text leaves the game as it was
            let canon := match Fen.decode txt with
              | some d => Spec.parseFen (Fen.encode d.pos d.turn d.noprogress d.fullmoves)
              | none => none
            match canon with
            | some sg => ({ m := m', sb := if ok then ⟨{ start := sg }, ["-"]⟩ else r.sb }, ok, ok)
            | none => ({ m := m', sb := r.sb }, ok, ok)
          else if it.startsWith "mv:" then
            let txt := parseRunes (it.drop 3).toString
            let (m', ok) := r.m.move z txt
            let g := r.sb.game
            match (normMoveText txt).bind fun t => (Spec.legalMoves g.current).find? (fun sm => Spec.moveName sm == t) with
            | some sm =>
              let g' : Spec.Game := { g with moves := g.moves ++ [sm] }
              let prev := r.sb.res.getLastD "-"
              let tok := match specDrawToken g' with | some t => t | none => if prev = "-" then "-" else "*"
              ({ m := m', sb := ⟨g', r.sb.res ++ [tok]⟩ }, ok, true)
            | none => ({ m := m', sb := r.sb }, ok, false)
          else if it = "tb" then
            let (m', ok) := r.m.takeBack
            let g := r.sb.game
            if g.moves.isEmpty then ({ m := m', sb := r.sb }, ok, false)
            else
              let res' := r.sb.res.dropLast
              let res' := if res'.getLastD "-" = "-" then res' else res'.dropLast ++ ["*"]
              ({ m := m', sb := ⟨{ g with moves := g.moves.dropLast }, res'⟩ }, ok, true)
          else (r, false, false)
        -- a reset reports, besides the state, whether what was accepted is well formed: the reported FEN decodes, re-encodes to
        -- itself, is the FEN of the board, and the board's hash is the from-scratch hash (C19 for an accepted FEN)
        let wfM : String :=
          if !isReset then "" else if !okM then " wf=-" else
            let p := r'.m.position
            let bd := r'.m.w.board 0
            let c := r'.m.w.cur 0
            let rt := match Fen.decode p.toList with
              | some d => Fen.encode d.pos d.turn d.noprogress d.fullmoves == p
              | none => false
            " wf=" ++ boolStr (rt && Fen.encode c.pos bd.turn c.noprogress bd.moves == p && c.hash == z.hash c.pos bd.turn)
        let mseg := (if okM then "ok " else "err ") ++ obsM r' ++ wfM
        let plain := (if okS then "ok " else "err ") ++ obsS r' ++ (if !isReset then "" else if okS then " wf=true" else " wf=-")
        -- a text the reference decoder rejects: a decoder may also accept it, if what it accepts is well formed (the script
        -- sets the game up afresh right after such a text, so nothing later depends on the choice)
        let wild := String.intercalate " " (List.replicate 21 "*")
        let sseg := if isReset && !okS then s!"<<{plain} ~~ ok {wild} wf=true>>" else plain
        (r', ms ++ [mseg], ss ++ [sseg]))
        (r0, ["start " ++ obsM r0], ["start " ++ obsS r0])
      String.intercalate " | " ms ++ " ## " ++ String.intercalate " | " ss
  | _ => "bad-op"

end Morlock.Driver
