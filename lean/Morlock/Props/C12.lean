import Morlock.Props.C11
/-!
# C12 — halting at any instant is clean

Cancellation model (`Model/Search.lean`): the context is polled at fixed places (`poll`, which counts the
polls in `st.polls`); with `st.cancelAt = some k` the `k`-th poll and all later ones report "cancelled".
`Live st` says that no poll performed so far reported "cancelled" (`∀ k, st.cancelAt = some k → st.polls < k`).
`alphaBetaSearch` ends with one more poll and returns `none` (`ErrHalted`) iff that poll reports cancelled.

Hypotheses as in C11 (`EvalOk`, `HashOK`, `RootFree` for the root ply, `leafGrade le + d ≤ 127`, a `Sound`
starting table of any size); the cancellation instant `k` is arbitrary.
-/
namespace Morlock.Props.C12
open Morlock Morlock.Model Morlock.Model.Score Morlock.Spec Morlock.Proofs.AB
open Morlock.Props.C09
variable {P : Type}

/-- Cancellation is monotone: once a poll reported "cancelled", every later poll (of any state reached
    from there: same cancellation instant, poll counter not smaller) reports "cancelled". -/
theorem cancelled_stays (st st' : SState) (h1 : st'.cancelAt = st.cancelAt) (h2 : st.polls + 1 ≤ st'.polls)
    (hc : (poll st).1 = true) : (poll st').1 = true :=
  cancelled_mono (st := st) (st' := st') ⟨h1, h2⟩ hc

/-- **C12 (a halted search reports halted), in terms of the search's own final poll.** For every game,
    window and starting state whatsoever: `alphaBetaSearch` returns `none` exactly if the search was not
    live at its end, i.e. iff its last poll (the `polls`-th one of the final state) reported "cancelled". -/
theorem reports_halted (g : Game P) (ex : Explore) (le : LeafEval) (p : P) (d : Nat) (a b : Score) (st : SState) :
    (alphaBetaSearch g ex le p d a b st).1 = none ↔ ¬ Live (alphaBetaSearch g ex le p d a b st).2 := by
  simp only [alphaBetaSearch, poll_eq]
  generalize alphabeta g ex le (g.ply p) d p _ _ _ = r
  by_cases hc : cancelled r.2.2 = true
  · simp only [hc, if_true]
    exact ⟨fun _ => not_live_of_cancelled hc, fun _ => trivial⟩
  · have hc' : cancelled r.2.2 = false := by simpa using hc
    simp only [hc', Bool.false_eq_true, if_false]
    have := (cancelled_false_iff r.2.2).1 hc'
    exact ⟨fun h => (by cases h), fun h => absurd this h⟩

/-- **C12 (halted at any poll of the search).** If the context is cancelled at the `k`-th poll and the
    search performs at least `k` polls (counting from `st.polls`, including the final one of
    `alphaBetaSearch`), the result is `none`: a score is never reported by a halted search. If it performs
    fewer than `k` polls it was never disturbed and reports exactly `V`. -/
theorem reports_halted_at (g : Game P) (ex : Explore) (le : LeafEval) (hev : EvalOk g) (hh : HashOK g ex le)
    (p : P) (hrf : RootFree g (g.ply p)) (d : Nat) (hd : leafGrade le + d ≤ 127)
    (st : SState) (hs : Sound g ex le st.tt) (k : Nat) (hk : st.cancelAt = some k) :
    (k ≤ (alphaBetaSearch g ex le p d invalidScore invalidScore st).2.polls →
      (alphaBetaSearch g ex le p d invalidScore invalidScore st).1 = none) ∧
    ((alphaBetaSearch g ex le p d invalidScore invalidScore st).2.polls < k →
      ∃ n pv, (alphaBetaSearch g ex le p d invalidScore invalidScore st).1 =
        some ⟨n, V g ex le (g.ply p) d p, pv⟩ ∧ Principal g ex le (g.ply p) d p pv) := by
  obtain ⟨h1, _, h3, h4⟩ := alphaBetaSearch_tt hev ex le hh p hrf d hd st hs
  have hk' : (alphaBetaSearch g ex le p d invalidScore invalidScore st).2.cancelAt = some k := by
    rw [h1.1]; exact hk
  constructor
  · intro hle
    apply h3.2
    intro hl
    have := hl k hk'
    omega
  · intro hlt
    have hl : Live (alphaBetaSearch g ex le p d invalidScore invalidScore st).2 := by
      intro k' hk''
      rw [hk'] at hk''
      cases hk''
      exact hlt
    obtain ⟨n, pv, e1, e2, _⟩ := h4 hl
    exact ⟨n, pv, e1, e2⟩

/-- The search polls at least twice (on entry and at the end of `alphaBetaSearch`), so a context that is
    already cancelled (`k ≤ st.polls + 1`) always yields `none`. -/
theorem halted_before_start (g : Game P) (ex : Explore) (le : LeafEval) (hev : EvalOk g) (hh : HashOK g ex le)
    (p : P) (hrf : RootFree g (g.ply p)) (d : Nat) (hd : leafGrade le + d ≤ 127)
    (st : SState) (hs : Sound g ex le st.tt) (k : Nat) (hk : st.cancelAt = some k) (hle : k ≤ st.polls + 1) :
    (alphaBetaSearch g ex le p d invalidScore invalidScore st).1 = none := by
  apply (reports_halted_at g ex le hev hh p hrf d hd st hs k hk).1
  have hm := (alphabeta_tt_full hev ex le hrf hh d hd p { st with nodes := 0 } hs).1
  rw [alphaBetaSearch_state]
  have := hm.2
  simp only [tick] at this ⊢
  omega

/-- **C12 (a halted search leaves nothing behind: `alphabeta`).** Whatever the cancellation instant `k`
    and whatever the window of graded-valid scores, the table after the run is sound: every entry stored
    before the halt is a true value (stores only follow a poll that reported "not cancelled", and
    cancellation is monotone). -/
theorem leaves_nothing (g : Game P) (ex : Explore) (le : LeafEval) (rootPly : Int) (hev : EvalOk g)
    (hh : HashOK g ex le) (hrf : RootFree g rootPly) (K d : Nat) (hK : leafGrade le ≤ K) (hKd : K + d ≤ 127)
    (p : P) (alpha beta : Score) (st : SState) (hs : Sound g ex le st.tt)
    (ha : okN (K + d) alpha) (hb : okN (K + d) beta) (k : Nat) :
    Sound g ex le (alphabeta g ex le rootPly d p alpha beta { st with cancelAt := some k }).2.2.tt :=
  ((alphabeta_recTT hev ex le hrf hh K hK d hKd).node p alpha beta { st with cancelAt := some k } hs
    (fun _ => ⟨ha, hb⟩)).2.1

/-- **C12 (a halted search leaves nothing behind: `AlphaBeta.Search`).** Halt a search at an arbitrary
    instant `k` (it may also run to completion), then run any search — any root `q` of the same game, any
    depth — on the table it left, with a fresh context: the second search returns exactly the value `V` of
    its root, which is what it returns had the first search never run (same starting state `st`), and what
    the table-free search returns. -/
theorem next_search_exact (g : Game P) (ex : Explore) (le : LeafEval) (hev : EvalOk g) (hh : HashOK g ex le)
    (p : P) (hrf : RootFree g (g.ply p)) (d : Nat) (hd : leafGrade le + d ≤ 127)
    (q : P) (hrfq : RootFree g (g.ply q)) (d2 : Nat) (hd2 : leafGrade le + d2 ≤ 127)
    (st : SState) (hs : Sound g ex le st.tt) (k : Nat) :
    let halted := alphaBetaSearch g ex le p d invalidScore invalidScore { st with cancelAt := some k }
    Sound g ex le halted.2.tt ∧
    (alphaBetaSearch g ex le q d2 invalidScore invalidScore { halted.2 with cancelAt := none }).1.map (·.score)
      = some (V g ex le (g.ply q) d2 q) ∧
    (alphaBetaSearch g ex le q d2 invalidScore invalidScore { halted.2 with cancelAt := none }).1.map (·.score)
      = (alphaBetaSearch g ex le q d2 invalidScore invalidScore { st with cancelAt := none }).1.map (·.score) := by
  intro halted
  have h2 : Sound g ex le halted.2.tt :=
    (alphaBetaSearch_tt hev ex le hh p hrf d hd { st with cancelAt := some k } hs).2.1
  obtain ⟨_, _, n1, pv1, e1, _⟩ := C11.search_exact g ex le hev hh q hrfq d2 hd2
    { halted.2 with cancelAt := none } h2 rfl
  obtain ⟨_, _, n2, pv2, e2, _⟩ := C11.search_exact g ex le hev hh q hrfq d2 hd2
    { st with cancelAt := none } hs rfl
  refine ⟨h2, ?_, ?_⟩
  · rw [e1]; rfl
  · rw [e1, e2]; rfl

/-! ## Non-vacuity: the tiny game of C13 with a real table, halted at every possible instant -/

open C13 C11 in
/-- the search of root 0 to depth 2 performs 14 polls from a fresh state: halted at `k ≤ 14` it reports
    `none`, from 15 on it is never disturbed -/
example : (List.range 17).map (fun k =>
      (alphaBetaSearch tiny allMoves .static 0 2 invalidScore invalidScore { st64 with cancelAt := some k }).1.isSome) =
    [false, false, false, false, false, false, false, false, false, false, false, false, false, false, false,
     true, true] := by decide

open C13 C11 in
/-- halted at the 6th poll: `none`, one entry already stored; the next search on that table is exact -/
example :
    (alphaBetaSearch tiny allMoves .static 0 2 invalidScore invalidScore { st64 with cancelAt := some 6 }).1.isNone
      = true ∧
    (alphaBetaSearch tiny allMoves .static 0 2 invalidScore invalidScore { st64 with cancelAt := some 6 }).2.tt.used
      = 1 ∧
    (alphaBetaSearch tiny allMoves .static 0 2 invalidScore invalidScore
      { (alphaBetaSearch tiny allMoves .static 0 2 invalidScore invalidScore
          { st64 with cancelAt := some 6 }).2 with cancelAt := none }).1.map (·.score) = some (heuristicScore 15) := by
  decide

open C13 C11 in
example : (alphaBetaSearch tiny allMoves .static 0 2 invalidScore invalidScore
      { (alphaBetaSearch tiny allMoves .static 0 3 invalidScore invalidScore
          { st64 with cancelAt := some 9 }).2 with cancelAt := none }).1.map (·.score) =
    some (V tiny allMoves .static 0 2 0) :=
  (next_search_exact tiny allMoves .static tiny_evalOk (tiny_hashOK _) 0 (tiny_rootFree _ (by decide)) 3 (by decide)
    0 (tiny_rootFree _ (by decide)) 2 (by decide) st64 (fresh_sound _ _ _ 64 0) 9).2.1

end Morlock.Props.C12
