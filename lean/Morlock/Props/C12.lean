import Morlock.Props.C11
/-!
# C12 — halting at any instant is clean

Cancellation model (`Model/Search.lean`): the context is polled at fixed places (`poll`, which counts the
polls in `st.polls`); with `st.cancelAt = some k` the `k`-th poll and all later ones report "cancelled".
`Live st` says that no poll performed so far reported "cancelled" (`∀ k, st.cancelAt = some k → st.polls < k`).
`alphaBetaSearch` ends with one more poll and returns `none` (`ErrHalted`) iff that poll reports cancelled.

Hypotheses as in C11, on a region `R` containing the search tree (`Closed g ex R`, `R d p`; `EvalOk`, `HashOKOn`,
`RootFreeOn` for the root ply, `leafGrade le + d ≤ 127`, a starting table of any size that is `SoundOn` the region);
the cancellation instant `k` is arbitrary. The `…_on` theorems are the main statements; the global forms under the
old names are corollaries (`R := Everywhere`) and say nothing about the chess game (see C11). Instances on the chess
game are at the end.
-/
namespace Morlock.Props.C12
open Morlock Morlock.Model Morlock.Model.Score Morlock.Spec Morlock.Proofs.AB
open Morlock.Props.C09
variable {P : Type}

/-- Cancellation is monotone: once a poll reported "cancelled", every later poll (of any state reached
    from there: same cancellation instant, poll counter not smaller) reports "cancelled". -/
theorem cancelled_stays (st st' : SState) (h1 : st'.cancelAt = st.cancelAt) (h2 : st.polls + 1 ≤ st'.polls)
    (hc : (poll st).1 = true) : (poll st').1 = true :=
  cancelled_mono (st := st) (st' := st') ⟨h1, h2⟩ hc

/-- **C12 (a halted search reports halted), in terms of the search's own final poll.** For every game,
    window and starting state whatsoever: `alphaBetaSearch` returns `none` exactly if the search was not
    live at its end, i.e. iff its last poll (the `polls`-th one of the final state) reported "cancelled". -/
theorem reports_halted (g : Game P) (ex : P → Explore) (le : LeafEval P) (p : P) (d : Nat) (a b : Score) (st : SState) :
    (alphaBetaSearch g ex le p d a b st).1 = none ↔ ¬ Live (alphaBetaSearch g ex le p d a b st).2 := by
  simp only [alphaBetaSearch, poll_eq]
  generalize alphabeta g ex le (g.ply p) d p _ _ _ = r
  by_cases hc : cancelled r.2.2 = true
  · simp only [hc, if_true]
    exact ⟨fun _ => not_live_of_cancelled hc, fun _ => trivial⟩
  · have hc' : cancelled r.2.2 = false := by simpa using hc
    simp only [hc', Bool.false_eq_true, if_false]
    have := (cancelled_false_iff r.2.2).1 hc'
    exact ⟨fun h => (by cases h), fun h => absurd this h⟩

/-! ## The theorems on a region (see C11 for regions: `Closed`, `Tree`, `HashOKOn`, `RootFreeOn`, `SoundOn`) -/

/-- **C12 (halted at any poll of the search).** If the context is cancelled at the `k`-th poll and the
    search performs at least `k` polls (counting from `st.polls`, including the final one of
    `alphaBetaSearch`), the result is `none`: a score is never reported by a halted search. If it performs
    fewer than `k` polls it was never disturbed and reports exactly `V`. -/
theorem reports_halted_at_on (g : Game P) (ex : P → Explore) (le : LeafEval P) (hev : EvalOk g)
    {R : Nat → P → Prop} (hcl : Closed g ex R) (hh : HashOKOn g ex le R)
    (p : P) (hrf : RootFreeOn g R (g.ply p)) (d : Nat) (hd : leafGrade le + d ≤ 127) (hp : R d p)
    (st : SState) (hs : SoundOn g ex le R st.tt) (k : Nat) (hk : st.cancelAt = some k) :
    (k ≤ (alphaBetaSearch g ex le p d invalidScore invalidScore st).2.polls →
      (alphaBetaSearch g ex le p d invalidScore invalidScore st).1 = none) ∧
    ((alphaBetaSearch g ex le p d invalidScore invalidScore st).2.polls < k →
      ∃ n pv, (alphaBetaSearch g ex le p d invalidScore invalidScore st).1 =
        some ⟨n, V g ex le (g.ply p) d p, pv⟩ ∧ Principal g ex le (g.ply p) d p pv) := by
  obtain ⟨h1, _, h3, h4⟩ := alphaBetaSearch_tt hev ex le hcl (fun _ _ h => h) hh p hrf d hd hp st hs
  have hk' : (alphaBetaSearch g ex le p d invalidScore invalidScore st).2.cancelAt = some k := by
    rw [h1.1]; exact hk
  constructor
  · intro hle
    apply h3.2
    intro hl
    have := hl k hk'
    omega
  · intro hlt
    have hl : Live (alphaBetaSearch g ex le p d invalidScore invalidScore st).2 := by
      intro k' hk''
      rw [hk'] at hk''
      cases hk''
      exact hlt
    obtain ⟨n, pv, e1, e2, _⟩ := h4 hl
    exact ⟨n, pv, e1, e2⟩

/-- The search polls at least twice (on entry and at the end of `alphaBetaSearch`), so a context that is
    already cancelled (`k ≤ st.polls + 1`) always yields `none`. -/
theorem halted_before_start_on (g : Game P) (ex : P → Explore) (le : LeafEval P) (hev : EvalOk g)
    {R : Nat → P → Prop} (hcl : Closed g ex R) (hh : HashOKOn g ex le R)
    (p : P) (hrf : RootFreeOn g R (g.ply p)) (d : Nat) (hd : leafGrade le + d ≤ 127) (hp : R d p)
    (st : SState) (hs : SoundOn g ex le R st.tt) (k : Nat) (hk : st.cancelAt = some k) (hle : k ≤ st.polls + 1) :
    (alphaBetaSearch g ex le p d invalidScore invalidScore st).1 = none := by
  apply (reports_halted_at_on g ex le hev hcl hh p hrf d hd hp st hs k hk).1
  have hm := (alphabeta_tt_full hev ex le hcl (fun _ _ h => h) hrf hh d hd p hp { st with nodes := 0 } hs).1
  rw [alphaBetaSearch_state]
  have := hm.2
  simp only [tick] at this ⊢
  omega

/-- **C12 (a halted search leaves nothing behind: `alphabeta`).** Whatever the cancellation instant `k`
    and whatever the window of graded-valid scores, the table after the run is sound on the region: every entry
    stored before the halt is a true value (stores only follow a poll that reported "not cancelled", and
    cancellation is monotone). -/
theorem leaves_nothing_on (g : Game P) (ex : P → Explore) (le : LeafEval P) (rootPly : Int) (hev : EvalOk g)
    {R : Nat → P → Prop} (hcl : Closed g ex R)
    (hh : HashOKOn g ex le R) (hrf : RootFreeOn g R rootPly) (K d : Nat) (hK : leafGrade le ≤ K) (hKd : K + d ≤ 127)
    (p : P) (hp : R d p) (alpha beta : Score) (st : SState) (hs : SoundOn g ex le R st.tt)
    (ha : okN (K + d) alpha) (hb : okN (K + d) beta) (k : Nat) :
    SoundOn g ex le R (alphabeta g ex le rootPly d p alpha beta { st with cancelAt := some k }).2.2.tt :=
  ((alphabeta_recTT hev ex le hcl (fun _ _ h => h) hrf hh K hK d hKd).node p alpha beta
    { st with cancelAt := some k } hp hs (fun _ => ⟨ha, hb⟩)).2.1

/-- **C12 (a halted search leaves nothing behind: `AlphaBeta.Search`).** Halt a search at an arbitrary
    instant `k` (it may also run to completion), then run any search — any root `q` of the same game, any
    depth — on the table it left, with a fresh context: the second search returns exactly the value `V` of
    its root, which is what it returns had the first search never run (same starting state `st`), and what
    the table-free search returns. `U` is a region containing the trees of both searches (e.g. their union,
    `Trees g ex [(p, d), (q, d2)]`). -/
theorem next_search_exact_on (g : Game P) (ex : P → Explore) (le : LeafEval P) (hev : EvalOk g)
    {U : Nat → P → Prop} (hh : HashOKOn g ex le U)
    (p : P) (d : Nat) (hd : leafGrade le + d ≤ 127)
    (hpU : ∀ n x, Tree g ex p d n x → U n x) (hrf : RootFreeOn g (Tree g ex p d) (g.ply p))
    (q : P) (d2 : Nat) (hd2 : leafGrade le + d2 ≤ 127)
    (hqU : ∀ n x, Tree g ex q d2 n x → U n x) (hrfq : RootFreeOn g (Tree g ex q d2) (g.ply q))
    (st : SState) (hs : SoundOn g ex le U st.tt) (k : Nat) :
    let halted := alphaBetaSearch g ex le p d invalidScore invalidScore { st with cancelAt := some k }
    SoundOn g ex le U halted.2.tt ∧
    (alphaBetaSearch g ex le q d2 invalidScore invalidScore { halted.2 with cancelAt := none }).1.map (·.score)
      = some (V g ex le (g.ply q) d2 q) ∧
    (alphaBetaSearch g ex le q d2 invalidScore invalidScore { halted.2 with cancelAt := none }).1.map (·.score)
      = (alphaBetaSearch g ex le q d2 invalidScore invalidScore { st with cancelAt := none }).1.map (·.score) := by
  intro halted
  have h2 : SoundOn g ex le U halted.2.tt :=
    (alphaBetaSearch_tt hev ex le (tree_closed g ex p d) hpU hh p hrf d hd (tree_root g ex p d)
      { st with cancelAt := some k } hs).2.1
  obtain ⟨m1, _, _, f1⟩ := alphaBetaSearch_tt hev ex le (tree_closed g ex q d2) hqU hh q hrfq d2 hd2
    (tree_root g ex q d2) { halted.2 with cancelAt := none } h2
  obtain ⟨m2, _, _, f2⟩ := alphaBetaSearch_tt hev ex le (tree_closed g ex q d2) hqU hh q hrfq d2 hd2
    (tree_root g ex q d2) { st with cancelAt := none } hs
  obtain ⟨n1, pv1, e1, _⟩ := f1 (live_of_none (by rw [m1.1]))
  obtain ⟨n2, pv2, e2, _⟩ := f2 (live_of_none (by rw [m2.1]))
  refine ⟨h2, ?_, ?_⟩
  · rw [e1]; rfl
  · rw [e1, e2]; rfl

/-! ## The global forms (corollaries: `R := Everywhere`; see the remark in C11) -/

theorem reports_halted_at (g : Game P) (ex : P → Explore) (le : LeafEval P) (hev : EvalOk g) (hh : HashOK g ex le)
    (p : P) (hrf : RootFree g (g.ply p)) (d : Nat) (hd : leafGrade le + d ≤ 127)
    (st : SState) (hs : Sound g ex le st.tt) (k : Nat) (hk : st.cancelAt = some k) :
    (k ≤ (alphaBetaSearch g ex le p d invalidScore invalidScore st).2.polls →
      (alphaBetaSearch g ex le p d invalidScore invalidScore st).1 = none) ∧
    ((alphaBetaSearch g ex le p d invalidScore invalidScore st).2.polls < k →
      ∃ n pv, (alphaBetaSearch g ex le p d invalidScore invalidScore st).1 =
        some ⟨n, V g ex le (g.ply p) d p, pv⟩ ∧ Principal g ex le (g.ply p) d p pv) :=
  reports_halted_at_on g ex le hev (closed_everywhere g ex) (hh.on _) p (hrf.on _) d hd trivial st
    (sound_iff_on.1 hs) k hk

theorem halted_before_start (g : Game P) (ex : P → Explore) (le : LeafEval P) (hev : EvalOk g) (hh : HashOK g ex le)
    (p : P) (hrf : RootFree g (g.ply p)) (d : Nat) (hd : leafGrade le + d ≤ 127)
    (st : SState) (hs : Sound g ex le st.tt) (k : Nat) (hk : st.cancelAt = some k) (hle : k ≤ st.polls + 1) :
    (alphaBetaSearch g ex le p d invalidScore invalidScore st).1 = none :=
  halted_before_start_on g ex le hev (closed_everywhere g ex) (hh.on _) p (hrf.on _) d hd trivial st
    (sound_iff_on.1 hs) k hk hle

theorem leaves_nothing (g : Game P) (ex : P → Explore) (le : LeafEval P) (rootPly : Int) (hev : EvalOk g)
    (hh : HashOK g ex le) (hrf : RootFree g rootPly) (K d : Nat) (hK : leafGrade le ≤ K) (hKd : K + d ≤ 127)
    (p : P) (alpha beta : Score) (st : SState) (hs : Sound g ex le st.tt)
    (ha : okN (K + d) alpha) (hb : okN (K + d) beta) (k : Nat) :
    Sound g ex le (alphabeta g ex le rootPly d p alpha beta { st with cancelAt := some k }).2.2.tt :=
  sound_iff_on.2 (leaves_nothing_on g ex le rootPly hev (closed_everywhere g ex) (hh.on _) (hrf.on _) K d hK hKd p
    trivial alpha beta st (sound_iff_on.1 hs) ha hb k)

theorem next_search_exact (g : Game P) (ex : P → Explore) (le : LeafEval P) (hev : EvalOk g) (hh : HashOK g ex le)
    (p : P) (hrf : RootFree g (g.ply p)) (d : Nat) (hd : leafGrade le + d ≤ 127)
    (q : P) (hrfq : RootFree g (g.ply q)) (d2 : Nat) (hd2 : leafGrade le + d2 ≤ 127)
    (st : SState) (hs : Sound g ex le st.tt) (k : Nat) :
    let halted := alphaBetaSearch g ex le p d invalidScore invalidScore { st with cancelAt := some k }
    Sound g ex le halted.2.tt ∧
    (alphaBetaSearch g ex le q d2 invalidScore invalidScore { halted.2 with cancelAt := none }).1.map (·.score)
      = some (V g ex le (g.ply q) d2 q) ∧
    (alphaBetaSearch g ex le q d2 invalidScore invalidScore { halted.2 with cancelAt := none }).1.map (·.score)
      = (alphaBetaSearch g ex le q d2 invalidScore invalidScore { st with cancelAt := none }).1.map (·.score) := by
  intro halted
  obtain ⟨h1, h2⟩ := next_search_exact_on g ex le hev (hh.on Everywhere) p d hd (fun _ _ _ => trivial) (hrf.on _)
    q d2 hd2 (fun _ _ _ => trivial) (hrfq.on _) st (sound_iff_on.1 hs) k
  exact ⟨sound_iff_on.2 h1, h2⟩

/-! ## Non-vacuity: the tiny game of C13 with a real table, halted at every possible instant -/

open C13 C11 in
/-- the search of root 0 to depth 2 performs 14 polls from a fresh state: halted at `k ≤ 14` it reports
    `none`, from 15 on it is never disturbed -/
example : (List.range 17).map (fun k =>
      (alphaBetaSearch tiny allMoves .static 0 2 invalidScore invalidScore { st64 with cancelAt := some k }).1.isSome) =
    [false, false, false, false, false, false, false, false, false, false, false, false, false, false, false,
     true, true] := by decide

open C13 C11 in
/-- halted at the 6th poll: `none`, one entry already stored; the next search on that table is exact -/
example :
    (alphaBetaSearch tiny allMoves .static 0 2 invalidScore invalidScore { st64 with cancelAt := some 6 }).1.isNone
      = true ∧
    (alphaBetaSearch tiny allMoves .static 0 2 invalidScore invalidScore { st64 with cancelAt := some 6 }).2.tt.used
      = 1 ∧
    (alphaBetaSearch tiny allMoves .static 0 2 invalidScore invalidScore
      { (alphaBetaSearch tiny allMoves .static 0 2 invalidScore invalidScore
          { st64 with cancelAt := some 6 }).2 with cancelAt := none }).1.map (·.score) = some (heuristicScore 15) := by
  decide

open C13 C11 in
example : (alphaBetaSearch tiny allMoves .static 0 2 invalidScore invalidScore
      { (alphaBetaSearch tiny allMoves .static 0 3 invalidScore invalidScore
          { st64 with cancelAt := some 9 }).2 with cancelAt := none }).1.map (·.score) =
    some (V tiny allMoves .static 0 2 0) :=
  (next_search_exact tiny allMoves .static tiny_evalOk (tiny_hashOK _) 0 (tiny_rootFree _ (by decide)) 3 (by decide)
    0 (tiny_rootFree _ (by decide)) 2 (by decide) st64 (fresh_sound _ _ _ 64 0) 9).2.1

-- instances of `reports_halted_at`, `halted_before_start`, `leaves_nothing` on the tiny game
open C13 C11 in
example : (alphaBetaSearch tiny allMoves .static 0 2 invalidScore invalidScore { st64 with cancelAt := some 9 }).1 = none :=
  (reports_halted_at tiny allMoves .static tiny_evalOk (tiny_hashOK _) 0 (tiny_rootFree _ (by decide)) 2 (by decide)
    { st64 with cancelAt := some 9 } (fresh_sound _ _ _ 64 0) 9 rfl).1 (by decide)

open C13 C11 in
example : (alphaBetaSearch tiny allMoves .static 0 2 invalidScore invalidScore
    { st64 with cancelAt := some 1, polls := 0 }).1 = none :=
  halted_before_start tiny allMoves .static tiny_evalOk (tiny_hashOK _) 0 (tiny_rootFree _ (by decide)) 2 (by decide)
    { st64 with cancelAt := some 1, polls := 0 } (fresh_sound _ _ _ 64 0) 1 rfl (by decide)

open C13 C11 in
example (k : Nat) : Sound tiny allMoves .static
    (alphabeta tiny allMoves .static 0 2 0 (heuristicScore 0) (heuristicScore 50) { st64 with cancelAt := some k }).2.2.tt :=
  leaves_nothing tiny allMoves .static 0 tiny_evalOk (tiny_hashOK _) (tiny_rootFree 0 (by decide)) 0 2 (by decide)
    (by decide) 0 _ _ st64 (fresh_sound _ _ _ 64 0) (by decide) (by decide) k

/-! ## Non-vacuity on the chess game (`materialGame exZ`, worlds built by `newBoard`, a table of 128 slots)

Notation as in C11 (`gX`, `wS`, `w1`, `st4k`, `seqX`; `Morlock/Proofs/ABChessTree.lean`). The search of `wS` to
depth 2 performs 49 polls. -/

section Chess
open C11

set_option maxRecDepth 100000 in
/-- `reports_halted_at_on`: halted at the 40th poll the search reports `none`; halted "at the 50th" it is never
    disturbed and reports the reference value. -/
example :
    (alphaBetaSearch gX fullX .static wS 2 invalidScore invalidScore { st4k with cancelAt := some 40 }).1 = none ∧
    ∃ n pv, (alphaBetaSearch gX fullX .static wS 2 invalidScore invalidScore
        { st4k with cancelAt := some 50 }).1 = some ⟨n, V gX fullX .static (gX.ply wS) 2 wS, pv⟩ ∧
      Principal gX fullX .static (gX.ply wS) 2 wS pv :=
  ⟨(reports_halted_at_on gX fullX .static gX_evalOk (tree_closed _ _ wS 2) (wS_hashOK _) wS
      (wS_noDraw.rootFreeOn _) 2 (by decide) (tree_root _ _ _ _) { st4k with cancelAt := some 40 }
      (fresh_sound_on _ _ _ _ 4096 0) 40 rfl).1 (by decide +kernel),
   (reports_halted_at_on gX fullX .static gX_evalOk (tree_closed _ _ wS 2) (wS_hashOK _) wS
      (wS_noDraw.rootFreeOn _) 2 (by decide) (tree_root _ _ _ _) { st4k with cancelAt := some 50 }
      (fresh_sound_on _ _ _ _ 4096 0) 50 rfl).2 (by decide +kernel)⟩

/-- `halted_before_start_on`: a context that is already cancelled. -/
example :
    (alphaBetaSearch gX fullX (.quiescence capX 64) wS 2 invalidScore invalidScore
      { st4k with cancelAt := some 1 }).1 = none :=
  halted_before_start_on gX fullX _ gX_evalOk (tree_closed _ _ wS 2) (wS_hashOK _) wS
    (wS_noDraw.rootFreeOn _) 2 (by decide) (tree_root _ _ _ _) { st4k with cancelAt := some 1 }
    (fresh_sound_on _ _ _ _ 4096 0) 1 rfl (by decide)

/-- `leaves_nothing_on`: halted at any instant, any window - here (mated in 2, +5) - the table stays sound. -/
example (k : Nat) : SoundOn gX fullX .static (Tree gX fullX wS 2)
    (alphabeta gX fullX .static 1 2 wS (mateInXScore (-2)) (heuristicScore 5)
      { st4k with cancelAt := some k }).2.2.tt :=
  leaves_nothing_on gX fullX .static 1 gX_evalOk (tree_closed _ _ wS 2) (wS_hashOK _)
    (wS_noDraw.rootFreeOn 1) 0 2 (by decide) (by decide) wS (tree_root _ _ _ _) _ _ st4k
    (fresh_sound_on _ _ _ _ 4096 0) (by decide) (by decide) k

/-- `next_search_exact_on`: halt the depth-2 search of `wS` at any instant `k`, then search the successor position
    `w1` (depth 1) on the table left behind: exact. The region is the union of the trees of `seqX`. -/
example (k : Nat) :
    (alphaBetaSearch gX fullX .static w1 1 invalidScore invalidScore
      { (alphaBetaSearch gX fullX .static wS 2 invalidScore invalidScore
          { st4k with cancelAt := some k }).2 with cancelAt := none }).1.map (·.score) =
    some (V gX fullX .static (gX.ply w1) 1 w1) :=
  (next_search_exact_on gX fullX .static gX_evalOk (seqX_hashOK _)
    wS 2 (by decide) (fun n x h => ⟨(wS, 2), by simp [seqX], h⟩)
    ((seqX_noDraw.mono (fun n x h => ⟨(wS, 2), by simp [seqX], h⟩)).rootFreeOn _)
    w1 1 (by decide) (fun n x h => ⟨(w1, 1), by simp [seqX], h⟩)
    ((seqX_noDraw.mono (fun n x h => ⟨(w1, 1), by simp [seqX], h⟩)).rootFreeOn _)
    st4k (fresh_sound_on _ _ _ _ 4096 0) k).2.1

set_option maxRecDepth 100000 in
/-- What actually happens: halted at the 40th poll the search has already stored two entries; the search of `wS`
    run next on that table reports the same score as on an empty table. -/
example :
    (alphaBetaSearch gX fullX .static wS 2 invalidScore invalidScore { st4k with cancelAt := some 40 }).2.tt.used = 2 ∧
    (alphaBetaSearch gX fullX .static wS 2 invalidScore invalidScore
      { (alphaBetaSearch gX fullX .static wS 2 invalidScore invalidScore
          { st4k with cancelAt := some 40 }).2 with cancelAt := none }).1.map (·.score) = some zeroScore := by
  decide +kernel

end Chess

end Morlock.Props.C12
