import Morlock.Proofs.GenQueries
import Morlock.Proofs.RepExample
/-!
# C06 (part 2) — the derived attack queries `IsAttacked`, `IsDefended`, `IsChecked`

Subject: `Position.isAttacked`, `isDefended`, `isChecked` (`pkg/board/position.go`), which look *from
the target square* through the attack tables and intersect with the attacker's piece sets, against
the reference `Spec.attackedBy` / `Spec.inCheck`, which walk *from every attacker*. The bridge is the
symmetry of the reference attack relation (`officerTargets_symm`), proved for every occupancy.

All theorems hold for every position `p` whose views represent a mailbox board (`Rep p b`, C02) —
no enumeration of positions. `turn` (the side to move recorded in `abs p turn`) is irrelevant to the
queries and left arbitrary.
-/
namespace Morlock.Props.C06Queries
open Morlock Morlock.Model Morlock.Proofs Morlock.Proofs.Gen

/-- The reference officer attack relation is symmetric on the board, for every occupancy and every
    kind: `t` is a target from `sq` iff `sq` is a target from `t`. -/
theorem officerTargets_symm (occ : Nat → Bool) (k : Spec.Kind) (sq t : Nat) (hs : sq < 64) (ht : t < 64) :
    t ∈ Spec.officerTargets occ k sq ↔ sq ∈ Spec.officerTargets occ k t :=
  officerTargets_symm_iff hs ht

/-- **`isAttacked_iff`.** `p.IsAttacked(c, sq)` — "is square `sq`, seen as belonging to `c`, attacked
    by the opponent of `c`" — holds iff the reference says some piece of colour `c.opp` attacks `sq`.
    Needs `sq < 64`: for `sq ≥ 64` the Go tables are indexed by `sq` modulo ranks/files (see the
    counterexample below). -/
theorem isAttacked_iff {p : Position} {b : Board} (h : Rep p b) (turn c : Color) {sq : Nat} (hsq : sq < 64) :
    p.isAttacked c sq = true ↔ Spec.attackedBy (abs p turn) (absColor c.opp) sq = true := by
  rw [isAttacked_eq h turn c hsq]

/-- The same as a Boolean equation. -/
theorem isAttacked_eq {p : Position} {b : Board} (h : Rep p b) (turn c : Color) {sq : Nat} (hsq : sq < 64) :
    p.isAttacked c sq = Spec.attackedBy (abs p turn) (absColor c.opp) sq :=
  Gen.isAttacked_eq h turn c hsq

/-- `IsAttacked`, spelled out on the mailbox board: some `c.opp` piece on some square `s` has `sq`
    among its pawn targets (pawn) or officer targets for the board's occupancy (other kinds). -/
theorem isAttacked_iff_exists {p : Position} {b : Board} (h : Rep p b) (c : Color) {sq : Nat} (hsq : sq < 64) :
    p.isAttacked c sq = true ↔
      ∃ s k, b s = some (c.opp, k) ∧
        ((k = .pawn ∧ sq ∈ Spec.pawnTargets (absColor c.opp) s) ∨
         (k ≠ .pawn ∧ sq ∈ Spec.officerTargets (fun x => (b x).isSome) (kindOf k) s)) :=
  isAttacked_iff_att h c hsq

/-- `IsDefended(c, sq)` is "attacked by `c`". -/
theorem isDefended_eq {p : Position} {b : Board} (h : Rep p b) (turn c : Color) {sq : Nat} (hsq : sq < 64) :
    p.isDefended c sq = Spec.attackedBy (abs p turn) (absColor c) sq := by
  unfold Position.isDefended
  rw [Gen.isAttacked_eq h turn c.opp hsq]
  cases c <;> rfl

/-- The king square the engine uses (`lastPopSquare` of the king set; 64 = none) is the one the
    reference finds by scanning the board. -/
theorem kingSquare_eq {p : Position} {b : Board} (h : Rep p b) (turn c : Color) :
    Spec.kingSquare? (abs p turn) (absColor c) =
      if p.pieces c .king = 0 then none else some (p.kingSquare c) :=
  kingSquare?_eq h turn c

/-- **`isChecked_iff`.** `p.IsChecked(c)` is the reference `inCheck` (no hypothesis on the number of
    kings: both sides look at the lowest-numbered king of `c`, and answer "no" without one). -/
theorem isChecked_iff {p : Position} {b : Board} (h : Rep p b) (turn c : Color) :
    p.isChecked c = true ↔ Spec.inCheck (abs p turn) (absColor c) = true := by
  rw [isChecked_eq h turn c]

/-- The same as a Boolean equation. -/
theorem isChecked_eq {p : Position} {b : Board} (h : Rep p b) (turn c : Color) :
    p.isChecked c = Spec.inCheck (abs p turn) (absColor c) :=
  Gen.isChecked_eq h turn c

/-! ## Instances -/

/-- In `exPos` (`r3k2r/1P6/8/3pP3/8/8/8/R3K2R w KQkq d6`) the theorem gives, for every real square,
    agreement of the two attack queries; e.g. a8 (63) is attacked by White's b7 pawn, while b8 (62),
    straight ahead of it, is not: -/
example (sq : Nat) (hsq : sq < 64) :
    exPos.isAttacked .black sq = Spec.attackedBy (abs exPos .white) .white sq :=
  isAttacked_eq exPos_rep .white .black hsq

example : exPos.isAttacked .black 63 = true ∧ exPos.isAttacked .black 62 = false := by decide +kernel

/-- Neither king of "Kiwipete" is in check, by the engine and hence by the reference. -/
example : Spec.inCheck (abs kiwiPos .white) .white = false ∧ Spec.inCheck (abs kiwiPos .white) .black = false := by
  have h1 := isChecked_eq kiwiPos_rep .white .white
  have h2 := isChecked_eq kiwiPos_rep .white .black
  simp only [absColor] at h1 h2
  rw [← h1, ← h2]
  decide +kernel

/-- `sq < 64` cannot be dropped: "square 64" is looked up as h1 by the rook tables, so the engine
    reports it attacked by the h8 rook, while the reference knows no such square. -/
example : exPos.isAttacked .white 64 = true ∧ Spec.attackedBy (abs exPos .white) .black 64 = false := by
  decide +kernel

end Morlock.Props.C06Queries
