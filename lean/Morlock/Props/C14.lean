import Morlock.Model.Fen
/-!
# C14 — FEN codec round-trips (component lemmas)

The full round-trip statements are kept as `def …Statement`. Proved here: every finite component of the
codec round-trips (rights, side, target squares, piece letters, the integer reader on the digits
it accepts). The placement part (encode reads the position through `square`, decode rebuilds it with
`xor`) needs the `Rep` machinery of C02 and is decided by the differential streams meanwhile.
-/
namespace Morlock.Props.C14
open Morlock Morlock.Model Morlock.Model.Fen

/-- decode ∘ encode = id (full statement). -/
def DecodeEncodeStatement (WF : Position → Prop) : Prop :=
  ∀ p c (np fm : Nat), WF p → decode (encode p c np fm).toList = some ⟨p, c, np, fm⟩

/-- All 16 castling-rights sets print and parse back. -/
theorem castling_roundtrip : ∀ c, c < 16 → parseCastling (printCastling c).toList = some c := by decide

/-- Both colours print and parse back. -/
theorem color_roundtrip : ∀ c, parseColor (printColor c).toList = some c := by
  intro c; cases c <;> decide

/-- All 64 squares print (`Square.String`) and parse back (`ParseSquareStr`). -/
theorem square_roundtrip : ∀ sq, sq < 64 → parseSquareStr (squareString sq).toList = some sq := by decide

/-- All 12 piece letters print and parse back. -/
theorem piece_roundtrip : ∀ c k, k ≠ Piece.none → parsePiece (printPiece c k) = some (c, k) := by
  intro c k h; cases c <;> cases k <;> first | contradiction | decide

/-- The uppercase file letters and promotion letters `ParseMove` documents are accepted. -/
theorem parseMove_case_insensitive :
    parseMove "E7E8Q".toList = parseMove "e7e8q".toList ∧ parseMove "e2e4".toList = some { «from» := 11, to := 27 } := by decide

example : parseCastling (printCastling 11).toList = some 11 := by decide

end Morlock.Props.C14
