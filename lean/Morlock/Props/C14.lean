import Morlock.Model.Fen
import Morlock.Proofs.FenCanon
import Morlock.Proofs.RepExample
/-!
# C14 — the FEN codec round-trips

Subject: `Morlock.Model.Fen` (`decode`, `encode` and the readers/printers they use), the
transcription of `pkg/board/fen/fen.go`.

* `decode_encode`: `Decode (Encode p c np fm) = (p, c, np, fm)` for **every** position all of whose
  redundant views agree with a mailbox board (`Rep p b`, `Morlock/Proofs/Rep.lean`), whose rights are
  among the four bits, whose en-passant target is on the board, and for all clocks `0 … MaxInt64`.
  No enumeration of positions is involved. The clock bound is necessary in the model (the model's
  clocks are unbounded `Int`s, `Atoi` is `int64`): `clock_bound_needed`.
* `encode_decode`: `Encode (Decode s) = s` for every line `s` of the standard FEN grammar
  (`Canonical`, `Morlock/Proofs/FenCanon.lean`) that `Decode` accepts; `canonical_accepted`: it accepts
  all of them whose clocks fit `int64`; `encode_canonical`: `Encode` only writes such lines.
* the component lemmas (rights, side, target squares, piece letters) are kept below.

Proof layers: `Morlock/Proofs/FenLex.lean` (trim/split/`Atoi∘Itoa`), `FenRank.lean` (run-length
encoding of a rank vs. the cursor loop), `FenBoard.lean` (eight ranks, `NewPosition`), `FenDecode.lean`
(`decode` field by field), `FenRoundtrip.lean`, `FenCanon.lean`.
-/
namespace Morlock.Props.C14
open Morlock Morlock.Model Morlock.Model.Fen Morlock.Proofs Morlock.Proofs.Fen

/-- decode ∘ encode = id (full statement). -/
def DecodeEncodeStatement (WF : Position → Prop) : Prop :=
  ∀ p c (np fm : Nat), WF p → decode (encode p c np fm).toList = some ⟨p, c, np, fm⟩

/-- All 16 castling-rights sets print and parse back. -/
theorem castling_roundtrip : ∀ c, c < 16 → parseCastling (printCastling c).toList = some c := by decide

/-- Both colours print and parse back. -/
theorem color_roundtrip : ∀ c, parseColor (printColor c).toList = some c := by
  intro c; cases c <;> decide

/-- All 64 squares print (`Square.String`) and parse back (`ParseSquareStr`). -/
theorem square_roundtrip : ∀ sq, sq < 64 → parseSquareStr (squareString sq).toList = some sq := by decide

/-- All 12 piece letters print and parse back. -/
theorem piece_roundtrip : ∀ c k, k ≠ Piece.none → parsePiece (printPiece c k) = some (c, k) := by
  intro c k h; cases c <;> cases k <;> first | contradiction | decide

/-- The uppercase file letters and promotion letters `ParseMove` documents are accepted. -/
theorem parseMove_case_insensitive :
    parseMove "E7E8Q".toList = parseMove "e7e8q".toList ∧ parseMove "e2e4".toList = some { «from» := 11, to := 27 } := by decide

example : parseCastling (printCastling 11).toList = some 11 := by decide

/-! ## decode ∘ encode = id -/

/-- **C14 `decode_encode`.** For every position `p` all of whose views agree with a board (`Rep p b`),
    with castling rights `< 16` and en-passant target `< 64`, every side to move and all clocks
    `0 ≤ np, fm ≤ MaxInt64`: decoding the encoding returns exactly `p` (all five fields: both piece
    tables, the four rotated occupancies, rights, target), the side and the clocks. -/
theorem decode_encode {p : Position} {b : Board} (h : Rep p b) (hc : p.castling < 16)
    (he : p.enpassant < 64) (c : Color) (np fm : Nat)
    (hnp : np ≤ 9223372036854775807) (hfm : fm ≤ 9223372036854775807) :
    decode (encode p c np fm).toList = some ⟨p, c, np, fm⟩ :=
  decode_encode_of_rep h hc he c np fm hnp hfm

/-- The kept statement `DecodeEncodeStatement`, with the clocks restricted to `int64`. -/
theorem decodeEncodeStatement_int64 :
    ∀ p c (np fm : Nat), (∃ b, Rep p b) ∧ p.castling < 16 ∧ p.enpassant < 64 →
      np ≤ 9223372036854775807 → fm ≤ 9223372036854775807 →
      decode (encode p c np fm).toList = some ⟨p, c, np, fm⟩ := by
  intro p c np fm ⟨⟨b, h⟩, hc, he⟩ hnp hfm
  exact decode_encode h hc he c np fm hnp hfm

/-- The bound on the clocks cannot be dropped: the model's clocks are mathematical integers while
    `Atoi` rejects numerals above `MaxInt64`, so `DecodeEncodeStatement WF` is false for every `WF`
    that holds of the empty position. (In Go the clocks are `int`, so the bound always holds there.) -/
theorem clock_bound_needed : decode (encode {} .white 9223372036854775808 1).toList = none := by decide

theorem decodeEncodeStatement_false (WF : Position → Prop) (h : WF {}) : ¬ DecodeEncodeStatement WF := by
  intro hs
  have := hs {} .white 9223372036854775808 1 h
  rw [show ((9223372036854775808 : Nat) : Int) = 9223372036854775808 from rfl,
    show ((1 : Nat) : Int) = 1 from rfl, clock_bound_needed] at this
  cases this

/-- The same in the weaker shape: the decoded position represents the same board. -/
theorem decode_encode_rep {p : Position} {b : Board} (h : Rep p b) (hc : p.castling < 16)
    (he : p.enpassant < 64) (c : Color) (np fm : Nat)
    (hnp : np ≤ 9223372036854775807) (hfm : fm ≤ 9223372036854775807) :
    ∃ p', decode (encode p c np fm).toList = some ⟨p', c, np, fm⟩ ∧ Rep p' b ∧
      p'.castling = p.castling ∧ p'.enpassant = p.enpassant :=
  ⟨p, decode_encode h hc he c np fm hnp hfm, h, rfl, rfl⟩

/-- `exPos` = `r3k2r/1P6/8/3pP3/8/8/8/R3K2R w KQkq d6` (built by `NewPosition`, so `Rep` holds):
    what `Encode` writes, and that it decodes back to `exPos`. -/
example : encode exPos .white 0 1 = "r3k2r/1P6/8/3pP3/8/8/8/R3K2R w KQkq d6 0 1" ∧
    decode "r3k2r/1P6/8/3pP3/8/8/8/R3K2R w KQkq d6 0 1".toList = some ⟨exPos, .white, 0, 1⟩ := by
  have e : encode exPos .white 0 1 = "r3k2r/1P6/8/3pP3/8/8/8/R3K2R w KQkq d6 0 1" := by decide +kernel
  refine ⟨e, ?_⟩
  rw [← e]
  exact decode_encode (np := 0) (fm := 1) exPos_rep (by decide +kernel) (by decide +kernel) .white
    (by decide) (by decide)

/-! ## encode ∘ decode = id -/

/-- **C14 `encode_decode`.** For every line `s` of the standard FEN grammar (`Canonical`: six fields
    joined by single spaces; eight `/`-separated ranks of exactly eight squares, digits `1`–`8` never
    adjacent; `w`|`b`; `-` or a non-empty subsequence of `KQkq`; `-` or a square `a1`…`h8` except `h1`;
    two numerals without sign or leading zeros) that `Decode` accepts, `Encode` of the result is `s`. -/
theorem encode_decode {s : List Char} {x : Decoded} (hc : Canonical s) (hd : decode s = some x) :
    encode x.pos x.turn x.noprogress x.fullmoves = String.ofList s :=
  encode_decode_canonical hc hd

/-- `Decode` accepts every line of the standard grammar whose two clocks fit `int64`. -/
theorem canonical_accepted {rks : List (List Char)} {p1 p2 p3 p4 p5 : List Char}
    (hc : CanonFields rks p1 p2 p3 p4 p5)
    (h4 : Nat.ofDigitChars 10 p4 0 ≤ 9223372036854775807) (h5 : Nat.ofDigitChars 10 p5 0 ≤ 9223372036854775807) :
    ∃ x, decode (join6 (List.intercalate ['/'] rks) p1 p2 p3 p4 p5) = some x :=
  Fen.canonical_accepted hc h4 h5

/-- `Encode` only writes lines of the standard grammar (for represented positions with rights `< 16`
    and target `< 64`), so `encode_decode` applies to everything `Encode` produces. -/
theorem encode_canonical {p : Position} {b : Board} (h : Rep p b) (hc : p.castling < 16)
    (he : p.enpassant < 64) (c : Color) (np fm : Nat) : Canonical (encode p c np fm).toList :=
  Fen.encode_canonical h hc he c np fm

/-- `Encode` output is a fixed point of `Encode ∘ Decode`. -/
theorem encode_fixed_point {p : Position} {b : Board} (h : Rep p b) (hc : p.castling < 16)
    (he : p.enpassant < 64) (c : Color) (np fm : Nat) {x : Decoded}
    (hd : decode (encode p c np fm).toList = some x) :
    encode x.pos x.turn x.noprogress x.fullmoves = encode p c np fm := by
  rw [encode_decode (encode_canonical h hc he c np fm) hd, String.ofList_toList]

/-- `h1` as a target does not survive (`Decode` reads it as square 0 = "none"): the exclusion in
    `Canonical` is necessary. -/
theorem h1_target_lost :
    (decode "8/8/8/8/8/8/8/8 w - h1 0 1".toList).map (fun d => encode d.pos d.turn d.noprogress d.fullmoves) =
      some "8/8/8/8/8/8/8/8 w - - 0 1" := h1_not_roundtrip

/-- The initial position is a line of the grammar; whatever it decodes to encodes back to it. -/
example : Canonical "rnbqkbnr/pppppppp/8/8/8/8/PPPPPPPP/RNBQKBNR w KQkq - 0 1".toList :=
  ⟨["rnbqkbnr".toList, "pppppppp".toList, "8".toList, "8".toList, "8".toList, "8".toList,
     "PPPPPPPP".toList, "RNBQKBNR".toList], ['w'], "KQkq".toList, ['-'], ['0'], ['1'], by decide,
   by decide, by decide, Or.inl rfl, Or.inr ⟨by decide, by decide⟩, Or.inl rfl,
   ⟨by decide, by decide, by decide⟩, ⟨by decide, by decide, by decide⟩⟩

example : ∃ x, decode "rnbqkbnr/pppppppp/8/8/8/8/PPPPPPPP/RNBQKBNR w KQkq e3 0 1".toList = some x ∧
    encode x.pos x.turn x.noprogress x.fullmoves = "rnbqkbnr/pppppppp/8/8/8/8/PPPPPPPP/RNBQKBNR w KQkq e3 0 1" := by
  have hc : CanonFields ["rnbqkbnr".toList, "pppppppp".toList, "8".toList, "8".toList, "8".toList, "8".toList,
      "PPPPPPPP".toList, "RNBQKBNR".toList] ['w'] "KQkq".toList ['e', '3'] ['0'] ['1'] :=
    ⟨by decide, by decide, Or.inl rfl, Or.inr ⟨by decide, by decide⟩,
      Or.inr ⟨'e', '3', rfl, by decide, by decide, by decide⟩,
      ⟨by decide, by decide, by decide⟩, ⟨by decide, by decide, by decide⟩⟩
  obtain ⟨x, hx⟩ := canonical_accepted hc (by decide) (by decide)
  exact ⟨x, hx, encode_decode ⟨_, _, _, _, _, _, rfl, hc⟩ hx⟩

end Morlock.Props.C14
