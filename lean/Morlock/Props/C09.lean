import Morlock.Spec.Score
/-!
# C09 — search scores form a total order that negation reverses

All theorems are about `Morlock.Model.Score`, the transcription of `pkg/eval/score.go`.
`Valid` describes exactly what the exported constructors can build (`HeuristicScore` over
non-NaN floats, `MateInXScore k` with `k ≠ 0`, `InfScore`, `NegInfScore`).
-/
namespace Morlock.Props.C09
open Morlock Morlock.Model Morlock.Model.Score Morlock.Spec

/-- The order the code implements is exactly the order of `rank`. -/
theorem lt_iff_rank (a b : Score) (ha : Valid a) (hb : Valid b) :
    a.less b = true ↔ rank a < rank b := by
  obtain ⟨ta, ma, pa⟩ := a
  obtain ⟨tb, mb, pb⟩ := b
  cases ta <;> cases tb <;> simp [Valid] at ha hb <;> simp [less, rank] <;>
    (try split) <;> (try split) <;> omega

theorem rank_injective (a b : Score) (ha : Valid a) (hb : Valid b) (h : rank a = rank b) : a = b := by
  obtain ⟨ta, ma, pa⟩ := a
  obtain ⟨tb, mb, pb⟩ := b
  cases ta <;> cases tb <;> simp [Valid] at ha hb <;> simp [rank] at h ⊢ <;>
    (try split at h) <;> (try split at h) <;> omega

theorem irreflexive (a : Score) (ha : Valid a) : a.less a = false := by
  have := lt_iff_rank a a ha ha
  cases h : a.less a <;> simp_all

theorem transitive (a b c : Score) (ha : Valid a) (hb : Valid b) (hc : Valid c)
    (h1 : a.less b = true) (h2 : b.less c = true) : a.less c = true := by
  rw [lt_iff_rank _ _ ha hb] at h1; rw [lt_iff_rank _ _ hb hc] at h2
  rw [lt_iff_rank _ _ ha hc]; omega

/-- Totality: exactly one of `a < b`, `a = b`, `b < a`. -/
theorem trichotomy (a b : Score) (ha : Valid a) (hb : Valid b) :
    (a.less b = true ∧ a ≠ b ∧ b.less a = false) ∨
    (a.less b = false ∧ a = b ∧ b.less a = false) ∨
    (a.less b = false ∧ a ≠ b ∧ b.less a = true) := by
  have h1 := lt_iff_rank a b ha hb
  have h2 := lt_iff_rank b a hb ha
  have h3 := rank_injective a b ha hb
  by_cases e : a = b
  · subst e
    have := irreflexive a ha
    simp [this]
  · have hne : rank a ≠ rank b := fun h => e (h3 h)
    rcases Int.lt_or_gt_of_ne hne with h | h
    · left
      refine ⟨h1.2 h, e, ?_⟩
      cases hb' : b.less a
      · rfl
      · have := h2.1 hb'; omega
    · right; right
      refine ⟨?_, e, h2.2 h⟩
      cases ha' : a.less b
      · rfl
      · have := h1.1 ha'; omega

/-- The documented chain, for all mate distances `1 ≤ j < k ≤ 127` and all heuristic keys. -/
theorem chain (j k : Int) (v w : Int) (hj : 1 ≤ j) (hjk : j < k) (hk : k ≤ 127)
    (hv : -2147483648 < v) (hvw : v < w) (hw : w < 2147483648) :
    negInfScore.less (mateInXScore (-j)) = true ∧
    (mateInXScore (-j)).less (mateInXScore (-k)) = true ∧
    (mateInXScore (-k)).less (heuristicScore v) = true ∧
    (heuristicScore v).less (heuristicScore w) = true ∧
    (heuristicScore w).less (mateInXScore k) = true ∧
    (mateInXScore k).less (mateInXScore j) = true ∧
    (mateInXScore j).less infScore = true := by
  refine ⟨?_, ?_, ?_, ?_, ?_, ?_, ?_⟩ <;>
    (rw [lt_iff_rank] <;> simp [Valid, rank, negInfScore, infScore, mateInXScore, heuristicScore] <;>
      (try split) <;> (try split) <;> omega)

/-- Negation is an involution. -/
theorem neg_neg (a : Score) (ha : Valid a) : a.negate.negate = a := by
  obtain ⟨ta, ma, pa⟩ := a
  cases ta <;> simp [Valid] at ha <;>
    simp [negate, heuristicScore, mateInXScore, infScore, negInfScore, wrap8] <;> omega

theorem valid_neg (a : Score) (ha : Valid a) : Valid a.negate := by
  obtain ⟨ta, ma, pa⟩ := a
  cases ta <;> simp [Valid] at ha <;>
    simp [Valid, negate, heuristicScore, mateInXScore, infScore, negInfScore, wrap8] <;> omega


theorem rank_neg (a : Score) (ha : Valid a) (hm : NoMin a) : rank a.negate = - rank a := by
  obtain ⟨ta, ma, pa⟩ := a
  cases ta <;> simp [Valid, NoMin] at ha hm <;>
    simp [negate, rank, heuristicScore, mateInXScore, infScore, negInfScore, wrap8] <;>
    (try split) <;> (try split) <;> omega

/-- Negation reverses the order: `a < b ↔ -b < -a`. -/
theorem neg_antitone (a b : Score) (ha : Valid a) (hb : Valid b) (hma : NoMin a) (hmb : NoMin b) :
    a.less b = true ↔ b.negate.less a.negate = true := by
  rw [lt_iff_rank _ _ ha hb, lt_iff_rank _ _ (valid_neg b hb) (valid_neg a ha),
    rank_neg a ha hma, rank_neg b hb hmb]
  omega


theorem valid_inc (a : Score) (ha : Valid a) (hi : Incable a) : Valid a.incMate := by
  obtain ⟨ta, ma, pa⟩ := a
  cases ta <;> simp [Valid, Incable] at ha hi
  · simp [Valid, incMate, ha]
  · by_cases h : ma < 0 <;> simp [Valid, incMate, mateInXScore, wrap8, h] <;> omega
  · simp [Valid, incMate, mateInXScore]
  · simp [Valid, incMate, mateInXScore]

/-- `rank` of an incremented score, as a piecewise-linear function of the rank. -/
def incR (r : Int) : Int :=
  if r = -1099511627776 then -34359738368 + 1
  else if r = 1099511627776 then 34359738368 - 1
  else if r < -2147483648 then r + 1
  else if r > 2147483648 then r - 1
  else r

theorem rank_inc (a : Score) (ha : Valid a) (hi : Incable a) : rank a.incMate = incR (rank a) := by
  obtain ⟨ta, ma, pa⟩ := a
  cases ta <;> simp [Valid, Incable] at ha hi
  · simp only [incMate, rank, incR]; (repeat' split) <;> omega
  · by_cases h : ma < 0 <;> simp [incMate, rank, mateInXScore, wrap8, incR, h] <;>
      (repeat' split) <;> omega
  · simp [incMate, rank, mateInXScore, incR]
  · simp [incMate, rank, mateInXScore, incR]

theorem rank_cases (a : Score) (ha : Valid a) (hi : Incable a) :
    rank a = -1099511627776 ∨ (-34359738368 + 1 ≤ rank a ∧ rank a ≤ -34359738368 + 127) ∨
    (-2147483648 < rank a ∧ rank a < 2147483648) ∨
    (34359738368 - 126 ≤ rank a ∧ rank a ≤ 34359738368 - 1) ∨ rank a = 1099511627776 := by
  obtain ⟨ta, ma, pa⟩ := a
  cases ta <;> simp [Valid, Incable] at ha hi <;> simp [rank] <;> (try split) <;> omega

/-- Adding a ply of mate distance never changes the relative order of two scores. -/
theorem inc_mono (a b : Score) (ha : Valid a) (hb : Valid b) (hia : Incable a) (hib : Incable b) :
    a.less b = true ↔ a.incMate.less b.incMate = true := by
  rw [lt_iff_rank _ _ ha hb, lt_iff_rank _ _ (valid_inc a ha hia) (valid_inc b hb hib),
    rank_inc a ha hia, rank_inc b hb hib]
  have ra := rank_cases a ha hia
  have rb := rank_cases b hb hib
  unfold incR
  (repeat' split) <;> omega

/-- The larger-of / smaller-of helpers agree with the order. -/
theorem max_min (a b : Score) (ha : Valid a) (hb : Valid b) :
    rank (Score.max a b) = Max.max (rank a) (rank b) ∧ rank (Score.min a b) = Min.min (rank a) (rank b) := by
  have h := lt_iff_rank a b ha hb
  unfold Score.max Score.min
  cases hl : a.less b
  · have : ¬ rank a < rank b := fun x => by simp [h.2 x] at hl
    simp; omega
  · have := h.1 hl
    simp; omega

/-- The `int8` edge, made explicit: it is why C03/C13 bound the search depth. -/
theorem int8_edge : (mateInXScore 127).incMate = mateInXScore (-128) ∧
    (mateInXScore (-128)).negate = mateInXScore (-128) := by decide

/-- `MateDistance` is the absolute ply count. -/
theorem mateDistance_abs (k : Int) (hk : k ≠ 0) (h1 : -127 ≤ k) (h2 : k ≤ 127) :
    (mateInXScore k).mateDistance = some k.natAbs := by
  by_cases h : k < 0 <;> simp [mateDistance, mateInXScore, wrap8, h] <;> omega

-- Non-vacuity: concrete valid, incrementable, non-minimal scores exist in every class.
example : Valid (mateInXScore (-3)) ∧ Incable (mateInXScore (-3)) ∧ NoMin (mateInXScore (-3)) := by
  simp [Valid, Incable, NoMin, mateInXScore]
example : Valid (heuristicScore 1065353216) ∧ Valid infScore ∧ Valid negInfScore := by
  simp [Valid, heuristicScore, infScore, negInfScore]
example : (mateInXScore (-1)).less (mateInXScore (-2)) = true ∧
    (mateInXScore 2).less (mateInXScore 1) = true := by decide

end Morlock.Props.C09
