import Morlock.Proofs.BernsteinPlausible
import Morlock.Proofs.BernsteinFlt
import Morlock.Proofs.BernsteinCapture
import Morlock.Proofs.BernsteinMirror
import Morlock.Proofs.BernsteinPhantom
import Morlock.Props.C20
import Morlock.Proofs.BernsteinRnd
/-!
# C20 (BERNSTEIN) — evaluation, exchange test and plausible-move table of `cmd/bernstein/bernstein`

Subjects (transcribed in `Model/Bernstein.lean`, `Model/EvalCapture.lean`, tied to the Go code by the `bernstein` stream):
`Evaluate`, `Eval.Evaluate`, `Material`, `Mobility`, `Control`, `KingDefense` (`eval.go`); `IsSafe`, `IsMoveSafe`
(`exchange.go`); `eval.FindCapture`, `eval.SortByNominalValue` (`pkg/eval/capture.go`); `FindPlausibleMoves`, `truncate`,
`PlausibleMoveTable.Explore`, `TA1`, `Table1` (`search.go`); `search.Selection`; `board.SortByPriority`, `board.FindMoves`.

1. `evaluate_pos`, `evaluate_defined`, `evaluate_exact_range`, `eval_total` — the score is `≥ 1`; the only panic is a side without
   a king; for `0 ≤ factor ≤ 10^4` both scores are `< 2^24` (the int→float32 conversions are exact) and the ratio is a finite float32.
2. `plausible_sound`, `plausible_nonempty`, `plausible_complete_without_castling`, `table_within_limit`, `explore_pick_iff`.
3. `findCapture_spec`, `findCapture_nodup`, `isSafe_spec`, and what `sort.SliceStable` guarantees (`sort_spec`).
4. colour-blindness: `attack_queries_mirror`, `terms_mirror`, `evaluate_mirror`, `evaluate_mirror_opp`, `eval_mirror` (section 4).

No enumeration of positions anywhere; `WF`/`Rep` are the hypotheses of C01/C02.
-/
namespace Morlock.Props.C20Bernstein
open Morlock Morlock.Model Morlock.Model.Bernstein Morlock.Proofs Morlock.Proofs.Gen Morlock.Proofs.Bernstein
open Morlock.Model.Flt (Q f32 rnd)
open Morlock.Proofs.Mirror (mirrorBoard)

/-! ## 1. `Evaluate` and `Eval.Evaluate` -/

/-- **evaluate_pos.** Whatever `Evaluate` returns is at least 1 (every position, factor — also negative — and side). -/
theorem evaluate_pos (p : Position) (factor : Int) (side : Color) (v : Int)
    (h : evaluate p factor side = some v) : 1 ≤ v :=
  evaluate_ge_one h

/-- **evaluate_defined.** `Evaluate` panics (`king[64]`, index out of range in `KingDefense`) exactly when the side has no
    king. (`Rep` is used only for "no bits above square 63".) -/
theorem evaluate_defined {p : Position} {b : Proofs.Board} (h : Rep p b) (factor : Int) (side : Color) :
    (evaluate p factor side).isSome = true ↔ p.pieces side .king ≠ 0 := by
  rw [evaluate_isSome_iff, kingSquare_lt_iff (h.piecesLt side .king)]

/-- The four terms are bounded on every position (no hypothesis): at most 64 set bits per bitboard and 64 squares per
    `ToSquares` list. The mobility bound is crude (the true maximum is 218) but enough for exactness. -/
theorem term_bounds (p : Position) (side : Color) :
    (0 ≤ mobility p side ∧ mobility p side ≤ 82176) ∧ (0 ≤ Bernstein.control p side ∧ Bernstein.control p side ≤ 64) ∧
    (∀ d, kingDefense p side = some d → 0 ≤ d ∧ d ≤ 64) ∧ (0 ≤ material p side ∧ material p side ≤ 1344) :=
  ⟨mobility_bounds p side, control_bounds p side, fun _ h => kingDefense_bounds h, material_bounds p side⟩

/-- **evaluate_exact_range.** For `0 ≤ factor ≤ 10^4` the score is below `2^24 = 16777216`: `eval.Pawns(self)` and
    `eval.Pawns(opp)` are exact, and Go's 64-bit `int` does not overflow. With the crude mobility bound the guarantee
    reaches `factor ≤ 12421` (`82176 + 128 + 1344·factor < 2^24`); beyond that the conversion may round (to 25 bits at
    `factor ≈ 2.4·10^4`), which changes nothing about totality: a float32 holds every int64. -/
theorem evaluate_exact_range {p : Position} {factor : Int} {side : Color} {v : Int}
    (hf0 : 0 ≤ factor) (hf1 : factor ≤ 10000) (h : evaluate p factor side = some v) :
    1 ≤ v ∧ v < 2 ^ 24 := by
  have := evaluate_bounds hf0 hf1 h
  exact ⟨this.1, by have : (13522304 : Int) < 2 ^ 24 := by decide
                    omega⟩

/-- **eval_total.** `Eval.Evaluate` returns a finite float32 (no panic, no division by zero, no infinity, no NaN) on every
    position in which both sides have a king, for every `0 ≤ factor ≤ 10^4`.
    `F : RndFacts` are the three facts about `Flt.rnd f32` quoted in `Proofs/BernsteinFlt.lean` (`rnd_isSome_of_le`, `rnd_int`,
    `rnd_abs_le` of `Proofs/FltLemmas.lean`); the divisor is non-zero because the score is `≥ 1` and converts exactly. -/
theorem eval_total (F : RndFacts) {p : Position} {b : Proofs.Board} (h : Rep p b) {factor : Int} {turn : Color}
    (hf0 : 0 ≤ factor) (hf1 : factor ≤ 10000)
    (hk1 : p.pieces turn .king ≠ 0) (hk2 : p.pieces turn.opp .king ≠ 0) :
    (evalEvaluate p factor turn).isSome = true :=
  evalEvaluate_isSome F hf0 hf1 ((kingSquare_lt_iff (h.piecesLt _ _)).mpr hk1) ((kingSquare_lt_iff (h.piecesLt _ _)).mpr hk2)

/-- **eval_total, closed**: the same with the three floating-point facts discharged from the `Flt` lemma library
    (`Proofs/BernsteinRnd.lean`): no hypothesis about the arithmetic remains. -/
theorem eval_total_closed {p : Position} {b : Proofs.Board} (h : Rep p b) {factor : Int} {turn : Color}
    (hf0 : 0 ≤ factor) (hf1 : factor ≤ 10000)
    (hk1 : p.pieces turn .king ≠ 0) (hk2 : p.pieces turn.opp .king ≠ 0) :
    (evalEvaluate p factor turn).isSome = true :=
  eval_total Proofs.Bernstein.rndFacts h hf0 hf1 hk1 hk2

/-- Conversely the evaluator panics when either side has no king. -/
theorem eval_panics_without_king {p : Position} {b : Proofs.Board} (h : Rep p b) (factor : Int) (turn : Color)
    (hk : p.pieces turn .king = 0 ∨ p.pieces turn.opp .king = 0) : evalEvaluate p factor turn = none := by
  have key : ∀ c, p.pieces c .king = 0 → evaluate p factor c = none := by
    intro c hc
    have := (not_congr (evaluate_defined h factor c)).mpr (by simpa using hc)
    simpa using this
  unfold evalEvaluate
  rcases hk with hk | hk
  · rw [key _ hk]
  · rw [key _ hk]; cases evaluate p factor turn <;> rfl

/-- Instances. Initial position: 20 moves + 22 controlled squares + 5 squares round the king + 8·39 = 359 for both sides,
    ratio 0. "Kiwipete" with White to move: 381 against 375, `381·100/375 = 101.6` rounded to float32. -/
example : evaluate startPos 8 .white = some 359 ∧ evaluate startPos 8 .black = some 359 := by decide +kernel

example : evaluate kiwiPos 8 .white = some 381 ∧ evaluate kiwiPos 8 .black = some 375 ∧
    Flt.bits32 ((evalEvaluate kiwiPos 8 .white).getD ⟨0, 1⟩) = some 0x42cb3333 := by decide +kernel

example : (evaluate kiwiPos 8 .white).isSome = true :=
  (evaluate_defined kiwiPos_rep 8 .white).mpr (by decide +kernel)

/-! ### A defect: the opponent's `Mobility` counts phantom en-passant captures

`Eval.Evaluate` calls `Mobility(pos, turn.Opponent())` = `len(pos.LegalMoves(opponent))` on a position in which it is *not* the
opponent's move. After a double pawn step the en-passant target is still set, and the generator offers the side that just moved
"en passant captures" onto it by its own pawns standing next to the pawn's start square (they capture diagonally backwards onto the
skipped square); `Position.Move` accepts them. Witness (`4k3/4p3/8/3p4/8/8/8/4K3 w - d6`, i.e. after …d7-d5): Black's pawn e7 "takes"
d6 "en passant", so Black's mobility is 8 instead of 7 and the evaluation is −340 instead of −330 (factor 8). The position is `WF`
with White to move. (The real code agrees with the model on this input: stream `bernstein`, curated case.) -/

def phantomPos : Position :=
  (Position.newPosition [(3, .white, .king), (59, .black, .king), (51, .black, .pawn), (36, .black, .pawn)] 0 44).getD {}

theorem mobility_counts_phantom_en_passant :
    WFc phantomPos .white = true ∧
    mobility phantomPos .black = 8 ∧ mobility { phantomPos with enpassant := 0 } .black = 7 ∧
    ({ ty := .enPassant, «from» := 51, to := 44, piece := .pawn } : Move) ∈ phantomPos.legalMoves .black ∧
    Flt.bits32 ((evalEvaluate phantomPos 8 .white).getD ⟨0, 1⟩) = some 0xc3aa0000 ∧
    Flt.bits32 ((evalEvaluate { phantomPos with enpassant := 0 } 8 .white).getD ⟨0, 1⟩) = some 0xc3a50000 := by
  decide +kernel

/-! ## 2. The plausible-move table -/

/-- **plausible_sound.** `FindPlausibleMoves` returns legal moves only, no under-promotion, no move twice. -/
theorem plausible_sound {p : Position} {turn : Color} (hw : WF p turn) :
    (∀ m ∈ findPlausibleMoves p turn, m ∈ p.legalMoves turn ∧ m.isUnderPromotion = false) ∧
    (findPlausibleMoves p turn).Nodup := by
  have hbase := baseMoves_perm p turn
  constructor
  · intro m hm
    have := List.mem_filter.mp (hbase.mem_iff.mp (mem_findPlausibleMoves_base hm))
    exact ⟨this.1, by simpa using this.2⟩
  · exact findPlausibleMoves_nodup (hbase.nodup_iff.mpr (C20.skip_underpromo_sound hw.1 turn).2)

/-- **plausible_nonempty.** Whenever a legal move exists, a plausible move exists (also in the castling branch, which keeps
    only moves of rank 20–23: the castling move itself has one). -/
theorem plausible_nonempty {p : Position} {turn : Color} (hw : WF p turn) (hl : p.legalMoves turn ≠ []) :
    findPlausibleMoves p turn ≠ [] := by
  apply findPlausibleMoves_ne_nil
  intro e
  have hp := baseMoves_perm p turn
  rw [e] at hp
  exact (C20.skip_underpromo_legal_and_nonempty hw).1 hl hp.symm.eq_nil

/-- **plausible_complete_without_castling.** When no castling move is legal, nothing but the under-promotions is dropped:
    the plausible moves are a reordering of all other legal moves ("moving into loss" only lowers the priority). -/
theorem plausible_complete_without_castling {p : Position} {turn : Color}
    (h : ∀ m ∈ p.legalMoves turn, m.isCastle = false) :
    (findPlausibleMoves p turn).Perm ((p.legalMoves turn).filter fun m => !m.isUnderPromotion) :=
  (findPlausibleMoves_perm_of_no_castle h).trans (baseMoves_perm p turn)

/-- **table_within_limit.** The table handed to the search is a prefix of the plausible moves; with a positive limit it
    has at most `limit` entries; it is non-empty whenever a legal move exists; `limit ≤ 0` means "no limit". -/
theorem table_within_limit {p : Position} {turn : Color} (limit : Int) :
    truncate (findPlausibleMoves p turn) limit <+: findPlausibleMoves p turn ∧
    (0 < limit → ((truncate (findPlausibleMoves p turn) limit).length : Int) ≤ limit) ∧
    (limit ≤ 0 → truncate (findPlausibleMoves p turn) limit = findPlausibleMoves p turn) ∧
    (WF p turn → p.legalMoves turn ≠ [] → truncate (findPlausibleMoves p turn) limit ≠ []) :=
  ⟨truncate_prefix _ _, fun h => truncate_length_le _ h, fun h => truncate_of_nonpos _ h,
    fun hw hl => truncate_ne_nil (plausible_nonempty hw hl) limit⟩

/-- **explore_pick_iff.** The predicate `PlausibleMoveTable{limit}.Explore` hands to the search selects exactly the moves of
    the table — hence (by the theorems above) only legal moves, at most `limit` of them, and at least one if there is one. -/
theorem explore_pick_iff (limit : Int) (p : Position) (turn : Color) (m : Move) :
    (explore limit p turn).2 m = true ↔ m ∈ truncate (findPlausibleMoves p turn) limit :=
  selection_pick_iff _ m

theorem explore_picks_legal {p : Position} {turn : Color} (hw : WF p turn) (limit : Int) (m : Move)
    (h : (explore limit p turn).2 m = true) : m ∈ p.legalMoves turn ∧ m.isUnderPromotion = false :=
  (plausible_sound hw).1 m ((truncate_prefix _ _).subset ((explore_pick_iff limit p turn m).mp h))

/-- Instances. Initial position: all 20 moves, knights first (question 4), then the pawns in `Table1` order e, d, c, f, g, b, h, a,
    the double step before the single step (`TA1`). -/
example : (findPlausibleMoves startPos .white).length = 20 ∧
    ((findPlausibleMoves startPos .white).map (fun m => (m.from, m.to))).take 6 =
      [(6, 23), (6, 21), (1, 18), (1, 16), (11, 27), (11, 19)] := by decide +kernel

/-- "Kiwipete", White to move, has 48 legal moves, two of them castling: the castling branch keeps the 8 moves that gain
    material, avoid a loss, exchange, or castle. -/
example : (kiwiPos.legalMoves .white).length = 48 ∧ (findPlausibleMoves kiwiPos .white).length = 8 ∧
    (truncate (findPlausibleMoves kiwiPos .white) 7).length = 7 := by decide +kernel

example : findPlausibleMoves kiwiPos .white ≠ [] :=
  plausible_nonempty kiwiPos_wf.1 (by decide +kernel)

/-- `exPos` (`r3k2r/1P6/8/3pP3/8/8/8/R3K2R w KQkq d6`): 36 legal moves with 6 under-promotions; en passant and the two queen
    promotions come first (rank 23). -/
example : ((findPlausibleMoves exPos .white).map (fun m => (m.from, m.to, m.promotion))).take 3 =
    [(35, 44, .none), (54, 63, .queen), (54, 62, .queen)] := by decide +kernel

/-! ## 3. `FindCapture`, `SortByNominalValue`, `IsSafe` -/

/-- **sort_spec.** What `sort.SliceStable` guarantees, for the model's insertion sort: a permutation, ordered by the key, and
    elements of equal key in their original order (together these determine the result). -/
theorem sort_spec :
    (∀ (fn : Move → Int) (l : List Move), (sortByPriority l fn).Perm l ∧
      (sortByPriority l fn).Pairwise (fun a b => fn a ≥ fn b) ∧
      ∀ v, (sortByPriority l fn).filter (fun m => decide (fn m = v)) = l.filter (fun m => decide (fn m = v))) ∧
    (∀ l : List Placement, (sortByNominalValue l).Perm l ∧
      (sortByNominalValue l).Pairwise (fun a b => nominalValue a.piece ≤ nominalValue b.piece) ∧
      ∀ v, (sortByNominalValue l).filter (fun pl => decide (nominalValue pl.piece = v)) =
        l.filter (fun pl => decide (nominalValue pl.piece = v))) :=
  ⟨fun fn l => ⟨sortByPriority_perm fn l, sortByPriority_sorted fn l, sortByPriority_stable fn l⟩,
   fun l => ⟨sortByNominalValue_perm l, sortByNominalValue_sorted l, sortByNominalValue_stable l⟩⟩

/-- **sort_unique.** … and these guarantees determine the result: whatever `sort.SliceStable` does internally, a list ordered by
    descending priority that keeps the moves of every priority in their original order *is* the model's `sortByPriority`
    (likewise `sortByNominalValue`). -/
theorem sort_unique (fn : Move → Int) (l l' : List Move) (hs : l'.Pairwise (fun a b => fn a ≥ fn b))
    (hst : ∀ v, l'.filter (fun m => decide (fn m = v)) = l.filter (fun m => decide (fn m = v))) :
    l' = sortByPriority l fn := by
  apply sorted_stable_unique (fun m => - fn m)
  · exact hs.imp (fun {a b} h => by omega)
  · exact (sortByPriority_sorted fn l).imp (fun {a b} h => by omega)
  · intro v
    have e : (fun m : Move => decide (-fn m = v)) = (fun m => decide (fn m = -v)) := by
      funext m; apply decide_eq_decide.mpr; omega
    rw [e, hst (-v), sortByPriority_stable fn l (-v)]

theorem sortByNominalValue_unique (l l' : List Placement)
    (hs : l'.Pairwise (fun a b => nominalValue a.piece ≤ nominalValue b.piece))
    (hst : ∀ v, l'.filter (fun pl => decide (nominalValue pl.piece = v)) = l.filter (fun pl => decide (nominalValue pl.piece = v))) :
    l' = sortByNominalValue l :=
  sorted_stable_unique (fun pl => nominalValue pl.piece) l' _ hs (sortByNominalValue_sorted l)
    (fun v => by rw [hst v, sortByNominalValue_stable l v])

/-- **findCapture_spec.** On a represented position, `FindCapture(pos, side, sq)` lists exactly the `side` pieces that attack
    `sq` by the reference geometry (`Spec.pawnTargets`, `Spec.officerTargets` for the board's occupancy) … -/
theorem findCapture_spec {p : Position} {b : Proofs.Board} (h : Rep p b) (side : Color) {sq : Nat} (hsq : sq < 64)
    (pl : Placement) :
    pl ∈ findCapture p side sq ↔
      pl.color = side ∧ b pl.square = some (side, pl.piece) ∧
      ((pl.piece = .pawn ∧ sq ∈ Spec.pawnTargets (absColor side) pl.square) ∨
       (pl.piece ≠ .pawn ∧ sq ∈ Spec.officerTargets (fun x => (b x).isSome) (kindOf pl.piece) pl.square)) :=
  mem_findCapture h side hsq pl

/-- … each once; … -/
theorem findCapture_nodup {p : Position} {b : Proofs.Board} (h : Rep p b) (side : Color) (sq : Nat) :
    (findCapture p side sq).Nodup :=
  Bernstein.findCapture_nodup h side sq

/-- … and is empty iff the reference says the square is not attacked by `side`. -/
theorem findCapture_nil_iff {p : Position} {b : Proofs.Board} (h : Rep p b) (turn side : Color) {sq : Nat} (hsq : sq < 64) :
    findCapture p side sq = [] ↔ Spec.attackedBy (abs p turn) (absColor side) sq = false := by
  have := findCapture_eq_nil_iff h side.opp hsq
  rw [show side.opp.opp = side by cases side <;> rfl] at this
  rw [this, Gen.isAttacked_eq h turn side.opp hsq, show side.opp.opp = side by cases side <;> rfl]

/-- **isSafe_spec.** `IsSafe(pos, side, piece, sq)`: the square is not attacked by the opponent, or it is defended by `side`
    and no attacking piece has a smaller nominal value than `piece`. -/
theorem isSafe_spec {p : Position} {b : Proofs.Board} (h : Rep p b) (turn side : Color) (piece : Piece) {sq : Nat} (hsq : sq < 64) :
    isSafe p side piece sq = true ↔
      Spec.attackedBy (abs p turn) (absColor side.opp) sq = false ∨
      (Spec.attackedBy (abs p turn) (absColor side) sq = true ∧
        ∀ s k, b s = some (side.opp, k) →
          ((k = .pawn ∧ sq ∈ Spec.pawnTargets (absColor side.opp) s) ∨
           (k ≠ .pawn ∧ sq ∈ Spec.officerTargets (fun x => (b x).isSome) (kindOf k) s)) →
          nominalValue piece ≤ nominalValue k) := by
  have hdef : p.isDefended side sq = Spec.attackedBy (abs p turn) (absColor side) sq := by
    unfold Position.isDefended
    rw [Gen.isAttacked_eq h turn side.opp hsq]
    cases side <;> rfl
  rw [isSafe_iff, findCapture_nil_iff h turn side.opp hsq, hdef]
  apply or_congr Iff.rfl
  apply and_congr Iff.rfl
  constructor
  · intro hall s k hb hk
    exact hall ⟨k, side.opp, s⟩ ((mem_findCapture h side.opp hsq _).mpr ⟨rfl, hb, hk⟩)
  · intro hall pl hpl
    obtain ⟨_, hb, hk⟩ := (mem_findCapture h side.opp hsq pl).mp hpl
    exact hall pl.square pl.piece hb hk

/-- Instances in "Kiwipete": e8 (59) is covered by Black's queen e7, rooks h8 and a8, knight f6 — listed in `FindCapture`'s
    kind order and sorted by value with the two rooks in square order. The knight on e5 (35) is attacked by nothing, hence safe;
    the pawn on d5 (36) is attacked by e6, b6, f6 and defended: safe (a pawn for a pawn); a queen there would not be. -/
example : (findCapture kiwiPos .black 59).map (fun pl => (pl.piece, pl.square)) =
      [(.queen, 51), (.rook, 56), (.rook, 63), (.knight, 42)] ∧
    (sortByNominalValue (findCapture kiwiPos .black 59)).map (fun pl => (pl.piece, pl.square)) =
      [(.knight, 42), (.rook, 56), (.rook, 63), (.queen, 51)] := by decide +kernel

example : isSafe kiwiPos .white .knight 35 = true ∧ isSafe kiwiPos .white .pawn 36 = true ∧
    isSafe kiwiPos .white .queen 36 = false := by decide +kernel

/-- Instantiating `findCapture_spec`: the reference geometry says the knight f6 (42) attacks e8 (59) in "Kiwipete". -/
example : (59 : Nat) ∈ Spec.officerTargets (fun x => (kiwiPos.square x).isSome) .knight 42 := by
  have h := (findCapture_spec kiwiPos_rep .black (sq := 59) (by decide) ⟨.knight, .black, 42⟩).mp (by decide +kernel)
  rcases h.2.2 with h | h
  · exact absurd h.1 (by decide)
  · exact h.2

/-! ## 4. Colour-blindness

`mirrorBoard b` is the colour-swapped, rank-reversed mailbox board (`Props/C20`); `p` represents `b`, `q` represents `mirrorBoard b`. -/

/-- **attack_queries_mirror.** `IsAttacked`, `IsDefended`, `IsDefendedBy(…, QueenRookKnightBishopPawn)` and `IsEmpty` of the mirrored
    square in the mirror image, for the other colour, answer what they answer in the original (only `Rep` needed). -/
theorem attack_queries_mirror {p q : Position} {b : Proofs.Board} (hp : Rep p b) (hq : Rep q (mirrorBoard b)) (c : Color)
    {sq : Nat} (hsq : sq < 64) :
    q.isAttacked c.opp (Spec.mirrorSq sq) = p.isAttacked c sq ∧
    q.isDefended c.opp (Spec.mirrorSq sq) = p.isDefended c sq ∧
    isDefendedBy q c.opp (Spec.mirrorSq sq) qrnbpPieces = isDefendedBy p c sq qrnbpPieces ∧
    q.isEmpty (Spec.mirrorSq sq) = p.isEmpty sq :=
  ⟨isAttacked_mirror hp hq c hsq, isDefended_mirror hp hq c hsq, isDefendedBy_mirror hp hq c hsq, isEmpty_mirror hp hq hsq⟩

/-- **terms_mirror.** `Control` and `Material` are colour-blind on represented positions; `KingDefense` if the colour has at most one
    king (with two, `KingSquare` takes the lowest-numbered one, which the mirror changes); `Mobility` for `WF` positions (C01 + the mirror
    symmetry of the rules). -/
theorem terms_mirror {p q : Position} {b : Proofs.Board} (hp : Rep p b) (hq : Rep q (mirrorBoard b)) (c : Color) :
    Bernstein.control q c.opp = Bernstein.control p c ∧ material q c.opp = material p c ∧
    ((∀ s1 s2, b s1 = some (c, Piece.king) → b s2 = some (c, Piece.king) → s1 = s2) →
      kingDefense q c.opp = kingDefense p c) :=
  ⟨control_mirror hp hq c, material_mirror hp hq c, fun hu => kingDefense_mirror hp hq hu⟩

theorem mobility_mirror {p q : Position} {c : Color} (hp : WF p c) (hq : WF q c.opp)
    (habs : abs q c.opp = Spec.mirror (abs p c)) : mobility q c.opp = mobility p c :=
  Bernstein.mobility_mirror hp hq habs

/-- **evaluate_mirror.** `Evaluate` is colour-blind: for `WF` positions `p` (colour `c`) and `q` (colour `c.opp`) such that `q` abstracts to the
    mirror image of `p`, `Evaluate(q, factor, c.opp) = Evaluate(p, factor, c)` — every factor, including the panic case. -/
theorem evaluate_mirror {p q : Position} {c : Color} (hp : WF p c) (hq : WF q c.opp)
    (habs : abs q c.opp = Spec.mirror (abs p c)) (factor : Int) :
    evaluate q factor c.opp = evaluate p factor c :=
  Bernstein.evaluate_mirror hp hq habs factor

/-- **opponent_mobility_split.** What `Mobility(pos, opponent)` counts (every position, either colour `d`): the legal moves `d` has with
    the en-passant target cleared, plus the generated en-passant captures of `d`'s pawns that `Position.Move` accepts. On a `WF`
    position with a target (`opponent_mobility_phantoms`) the latter are exactly one phantom capture per pawn of the side that just
    moved attacking the skipped square, if `Position.Move` accepts it. -/
theorem opponent_mobility_split (p : Position) (d : Color) :
    (p.legalMoves d).length = ((clearEp p).legalMoves d).length +
      (((toSquares (p.pieces d .pawn)).flatMap (epPart p d)).filter fun m => (p.move m).isSome).length :=
  legalMoves_length_split p d

theorem opponent_mobility_phantoms {p : Position} {c : Color} (hw : WF p c) (h0 : p.enpassant ≠ 0) :
    mobility p c.opp = mobility (clearEp p) c.opp +
      ((toSquares (p.pieces c.opp .pawn)).countP fun fr =>
        decide (p.enpassant ∈ Spec.pawnTargets (absColor c.opp) fr) &&
          (p.move { ty := .enPassant, «from» := fr, to := p.enpassant, piece := .pawn }).isSome : Nat) := by
  obtain ⟨hlt, hempty, _, _⟩ := (wfb_of_wfc hw.1 hw.2).ep_ok h0
  unfold mobility
  rw [legalMoves_length_split, phantoms_length hw.1 c.opp h0 hlt hempty]
  rfl

/-- In `phantomPos` the split is 7 + 1. -/
example : mobility (clearEp phantomPos) .black = 7 ∧ phantomCount phantomPos .black = 1 := by decide +kernel

/-- **mobility_mirror_opp / evaluate_mirror_opp.** The score of the side NOT to move is colour-blind too, en-passant target or not: the
    phantom captures of the mirror image are the mirror images of the phantom captures, and the legality test `Position.Move` applies to
    them — on a position that represents no board — gives the same answer (`Proofs/BernsteinBitMir.lean`: a bit-level mirror relation
    that the attack queries respect). -/
theorem mobility_mirror_opp {p q : Position} {c : Color} (hp : WF p c) (hq : WF q c.opp)
    (habs : abs q c.opp = Spec.mirror (abs p c)) : mobility q c = mobility p c.opp :=
  Bernstein.mobility_mirror_opp hp hq habs

theorem evaluate_mirror_opp {p q : Position} {c : Color} (hp : WF p c) (hq : WF q c.opp)
    (habs : abs q c.opp = Spec.mirror (abs p c)) (factor : Int) :
    evaluate q factor c = evaluate p factor c.opp :=
  Bernstein.evaluate_mirror_opp hp hq habs factor

/-- **eval_mirror.** `Eval.Evaluate` is colour-blind: for `WF` positions `p` (`c` to move) and `q` (`c.opp` to move) such that `q`
    abstracts to the colour-swapped mirror image of `p`, the engine returns the same float32 (or panics in both) — every factor, with or
    without an en-passant target. -/
theorem eval_mirror {p q : Position} {c : Color} (hp : WF p c) (hq : WF q c.opp)
    (habs : abs q c.opp = Spec.mirror (abs p c)) (factor : Int) :
    evalEvaluate q factor c.opp = evalEvaluate p factor c :=
  evalEvaluate_mirror_full hp hq habs factor

/-- `exPos` / `exPosB` have an en-passant target (d6 / d3). -/
example (factor : Int) : evalEvaluate exPosB factor .black = evalEvaluate exPos factor .white :=
  eval_mirror (c := .white) exPos_wf.1 exPos_wf.2 C20.exPosB_is_mirror factor

/-- **eval_mirror_partial** (kept; superseded by `eval_mirror`). The case without an en-passant target, directly from C01. -/
theorem eval_mirror_partial {p q : Position} {c : Color} (hp : WF p c) (hq : WF q c.opp) (hp' : WF p c.opp) (hq' : WF q c)
    (habs : abs q c.opp = Spec.mirror (abs p c)) (habs' : abs q c = Spec.mirror (abs p c.opp)) (factor : Int) :
    evalEvaluate q factor c.opp = evalEvaluate p factor c :=
  evalEvaluate_mirror hp hq hp' hq' habs habs' factor

/-- The side to move's own score is colour-blind also with an en-passant target: `exPos` (White to move, target d6) and `exPosB`. -/
example (factor : Int) : evaluate exPosB factor .black = evaluate exPos factor .white :=
  evaluate_mirror (c := .white) exPos_wf.1 exPos_wf.2 C20.exPosB_is_mirror factor

/-- "Kiwipete" and its colour-swapped mirror image (`R3K2R/PPPBBPPP/2N2Q1p/1p2P3/3PN3/bn2pnp1/p1ppqpb1/r3k2r b KQkq -` with the colours
    exchanged): all hypotheses of `eval_mirror_partial` hold, so the engine's evaluation of the two is the same float32. -/
def kiwiPlB : List (Nat × Color × Piece) := kiwiPl.map fun x => (Spec.mirrorSq x.1, x.2.1.opp, x.2.2)
def kiwiPosB : Position := (Position.newPosition kiwiPlB 15 0).getD {}

theorem kiwiPosB_eq : Position.newPosition kiwiPlB 15 0 = some kiwiPosB := by decide +kernel

theorem kiwiPosB_rep : Rep kiwiPosB kiwiPosB.square := by
  have hv : ValidPlacements kiwiPlB := by
    intro x hx
    have : (kiwiPlB.all fun x => decide (x.1 < 64) && (x.2.2 != Piece.none)) = true := by decide +kernel
    have := List.all_eq_true.mp this x hx
    simpa using this
  exact (newPosition_rep hv kiwiPosB_eq).1.self

theorem kiwiPosB_wf : WF kiwiPosB .white ∧ WF kiwiPosB .black :=
  ⟨⟨kiwiPosB_rep, by decide +kernel⟩, ⟨kiwiPosB_rep, by decide +kernel⟩⟩

theorem kiwiPosB_is_mirror : abs kiwiPosB .black = Spec.mirror (abs kiwiPos .white) ∧
    abs kiwiPosB .white = Spec.mirror (abs kiwiPos .black) := by decide +kernel

example (factor : Int) : evalEvaluate kiwiPosB factor .black = evalEvaluate kiwiPos factor .white :=
  eval_mirror_partial (c := .white) kiwiPos_wf.1 kiwiPosB_wf.2 kiwiPos_wf.2 kiwiPosB_wf.1 kiwiPosB_is_mirror.1 kiwiPosB_is_mirror.2 factor

example : evaluate kiwiPosB 8 .black = some 381 ∧ evaluate kiwiPosB 8 .white = some 375 := by decide +kernel

/-! ## 5. Observations on record (kernel-checked; not violations of a stated property) -/

/-- `8/P7/1n6/7k/8/8/8/R3K3 w`: a7-a8=Q onto a square attacked by the knight b6 and defended by the rook a1. -/
def obsPromoPos : Position :=
  (Position.newPosition [(3, .white, .king), (7, .white, .rook), (55, .white, .pawn), (46, .black, .knight), (32, .black, .king)] 0 0).getD {}
def obsPromoMove : Move := { ty := .promotion, «from» := 55, to := 63, piece := .pawn, promotion := .queen }

/-- **obs_isMoveSafe_promotion_judged_as_pawn.** `IsMoveSafe` passes `move.Piece` (the pawn, value 1) to `IsSafe`, not the piece that
    stands on the square afterwards: the promotion a7-a8=Q, which loses the new queen for a knight, is "safe" (an attacker worth 3 ≥ 1 and
    the square is defended), although `IsSafe` of the queen on a8 in the resulting position is false. (`gain` ranks every promotion 23
    anyway, so the plausible list starts with it.) -/
theorem obs_isMoveSafe_promotion_judged_as_pawn :
    obsPromoMove ∈ obsPromoPos.legalMoves .white ∧
    isMoveSafe obsPromoPos .white obsPromoMove = true ∧
    (obsPromoPos.move obsPromoMove).map (fun next => isSafe next .white .queen 63) = some false ∧
    (obsPromoPos.move obsPromoMove).map (fun next => isSafe next .white .pawn 63) = some true ∧
    (findPlausibleMoves obsPromoPos .white).head? = some obsPromoMove := by
  decide +kernel

theorem ta1_to_only (side : Color) (m : Move) : ta1 side m = ta1 side { to := m.to } := by cases side <;> rfl

theorem obs_ta1_all : Proofs.Attack.allBelow 64 (fun t =>
    decide (ta1 .white { to := t } = (t : Int)) && decide (ta1 .black { to := t } = 72 - (t : Int))) = true := by
  decide +kernel

/-- **obs_ta1_black_is_72_minus_sq.** For White `TA1` is the square number (`8·rank + file`, h-file = 0); for Black it is `72 − sq`
    (`(8−rank)·8 + (8−file)`): the *point reflection* `63 − sq` plus 9, not the colour mirror `8·(7−rank) + file`. -/
theorem obs_ta1_black_is_72_minus_sq (m : Move) (h : m.to < 64) :
    ta1 .white m = (m.to : Int) ∧ ta1 .black m = 72 - (m.to : Int) ∧
    ta1 .black m = ta1 .white { to := 63 - m.to } + 9 := by
  have := Proofs.Attack.allBelow_spec obs_ta1_all m.to h
  simp only [Bool.and_eq_true, decide_eq_true_eq] at this
  have h63 := Proofs.Attack.allBelow_spec obs_ta1_all (63 - m.to) (by omega)
  simp only [Bool.and_eq_true, decide_eq_true_eq] at h63
  rw [ta1_to_only .white m, ta1_to_only .black m]
  refine ⟨this.1, this.2, ?_⟩
  rw [this.2, h63.1]
  omega

/-- **obs_plausible_order_not_colour_blind.** Consequence: the *order* of the plausible moves (hence the table cut at `limit`) is not
    colour-blind — Black scans the files the other way round. Initial position: White's first four plausible moves go to a3, c3, f3, h3
    (23, 21, 18, 16); Black's, were it to move, to h6, f6, c6, a6 (40, 42, 45, 47) — the mirror images of White's would be a6, c6, f6, h6. -/
theorem obs_plausible_order_not_colour_blind :
    ((findPlausibleMoves startPos .white).map (·.to)).take 4 = [23, 21, 18, 16] ∧
    ((findPlausibleMoves startPos .black).map (·.to)).take 4 = [40, 42, 45, 47] ∧
    [23, 21, 18, 16].map Spec.mirrorSq = [47, 45, 42, 40] := by
  decide +kernel

end Morlock.Props.C20Bernstein
