import Morlock.Proofs.SargonFlt
import Morlock.Proofs.SargonSound
import Morlock.Proofs.SargonDet
import Morlock.Proofs.SargonSpec
import Morlock.Props.C13
import Morlock.Proofs.MirrorModel
import Morlock.Proofs.PromoModel
import Morlock.Proofs.GenExample
/-!
# C20 (SARGON) — the SARGON evaluation (`cmd/sargon/sargon`) is total and bounded; its filter is `C20.pick`

Subject: `Model/Sargon.lean` + `Model/EvalPins.lean`, the transcription of `eval.go`, `exchange.go`, `search.go` and
`pkg/eval/pins.go`, tied to the Go code by the `sargon` stream (every component, bit for bit).

* §1 `points_total` (and `reset_total`, `exchange_total`, `findAttackers_total`): on **every** position whose views
  are consistent (`Rep p b`), for **every** history-dependent input of the evaluation (`BView`: last move, moved mask,
  move number, castled flags), **every** state captured by `Reset` and **every** implementation of `sort.Slice` that
  returns a permutation, `Points.Evaluate` returns a finite float32 `v` with `|v| ≤ 2^28`:
  no `Attackboard` panic, no `defenders[0]` / `attackers[0]` out of range, the three unbounded loops / recursions of
  the Go code (`addAttackerStack`, the `findSide` flattening, the `Exchange` loop) end within the model's budgets, no
  float32 overflow or division by zero. Moreover all intermediate `eval.Pawns` values the model carries as integers
  stay below `2^23` in magnitude (`exact_range`), so that the float32 operations the Go code performs on them
  (including the halves in `Material`) are exact.
* §1b `root_after_reset`, `root_after_reset_other`, `root_after_forget`, `hookSearch_spec`: the reference values are kept
  per searched board; a `Reset`/`Forget` for one board never changes what another board's `Evaluate` reads.
  `evaluate_ignores_side0`: the dead store in `Points.Evaluate`.
* §2 `skipUnderPromotions_pick`: the predicate of `SkipUnderPromotions` is `C20.pick`; the C20 filter theorems apply.
* §3 `findPins_sound`, `findPins_complete`: `eval.FindPins` returns exactly the pins of the reference geometry (`PinLine`).
* §4 `findAttackers_sound`: `FindAttackers` lists non-pinned pieces of the side that attack the square by the rules,
  every such piece heads a stack (`findAttackers_complete`), and every stack is an x-ray chain (`Chain`).
* §5 what the unspecified tie order of `sort.Slice` can change: nothing without x-ray stacks
  (`exchange_independent_of_tie_order_without_stacks`), the exchange value with them (`exchange_tie_order_matters`);
  and because ties are broken by square numbers, **the evaluation is not colour-blind**
  (`points_not_colour_blind`: a position and its colour-swapped mirror image evaluate to 36.15 and 72.15).
* §6 `findPins_eq_specPins`, `findAttackers_fronts_eq_specDirect`: the executable references of `Spec/Pins.lean` (printed as the
  `## spec` side of the `sargon` op) are what `FindPins` / the fronts of `FindAttackers` compute.
* §7 `onePlyIfChecked_of_not_inCheck`, `onePlyIfChecked_of_inCheck`, `onePlyIfChecked_score`, `onePlyIfChecked_clip`:
  `OnePlyIfChecked.QuietSearch` is the static leaf out of check and `Model.alphabeta` at depth 1 in check; C13 applies.
-/
namespace Morlock.Props.C20Sargon
open Morlock Morlock.Model Morlock.Model.Sargon Morlock.Proofs Morlock.Proofs.Sargon Morlock.Proofs.Gen
open Morlock.Model.Flt (Q f32)

/-! ## 1. Totality -/

/-- What is assumed of `sort.Slice`: it returns a rearrangement of its input. The stable insertion sort of the
    model satisfies it. -/
theorem sortOK_def (srt : List Attacker → List Attacker) : SortOK srt ↔ ∀ l, (srt l).Perm l := Iff.rfl

theorem stableSort_sortOK : SortOK stableSort := stableSort_ok

/-- `|x| ≤ B` for a rational `x = num/den`. -/
theorem absLe_def (x : Q) (B : Nat) : AbsLe x B ↔ x.num.natAbs ≤ B * x.den := Iff.rfl

/-- **`FindAttackers` is total**: for every square of the board and both sides it returns a list (no panic of
    `Attackboard`, the recursion `addAttackerStack` ends) of at most 384 stacks, each at most 32 deep. -/
theorem findAttackers_total {p : Position} {b : Proofs.Board} (h : Rep p b) (pins : Pins) {sq : Nat} (hsq : sq < 64) (side : Color) :
    ∃ l, findAttackers p pins sq side = .ok l ∧ l.length ≤ 384 ∧ ∀ a ∈ l, a.behind.length < 32 :=
  findAttackers_ok h pins hsq side

/-- **`Exchange` is total and bounded**, whatever `sort.Slice` does with ties. -/
theorem exchange_total {p : Position} {b : Proofs.Board} (h : Rep p b) {srt : List Attacker → List Attacker} (hs : SortOK srt)
    (pins : Pins) (side : Color) {sq : Nat} (hsq : sq < 64) :
    ∃ v, exchangeW srt p pins side sq = .ok v ∧ -2457600 ≤ v ∧ v ≤ 2457600 := by
  obtain ⟨v, hv, h1, h2⟩ := exchangeW_ok h hs pins side hsq
  have e : (200 * (sideMax : Int)) = 2457600 := by decide
  exact ⟨v, hv, by omega, by omega⟩

/-- **`Points.Reset` is total.** -/
theorem reset_total {p : Position} {b : Proofs.Board} (h : Rep p b) (v : BView) (hv : v.pos = p) :
    ∃ pts, reset v = .ok pts ∧ pts.side0 = v.turn ∧ -786964 ≤ pts.brdc0 ∧ pts.brdc0 ≤ 786964 := by
  obtain ⟨pts, h1, h2, h3, h4⟩ := reset_ok h v hv
  rw [brdcMax_eq] at h3 h4
  exact ⟨pts, h1, h2, h3, h4⟩

/-! ### the per-board reference values (`Points.roots`, `Reset`, `Forget`, `Hook.Search`) -/

theorem find_filter_ne (l : List (Nat × Points)) {b b' : Nat} (h : b' ≠ b) :
    (l.filter (fun e => e.1 != b)).find? (fun e => e.1 == b') = l.find? (fun e => e.1 == b') := by
  induction l with
  | nil => rfl
  | cons e l ih =>
    obtain ⟨k, r⟩ := e
    by_cases hk : k = b
    · have h1 : ((k, r).1 != b) = false := by simp [hk]
      have h2 : ((k, r).1 == b') = false := by simp [hk]; exact fun c => h c.symm
      rw [List.filter_cons, h1, List.find?_cons, h2]
      exact ih
    · have h1 : ((k, r).1 != b) = true := by simp [hk]
      rw [List.filter_cons, h1]
      simp only [if_true, List.find?_cons]
      rw [ih]

theorem find_filter_self (l : List (Nat × Points)) (b : Nat) :
    (l.filter (fun e => e.1 != b)).find? (fun e => e.1 == b) = none := by
  induction l with
  | nil => rfl
  | cons e l ih =>
    obtain ⟨k, r⟩ := e
    by_cases hk : k = b
    · have h1 : ((k, r).1 != b) = false := by simp [hk]
      rw [List.filter_cons, h1]
      exact ih
    · have h1 : ((k, r).1 != b) = true := by simp [hk]
      have h2 : ((k, r).1 == b) = false := by simp [hk]
      rw [List.filter_cons, h1]
      simp only [if_true, List.find?_cons, h2]
      exact ih

/-- `Evaluate(b)` after `Reset(b)` reads what `Reset` captured. -/
theorem root_after_reset {m m' : PointsMap} {b : Nat} {v : BView} {r : Points} (h : m.reset b v = .ok m')
    (hr : reset v = .ok r) : m'.root b = r := by
  unfold PointsMap.reset at h
  rw [hr] at h
  cases h
  simp [PointsMap.root]

/-- **Isolation** (the point of keeping the values per board): `Reset` for one board leaves the reference values of every
    other board untouched. -/
theorem root_after_reset_other {m m' : PointsMap} {b b' : Nat} {v : BView} (h : m.reset b v = .ok m') (hb : b' ≠ b) :
    m'.root b' = m.root b' := by
  unfold PointsMap.reset at h
  cases hr : reset v with
  | error e => rw [hr] at h; cases h
  | ok r =>
    rw [hr] at h
    cases h
    have h2 : ((b, r).1 == b') = false := by simp; exact fun c => hb c.symm
    simp only [PointsMap.root]
    rw [List.find?_cons, h2, find_filter_ne _ hb]

/-- after `Forget(b)` the board reads the zero values again; other boards are not affected -/
theorem root_after_forget (m : PointsMap) (b : Nat) : (m.forget b).root b = {} := by
  simp only [PointsMap.forget, PointsMap.root, find_filter_self]

theorem root_after_forget_other (m : PointsMap) {b b' : Nat} (hb : b' ≠ b) : (m.forget b).root b' = m.root b' := by
  simp only [PointsMap.forget, PointsMap.root, find_filter_ne _ hb]

/-- `Hook.Search` on board `b`: the search runs with `b` registered, afterwards `b` is forgotten, and no other board's
    reference values have changed. -/
theorem hookSearch_spec {α : Type} {m m' : PointsMap} {b : Nat} {v : BView} {search : PointsMap → α} {a : α}
    (h : hookSearch m b v search = .ok (a, m')) :
    (∃ m1 r, reset v = .ok r ∧ m1.root b = r ∧ a = search m1) ∧ m'.root b = {} ∧ ∀ b', b' ≠ b → m'.root b' = m.root b' := by
  unfold hookSearch at h
  cases hm : m.reset b v with
  | error e => rw [hm] at h; cases h
  | ok m1 =>
    rw [hm] at h
    cases h
    have hr : ∃ r, reset v = .ok r := by
      unfold PointsMap.reset at hm
      cases hr : reset v with
      | error e => rw [hr] at hm; cases hm
      | ok r => exact ⟨r, rfl⟩
    obtain ⟨r, hr⟩ := hr
    refine ⟨⟨m1, r, hr, root_after_reset hm hr, rfl⟩, root_after_forget _ _, ?_⟩
    intro b' hb
    rw [root_after_forget_other _ hb, root_after_reset_other hm hb]

/-- **`points_total`.** `Points.Evaluate` returns a finite value on every represented position: for every board view
    `v` over the position, every root state `pts`, every permutation-returning sorter. The value is a float32
    (`0 < den`) of magnitude at most `2^28`; the components are bounded as stated. -/
theorem points_total {p : Position} {b : Proofs.Board} (h : Rep p b) {srt : List Attacker → List Attacker} (hs : SortOK srt)
    (pts : Points) (v : BView) (hv : v.pos = p) :
    ∃ r, evaluatePartsW srt pts v = .ok r ∧ evaluateW srt pts v = .ok r.points ∧
      0 < r.points.den ∧ AbsLe r.points (2 ^ 28) ∧
      -786964 ≤ r.brdc ∧ r.brdc ≤ 786964 ∧ -14761090 ≤ r.mtrl2 ∧ r.mtrl2 ≤ 14761090 := by
  obtain ⟨r, hr, h1, h2, h3, h4, h5, h6⟩ := evaluatePartsW_ok fltFacts h hs pts v hv
  rw [brdcMax_eq] at h3 h4
  rw [mtrl2Max_eq] at h5 h6
  exact ⟨r, hr, by simp only [evaluateW, hr], h1, h2, h3, h4, h5, h6⟩

/-- **A dead store in `Points.Evaluate`** (a defect of the code, `Points.Evaluate` in `eval.go`, still present after commit 353417e). `Evaluate` computes a local
    `brdc0`, negated when the side to move is not the side `Reset` captured, and then does not use it: the formula reads
    `r.brdc0`. Consequently the field `side0` captured by `Reset` has no influence whatsoever on the evaluation; after an
    odd number of plies below the root the board-control term `Limit(brdc − brdc0, 6)` compares the mover's board control
    with the *opponent's* root value. (Implementation witness: stream `sargon`, `info.dead-store-brdc0`.) -/
theorem evaluate_ignores_side0 (srt : List Attacker → List Attacker) (c1 c2 : Color) (x : Int) (v : BView) :
    evaluatePartsW srt { side0 := c1, brdc0 := x } v = evaluatePartsW srt { side0 := c2, brdc0 := x } v := rfl

/-- the instance the engine runs (stable sort = Go's insertion sort for at most 12 elements) -/
theorem points_total_stable {p : Position} {b : Proofs.Board} (h : Rep p b) (pts : Points) (v : BView) (hv : v.pos = p) :
    ∃ q, evaluate pts v = .ok q ∧ 0 < q.den ∧ AbsLe q (2 ^ 28) := by
  obtain ⟨r, _, h2, h3, h4, _⟩ := points_total h stableSort_ok pts v hv
  exact ⟨r.points, h2, h3, h4⟩

/-- **`exact_range`.** The `eval.Pawns` values that the model carries as integers are below `2^23` in magnitude, so
    every float32 operation the Go code performs on them (sums, differences, doubling, the halves `(2·ptsw2 − 1)/2`
    and `mtrl − (loss + win)`) is exact: exchange values, `2·ptsl + 1`, `loss + win`, `mtrl`, `brdc`. -/
theorem exact_range :
    (2457600 : Int) < 2 ^ 23 ∧ 2 * 2457600 + 1 < (2 : Int) ^ 23 ∧ (2 * 2457600 + 1) + 2457600 < (2 : Int) ^ 23 ∧
    (14761090 : Int) < 2 * 2 ^ 23 ∧ (786964 : Int) < 2 ^ 23 := by decide

/-! ### the hypotheses are met by concrete positions -/

/-- the board view of a position without history -/
def viewOf (p : Position) (turn : Color) : BView :=
  { pos := p, turn := turn, last := none, moved := 0, fullMoves := 1, castledW := false, castledB := false }

/-- "Kiwipete" (`r3k2r/p1ppqpb1/bn2pnp1/3PN3/1p2P3/2N2Q1p/PPPBBPPP/R3K2R w KQkq -`): both evaluations are finite. -/
example : ∃ q, evaluate {} (viewOf kiwiPos .white) = .ok q ∧ 0 < q.den ∧ AbsLe q (2 ^ 28) :=
  points_total_stable kiwiPos_rep {} _ rfl

example : ∃ pts, reset (viewOf exPos .white) = .ok pts ∧ pts.side0 = .white ∧ -786964 ≤ pts.brdc0 ∧ pts.brdc0 ≤ 786964 :=
  reset_total exPos_rep _ rfl

/-! ## 2. The move filter -/

/-- The predicate of `sargon.SkipUnderPromotions` (`board.Move.IsNotUnderPromotion`) is `C20.pick`, its priority is
    `search.MVVLVA`. -/
theorem skipUnderPromotions_pick : skipUnderPromotions.pick = Promo.pick ∧ skipUnderPromotions.prio = mvvlva :=
  ⟨rfl, rfl⟩

/-- Hence (C20 `skip_underpromo_legal_and_nonempty`): on every `WF` position SARGON's exploration keeps a legal move
    whenever there is one, and keeps only legal moves, each once. -/
theorem skipUnderPromotions_keeps_a_legal_move {p : Position} {turn : Color} (hw : WF p turn) :
    (p.legalMoves turn ≠ [] → (p.legalMoves turn).filter skipUnderPromotions.pick ≠ []) ∧
    ((p.legalMoves turn).filter skipUnderPromotions.pick).Sublist (p.legalMoves turn) ∧
    ((p.legalMoves turn).filter skipUnderPromotions.pick).Nodup :=
  ⟨Promo.filter_pick_ne_nil hw, (Promo.filter_pick_sound hw.rep turn).1, (Promo.filter_pick_sound hw.rep turn).2⟩

example : (kiwiPos.legalMoves .white).filter skipUnderPromotions.pick ≠ [] :=
  (skipUnderPromotions_keeps_a_legal_move kiwiPos_wf.1).1 (by decide +kernel)

/-! ## 3. `eval.FindPins` -/

/-- The reference geometry of a pin (`Proofs/SargonPins.lean`), spelled out: walking from `target` in direction `d` on
    the board with the pinned piece lifted one meets empty squares `pre`, the square `pinned`, empty squares `mid`, the
    square `attacker`; on the board as it is, the walk ends at `pinned`. -/
theorem pinLine_def (o : Nat → Bool) (target : Nat) (d : Int × Int) (pinned attacker : Nat) :
    PinLine o target d pinned attacker ↔
      ∃ pre mid, Spec.ray (fun s => o s && decide (s ≠ pinned)) target d.1 d.2 8 = pre ++ pinned :: (mid ++ [attacker]) ∧
        Spec.ray o target d.1 d.2 8 = pre ++ [pinned] ∧
        (∀ x ∈ pre, o x = false) ∧ (∀ x ∈ mid, o x = false) ∧ o pinned = true ∧ o attacker = true := Iff.rfl

/-- **`findPins_sound`.** Every `Pin` returned by `FindPins(pos, side, piece)`: the target is a `piece` of `side`; the
    pinned square holds a piece of `side`; the attacker is an enemy queen, or an enemy rook (on a rook line) / bishop
    (on a diagonal); and target – pinned – attacker stand on one line in that order with nothing else between. -/
theorem findPins_sound {p : Position} {b : Proofs.Board} (h : Rep p b) (side : Color) {piece : Piece} (hk : piece ≠ .none)
    {pin : Pin} (hpin : pin ∈ findPins p side piece) :
    b pin.target = some (side, piece) ∧ (∃ kp, b pin.pinned = some (side, kp)) ∧
      ∃ line, (line = Spec.Kind.rook ∨ line = Spec.Kind.bishop) ∧
        (b pin.attacker = some (side.opp, .queen) ∨ b pin.attacker = some (side.opp, sliderOf line)) ∧
        ∃ d ∈ dirsOf line, PinLine (occB b) pin.target d pin.pinned pin.attacker :=
  Proofs.Sargon.findPins_sound h side hk hpin

/-- **`findPins_complete`.** Conversely, every such configuration is reported: a `piece` of `side` on `target`, a piece
    of `side` on `pinned`, an enemy queen or slider of the line on `att`, standing on one line as `PinLine` says, gives
    the pin `⟨att, pinned, target⟩` in `FindPins(pos, side, piece)`. -/
theorem findPins_complete {p : Position} {b : Proofs.Board} (h : Rep p b) (side : Color) {piece : Piece} (hk : piece ≠ .none)
    {target pinned att : Nat} (hbt : b target = some (side, piece)) {kp : Piece} (hbp : b pinned = some (side, kp))
    {line : Spec.Kind} (hline : line = Spec.Kind.rook ∨ line = Spec.Kind.bishop)
    (hba : b att = some (side.opp, .queen) ∨ b att = some (side.opp, sliderOf line))
    {d : Int × Int} (hd : d ∈ dirsOf line) (hpl : PinLine (occB b) target d pinned att) :
    { attacker := att, pinned := pinned, target := target } ∈ findPins p side piece :=
  Proofs.Sargon.findPins_complete h side hk hbt hbp hline hba hd hpl

/-- in Kiwipete nobody is pinned to a king or queen; in `twoQ` neither; in `pinPos` (`4k3/4r3/8/8/4N3/8/8/4K3 w`) the
    knight e4 is pinned to the king by the rook e7 -/
def pinPl : List (Nat × Color × Piece) :=
  [(3, .white, .king), (27, .white, .knight), (51, .black, .rook), (59, .black, .king)]
def pinPos : Position := (Position.newPosition pinPl 0 0).getD {}

example : findPins pinPos .white .king = [{ attacker := 51, pinned := 27, target := 3 }] := by decide +kernel
example : findKingQueenPins pinPos = [(27, 51)] := by decide +kernel

/-! ## 4. `FindAttackers` -/

/-- `Attacks b c k s t`: a piece `k` of colour `c` on `s` attacks `t` by the rules of the reference. -/
theorem attacks_def (b : Proofs.Board) (c : Color) (k : Piece) (s t : Nat) :
    Attacks b c k s t ↔
      (k = .pawn ∧ t ∈ Spec.pawnTargets (absColor c) s) ∨
      (k ≠ .pawn ∧ k ≠ .none ∧ t ∈ Spec.officerTargets (occB b) (kindOf k) s) := Iff.rfl

/-- **`findAttackers_sound`.** Every stack returned by `FindAttackers(pos, pins, sq, side)` is headed by a piece of
    `side` that stands there, attacks `sq` by the rules and is not pinned away from `sq` (`pins`), and the pieces
    behind it form an x-ray chain: each is a queen or the slider of the line, of the same side, not pinned away, and is
    the second piece on the line from `sq` whose first piece is its predecessor (once the predecessors before are
    lifted). -/
theorem findAttackers_sound {p : Position} {b : Proofs.Board} (h : Rep p b) (pins : Pins) {sq : Nat} (hsq : sq < 64) (side : Color)
    {l : List Attacker} (hl : findAttackers p pins sq side = .ok l) :
    ∀ a ∈ l, a.front.color = side ∧ b a.front.square = some (side, a.front.piece) ∧
      Attacks b side a.front.piece a.front.square sq ∧ isPinnedFor pins a.front.square sq = false ∧
      Chain b side pins sq (occB b) a.front.square a.behind :=
  (Proofs.Sargon.findAttackers_sound h pins hsq side hl).1

/-- **`findAttackers_complete`** (direct attackers): every non-pinned piece of `side` that attacks `sq` heads a stack. -/
theorem findAttackers_complete {p : Position} {b : Proofs.Board} (h : Rep p b) (pins : Pins) {sq : Nat} (hsq : sq < 64) (side : Color)
    {l : List Attacker} (hl : findAttackers p pins sq side = .ok l) :
    ∀ s k, b s = some (side, k) → Attacks b side k s sq → isPinnedFor pins s sq = false → ∃ a ∈ l, a.front.square = s :=
  (Proofs.Sargon.findAttackers_sound h pins hsq side hl).2

/-- the chain predicate, unfolded one step -/
theorem chain_cons (b : Proofs.Board) (side : Color) (pins : Pins) (t : Nat) (o : Nat → Bool) (f : Nat) (q : Placement)
    (rest : List Placement) :
    Chain b side pins t o f (q :: rest) ↔
      (q.color = side ∧ b q.square = some (side, q.piece) ∧ isPinnedFor pins q.square t = false ∧
       (∃ line, (line = Spec.Kind.rook ∨ line = Spec.Kind.bishop) ∧ (q.piece = .queen ∨ q.piece = sliderOf line) ∧
          ∃ d ∈ dirsOf line, PinLine o t d f q.square) ∧
       Chain b side pins t (fun s => o s && decide (s ≠ f)) q.square rest) := Iff.rfl

/-- `twoQ`: d4 (28) is attacked by the white queen f2 (10) and by the queen b4 (30) with the rook a4 (31) behind it -/
example : (findAttackers twoQ [] 28 .white).toOption =
    some [{ front := ⟨.queen, .white, 10⟩ }, { front := ⟨.queen, .white, 30⟩, behind := [⟨.rook, .white, 31⟩] }] := by
  decide +kernel

/-! ## 5. Ties -/

/-- What every `sort.Slice(list, byValue(list))` guarantees. -/
theorem isValSort_def (srt : List Attacker → List Attacker) :
    IsValSort srt ↔ ∀ l, (srt l).Perm l ∧ (srt l).Pairwise (fun a b => val a ≤ val b) := Iff.rfl

/-- **Without x-ray stacks the unspecified order of ties is irrelevant.** If no attacker and no defender of `sq` has
    anybody behind it, every implementation of `sort.Slice` gives the same exchange value. (The loop of `Exchange` reads
    only the values of the two lists, and two sorted permutations of a list carry the same values.) -/
theorem exchange_independent_of_tie_order_without_stacks {s1 s2 : List Attacker → List Attacker}
    (h1 : IsValSort s1) (h2 : IsValSort s2) (pos : Position) (pins : Pins) (side : Color) (sq : Nat)
    (hno : ∀ c l, findAttackers pos pins sq c = .ok l → ∀ a ∈ l, a.behind = []) :
    exchangeW s1 pos pins side sq = exchangeW s2 pos pins side sq :=
  exchange_no_stacks h1 h2 pos pins side sq hno

/-- **With stacks it is not**: in `twoQ` (`3q3k/8/8/8/RQ1r4/8/5Q2/7K`, `WF` for both colours) the two valid sorters
    `stableSort` and `revTieSort` give the exchange values `0` and `−5` for the rook on d4. -/
theorem exchange_tie_order_matters :
    IsValSort stableSort ∧ IsValSort revTieSort ∧ WF twoQ .white ∧
    (exchangeW stableSort twoQ (findKingQueenPins twoQ) .black 28).toOption = some 0 ∧
    (exchangeW revTieSort twoQ (findKingQueenPins twoQ) .black 28).toOption = some (-5) :=
  ⟨Proofs.Sargon.exchange_tie_order_matters.1, Proofs.Sargon.exchange_tie_order_matters.2.1, twoQ_wf.1,
   Proofs.Sargon.exchange_tie_order_matters.2.2.1, Proofs.Sargon.exchange_tie_order_matters.2.2.2⟩

/-- the colour-swapped mirror image of `twoQ`: `7k/5q2/8/rq1R4/8/8/8/3Q3K b - -` -/
def twoQmPl : List (Nat × Color × Piece) :=
  [(56, .black, .king), (50, .black, .queen), (36, .white, .rook), (38, .black, .queen), (39, .black, .rook),
   (0, .white, .king), (4, .white, .queen)]
def twoQm : Position := (Position.newPosition twoQmPl 0 0).getD {}

/-- `Reset` and `Evaluate` at the same board without history: the float32 bits of the result -/
def pointsBits (p : Position) (turn : Color) : Option Nat :=
  match reset (viewOf p turn) with
  | .error _ => none
  | .ok pts => match evaluate pts (viewOf p turn) with
    | .error _ => none
    | .ok q => Flt.bits32 q

set_option maxRecDepth 100000 in
/-- **`points_not_colour_blind`** (a defect of the code, reproduced by the implementation: stream `sargon`, curated
    position, `info.not-colour-blind`). `twoQm` with Black to move is the colour-swapped mirror image of `twoQ` with
    White to move, yet the evaluations for the side to move are `0x4210999a` (36.15) and `0x42904ccd` (72.15). The
    implementation with Go's own sort agrees with both numbers. Cause: the tie between the two queens is broken by
    square number (`LastPopSquare` order, kept by the stable sort), and mirroring reverses it. -/
theorem points_not_colour_blind :
    abs twoQm .black = Spec.mirror (abs twoQ .white) ∧
    pointsBits twoQ .white = some 0x4210999a ∧ pointsBits twoQm .black = some 0x42904ccd := by
  refine ⟨by decide +kernel, by decide +kernel, by decide +kernel⟩

/-- `6k1/8/6p1/3p3Q/4N3/8/8/6K1 b - -` after White's `Ng3-e4`: the knight (e4 = 27) and the queen (h5 = 32) are both
    en prise to pawns. -/
def hangPl : List (Nat × Color × Piece) :=
  [(57, .black, .king), (41, .black, .pawn), (36, .black, .pawn), (32, .white, .queen), (27, .white, .knight), (1, .white, .king)]
def hangPos : Position := (Position.newPosition hangPl 0 0).getD {}
/-- its colour-swapped mirror image `6k1/8/8/4n3/3P3q/6P1/8/6K1 w - -` after Black's `Ng6-e5` -/
def hangPlM : List (Nat × Color × Piece) :=
  [(1, .white, .king), (17, .white, .pawn), (28, .white, .pawn), (24, .black, .queen), (35, .black, .knight), (57, .black, .king)]
def hangPosM : Position := (Position.newPosition hangPlM 0 0).getD {}

/-- the board view after a knight move to `to` -/
def viewAfter (p : Position) (turn : Color) (to : Nat) : BView :=
  { pos := p, turn := turn, last := some { ty := .normal, «from» := 0, to := to, piece := .knight }, moved := bitMask to,
    fullMoves := 9, castledW := false, castledB := false }

set_option maxRecDepth 100000 in
/-- **`Material`'s `ptschk` depends on the numbering of the squares** (second source of colour-dependence; the code has
    the comment "not cleared if later square is greater loss?"). The loop visits the men in `LastPopSquare` order; the
    flag is set when the piece that just moved is the greatest loss *so far*. In `hangPos` the knight that just moved
    (e4, loss 3) is visited before the queen (h5, loss 9): `ptschk = true`. In the mirror image the queen (h4) comes
    first: `ptschk = false`. `Material` returns `(7, true)` and `(6.5, false)`, `Points.Evaluate` `0x41de6666` (27.8) and
    `0x41ce6666` (25.8) — as the implementation does (stream `sargon`, curated position). -/
theorem material_ptschk_depends_on_square_order :
    abs hangPosM .white = Spec.mirror (abs hangPos .black) ∧
    (material (viewAfter hangPos .black 27) (findKingQueenPins hangPos)).toOption = some (14, true) ∧
    (material (viewAfter hangPosM .white 35) (findKingQueenPins hangPosM)).toOption = some (13, false) := by
  refine ⟨by decide +kernel, by decide +kernel, by decide +kernel⟩

set_option maxRecDepth 100000 in
/-- Kiwipete evaluates to `0x41a0b852` (20.09), as the implementation says (first line of the stream). -/
example : pointsBits kiwiPos .white = some 0x41a0b852 := by decide +kernel

/-! ## 6. The executable reference (`Spec/Pins.lean`), printed as the `## spec` side of the `sargon` op -/

/-- **`findPins_eq_specPins`.** `FindPins(pos, side, piece)` returns exactly the pins the reference finds by walking the eight
    rays of the mailbox board from every `piece` of `side` (first man seen: own; with it lifted, first man seen: enemy queen,
    or rook on orthogonals / bishop on diagonals): the same set of `(attacker, pinned, target)`. -/
theorem findPins_eq_specPins {p : Position} {b : Proofs.Board} (h : Rep p b) (turn side : Color) {piece : Piece} (hk : piece ≠ .none)
    (a f t : Nat) :
    ({ attacker := a, pinned := f, target := t } : Pin) ∈ findPins p side piece ↔
      (a, f, t) ∈ Spec.specPins (abs p turn) (absColor side) (kindOf piece) :=
  Proofs.Sargon.findPins_eq_specPins h turn side hk a f t

/-- **`findAttackers_fronts_eq_specDirect`.** The squares heading the stacks of `FindAttackers(pos, pins, sq, side)` are exactly
    the reference's direct attackers: the men of `side` that attack `sq` by the rules and that `pins` does not pin away. -/
theorem findAttackers_fronts_eq_specDirect {p : Position} {b : Proofs.Board} (h : Rep p b) (turn : Color) (pins : Pins) {sq : Nat}
    (hsq : sq < 64) (side : Color) {l : List Attacker} (hl : findAttackers p pins sq side = .ok l) (s : Nat) :
    (∃ a ∈ l, a.front.square = s) ↔
      s ∈ Spec.specDirect (abs p turn) (fun s => isPinnedFor pins s sq) sq (absColor side) :=
  Proofs.Sargon.findAttackers_fronts_eq_specDirect h turn pins hsq side hl s

example : Spec.specPins (abs pinPos .white) .white .king = [(51, 27, 3)] := by decide +kernel

/-! ## 7. `OnePlyIfChecked.QuietSearch` -/

section QuietSearch
open Morlock.Model.Score Morlock.Proofs.AB
open Morlock.Spec (rank)
variable {P : Type}

/-- Not in check: `OnePlyIfChecked` is the static leaf of `Model.Search` (`search.Leaf.QuietSearch`). -/
theorem onePlyIfChecked_of_not_inCheck (g : Game P) (p : P) (a b : Score) (st : SState) (h : g.inCheck p = false) :
    onePlyIfChecked g p a b st = quietSearch g .static p a b st := by
  simp [onePlyIfChecked, quietSearch, h]

/-- In check: `OnePlyIfChecked` is `AlphaBeta.Search` of `Model.Search` at depth 1 with the static leaf, full exploration, the
    caller's window and state; a halted search gives `(0 nodes, InvalidScore)`. -/
theorem onePlyIfChecked_of_inCheck (g : Game P) (p : P) (a b : Score) (st : SState) (h : g.inCheck p = true) :
    onePlyIfChecked g p a b st =
      match alphaBetaSearch g (constEx fullExploration) .static p 1 a b st with
      | (none, st') => (invalidScore, { st' with nodes := st.nodes })
      | (some r, st') => (r.score, { st' with nodes := st.nodes + r.nodes }) := by
  simp only [onePlyIfChecked, h, Bool.not_true, Bool.false_eq_true, if_false]
  rcases alphaBetaSearch g (constEx fullExploration) .static p 1 a b st with ⟨_ | r, st'⟩ <;> rfl

/-- … and, one level further down, the score is that of `runAlphaBeta.search` (`Model.alphabeta`) at depth 1 on the window
    `[a or −∞, b or +∞]`, unless the final poll reports cancellation. -/
theorem onePlyIfChecked_score (g : Game P) (p : P) (a b : Score) (st : SState) (h : g.inCheck p = true) :
    (onePlyIfChecked g p a b st).1 =
      if (poll (alphabeta g (constEx fullExploration) .static (g.ply p) 1 p (if a.isInvalid then negInfScore else a)
            (if b.isInvalid then infScore else b) { st with nodes := 0 }).2.2).1
      then invalidScore
      else (alphabeta g (constEx fullExploration) .static (g.ply p) 1 p (if a.isInvalid then negInfScore else a)
            (if b.isInvalid then infScore else b) { st with nodes := 0 }).1 := by
  rw [onePlyIfChecked_of_inCheck g p a b st h]
  simp only [alphaBetaSearch]
  cases hc : (poll (alphabeta g (constEx fullExploration) .static (g.ply p) 1 p (if a.isInvalid then negInfScore else a)
      (if b.isInvalid then infScore else b) { st with nodes := 0 }).2.2).1 <;> simp_all

/-- **C13 applies.** In check, without table and without cancellation, for a proper window of valid scores of grade 1:
    the score `OnePlyIfChecked.QuietSearch` returns is the one-ply negamax value `V … 1 p` over all legal moves with the
    static evaluation at the leaves, clipped to the window. -/
theorem onePlyIfChecked_clip (g : Game P) (hev : EvalOk g) (p : P) (a b : Score) (st : SState)
    (h : g.inCheck p = true) (htt : st.tt.slots.size = 0) (hc : st.cancelAt = none)
    (ha : okN 1 (if a.isInvalid then negInfScore else a)) (hb : okN 1 (if b.isInvalid then infScore else b))
    (hab : rank (if a.isInvalid then negInfScore else a) < rank (if b.isInvalid then infScore else b)) :
    Clip (rank (if a.isInvalid then negInfScore else a)) (rank (if b.isInvalid then infScore else b))
      (rank (V g (constEx fullExploration) .static (g.ply p) 1 p)) (rank (onePlyIfChecked g p a b st).1) := by
  have hst : ({ st with nodes := 0 } : SState).tt.slots.size = 0 ∧ ({ st with nodes := 0 } : SState).cancelAt = none := ⟨htt, hc⟩
  have hany := Props.C13.alphabeta_any_window g (constEx fullExploration) .static (g.ply p) hev 0 1 (Nat.le_refl _) (by decide) p _ _
    { st with nodes := 0 } hst.1 hst.2 (by simpa using ha) (by simpa using hb)
  have hclip := Props.C13.alphabeta_clip g (constEx fullExploration) .static (g.ply p) hev 0 1 (Nat.le_refl _) (by decide) p _ _
    { st with nodes := 0 } hst.1 hst.2 (by simpa using ha) (by simpa using hb) hab
  rw [onePlyIfChecked_score g p a b st h]
  have hpoll : (poll (alphabeta g (constEx fullExploration) .static (g.ply p) 1 p (if a.isInvalid then negInfScore else a)
      (if b.isInvalid then infScore else b) { st with nodes := 0 }).2.2).1 = false := by
    simp [poll, hany.2.2.2.2.2]
  rw [hpoll]
  exact hclip

end QuietSearch

end Morlock.Props.C20Sargon
