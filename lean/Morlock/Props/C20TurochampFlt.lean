import Morlock.Props.C20Turochamp
import Morlock.Proofs.TurochampFltInst
import Morlock.Proofs.TurochampDeterministic
import Morlock.Proofs.TurochampMirror2
import Morlock.Proofs.TurochampMirror3
import Morlock.Proofs.ChainExample
/-!
# C20 — TUROCHAMP totality without hypotheses

`Props/C20Turochamp.lean` states the totality theorems under `FltFacts` (two facts about `Flt.rnd`). Here they are
discharged by `Proofs/TurochampFltInst.lean` from the floating-point lemmas `Proofs/FltOps.lean`.
-/
namespace Morlock.Props.C20Turochamp
open Morlock Morlock.Model Morlock.Model.Flt Morlock.Model.Turochamp Morlock.Proofs Morlock.Proofs.Gen
open Morlock.Proofs.Turochamp

/-- **`Material.Evaluate` is finite**, `|v| ≤ 2880`, for every position. -/
theorem materialEvaluate_finite (pos : Position) (turn : Color) :
    ∃ v, materialEvaluate pos turn = some v ∧ 0 < v.den ∧ v.num.natAbs ≤ 2880 * v.den :=
  materialEvaluate_total fltFacts pos turn

/-- **`PositionPlay` is finite**, `|v| ≤ 17297`, on every well-formed position, for every iteration order of the map. -/
theorem positionPlay_finite {pos : Position} {t : Color} (hw : WF pos t) (castled : Bool) (turn : Color)
    (order : List (Nat × Nat) → List (Nat × Nat)) (hperm : ∀ l, (order l).Perm l) :
    ∃ v, positionPlayOrd order pos castled turn = some v ∧ 0 < v.den ∧ v.num.natAbs ≤ ppBound * v.den :=
  positionPlay_total fltFacts hw castled turn order hperm

/-- **`Eval.Evaluate` is finite**, `|v| ≤ 2883460`, on every board whose current position is well formed. -/
theorem evaluate_finite (w : World) (b : Nat) {t : Color} (hw : WF (w.cur b).pos t) :
    ∃ v, evaluate w b = some v ∧ 0 < v.den ∧ v.num.natAbs ≤ evalBound * v.den :=
  evaluate_total fltFacts w b hw

example : ∃ v, evaluate exWorld 0 = some v ∧ 0 < v.den ∧ v.num.natAbs ≤ evalBound * v.den :=
  evaluate_finite exWorld 0 (t := .white) (by rw [exWorld_pos.1]; exact exPos_wf.1)

/-! ## `Eval.Evaluate` is deterministic although `PositionPlay` is not (C18) -/

/-- What `Sane pos c` says: at most 16 men of colour `c`; at most 15 rooks, knights, bishops and pawns; every pawn on
ranks 2-7 (advanced at most 5 ranks). Holds for every position of a game of chess. -/
theorem sane_iff (pos : Position) (c : Color) :
    Sane pos c ↔ (toSquares (pos.pieces c .none)).length ≤ 16 ∧
      (toSquares (middle pos c)).length + (toSquares (pos.pieces c .pawn)).length ≤ 15 ∧
      ∀ sq ∈ toSquares (pos.pieces c .pawn), pawnRanks c sq ≤ 5 :=
  ⟨fun h => ⟨h.men, h.officers, h.ranks⟩, fun h => ⟨h.1, h.2.1, h.2.2⟩⟩

/-- **evaluate_closed_form.** On a well-formed position with at most 16 men a side and no pawn on the first or last rank,
for ANY iteration orders `oS`, `oO` of the two mobility maps, `Eval.Evaluate` is `combineR` of the material ratio and
the integer `10·(idealPlay(self) − idealPlay(opponent))` - the exact position-play difference in hundredths, which
involves no floating point and no order. (`math.Round(float64(pp)*100)` always lands on that integer: the accumulated
float32 error of `pp` is below `2^-9 + 2^-15 < 0.005`.) -/
theorem evaluate_closed_form {pos : Position} {t : Color} (hw : WF pos t) (hW : Sane pos .white) (hB : Sane pos .black)
    (cs co : Bool) (turn : Color) (oS oO : List (Nat × Nat) → List (Nat × Nat))
    (hpS : ∀ l, (oS l).Perm l) (hpO : ∀ l, (oO l).Perm l) :
    evaluateCoreOrd oS oO pos cs co turn =
      (materialEvaluate pos turn).bind fun mat =>
        combineR mat (10 * (idealPlay pos cs turn - idealPlay pos co turn.opp)) := by
  have hS : ∀ c, Small pos c := fun c => by cases c <;> exact small_of_sane hw (by assumption)
  exact evaluateCoreOrd_closed (hS turn) (hS turn.opp) cs co oS oO hpS hpO

/-- **evaluate_order_independent (C18).** `Eval.Evaluate` returns the same float32 for every two pairs of iteration
orders of the mobility maps. -/
theorem evaluate_order_independent {pos : Position} {t : Color} (hw : WF pos t) (hW : Sane pos .white)
    (hB : Sane pos .black) (cs co : Bool) (turn : Color) (oS oO oS' oO' : List (Nat × Nat) → List (Nat × Nat))
    (hpS : ∀ l, (oS l).Perm l) (hpO : ∀ l, (oO l).Perm l) (hpS' : ∀ l, (oS' l).Perm l) (hpO' : ∀ l, (oO' l).Perm l) :
    evaluateCoreOrd oS oO pos cs co turn = evaluateCoreOrd oS' oO' pos cs co turn := by
  rw [evaluate_closed_form hw hW hB cs co turn oS oO hpS hpO, evaluate_closed_form hw hW hB cs co turn oS' oO' hpS' hpO']

/-- The model's `evaluate` (insertion order) is the value for every order: on such a board the real `Eval.Evaluate`
can return nothing else. -/
theorem evaluate_any_order (w : World) (b : Nat) {t : Color} (hw : WF (w.cur b).pos t)
    (hW : Sane (w.cur b).pos .white) (hB : Sane (w.cur b).pos .black) (oS oO : List (Nat × Nat) → List (Nat × Nat))
    (hpS : ∀ l, (oS l).Perm l) (hpO : ∀ l, (oO l).Perm l) :
    evaluateCoreOrd oS oO (w.cur b).pos (hasCastled w b (w.board b).turn) (hasCastled w b (w.board b).turn.opp)
      (w.board b).turn = evaluate w b :=
  evaluate_order_independent hw hW hB _ _ _ oS oO id id hpS hpO (fun _ => List.Perm.refl _) (fun _ => List.Perm.refl _)

/-- The position after 1. e4, where `PositionPlay(White)` has two possible values (`positionPlay_order_dependent`), is
well formed and sane: `Eval.Evaluate` has one value there. -/
theorem afterE4_ok : WF afterE4 .black ∧ Sane afterE4 .white ∧ Sane afterE4 .black := by
  refine ⟨?_, ⟨by decide +kernel, by decide +kernel, by decide +kernel⟩,
    ⟨by decide +kernel, by decide +kernel, by decide +kernel⟩⟩
  have hm : e2e4 ∈ startPos.pseudoLegalMoves .white := by decide +kernel
  have hq : startPos.move e2e4 = some afterE4 := by decide +kernel
  exact (Morlock.Proofs.Chain.wf_preserved Morlock.Proofs.Chain.startPos_wfplay hm hq).1

example (oS oO : List (Nat × Nat) → List (Nat × Nat)) (hpS : ∀ l, (oS l).Perm l) (hpO : ∀ l, (oO l).Perm l) :
    evaluateCoreOrd oS oO afterE4 false false .black = evaluateCoreOrd id id afterE4 false false .black :=
  evaluate_order_independent afterE4_ok.1 afterE4_ok.2.1 afterE4_ok.2.2 false false .black oS oO id id hpS hpO
    (fun _ => List.Perm.refl _) (fun _ => List.Perm.refl _)

/-- ... and that value is `-0.42` for Black to move (material even; position play 10.2 against 14.4 → −4.2 → −420/1000) -/
example : (evaluateCoreOrd id id afterE4 false false .black).bind bits32 = some 0xbed70a3d ∧
    idealPlay afterE4 false .black = 102 ∧ idealPlay afterE4 false .white = 144 := by decide +kernel

/-! ## `Eval.Evaluate` is colour-blind, up to `MirrorGap` -/

/-- What `MirrorGap p q c` asks for (NOT proved): under the mirror the two flags of loop (1) and the exact mobility sum
`Σ round(10·√n)` over the mobility map of colour `c` are unchanged. -/
theorem mirrorGap_iff (p q : Position) (c : Color) :
    MirrorGap p q c ↔ mayCheckMate q c.opp = mayCheckMate p c ∧ mayCastle q c.opp = mayCastle p c ∧
      mob10 (mobility q c.opp) = mob10 (mobility p c) :=
  ⟨fun h => ⟨h.mate, h.castle, h.mob⟩, fun h => ⟨h.1, h.2.1, h.2.2⟩⟩

open Morlock.Proofs.Mirror in
/-- **idealPlay_mirror.** The exact position-play value (tenths) of the other colour on the mirrored position, given
`MirrorGap`: castling-right, has-castled, check terms, the defence sum, the king-safety term and the pawn sum are proved
mirror invariant. -/
theorem idealPlay_mirror {p q : Position} {t : Color} (hw : WF p t) {b : Proofs.Board} (hp : Rep p b)
    (hq : Rep q (mirrorBoard b)) (habs : abs q t.opp = Spec.mirror (abs p t))
    (hwk : (q.castling &&& wK != 0) = (p.castling &&& bK != 0))
    (hwq : (q.castling &&& wQ != 0) = (p.castling &&& bQ != 0))
    (hbk : (q.castling &&& bK != 0) = (p.castling &&& wK != 0))
    (hbq : (q.castling &&& bQ != 0) = (p.castling &&& wQ != 0))
    (c : Color) (castled : Bool) (hg : MirrorGap p q c) :
    idealPlay q castled c.opp = idealPlay p castled c :=
  Turochamp.idealPlay_mirror hw hp hq habs hwk hwq hbk hbq c castled hg

open Morlock.Proofs.Mirror in
/-- **evaluate_mirror (given `MirrorGap`).** `Eval.Evaluate` is colour-blind as a float32, for any iteration orders on
the two boards. -/
theorem evaluate_mirror {p q : Position} {t : Color} (hw : WF p t) (hwq : WF q t.opp) {b : Proofs.Board} (hp : Rep p b)
    (hq : Rep q (mirrorBoard b)) (habs : abs q t.opp = Spec.mirror (abs p t))
    (hwk : (q.castling &&& wK != 0) = (p.castling &&& bK != 0))
    (hwq' : (q.castling &&& wQ != 0) = (p.castling &&& bQ != 0))
    (hbk : (q.castling &&& bK != 0) = (p.castling &&& wK != 0))
    (hbq : (q.castling &&& bQ != 0) = (p.castling &&& wQ != 0))
    (hW : Sane p .white) (hB : Sane p .black) (hgap : ∀ c, MirrorGap p q c)
    (cs co : Bool) (turn : Color) (oS oO oS' oO' : List (Nat × Nat) → List (Nat × Nat))
    (hpS : ∀ l, (oS l).Perm l) (hpO : ∀ l, (oO l).Perm l) (hpS' : ∀ l, (oS' l).Perm l) (hpO' : ∀ l, (oO' l).Perm l) :
    evaluateCoreOrd oS oO q cs co turn.opp = evaluateCoreOrd oS' oO' p cs co turn :=
  evaluateCoreOrd_mirror hw hwq hp hq habs hwk hwq' hbk hbq hW hB hgap cs co turn oS oO oS' oO' hpS hpO hpS' hpO'

/-! ## `MirrorGap` closed through `model_legalMoves_mirror` -/

/-- **mobility_mirror.** The mobility maps of a position and of its colour-swapped mirror image are mirror images of
each other up to the order of the entries (`WF` for the colour whose moves are counted). -/
theorem mobility_mirror {p q : Position} {c : Color} (hp : WF p c) (hq : WF q c.opp)
    (habs : abs q c.opp = Spec.mirror (abs p c)) :
    (mobility q c.opp).Perm ((mobility p c).map fun e => (Spec.mirrorSq e.1, e.2)) :=
  mobility_mirror_perm hp hq habs

/-- the mobility map, exactly: `(k, n)` is an entry iff `n > 0` is the total weight (1 per move of an officer or the
king other than castling, 2 per capture) of the legal moves from `k` -/
theorem mobility_spec (pos : Position) (turn : Color) :
    ((mobility pos turn).map (·.1)).Nodup ∧
    ∀ k n, (k, n) ∈ mobility pos turn ↔ (wsum (pos.legalMoves turn) k = n ∧ 0 < n) :=
  mobility_exact pos turn

/-- **mirrorGap_closed.** For a colour `c` such that `p` is well formed with `c` to move and the opponent of `c` is not
in check (`WFplay`; for the side NOT to move this forces: no en-passant target, side to move not in check), and likewise
`q` for `c.opp`: the mate-threat flag, the castling flag and the exact mobility sum are colour-blind. -/
theorem mirrorGap_closed {p q : Position} {c : Color} (hp : Chain.WFplay p c) (hq : Chain.WFplay q c.opp)
    (habs : abs q c.opp = Spec.mirror (abs p c)) : MirrorGap p q c :=
  Turochamp.mirrorGap_closed hp hq habs

open Morlock.Proofs.Mirror in
/-- **evaluate_mirror_quiet.** `Eval.Evaluate` is colour-blind as a float32 - for any iteration orders on both boards -
on positions well formed for either colour to move with neither king in check (hence without en-passant target), at
most 16 men a side and no pawn on the first or last rank. No further hypothesis. -/
theorem evaluate_mirror_quiet {p q : Position} {b : Proofs.Board} (hp : Rep p b) (hq : Rep q (mirrorBoard b))
    (hwp : ∀ c, Chain.WFplay p c) (hwq : ∀ c, Chain.WFplay q c)
    (hwk : (q.castling &&& wK != 0) = (p.castling &&& bK != 0))
    (hwq' : (q.castling &&& wQ != 0) = (p.castling &&& bQ != 0))
    (hbk : (q.castling &&& bK != 0) = (p.castling &&& wK != 0))
    (hbq : (q.castling &&& bQ != 0) = (p.castling &&& wQ != 0))
    (hep0 : p.enpassant = 0 → q.enpassant = 0)
    (hep1 : p.enpassant ≠ 0 → q.enpassant = Spec.mirrorSq p.enpassant ∧ q.enpassant ≠ 0)
    (hW : Sane p .white) (hB : Sane p .black)
    (cs co : Bool) (turn : Color) (oS oO oS' oO' : List (Nat × Nat) → List (Nat × Nat))
    (hpS : ∀ l, (oS l).Perm l) (hpO : ∀ l, (oO l).Perm l) (hpS' : ∀ l, (oS' l).Perm l) (hpO' : ∀ l, (oO' l).Perm l) :
    evaluateCoreOrd oS oO q cs co turn.opp = evaluateCoreOrd oS' oO' p cs co turn := by
  have habs : ∀ c : Color, abs q c.opp = Spec.mirror (abs p c) :=
    fun c => Mirror.abs_eq_mirror hp hq c hwk hwq' hbk hbq hep0 hep1
  have hgap : ∀ c, MirrorGap p q c := fun c => Turochamp.mirrorGap_closed (hwp c) (hwq c.opp) (habs c)
  exact evaluateCoreOrd_mirror (hwp turn).1 (hwq turn.opp).1 hp hq (habs turn) hwk hwq' hbk hbq hW hB hgap cs co turn
    oS oO oS' oO' hpS hpO hpS' hpO'

open Morlock.Proofs.Mirror in
/-- The general case (en-passant target or a check on the board): colour-blind given `MirrorGap` for the side not to move
only; the side to move is closed. -/
theorem evaluate_mirror_mover {p q : Position} {t : Color} {b : Proofs.Board} (hp : Rep p b) (hq : Rep q (mirrorBoard b))
    (hwp : Chain.WFplay p t) (hwq : Chain.WFplay q t.opp)
    (hwk : (q.castling &&& wK != 0) = (p.castling &&& bK != 0))
    (hwq' : (q.castling &&& wQ != 0) = (p.castling &&& bQ != 0))
    (hbk : (q.castling &&& bK != 0) = (p.castling &&& wK != 0))
    (hbq : (q.castling &&& bQ != 0) = (p.castling &&& wQ != 0))
    (hep0 : p.enpassant = 0 → q.enpassant = 0)
    (hep1 : p.enpassant ≠ 0 → q.enpassant = Spec.mirrorSq p.enpassant ∧ q.enpassant ≠ 0)
    (hW : Sane p .white) (hB : Sane p .black) (hgapOpp : MirrorGap p q t.opp)
    (cs co : Bool) (oS oO oS' oO' : List (Nat × Nat) → List (Nat × Nat))
    (hpS : ∀ l, (oS l).Perm l) (hpO : ∀ l, (oO l).Perm l) (hpS' : ∀ l, (oS' l).Perm l) (hpO' : ∀ l, (oO' l).Perm l) :
    evaluateCoreOrd oS oO q cs co t.opp = evaluateCoreOrd oS' oO' p cs co t := by
  have habs := Mirror.abs_eq_mirror hp hq t hwk hwq' hbk hbq hep0 hep1
  have hgap : ∀ c, MirrorGap p q c := fun c => by
    cases t <;> cases c
    all_goals first
      | exact Turochamp.mirrorGap_closed hwp hwq habs
      | exact hgapOpp
  exact evaluateCoreOrd_mirror hwp.1 hwq.1 hp hq habs hwk hwq' hbk hbq hW hB hgap cs co t oS oO oS' oO' hpS hpO hpS' hpO'

open Morlock.Proofs.Mirror in
/-- The initial position is its own colour-swapped mirror image and meets every hypothesis of `evaluate_mirror_quiet`:
White's evaluation of it equals Black's, for all iteration orders. -/
example (oS oO oS' oO' : List (Nat × Nat) → List (Nat × Nat))
    (hpS : ∀ l, (oS l).Perm l) (hpO : ∀ l, (oO l).Perm l) (hpS' : ∀ l, (oS' l).Perm l) (hpO' : ∀ l, (oO' l).Perm l) :
    evaluateCoreOrd oS oO startPos false false .black = evaluateCoreOrd oS' oO' startPos false false .white := by
  have hrep : Rep startPos startPos.square := startPos_wf.1
  have hself : mirrorBoard startPos.square = startPos.square := by
    funext sq
    by_cases hsq : sq < 64
    · have : ∀ s, s < 64 → mirrorBoard startPos.square s = startPos.square s := by decide +kernel
      exact this sq hsq
    · have h64 : 64 ≤ sq := by omega
      unfold mirrorBoard
      rw [Spec.mirrorSq_of_ge h64, hrep.out sq h64]
  have hrep' : Rep startPos (mirrorBoard startPos.square) := by rw [hself]; exact hrep
  have hwf : ∀ c, Chain.WFplay startPos c := fun c => by
    cases c
    · exact Chain.startPos_wfplay
    · exact ⟨⟨hrep, by decide +kernel⟩, by decide +kernel⟩
  exact evaluate_mirror_quiet hrep hrep' hwf hwf (by decide +kernel) (by decide +kernel) (by decide +kernel)
    (by decide +kernel) (fun _ => by decide +kernel) (fun h => absurd (by decide +kernel) h)
    ⟨by decide +kernel, by decide +kernel, by decide +kernel⟩ ⟨by decide +kernel, by decide +kernel, by decide +kernel⟩
    false false .white oS oO oS' oO' hpS hpO hpS' hpO'

end Morlock.Props.C20Turochamp
