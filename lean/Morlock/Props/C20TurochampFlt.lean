import Morlock.Props.C20Turochamp
import Morlock.Proofs.TurochampFltInst
/-!
# C20 — TUROCHAMP totality without hypotheses

`Props/C20Turochamp.lean` states the totality theorems under `FltFacts` (two facts about `Flt.rnd`). Here they are
discharged by `Proofs/TurochampFltInst.lean` from the floating-point lemmas `Proofs/FltOps.lean`.
-/
namespace Morlock.Props.C20Turochamp
open Morlock Morlock.Model Morlock.Model.Flt Morlock.Model.Turochamp Morlock.Proofs Morlock.Proofs.Gen
open Morlock.Proofs.Turochamp

/-- **`Material.Evaluate` is finite**, `|v| ≤ 2880`, for every position. -/
theorem materialEvaluate_finite (pos : Position) (turn : Color) :
    ∃ v, materialEvaluate pos turn = some v ∧ 0 < v.den ∧ v.num.natAbs ≤ 2880 * v.den :=
  materialEvaluate_total fltFacts pos turn

/-- **`PositionPlay` is finite**, `|v| ≤ 17297`, on every well-formed position, for every iteration order of the map. -/
theorem positionPlay_finite {pos : Position} {t : Color} (hw : WF pos t) (castled : Bool) (turn : Color)
    (order : List (Nat × Nat) → List (Nat × Nat)) (hperm : ∀ l, (order l).Perm l) :
    ∃ v, positionPlayOrd order pos castled turn = some v ∧ 0 < v.den ∧ v.num.natAbs ≤ ppBound * v.den :=
  positionPlay_total fltFacts hw castled turn order hperm

/-- **`Eval.Evaluate` is finite**, `|v| ≤ 2883460`, on every board whose current position is well formed. -/
theorem evaluate_finite (w : World) (b : Nat) {t : Color} (hw : WF (w.cur b).pos t) :
    ∃ v, evaluate w b = some v ∧ 0 < v.den ∧ v.num.natAbs ≤ evalBound * v.den :=
  evaluate_total fltFacts w b hw

example : ∃ v, evaluate exWorld 0 = some v ∧ 0 < v.den ∧ v.num.natAbs ≤ evalBound * v.den :=
  evaluate_finite exWorld 0 (t := .white) (by rw [exWorld_pos.1]; exact exPos_wf.1)

end Morlock.Props.C20Turochamp
