import Morlock.Proofs.ABNode
import Morlock.Proofs.ABFuel
import Morlock.Proofs.ABChessTree
/-!
# C13 — alpha-beta and quiescence only ever clip the true minimax value

All theorems are about `Model.alphabeta` / `Model.quiesce`, the transcriptions of `runAlphaBeta.search`
and `runQuiescence.search`, for **every** abstract `Game`, exploration, depth and window, run without a
transposition table (`st.tt.slots.size = 0`, i.e. `NoTranspositionTable`) and without cancellation
(`st.cancelAt = none`).

Reference values (defined in `Morlock/Proofs/ABRef.lean`, no window / table / ordering / state):
* `lift s = (incMate s).negate` — how a parent sees a child value;
* `V g ex le rootPly d p` — plain negamax: `0` if `p` is drawn and not the search root
  (`g.ply p ≠ rootPly`), mated (`negInf`) / stalemate (`0`) if no move of `g.moves p` is legal, the leaf
  value at depth 0, otherwise the maximum of `lift (V … (d-1) c)` over the explored legal children `c`
  (`negInf` if none is explored);
* `Path g ex n p pv` — `pv` consists of at most `n` moves, each explored (`(ex p).pick`) and legal (`g.push`
  succeeds) in the position reached by the previous ones; `Principal g ex le rootPly n p pv` — moreover each
  move attains the negamax value: `lift (V … (n-1) c) = V … n p` along the line;
* `Q g ex fuel p` — full-window quiescence: `0` if drawn, mated / stalemate if no move is legal, otherwise
  the better of the static evaluation and `lift (Q … (fuel-1) c)` over the explored legal children; like
  `Model.quiesce` it is cut off with value `0` when the fuel is used up (`Q … 0 p = 0`). **Fuel
  convention:** the clip theorems hold for *every* fuel against the reference cut off at the same fuel, with
  no side condition; `enough_fuel` adds that under the explicit fuel bound `QDone g ex fuel p` (all explored
  lines from `p` end in fewer than `fuel` plies) the reference no longer depends on the fuel and
  `Model.quiesce` leaves `fuelOut` untouched. **On the chess game the fuel is immaterial** (`chess_enough_fuel`,
  `chess_V_fuel_irrelevant`): the Go code has no fuel; for every exploration that picks only captures (the driver's
  quiescence exploration) every explored move removes a man, so at every world reached by legal play
  (`Inv`, `Morlock/Proofs/ABChessFuel.lean`) `QDone … 64` holds, `Q` and `V` are the same for every fuel `≥ 64`, and
  `quiesce` with fuel 64 never runs out of fuel.

`Clip a b v r` (in `rank` space): `a < v < b → r = v`, `v ≤ a → v ≤ r ≤ a`, `b ≤ v → b ≤ r ≤ v`.

**Mate distances live in an `int8`** (`C09.int8_edge`), so validity is graded:
`okN n s := Valid s ∧ (s is a mate score → |s.mate| ≤ n)`. Leaf values have grade `leafGrade le`
(`0` for the static leaf, `fuel` for a quiescence leaf), a node at remaining depth `d` has grade `K + d`
for any `K ≥ leafGrade le`, and the window bounds of that node may be any scores of grade `K + d`
(so mate-score bounds are included). The only restriction is `K + d ≤ 127`; for the quiescence search
`K + fuel ≤ 127`. (`EvalOk g` says the static evaluation is the key of a non-NaN `float32`.)

The move order (`heapOrder`) is only used through `ABHeap.heapOrder_perm` (it is a permutation).
-/
namespace Morlock.Props.C13
open Morlock Morlock.Model Morlock.Model.Score Morlock.Spec Morlock.Proofs.AB
variable {P : Type}

/-- **C13 (main search).** For every game, exploration, leaf evaluation, depth, position and every proper
    window `alpha < beta` of graded-valid scores (mate-score bounds included), without table and without
    cancellation, the score returned by `alphabeta` is the negamax value `V` clipped to the window. -/
theorem alphabeta_clip (g : Game P) (ex : P → Explore) (le : LeafEval P) (rootPly : Int) (hev : EvalOk g)
    (K d : Nat) (hK : leafGrade le ≤ K) (hKd : K + d ≤ 127)
    (p : P) (alpha beta : Score) (st : SState) (htt : st.tt.slots.size = 0) (hc : st.cancelAt = none)
    (ha : okN (K + d) alpha) (hb : okN (K + d) beta) (hab : rank alpha < rank beta) :
    Clip (rank alpha) (rank beta) (rank (V g ex le rootPly d p))
      (rank (alphabeta g ex le rootPly d p alpha beta st).1) :=
  ((alphabeta_recOK hev ex le rootPly K hK d hKd).spec p alpha beta st ⟨htt, hc⟩ ha hb).2.2.2.1 hab

/-- **C13 (every window, also improper or degenerate ones).** The returned score is a valid score of the
    node's grade, it is either the exact negamax value or at least `alpha`, the returned PV is a path of
    explored legal moves of length `≤ d` — and a principal variation (`Principal`: every move of it attains
    the negamax value of the position it is played in) whenever the returned score is the exact value —
    and the state still has no table and no cancellation. -/
theorem alphabeta_any_window (g : Game P) (ex : P → Explore) (le : LeafEval P) (rootPly : Int) (hev : EvalOk g)
    (K d : Nat) (hK : leafGrade le ≤ K) (hKd : K + d ≤ 127)
    (p : P) (alpha beta : Score) (st : SState) (htt : st.tt.slots.size = 0) (hc : st.cancelAt = none)
    (ha : okN (K + d) alpha) (hb : okN (K + d) beta) :
    okN (K + d) (alphabeta g ex le rootPly d p alpha beta st).1 ∧
    ((alphabeta g ex le rootPly d p alpha beta st).1 = V g ex le rootPly d p ∨
      rank alpha ≤ rank (alphabeta g ex le rootPly d p alpha beta st).1) ∧
    Path g ex d p (alphabeta g ex le rootPly d p alpha beta st).2.1 ∧
    ((alphabeta g ex le rootPly d p alpha beta st).1 = V g ex le rootPly d p →
      Principal g ex le rootPly d p (alphabeta g ex le rootPly d p alpha beta st).2.1) ∧
    (alphabeta g ex le rootPly d p alpha beta st).2.2.tt.slots.size = 0 ∧
    (alphabeta g ex le rootPly d p alpha beta st).2.2.cancelAt = none := by
  obtain ⟨h1, h2, h3, _, h5⟩ :=
    (alphabeta_recOK hev ex le rootPly K hK d hKd).spec p alpha beta st ⟨htt, hc⟩ ha hb
  exact ⟨h2, h3, h5.1, h5.2, h1.1, h1.2⟩

/-- The reference value has the grade of its node (in particular it is a valid score). -/
theorem V_graded (g : Game P) (ex : P → Explore) (le : LeafEval P) (rootPly : Int) (hev : EvalOk g)
    (K d : Nat) (hK : leafGrade le ≤ K) (hKd : K + d ≤ 127) (p : P) : okN (K + d) (V g ex le rootPly d p) :=
  V_ok hev ex le rootPly K hK d p hKd

/-- **C13 (quiescence).** For every fuel, position and proper window of graded-valid scores, the score
    returned by `quiesce` is the full-window quiescence value `Q` (cut off at the same fuel) clipped to the
    window. Also for fuel 0, where both are `0`. -/
theorem quiescence_clip (g : Game P) (ex : P → Explore) (hev : EvalOk g) (K fuel : Nat) (hKf : K + fuel ≤ 127)
    (p : P) (alpha beta : Score) (st : SState) (htt : st.tt.slots.size = 0) (hc : st.cancelAt = none)
    (ha : okN (K + fuel) alpha) (hb : okN (K + fuel) beta) (hab : rank alpha < rank beta) :
    Clip (rank alpha) (rank beta) (rank (Q g ex fuel p)) (rank (quiesce g ex fuel p alpha beta st).1) :=
  ((quiesce_recOK hev ex K fuel hKf).spec p alpha beta st ⟨htt, hc⟩ ha hb).2.2.2.1 hab

/-- Quiescence on an arbitrary window: graded-valid result, exact or at least `alpha`, state stays quiet. -/
theorem quiescence_any_window (g : Game P) (ex : P → Explore) (hev : EvalOk g) (K fuel : Nat) (hKf : K + fuel ≤ 127)
    (p : P) (alpha beta : Score) (st : SState) (htt : st.tt.slots.size = 0) (hc : st.cancelAt = none)
    (ha : okN (K + fuel) alpha) (hb : okN (K + fuel) beta) :
    okN (K + fuel) (quiesce g ex fuel p alpha beta st).1 ∧
    ((quiesce g ex fuel p alpha beta st).1 = Q g ex fuel p ∨
      rank alpha ≤ rank (quiesce g ex fuel p alpha beta st).1) ∧
    (quiesce g ex fuel p alpha beta st).2.tt.slots.size = 0 ∧
    (quiesce g ex fuel p alpha beta st).2.cancelAt = none := by
  obtain ⟨h1, h2, h3, _, _⟩ := (quiesce_recOK hev ex K fuel hKf).spec p alpha beta st ⟨htt, hc⟩ ha hb
  exact ⟨h2, h3, h1.1, h1.2⟩

/-- The quiescence reference value is a valid score with mate distance at most the fuel. -/
theorem Q_graded (g : Game P) (ex : P → Explore) (hev : EvalOk g) (fuel : Nat) (hf : fuel ≤ 127) (p : P) :
    okN fuel (Q g ex fuel p) :=
  Q_ok hev ex fuel p hf

/-- **C13 (stand pat).** A position that is not drawn and in which the side to move has a legal move is
    never rated below its static evaluation: neither by the full-window quiescence value `Q`, nor by
    `quiesce` on *any* window of graded-valid scores (in particular when the static value is inside the
    window); the latter also never returns less than `alpha`. -/
theorem standpat (g : Game P) (ex : P → Explore) (hev : EvalOk g) (K fuel : Nat) (hKf : K + fuel + 1 ≤ 127)
    (p : P) (hd : g.isDraw p = false) (hl : legalAny g p (g.moves p) = true) :
    rank (heuristicScore (g.eval p)) ≤ rank (Q g ex (fuel + 1) p) ∧
    ∀ (alpha beta : Score) (st : SState), st.tt.slots.size = 0 → st.cancelAt = none →
      okN (K + fuel + 1) alpha → okN (K + fuel + 1) beta →
      rank (heuristicScore (g.eval p)) ≤ rank (quiesce g ex (fuel + 1) p alpha beta st).1 ∧
      rank alpha ≤ rank (quiesce g ex (fuel + 1) p alpha beta st).1 := by
  constructor
  · rw [rank_Q_succ hev ex fuel p (by omega) hd hl]
    exact maxR_ge _ _
  · intro alpha beta st htt hc ha hb
    exact (quiesce_succ_spec hev ex K fuel hKf (quiesce_recOK hev ex K fuel (by omega)) p alpha beta st
      ⟨htt, hc⟩ ha hb _ rfl).2.2.2.2.1 hd hl

/-- **C13 (terminal positions).** A position that is not drawn and has no legal move is rated exactly
    `negInf` (mated) if the side to move is in check and exactly `0` (stalemate) otherwise: by the
    reference `Q` and by `quiesce` on every window of graded-valid scores. -/
theorem quiescence_terminal (g : Game P) (ex : P → Explore) (hev : EvalOk g) (K fuel : Nat) (hKf : K + fuel + 1 ≤ 127)
    (p : P) (hd : g.isDraw p = false) (hl : legalAny g p (g.moves p) = false) :
    Q g ex (fuel + 1) p = (if g.inCheck p then negInfScore else zeroScore) ∧
    ∀ (alpha beta : Score) (st : SState), st.tt.slots.size = 0 → st.cancelAt = none →
      okN (K + fuel + 1) alpha → okN (K + fuel + 1) beta →
      (quiesce g ex (fuel + 1) p alpha beta st).1 = (if g.inCheck p then negInfScore else zeroScore) := by
  constructor
  · simp [Q, hd, hl, terminal]
  · intro alpha beta st htt hc ha hb
    exact (quiesce_succ_spec hev ex K fuel hKf (quiesce_recOK hev ex K fuel (by omega)) p alpha beta st
      ⟨htt, hc⟩ ha hb _ rfl).2.2.2.2.2 hd hl

/-- **Enough fuel.** If every line of explored legal moves from `p` ends (drawn position, or no explored
    legal move) in fewer than `fuel` plies (`QDone g ex fuel p`), the reference value is the same for every
    larger fuel, and `quiesce` does not report `fuelOut` (any window, any state). -/
theorem enough_fuel (g : Game P) (ex : P → Explore) (fuel : Nat) (p : P) (h : QDone g ex fuel p) :
    (∀ fuel', fuel ≤ fuel' → Q g ex fuel' p = Q g ex fuel p) ∧
    ∀ a b st, (quiesce g ex fuel p a b st).2.fuelOut = st.fuelOut :=
  ⟨Q_stable g ex fuel p h, quiesce_fuelOut g ex fuel p h⟩

/-! ## Non-vacuity: a tiny concrete game on `Nat` positions

Binary tree `0 → 1, 2`, `1 → 3, 4`, `2 → 5, 6`; the leaves have no legal move, `3` is mated. -/

def mv (k : Nat) : Move := { to := k }

def tiny : Game Nat where
  isDraw := fun p => p == 4
  hash := id
  ply := fun p => if p = 0 then 0 else if p < 3 then 1 else 2
  moves := fun p => if p < 3 then [mv 0, mv 1, mv 2] else [mv 0]
  push := fun p m => if p < 3 ∧ m.to < 2 then some (2 * p + 1 + m.to) else none
  inCheck := fun p => p == 3
  eval := fun p => 10 * ((p % 8 : Nat) : Int) - 35

def allMoves : Nat → Explore := fun _ => { prio := fun m => m.to, pick := fun _ => true }

theorem tiny_evalOk : EvalOk tiny := by
  intro p; simp only [tiny]; omega

-- hypotheses are satisfiable with mate-score bounds
example : okN 5 (mateInXScore (-3)) ∧ okN 5 (mateInXScore 5) ∧
    rank (mateInXScore (-3)) < rank (mateInXScore 5) := by decide

-- an instance of the theorem: depth 3, window (mated in 3, mate in 5), static leaf
example : Clip (rank (mateInXScore (-3))) (rank (mateInXScore 5))
    (rank (V tiny allMoves .static 0 3 0))
    (rank (alphabeta tiny allMoves .static 0 3 0 (mateInXScore (-3)) (mateInXScore 5) {}).1) :=
  alphabeta_clip tiny allMoves .static 0 tiny_evalOk 2 3 (by decide) (by decide) 0 _ _ {} rfl rfl
    (by decide) (by decide) (by decide)

-- and what the two sides evaluate to (position 1 is "mate in 1" for the side to move at depth 3;
-- at depth 2 the root is worth 15: inside, above and below the window)
example : V tiny allMoves .static 0 3 0 = heuristicScore 0 ∧
    V tiny allMoves .static 0 3 1 = mateInXScore 1 ∧
    (alphabeta tiny allMoves .static 0 3 1 (mateInXScore (-3)) (mateInXScore 5) {}).1 = mateInXScore 1 ∧
    (alphabeta tiny allMoves .static 0 3 1 (heuristicScore 0) infScore {}).1 = mateInXScore 1 ∧
    V tiny allMoves .static 0 2 0 = heuristicScore 15 ∧
    (alphabeta tiny allMoves .static 0 2 0 (heuristicScore 0) (heuristicScore 50) {}).1 = heuristicScore 15 ∧
    (alphabeta tiny allMoves .static 0 2 0 (heuristicScore (-5)) (heuristicScore 5) {}).1 = heuristicScore 5 ∧
    (alphabeta tiny allMoves .static 0 2 0 (heuristicScore 20) (heuristicScore 50) {}).1 = heuristicScore 20 := by
  decide

-- quiescence: instance and values
example : Clip (rank (heuristicScore (-5))) (rank (heuristicScore 5))
    (rank (Q tiny allMoves 3 0))
    (rank (quiesce tiny allMoves 3 0 (heuristicScore (-5)) (heuristicScore 5) {}).1) :=
  quiescence_clip tiny allMoves tiny_evalOk 0 3 (by decide) 0 _ _ {} rfl rfl (by decide) (by decide) (by decide)

example : Q tiny allMoves 3 0 = heuristicScore 0 ∧ Q tiny allMoves 3 1 = mateInXScore 1 ∧
    (quiesce tiny allMoves 3 0 (heuristicScore (-5)) (heuristicScore 5) {}).1 = heuristicScore 0 ∧
    (quiesce tiny allMoves 3 1 (heuristicScore (-5)) (heuristicScore 5) {}).1 = mateInXScore 1 ∧
    (quiesce tiny allMoves 3 0 (heuristicScore (-5)) (heuristicScore 5) {}).2.fuelOut = false := by decide

example : QDone tiny allMoves 3 0 := by
  simp only [QDone]
  right; intro m c hm _ hpush
  right; intro m' c' hm' _ hpush'
  simp only [tiny] at hm hpush hm' hpush'
  split at hpush <;> simp at hpush
  split at hpush' <;> simp at hpush'
  right; intro m'' c'' _ _ hpush''
  simp only [tiny] at hpush''
  split at hpush'' <;> simp at hpush''
  omega

/-! ## The chess game: the hypotheses hold, the fuel is immaterial -/

/-- `EvalOk` holds for the chess game with the material evaluation (for every world, also junk ones). -/
theorem chess_evalOk (z : ZTable) : EvalOk (materialGame z) := materialGame_evalOk z

/-- **C13 (enough fuel on the chess game).** For every Zobrist table, evaluation and exploration `ex` that picks
    only captures (`CapturesOnly ex`; the driver's `capturesOnly`), at every world `w` satisfying the play
    invariant `Inv` (arena well formed, board 0 exists, its position satisfies C01's `WFplay`; it holds for
    `newBoard` on a `WFplay` position and is preserved by `pushMove` of generated moves: `inv_newBoard`,
    `inv_push`): the explored quiescence tree is exhausted within 64 plies, the reference `Q` is the same for every
    fuel `≥ 64`, and `quiesce` with fuel 64 does not report `fuelOut`. -/
theorem chess_enough_fuel (z : ZTable) (ev : Position → Model.Color → Int) (ex : World → Explore) (hex : CapturesOnly ex)
    (w : World) (h : Inv w) :
    QDone (boardGame z ev) ex 64 w ∧
    (∀ fuel', 64 ≤ fuel' → Q (boardGame z ev) ex fuel' w = Q (boardGame z ev) ex 64 w) ∧
    ∀ a b st, (quiesce (boardGame z ev) ex 64 w a b st).2.fuelOut = st.fuelOut :=
  ⟨boardGame_qdone z ev ex hex w h, (boardGame_enough_fuel z ev ex hex w h).1, (boardGame_enough_fuel z ev ex hex w h).2⟩

/-- **C13 (the reference of the main search does not depend on the fuel on the chess game).** -/
theorem chess_V_fuel_irrelevant (z : ZTable) (ev : Position → Model.Color → Int) (ex qx : World → Explore) (hq : CapturesOnly qx)
    (rootPly : Int) (fuel : Nat) (hf : 64 ≤ fuel) (d : Nat) (w : World) (h : Inv w) :
    V (boardGame z ev) ex (.quiescence qx fuel) rootPly d w = V (boardGame z ev) ex (.quiescence qx 64) rootPly d w :=
  V_fuel_irrelevant z ev ex qx hq rootPly fuel hf d w h

/-! ## Non-vacuity on the chess game (`gX = materialGame exZ`; `Morlock/Proofs/ABChessTree.lean`)

`wE` = `r3k2r/1P6/8/3pP3/8/8/8/R3K2R w KQkq d6` (stand pat `+1`, quiescence value `+14`: `b7xa8=Q`), `wM` = Black is
mated, `wT` = Black is stalemated, `capX` = the captures-only exploration. No table (`{}`), no cancellation. -/

section Chess

set_option maxRecDepth 100000 in
-- `alphabeta_clip` / `alphabeta_any_window`: depth 3 with quiescence leaves (fuel 64), window (mated in 2, mate in 5)
example : Clip (rank (mateInXScore (-2))) (rank (mateInXScore 5))
      (rank (V gX fullX (.quiescence capX 64) 1 3 wE))
      (rank (alphabeta gX fullX (.quiescence capX 64) 1 3 wE (mateInXScore (-2)) (mateInXScore 5) {}).1) ∧
    Path gX fullX 3 wE
      (alphabeta gX fullX (.quiescence capX 64) 1 3 wE (mateInXScore (-2)) (mateInXScore 5) {}).2.1 :=
  ⟨alphabeta_clip gX fullX (.quiescence capX 64) 1 gX_evalOk 64 3 (Nat.le_refl _) (by decide) wE (mateInXScore (-2)) (mateInXScore 5) {} rfl rfl
      (by decide) (by decide) (by decide),
   (alphabeta_any_window gX fullX (.quiescence capX 64) 1 gX_evalOk 64 3 (Nat.le_refl _) (by decide) wE (mateInXScore (-2)) (mateInXScore 5) {} rfl rfl
      (by decide) (by decide)).2.2.1⟩

-- `quiescence_clip` / `quiescence_any_window`: window (-5 pawns-keys, +5)
example : Clip (rank (heuristicScore (-5))) (rank (heuristicScore 5)) (rank (Q gX capX 64 wE))
      (rank (quiesce gX capX 64 wE (heuristicScore (-5)) (heuristicScore 5) {}).1) ∧
    okN 64 (quiesce gX capX 64 wE (heuristicScore (-5)) (heuristicScore 5) {}).1 :=
  ⟨quiescence_clip gX capX gX_evalOk 0 64 (by decide) wE (heuristicScore (-5)) (heuristicScore 5) {} rfl rfl (by decide) (by decide) (by decide),
   (quiescence_any_window gX capX gX_evalOk 0 64 (by decide) wE (heuristicScore (-5)) (heuristicScore 5) {} rfl rfl (by decide) (by decide)).1⟩

-- `standpat`: `wE` is not drawn and has a legal move
example : rank (heuristicScore (gX.eval wE)) ≤ rank (Q gX capX 64 wE) ∧
    rank (heuristicScore (gX.eval wE)) ≤ rank (quiesce gX capX 64 wE (heuristicScore (-5)) (heuristicScore 5) {}).1 :=
  have h := standpat gX capX gX_evalOk 0 63 (by decide) wE wE_notDraw wE_legal
  ⟨h.1, (h.2 (heuristicScore (-5)) (heuristicScore 5) {} rfl rfl (by decide) (by decide)).1⟩

-- `quiescence_terminal`: mate and stalemate
example : Q gX capX 64 wM = negInfScore ∧
    (quiesce gX capX 64 wM (heuristicScore (-5)) (heuristicScore 5) {}).1 = negInfScore ∧
    Q gX capX 64 wT = zeroScore ∧
    (quiesce gX capX 64 wT (heuristicScore (-5)) (heuristicScore 5) {}).1 = zeroScore := by
  have hM := quiescence_terminal gX capX gX_evalOk 0 63 (by decide) wM wM_facts.1 wM_facts.2.1
  have hT := quiescence_terminal gX capX gX_evalOk 0 63 (by decide) wT wT_facts.1 wT_facts.2.1
  rw [wM_facts.2.2.1] at hM
  rw [wT_facts.2.2.1] at hT
  exact ⟨hM.1, hM.2 (heuristicScore (-5)) (heuristicScore 5) {} rfl rfl (by decide) (by decide), hT.1, hT.2 (heuristicScore (-5)) (heuristicScore 5) {} rfl rfl (by decide) (by decide)⟩

set_option maxRecDepth 100000 in
-- `enough_fuel` with `boardGame_qdone` (`chess_enough_fuel`) on `wE`; and the quiescence search there is not trivial:
-- stand pat is `+1` (`0x3F800000`), the quiescence value `+14` (`0x41600000`)
example : (∀ fuel', 64 ≤ fuel' → Q gX capX fuel' wE = Q gX capX 64 wE) ∧
    ∀ a b st, (quiesce gX capX 64 wE a b st).2.fuelOut = st.fuelOut :=
  enough_fuel gX capX 64 wE (boardGame_qdone Proofs.exZ (fun pos turn => f32keyOfInt (materialPawns pos turn)) capX capX_capturesOnly wE wE_inv)

set_option maxRecDepth 100000 in
example : heuristicScore (gX.eval wE) = heuristicScore 1065353216 ∧ Q gX capX 3 wE = heuristicScore 1096810496 := by
  decide +kernel

set_option maxRecDepth 100000 in
example (fuel : Nat) (hf : 64 ≤ fuel) (d : Nat) :
    V gX fullX (.quiescence capX fuel) 1 d wE = V gX fullX (.quiescence capX 64) 1 d wE :=
  chess_V_fuel_irrelevant Proofs.exZ (fun pos turn => f32keyOfInt (materialPawns pos turn)) fullX capX capX_capturesOnly 1 fuel hf d wE wE_inv

end Chess

end Morlock.Props.C13
