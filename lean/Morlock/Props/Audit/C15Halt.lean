import Morlock.Props.C15
/-! Instantiations and strengthenings contributed by the audit of the property theorems (see DESIGN.md). -/
namespace Morlock.Props.Audit.C15Halt
open Morlock.Model.IterConc Morlock.Proofs.ConcIter

def HOk (s : State) : HPc → Prop
  | .closeQuit _ | .lock _ | .read _ => s.init = true
  | .unlock _ r | .done _ r => 1 ≤ r.depth
  | _ => True

/-- stronger invariant: once `init` is closed, depth 1 is stored; quit implies init -/
structure J (s : State) : Prop where
  initPv : s.init = true → 1 ≤ s.pv.depth
  quitInit : s.quit = true → s.init = true
  canc : s.cancelled = true → s.quit = true ∨ s.spc.afterCancel = true
  exitPv : s.spc.exiting = true → 1 ≤ s.pv.depth
  halts : ∀ h ∈ s.halts, HOk s h

theorem HOk_mono {s s' : State} (hi : s.init = true → s'.init = true) {h : HPc} (hh : HOk s h) : HOk s' h := by
  cases h <;> simp only [HOk] at hh ⊢ <;> first | exact hi hh | exact hh

theorem J_init (n : Nat) : J (init n) := by
  refine ⟨by simp [init], by simp [init], by simp [init], by simp [init, SPc.exiting], ?_⟩
  intro h hh; simp [init] at hh; rw [hh.2]; trivial

theorem J_searcher (cfg : Cfg) (s : State) (b : Bool) (hi : IterInv cfg s) (h : J s) : J (stepSearcher cfg s b) := by
  obtain ⟨h1, h2, h3, h4, h5⟩ := h
  have hat := hi.atDepth
  unfold stepSearcher
  cases hpc : s.spc with
  | top d =>
    simp only
    split
    · rename_i hq
      exact ⟨h1, h2, by intro hc; rcases h3 hc with x | x; exact .inl x; simp [hpc, SPc.afterCancel] at x,
        fun _ => h1 (h2 hq), fun x hx => HOk_mono id (h5 x hx)⟩
    · exact ⟨h1, h2, by intro hc; rcases h3 hc with x | x; exact .inl x; simp [hpc, SPc.afterCancel] at x,
        by simp [SPc.exiting], fun x hx => HOk_mono id (h5 x hx)⟩
  | search d =>
    simp only
    split
    · rename_i hq
      simp at hq
      have hquit : s.quit = true := by
        rcases h3 hq.1 with x | x; exact x; simp [hpc, SPc.afterCancel] at x
      exact ⟨h1, h2, fun _ => .inl hquit, fun _ => h1 (h2 hquit), fun x hx => HOk_mono id (h5 x hx)⟩
    · exact ⟨h1, h2, by intro hc; rcases h3 hc with x | x; exact .inl x; simp [hpc, SPc.afterCancel] at x,
        by simp [SPc.exiting], fun x hx => HOk_mono id (h5 x hx)⟩
  | lock d =>
    simp only
    split
    · exact ⟨h1, h2, by intro hc; rcases h3 hc with x | x; exact .inl x; simp [hpc, SPc.afterCancel] at x,
        by simp [SPc.exiting], fun x hx => HOk_mono id (h5 x hx)⟩
    · exact ⟨h1, h2, h3, h4, h5⟩
  | store d =>
    simp only
    have := (hat d (by rw [hpc]; rfl)).1
    exact ⟨fun _ => by simp [Cfg.pv]; omega, h2,
        by intro hc; rcases h3 hc with x | x; exact .inl x; simp [hpc, SPc.afterCancel] at x,
        by simp [SPc.exiting], fun x hx => HOk_mono id (h5 x hx)⟩
  | unlock d =>
    simp only
    exact ⟨h1, h2, by intro hc; rcases h3 hc with x | x; exact .inl x; simp [hpc, SPc.afterCancel] at x,
        by simp [SPc.exiting], fun x hx => HOk_mono id (h5 x hx)⟩
  | drain d =>
    simp only
    exact ⟨h1, h2, by intro hc; rcases h3 hc with x | x; exact .inl x; simp [hpc, SPc.afterCancel] at x,
        by simp [SPc.exiting], fun x hx => HOk_mono id (h5 x hx)⟩
  | send d =>
    simp only
    split
    · exact ⟨h1, h2, by intro hc; rcases h3 hc with x | x; exact .inl x; simp [hpc, SPc.afterCancel] at x,
        by simp [SPc.exiting], fun x hx => HOk_mono id (h5 x hx)⟩
    · exact ⟨h1, h2, h3, h4, h5⟩
  | closeInit d =>
    simp only
    have hd := hat d (by rw [hpc]; rfl)
    simp [SPc.stored, hpc] at hd
    have hpv : 1 ≤ s.pv.depth := by omega
    refine ⟨fun _ => hpv, fun _ => rfl, ?_, fun _ => hpv, fun x hx => HOk_mono (fun _ => rfl) (h5 x hx)⟩
    intro hc; rcases h3 hc with x | x; exact .inl x; simp [hpc, SPc.afterCancel] at x
  | exitCancel =>
    simp only
    exact ⟨h1, h2, fun _ => .inr rfl, fun _ => h4 (by rw [hpc]; rfl), fun x hx => HOk_mono id (h5 x hx)⟩
  | exitCloseOut =>
    simp only
    exact ⟨h1, h2, fun _ => .inr rfl, fun _ => h4 (by rw [hpc]; rfl), fun x hx => HOk_mono id (h5 x hx)⟩
  | exitCloseInit =>
    simp only
    have := h4 (by rw [hpc]; rfl)
    exact ⟨fun _ => this, fun _ => rfl, fun _ => .inr rfl, fun _ => this, fun x hx => HOk_mono (fun _ => rfl) (h5 x hx)⟩
  | exited => simp only; exact ⟨h1, h2, h3, h4, h5⟩

theorem J_halt (cfg : Cfg) (s : State) (k : Nat) (hi : IterInv cfg s) (h : J s) : J (stepHalt s k) := by
  obtain ⟨h1, h2, h3, h4, h5⟩ := h
  unfold stepHalt
  cases hk : s.halts[k]? with
  | none => exact ⟨h1, h2, h3, h4, h5⟩
  | some hp =>
    have hmem : hp ∈ s.halts := List.mem_of_getElem? hk
    have hok := h5 hp hmem
    have hset : ∀ (s' : State) (x : HPc), s'.halts = s.halts.set k x → (s.init = true → s'.init = true) →
        HOk s' x → ∀ h ∈ s'.halts, HOk s' h := by
      intro s' x he a3 hnew hh hm
      rw [he] at hm
      rcases List.mem_or_eq_of_mem_set hm with hm | hm
      · exact HOk_mono a3 (h5 hh hm)
      · rw [hm]; exact hnew
    simp only
    cases hp with
    | idle => exact ⟨h1, h2, h3, h4, hset _ _ rfl id trivial⟩
    | await n =>
      simp only; split
      · rename_i hinit; exact ⟨h1, h2, h3, h4, hset _ _ rfl id hinit⟩
      · exact ⟨h1, h2, h3, h4, h5⟩
    | closeQuit n =>
      simp only
      exact ⟨h1, fun _ => hok, fun hc => .inl rfl, h4, hset _ _ rfl id hok⟩
    | lock n =>
      simp only; split
      · exact ⟨h1, h2, h3, h4, hset _ _ rfl id hok⟩
      · exact ⟨h1, h2, h3, h4, h5⟩
    | read n => simp only; exact ⟨h1, h2, h3, h4, hset _ _ rfl id (h1 hok)⟩
    | unlock n r => simp only; exact ⟨h1, h2, h3, h4, hset _ _ rfl id hok⟩
    | done n r => simp only; exact ⟨h1, h2, h3, h4, h5⟩

theorem J_step (cfg : Cfg) (s : State) (a : Act) (hi : IterInv cfg s) (h : J s) : J (step cfg s a) := by
  cases a with
  | searcher b => exact J_searcher cfg s b hi h
  | watcher =>
    obtain ⟨h1, h2, h3, h4, h5⟩ := h
    simp only [step, stepWatcher]; split
    · rename_i hq; simp at hq
      exact ⟨h1, h2, fun _ => .inl hq.1, h4, fun x hx => HOk_mono id (h5 x hx)⟩
    · exact ⟨h1, h2, h3, h4, h5⟩
  | consumer =>
    obtain ⟨h1, h2, h3, h4, h5⟩ := h
    simp only [step, stepConsumer]; split
    · exact ⟨h1, h2, h3, h4, fun x hx => HOk_mono id (h5 x hx)⟩
    · exact ⟨h1, h2, h3, h4, h5⟩
  | halt k => exact J_halt cfg s k hi h

theorem J_run (cfg : Cfg) (n : Nat) (sched : List Act) : J (run cfg (init n) sched) := by
  have : IterInv cfg (run cfg (init n) sched) ∧ J (run cfg (init n) sched) := by
    refine run_induction (I := fun s => IterInv cfg s ∧ J s) ?_ sched _ ⟨iterInv_init cfg n, J_init n⟩
    intro s a h; exact ⟨iterInv_step cfg s a h.1, J_step cfg s a h.1 h.2⟩
  exact this.2

/-- the statement the property asks for: a Halt that has returned returns a completed iteration of depth ≥ 1 -/
theorem halt_returns_depth1 (cfg : Cfg) (n : Nat) (sched : List Act) (k snap : Nat) (res : PV)
    (hk : (run cfg (init n) sched).halts[k]? = some (.done snap res)) : 1 ≤ res.depth :=
  (J_run cfg n sched).halts _ (List.mem_of_getElem? hk)


end Morlock.Props.Audit.C15Halt
