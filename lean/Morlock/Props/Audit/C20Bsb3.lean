import Morlock.Props.C20Sargon
/-! Instantiations and strengthenings contributed by the audit of the property theorems (see DESIGN.md). -/
namespace Morlock.Props.Audit.C20Bsb3
open Morlock Morlock.Model Morlock.Model.Sargon Morlock.Model.Score Morlock.Proofs Morlock.Proofs.AB Morlock.Props Morlock.Props.C20Sargon Morlock.Props.C13
open Morlock.Spec (rank)
-- position 3 of `tiny` is in check
example := onePlyIfChecked_clip tiny tiny_evalOk 3 invalidScore invalidScore {} (by decide) rfl rfl (by decide) (by decide) (by decide)
example : (onePlyIfChecked tiny 3 invalidScore invalidScore {}).1 = V tiny (constEx fullExploration) .static (tiny.ply 3) 1 3 := by decide
#eval (onePlyIfChecked tiny 3 invalidScore invalidScore {}).1

end Morlock.Props.Audit.C20Bsb3
