import Morlock.Props.C20Sargon
/-! Instantiations and strengthenings contributed by the audit of the property theorems (see DESIGN.md). -/
namespace Morlock.Props.Audit.C20Bsb2
open Morlock Morlock.Model Morlock.Model.Sargon Morlock.Proofs Morlock.Proofs.Sargon Morlock.Proofs.Gen Morlock.Props Morlock.Props.C20Sargon

-- findAttackers_sound / complete on twoQ, d4 (28), white
example : ∃ l, findAttackers twoQ [] 28 .white = .ok l ∧
    (∀ a ∈ l, a.front.color = Color.white ∧ Attacks twoQ.square .white a.front.piece a.front.square 28) ∧
    (∃ a ∈ l, a.front.square = 30) := by
  obtain ⟨l, hl, _, _⟩ := findAttackers_total twoQ_rep [] (sq := 28) (by decide) .white
  refine ⟨l, hl, fun a ha => ?_, ?_⟩
  · have := findAttackers_sound twoQ_rep [] (by decide) .white hl a ha
    exact ⟨this.1, this.2.2.1⟩
  · exact findAttackers_complete twoQ_rep [] (by decide) .white hl 30 .queen (by decide +kernel)
      (Or.inr ⟨by decide, by decide, by decide +kernel⟩) (by decide)

-- pinPos Rep and findPins_sound
theorem pinPos_eq : Position.newPosition pinPl 0 0 = some pinPos := by decide +kernel
theorem pinPos_rep : Rep pinPos pinPos.square :=
  (newPosition_rep (by intro x hx; simp [pinPl] at hx; rcases hx with rfl | rfl | rfl | rfl <;> decide) pinPos_eq).1.self
example := C20Sargon.findPins_sound pinPos_rep .white (piece := .king) (by decide)
  (pin := { attacker := 51, pinned := 27, target := 3 }) (by decide +kernel)
example : (51, 27, 3) ∈ Spec.specPins (abs pinPos .white) .white .king :=
  (C20Sargon.findPins_eq_specPins pinPos_rep .white .white (piece := .king) (by decide) 51 27 3).mp (by decide +kernel)

-- hookSearch_spec
example : ∃ a m', hookSearch ({} : PointsMap) 0 (viewOf kiwiPos .white) (fun m => (m.root 0).brdc0) = .ok (a, m') ∧ m'.root 0 = {} := by
  obtain ⟨pts, h, _⟩ := reset_total kiwiPos_rep (viewOf kiwiPos .white) rfl
  have e : hookSearch ({} : PointsMap) 0 (viewOf kiwiPos .white) (fun m => (m.root 0).brdc0) =
      .ok ((fun m : PointsMap => (m.root 0).brdc0) { roots := [(0, pts)] }, ({ roots := [(0, pts)] } : PointsMap).forget 0) := by
    unfold hookSearch PointsMap.reset
    rw [h]; rfl
  exact ⟨_, _, e, (hookSearch_spec e).2.1⟩
-- exchange_total on kiwi e5 knight (35)
example := exchange_total kiwiPos_rep stableSort_ok (findKingQueenPins kiwiPos) .white (sq := 35) (by decide)
-- tie-order independence: startPos, square 11 (e2): no stacks?

end Morlock.Props.Audit.C20Bsb2
