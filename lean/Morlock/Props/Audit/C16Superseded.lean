import Morlock.Props.C16
/-! Instantiations and strengthenings contributed by the audit of the property theorems (see DESIGN.md). -/
namespace Morlock.Props.Audit.C16Superseded
open Morlock.Model.UciConc Morlock.Proofs.ConcUci

/-- `d.active ≠ 0` only while the latest well-formed go is not superseded, except in the one-step window
between receiving the superseding command and `ensureInactive`'s `Store(0)` -/
def K (s : State) : Prop := s.active ≠ 0 → (cur s.log).isSome = true ∨ ∃ a, s.loop = .ensureStore a

theorem K_init (cmds : List Cmd) (pcap : Nat) : K (init cmds pcap) := by
  intro h; simp [init] at h

theorem K_loop (s : State) (c : Sel) (hr : ReqInv s) (h : K s) : K (stepLoop .repaired s c) := by
  have hpc := hr.pc
  unfold K at h ⊢
  unfold stepLoop
  cases hl : s.loop <;> simp only [hl] at hpc h ⊢
  case select =>
    cases c <;> simp only
    · cases hc : s.cmds with
      | nil => simpa [hl] using h
      | cons cmd rest =>
        simp only
        intro ha
        cases cmd <;> simp [dispatch, cur, Cmd.supersedes] <;> (try (have := h ha; simpa [hl] using this))
    · cases hp : s.ponder <;> simp only
      · simpa [hl] using h
      · intro ha; have := h ha; simpa [hl] using this
    · cases ht : s.timeouts <;> simp only
      · simpa [hl] using h
      · intro ha; have := h ha; simpa [hl] using this
  all_goals (try (repeat' split))
  all_goals (first
    | (intro ha; have := h ha; simp_all [sendOut, PcOk, afterHalt]; done)
    | (intro ha; simp_all [sendOut, PcOk, afterHalt]; done)
    | (simp_all [sendOut, PcOk, afterHalt]; done)
    | (intro ha; simp only [sendOut_active, cur_sendOut, sendOut_loop] at ha ⊢; have := h ha; simp_all; done)
    | (intro _; obtain ⟨⟨g, hg, _⟩, _⟩ := hpc; simp [hg]; done)
    | skip)

theorem K_fwd (s : State) (j : Nat) (h : K s) : K (stepFwd .repaired s j) := by
  unfold K at h ⊢
  unfold stepFwd
  cases hj : s.fwds[j]? with
  | none => exact h
  | some f =>
    simp only
    cases hp : f.pc <;> simp only
    all_goals (try (repeat' split))
    all_goals (first
      | exact h
      | (intro ha; simp only [sendOut_active, cur_sendOut, sendOut_loop] at ha ⊢; exact h ha)
      | (intro ha; simp at ha; done)
      | (intro ha; exact h ha)
      | skip)

theorem K_step (s : State) (a : Act) (hr : ReqInv s) (h : K s) : K (step s a) := by
  cases a with
  | loop c => exact K_loop s c hr h
  | fwd j => exact K_fwd s j h
  | timerSend j =>
    simp only [step, stepWith, stepTimerSend]; unfold K at h ⊢
    repeat' split
    all_goals exact h
  | timerDrop j =>
    simp only [step, stepWith, stepTimerDrop]; unfold K at h ⊢
    repeat' split
    all_goals exact h
  | searchIter j =>
    simp only [step, stepWith, stepIter]; unfold K at h ⊢
    repeat' split
    all_goals exact h
  | searchExit j =>
    simp only [step, stepWith, stepExit]; unfold K at h ⊢
    repeat' split
    all_goals exact h

theorem K_run (cmds : List Cmd) (pcap : Nat) (sched : List Act) : K (run (init cmds pcap) sched) := by
  have : AllInv (run (init cmds pcap) sched) ∧ K (run (init cmds pcap) sched) := by
    refine run_induction (I := fun s => AllInv s ∧ K s) ?_ sched _ ⟨allInv_init cmds pcap, K_init cmds pcap⟩
    intro s a h; exact ⟨allInv_step s a h.1, K_step s a h.1.req h.2⟩
  exact this.2

/-- No search commits (wins the CAS that entitles it to print `bestmove`) once the latest go has been superseded by
`position` / `ucinewgame` / a malformed go / `quit` / EOF and the loop has executed the `Store(0)` of that command:
a commit step needs `active ≠ 0`. -/
theorem no_commit_when_superseded (cmds : List Cmd) (pcap : Nat) (sched : List Act)
    (hsup : cur (run (init cmds pcap) sched).log = none)
    (hwin : ∀ a, (run (init cmds pcap) sched).loop ≠ .ensureStore a) :
    (run (init cmds pcap) sched).active = 0 := by
  have := K_run cmds pcap sched
  unfold K at this
  by_cases h : (run (init cmds pcap) sched).active = 0
  · exact h
  · rcases this h with x | ⟨a, x⟩
    · rw [hsup] at x; cases x
    · exact absurd x (hwin a)



end Morlock.Props.Audit.C16Superseded
