import Morlock.Props.C04
/-! Instantiations and strengthenings contributed by the audit of the property theorems (see DESIGN.md). -/
namespace Morlock.Props.Audit.C04Answered
open Morlock.Model.UciConc Morlock.Proofs.ConcUci Morlock.Props.C04

theorem qs : Quiescent session := by
  have hf : session.fwds.length = 1 := by decide
  have ht : session.timers.length = 0 := by decide
  have hs : session.srch.length = 1 := by decide
  intro a
  cases a with
  | loop c => cases c <;> decide
  | fwd j =>
    match j with
    | 0 => decide
    | j + 1 =>
      have : session.fwds[j + 1]? = none := List.getElem?_eq_none (by omega)
      simp [step, stepWith, stepFwd, this]
  | timerSend j =>
    have : session.timers[j]? = none := List.getElem?_eq_none (by omega)
    simp [step, stepWith, stepTimerSend, this]
  | timerDrop j =>
    have : session.timers[j]? = none := List.getElem?_eq_none (by omega)
    simp [step, stepWith, stepTimerDrop, this]
  | searchIter j =>
    match j with
    | 0 => decide
    | j + 1 =>
      have : session.srch[j + 1]? = none := List.getElem?_eq_none (by omega)
      simp [step, stepWith, stepIter, this]
  | searchExit j =>
    match j with
    | 0 => decide
    | j + 1 =>
      have : session.srch[j + 1]? = none := List.getElem?_eq_none (by omega)
      simp [step, stepWith, stepExit, this]

example := answered [.isready, .go {}] 400 _ qs {} (by decide) (by decide) (.inr (.inl rfl))

end Morlock.Props.Audit.C04Answered
