import Morlock.Props.C20
import Morlock.Props.C20TurochampFlt
/-! Instantiations and strengthenings contributed by the audit of the property theorems (see DESIGN.md). -/
namespace Morlock.Props.Audit.C20TuroC
open Morlock Morlock.Model Morlock.Proofs Morlock.Proofs.Gen Morlock.Proofs.Mirror Morlock.Model.Turochamp
open Morlock.Props Morlock.Proofs.Turochamp

def kiwiPlB : List (Nat × Color × Piece) := kiwiPl.map fun x => (Spec.mirrorSq x.1, x.2.1.opp, x.2.2)
def kiwiPosB : Position := (Position.newPosition kiwiPlB 15 0).getD {}
theorem kiwiPosB_eq : Position.newPosition kiwiPlB 15 0 = some kiwiPosB := by decide +kernel

theorem kiwiPosB_rep : Rep kiwiPosB kiwiPosB.square := by
  have hv : ValidPlacements kiwiPlB := by
    intro x hx
    have : (kiwiPlB.all fun x => decide (x.1 < 64) && (x.2.2 != Piece.none)) = true := by decide +kernel
    have := List.all_eq_true.mp this x hx
    simpa using this
  exact (newPosition_rep hv kiwiPosB_eq).1.self

theorem kiwiPosB_square : kiwiPosB.square = mirrorBoard kiwiPos.square := by
  funext sq
  by_cases hsq : sq < 64
  · have : ∀ s, s < 64 → kiwiPosB.square s = mirrorBoard kiwiPos.square s := by decide +kernel
    exact this sq hsq
  · have h64 : 64 ≤ sq := by omega
    unfold mirrorBoard
    rw [Spec.mirrorSq_of_ge h64, kiwiPosB_rep.out sq h64, kiwiPos_rep.out sq h64]

theorem kiwiPosB_repM : Rep kiwiPosB (mirrorBoard kiwiPos.square) := by
  rw [← kiwiPosB_square]; exact kiwiPosB_rep

theorem kiwiB_wfplay : ∀ c, Chain.WFplay kiwiPosB c := fun c => by
  cases c
  · exact ⟨⟨kiwiPosB_rep, by decide +kernel⟩, by decide +kernel⟩
  · exact ⟨⟨kiwiPosB_rep, by decide +kernel⟩, by decide +kernel⟩

theorem kiwi_wfplay : ∀ c, Chain.WFplay kiwiPos c := fun c => by
  cases c
  · exact Chain.kiwiPos_wfplay.1
  · exact Chain.kiwiPos_wfplay.2

-- kiwipete is not its own mirror image
example : kiwiPosB.square 18 ≠ kiwiPos.square 18 := by decide +kernel

theorem kiwi_mirror (oS oO oS' oO' : List (Nat × Nat) → List (Nat × Nat))
    (hpS : ∀ l, (oS l).Perm l) (hpO : ∀ l, (oO l).Perm l) (hpS' : ∀ l, (oS' l).Perm l) (hpO' : ∀ l, (oO' l).Perm l) :
    evaluateCoreOrd oS oO kiwiPosB false false .black = evaluateCoreOrd oS' oO' kiwiPos false false .white :=
  C20Turochamp.evaluate_mirror_quiet kiwiPos_rep kiwiPosB_repM kiwi_wfplay kiwiB_wfplay (by decide +kernel) (by decide +kernel) (by decide +kernel)
    (by decide +kernel) (fun _ => by decide +kernel) (fun h => absurd (by decide +kernel) h)
    ⟨by decide +kernel, by decide +kernel, by decide +kernel⟩ ⟨by decide +kernel, by decide +kernel, by decide +kernel⟩
    false false .white oS oO oS' oO' hpS hpO hpS' hpO'

#eval (evaluateCoreOrd id id kiwiPos false false .white).bind Flt.bits32
#eval (evaluateCoreOrd id id kiwiPosB false false .black).bind Flt.bits32
#eval (evaluateCoreOrd id id kiwiPos false false .black).bind Flt.bits32

end Morlock.Props.Audit.C20TuroC
