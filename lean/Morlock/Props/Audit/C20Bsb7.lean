import Morlock.Props.C20Bernstein
/-! Instantiations and strengthenings contributed by the audit of the property theorems (see DESIGN.md). -/
namespace Morlock.Props.Audit.C20Bsb7
open Morlock Morlock.Model Morlock.Model.Bernstein Morlock.Proofs
example : (evalEvaluate kiwiPos (-5) .white).isSome = true ∧ (evalEvaluate kiwiPos 1000000 .white).isSome = true := by decide +kernel

end Morlock.Props.Audit.C20Bsb7
