import Morlock.Props.C20TurochampFlt
/-! Instantiations and strengthenings contributed by the audit of the property theorems (see DESIGN.md). -/
namespace Morlock.Props.Audit.C20TuroE
open Morlock Morlock.Model Morlock.Proofs Morlock.Proofs.Gen Morlock.Model.Turochamp Morlock.Proofs.Turochamp Morlock.Model.Flt
open Morlock.Props.C20Turochamp

theorem evaluateCoreOrd_finite {pos : Position} {t : Color} (hw : WF pos t) (cs co : Bool) (turn : Color)
    (oS oO : List (Nat × Nat) → List (Nat × Nat)) (hpS : ∀ l, (oS l).Perm l) (hpO : ∀ l, (oO l).Perm l) :
    ∃ v, evaluateCoreOrd oS oO pos cs co turn = some v ∧ 0 < v.den ∧ v.num.natAbs ≤ evalBound * v.den := by
  obtain ⟨mat, h1, b1⟩ := Turochamp.materialEvaluate_total fltFacts pos turn
  obtain ⟨ppS, h2, b2⟩ := positionPlay_finite hw cs turn oS hpS
  obtain ⟨ppO, h3, b3⟩ := positionPlay_finite hw co turn.opp oO hpO
  obtain ⟨pp, h4, b4⟩ := sub32 fltFacts b2 b3 (by decide)
  obtain ⟨v, h5, b5⟩ := combine_total fltFacts b1 b4
  refine ⟨v, ?_, b5⟩
  unfold evaluateCoreOrd
  rw [h1, Option.bind_some, h2, Option.bind_some, h3, Option.bind_some, h4, Option.bind_some]
  exact h5

end Morlock.Props.Audit.C20TuroE
