import Morlock.Props.C20Books
/-! Instantiations and strengthenings contributed by the audit of the property theorems (see DESIGN.md). -/
namespace Morlock.Props.Audit.C20Bsb6
open Morlock Morlock.Model Morlock.Model.Book Morlock.Model.Fen Morlock.Proofs Morlock.Proofs.Gen Morlock.Proofs.Book Morlock.Props.C20Books
example : ∃ e, newBook [["e2e9".toList]] = .error e ∧ e ≠ .panic :=
  newBook_rejects (line := ["e2e9".toList]) (by simp) (pre := []) (s := "e2e9".toList) (post := []) rfl
    (p := startPos) (t := .white) rfl (Or.inl (by decide +kernel))
-- a legal-looking text that matches no legal move at the start: e2e5
example : ∃ e, newBook [["e2e5".toList]] = .error e ∧ e ≠ .panic :=
  newBook_rejects (line := ["e2e5".toList]) (by simp) (pre := []) (s := "e2e5".toList) (post := []) rfl
    (p := startPos) (t := .white) rfl (Or.inr ⟨{ «from» := 11, to := 35 }, by decide +kernel, by decide +kernel⟩)

end Morlock.Props.Audit.C20Bsb6
