import Morlock.Props.C20Bernstein
/-! Instantiations and strengthenings contributed by the audit of the property theorems (see DESIGN.md). -/
namespace Morlock.Props.Audit.C20Bsb1
open Morlock Morlock.Model Morlock.Model.Bernstein Morlock.Proofs Morlock.Proofs.Gen Morlock.Props Morlock.Props.C20Bernstein

-- 1. eval_total_closed on kiwipete, default factor 20
example : (evalEvaluate kiwiPos 20 .white).isSome = true :=
  eval_total_closed kiwiPos_rep (by decide) (by decide) (by decide +kernel) (by decide +kernel)

-- 2. no-king position
def loneKingPl : List (Nat × Color × Piece) := [(3, .white, .king), (12, .white, .pawn)]
def loneKing : Position := (Position.newPosition loneKingPl 0 0).getD {}
theorem loneKing_eq : Position.newPosition loneKingPl 0 0 = some loneKing := by decide +kernel
theorem loneKing_rep : Rep loneKing (placeAll emptyBoard loneKingPl) :=
  (newPosition_rep (by intro x hx; simp [loneKingPl] at hx; rcases hx with rfl | rfl <;> decide) loneKing_eq).1
example : evalEvaluate loneKing 20 .white = none :=
  eval_panics_without_king loneKing_rep 20 .white (Or.inr (by decide +kernel))

-- 3. plausible_sound etc on kiwi
example := plausible_sound kiwiPos_wf.1
example : (findPlausibleMoves startPos .white).Perm ((startPos.legalMoves .white).filter fun m => !m.isUnderPromotion) :=
  plausible_complete_without_castling (by decide +kernel)
example := (table_within_limit (p := kiwiPos) (turn := .white) 7).2.2.2 kiwiPos_wf.1 (by decide +kernel)

-- 4. isSafe_spec / findCapture_nil_iff
example := (findCapture_nil_iff kiwiPos_rep .white .black (sq := 35) (by decide))
example := (isSafe_spec kiwiPos_rep .white .white .knight (sq := 35) (by decide))

-- 5. phantomPos WF?
theorem phantom_eq : Position.newPosition [(3, .white, .king), (59, .black, .king), (51, .black, .pawn), (36, .black, .pawn)] 0 44 = some phantomPos := by decide +kernel
theorem phantom_rep : Rep phantomPos phantomPos.square :=
  (newPosition_rep (by intro x hx; simp at hx; rcases hx with rfl | rfl | rfl | rfl <;> decide) phantom_eq).1.self
example :=
  opponent_mobility_phantoms (c := .white) ⟨phantom_rep, by decide +kernel⟩ (by decide +kernel)

end Morlock.Props.Audit.C20Bsb1
