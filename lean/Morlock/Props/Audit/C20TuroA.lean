import Morlock.Props.C20
import Morlock.Props.C20TurochampFlt
/-! Instantiations and strengthenings contributed by the audit of the property theorems (see DESIGN.md). -/
namespace Morlock.Props.Audit.C20TuroA
open Morlock Morlock.Model Morlock.Proofs Morlock.Proofs.Gen Morlock.Proofs.Mirror Morlock.Model.Turochamp
open Morlock.Props

theorem exPosB_square : exPosB.square = mirrorBoard (placeAll emptyBoard exPl) := by
  funext sq
  by_cases hsq : sq < 64
  · have : ∀ s, s < 64 → exPosB.square s = mirrorBoard (placeAll emptyBoard exPl) s := by decide +kernel
    exact this sq hsq
  · have h64 : 64 ≤ sq := by omega
    unfold mirrorBoard
    rw [Spec.mirrorSq_of_ge h64, exPosB_rep.out sq h64, exPos_rep.out sq h64]

theorem exPosB_repM : Rep exPosB (mirrorBoard (placeAll emptyBoard exPl)) := by
  rw [← exPosB_square]; exact exPosB_rep

-- abs_eq_mirror with a non-zero e.p. target
theorem t1 : abs exPosB Color.white.opp = Spec.mirror (abs exPos .white) :=
  C20.abs_eq_mirror exPos_rep exPosB_repM .white (by decide +kernel) (by decide +kernel) (by decide +kernel) (by decide +kernel)
    (fun h => absurd h (by decide +kernel)) (fun _ => by decide +kernel)

example : materialPawns exPosB Color.white.opp = materialPawns exPos .white :=
  C20.material_mirror_model exPos_rep exPosB_repM .white

example (c : Color) : exPosB.isChecked c.opp = exPos.isChecked c :=
  C20Turochamp.check_mirror exPos_wf.1 exPos_rep exPosB_repM t1 c

example (c : Color) : (exPosB.pieces c.opp .king = 0 ↔ exPos.pieces c .king = 0) ∧
    (exPos.pieces c .king ≠ 0 → safety exPosB c.opp = safety exPos c) :=
  C20Turochamp.kingSafety_mirror exPos_wf.1 exPos_rep exPosB_repM c

example : pawnRanks Color.white.opp (Spec.mirrorSq 54) = pawnRanks .white 54 ∧
    officerDefended exPosB Color.white.opp (Spec.mirrorSq 54) kqrnb = officerDefended exPos .white 54 kqrnb :=
  C20Turochamp.pawnCredit_mirror exPos_rep exPosB_repM .white (by decide)

#eval (pawnRanks .white 54, officerDefended exPos .white 54 kqrnb, safety exPos .white, safety exPos .black, exPos.isChecked .white)
-- which model functions are meant?
#check @C20Turochamp.material_mirror
#check @C20Turochamp.evaluate_finite

open Morlock.Proofs.Turochamp in
theorem gapB : MirrorGap exPos exPosB .black :=
  ⟨by decide +kernel, by decide +kernel, by decide +kernel⟩

open Morlock.Proofs.Turochamp in
theorem exMover (oS oO oS' oO' : List (Nat × Nat) → List (Nat × Nat))
    (hpS : ∀ l, (oS l).Perm l) (hpO : ∀ l, (oO l).Perm l) (hpS' : ∀ l, (oS' l).Perm l) (hpO' : ∀ l, (oO' l).Perm l) :
    evaluateCoreOrd oS oO exPosB false false Color.white.opp = evaluateCoreOrd oS' oO' exPos false false .white :=
  C20Turochamp.evaluate_mirror_mover (t := .white) exPos_rep exPosB_repM ⟨exPos_wf.1, by decide +kernel⟩ ⟨exPos_wf.2, by decide +kernel⟩
    (by decide +kernel) (by decide +kernel) (by decide +kernel) (by decide +kernel)
    (fun h => absurd h (by decide +kernel)) (fun _ => by decide +kernel)
    ⟨by decide +kernel, by decide +kernel, by decide +kernel⟩ ⟨by decide +kernel, by decide +kernel, by decide +kernel⟩
    gapB false false oS oO oS' oO' hpS hpO hpS' hpO'
#eval (evaluateCoreOrd id id exPos false false .white).bind Flt.bits32
#eval (evaluateCoreOrd id id exPosB false false .black).bind Flt.bits32

end Morlock.Props.Audit.C20TuroA
