import Morlock.Props.C20
/-! Instantiations and strengthenings contributed by the audit of the property theorems (see DESIGN.md). -/
namespace Morlock.Props.Audit.C20MirrorI
open Morlock Morlock.Props.C20
#eval (Spec.legalMoves twoKings).length
#eval (Spec.legalMoves (Spec.mirror twoKings)).length
#eval (Spec.perft 1 twoKings, Spec.perft 1 (Spec.mirror twoKings), Spec.perft 2 twoKings, Spec.perft 2 (Spec.mirror twoKings))
example : Spec.perft 1 (Spec.mirror twoKings) ≠ Spec.perft 1 twoKings := by decide +kernel

end Morlock.Props.Audit.C20MirrorI
