import Morlock.Props.C09
/-!
# C09 — the branches the order theorems exclude, stated outright

`Props/C09.lean` proves the order laws for `Valid` scores. The transcription of `score.go` is total,
so the excluded inputs (the `Invalid` score, `MateInXScore(0)`) still have a behaviour, and the
`score` stream compares it with the implementation. These theorems say what that behaviour is for
EVERY partner score, so that the "partial" notes of the evidence are statements, not remarks:
neither value is ever ranked against a heuristic score, in either direction, and the selection
helpers `Max` / `Min` never invent a score.
-/
namespace Morlock.Props.C09Edge
open Morlock Morlock.Model Morlock.Model.Score Morlock.Spec Morlock.Props.C09

/-- `MateInXScore(0)` is neither below nor above any heuristic score (and differs from each). -/
theorem mate0_incomparable (p : Int) :
    (mateInXScore 0).less (heuristicScore p) = false ∧
    (heuristicScore p).less (mateInXScore 0) = false ∧
    mateInXScore 0 ≠ heuristicScore p := by
  simp [less, mateInXScore, heuristicScore]

/-- `MateInXScore(0)` still sits strictly between the two infinities. -/
theorem mate0_between_inf :
    negInfScore.less (mateInXScore 0) = true ∧ (mateInXScore 0).less infScore = true := by decide

/-- With a zero mate distance the chain breaks: it is above every mated AND every mating score ... -/
theorem mate0_above_all_mates (k : Int) (hk : k ≠ 0) :
    (mateInXScore k).less (mateInXScore 0) = true := by
  by_cases h : k < 0
  · simp [less, mateInXScore, h]; omega
  · have : 0 < k := by omega
    simp [less, mateInXScore, h]; omega

/-- ... so transitivity fails through it (`h < mate 1 < mate 0` but not `h < mate 0`): no rank could
    place it, which is why `Valid` demands `Mate ≠ 0` (as the field's documentation does). -/
theorem mate0_breaks_transitivity (p : Int) :
    (heuristicScore p).less (mateInXScore 1) = true ∧ (mateInXScore 1).less (mateInXScore 0) = true ∧
    (heuristicScore p).less (mateInXScore 0) = false := by
  refine ⟨?_, mate0_above_all_mates 1 (by decide), (mate0_incomparable p).2.1⟩
  simp [less, mateInXScore, heuristicScore]

/-- The `Invalid` score is never ordered against a heuristic or mate score, in either direction. -/
theorem invalid_incomparable (b : Score) (hb : b.ty = .heuristic ∨ b.ty = .mateInX) :
    invalidScore.less b = false ∧ b.less invalidScore = false := by
  obtain ⟨tb, mb, pb⟩ := b
  rcases hb with h | h <;> simp at h <;> subst h <;> simp [less, invalidScore]

/-- ... but the two infinities bound it like everything else (the first two tests of `Less`). -/
theorem invalid_between_inf :
    negInfScore.less invalidScore = true ∧ invalidScore.less infScore = true ∧
    invalidScore.less negInfScore = false ∧ infScore.less invalidScore = false := by decide

/-- Negation and the mate-distance increment leave `Invalid` alone. -/
theorem invalid_fixed : invalidScore.negate = invalidScore ∧ invalidScore.incMate = invalidScore := by
  decide

/-- `Max` and `Min` return one of their arguments - for all scores, valid or not. -/
theorem max_mem (a b : Score) : Score.max a b = a ∨ Score.max a b = b := by
  unfold Score.max; split <;> simp

theorem min_mem (a b : Score) : Score.min a b = a ∨ Score.min a b = b := by
  unfold Score.min; split <;> simp

/-- `Max` and `Min` split a pair: together they return both arguments - for all scores. -/
theorem max_min_partition (a b : Score) :
    (Score.max a b = a ∧ Score.min a b = b) ∨ (Score.max a b = b ∧ Score.min a b = a) := by
  unfold Score.max Score.min; split <;> simp

/-- On valid scores the smaller-of is never above the larger-of. -/
theorem min_not_above_max (a b : Score) (ha : Valid a) (hb : Valid b) :
    (Score.max a b).less (Score.min a b) = false := by
  have hmax : Valid (Score.max a b) := by rcases max_mem a b with h | h <;> rw [h] <;> assumption
  have hmin : Valid (Score.min a b) := by rcases min_mem a b with h | h <;> rw [h] <;> assumption
  have h := lt_iff_rank _ _ hmax hmin
  have hr := max_min a b ha hb
  cases hl : (Score.max a b).less (Score.min a b)
  · rfl
  · have := h.1 hl
    omega

/-- Non-vacuity: valid scores exist on every stretch of the chain. -/
example : Valid (mateInXScore (-3)) ∧ Valid (heuristicScore 125) ∧ Valid (mateInXScore 7) ∧
    Valid infScore ∧ Valid negInfScore := by decide

end Morlock.Props.C09Edge
