import Morlock.Proofs.FenPrint
import Morlock.Props.C05Sync
import Morlock.Model.EngineM
/-!
# C14 — the FEN a board reports is the standard FEN of the game played on it

`Props/C05Sync.lean` (`fen_agrees`) shows that the FIELDS `fen.Encode` is given for a board (current position, side to
move, clock of the current node, `moves` counter) are the fields of the reference game (`Spec.Game`: start position
plus the list of moves, everything recomputed from the whole history). `Proofs/FenPrint.lean` shows that on equal
fields `fen.Encode` and the reference printer write the same string. Together:

* `encode_eq_printFen`: for every position with rights among the four bits and an en-passant target on the board,
  every side and non-negative clocks, `Fen.encode p turn np fm = Spec.printFen {abs p turn, np.toNat, fm.toNat}`
  (as `String`s; no `Rep` needed; both bounds are necessary: `castling_bound_needed`, `ep_bound_needed`);
* `encode_eq_printFen_rep`: the same in the shape asked for (`Rep p b`, `WF`-style en-passant bound);
* `reported_fen_is_standard`: for every board reachable by set-up / generated moves / take-backs / forks
  (`GenGame z w b g`), the FEN the board encodes is `g.fen`, the FEN of the reference game: placement, side, rights and
  target of the position reached by replaying the moves with the reference rules, half-move clock = half-moves since
  the last pawn move or capture (from the set-up clock), full-move number incremented after each Black move;
* `engine_position_is_standard`: `Engine.Position` (`EngineM.position`) of an engine whose board 0 is such a board.
-/
namespace Morlock.Props.C14Print
open Morlock Morlock.Model Morlock.Model.World Morlock.Model.Fen Morlock.Proofs Morlock.Proofs.Arena
  Morlock.Proofs.Draw Morlock.Proofs.Chain Morlock.Proofs.Gen Morlock.Proofs.FenPrint Morlock.Props.C05
  Morlock.Props.C05Sync Morlock.Props.C07Board

/-- **C14 `encode_eq_printFen`.** `fen.Encode` writes exactly what the reference printer writes for the abstraction
of the position, the side to move and the two clocks: placement (run-length loop over `Position.Square` vs. the
reference's rank printer), side letter, castling letters, en-passant square name, and the two numerals. -/
theorem encode_eq_printFen (p : Position) (turn : Color) (np fm : Int) (hc : p.castling < 16)
    (he : p.enpassant < 64) (hnp : 0 ≤ np) (hfm : 0 ≤ fm) :
    encode p turn np fm = Spec.printFen { pos := abs p turn, halfmove := np.toNat, fullmove := fm.toNat } :=
  FenPrint.encode_eq_printFen p turn np fm hc he hnp hfm

/-- The same for a well-formed position (`WF p turn`: all views agree with the mailbox board `p.square`, at most one
king a side, rights only with the king at home, the en-passant target — if any — an empty square of the right rank
behind an enemy pawn): the en-passant bound follows. -/
theorem encode_eq_printFen_wf {p : Position} {turn : Color} (hw : WF p turn) (np fm : Int) (hc : p.castling < 16)
    (hnp : 0 ≤ np) (hfm : 0 ≤ fm) :
    encode p turn np fm = Spec.printFen { pos := abs p turn, halfmove := np.toNat, fullmove := fm.toNat } := by
  have he : p.enpassant < 64 := by
    by_cases h0 : p.enpassant = 0
    · rw [h0]; decide
    · exact (hw.wfb.ep_ok h0).1
  exact encode_eq_printFen p turn np fm hc he hnp hfm

/-- The same with the representation relation spelled out (`Rep p b` is not used by the proof: the string equality
holds for every position; it is what makes `abs p turn` the mailbox board `b`). -/
theorem encode_eq_printFen_rep {p : Position} {b : Proofs.Board} (_h : Rep p b) (turn : Color) (np fm : Int)
    (hc : p.castling < 16) (he : p.enpassant < 64) (hnp : 0 ≤ np) (hfm : 0 ≤ fm) :
    encode p turn np fm = Spec.printFen { pos := abs p turn, halfmove := np.toNat, fullmove := fm.toNat } :=
  encode_eq_printFen p turn np fm hc he hnp hfm

/-- Both bounds are necessary. Rights: a fifth bit alone prints as the empty field, the reference prints `-`.
Target: `Square.String` takes the rank modulo 8 (`64 ↦ h1`), the reference does not (`h9`). -/
theorem bounds_needed :
    encode { castling := 16 } .white 0 1 ≠
      Spec.printFen { pos := abs { castling := 16 } .white, halfmove := 0, fullmove := 1 } ∧
    encode { enpassant := 64 } .white 0 1 ≠
      Spec.printFen { pos := abs { enpassant := 64 } .white, halfmove := 0, fullmove := 1 } := by
  decide +kernel

/-- **C14 `reported_fen_is_standard`.** On every generated board — after any set-up on a well-formed position, any
generated moves, take-backs and forks — the string `fen.Encode` returns for the board's current position, side to
move, clock and move counter is the FEN of the reference game carried along. -/
theorem reported_fen_is_standard {z : ZTable} (hz : z.enpassant 0 = 0) {w : World} {b : Nat} {g : Spec.Game}
    (hg : GenGame z w b g) :
    encode (w.cur b).pos (w.board b).turn (w.cur b).noprogress (w.board b).moves = g.fen := by
  obtain ⟨_, _, _, hl⟩ := genBoard_inv hz (genGame_genBoard hg)
  obtain ⟨hs, _⟩ := genBoard_sync hz hg
  obtain ⟨_, h2, h3, _⟩ := position_agrees hz hg
  have hnp : 0 ≤ (w.cur b).noprogress := by rw [← h2]; exact Int.natCast_nonneg _
  have hfm : 0 ≤ (w.board b).moves := by rw [← h3]; exact Int.natCast_nonneg _
  rw [fen_agrees hz hg]
  exact encode_eq_printFen_wf hl.cur.wf _ _ hs.sync.cur_posOK.castling hnp hfm

/-- The FEN written out: the reference printer on the reference game's current position and its two counters. -/
theorem reported_fen_fields {z : ZTable} (hz : z.enpassant 0 = 0) {w : World} {b : Nat} {g : Spec.Game}
    (hg : GenGame z w b g) :
    encode (w.cur b).pos (w.board b).turn (w.cur b).noprogress (w.board b).moves =
      Spec.printFen { pos := g.current, halfmove := g.halfmove, fullmove := g.fullmove } :=
  reported_fen_is_standard hz hg

/-- **`Engine.Position`** is `fen.Encode` on board 0: for an engine whose board is a generated board, it returns the
FEN of the reference game. -/
theorem engine_position_is_standard {z : ZTable} (hz : z.enpassant 0 = 0) {e : EngineM} {g : Spec.Game}
    (hg : GenGame z e.w 0 g) : e.position = g.fen :=
  reported_fen_is_standard hz hg

/-- The same with the engine given by its world. -/
theorem engine_position_is_standard' {z : ZTable} (hz : z.enpassant 0 = 0) {w : World} {g : Spec.Game}
    (hg : GenGame z w 0 g) : (EngineM.mk w).position = g.fen :=
  reported_fen_is_standard hz hg

/-! ## A concrete game: 1. e4 d5 2. exd5 Qxd5 -/

section Example

/-- 1… d5 -/
def d7d5 : Move := { ty := .jump, «from» := 52, to := 36, piece := .pawn }
/-- 2. exd5 -/
def exd5 : Move := { ty := .capture, «from» := 27, to := 36, piece := .pawn, capture := .pawn }
/-- 2… Qxd5 -/
def qxd5 : Move := { ty := .capture, «from» := 60, to := 36, piece := .queen, capture := .pawn }

/-- initial position, 1. e4 (`C05Sync.f1`) d5 -/
def p2 : World := (f1.pushMove exZ 0 d7d5).getD default
/-- 2. exd5 -/
def p3 : World := (p2.pushMove exZ 0 exd5).getD default
/-- 2… Qxd5 -/
def p4 : World := (p3.pushMove exZ 0 qxd5).getD default

theorem ex_f1 : GenGame exZ f1 0 (gsnoc g0 (absMove e2e4)) :=
  GenGame.push ex_e0 (by decide +kernel) (push_getD (by decide +kernel))

theorem ex_p2 : GenGame exZ p2 0 (gsnoc (gsnoc g0 (absMove e2e4)) (absMove d7d5)) :=
  GenGame.push ex_f1 (by decide +kernel) (push_getD (by decide +kernel))

theorem ex_p3 : GenGame exZ p3 0 (gsnoc (gsnoc (gsnoc g0 (absMove e2e4)) (absMove d7d5)) (absMove exd5)) :=
  GenGame.push ex_p2 (by decide +kernel) (push_getD (by decide +kernel))

theorem ex_p4 :
    GenGame exZ p4 0 (gsnoc (gsnoc (gsnoc (gsnoc g0 (absMove e2e4)) (absMove d7d5)) (absMove exd5)) (absMove qxd5)) :=
  GenGame.push ex_p3 (by decide +kernel) (push_getD (by decide +kernel))

/-- The reference game carried along is `1. e4 d5 2. exd5 Qxd5` from the initial position. -/
def gEx : Spec.Game :=
  { start := { pos := abs startPos .white, halfmove := 0, fullmove := 1 },
    moves := [absMove e2e4, absMove d7d5, absMove exd5, absMove qxd5] }

/-- `reported_fen_is_standard` applied: what the board encodes after 1. e4 d5 2. exd5 Qxd5 is the FEN of the
reference game … -/
example : encode (p4.cur 0).pos (p4.board 0).turn (p4.cur 0).noprogress (p4.board 0).moves = gEx.fen := by
  have h := reported_fen_is_standard (z := exZ) rfl ex_p4
  have hg : gsnoc (gsnoc (gsnoc (gsnoc g0 (absMove e2e4)) (absMove d7d5)) (absMove exd5)) (absMove qxd5) = gEx := by
    decide +kernel
  rw [hg] at h
  exact h

/-- … and both sides evaluated: the capture has reset the clock, the two Black moves have advanced the move number;
after 1. e4 d5 the target square `d6` is written. -/
example :
    encode (p4.cur 0).pos (p4.board 0).turn (p4.cur 0).noprogress (p4.board 0).moves =
      "rnb1kbnr/ppp1pppp/8/3q4/8/8/PPPP1PPP/RNBQKBNR w KQkq - 0 3" ∧
    gEx.fen = "rnb1kbnr/ppp1pppp/8/3q4/8/8/PPPP1PPP/RNBQKBNR w KQkq - 0 3" ∧
    encode (p2.cur 0).pos (p2.board 0).turn (p2.cur 0).noprogress (p2.board 0).moves =
      "rnbqkbnr/ppp1pppp/8/3p4/4P3/8/PPPP1PPP/RNBQKBNR w KQkq d6 0 2" := by
  decide +kernel

/-- `encode_eq_printFen` on a position with an en-passant target (`exPos` of C14: `r3k2r/1P6/8/3pP3/8/8/8/R3K2R`, `KQkq`, `d6`). -/
example : encode Proofs.exPos .black 7 12 =
    Spec.printFen { pos := abs Proofs.exPos .black, halfmove := 7, fullmove := 12 } :=
  encode_eq_printFen Proofs.exPos .black 7 12 (by decide +kernel) (by decide +kernel) (by decide) (by decide)

/-- `Engine.Position` of the engine holding that world. -/
example : (EngineM.mk p4).position = gEx.fen := by
  have h := engine_position_is_standard' (z := exZ) rfl ex_p4
  have hg : gsnoc (gsnoc (gsnoc (gsnoc g0 (absMove e2e4)) (absMove d7d5)) (absMove exd5)) (absMove qxd5) = gEx := by
    decide +kernel
  rw [hg] at h
  exact h

end Example

end Morlock.Props.C14Print

section Axioms
open Morlock.Props.C14Print
#print axioms Morlock.Proofs.FenPrint.square_ne_none
#print axioms Morlock.Proofs.FenPrint.placement_eq
#print axioms Morlock.Proofs.FenPrint.castling_eq
#print axioms Morlock.Proofs.FenPrint.ep_eq
#print axioms Morlock.Proofs.FenPrint.itoa_toNat
#print axioms Morlock.Props.C14Print.encode_eq_printFen
#print axioms encode_eq_printFen_wf
#print axioms encode_eq_printFen_rep
#print axioms bounds_needed
#print axioms reported_fen_is_standard
#print axioms reported_fen_fields
#print axioms engine_position_is_standard
#print axioms engine_position_is_standard'
#print axioms ex_p4
end Axioms
