import Morlock.Props.C13
/-!
# C03 — at the full window the alpha-beta search returns exactly the negamax value, with a sound PV

Corollaries of C13 (`Morlock/Props/C13.lean`, which explains `V`, `lift`, `okN`, `leafGrade`, `Path`).
No table (`st.tt.slots.size = 0`), no cancellation (`st.cancelAt = none`), every abstract `Game`,
exploration, leaf evaluation and depth with `leafGrade le + d ≤ 127` (mate distances are `int8`).
-/
namespace Morlock.Props.C03
open Morlock Morlock.Model Morlock.Model.Score Morlock.Spec Morlock.Proofs.AB
open Morlock.Props.C09
variable {P : Type}

/-- **C03 (value).** Searched with the full window `(negInf, inf)`, `alphabeta` returns exactly the plain
    negamax value `V` of the position. -/
theorem exact (g : Game P) (ex : P → Explore) (le : LeafEval P) (rootPly : Int) (hev : EvalOk g)
    (d : Nat) (hd : leafGrade le + d ≤ 127)
    (p : P) (st : SState) (htt : st.tt.slots.size = 0) (hc : st.cancelAt = none) :
    (alphabeta g ex le rootPly d p negInfScore infScore st).1 = V g ex le rootPly d p := by
  have ha : okN (leafGrade le + d) negInfScore := okN_mono okN_negInf (by omega)
  have hb : okN (leafGrade le + d) infScore := okN_mono okN_inf (by omega)
  have hclip := C13.alphabeta_clip g ex le rootPly hev (leafGrade le) d (Nat.le_refl _) hd p
    negInfScore infScore st htt hc ha hb (by decide)
  obtain ⟨hr, _⟩ := C13.alphabeta_any_window g ex le rootPly hev (leafGrade le) d (Nat.le_refl _) hd p
    negInfScore infScore st htt hc ha hb
  have hv := C13.V_graded g ex le rootPly hev (leafGrade le) d (Nat.le_refl _) hd p
  rw [rank_negInf, rank_inf] at hclip
  have := clip_full (rankN_mono (okN_rankN hv) hd) (rankN_mono (okN_rankN hr) hd) hclip
  exact rank_injective _ _ hr.1 hv.1 this

/-- A path has at most `n` moves. -/
theorem path_length (g : Game P) (ex : P → Explore) : ∀ (n : Nat) (p : P) (pv : List Move),
    Path g ex n p pv → pv.length ≤ n := by
  intro n
  induction n with
  | zero => intro p pv h; cases pv with
    | nil => simp
    | cons m rest => simp [Path] at h
  | succ n ih => intro p pv h; cases pv with
    | nil => simp
    | cons m rest =>
      simp only [Path] at h
      obtain ⟨c, _, _, hc⟩ := h
      have := ih c rest hc
      simp only [List.length_cons]; omega

/-- **C03 (principal variation).** At the full window the returned PV
    (1) is a path: each move is an explored (`(ex p).pick`) legal (`g.push … = some _`) move from the position
        reached by the previous ones (`Path`), so in particular
    (2) it has at most `d` moves; and
    (3) if `d = d' + 1` and the PV is `m :: rest`, then `m` leads to a child `c` that attains the value:
        `lift (V … d' c) = V … (d' + 1) p`, and `rest` is a path from `c`. -/
theorem pv (g : Game P) (ex : P → Explore) (le : LeafEval P) (rootPly : Int) (hev : EvalOk g)
    (d : Nat) (hd : leafGrade le + d ≤ 127)
    (p : P) (st : SState) (htt : st.tt.slots.size = 0) (hc : st.cancelAt = none) :
    Path g ex d p (alphabeta g ex le rootPly d p negInfScore infScore st).2.1 ∧
    (alphabeta g ex le rootPly d p negInfScore infScore st).2.1.length ≤ d ∧
    ∀ d' m rest, d = d' + 1 → (alphabeta g ex le rootPly d p negInfScore infScore st).2.1 = m :: rest →
      ∃ c, g.push p m = some c ∧ (ex p).pick m = true ∧ Path g ex d' c rest ∧
        lift (V g ex le rootPly d' c) = V g ex le rootPly (d' + 1) p := by
  have ha : okN (leafGrade le + d) negInfScore := okN_mono okN_negInf (by omega)
  have hb : okN (leafGrade le + d) infScore := okN_mono okN_inf (by omega)
  obtain ⟨_, _, hpath, hprin, _⟩ := C13.alphabeta_any_window g ex le rootPly hev (leafGrade le) d
    (Nat.le_refl _) hd p negInfScore infScore st htt hc ha hb
  refine ⟨hpath, path_length g ex d p _ hpath, ?_⟩
  intro d' m rest hdd hpv
  subst hdd
  have hP := hprin (exact g ex le rootPly hev (d' + 1) hd p st htt hc)
  rw [hpv] at hP hpath
  simp only [Principal] at hP
  simp only [Path] at hpath
  obtain ⟨c, hpush, hpick, hval, _⟩ := hP
  obtain ⟨c', hpush', _, hrest⟩ := hpath
  rw [hpush] at hpush'
  cases hpush'
  exact ⟨c, hpush, hpick, hrest, hval⟩

/-- **C03 (the whole PV is principal).** At the full window every move of the returned PV — not only the
    first — attains the negamax value of the position it is played in (`Principal`, which implies `Path`). -/
theorem pv_principal (g : Game P) (ex : P → Explore) (le : LeafEval P) (rootPly : Int) (hev : EvalOk g)
    (d : Nat) (hd : leafGrade le + d ≤ 127)
    (p : P) (st : SState) (htt : st.tt.slots.size = 0) (hc : st.cancelAt = none) :
    Principal g ex le rootPly d p (alphabeta g ex le rootPly d p negInfScore infScore st).2.1 := by
  have ha : okN (leafGrade le + d) negInfScore := okN_mono okN_negInf (by omega)
  have hb : okN (leafGrade le + d) infScore := okN_mono okN_inf (by omega)
  exact (C13.alphabeta_any_window g ex le rootPly hev (leafGrade le) d (Nat.le_refl _) hd p
    negInfScore infScore st htt hc ha hb).2.2.2.1 (exact g ex le rootPly hev d hd p st htt hc)

/-- A principal variation is in particular a path. -/
theorem principal_path (g : Game P) (ex : P → Explore) (le : LeafEval P) (rootPly : Int) :
    ∀ (n : Nat) (p : P) (pv : List Move), Principal g ex le rootPly n p pv → Path g ex n p pv := by
  intro n
  induction n with
  | zero => intro p pv h; cases pv with
    | nil => simp [Path]
    | cons m rest => simp [Principal] at h
  | succ n ih => intro p pv h; cases pv with
    | nil => simp [Path]
    | cons m rest =>
      simp only [Principal] at h
      obtain ⟨c, h1, h2, _, h4⟩ := h
      exact ⟨c, h1, h2, ih c rest h4⟩

/-- **C03 (`AlphaBeta.Search`).** Started without a window in the search context (both bounds invalid, i.e.
    the full window), without table and cancellation, `alphaBetaSearch` reports the negamax value of the
    root (`rootPly = g.ply p`, the root is searched even if it is a drawn position) and the PV above. -/
theorem search_exact (g : Game P) (ex : P → Explore) (le : LeafEval P) (hev : EvalOk g)
    (d : Nat) (hd : leafGrade le + d ≤ 127)
    (p : P) (st : SState) (htt : st.tt.slots.size = 0) (hc : st.cancelAt = none) :
    ∃ n, (alphaBetaSearch g ex le p d invalidScore invalidScore st).1 =
      some ⟨n, V g ex le (g.ply p) d p,
        (alphabeta g ex le (g.ply p) d p negInfScore infScore { st with nodes := 0 }).2.1⟩ := by
  have ha : okN (leafGrade le + d) negInfScore := okN_mono okN_negInf (by omega)
  have hb : okN (leafGrade le + d) infScore := okN_mono okN_inf (by omega)
  obtain ⟨_, _, _, _, q1, q2⟩ := C13.alphabeta_any_window g ex le (g.ply p) hev (leafGrade le) d (Nat.le_refl _) hd p
    negInfScore infScore { st with nodes := 0 } htt hc ha hb
  have hp := poll_quiet' (st := (alphabeta g ex le (g.ply p) d p negInfScore infScore { st with nodes := 0 }).2.2)
    ⟨q1, q2⟩
  have hex := exact g ex le (g.ply p) hev d hd p { st with nodes := 0 } htt hc
  simp only [alphaBetaSearch, isInvalid, invalidScore, decide_true, if_true, hp, Bool.false_eq_true, if_false]
  rw [← hex]
  exact ⟨_, rfl⟩

/-- **C03 (the PV is not empty when it must not be).** No table hypotheses at all (no table, no cancellation).
    At a position that is the search root (`g.ply p = rootPly`) or not drawn, searched to depth `d + 1 ≥ 1` with
    the full window: if some move is legal and the negamax value is not `negInf` (i.e. some explored legal move
    is better than being mated at once), the returned PV is non-empty - so its head is a best move (`pv`). -/
theorem pv_nonempty (g : Game P) (ex : P → Explore) (le : LeafEval P) (rootPly : Int) (hev : EvalOk g)
    (d : Nat) (hd : leafGrade le + (d + 1) ≤ 127)
    (p : P) (st : SState) (htt : st.tt.slots.size = 0) (hc : st.cancelAt = none)
    (hroot : g.ply p = rootPly ∨ g.isDraw p = false)
    (hl : legalAny g p (g.moves p) = true) (hV : V g ex le rootPly (d + 1) p ≠ negInfScore) :
    (alphabeta g ex le rootPly (d + 1) p negInfScore infScore st).2.1 ≠ [] := by
  intro hnil
  have ha : okN (leafGrade le + d + 1) negInfScore := okN_mono okN_negInf (by omega)
  have hb : okN (leafGrade le + d + 1) infScore := okN_mono okN_inf (by omega)
  have hdraw : (!(g.ply p == rootPly) && g.isDraw p) = false := by
    rcases hroot with h | h <;> simp [h]
  have h7 := (alphabeta_succ_spec hev ex le rootPly (leafGrade le) (Nat.le_refl _) d (by omega)
    (alphabeta_recOK hev ex le rootPly (leafGrade le) (Nat.le_refl _) d (by omega)) p negInfScore infScore st
    ⟨htt, hc⟩ ha hb _ rfl).2.2.2.2.2.2 hdraw hl hnil
  rw [exact g ex le rootPly hev (d + 1) hd p st htt hc] at h7
  exact hV h7

/-- `pv_nonempty` for `AlphaBeta.Search`: the reported PV is non-empty for `d ≥ 1` if a move is legal at the root
    and the value is not `negInf`. -/
theorem search_pv_nonempty (g : Game P) (ex : P → Explore) (le : LeafEval P) (hev : EvalOk g)
    (d : Nat) (hd : leafGrade le + (d + 1) ≤ 127)
    (p : P) (st : SState) (htt : st.tt.slots.size = 0) (hc : st.cancelAt = none)
    (hl : legalAny g p (g.moves p) = true) (hV : V g ex le (g.ply p) (d + 1) p ≠ negInfScore) :
    ∃ n m rest, (alphaBetaSearch g ex le p (d + 1) invalidScore invalidScore st).1 =
      some ⟨n, V g ex le (g.ply p) (d + 1) p, m :: rest⟩ := by
  obtain ⟨n, hn⟩ := search_exact g ex le hev (d + 1) hd p st htt hc
  have hne := pv_nonempty g ex le (g.ply p) hev d hd p { st with nodes := 0 } htt hc (Or.inl rfl) hl hV
  cases hpv : (alphabeta g ex le (g.ply p) (d + 1) p negInfScore infScore { st with nodes := 0 }).2.1 with
  | nil => exact absurd hpv hne
  | cons m rest => rw [hpv] at hn; exact ⟨n, m, rest, hn⟩

/-! ## Non-vacuity on the tiny game of C13 -/

open C13 in
example : (alphabeta tiny allMoves .static 0 2 0 negInfScore infScore {}).1 = V tiny allMoves .static 0 2 0 :=
  exact tiny allMoves .static 0 tiny_evalOk 2 (by decide) 0 {} rfl rfl

open C13 in
example : (alphabeta tiny allMoves .static 0 2 0 negInfScore infScore {}).1 = heuristicScore 15 ∧
    (alphabeta tiny allMoves .static 0 2 0 negInfScore infScore {}).2.1 = [mv 1, mv 0] ∧
    tiny.push 0 (mv 1) = some 2 ∧ lift (V tiny allMoves .static 0 1 2) = V tiny allMoves .static 0 2 0 ∧
    (alphabeta tiny allMoves (.quiescence allMoves 3) 0 3 0 negInfScore infScore {}).1 =
      V tiny allMoves (.quiescence allMoves 3) 0 3 0 := by decide

open C13 in
example : Principal tiny allMoves .static 0 2 0 [mv 1, mv 0] := by
  have := pv_principal tiny allMoves .static 0 tiny_evalOk 2 (by decide) 0 {} rfl rfl
  have e : (alphabeta tiny allMoves .static 0 2 0 negInfScore infScore {}).2.1 = [mv 1, mv 0] := by decide
  rw [e] at this; exact this

-- `pv` and `search_exact` on the tiny game
open C13 in
example : Path tiny allMoves 2 0 (alphabeta tiny allMoves .static 0 2 0 negInfScore infScore {}).2.1 ∧
    (alphabeta tiny allMoves .static 0 2 0 negInfScore infScore {}).2.1.length ≤ 2 :=
  ⟨(pv tiny allMoves .static 0 tiny_evalOk 2 (by decide) 0 {} rfl rfl).1,
   (pv tiny allMoves .static 0 tiny_evalOk 2 (by decide) 0 {} rfl rfl).2.1⟩

open C13 in
example : ∃ n, (alphaBetaSearch tiny allMoves .static 0 2 invalidScore invalidScore {}).1 =
    some ⟨n, V tiny allMoves .static (tiny.ply 0) 2 0,
      (alphabeta tiny allMoves .static (tiny.ply 0) 2 0 negInfScore infScore { ({} : SState) with nodes := 0 }).2.1⟩ :=
  search_exact tiny allMoves .static tiny_evalOk 2 (by decide) 0 {} rfl rfl

open C13 in
example : (alphabeta tiny allMoves .static 0 2 0 negInfScore infScore {}).2.1 ≠ [] :=
  pv_nonempty tiny allMoves .static 0 tiny_evalOk 1 (by decide) 0 {} rfl rfl (Or.inl rfl) (by decide) (by decide)

/-! ## Non-vacuity on the chess game

`gX = materialGame exZ`, `wE` = `r3k2r/1P6/8/3pP3/8/8/8/R3K2R w KQkq d6` as a new board, `capX` = captures only
(`Morlock/Proofs/ABChessTree.lean`); `EvalOk gX` is `materialGame_evalOk`. No table, no cancellation; there are no
further hypotheses. Depth 3 with quiescence leaves of fuel 64 is the driver's configuration `full-quiet`. -/

section Chess

example : (alphabeta gX fullX (.quiescence capX 64) 1 3 wE negInfScore infScore {}).1 =
    V gX fullX (.quiescence capX 64) 1 3 wE :=
  exact gX fullX (.quiescence capX 64) 1 gX_evalOk 3 (by decide) wE {} rfl rfl

example : Principal gX fullX (.quiescence capX 64) 1 3 wE
      (alphabeta gX fullX (.quiescence capX 64) 1 3 wE negInfScore infScore {}).2.1 ∧
    (alphabeta gX fullX (.quiescence capX 64) 1 3 wE negInfScore infScore {}).2.1.length ≤ 3 :=
  ⟨pv_principal gX fullX (.quiescence capX 64) 1 gX_evalOk 3 (by decide) wE {} rfl rfl,
   (pv gX fullX (.quiescence capX 64) 1 gX_evalOk 3 (by decide) wE {} rfl rfl).2.1⟩

example : ∃ n, (alphaBetaSearch gX fullX (.quiescence capX 64) wE 3 invalidScore invalidScore {}).1 =
    some ⟨n, V gX fullX (.quiescence capX 64) (gX.ply wE) 3 wE,
      (alphabeta gX fullX (.quiescence capX 64) (gX.ply wE) 3 wE negInfScore infScore
        { ({} : SState) with nodes := 0 }).2.1⟩ :=
  search_exact gX fullX (.quiescence capX 64) gX_evalOk 3 (by decide) wE {} rfl rfl

set_option maxRecDepth 100000 in
/-- `pv_nonempty` / `search_pv_nonempty`: `wE` has a legal move and its depth-1 value is `+14`, not `negInf`. -/
example : (alphabeta gX fullX .static 1 1 wE negInfScore infScore {}).2.1 ≠ [] ∧
    ∃ n m rest, (alphaBetaSearch gX fullX .static wE 1 invalidScore invalidScore {}).1 =
      some ⟨n, V gX fullX .static (gX.ply wE) 1 wE, m :: rest⟩ :=
  ⟨pv_nonempty gX fullX .static 1 gX_evalOk 0 (by decide) wE {} rfl rfl (Or.inl wE_ply) wE_legal
      (by decide +kernel),
   search_pv_nonempty gX fullX .static gX_evalOk 0 (by decide) wE {} rfl rfl wE_legal (by decide +kernel)⟩

end Chess

end Morlock.Props.C03
