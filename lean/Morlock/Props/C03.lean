import Morlock.Props.C13
/-!
# C03 — at the full window the alpha-beta search returns exactly the negamax value, with a sound PV

Corollaries of C13 (`Morlock/Props/C13.lean`, which explains `V`, `lift`, `okN`, `leafGrade`, `Path`).
No table (`st.tt.slots.size = 0`), no cancellation (`st.cancelAt = none`), every abstract `Game`,
exploration, leaf evaluation and depth with `leafGrade le + d ≤ 127` (mate distances are `int8`).
-/
namespace Morlock.Props.C03
open Morlock Morlock.Model Morlock.Model.Score Morlock.Spec Morlock.Proofs.AB
open Morlock.Props.C09
variable {P : Type}

/-- **C03 (value).** Searched with the full window `(negInf, inf)`, `alphabeta` returns exactly the plain
    negamax value `V` of the position. -/
theorem exact (g : Game P) (ex : Explore) (le : LeafEval) (rootPly : Int) (hev : EvalOk g)
    (d : Nat) (hd : leafGrade le + d ≤ 127)
    (p : P) (st : SState) (htt : st.tt.slots.size = 0) (hc : st.cancelAt = none) :
    (alphabeta g ex le rootPly d p negInfScore infScore st).1 = V g ex le rootPly d p := by
  have ha : okN (leafGrade le + d) negInfScore := okN_mono okN_negInf (by omega)
  have hb : okN (leafGrade le + d) infScore := okN_mono okN_inf (by omega)
  have hclip := C13.alphabeta_clip g ex le rootPly hev (leafGrade le) d (Nat.le_refl _) hd p
    negInfScore infScore st htt hc ha hb (by decide)
  obtain ⟨hr, _⟩ := C13.alphabeta_any_window g ex le rootPly hev (leafGrade le) d (Nat.le_refl _) hd p
    negInfScore infScore st htt hc ha hb
  have hv := C13.V_graded g ex le rootPly hev (leafGrade le) d (Nat.le_refl _) hd p
  rw [rank_negInf, rank_inf] at hclip
  have := clip_full (rankN_mono (okN_rankN hv) hd) (rankN_mono (okN_rankN hr) hd) hclip
  exact rank_injective _ _ hr.1 hv.1 this

/-- A path has at most `n` moves. -/
theorem path_length (g : Game P) (ex : Explore) : ∀ (n : Nat) (p : P) (pv : List Move),
    Path g ex n p pv → pv.length ≤ n := by
  intro n
  induction n with
  | zero => intro p pv h; cases pv with
    | nil => simp
    | cons m rest => simp [Path] at h
  | succ n ih => intro p pv h; cases pv with
    | nil => simp
    | cons m rest =>
      simp only [Path] at h
      obtain ⟨c, _, _, hc⟩ := h
      have := ih c rest hc
      simp only [List.length_cons]; omega

/-- **C03 (principal variation).** At the full window the returned PV
    (1) is a path: each move is an explored (`ex.pick`) legal (`g.push … = some _`) move from the position
        reached by the previous ones (`Path`), so in particular
    (2) it has at most `d` moves; and
    (3) if `d = d' + 1` and the PV is `m :: rest`, then `m` leads to a child `c` that attains the value:
        `lift (V … d' c) = V … (d' + 1) p`, and `rest` is a path from `c`. -/
theorem pv (g : Game P) (ex : Explore) (le : LeafEval) (rootPly : Int) (hev : EvalOk g)
    (d : Nat) (hd : leafGrade le + d ≤ 127)
    (p : P) (st : SState) (htt : st.tt.slots.size = 0) (hc : st.cancelAt = none) :
    Path g ex d p (alphabeta g ex le rootPly d p negInfScore infScore st).2.1 ∧
    (alphabeta g ex le rootPly d p negInfScore infScore st).2.1.length ≤ d ∧
    ∀ d' m rest, d = d' + 1 → (alphabeta g ex le rootPly d p negInfScore infScore st).2.1 = m :: rest →
      ∃ c, g.push p m = some c ∧ ex.pick m = true ∧ Path g ex d' c rest ∧
        lift (V g ex le rootPly d' c) = V g ex le rootPly (d' + 1) p := by
  have ha : okN (leafGrade le + d) negInfScore := okN_mono okN_negInf (by omega)
  have hb : okN (leafGrade le + d) infScore := okN_mono okN_inf (by omega)
  obtain ⟨_, _, hpath, hprin, _⟩ := C13.alphabeta_any_window g ex le rootPly hev (leafGrade le) d
    (Nat.le_refl _) hd p negInfScore infScore st htt hc ha hb
  refine ⟨hpath, path_length g ex d p _ hpath, ?_⟩
  intro d' m rest hdd hpv
  subst hdd
  have hP := hprin (exact g ex le rootPly hev (d' + 1) hd p st htt hc)
  rw [hpv] at hP hpath
  simp only [Principal] at hP
  simp only [Path] at hpath
  obtain ⟨c, hpush, hpick, hval, _⟩ := hP
  obtain ⟨c', hpush', _, hrest⟩ := hpath
  rw [hpush] at hpush'
  cases hpush'
  exact ⟨c, hpush, hpick, hrest, hval⟩

/-- **C03 (the whole PV is principal).** At the full window every move of the returned PV — not only the
    first — attains the negamax value of the position it is played in (`Principal`, which implies `Path`). -/
theorem pv_principal (g : Game P) (ex : Explore) (le : LeafEval) (rootPly : Int) (hev : EvalOk g)
    (d : Nat) (hd : leafGrade le + d ≤ 127)
    (p : P) (st : SState) (htt : st.tt.slots.size = 0) (hc : st.cancelAt = none) :
    Principal g ex le rootPly d p (alphabeta g ex le rootPly d p negInfScore infScore st).2.1 := by
  have ha : okN (leafGrade le + d) negInfScore := okN_mono okN_negInf (by omega)
  have hb : okN (leafGrade le + d) infScore := okN_mono okN_inf (by omega)
  exact (C13.alphabeta_any_window g ex le rootPly hev (leafGrade le) d (Nat.le_refl _) hd p
    negInfScore infScore st htt hc ha hb).2.2.2.1 (exact g ex le rootPly hev d hd p st htt hc)

/-- A principal variation is in particular a path. -/
theorem principal_path (g : Game P) (ex : Explore) (le : LeafEval) (rootPly : Int) :
    ∀ (n : Nat) (p : P) (pv : List Move), Principal g ex le rootPly n p pv → Path g ex n p pv := by
  intro n
  induction n with
  | zero => intro p pv h; cases pv with
    | nil => simp [Path]
    | cons m rest => simp [Principal] at h
  | succ n ih => intro p pv h; cases pv with
    | nil => simp [Path]
    | cons m rest =>
      simp only [Principal] at h
      obtain ⟨c, h1, h2, _, h4⟩ := h
      exact ⟨c, h1, h2, ih c rest h4⟩

/-- **C03 (`AlphaBeta.Search`).** Started without a window in the search context (both bounds invalid, i.e.
    the full window), without table and cancellation, `alphaBetaSearch` reports the negamax value of the
    root (`rootPly = g.ply p`, the root is searched even if it is a drawn position) and the PV above. -/
theorem search_exact (g : Game P) (ex : Explore) (le : LeafEval) (hev : EvalOk g)
    (d : Nat) (hd : leafGrade le + d ≤ 127)
    (p : P) (st : SState) (htt : st.tt.slots.size = 0) (hc : st.cancelAt = none) :
    ∃ n, (alphaBetaSearch g ex le p d invalidScore invalidScore st).1 =
      some ⟨n, V g ex le (g.ply p) d p,
        (alphabeta g ex le (g.ply p) d p negInfScore infScore { st with nodes := 0 }).2.1⟩ := by
  have ha : okN (leafGrade le + d) negInfScore := okN_mono okN_negInf (by omega)
  have hb : okN (leafGrade le + d) infScore := okN_mono okN_inf (by omega)
  obtain ⟨_, _, _, _, q1, q2⟩ := C13.alphabeta_any_window g ex le (g.ply p) hev (leafGrade le) d (Nat.le_refl _) hd p
    negInfScore infScore { st with nodes := 0 } htt hc ha hb
  have hp := poll_quiet' (st := (alphabeta g ex le (g.ply p) d p negInfScore infScore { st with nodes := 0 }).2.2)
    ⟨q1, q2⟩
  have hex := exact g ex le (g.ply p) hev d hd p { st with nodes := 0 } htt hc
  simp only [alphaBetaSearch, isInvalid, invalidScore, decide_true, if_true, hp, Bool.false_eq_true, if_false]
  rw [← hex]
  exact ⟨_, rfl⟩

/-! ## Non-vacuity on the tiny game of C13 -/

open C13 in
example : (alphabeta tiny allMoves .static 0 2 0 negInfScore infScore {}).1 = V tiny allMoves .static 0 2 0 :=
  exact tiny allMoves .static 0 tiny_evalOk 2 (by decide) 0 {} rfl rfl

open C13 in
example : (alphabeta tiny allMoves .static 0 2 0 negInfScore infScore {}).1 = heuristicScore 15 ∧
    (alphabeta tiny allMoves .static 0 2 0 negInfScore infScore {}).2.1 = [mv 1, mv 0] ∧
    tiny.push 0 (mv 1) = some 2 ∧ lift (V tiny allMoves .static 0 1 2) = V tiny allMoves .static 0 2 0 ∧
    (alphabeta tiny allMoves (.quiescence allMoves 3) 0 3 0 negInfScore infScore {}).1 =
      V tiny allMoves (.quiescence allMoves 3) 0 3 0 := by decide

open C13 in
example : Principal tiny allMoves .static 0 2 0 [mv 1, mv 0] := by
  have := pv_principal tiny allMoves .static 0 tiny_evalOk 2 (by decide) 0 {} rfl rfl
  have e : (alphabeta tiny allMoves .static 0 2 0 negInfScore infScore {}).2.1 = [mv 1, mv 0] := by decide
  rw [e] at this; exact this

end Morlock.Props.C03
