import Morlock.Props.C01
namespace Morlock.Props.C01Describe
open Morlock Morlock.Model Morlock.Proofs Morlock.Proofs.Gen

def absClass : MoveType → Option Spec.MoveClass
  | .normal => some .normal | .push => some .push | .jump => some .jump | .enPassant => some .enPassant
  | .queenSideCastle => some .queenSideCastle | .kingSideCastle => some .kingSideCastle
  | .capture => some .capture | .promotion => some .promotion | .capturePromotion => some .capturePromotion
  | .invalid => none

theorem classOK_parts {s : Spec.Pos} {m : Move} (h : ClassOK s m = true) :
    Spec.isEnPassant s (absMove m) = (m.ty == .enPassant) ∧
    Spec.isCastle s (absMove m) = m.isCastle ∧
    Spec.isDoubleStep s (absMove m) = (m.ty == .jump) ∧
    m.isPromotion = (m.promotion != .none) := by
  unfold ClassOK at h
  simp only [Bool.and_eq_true, beq_iff_eq] at h
  obtain ⟨⟨⟨⟨⟨⟨h1, h2⟩, h3⟩, h4⟩, _⟩, _⟩, _⟩ := h
  exact ⟨h1, h2, h3, h4⟩

theorem describe_eq {p : Position} {b : Board} (h : Rep p b) (turn : Color) {pc : Piece} {m : Move}
    (hfrom : b m.from = some (turn, pc)) (hcl : ClassOK (abs p turn) m = true) :
    Spec.describe (abs p turn) (absMove m) =
      some ((if m.isCastle then (if Spec.fileOf m.to = Spec.fG then .kingSideCastle else .queenSideCastle)
            else if m.ty = .enPassant then .enPassant
            else if m.promotion ≠ .none then (if (b m.to).isSome then .capturePromotion else .promotion)
            else if (b m.to).isSome then .capture
            else if pc = .pawn then (if m.ty = .jump then .jump else .push) else .normal),
            kindOf pc, (absCellB (b m.to)).map (·.2)) := by
  have hne : pc ≠ .none := h.ne_none_of_some hfrom
  have hat : (abs p turn).at (absMove m).from = some (absColor turn, kindOf pc) :=
    (h.abs_at_iff turn m.from turn (kindOf pc)).mpr (by rw [kindPiece_kindOf hne]; exact hfrom)
  obtain ⟨h1, h2, h3, h4⟩ := classOK_parts hcl
  unfold Spec.describe
  rw [hat]
  simp only [h1, h2, h3]
  have hto : (abs p turn).at (absMove m).to = absCellB (b m.to) := h.abs_at turn m.to
  rw [hto]
  have hpromo : (absKind m.promotion).isSome = (m.promotion != .none) := by
    cases m.promotion <;> rfl
  have hcapt : ((absCellB (b m.to)).map (·.2)).isSome = (b m.to).isSome := by
    cases hb : b m.to with
    | none => rfl
    | some x => obtain ⟨c, k⟩ := x; rw [absCellB_some _ (h.ne_none_of_some hb)]; rfl
  have hpw : (kindOf pc = Spec.Kind.pawn) ↔ pc = .pawn := by
    cases pc <;> simp [kindOf] at hne ⊢
  simp only [absMove, hpromo, hcapt, hpw]
  congr 1
  congr 1
  by_cases c1 : m.isCastle = true
  · simp only [c1, if_true]
    by_cases hf : Spec.fileOf m.to = Spec.fG <;> simp [hf]
  · have c1' : m.isCastle = false := by simpa using c1
    by_cases c2 : m.ty = .enPassant
    · simp [c1', c2]
    · by_cases c3 : m.promotion = .none
      · by_cases c4 : (b m.to).isSome = true
        · simp [c1', c2, c3, c4]
        · have c4' : (b m.to).isSome = false := by simpa using c4
          by_cases c5 : pc = .pawn
          · by_cases c6 : m.ty = .jump <;> simp [c1', c2, c3, c4', c5, c6]
          · simp [c1', c2, c3, c4', c5]
      · by_cases c4 : (b m.to).isSome = true <;> simp [c1', c2, c3, c4]


theorem capt_none {b : Board} {sq : Nat} (hb : b sq = none) : (absCellB (b sq)).map (·.2) = absKind Piece.none := by
  rw [hb]; rfl

theorem capt_some {p : Position} {b : Board} (h : Rep p b) {sq : Nat} {c : Color} {k : Piece} (hb : b sq = some (c, k)) :
    (absCellB (b sq)).map (·.2) = absKind k := by
  have hk := h.ne_none_of_some hb
  rw [hb, absCellB_some _ hk, absKind_of_ne hk]; rfl

theorem step_describe {p : Position} {b : Board} (h : Rep p b) {turn : Color} {pc : Piece} {m : Move}
    (hpw : pc ≠ .pawn) (hm : StepMove b turn pc m) :
    ∃ c, absClass m.ty = some c ∧
      Spec.describe (abs p turn) (absMove m) = some (c, kindOf m.piece, absKind m.capture) := by
  have hcl := hm.classOK h hpw
  obtain ⟨hsq, hpc, hpr, _, hd⟩ := hm
  rw [describe_eq h turn hsq hcl, hpc]
  rcases hd with ⟨hb, hty, hcap⟩ | ⟨k, hb, hty, hcap⟩
  · refine ⟨.normal, by rw [hty]; rfl, ?_⟩
    rw [capt_none hb, hcap]
    simp [Move.isCastle, hty, hpr, hb, hpw]
  · refine ⟨.capture, by rw [hty]; rfl, ?_⟩
    rw [capt_some h hb, hcap]
    simp [Move.isCastle, hty, hpr, hb]


theorem pawn_describe {p : Position} {b : Board} (h : Rep p b) {turn : Color}
    (hw : WFb b p.castling p.enpassant turn) {m : Move} (hm : PawnMove b p.enpassant turn m) :
    ∃ c, absClass m.ty = some c ∧
      Spec.describe (abs p turn) (absMove m) = some (c, kindOf m.piece, absKind m.capture) := by
  have hcl := hm.classOK h hw
  obtain ⟨hsq, hpc, hk⟩ := hm
  rw [describe_eq h turn hsq hcl, hpc]
  rcases hk with ⟨_, hb, hcap, hr⟩ | ⟨t1, _, _, _, _, hb, hty, hpr, hcap⟩ |
    ⟨_, k, hb, hcap, hr⟩ | ⟨he, hto, _, hown, hty, hpr, hcap⟩
  · rcases hr with ⟨_, hty, hpr⟩ | ⟨_, hty, hpr⟩
    · refine ⟨.push, by rw [hty]; rfl, ?_⟩
      rw [capt_none hb, hcap]
      simp [Move.isCastle, hty, hpr, hb]
    · refine ⟨.promotion, by rw [hty]; rfl, ?_⟩
      rw [capt_none hb, hcap]
      simp [Move.isCastle, hty, ne_none_of_mem_promoPieces hpr, hb]
  · refine ⟨.jump, by rw [hty]; rfl, ?_⟩
    rw [capt_none hb, hcap]
    simp [Move.isCastle, hty, hpr, hb]
  · rcases hr with ⟨_, hty, hpr⟩ | ⟨_, hty, hpr⟩
    · refine ⟨.capture, by rw [hty]; rfl, ?_⟩
      rw [capt_some h hb, hcap]
      simp [Move.isCastle, hty, hpr, hb]
    · refine ⟨.capturePromotion, by rw [hty]; rfl, ?_⟩
      rw [capt_some h hb, hcap]
      simp [Move.isCastle, hty, ne_none_of_mem_promoPieces hpr, hb]
  · have hb : b m.to = none := by rw [hto]; exact (hw.ep_ok he).2.1
    refine ⟨.enPassant, by rw [hty]; rfl, ?_⟩
    rw [capt_none hb, hcap]
    simp [Move.isCastle, hty]

theorem castle_describe {p : Position} {b : Board} (h : Rep p b) {turn t : Color}
    (hw : WFb b p.castling p.enpassant t) {m : Move} (hm : CastleMove b p.castling turn m)
    (hfr : m.from = kingHomeSq turn) :
    ∃ c, absClass m.ty = some c ∧
      Spec.describe (abs p turn) (absMove m) = some (c, kindOf m.piece, absKind m.capture) := by
  have hcl := hm.classOK h hw hfr
  have hk : b m.from = some (turn, .king) := by rw [hfr]; exact hm.kingHome hw
  obtain ⟨cs, hcs, _, hempty, _, hty, hpc, hto, hpr, hcap⟩ := hm
  rw [describe_eq h turn hk hcl, hpc]
  have hb : b m.to = none := by
    apply hempty
    cases turn <;> simp only [castleParams, List.mem_cons, List.not_mem_nil, or_false] at hcs <;>
      rcases hcs with rfl | rfl <;> rw [hto] <;> decide
  rw [capt_none hb, hcap]
  cases turn <;> simp only [castleParams, List.mem_cons, List.not_mem_nil, or_false] at hcs <;>
    rcases hcs with rfl | rfl <;> simp only at hty hto
  · exact ⟨.kingSideCastle, by rw [hty]; rfl, by simp [Move.isCastle, hty, hto, Spec.fileOf, Spec.fG, G1]⟩
  · exact ⟨.queenSideCastle, by rw [hty]; rfl, by simp [Move.isCastle, hty, hto, Spec.fileOf, Spec.fG, C1]⟩
  · exact ⟨.kingSideCastle, by rw [hty]; rfl, by simp [Move.isCastle, hty, hto, Spec.fileOf, Spec.fG, G8]⟩
  · exact ⟨.queenSideCastle, by rw [hty]; rfl, by simp [Move.isCastle, hty, hto, Spec.fileOf, Spec.fG, C8]⟩

/-- **The reported kind, moving piece and captured piece are what the reference `Spec.describe` says.** -/
theorem pseudo_describe {p : Position} {turn : Color} (hw : WF p turn) :
    ∀ m ∈ p.pseudoLegalMoves turn, ∃ c, absClass m.ty = some c ∧
      Spec.describe (abs p turn) (absMove m) = some (c, kindOf m.piece, absKind m.capture) := by
  intro m hm
  have hp := (mem_pseudoLegalMoves hw.rep hw.wfb m).mp hm
  rcases hp with ⟨pc, hpc, hs⟩ | hp | hs | ⟨hf, hc⟩
  · have hpw : pc ≠ .pawn := by
      rcases (mem_promoPieces pc).mp hpc with rfl | rfl | rfl | rfl <;> simp
    exact step_describe hw.rep hpw hs
  · exact pawn_describe hw.rep hw.wfb hp
  · exact step_describe hw.rep (by simp) hs
  · exact castle_describe hw.rep hw.wfb hc hf

end Morlock.Props.C01Describe
