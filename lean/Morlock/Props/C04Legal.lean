import Morlock.Proofs.UciLegal
import Morlock.Props.C01
import Morlock.Props.C13Engines
import Morlock.Props.C20Bernstein
import Morlock.Proofs.DetState
import Morlock.Driver.Uci
/-!
# C04 (second half) — the move printed as `bestmove` is a legal move; `0000` only without legal moves

`searchCompleted` (`pkg/engine/uci/uci.go`) prints `bestmove <pv.Moves[0]>`, or `bestmove 0000` when the PV is empty; the
PV is the one `AlphaBeta.Search` returned for the last completed iteration (iterative deepening starts at depth 1;
`Halt` returns a completed iteration, C15).

**Where the models say what is printed.** The small-step models (`Model/UciConc`, `Model/IterConc`) abstract a PV to a
number (the depth completed, `0` = the empty `search.PV{}`): `Line.bestmove id pv`. The move itself exists in the search
model (`Model.alphaBetaSearch`, `SearchResult.pv`) and in the sequential driver model `Driver.uciGoDepth`
(`best := match sr.pv with | m :: _ => moveUci m | [] => "0000"`), which the `ucidet` stream ties to the real driver. The
theorems below are about these two; the last section says what they mean for `bestmove id d` of the small-step model.

**What is proved** (`Proofs/UciLegal.lean` has the game-independent part). For the chess game on the model board
(`boardGameW z evw`, of which `boardGame z ev`, `materialGame z`, `bernsteinGame`, `turochampGame` are instances), every
exploration, every leaf evaluation, every depth, every window, and **every search state** — any transposition table
(sound or not, whatever an earlier iteration or an earlier `go` left in it) and any cancellation point:

* `bestmove_legal`: if `AlphaBeta.Search` returns a result whose PV is `m :: _`, then `m` is a legal move of the root
  position (`m ∈ pos.legalMoves turn`), `PushMove` accepts it, and the exploration picked it;
  `bestmove_legal_spec`: through `C01.legal_perm` it is a legal move of the reference rules.
* `null_only_without_moves`: at depth `≥ 1` with the full window (no lower bound), on a board that has not been
  adjudicated lost/stalemate (`Open`), the PV is empty **iff** the exploration picks no legal move; so with an
  exploration that keeps a legal move whenever there is one — the full exploration (`morlock`, `turochamp`), SARGON's
  `SkipUnderPromotions`, BERNSTEIN's plausible-move table — `0000` is printed iff the position has no legal move
  (`null_iff_full`, `null_iff_skipUnderPromotions`, `null_iff_bernstein`).
  There is no side condition on the value: `C03.pv_nonempty` asks for `V ≠ -inf`, but `IncrementMateDistance(s).Negate()`
  is never `-inf` (`UciLegal.lift_ty`), so also when every move runs into mate the first explored move raises `alpha`.
* `null_with_legal_moves_model`: the hypothesis on the exploration is needed: `AlphaBeta{Explore: captures only}` returns
  an empty PV in a position with four legal moves. No bundled engine is configured like that.
* `uciGoDepth_bestmove`, `position_then_go` (sequential driver model, `go depth n`, `n ≥ 1`, any table contents): the text
  answered is `moveUci m` for a legal move `m` of the engine's current position, or `0000`, and it is `0000` iff the
  position has no legal move (`moveUci_ne_null`: no move prints as `0000`). The board of the engine is `Open` from the
  start and under every `position` command (`initial_open`, `uciPosition_open`).
* Scope: the window of the UCI path is `Alpha: NegInf, Beta: Inf` (`searchctl/iterative.go`), covered by `NoLowerBound`;
  with a real lower bound an empty PV on fail-low is possible and is not claimed. `sctx.Ponder` (which replaces the
  exploration by "equals the ponder move") is not in `Model.alphabeta`; only `console.go` sets it, the UCI driver never.
* C03 adds what the move is worth (`C03.pv`: it attains the negamax value) under its own hypotheses (no table, no
  cancellation, depth ≤ 127); restated here for the chess game as `bestmove_principal`.
-/
namespace Morlock.Props.C04Legal
open Morlock Morlock.Model Morlock.Model.Score Morlock.Spec Morlock.Proofs.AB Morlock.Proofs.UciLegal
open Morlock.Proofs Morlock.Proofs.Gen

/-! ## `PushMove` and the legal moves -/

/-- The board has not been adjudicated checkmate/stalemate (`PushMove` refuses every move then). The engine never
    adjudicates its own board (`newBoard_open`, `pushMove_open`); the searches adjudicate the *fork* they are given,
    and only when it has no legal move. -/
def Open (w : World) : Prop :=
  (w.board 0).result.reason ≠ .checkmate ∧ (w.board 0).result.reason ≠ .stalemate

theorem pushMove_isSome_iff (w : World) (z : ZTable) (m : Move) :
    (w.pushMove z 0 m).isSome = true ↔ Open w ∧ ((w.cur 0).pos.move m).isSome = true := by
  unfold Open
  by_cases h1 : (w.board 0).result.reason = .checkmate
  · simp [World.pushMove, h1]
  · by_cases h2 : (w.board 0).result.reason = .stalemate
    · simp [World.pushMove, h2]
    · cases hm : (w.cur 0).pos.move m <;> simp [World.pushMove, h1, h2, hm]

/-- A generated move that `PushMove` accepts is a legal move, and conversely on an open board. -/
theorem accepted_iff_legal (w : World) (z : ZTable) (m : Move) :
    (m ∈ (w.cur 0).pos.pseudoLegalMoves (w.board 0).turn ∧ (w.pushMove z 0 m).isSome = true) ↔
      (Open w ∧ m ∈ (w.cur 0).pos.legalMoves (w.board 0).turn) := by
  rw [pushMove_isSome_iff, C01.legal_iff]
  constructor
  · rintro ⟨a, b, c⟩; exact ⟨b, a, c⟩
  · rintro ⟨b, a, c⟩; exact ⟨a, b, c⟩

theorem playable_iff (z : ZTable) (evw : World → Int) (ex : World → Explore) (w : World) (m : Move) :
    (m ∈ (boardGameW z evw).moves w ∧ Playable (boardGameW z evw) ex w m) ↔
      (Open w ∧ m ∈ (w.cur 0).pos.legalMoves (w.board 0).turn ∧ (ex w).pick m = true) := by
  have key := accepted_iff_legal w z m
  constructor
  · rintro ⟨hm, c, hc, hp⟩
    have := key.1 ⟨hm, by show (w.pushMove z 0 m).isSome = true; rw [show w.pushMove z 0 m = some c from hc]; rfl⟩
    exact ⟨this.1, this.2, hp⟩
  · rintro ⟨ho, hl, hp⟩
    obtain ⟨hm, hs⟩ := key.2 ⟨ho, hl⟩
    obtain ⟨c, hc⟩ := Option.isSome_iff_exists.1 hs
    exact ⟨hm, c, hc, hp⟩

/-! ## 1. The first move of the PV is legal -/

/-- **bestmove_legal.** Whatever the table contains, wherever the search is cancelled, whatever window and depth:
    when `AlphaBeta.Search` returns a result (not `ErrHalted`) with PV `m :: rest`, `m` is a legal move of the root
    position, `PushMove` accepts it, and the exploration of the root picked it. -/
theorem bestmove_legal (z : ZTable) (evw : World → Int) (ex : World → Explore) (le : LeafEval World) (w : World)
    (d : Nat) (a b : Score) (st st' : SState) (r : SearchResult)
    (h : alphaBetaSearch (boardGameW z evw) ex le w d a b st = (some r, st')) (m : Move) (rest : List Move)
    (hpv : r.pv = m :: rest) :
    m ∈ (w.cur 0).pos.legalMoves (w.board 0).turn ∧ (∃ w', w.pushMove z 0 m = some w') ∧ (ex w).pick m = true := by
  have h1 := (alphaBetaSearch_pv _ ex le w d a b st st' r h).1 m rest hpv
  obtain ⟨_, hl, hp⟩ := (playable_iff z evw ex w m).1 h1
  obtain ⟨c, hc, _⟩ := h1.2
  exact ⟨hl, ⟨c, hc⟩, hp⟩

/-- `bestmove_legal` for `boardGame z ev` (evaluations that read only position and side to move). -/
theorem bestmove_legal_boardGame (z : ZTable) (ev : Position → Model.Color → Int) (ex : World → Explore)
    (le : LeafEval World) (w : World) (d : Nat) (a b : Score) (st st' : SState) (r : SearchResult)
    (h : alphaBetaSearch (boardGame z ev) ex le w d a b st = (some r, st')) (m : Move) (rest : List Move)
    (hpv : r.pv = m :: rest) :
    m ∈ (w.cur 0).pos.legalMoves (w.board 0).turn ∧ (∃ w', w.pushMove z 0 m = some w') ∧ (ex w).pick m = true :=
  bestmove_legal z _ ex le w d a b st st' r (by rw [← boardGame_eq_boardGameW]; exact h) m rest hpv

/-- **bestmove_legal_spec.** On a well-formed root position the move is, read through `absMove`, a legal move of the
    reference rules (`Spec.legalMoves`, mailbox chess). -/
theorem bestmove_legal_spec (z : ZTable) (evw : World → Int) (ex : World → Explore) (le : LeafEval World) (w : World)
    (d : Nat) (a b : Score) (st st' : SState) (r : SearchResult)
    (h : alphaBetaSearch (boardGameW z evw) ex le w d a b st = (some r, st')) (m : Move) (rest : List Move)
    (hpv : r.pv = m :: rest) (hw : WF (w.cur 0).pos (w.board 0).turn) :
    absMove m ∈ Spec.legalMoves (abs (w.cur 0).pos (w.board 0).turn) :=
  (C01.legal_perm hw).mem_iff.1
    (List.mem_map_of_mem (bestmove_legal z evw ex le w d a b st st' r h m rest hpv).1)

/-- What C03 adds (no table, no cancellation, `leafGrade le + d ≤ 127`, full window): the move leads to a child that
    attains the negamax value of the root, and the rest of the PV is a principal variation from there. -/
theorem bestmove_principal (z : ZTable) (evw : World → Int) (hev : EvalOk (boardGameW z evw)) (ex : World → Explore)
    (le : LeafEval World) (w : World) (d : Nat) (hd : leafGrade le + (d + 1) ≤ 127) (st st' : SState)
    (htt : st.tt.slots.size = 0) (hc : st.cancelAt = none) (r : SearchResult)
    (h : alphaBetaSearch (boardGameW z evw) ex le w (d + 1) invalidScore invalidScore st = (some r, st'))
    (m : Move) (rest : List Move) (hpv : r.pv = m :: rest) :
    m ∈ (w.cur 0).pos.legalMoves (w.board 0).turn ∧
    ∃ c, w.pushMove z 0 m = some c ∧
      Proofs.AB.lift (V (boardGameW z evw) ex le ((boardGameW z evw).ply w) d c) =
        V (boardGameW z evw) ex le ((boardGameW z evw).ply w) (d + 1) w ∧
      Principal (boardGameW z evw) ex le ((boardGameW z evw).ply w) d c rest := by
  refine ⟨(bestmove_legal z evw ex le w (d + 1) _ _ st st' r h m rest hpv).1, ?_⟩
  obtain ⟨n, hn⟩ := C03.search_exact (boardGameW z evw) ex le hev (d + 1) hd w st htt hc
  rw [h] at hn
  cases hn
  have hP := C03.pv_principal (boardGameW z evw) ex le ((boardGameW z evw).ply w) hev (d + 1) hd w
    { st with nodes := 0 } htt hc
  dsimp only at hpv
  rw [hpv] at hP
  simp only [Principal] at hP
  obtain ⟨c, h1, _, h3, h4⟩ := hP
  exact ⟨c, h1, h3, h4⟩

/-! ## 2. The PV is empty only without (explored) legal moves -/

/-- the search window has no lower bound: `sctx.Alpha` unset (invalid) or `-inf` -/
def NoLowerBound (a : Score) : Prop := a.isInvalid = true ∨ a.ty = .negInf

theorem noLowerBound_invalid : NoLowerBound invalidScore := Or.inl rfl
theorem noLowerBound_negInf : NoLowerBound negInfScore := Or.inr rfl

/-- **null_only_without_moves.** Depth `d + 1 ≥ 1`, no lower bound, upper bound not `-inf`, open board; any table, any
    cancellation point. When `AlphaBeta.Search` returns a result, its PV is empty — `bestmove 0000` — **iff** the
    exploration of the root picks no legal move. -/
theorem null_only_without_moves (z : ZTable) (evw : World → Int) (ex : World → Explore) (le : LeafEval World) (w : World)
    (d : Nat) (a b : Score) (st st' : SState) (r : SearchResult)
    (h : alphaBetaSearch (boardGameW z evw) ex le w (d + 1) a b st = (some r, st'))
    (ha : NoLowerBound a) (hb : b.ty ≠ .negInf) (hopen : Open w) :
    r.pv = [] ↔ ∀ m ∈ (w.cur 0).pos.legalMoves (w.board 0).turn, (ex w).pick m = false := by
  rw [(alphaBetaSearch_pv _ ex le w (d + 1) a b st st' r h).2 (by omega) ha hb]
  constructor
  · intro hno m hm
    cases hp : (ex w).pick m with
    | false => rfl
    | true =>
      exact absurd ⟨m, (playable_iff z evw ex w m).2 ⟨hopen, hm, hp⟩⟩ hno
  · rintro hall ⟨m, h1, h2⟩
    obtain ⟨_, hl, hp⟩ := (playable_iff z evw ex w m).1 ⟨h1, h2⟩
    rw [hall m hl] at hp
    cases hp

/-- the exploration keeps a legal move whenever there is one -/
def KeepsAMove (ex : World → Explore) (w : World) : Prop :=
  (w.cur 0).pos.legalMoves (w.board 0).turn ≠ [] → ∃ m ∈ (w.cur 0).pos.legalMoves (w.board 0).turn, (ex w).pick m = true

/-- **`0000` iff no legal move**, for every exploration that keeps a legal move whenever there is one. -/
theorem null_iff (z : ZTable) (evw : World → Int) (ex : World → Explore) (le : LeafEval World) (w : World)
    (d : Nat) (a b : Score) (st st' : SState) (r : SearchResult)
    (h : alphaBetaSearch (boardGameW z evw) ex le w (d + 1) a b st = (some r, st'))
    (ha : NoLowerBound a) (hb : b.ty ≠ .negInf) (hopen : Open w) (hk : KeepsAMove ex w) :
    r.pv = [] ↔ (w.cur 0).pos.legalMoves (w.board 0).turn = [] := by
  rw [null_only_without_moves z evw ex le w d a b st st' r h ha hb hopen]
  constructor
  · intro hall
    apply Classical.byContradiction
    intro hne
    obtain ⟨m, hm, hp⟩ := hk hne
    rw [hall m hm] at hp
    cases hp
  · intro e m hm
    rw [e] at hm
    cases hm

theorem keeps_full (w : World) : KeepsAMove (constEx fullExploration) w := by
  intro hne
  obtain ⟨m, hm⟩ := List.exists_mem_of_ne_nil _ hne
  exact ⟨m, hm, rfl⟩

/-- SARGON's `SkipUnderPromotions` (priority irrelevant here). -/
theorem keeps_skipUnderPromotions (prio : Move → Int) (w : World) (hw : WF (w.cur 0).pos (w.board 0).turn) :
    KeepsAMove (constEx { prio := prio, pick := fun m => !m.isUnderPromotion }) w := by
  intro hne
  have := (C20.skip_underpromo_legal_and_nonempty hw).1 hne
  obtain ⟨m, hm⟩ := List.exists_mem_of_ne_nil _ this
  obtain ⟨h1, h2⟩ := List.mem_filter.1 hm
  exact ⟨m, h1, h2⟩

/-- BERNSTEIN's plausible-move table (any limit). -/
theorem keeps_bernstein (limit : Int) (w : World) (hw : WF (w.cur 0).pos (w.board 0).turn) :
    KeepsAMove (bernsteinExplore limit) w := by
  intro hne
  have hpl := C20Bernstein.plausible_nonempty hw hne
  have hsound := (C20Bernstein.plausible_sound hw).1
  cases hl : Bernstein.findPlausibleMoves (w.cur 0).pos (w.board 0).turn with
  | nil => exact absurd hl hpl
  | cons m rest =>
    have hm : m ∈ Bernstein.truncate (Bernstein.findPlausibleMoves (w.cur 0).pos (w.board 0).turn) limit := by
      rw [hl]
      unfold Bernstein.truncate
      split
      · rename_i hc
        simp only [Bool.and_eq_true, decide_eq_true_eq] at hc
        have : 1 ≤ limit.toNat := by omega
        obtain ⟨k, hk⟩ : ∃ k, limit.toNat = k + 1 := ⟨limit.toNat - 1, by omega⟩
        rw [hk, List.take_succ_cons]
        exact List.mem_cons_self ..
      · exact List.mem_cons_self ..
    refine ⟨m, (hsound m (by rw [hl]; exact List.mem_cons_self ..)).1, ?_⟩
    show (Bernstein.explore limit (w.cur 0).pos (w.board 0).turn).2 m = true
    unfold Bernstein.explore
    exact (Proofs.Bernstein.selection_pick_iff _ m).2 hm

/-- **`0000` iff no legal move: full exploration** (`morlock`, `turochamp`: any leaf evaluation). -/
theorem null_iff_full (z : ZTable) (evw : World → Int) (le : LeafEval World) (w : World)
    (d : Nat) (a b : Score) (st st' : SState) (r : SearchResult)
    (h : alphaBetaSearch (boardGameW z evw) (constEx fullExploration) le w (d + 1) a b st = (some r, st'))
    (ha : NoLowerBound a) (hb : b.ty ≠ .negInf) (hopen : Open w) :
    r.pv = [] ↔ (w.cur 0).pos.legalMoves (w.board 0).turn = [] :=
  null_iff z evw _ le w d a b st st' r h ha hb hopen (keeps_full w)

/-- **`0000` iff no legal move: `SkipUnderPromotions`** (well-formed root). -/
theorem null_iff_skipUnderPromotions (z : ZTable) (evw : World → Int) (prio : Move → Int) (le : LeafEval World) (w : World)
    (d : Nat) (a b : Score) (st st' : SState) (r : SearchResult)
    (h : alphaBetaSearch (boardGameW z evw) (constEx { prio := prio, pick := fun m => !m.isUnderPromotion }) le w
      (d + 1) a b st = (some r, st'))
    (ha : NoLowerBound a) (hb : b.ty ≠ .negInf) (hopen : Open w) (hw : WF (w.cur 0).pos (w.board 0).turn) :
    r.pv = [] ↔ (w.cur 0).pos.legalMoves (w.board 0).turn = [] :=
  null_iff z evw _ le w d a b st st' r h ha hb hopen (keeps_skipUnderPromotions prio w hw)

/-- **`0000` iff no legal move: the BERNSTEIN search** (well-formed root, any table limit). -/
theorem null_iff_bernstein (z : ZTable) (evw : World → Int) (limit : Int) (le : LeafEval World) (w : World)
    (d : Nat) (a b : Score) (st st' : SState) (r : SearchResult)
    (h : alphaBetaSearch (boardGameW z evw) (bernsteinExplore limit) le w (d + 1) a b st = (some r, st'))
    (ha : NoLowerBound a) (hb : b.ty ≠ .negInf) (hopen : Open w) (hw : WF (w.cur 0).pos (w.board 0).turn) :
    r.pv = [] ↔ (w.cur 0).pos.legalMoves (w.board 0).turn = [] :=
  null_iff z evw _ le w d a b st st' r h ha hb hopen (keeps_bernstein limit w hw)

/-! ## the engine's board is open -/

theorem newBoard_open (z : ZTable) (pos : Position) (turn : Model.Color) (np fm : Int) :
    Open (({} : World).newBoard z pos turn np fm).1 := by
  simp [Open, World.newBoard, World.board]

theorem pushResult_open (rep actual np : Int) (pos : Position) (m : Move) :
    (Arena.pushResult rep actual np pos m).reason ≠ .checkmate ∧ (Arena.pushResult rep actual np pos m).reason ≠ .stalemate := by
  unfold Arena.pushResult
  dsimp only
  constructor <;> (repeat' split) <;> simp

/-- `PushMove` leaves the board open: it re-opens the result and only sets draws. -/
theorem pushMove_open {w w' : World} {z : ZTable} {m : Move} (h : w.pushMove z 0 m = some w') : Open w' := by
  obtain ⟨_, next, _, rfl⟩ := Arena.pushMove_some h
  unfold Open
  rw [Arena.setBoard_board]
  split
  · exact pushResult_open ..
  · rename_i hc
    have : (Arena.pushArena w 0 m (Arena.pushNode w z 0 m next)).boards.size = 0 := by omega
    have e : (Arena.pushArena w 0 m (Arena.pushNode w z 0 m next)).board 0 = default := by
      have this' : w.boards.size = 0 := this
      unfold World.board
      show w.boards.getD 0 default = default
      simp [Array.getD, this']
    rw [e]
    constructor <;> decide

/-- `Engine.Reset` yields an open board. -/
theorem engine_reset_open (z : ZTable) (e : EngineM) (fen : List Char) (h : (EngineM.reset z e fen).2 = true) :
    Open (EngineM.reset z e fen).1.w := by
  unfold EngineM.reset at h ⊢
  cases hd : Fen.decode fen with
  | none => rw [hd] at h; cases h
  | some d => exact newBoard_open ..

/-- `Engine.Move` yields an open board. -/
theorem engine_move_open (z : ZTable) (e : EngineM) (s : List Char) (h : (e.move z s).2 = true) :
    Open (e.move z s).1.w := by
  unfold EngineM.move at h ⊢
  cases hp : Fen.parseMove s with
  | none => rw [hp] at h; cases h
  | some cand =>
    dsimp only at h ⊢
    rw [hp] at h
    dsimp only at h
    cases hf : ((e.w.cur 0).pos.pseudoLegalMoves (e.w.board 0).turn).find? (fun m => cand.equals m) with
    | none => rw [hf] at h; cases h
    | some m =>
      rw [hf] at h
      dsimp only at h ⊢
      cases hpm : e.w.pushMove z 0 m with
      | none => rw [hpm] at h; cases h
      | some w' => exact pushMove_open hpm

/-- The `position` handler keeps every property that `Reset` establishes and `Move` preserves. -/
theorem extend_preserves {E : Type} (eng : UciPos.Eng E) (I : E → Prop)
    (hm : ∀ e a e', I e → eng.move e a = some e' → I e') :
    ∀ (ws : List (List Char)) (e : E), I e → I (UciPos.extend eng e ws).1 := by
  intro ws
  induction ws with
  | nil => intro e he; exact he
  | cons a as ih =>
    intro e he
    unfold UciPos.extend
    split
    · exact ih e he
    · split
      · rename_i e' h'
        exact ih e' (hm e a e' he h')
      · exact he

theorem position_preserves {E : Type} (eng : UciPos.Eng E) (I : E → Prop)
    (hr : ∀ f e, eng.reset f = some e → I e) (hm : ∀ e a e', I e → eng.move e a = some e' → I e')
    (st : E × List Char) (line : List Char) (h : I st.1) : I (UciPos.position eng st line).1 := by
  have fresh : ∀ e, I e → I (UciPos.fresh eng e line).1 := by
    intro e he
    unfold UciPos.fresh
    dsimp only
    split
    · exact he
    · rename_i e' h'
      exact extend_preserves eng I hm _ e' (hr _ e' h')
  unfold UciPos.position
  split
  · dsimp only
    split
    · exact extend_preserves eng I hm _ _ h
    · exact fresh _ (extend_preserves eng I hm _ _ h)
  · exact fresh _ h

/-- **The engine's board stays open under `position` commands** (sequential driver model). -/
theorem uciPosition_open (z : ZTable) (u : Driver.UciM) (line : String) (h : Open u.eng.w) :
    Open (Driver.uciPosition z u line).eng.w := by
  unfold Driver.uciPosition
  dsimp only
  refine position_preserves (Driver.engOf z u.hashMB) (fun s => Open s.1.w) ?_ ?_ _ _ h
  · intro f e he
    simp only [Driver.engOf] at he
    split at he
    · rename_i hok
      cases he
      exact engine_reset_open z default f hok
    · cases he
  · intro e a e' _ he
    simp only [Driver.engOf] at he
    split at he
    · rename_i hok
      cases he
      exact engine_move_open z e.1 a hok
    · cases he

/-! ## 3. The sequential driver model: `go depth n`

`Driver.uciGoDepth z u limit` (the `go` handler of the sequential model the `ucidet` stream compares with the real
driver: material evaluation, full exploration, iterative deepening 1..limit on a fork of the engine's board, sharing the
table `u.tt` — whatever it contains —, stopping early on a forced mate) returns the text after `bestmove `. -/

open Morlock.Driver

def searchWorld (w : World) : World := { nodes := (w.fork 0).1.nodes, boards := #[(w.fork 0).1.board (w.fork 0).2] }

theorem searchWorld_facts (w : World) :
    ((searchWorld w).cur 0).pos = (w.cur 0).pos ∧ ((searchWorld w).board 0).turn = (w.board 0).turn ∧
    ((searchWorld w).board 0).result = (w.board 0).result := by
  simp [searchWorld, World.fork, World.board, World.cur, World.node]

theorem search_isSome {P : Type} (g : Game P) (ex : P → Explore) (le : LeafEval P) (p : P) (d : Nat) (a b : Score)
    (st : SState) (hc : st.cancelAt = none) : ∃ r, (alphaBetaSearch g ex le p d a b st).1 = some r := by
  unfold alphaBetaSearch
  dsimp only
  have h := Det.alphabeta_cancelAt g ex le (g.ply p) d p (if a.isInvalid then negInfScore else a)
    (if b.isInvalid then infScore else b) { st with nodes := 0 }
  rw [Det.poll_fst_none (by rw [h]; exact hc)]
  exact ⟨_, rfl⟩

def bestText : Option Move → String
  | some m => moveUci m
  | none => "0000"

def iterBest (limit : Nat) (g : Game World) (wf : World) : Nat → Nat → TTState → Option Move → TTState × Option Move
  | 0, _, tt, best => (tt, best)
  | fuel + 1, d, tt, best =>
    let rs := alphaBetaSearch g (constEx fullExploration) .static wf d Score.negInfScore Score.infScore { tt := tt }
    match rs.1 with
    | none => (rs.2.tt, best)
    | some sr =>
      let best := sr.pv.head?
      let mateStop := match sr.score.mateDistance with | some md => md ≤ (d : Int) | none => false
      if d == limit || mateStop then (rs.2.tt, best) else iterBest limit g wf fuel (d + 1) rs.2.tt best

theorem iter_eq (limit : Nat) (g : Game World) (wf : World) :
    ∀ (fuel d : Nat) (tt : TTState) (b : Option Move),
      uciGoDepth.iter limit g wf fuel d tt (bestText b) =
        ((iterBest limit g wf fuel d tt b).1, bestText (iterBest limit g wf fuel d tt b).2) := by
  intro fuel
  induction fuel with
  | zero => intro d tt b; rfl
  | succ fuel ih =>
    intro d tt b
    unfold uciGoDepth.iter iterBest
    generalize alphaBetaSearch g (constEx fullExploration) LeafEval.static wf d negInfScore infScore { tt := tt } = rs
    obtain ⟨res, st⟩ := rs
    cases res with
    | none => rfl
    | some sr =>
      dsimp only
      have fin : ∀ (c : Bool) (o : Option Move) (t : String), t = bestText o →
          (if c = true then (st.tt, t) else uciGoDepth.iter limit g wf fuel (d + 1) st.tt t) =
          ((if c = true then (st.tt, o) else iterBest limit g wf fuel (d + 1) st.tt o).1,
            bestText (if c = true then (st.tt, o) else iterBest limit g wf fuel (d + 1) st.tt o).2) := by
        intro c o t ht
        subst ht
        cases c
        · simp only [Bool.false_eq_true, if_false]; exact ih _ _ o
        · rfl
      cases hmd : sr.score.mateDistance <;> cases hpv : sr.pv <;> exact fin _ _ _ rfl

/-- the move `iterBest` ends with is the head of the PV of a completed search of some depth `d' ≥ d` -/
theorem iterBest_spec (limit : Nat) (g : Game World) (wf : World) :
    ∀ (fuel d : Nat) (tt : TTState) (b : Option Move), ∃ d' tt0 r st', d ≤ d' ∧
      alphaBetaSearch g (constEx fullExploration) .static wf d' negInfScore infScore { tt := tt0 } = (some r, st') ∧
      (iterBest limit g wf (fuel + 1) d tt b).2 = r.pv.head? := by
  intro fuel
  induction fuel with
  | zero =>
    intro d tt b
    obtain ⟨r, hr⟩ := search_isSome g (constEx fullExploration) .static wf d negInfScore infScore { tt := tt } rfl
    refine ⟨d, tt, r, _, Nat.le_refl _, Prod.ext hr rfl, ?_⟩
    unfold iterBest
    dsimp only
    rw [hr]
    dsimp only
    generalize (d == limit || _) = c
    cases c <;> rfl
  | succ fuel ih =>
    intro d tt b
    obtain ⟨r, hr⟩ := search_isSome g (constEx fullExploration) .static wf d negInfScore infScore { tt := tt } rfl
    unfold iterBest
    dsimp only
    rw [hr]
    dsimp only
    generalize (d == limit || _) = c
    cases c
    · simp only [Bool.false_eq_true, if_false]
      obtain ⟨d', tt0, r', st', h1, h2, h3⟩ := ih (d + 1)
        (alphaBetaSearch g (constEx fullExploration) .static wf d negInfScore infScore { tt := tt }).2.tt r.pv.head?
      exact ⟨d', tt0, r', st', by omega, h2, h3⟩
    · exact ⟨d, tt, r, _, Nat.le_refl _, Prod.ext hr rfl, rfl⟩

theorem uciGoDepth_eq (z : ZTable) (u : UciM) (limit : Nat) :
    (uciGoDepth z u limit).2 =
      bestText (iterBest limit (materialGame z) (searchWorld u.eng.w) limit 1 u.tt none).2 := by
  unfold uciGoDepth
  have := iter_eq limit (materialGame z) (searchWorld u.eng.w) limit 1 u.tt none
  simp only [searchWorld, bestText] at this ⊢
  rw [this]

theorem moveUci_ne_null (m : Move) : moveUci m ≠ "0000" := by
  intro h
  have := congrArg String.toList h
  have ha : "a".toList = ['a'] := rfl
  have hb : "b".toList = ['b'] := rfl
  have hc : "c".toList = ['c'] := rfl
  have hd : "d".toList = ['d'] := rfl
  have he : "e".toList = ['e'] := rfl
  have hf : "f".toList = ['f'] := rfl
  have hg : "g".toList = ['g'] := rfl
  have hh : "h".toList = ['h'] := rfl
  simp only [moveUci, Fen.squareString, String.toList_append] at this
  split at this <;> simp [ha, hb, hc, hd, he, hf, hg, hh] at this

/-- **The `bestmove` of `go depth n` (n ≥ 1) in the sequential driver model.** Whatever the table `u.tt` contains: the
    text is `moveUci m` for a legal move `m` of the engine's current position, or `0000`; and it is `0000` iff that
    position has no legal move. (`om` is the head of the PV of the last completed iteration.) -/
theorem uciGoDepth_bestmove (z : ZTable) (u : Driver.UciM) (limit : Nat) (hl : 1 ≤ limit) (hopen : Open u.eng.w) :
    ∃ om : Option Move, (Driver.uciGoDepth z u limit).2 = bestText om ∧
      (∀ m, om = some m → m ∈ u.eng.pos.legalMoves u.eng.turn) ∧
      (om = none ↔ u.eng.pos.legalMoves u.eng.turn = []) ∧
      ((Driver.uciGoDepth z u limit).2 = "0000" ↔ u.eng.pos.legalMoves u.eng.turn = []) := by
  obtain ⟨fuel, rfl⟩ : ∃ fuel, limit = fuel + 1 := ⟨limit - 1, by omega⟩
  obtain ⟨d', tt0, r, st', hd, hs, hbest⟩ :=
    iterBest_spec (fuel + 1) (materialGame z) (searchWorld u.eng.w) fuel 1 u.tt none
  obtain ⟨f1, f2, f3⟩ := searchWorld_facts u.eng.w
  have hopen' : Open (searchWorld u.eng.w) := by unfold Open; rw [f3]; exact hopen
  obtain ⟨d'', rfl⟩ : ∃ d'', d' = d'' + 1 := ⟨d' - 1, by omega⟩
  have hnull := null_iff_full z (fun w => f32keyOfInt (materialPawns (w.cur 0).pos (w.board 0).turn)) .static
    (searchWorld u.eng.w) d'' negInfScore infScore _ st' r hs noLowerBound_negInf (by decide) hopen'
  rw [f1, f2] at hnull
  have hlegal : ∀ m, r.pv.head? = some m → m ∈ u.eng.pos.legalMoves u.eng.turn := by
    intro m hm
    cases hpv : r.pv with
    | nil => rw [hpv] at hm; cases hm
    | cons m' rest =>
      rw [hpv] at hm
      cases hm
      have := (bestmove_legal z (fun w => f32keyOfInt (materialPawns (w.cur 0).pos (w.board 0).turn))
        (constEx fullExploration) .static (searchWorld u.eng.w) (d'' + 1) negInfScore infScore _ st' r hs m rest hpv).1
      rw [f1, f2] at this
      exact this
  have hnone : r.pv.head? = none ↔ u.eng.pos.legalMoves u.eng.turn = [] := by
    show r.pv.head? = none ↔ (u.eng.w.cur 0).pos.legalMoves (u.eng.w.board 0).turn = []
    rw [← hnull]
    cases r.pv <;> simp
  refine ⟨r.pv.head?, ?_, hlegal, hnone, ?_⟩
  · rw [uciGoDepth_eq, hbest]
  · rw [uciGoDepth_eq, hbest, ← hnone]
    cases hh : r.pv.head? with
    | none => simp [bestText]
    | some m => simp [bestText, moveUci_ne_null]

/-- **`position …` then `go depth n`**: the move answered is a legal move of the position the `position` command left in
    the engine (by C10, `C10Engine.engine_robust_state_eq_last`: the game the line describes), `0000` iff there is none. -/
theorem position_then_go (z : ZTable) (u : Driver.UciM) (line : String) (limit : Nat) (hl : 1 ≤ limit)
    (hopen : Open u.eng.w) :
    let u' := Driver.uciPosition z u line
    ∃ om : Option Move, (Driver.uciGoDepth z u' limit).2 = bestText om ∧
      (∀ m, om = some m → m ∈ u'.eng.pos.legalMoves u'.eng.turn) ∧
      ((Driver.uciGoDepth z u' limit).2 = "0000" ↔ u'.eng.pos.legalMoves u'.eng.turn = []) := by
  intro u'
  obtain ⟨om, h1, h2, _, h4⟩ := uciGoDepth_bestmove z u' limit hl (uciPosition_open z u line hopen)
  exact ⟨om, h1, h2, h4⟩

/-- The driver starts with an open board (`uciOp`: `u0 := (EngineM.reset z default initFen).1`). -/
theorem initial_open (z : ZTable) (fen : List Char) : Open (EngineM.reset z default fen).1.w := by
  cases h : (EngineM.reset z default fen).2 with
  | true => exact engine_reset_open z default fen h
  | false =>
    have : (EngineM.reset z default fen).1 = default := by
      unfold EngineM.reset at h ⊢
      cases hd : Fen.decode fen with
      | none => rfl
      | some d => rw [hd] at h; cases h
    rw [this]
    constructor <;> decide

/-! ## 4. What this means for the small-step models

In `Model/UciConc` a `bestmove` event is `Line.bestmove id d`, where `d` is the PV the forwarder / `stop` handed to
`searchCompleted`: the number of the iteration it belongs to (`C15`: what `Halt` returns is a completed iteration,
`d ≥ 1`), or `0` for the empty `search.PV{}`. For `d ≥ 1` the text printed is `bestText (pv_d).head?` where `pv_d` is the PV
`AlphaBeta.Search` returned at depth `d` — from whatever table the earlier iterations left, on a context that may be
cancelled later — so `bestmove_legal` and `null_iff_*` apply to it verbatim: they quantify over every depth `d ≥ 1`,
every table and every cancellation point. For `d = 0` the driver prints `0000` whatever the position is; the small-step
model allows that event (its searcher may exit before completing an iteration, e.g. when the parent context is
cancelled), and `C04.answered` does not exclude it: this is the part of "`0000` only without legal moves" that is **not**
proved here (it needs "the search a `bestmove` answers completed depth 1", a statement about `IterConc` composed with
`UciConc`).

## Non-vacuity -/

section Examples

/-- the hypotheses of `bestmove_legal` / `null_iff_full` / `bestmove_legal_spec` on a concrete world: `wE`
    (`r3k2r/1P6/8/3pP3/8/8/8/R3K2R w KQkq d6`, 36 generated moves), depth 3, **with a table** of 128 slots. The search returns a
    result, its PV is not empty, and its head is a legal move of the model and of the reference rules. -/
example : ∃ r st' m rest, alphaBetaSearch gX fullX .static wE 3 invalidScore invalidScore st4k = (some r, st') ∧
    r.pv = m :: rest ∧ m ∈ (wE.cur 0).pos.legalMoves (wE.board 0).turn ∧
    absMove m ∈ Spec.legalMoves (abs (wE.cur 0).pos (wE.board 0).turn) := by
  obtain ⟨r, hr⟩ := search_isSome gX fullX .static wE 3 invalidScore invalidScore st4k rfl
  have hs : alphaBetaSearch (boardGameW exZ (fun w => f32keyOfInt (materialPawns (w.cur 0).pos (w.board 0).turn)))
      (constEx fullExploration) .static wE 3 invalidScore invalidScore st4k = (some r, _) := Prod.ext hr rfl
  have hopen : Open wE := by unfold Open; decide +kernel
  have hne : (wE.cur 0).pos.legalMoves (wE.board 0).turn ≠ [] := by decide +kernel
  have hnull := null_iff_full exZ _ .static wE 2 invalidScore invalidScore st4k _ r hs noLowerBound_invalid
    (by decide) hopen
  cases hpv : r.pv with
  | nil => exact absurd (hnull.1 hpv) hne
  | cons m rest =>
    exact ⟨r, _, m, rest, hs, hpv, (bestmove_legal exZ _ _ .static wE 3 _ _ st4k _ r hs m rest hpv).1,
      bestmove_legal_spec exZ _ _ .static wE 3 _ _ st4k _ r hs m rest hpv wE_inv.2.2.1⟩

/-- mate and stalemate: the PV is empty, the driver prints `0000` (`wM`: `7k/6Q1/6K1/8/8/8/8/8 b`, `wT`: `7k/5Q2/6K1/8/8/8/8/8 b`) -/
example : ∀ w ∈ [wM, wT], ∃ r st', alphaBetaSearch gX fullX .static w 2 invalidScore invalidScore st4k = (some r, st') ∧
    r.pv = [] := by
  intro w hw
  obtain ⟨r, hr⟩ := search_isSome gX fullX .static w 2 invalidScore invalidScore st4k rfl
  have hs : alphaBetaSearch (boardGameW exZ (fun w => f32keyOfInt (materialPawns (w.cur 0).pos (w.board 0).turn)))
      (constEx fullExploration) .static w 2 invalidScore invalidScore st4k = (some r, _) := Prod.ext hr rfl
  have hopen : Open w := by
    simp only [List.mem_cons, List.not_mem_nil, or_false] at hw
    rcases hw with rfl | rfl <;> (unfold Open; decide +kernel)
  have hnil : (w.cur 0).pos.legalMoves (w.board 0).turn = [] := by
    simp only [List.mem_cons, List.not_mem_nil, or_false] at hw
    rcases hw with rfl | rfl <;> decide +kernel
  exact ⟨r, _, hs, (null_iff_full exZ _ .static w 1 invalidScore invalidScore st4k _ r hs noLowerBound_invalid
    (by decide) hopen).2 hnil⟩

/-- Kh1, Pb7 against Rg8, Ra2, Ke5 (`C20.promoOnlyPos`): White's only legal moves are the four promotions on b8. -/
def wP : World := (({} : World).newBoard exZ C20.promoOnlyPos .white 0 1).1

set_option maxRecDepth 100000 in
/-- **null_with_legal_moves_model.** The hypothesis `KeepsAMove` cannot be dropped: `AlphaBeta{Explore: captures only}`
    (`capX`, the exploration the driver's quiescence configurations use *at the leaves*) as the exploration of the main
    search returns an empty PV — the driver would print `bestmove 0000` — at `wP`, which has four legal moves. No bundled
    engine configures its main search like that (`morlock`, `turochamp`: full; `sargon`: `keeps_skipUnderPromotions`;
    `bernstein`: `keeps_bernstein`). -/
theorem null_with_legal_moves_model :
    ((alphaBetaSearch gX capX .static wP 1 invalidScore invalidScore {}).1.map (·.pv)) = some [] ∧
    ((wP.cur 0).pos.legalMoves (wP.board 0).turn).length = 4 ∧ Open wP := by
  refine ⟨by decide +kernel, by decide +kernel, newBoard_open ..⟩

/-- the sequential driver: initial position, `position startpos moves e2e4`, then `go depth 2` (hypotheses of
    `position_then_go`; no evaluation of the search) -/
example : let u0 : Driver.UciM := { eng := (EngineM.reset exZ default UciPos.initialFen).1 }
    let u' := Driver.uciPosition exZ u0 "position startpos moves e2e4"
    ∃ om : Option Move, (Driver.uciGoDepth exZ u' 2).2 = bestText om ∧
      (∀ m, om = some m → m ∈ u'.eng.pos.legalMoves u'.eng.turn) ∧
      ((Driver.uciGoDepth exZ u' 2).2 = "0000" ↔ u'.eng.pos.legalMoves u'.eng.turn = []) :=
  position_then_go exZ _ _ 2 (by decide) (initial_open exZ _)

end Examples

end Morlock.Props.C04Legal
