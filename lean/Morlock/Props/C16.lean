import Morlock.Proofs.ConcUciAns
/-!
# C16 — the UCI driver (`pkg/engine/uci/uci.go`) under every interleaving: no stale, duplicate or
post-close output

Model: `Morlock/Model/UciConc.lean` (its header says what one step is and what is abstracted). A *schedule* is a
list of `Act`s — which thread (command loop, a forwarder, a timer, a searcher) takes its next step and, at the
loop's `select`, which ready case is taken. `run (init cmds pcap) sched` is the state after the driver, started
on the GUI input `cmds` (any list of commands: `isready`, `ucinewgame`, `position`, `go` finite/infinite/with
movetime/with a book hit, miss or error, malformed `go`, `stop`, `quit`, EOF, anything else), ran the schedule.
Every theorem quantifies over ALL command lists, ALL schedules (by induction over the schedule) and all ponder
capacities.

Ghost log `State.log` (newest first): `.consume c` (the loop received `c`), `.send l` (a line put on `out`),
`.sendClosed l` (a send on `out` after `close(out)`: a panic in Go), `.commit id latest` (the CAS of
`searchCompleted(id, _)` succeeded while `d.searches = latest`; it is the decision to emit `bestmove` for `id`,
the `info`/`bestmove` sends follow as separate steps of the same thread).

**Honest scope of `no_stale`.** The brief asks: "a bestmove event's id equals the id of the most recent `go`
consumed by the loop". For the code as it is, this holds at the *decision point* (the CAS), with "most recent go"
read as "most recent go that was given a number" — this is `no_stale_partial`. It does NOT hold literally:
(1) the channel send of `bestmove` is a later step than the CAS, and the loop can consume and number the next `go`
in between (`stale_send_possible`: a `decide`d schedule of the current code); (2) the loop receives a `go` one step
before `ensureInactive` stores 0, and a forwarder can win the CAS in that window (`stale_window_possible`). Both
are inherent to any design in which the forwarder sends by itself; the GUI cannot tell them from a bestmove that
was sent just before its `go` arrived. `searches_counts_gos` pins the relation between `d.searches` and the `go`s
consumed.
-/
namespace Morlock.Props.C16
open Morlock.Model.UciConc Morlock.Proofs.ConcUci

/-- **no_stale (partial: at the decision point).** Every commit event — a successful `CAS(active, id, 0)` in
`searchCompleted(id, _)`, by the loop or by any forwarder, the only way a `bestmove` gets emitted — carries
`latest = id`: at that moment `id` is the number of the most recent `go` the loop has numbered
(`d.searches`), i.e. no later `go` has been started; and `id ≠ 0`. What is missing for the literal statement is
described in the file header (`stale_send_possible`, `stale_window_possible`). -/
theorem no_stale_partial (cmds : List Cmd) (pcap : Nat) (sched : List Act) (id latest : Nat)
    (h : Ev.commit id latest ∈ (run (init cmds pcap) sched).log) :
    latest = id ∧ id ≠ 0 ∧ id ≤ (run (init cmds pcap) sched).searches := by
  have hinv := activeInv_run sched _ (activeInv_init cmds pcap)
  have := hinv.bound (id, latest) (mem_commits.2 h)
  exact ⟨this.2.1, this.2.2, this.1⟩

/-- `d.active` is always 0 or the number of the latest `go` (so only the latest search can ever win the CAS). -/
theorem active_zero_or_latest (cmds : List Cmd) (pcap : Nat) (sched : List Act) :
    (run (init cmds pcap) sched).active = 0 ∨
    (run (init cmds pcap) sched).active = (run (init cmds pcap) sched).searches :=
  (activeInv_run sched _ (activeInv_init cmds pcap)).act

/-- `d.searches` is the number of well-formed `go` commands consumed so far, except that it lags by one while
the loop is between receiving a `go` and its `d.searches++` (inside that `go`'s `ensureInactive`,
`LPc.goPending`). -/
theorem searches_counts_gos (cmds : List Cmd) (pcap : Nat) (sched : List Act) :
    goConsumed (run (init cmds pcap) sched).log =
      (run (init cmds pcap) sched).searches + (if (run (init cmds pcap) sched).loop.goPending then 1 else 0) :=
  goCountInv_run sched _ (goCountInv_init cmds pcap)

/-- **at_most_one.** For each go number `id`, at most one commit and at most one `bestmove` line; more
precisely the `bestmove` lines sent for `id`, plus the threads that have won the CAS for `id` and not yet sent
theirs, are exactly the commits for `id`, and there is at most one. -/
theorem at_most_one (cmds : List Cmd) (pcap : Nat) (sched : List Act) (id : Nat) :
    let s := run (init cmds pcap) sched
    commitCount id s.log ≤ 1 ∧ bestCount id s.log ≤ 1 ∧
    bestCount id s.log + (if s.loop.owes id then 1 else 0) + s.fwds.countP (Fwd.owes id) = commitCount id s.log := by
  intro s
  have h1 : commitCount id s.log ≤ 1 := commitCount_le_one (activeInv_run sched _ (activeInv_init cmds pcap)) id
  have h2 : bestCount id s.log + (if s.loop.owes id then 1 else 0) + s.fwds.countP (Fwd.owes id) =
      commitCount id s.log := oweInv_run sched _ (oweInv_init cmds pcap) id
  exact ⟨h1, by omega, h2⟩

/-- **no_send_after_close.** No step of any run sends on `out` after it was closed (no "send on closed channel"
panic), for any line. -/
theorem no_send_after_close (cmds : List Cmd) (pcap : Nat) (sched : List Act) (l : Line) :
    Ev.sendClosed l ∉ (run (init cmds pcap) sched).log := by
  intro h
  have := (closeInv_run sched _ (closeInv_init cmds pcap)).nosend _ h
  simp [Ev.isSendClosed] at this

/-- `out` is closed only by the loop on its way out, after every forwarder has called `Done`: when `out` is
closed no forwarder is live and the WaitGroup is zero. -/
theorem closed_after_forwarders (cmds : List Cmd) (pcap : Nat) (sched : List Act)
    (h : (run (init cmds pcap) sched).outClosed = true) :
    (run (init cmds pcap) sched).wg = 0 ∧ ∀ f ∈ (run (init cmds pcap) sched).fwds, f.pc = .finished := by
  have hinv := closeInv_run sched _ (closeInv_init cmds pcap)
  have h0 := hinv.exiting (afterClose_exiting (hinv.closed h))
  refine ⟨h0, ?_⟩
  have hc := hinv.wg; rw [h0] at hc
  intro f hf
  have := List.countP_eq_zero.1 hc.symm f hf
  cases hp : f.pc <;> simp [hp, FPc.live] at this ⊢

/-- **readyok.** In the log of every run: whenever the loop consumed a command, no earlier `isready` was still
waiting for its `readyok` (`ReadyAnswered`); and an `isready` is waiting now exactly when the loop is at the
statement `d.out <- "readyok"`, which is its next step. -/
theorem readyok (cmds : List Cmd) (pcap : Nat) (sched : List Act) :
    ReadyAnswered (run (init cmds pcap) sched).log ∧
    (openReady (run (init cmds pcap) sched).log = true ↔ (run (init cmds pcap) sched).loop = .ready) := by
  have h := (readyInv_run sched _ ⟨closeInv_init cmds pcap, readyInv_init cmds pcap⟩).2
  exact ⟨h.answered, h.pending⟩

/-- **readyok, spelled out.** If the log (newest first) reads `post ++ consume c :: mid ++ consume isready :: pre`
with no command consumed in `mid` — `c` is the next command consumed after that `isready` — then a `readyok` was
put on `out` in between (and by `no_send_after_close` it went out on the open channel). -/
theorem readyok_between (cmds : List Cmd) (pcap : Nat) (sched : List Act) (post mid pre : List Ev) (c : Cmd)
    (hlog : (run (init cmds pcap) sched).log = post ++ .consume c :: (mid ++ .consume .isready :: pre))
    (hmid : ∀ c', Ev.consume c' ∉ mid) : Ev.send .readyok ∈ mid :=
  readyAnswered_between (readyok cmds pcap sched).1 post mid pre c hlog hmid

/-- **clean_shutdown.** In every quiescent state (no thread can step: `Quiescent`, see `Props/C04.lean`) of a run
in which `quit` or EOF was consumed: the loop has returned, `out` and the driver are closed, the WaitGroup is
zero, every forwarder has finished and every searcher has exited (nothing is left running or blocked). -/
theorem clean_shutdown (cmds : List Cmd) (pcap : Nat) (sched : List Act)
    (hq : Quiescent (run (init cmds pcap) sched))
    (hquit : quitSeen (run (init cmds pcap) sched).log = true) :
    let s := run (init cmds pcap) sched
    s.loop = .finished ∧ s.outClosed = true ∧ s.closed = true ∧ s.wg = 0 ∧
    (∀ f ∈ s.fwds, f.pc = .finished) ∧ (∀ x ∈ s.srch, x.done = true) := by
  intro s
  have hall := allInv_run cmds pcap sched
  have hfin : s.loop = .finished := by
    rcases quiet_loop hq hall.eng hall.cls hall.srch with hf | hs
    · exact hf
    · have := hall.quit hquit
      rw [hs.1] at this; cases this
  have hout := hall.shut.outOk (by rw [hfin]; rfl)
  refine ⟨hfin, hout, hall.shut.doneClosed hfin, hall.cls.exiting (by rw [hfin]; rfl),
    fun f hf => quiet_fwds hq hall.eng f hf, ?_⟩
  intro x hx
  obtain ⟨j, hj⟩ := List.mem_iff_getElem?.1 hx
  exact quiet_searches hq j x hj

/-- after `quit`/EOF the loop never goes back to reading commands: it is on its exit path
(`ensureInactive; forwarders.Wait(); close(out); d.Close()`), in every state, quiescent or not. -/
theorem quit_is_final (cmds : List Cmd) (pcap : Nat) (sched : List Act)
    (hquit : quitSeen (run (init cmds pcap) sched).log = true) :
    (run (init cmds pcap) sched).loop.exitPath = true :=
  (allInv_run cmds pcap sched).quit hquit

/-! ## the pre-repair designs violate these properties (concrete schedules, `decide`d) -/

/-- one step of the command loop (at `select`: receive the next command) -/
def L : Act := .loop .cmd

/-- first `go` up to and including the spawn of its forwarder (receive, `Store(0)`, `Halt` = lock + unlock,
`searches++`, `Analyze`, `Store(id)`, spawn); the search completes depth 1 and exits; the forwarder receives the
PV, offers it to `ponder`, sees its channel closed and is about to call `searchCompleted(1, pv)` -/
def firstGo : List Act :=
  List.replicate 8 L ++ [.searchIter 0, .searchExit 0, .fwd 0, .fwd 0, .fwd 0]

/-- **boolean `active` gives a stale bestmove.** With the pre-repair boolean `active`, after `go; go`: the loop
runs the second `go` up to `active.Store(true)`; the first search's forwarder then wins `CAS(true, false)` —
a commit for go 1 while go 2 is the latest (`commit 1 2`) — and sends `bestmove` with search 1's PV; `active` is
now false, so go 2's own result will be dropped. -/
theorem bool_active_stale :
    let s := runWith { boolActive := true } (init [.go {}, .go {}])
      (firstGo ++ List.replicate 10 L ++ [.fwd 0, .fwd 0, .fwd 0])
    Ev.commit 1 2 ∈ s.log ∧ Ev.send (.bestmove 1 1) ∈ s.log ∧ s.active = 0 ∧ s.searches = 2 := by
  decide

/-- the same schedule under the current code: the forwarder's `CAS(1, 0)` fails, nothing is emitted for go 1 -/
theorem id_active_not_stale :
    let s := run (init [.go {}, .go {}]) (firstGo ++ List.replicate 10 L ++ [.fwd 0, .fwd 0, .fwd 0])
    commits s.log = [] ∧ s.active = 2 := by
  decide

/-- **closing `out` without waiting sends on a closed channel.** Pre-repair exit path (no `forwarders.Wait()`):
after `go; quit`, the forwarder wins the CAS, the loop runs `quit` through `close(out)`, then the forwarder
sends its `info` and `bestmove` on the closed channel. -/
theorem close_without_wait_sends_after_close :
    let s := runWith { waitFwd := false } (init [.go {}, .quit])
      (firstGo ++ [.fwd 0] ++ List.replicate 8 L ++ [.fwd 0, .fwd 0])
    Ev.sendClosed (.info 1) ∈ s.log ∧ Ev.sendClosed (.bestmove 1 1) ∈ s.log := by
  decide

/-- the same schedule under the current code: the loop is held at `forwarders.Wait()` and both lines go out on
the open channel -/
theorem wait_then_close :
    let s := run (init [.go {}, .quit]) (firstGo ++ [.fwd 0] ++ List.replicate 8 L ++ [.fwd 0, .fwd 0])
    s.loop = .waitFwd ∧ s.outClosed = false ∧ Ev.send (.bestmove 1 1) ∈ s.log := by
  decide

/-! ## what the current code still allows (why `no_stale` is stated at the decision point) -/

/-- **the send may lag.** Current code, `go; go`: the forwarder of go 1 wins the CAS (`commit 1 1`, not stale at
the decision point), then the loop consumes the second `go` and numbers it (`searches = 2`), and only then does
the forwarder put `bestmove 1` on `out`: in the log the `bestmove` for go 1 comes after the consumption of go 2. -/
theorem stale_send_possible :
    let s := run (init [.go {}, .go {}]) (firstGo ++ [.fwd 0] ++ List.replicate 8 L ++ [.fwd 0, .fwd 0])
    s.log = [.send (.bestmove 1 1), .send (.info 1), .consume (.go {}), .commit 1 1, .consume (.go {})] ∧
    s.searches = 2 := by
  decide

/-- **the one-step window.** Current code, `go; go`: the loop has received the second `go` but not yet executed
`d.active.Store(0)`; the forwarder of go 1 wins the CAS in between: the commit for go 1 is logged after the
consumption of go 2 (with `d.searches` still 1, so `no_stale_partial` is not contradicted). -/
theorem stale_window_possible :
    let s := run (init [.go {}, .go {}]) (firstGo ++ [L, .fwd 0])
    s.log = [.commit 1 1, .consume (.go {}), .consume (.go {})] ∧ s.loop = .ensureStore (.go {}) := by
  decide

/-! ## the hypotheses are satisfiable: a small complete session -/

/-- `isready; go; stop; quit` with an infinite search: `readyok`, then the search publishes depth 1, `stop` halts
it and the loop itself emits `info`, `bestmove 1`; `quit` shuts down cleanly (out closed, driver closed). -/
example :
    let s := run (init [.isready, .go { infinite := true }, .stop, .quit])
      ([L, L] ++ List.replicate 8 L ++ [.searchIter 0] ++ List.replicate 10 L ++
       [.searchExit 0, .fwd 0, .fwd 0, .fwd 0, .fwd 0] ++ List.replicate 8 L)
    s.log = [.consume .quit, .send (.bestmove 1 1), .send (.info 1), .commit 1 1, .consume .stop,
             .consume (.go { infinite := true }), .send .readyok, .consume .isready] ∧
    s.loop = .finished ∧ s.outClosed = true ∧ s.closed = true ∧ s.wg = 0 := by
  decide

end Morlock.Props.C16
