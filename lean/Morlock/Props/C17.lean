import Morlock.Proofs.ConcTTSeq
/-!
# C17 — the lock-free transposition table (`pkg/search/transposition.go`) under every interleaving

Model: `Morlock/Model/TTConc.lean` (read its header for what one step is). In short: any number of threads
each run a list of `Read`/`Write` calls against `n` slots; a *schedule* is a list of thread indices and
`run s sched` executes it, one shared-memory access (atomic load, CAS, `Uint64.Add`) or one local action
(allocation of `fresh`, the `val` comparison) per entry. Every theorem below quantifies over **all**
schedules (and all programs, all `n`), by induction over the schedule.

Vocabulary:
* `init n progs` — `n` empty slots, `used = 0`, thread `i` about to run the calls `progs[i]`.
* `State.trace` — ghost log, newest first: `.cas tid slot old new` for each successful CAS,
  `.readRet tid hash res` / `.writeRet tid hash payload val ok` for each return.
* `occupied s` — number of non-nil slots; `pendingAdds s` — number of threads at `w3` (CAS into an empty slot
  done, `used.Add(1)` not yet executed); `valOf` — `val(ptr)`, 0 for nil; `slotAt s k` — content of slot `k`.
* pointer comparison in the CAS is comparison of allocation ids (`samePtr`); that equal ids mean equal nodes
  (no ABA) is *proved* (`Proofs.ConcTT.IdInv`), not assumed.

What is abstracted: the payload (`bound, score, move, ply, depth`) is an opaque value `π` except in
`seq_refines`, where it is the `TTEntry` of `Model/TT.lean`; `val` is a number given with the call
(`Call.ofOp` computes it as Go does). Memory is sequentially consistent (Go's `sync/atomic`).
`Used()`'s float division is not modelled — `used_range` gives the integer bounds that make it a fraction in [0,1].
-/
namespace Morlock.Props.C17
open Morlock Morlock.Model Morlock.Model.TTConc Morlock.Proofs.ConcTT

variable {π : Type}

/-- **no_mixture.** Whenever a `Read(h)` returns a node (event `readRet tid h (some node)` anywhere in the
trace of any run), that node has `hash = h`, its `(hash, payload, val)` are exactly the arguments of ONE
`Write` call of the program, and that very node (same allocation id, whole) was published by a successful CAS
logged *earlier* (`post` is the older part of the trace). No field of it comes from any other call. -/
theorem no_mixture (n : Nat) (progs : List (List (Call π))) (sched : List Nat)
    (pre post : List (Event π)) (tid h : Nat) (node : Node π)
    (htr : (run (init n progs) sched).trace = pre ++ .readRet tid h (some node) :: post) :
    node.hash = h ∧
    (∃ cs ∈ progs, Call.write h node.payload node.val ∈ cs) ∧
    ∃ tid' k old, Event.cas tid' k old node ∈ post := by
  have hinv := nodeInv_run sched _ (nodeInv_init n progs)
  have := traceOK_split (htr ▸ hinv.trace)
  obtain ⟨h1, h2, h3⟩ := this
  subst h1
  exact ⟨rfl, h2, h3⟩

/-- **replace_le (CAS events).** Every successful CAS of every run replaces an entry whose `val` is at most
the `val` of the node it installs. -/
theorem replace_le (n : Nat) (progs : List (List (Call π))) (sched : List Nat)
    (tid k : Nat) (old : Option (Node π)) (new : Node π)
    (hev : Event.cas tid k old new ∈ (run (init n progs) sched).trace) : valOf old ≤ new.val :=
  traceOK_mem_cas (nodeInv_run sched _ (nodeInv_init n progs)).trace hev

/-- **replace_le (slots).** Per slot, `val` is non-decreasing along every run: between any two points of a run
(after `sched₁`, and after `sched₁ ++ sched₂`) the `val` of slot `k` has not decreased. -/
theorem slot_val_mono (n : Nat) (progs : List (List (Call π))) (sched₁ sched₂ : List Nat) (k : Nat) :
    valOf (slotAt (run (init n progs) sched₁) k) ≤ valOf (slotAt (run (init n progs) (sched₁ ++ sched₂)) k) := by
  rw [run_append]
  exact slot_mono_run sched₂ _ (nodeInv_run sched₁ _ (nodeInv_init n progs)) k

/-- **used_exact.** In every reachable state, `used` plus the number of threads that have filled an empty slot
but not yet executed `used.Add(1)` equals the number of occupied slots. -/
theorem used_exact (n : Nat) (hn : 0 < n) (progs : List (List (Call π))) (sched : List Nat) :
    (run (init n progs) sched).used + pendingAdds (run (init n progs) sched) = occupied (run (init n progs) sched) :=
  (usedInv_run sched _ (usedInv_init n hn progs)).exact

/-- **used_exact at quiescence.** When every call has returned, `used` is exactly the number of occupied slots. -/
theorem used_exact_quiescent (n : Nat) (hn : 0 < n) (progs : List (List (Call π))) (sched : List Nat)
    (hq : Quiescent (run (init n progs) sched)) :
    (run (init n progs) sched).used = occupied (run (init n progs) sched) := by
  have h := used_exact n hn progs sched
  have h0 : pendingAdds (run (init n progs) sched) = 0 := by
    simp only [pendingAdds, List.countP_eq_zero]
    intro t ht; rw [(hq t ht).1]; simp
  omega

/-- **used_range.** `0 ≤ used ≤ n` in every reachable state (`n` = number of slots, unchanged by the run),
so `Used() = used / n` is a fraction in `[0, 1]`. -/
theorem used_range (n : Nat) (hn : 0 < n) (progs : List (List (Call π))) (sched : List Nat) :
    (run (init n progs) sched).slots.length = n ∧ 0 ≤ (run (init n progs) sched).used ∧
      (run (init n progs) sched).used ≤ n := by
  have h := used_exact n hn progs sched
  have hl : (run (init n progs) sched).slots.length = n := by rw [slots_length_run]; simp [init]
  have := occupied_le (run (init n progs) sched)
  exact ⟨hl, Nat.zero_le _, by omega⟩

/-- the sequential table the initial state stands for: what `NewTranspositionTable` returns -/
theorem abs_init (n : Nat) (progs : List (List (Call TTEntry))) :
    absState (init n progs) = { slots := Array.replicate n none, used := 0, minDepth := 0 } := by
  simp [absState, init]

/-- `abs_init` for a size in bytes: the table of `TTState.new` (`Model/TT.lean`). -/
theorem abs_init_new (sizeBytes : Nat) (progs : List (List (Call TTEntry))) :
    absState (init (TTState.entriesFor sizeBytes) progs) = TTState.new sizeBytes := by
  rw [abs_init]; rfl

/-- **seq_refines.** Take any programs `progs` (thread `i` makes the calls `progs[i]`, given with their Go
arguments, depths non-negative) and any `order` in which threads take turns making one complete call each.
The run `seqSched _ order` of the concurrent model — in which each call's steps are consecutive, i.e. calls do
not overlap — ends in a state that stands (`absState`: slots' payloads and `used`) for exactly the table obtained
by making the same calls in the same order on the sequential model (`TTState.write`/`TTState.read` via
`seqCall`), all threads are between calls again, and the results logged by the calls (`Write`'s bool, `Read`'s
entry), oldest first, are the sequential results. Fields modelled: `slots`, `used`; `minDepth = 0` (the bare
table, not the `WriteLimited` wrapper). -/
theorem seq_refines (n : Nat) (hn : 0 < n) (progs : List (List Op))
    (hvalid : ∀ ops ∈ progs, ∀ op ∈ ops, Op.Valid op) (order : List Nat) :
    let s₀ := init n (progs.map (·.map Call.ofOp))
    let t₀ : TTState := { slots := Array.replicate n none, used := 0, minDepth := 0 }
    absState (run s₀ (seqSched s₀ order)) = (specRun t₀ progs order).1 ∧
    AllIdle (run s₀ (seqSched s₀ order)) ∧
    (run s₀ (seqSched s₀ order)).trace.reverse.filterMap Event.result = (specRun t₀ progs order).2 := by
  intro s₀ t₀
  have hinv : NodeInv WFCall s₀ := by
    have h0 := nodeInv_init n (progs.map (·.map Call.ofOp))
    refine ⟨h0.ids, h0.w2, ?_, ?_, h0.published, ?_⟩
    · intro m hm
      obtain ⟨cs, hcs, hc⟩ := h0.nodes m hm
      simp only [List.mem_map] at hcs; obtain ⟨ops, _, rfl⟩ := hcs
      simp only [List.mem_map] at hc; obtain ⟨op, _, hop⟩ := hc
      rw [← hop]; exact wfCall_ofOp op
    · intro t ht c hc
      obtain ⟨cs, hcs, hc'⟩ := h0.calls t ht c hc
      simp only [List.mem_map] at hcs; obtain ⟨ops, _, rfl⟩ := hcs
      simp only [List.mem_map] at hc'; obtain ⟨op, _, hop⟩ := hc'
      rw [← hop]; exact wfCall_ofOp op
    · simp [s₀, init, TraceOK]
  have hth : s₀.threads = threadsOf progs := by simp [s₀, init, threadsOf, List.map_map, Function.comp_def]
  obtain ⟨h1, h2, evs, h3, h4⟩ := seq_run order s₀ progs (by simpa [s₀, init] using hn) hinv hth hvalid
  have ha : absState s₀ = t₀ := abs_init n _
  rw [ha] at h1 h4
  refine ⟨h1, h2, ?_⟩
  rw [h3]
  have : s₀.trace = [] := rfl
  rw [this, List.append_nil]; exact h4

/-- Each block of `seqSched` consists of steps of a single thread (the schedule really is "one call at a time"):
the first block is `callLen` copies of the first thread of `order`. -/
theorem seqSched_cons (s : State π) (i : Nat) (order : List Nat) (c : Call π) (cs : List (Call π))
    (ht : s.threads[i]? = some ⟨.call, c :: cs⟩) :
    seqSched s (i :: order) =
      List.replicate (callLen s c) i ++ seqSched (run s (List.replicate (callLen s c) i)) order := by
  simp [seqSched, ht]

/-! ## the pre-repair counter (`t.used++` as a load and a store) loses updates -/

/-- two threads, two slots; thread 0 writes hash 0, thread 1 writes hash 1 -/
def twoWriters : State Unit := init 2 [[.write 0 () 1], [.write 1 () 1]]

/-- both threads publish (4 steps each: alloc, load, compare, CAS), then both load `used = 0`, then both store 1 -/
def lostUpdateSchedule : List Nat := [0, 0, 0, 0, 1, 1, 1, 1, 0, 1, 0, 1]

/-- **plain_increment_loses_updates.** With the counter update split into `tmp := used; used := tmp + 1`
(`runSplit`, the pre-repair `t.used++`), this schedule ends with every call returned, 2 occupied slots and
`used = 1`. -/
theorem plain_increment_loses_updates :
    (runSplit twoWriters lostUpdateSchedule).used = 1 ∧
    occupied (runSplit twoWriters lostUpdateSchedule) = 2 ∧
    (runSplit twoWriters lostUpdateSchedule).threads = [⟨.call, []⟩, ⟨.call, []⟩] := by
  decide

/-- the same schedule under the repaired code (`used.Add(1)` atomic; the last two steps are no-ops) counts both -/
theorem atomic_increment_counts_both :
    (run twoWriters lostUpdateSchedule).used = 2 ∧ occupied (run twoWriters lostUpdateSchedule) = 2 := by
  decide

/-! ## the hypotheses are satisfiable: small concrete systems -/

/-- three threads on two slots: a writer, a competing writer on the same slot with a higher `val`, a reader.
Under this interleaving the reader sees the first writer's node whole; the second writer's first CAS fails
(it loaded nil), it reloads, replaces the node, and the reader then sees the second node whole. -/
example :
    let s := run (init 2 [[.write 4 "a" 3], [.write 6 "b" 5], [.read 4, .read 6]]) [0, 0, 1, 1, 0, 0, 2, 1, 1, 0, 1, 1, 1, 2]
    s.trace = [.readRet 2 6 (some ⟨1, 6, "b", 5⟩), .writeRet 1 6 "b" 5 true,
               .cas 1 0 (some ⟨0, 4, "a", 3⟩) ⟨1, 6, "b", 5⟩, .writeRet 0 4 "a" 3 true,
               .readRet 2 4 (some ⟨0, 4, "a", 3⟩), .cas 0 0 none ⟨0, 4, "a", 3⟩] ∧
    s.used = 1 ∧ occupied s = 1 ∧ Quiescent s := by
  refine ⟨by decide, by decide, by decide, ?_⟩
  intro t ht
  have : t ∈ [(⟨.call, []⟩ : Thread String), ⟨.call, []⟩, ⟨.call, []⟩] := by
    have e : (run (init 2 [[Call.write 4 "a" 3], [.write 6 "b" 5], [.read 4, .read 6]])
      [0, 0, 1, 1, 0, 0, 2, 1, 1, 0, 1, 1, 1, 2]).threads = [⟨.call, []⟩, ⟨.call, []⟩, ⟨.call, []⟩] := by decide
    rw [e] at ht; exact ht
  simp at this; subst this; exact ⟨rfl, rfl⟩

/-- `seq_refines` instantiated: two threads, three calls, run one call at a time in the order 0, 1, 0. -/
example :
    let progs : List (List Op) :=
      [[.write 5 0 1 2 ⟨.heuristic, 0, 7⟩ {}, .read 5], [.write 5 1 0 1 ⟨.heuristic, 0, 9⟩ {}]]
    ∀ op ∈ progs.flatten, Op.Valid op := by
  intro progs op hop
  simp [progs] at hop
  rcases hop with rfl | rfl | rfl <;> simp [Op.Valid]

end Morlock.Props.C17
