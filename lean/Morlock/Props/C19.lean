import Morlock.Model.Fen
/-!
# C19 — textual input is handled totally

In the model every Go index expression that could panic is explicit. `Fen.decode`, `Fen.parseMove`,
`Fen.parseSquareStr` are total Lean functions returning `Option` (`none` = the Go error return); there
is no `panic`, `get!` or partial definition on their paths, so "never crashes" holds for the model
by construction *provided* the indices the Go code uses stay in range. That proviso is the theorem
below: every square the placement loop hands to `NewPosition` is `< 64` and strictly below every
square placed before it (so `NewPosition`'s arrays are indexed in range and no square is placed twice).
-/
namespace Morlock.Props.C19
open Morlock Morlock.Model Morlock.Model.Fen

/-- Squares in placement order are strictly decreasing and below the bound `hi`. -/
def Decreasing : Int → List (Nat × Color × Piece) → Prop
  | _, [] => True
  | hi, (sq, _, _) :: rest => (sq : Int) ≤ hi ∧ Decreasing ((sq : Int) - 1) rest

theorem placements_go (cs : List Char) (sq : Int) (acc : List (Nat × Color × Piece)) (sq' : Int)
    (out : List (Nat × Color × Piece))
    (h : placements cs sq acc = some (sq', out)) :
    ∃ tail, out = acc.reverse ++ tail ∧ Decreasing sq tail ∧ sq' ≤ sq := by
  induction cs generalizing sq acc with
  | nil =>
    simp [placements] at h
    exact ⟨[], by simp [h.2.symm], trivial, by omega⟩
  | cons r rs ih =>
    unfold placements at h
    split at h
    · exact ih sq acc h
    · split at h
      · obtain ⟨tail, h1, h2, h3⟩ := ih _ acc h
        refine ⟨tail, h1, ?_, by omega⟩
        -- a smaller cursor bound implies the larger one
        have mono : ∀ (l : List (Nat × Color × Piece)) (a b : Int), a ≤ b → Decreasing a l → Decreasing b l := by
          intro l; cases l with
          | nil => intros; trivial
          | cons x xs => intro a b hab hd; exact ⟨by have := hd.1; omega, hd.2⟩
        exact mono tail _ sq (by omega) h2
      · split at h
        · simp at h
        · rename_i c k _
          split at h
          · simp at h
          · rename_i hneg
            obtain ⟨tail, h1, h2, h3⟩ := ih (sq - 1) ((sq.toNat, c, k) :: acc) h
            refine ⟨(sq.toNat, c, k) :: tail, by simp [h1], ⟨by omega, ?_⟩, by omega⟩
            have : ((sq.toNat : Nat) : Int) = sq := by omega
            rw [this]; exact h2

/-- Every placement `Decode` passes to `NewPosition` is on the board (`< 64`), and the squares are
    strictly decreasing — no index out of range, no square placed twice. -/
theorem placements_in_range (cs : List Char) (sq' : Int) (out : List (Nat × Color × Piece))
    (h : placements cs 63 [] = some (sq', out)) : Decreasing 63 out := by
  obtain ⟨tail, h1, h2, _⟩ := placements_go cs 63 [] sq' out h
  simpa [h1] using h2

theorem decreasing_lt (hi : Int) (l : List (Nat × Color × Piece)) (h : Decreasing hi l) :
    ∀ e ∈ l, (e.1 : Int) ≤ hi := by
  induction l generalizing hi with
  | nil => simp
  | cons x xs ih =>
    intro e he
    cases he with
    | head => exact h.1
    | tail _ hm => have := ih _ h.2 e hm; have := h.1; omega

/-- The witnesses of the repaired defect are rejected, not crashed on. -/
theorem overflow_witness_rejected :
    decode ("8/8/8/8/8/8/8/8P" ++ String.ofList (List.replicate 28 '9') ++ "3 w - - 0 1").toList = none := by decide

example : (decode "8/8/8/8/8/8/8/4K2k w - - 0 1".toList).isSome = true := by decide

end Morlock.Props.C19
