import Morlock.Model.Fen
import Morlock.Proofs.FenCanon
/-!
# C19 — textual input is handled totally

In the model every Go index expression that could panic is explicit. `Fen.decode`, `Fen.parseMove`,
`Fen.parseSquareStr` are total Lean functions returning `Option` (`none` = the Go error return); there
is no `panic`, `get!` or partial definition on their paths, so "never crashes" holds for the model
by construction *provided* the indices the Go code uses stay in range. That proviso is the theorem
below: every square the placement loop hands to `NewPosition` is `< 64` and strictly below every
square placed before it (so `NewPosition`'s arrays are indexed in range and no square is placed twice).

On top of that: `decoded_wellformed` — whatever **any** string decodes to is a well-formed position
(all redundant views agree with one mailbox board, rights among the four bits, target on the board,
clocks in `0 … MaxInt64`), and `accepted_roundtrip` — it re-encodes to a FEN that decodes to the very
same value.
-/
namespace Morlock.Props.C19
open Morlock Morlock.Model Morlock.Model.Fen Morlock.Proofs Morlock.Proofs.Fen

/-- Squares in placement order are strictly decreasing and below the bound `hi`. -/
def Decreasing : Int → List (Nat × Color × Piece) → Prop
  | _, [] => True
  | hi, (sq, _, _) :: rest => (sq : Int) ≤ hi ∧ Decreasing ((sq : Int) - 1) rest

theorem placements_go (cs : List Char) (sq : Int) (acc : List (Nat × Color × Piece)) (sq' : Int)
    (out : List (Nat × Color × Piece))
    (h : placements cs sq acc = some (sq', out)) :
    ∃ tail, out = acc.reverse ++ tail ∧ Decreasing sq tail ∧ sq' ≤ sq := by
  induction cs generalizing sq acc with
  | nil =>
    simp [placements] at h
    exact ⟨[], by simp [h.2.symm], trivial, by omega⟩
  | cons r rs ih =>
    unfold placements at h
    split at h
    · exact ih sq acc h
    · split at h
      · obtain ⟨tail, h1, h2, h3⟩ := ih _ acc h
        refine ⟨tail, h1, ?_, by omega⟩
        -- a smaller cursor bound implies the larger one
        have mono : ∀ (l : List (Nat × Color × Piece)) (a b : Int), a ≤ b → Decreasing a l → Decreasing b l := by
          intro l; cases l with
          | nil => intros; trivial
          | cons x xs => intro a b hab hd; exact ⟨by have := hd.1; omega, hd.2⟩
        exact mono tail _ sq (by omega) h2
      · split at h
        · simp at h
        · rename_i c k _
          split at h
          · simp at h
          · rename_i hneg
            obtain ⟨tail, h1, h2, h3⟩ := ih (sq - 1) ((sq.toNat, c, k) :: acc) h
            refine ⟨(sq.toNat, c, k) :: tail, by simp [h1], ⟨by omega, ?_⟩, by omega⟩
            have : ((sq.toNat : Nat) : Int) = sq := by omega
            rw [this]; exact h2

/-- Every placement `Decode` passes to `NewPosition` is on the board (`< 64`), and the squares are
    strictly decreasing — no index out of range, no square placed twice. -/
theorem placements_in_range (cs : List Char) (sq' : Int) (out : List (Nat × Color × Piece))
    (h : placements cs 63 [] = some (sq', out)) : Decreasing 63 out := by
  obtain ⟨tail, h1, h2, _⟩ := placements_go cs 63 [] sq' out h
  simpa [h1] using h2

theorem decreasing_lt (hi : Int) (l : List (Nat × Color × Piece)) (h : Decreasing hi l) :
    ∀ e ∈ l, (e.1 : Int) ≤ hi := by
  induction l generalizing hi with
  | nil => simp
  | cons x xs ih =>
    intro e he
    cases he with
    | head => exact h.1
    | tail _ hm => have := ih _ h.2 e hm; have := h.1; omega

/-- The witnesses of the repaired defect are rejected, not crashed on. -/
theorem overflow_witness_rejected :
    decode ("8/8/8/8/8/8/8/8P" ++ String.ofList (List.replicate 28 '9') ++ "3 w - - 0 1").toList = none := by decide

example : (decode "8/8/8/8/8/8/8/4K2k w - - 0 1".toList).isSome = true := by decide

/-! ## Accepted input is well-formed -/

/-- `Decreasing 63` placements are on the board. -/
theorem decreasing_valid {l : List (Nat × Color × Piece)} (h : Decreasing 63 l) : ∀ e ∈ l, e.1 < 64 := by
  intro e he
  have := decreasing_lt 63 l h e he
  omega

/-- **C19 `decoded_wellformed`.** For *every* string `s`: if `Decode` accepts `s`, the position it
    returns has all its redundant views (occupancy, colour sets, piece sets, the three rotated
    occupancies) in agreement with one mailbox board (`Rep`, nothing outside the 64 squares, no
    `NoPiece` entries), its castling rights are among the four bits, its en-passant target is a
    square, and both clocks are in `0 … MaxInt64`. -/
theorem decoded_wellformed {s : List Char} {d : Decoded} (h : decode s = some d) :
    (∃ b, Rep d.pos b) ∧ d.pos.castling < 16 ∧ d.pos.enpassant < 64 ∧
      (0 ≤ d.noprogress ∧ d.noprogress ≤ 9223372036854775807) ∧
      (0 ≤ d.fullmoves ∧ d.fullmoves ≤ 9223372036854775807) := by
  obtain ⟨p0, p1, p2, p3, p4, p5, pl, cr, ep, _, h0, _, h2, h3, h4, h4', h5, h5', h6⟩ := decode_inv h
  -- the squares are in range by `placements_in_range`; the pieces are real by `placements_valid`
  have hrange := decreasing_valid (placements_in_range p0 (-1) pl h0)
  have hv : ValidPlacements pl := fun x hx => ⟨hrange x hx, ((placements_valid h0).1 x hx).2⟩
  obtain ⟨hr, hc, he⟩ := newPosition_rep hv h6
  exact ⟨⟨_, hr⟩, by rw [hc]; exact parseCastling_lt h2, by rw [he]; exact epField_lt h3,
    ⟨h4', (atoi_range h4).2⟩, ⟨h5', (atoi_range h5).2⟩⟩

/-- The board the decoded position represents is the one `Square` reads back. -/
theorem decoded_rep_square {s : List Char} {d : Decoded} (h : decode s = some d) : Rep d.pos d.pos.square := by
  obtain ⟨⟨b, hb⟩, _⟩ := decoded_wellformed h
  rw [← hb.board_eq]; exact hb

/-- **C19 `accepted_roundtrip`.** Whatever `Decode` accepts re-encodes to a FEN that decodes to the
    same value (position with all views, side, clocks): accepted input is never "half-parsed". -/
theorem accepted_roundtrip {s : List Char} {d : Decoded} (h : decode s = some d) :
    decode (encode d.pos d.turn d.noprogress d.fullmoves).toList = some d := by
  obtain ⟨⟨b, hb⟩, hc, he, ⟨n0, n1⟩, ⟨f0, f1⟩⟩ := decoded_wellformed h
  have e1 : ((d.noprogress.toNat : Nat) : Int) = d.noprogress := Int.toNat_of_nonneg n0
  have e2 : ((d.fullmoves.toNat : Nat) : Int) = d.fullmoves := Int.toNat_of_nonneg f0
  have := decode_encode_of_rep hb hc he d.turn d.noprogress.toNat d.fullmoves.toNat (by omega) (by omega)
  rw [e1, e2] at this
  exact this

/-- Whatever `Decode` accepts re-encodes to a line of the standard grammar (`Canonical`): one round
    trip normalises every accepted spelling (upper-case side, repeated or unordered rights, signs,
    leading zeros, surrounding blanks, missing or misplaced `/` as long as 64 squares are described). -/
theorem accepted_normalised {s : List Char} {d : Decoded} (h : decode s = some d) :
    Canonical (encode d.pos d.turn d.noprogress d.fullmoves).toList := by
  obtain ⟨⟨b, hb⟩, hc, he, ⟨n0, _⟩, ⟨f0, _⟩⟩ := decoded_wellformed h
  have := encode_canonical hb hc he d.turn d.noprogress.toNat d.fullmoves.toNat
  rwa [Int.toNat_of_nonneg n0, Int.toNat_of_nonneg f0] at this

/-- A non-canonical but accepted line (upper-case side, repeated rights, sign and leading zeros on
    the clocks, surrounding blanks): well-formed, and normalised by one round trip. -/
example : ∃ d, decode "  4k3/8/8/8/8/8/8/R3K2R W QKQ - +007 012 ".toList = some d ∧
    (∃ b, Rep d.pos b) ∧ encode d.pos d.turn d.noprogress d.fullmoves = "4k3/8/8/8/8/8/8/R3K2R w KQ - 7 12" ∧
    decode "4k3/8/8/8/8/8/8/R3K2R w KQ - 7 12".toList = some d := by
  have hs : (decode "  4k3/8/8/8/8/8/8/R3K2R W QKQ - +007 012 ".toList).isSome = true := by decide +kernel
  obtain ⟨d, hd⟩ := Option.isSome_iff_exists.mp hs
  have he : (decode "  4k3/8/8/8/8/8/8/R3K2R W QKQ - +007 012 ".toList).map
      (fun d => encode d.pos d.turn d.noprogress d.fullmoves) = some "4k3/8/8/8/8/8/8/R3K2R w KQ - 7 12" := by
    decide +kernel
  rw [hd] at he
  simp only [Option.map_some, Option.some.injEq] at he
  exact ⟨d, hd, (decoded_wellformed hd).1, he, he ▸ accepted_roundtrip hd⟩

end Morlock.Props.C19
