import Morlock.Model.Fen
import Morlock.Proofs.FenCanon
import Morlock.Proofs.EngineMove
import Morlock.Proofs.RepExample
/-!
# C19 — textual input is handled totally

In the model every Go index expression that could panic is explicit. `Fen.decode`, `Fen.parseMove`,
`Fen.parseSquareStr` are total Lean functions returning `Option` (`none` = the Go error return); there
is no `panic`, `get!` or partial definition on their paths, so "never crashes" holds for the model
by construction *provided* the indices the Go code uses stay in range. That proviso is the theorem
below: every square the placement loop hands to `NewPosition` is `< 64` and strictly below every
square placed before it (so `NewPosition`'s arrays are indexed in range and no square is placed twice).

Second half of the property ("a move string is accepted by a game exactly when it denotes a legal move of the
current position, and rejected input leaves the game state unchanged"): section *The engine* at the end —
`move_rejected_unchanged`, `move_accepted_iff`, `move_accepted_push`, `takeBack_*`, `reset_*`, about the model
`Model/EngineM.lean` of `engine.Engine` (`Reset`/`Move`/`TakeBack`), which the `engine` stream ties to the real code.

On top of that: `decoded_wellformed` — whatever **any** string decodes to is a well-formed position
(all redundant views agree with one mailbox board, rights among the four bits, target on the board,
clocks in `0 … MaxInt64`), and `accepted_roundtrip` — it re-encodes to a FEN that decodes to the very
same value.
-/
namespace Morlock.Props.C19
open Morlock Morlock.Model Morlock.Model.Fen Morlock.Proofs Morlock.Proofs.Fen

/-- Squares in placement order are strictly decreasing and below the bound `hi`. -/
def Decreasing : Int → List (Nat × Color × Piece) → Prop
  | _, [] => True
  | hi, (sq, _, _) :: rest => (sq : Int) ≤ hi ∧ Decreasing ((sq : Int) - 1) rest

theorem placements_go (cs : List Char) (sq : Int) (acc : List (Nat × Color × Piece)) (sq' : Int)
    (out : List (Nat × Color × Piece))
    (h : placements cs sq acc = some (sq', out)) :
    ∃ tail, out = acc.reverse ++ tail ∧ Decreasing sq tail ∧ sq' ≤ sq := by
  induction cs generalizing sq acc with
  | nil =>
    simp [placements] at h
    exact ⟨[], by simp [h.2.symm], trivial, by omega⟩
  | cons r rs ih =>
    unfold placements at h
    split at h
    · exact ih sq acc h
    · split at h
      · obtain ⟨tail, h1, h2, h3⟩ := ih _ acc h
        refine ⟨tail, h1, ?_, by omega⟩
        -- a smaller cursor bound implies the larger one
        have mono : ∀ (l : List (Nat × Color × Piece)) (a b : Int), a ≤ b → Decreasing a l → Decreasing b l := by
          intro l; cases l with
          | nil => intros; trivial
          | cons x xs => intro a b hab hd; exact ⟨by have := hd.1; omega, hd.2⟩
        exact mono tail _ sq (by omega) h2
      · split at h
        · simp at h
        · rename_i c k _
          split at h
          · simp at h
          · rename_i hneg
            obtain ⟨tail, h1, h2, h3⟩ := ih (sq - 1) ((sq.toNat, c, k) :: acc) h
            refine ⟨(sq.toNat, c, k) :: tail, by simp [h1], ⟨by omega, ?_⟩, by omega⟩
            have : ((sq.toNat : Nat) : Int) = sq := by omega
            rw [this]; exact h2

/-- Every placement `Decode` passes to `NewPosition` is on the board (`< 64`), and the squares are
    strictly decreasing — no index out of range, no square placed twice. -/
theorem placements_in_range (cs : List Char) (sq' : Int) (out : List (Nat × Color × Piece))
    (h : placements cs 63 [] = some (sq', out)) : Decreasing 63 out := by
  obtain ⟨tail, h1, h2, _⟩ := placements_go cs 63 [] sq' out h
  simpa [h1] using h2

theorem decreasing_lt (hi : Int) (l : List (Nat × Color × Piece)) (h : Decreasing hi l) :
    ∀ e ∈ l, (e.1 : Int) ≤ hi := by
  induction l generalizing hi with
  | nil => simp
  | cons x xs ih =>
    intro e he
    cases he with
    | head => exact h.1
    | tail _ hm => have := ih _ h.2 e hm; have := h.1; omega

/-- The witnesses of the repaired defect are rejected, not crashed on. -/
theorem overflow_witness_rejected :
    decode ("8/8/8/8/8/8/8/8P" ++ String.ofList (List.replicate 28 '9') ++ "3 w - - 0 1").toList = none := by decide

example : (decode "8/8/8/8/8/8/8/4K2k w - - 0 1".toList).isSome = true := by decide

/-! ## Accepted input is well-formed -/

/-- `Decreasing 63` placements are on the board. -/
theorem decreasing_valid {l : List (Nat × Color × Piece)} (h : Decreasing 63 l) : ∀ e ∈ l, e.1 < 64 := by
  intro e he
  have := decreasing_lt 63 l h e he
  omega

/-- **C19 `decoded_wellformed`.** For *every* string `s`: if `Decode` accepts `s`, the position it
    returns has all its redundant views (occupancy, colour sets, piece sets, the three rotated
    occupancies) in agreement with one mailbox board (`Rep`, nothing outside the 64 squares, no
    `NoPiece` entries), its castling rights are among the four bits, its en-passant target is a
    square, and both clocks are in `0 … MaxInt64`. -/
theorem decoded_wellformed {s : List Char} {d : Decoded} (h : decode s = some d) :
    (∃ b, Rep d.pos b) ∧ d.pos.castling < 16 ∧ d.pos.enpassant < 64 ∧
      (0 ≤ d.noprogress ∧ d.noprogress ≤ 9223372036854775807) ∧
      (0 ≤ d.fullmoves ∧ d.fullmoves ≤ 9223372036854775807) := by
  obtain ⟨p0, p1, p2, p3, p4, p5, pl, cr, ep, _, h0, _, h2, h3, h4, h4', h5, h5', h6⟩ := decode_inv h
  -- the squares are in range by `placements_in_range`; the pieces are real by `placements_valid`
  have hrange := decreasing_valid (placements_in_range p0 (-1) pl h0)
  have hv : ValidPlacements pl := fun x hx => ⟨hrange x hx, ((placements_valid h0).1 x hx).2⟩
  obtain ⟨hr, hc, he⟩ := newPosition_rep hv h6
  exact ⟨⟨_, hr⟩, by rw [hc]; exact parseCastling_lt h2, by rw [he]; exact epField_lt h3,
    ⟨h4', (atoi_range h4).2⟩, ⟨h5', (atoi_range h5).2⟩⟩

/-- The board the decoded position represents is the one `Square` reads back. -/
theorem decoded_rep_square {s : List Char} {d : Decoded} (h : decode s = some d) : Rep d.pos d.pos.square := by
  obtain ⟨⟨b, hb⟩, _⟩ := decoded_wellformed h
  rw [← hb.board_eq]; exact hb

/-- **C19 `accepted_roundtrip`.** Whatever `Decode` accepts re-encodes to a FEN that decodes to the
    same value (position with all views, side, clocks): accepted input is never "half-parsed". -/
theorem accepted_roundtrip {s : List Char} {d : Decoded} (h : decode s = some d) :
    decode (encode d.pos d.turn d.noprogress d.fullmoves).toList = some d := by
  obtain ⟨⟨b, hb⟩, hc, he, ⟨n0, n1⟩, ⟨f0, f1⟩⟩ := decoded_wellformed h
  have e1 : ((d.noprogress.toNat : Nat) : Int) = d.noprogress := Int.toNat_of_nonneg n0
  have e2 : ((d.fullmoves.toNat : Nat) : Int) = d.fullmoves := Int.toNat_of_nonneg f0
  have := decode_encode_of_rep hb hc he d.turn d.noprogress.toNat d.fullmoves.toNat (by omega) (by omega)
  rw [e1, e2] at this
  exact this

/-- Whatever `Decode` accepts re-encodes to a line of the standard grammar (`Canonical`): one round
    trip normalises every accepted spelling (upper-case side, repeated or unordered rights, signs,
    leading zeros, surrounding blanks, missing or misplaced `/` as long as 64 squares are described). -/
theorem accepted_normalised {s : List Char} {d : Decoded} (h : decode s = some d) :
    Canonical (encode d.pos d.turn d.noprogress d.fullmoves).toList := by
  obtain ⟨⟨b, hb⟩, hc, he, ⟨n0, _⟩, ⟨f0, _⟩⟩ := decoded_wellformed h
  have := encode_canonical hb hc he d.turn d.noprogress.toNat d.fullmoves.toNat
  rwa [Int.toNat_of_nonneg n0, Int.toNat_of_nonneg f0] at this

/-- A non-canonical but accepted line (upper-case side, repeated rights, sign and leading zeros on
    the clocks, surrounding blanks): well-formed, and normalised by one round trip. -/
example : ∃ d, decode "  4k3/8/8/8/8/8/8/R3K2R W QKQ - +007 012 ".toList = some d ∧
    (∃ b, Rep d.pos b) ∧ encode d.pos d.turn d.noprogress d.fullmoves = "4k3/8/8/8/8/8/8/R3K2R w KQ - 7 12" ∧
    decode "4k3/8/8/8/8/8/8/R3K2R w KQ - 7 12".toList = some d := by
  have hs : (decode "  4k3/8/8/8/8/8/8/R3K2R W QKQ - +007 012 ".toList).isSome = true := by decide +kernel
  obtain ⟨d, hd⟩ := Option.isSome_iff_exists.mp hs
  have he : (decode "  4k3/8/8/8/8/8/8/R3K2R W QKQ - +007 012 ".toList).map
      (fun d => encode d.pos d.turn d.noprogress d.fullmoves) = some "4k3/8/8/8/8/8/8/R3K2R w KQ - 7 12" := by
    decide +kernel
  rw [hd] at he
  simp only [Option.map_some, Option.some.injEq] at he
  exact ⟨d, hd, (decoded_wellformed hd).1, he, he ▸ accepted_roundtrip hd⟩

/-! ## The engine: `Engine.Move`, `Engine.TakeBack`, `Engine.Reset` (`Model/EngineM.lean`)

`e.move z txt`, `e.takeBack`, `e.reset z txt` return the new engine and whether the Go method returned `nil`.
`e.pos` / `e.turn` are `e.b.Position()` / `e.b.Turn()`. `Engine.Ok e`: the arena is well-formed, board 0 exists and
has not been adjudicated as checkmate / stalemate (`Engine.Open e`; nothing in the engine does that to `e.b` — the
search works on forks — and `PushMove` refuses every move on such a board, legal or not). `WF` / `WFplay` are the
well-formedness predicates of C01 (`WFplay` adds "the side that has just moved is not in check" and is the one
preserved by play). -/
section Engine
open Morlock.Proofs.Gen Morlock.Proofs.Chain Morlock.Proofs.Arena Morlock.Model.World

/-- **C19 `move_rejected_unchanged`.** If `Engine.Move` returns an error — the text does not parse, no generated move
    `Equals` the candidate, or `PushMove` refuses it — the engine is the one it was given: the whole world (every board,
    every node of the history, result, counters, repetition map), not only what `Position()` prints. -/
theorem move_rejected_unchanged (z : ZTable) (e : EngineM) (txt : List Char) (h : (e.move z txt).2 = false) :
    (e.move z txt).1 = e := Engine.move_rejected_unchanged z e txt h

/-- The same for `Engine.TakeBack` (nothing to take back) … -/
theorem takeBack_rejected_unchanged (e : EngineM) (h : e.takeBack.2 = false) : e.takeBack.1 = e :=
  Engine.takeBack_rejected_unchanged e h

/-- … and `Engine.Reset` (`fen.Decode` refuses the text). -/
theorem reset_rejected_unchanged (z : ZTable) (e : EngineM) (txt : List Char) (h : (e.reset z txt).2 = false) :
    (e.reset z txt).1 = e := Engine.reset_rejected_unchanged z e txt h

/-- **C19 `move_accepted_iff`.** On a well-formed current position (board not adjudicated) `Engine.Move` accepts a
    text **iff** `board.ParseMove` accepts it and the candidate — its from-square, to-square and promotion piece —
    is a legal move of the reference rules (`Spec.legalMoves`, FIDE) in the current position. Any string: too short,
    too long, non-ASCII, wrong case, a pseudo-legal move that leaves the king in check, a promotion without or with
    a wrong piece letter. (Through C01 `legal_perm`; the loop of `Engine.Move` lets the *first* generated move that
    `Equals` the candidate decide, which is right because no two generated moves share from, to and promotion —
    C01 `pseudo_nodup`.) -/
theorem move_accepted_iff (z : ZTable) (e : EngineM) (txt : List Char) (hw : WF e.pos e.turn) (ho : Engine.Open e) :
    (e.move z txt).2 = true ↔
      ∃ cand, parseMove txt = some cand ∧ absMove cand ∈ Spec.legalMoves (abs e.pos e.turn) := by
  rw [Engine.move_accepted_iff_model z e txt hw ho]
  constructor
  · rintro ⟨cand, m, h1, h2, h3⟩; exact ⟨cand, h1, (Engine.denotes_legal_iff hw cand).2 ⟨m, h2, h3⟩⟩
  · rintro ⟨cand, h1, h2⟩
    obtain ⟨m, hm, he⟩ := (Engine.denotes_legal_iff hw cand).1 h2
    exact ⟨cand, m, h1, hm, he⟩

/-- The same against the model's own legal-move list. -/
theorem move_accepted_iff_model (z : ZTable) (e : EngineM) (txt : List Char) (hw : WF e.pos e.turn) (ho : Engine.Open e) :
    (e.move z txt).2 = true ↔
      ∃ cand m, parseMove txt = some cand ∧ m ∈ e.pos.legalMoves e.turn ∧ cand.equals m = true :=
  Engine.move_accepted_iff_model z e txt hw ho

/-- **C19 `move_accepted_push`.** When `Engine.Move` accepts, the new state is `PushMove` of the legal move the text
    denotes: that move `m` is a legal move of the model with the candidate's from, to and promotion, a legal move of the
    reference; the new world is `pushMove` of it (C05/C08 say what that records); `LastMove` reports it; the new position
    is the reference position after the move, with the other side to move; and the invariants (`Ok`, `WFplay`) hold again,
    so the next text is judged by `move_accepted_iff` too. -/
theorem move_accepted_push (z : ZTable) (e : EngineM) (txt : List Char) (hk : Engine.Ok e) (hw : WFplay e.pos e.turn)
    (h : (e.move z txt).2 = true) :
    ∃ cand m, parseMove txt = some cand ∧ m ∈ e.pos.legalMoves e.turn ∧ absMove m = absMove cand ∧
      absMove cand ∈ Spec.legalMoves (abs e.pos e.turn) ∧
      e.w.pushMove z 0 m = some (e.move z txt).1.w ∧
      (e.move z txt).1.w.lastMove 0 = some m ∧
      (e.move z txt).1.turn = e.turn.opp ∧
      abs (e.move z txt).1.pos (e.move z txt).1.turn = Spec.apply (abs e.pos e.turn) (absMove cand) ∧
      WFplay (e.move z txt).1.pos (e.move z txt).1.turn ∧ Engine.Ok (e.move z txt).1 := by
  obtain ⟨cand, m, h1, h2, h3, h4, h5, h6, h7⟩ := Engine.move_accepted_pos z e txt hk h
  have hm := (C01.legal_iff _ _ _).1 h2
  have he := (Engine.equals_iff_absMove cand m).1 h3
  refine ⟨cand, m, h1, h2, he.symm, (Engine.denotes_legal_iff hw.1 cand).2 ⟨m, h2, h3⟩, h4, h7, h6, ?_, ?_,
    Engine.ok_move z e txt hk h⟩
  · rw [h6, he]; exact step_refines hw hm.1 h5
  · rw [h6]; exact wf_preserved hw hm.1 h5

/-- `Engine.TakeBack` is accepted iff there is a move to take back (`LastMove` reports one) … -/
theorem takeBack_accepted_iff (e : EngineM) : e.takeBack.2 = true ↔ (e.w.lastMove 0).isSome = true :=
  Engine.takeBack_accepted_iff e

/-- … and then the new state is `PopMove`, which returned that move (C08 says what it restores); the invariant holds again. -/
theorem takeBack_accepted_pop (e : EngineM) (hk : Engine.Ok e) (h : e.takeBack.2 = true) :
    (∃ m, e.w.lastMove 0 = some m ∧ e.w.popMove 0 = some (e.takeBack.1.w, m)) ∧ Engine.Ok e.takeBack.1 :=
  ⟨Engine.takeBack_accepted e h, Engine.ok_takeBack e hk h⟩

/-- An accepted move followed by `TakeBack`: accepted, and everything the board reports — position, side, hash,
    clocks, counters, has-castled flags, `LastMove`, `SecondToLastMove`, `HasMoved`, the repetition map — is as before
    the move (C08 `push_pop`; `CastleFresh`: nobody castles with his has-castled flag already set, see C08); the
    result is `Undecided`. -/
theorem move_takeBack (z : ZTable) (e : EngineM) (txt : List Char) (hk : Engine.Ok e) (h : (e.move z txt).2 = true)
    (hc : ∀ m ∈ e.pos.legalMoves e.turn, CastleFresh e.w 0 m) :
    (e.move z txt).1.takeBack.2 = true ∧
    obsNoResult (e.move z txt).1.takeBack.1.w 0 = obsNoResult e.w 0 ∧
    ((e.move z txt).1.takeBack.1.w.board 0).result = { outcome := .undecided } :=
  Engine.move_takeBack z e txt hk h hc

/-- `Engine.Reset` is accepted iff `fen.Decode` accepts the text … -/
theorem reset_accepted_iff (z : ZTable) (e : EngineM) (txt : List Char) :
    (e.reset z txt).2 = true ↔ (decode txt).isSome = true := Engine.reset_accepted_iff z e txt

/-- … and then the game is a new board on the decoded value, without history: position, side to move, no last move;
    `Position()` prints the standard spelling of the text, which decodes to the same value (`accepted_roundtrip`);
    the position is well-formed in the sense of `decoded_wellformed`; the invariant `Ok` holds. -/
theorem reset_accepted_new (z : ZTable) (e : EngineM) (txt : List Char) (d : Decoded) (hd : decode txt = some d) :
    (e.reset z txt).2 = true ∧
    (e.reset z txt).1.w = (({} : World).newBoard z d.pos d.turn d.noprogress d.fullmoves).1 ∧
    (e.reset z txt).1.pos = d.pos ∧ (e.reset z txt).1.turn = d.turn ∧ (e.reset z txt).1.w.lastMove 0 = none ∧
    decode (e.reset z txt).1.position.toList = some d ∧
    Rep (e.reset z txt).1.pos (e.reset z txt).1.pos.square ∧ Engine.Ok (e.reset z txt).1 := by
  obtain ⟨h1, h2, h3, h4, h5, h6⟩ := Engine.reset_accepted z e txt d hd
  refine ⟨h1, h2, h3, h4, h5, ?_, ?_, Engine.ok_reset z e txt h1⟩
  · rw [h6]; exact accepted_roundtrip hd
  · rw [h3]; exact decoded_rep_square hd

/-- Feeding a list of texts to `Engine.Move`, one after the other, whatever is accepted. -/
def feed (z : ZTable) : EngineM → List (List Char) → EngineM
  | e, [] => e
  | e, t :: ts => feed z (e.move z t).1 ts

/-- The invariant under which `move_accepted_iff` speaks survives any list of texts. -/
theorem feed_inv (z : ZTable) (e : EngineM) (ts : List (List Char)) (hk : Engine.Ok e) (hw : WFplay e.pos e.turn) :
    Engine.Ok (feed z e ts) ∧ WFplay (feed z e ts).pos (feed z e ts).turn := by
  induction ts generalizing e with
  | nil => exact ⟨hk, hw⟩
  | cons t ts ih =>
    cases h : (e.move z t).2 with
    | false =>
      have := move_rejected_unchanged z e t h
      simp only [feed, this]; exact ih e hk hw
    | true =>
      obtain ⟨_, _, _, _, _, _, _, _, _, _, hw', hk'⟩ := move_accepted_push z e t hk hw h
      exact ih _ hk' hw'

/-- **C19 for a whole game.** Set up from a text `fen.Decode` accepts whose position satisfies `WFplay` (the start
    position does), and fed *any* list of strings: the next string is accepted exactly when it denotes a legal move
    of the reference rules in the position then current; and a rejected string changes nothing. -/
theorem game_move_accepted_iff (z : ZTable) (e0 : EngineM) (fenTxt : List Char) (d : Decoded) (hd : decode fenTxt = some d)
    (hw : WFplay d.pos d.turn) (ts : List (List Char)) (txt : List Char) :
    let e := feed z (e0.reset z fenTxt).1 ts
    ((e.move z txt).2 = true ↔ ∃ cand, parseMove txt = some cand ∧ absMove cand ∈ Spec.legalMoves (abs e.pos e.turn)) ∧
    ((e.move z txt).2 = false → (e.move z txt).1 = e) := by
  obtain ⟨_, _, h3, h4, _, _, _, hk⟩ := reset_accepted_new z e0 fenTxt d hd
  have hw0 : WFplay (e0.reset z fenTxt).1.pos (e0.reset z fenTxt).1.turn := by rw [h3, h4]; exact hw
  obtain ⟨hk', hw'⟩ := feed_inv z _ ts hk hw0
  exact ⟨move_accepted_iff z _ txt hw'.1 hk'.notBlocked, move_rejected_unchanged z _ txt⟩

/-! ### On the start position -/

open Morlock.Proofs (exZ)

private def startFen : List Char := "rnbqkbnr/pppppppp/8/8/8/8/PPPPPPPP/RNBQKBNR w KQkq - 0 1".toList

/-- The engine after `Reset(fen.Initial)` (sample Zobrist table `exZ`). -/
def exEngine : EngineM := ((default : EngineM).reset exZ startFen).1

theorem exEngine_decoded : ∃ d, decode startFen = some d ∧ d.pos = startPos ∧ d.turn = .white := by
  have h : ((decode startFen).map fun d => (d.pos, d.turn)) = some (startPos, Color.white) := by decide +kernel
  cases hd : decode startFen with
  | none => rw [hd] at h; cases h
  | some d =>
    rw [hd] at h
    simp only [Option.map_some, Option.some.injEq, Prod.mk.injEq] at h
    exact ⟨d, rfl, h.1, h.2⟩

theorem exEngine_inv : Engine.Ok exEngine ∧ exEngine.pos = startPos ∧ exEngine.turn = .white := by
  obtain ⟨d, hd, hp, ht⟩ := exEngine_decoded
  obtain ⟨_, _, h3, h4, _, _, _, hk⟩ := reset_accepted_new exZ default startFen d hd
  exact ⟨hk, h3.trans hp, h4.trans ht⟩

/-- `e2e4` is accepted; `e2e5` (no such move), `e1e2` (own pawn in the way), `zzzz`, `e2é` (three runes, one of them not
    ASCII), the empty string and `e2e4q` (a promotion that is none) are rejected — by evaluation of the model … -/
example : (exEngine.move exZ "e2e4".toList).2 = true ∧ (exEngine.move exZ "E2E4".toList).2 = true ∧
    (exEngine.move exZ "e2e5".toList).2 = false ∧ (exEngine.move exZ "e1e2".toList).2 = false ∧
    (exEngine.move exZ "zzzz".toList).2 = false ∧ (exEngine.move exZ "e2é".toList).2 = false ∧
    (exEngine.move exZ [] ).2 = false ∧ (exEngine.move exZ "e2e4q".toList).2 = false := by decide +kernel

/-- … and, through `move_accepted_iff`, that is the verdict of the reference rules: `e2e4` is a legal move of the
    reference in the start position, `e2e5` is not. -/
example : (⟨11, 27, none⟩ : Spec.SMove) ∈ Spec.legalMoves (abs startPos .white) ∧
    (⟨11, 35, none⟩ : Spec.SMove) ∉ Spec.legalMoves (abs startPos .white) := by
  obtain ⟨hk, hp, ht⟩ := exEngine_inv
  have hw : WF exEngine.pos exEngine.turn := by rw [hp, ht]; exact startPos_wfplay.1
  constructor
  · have h : (exEngine.move exZ "e2e4".toList).2 = true := by decide +kernel
    obtain ⟨cand, hc, hl⟩ := (move_accepted_iff exZ exEngine _ hw hk.notBlocked).1 h
    have : cand = { «from» := 11, to := 27 } := by
      have : parseMove "e2e4".toList = some { «from» := 11, to := 27 } := by decide
      rw [this] at hc; exact (Option.some.inj hc).symm
    rw [this, hp, ht] at hl; exact hl
  · intro hl
    have h : (exEngine.move exZ "e2e5".toList).2 = false := by decide +kernel
    have hp' : parseMove "e2e5".toList = some { «from» := 11, to := 35 } := by decide
    have := (move_accepted_iff exZ exEngine _ hw hk.notBlocked).2 ⟨_, hp', by rw [hp, ht]; exact hl⟩
    rw [h] at this; cases this

/-- Rejected input leaves the engine as it was (`move_rejected_unchanged` instantiated); an accepted move can be
    taken back, a second take-back is refused and changes nothing either. -/
example : (exEngine.move exZ "e2é".toList).1 = exEngine ∧ (exEngine.move exZ "e2e5".toList).1 = exEngine ∧
    exEngine.takeBack.1 = exEngine ∧ (exEngine.reset exZ "8/8 w - - 0 1".toList).1 = exEngine :=
  ⟨move_rejected_unchanged exZ _ _ (by decide +kernel), move_rejected_unchanged exZ _ _ (by decide +kernel),
   takeBack_rejected_unchanged _ (by decide +kernel), reset_rejected_unchanged exZ _ _ (by decide +kernel)⟩

example : (exEngine.move exZ "e2e4".toList).1.takeBack.2 = true ∧
    (exEngine.move exZ "e2e4".toList).1.takeBack.1.position = exEngine.position ∧
    (exEngine.move exZ "e2e4".toList).1.takeBack.1.takeBack.2 = false := by decide +kernel

/-- `game_move_accepted_iff` on the start position: whatever strings were fed before, the next one is accepted iff it
    denotes a legal move of the reference. -/
example (ts : List (List Char)) (txt : List Char) :
    ((feed exZ exEngine ts).move exZ txt).2 = true ↔
      ∃ cand, parseMove txt = some cand ∧
        absMove cand ∈ Spec.legalMoves (abs (feed exZ exEngine ts).pos (feed exZ exEngine ts).turn) := by
  obtain ⟨d, hd, hp, ht⟩ := exEngine_decoded
  exact (game_move_accepted_iff exZ default startFen d hd (by rw [hp, ht]; exact startPos_wfplay) ts txt).1

end Engine

end Morlock.Props.C19
