import Morlock.Props.C12
import Morlock.Proofs.ABHaltMore
/-!
# C12, the rest: halting `Minimax`; the principal variation of the search run after a halted one

## `Minimax` (`/repo/pkg/search/minimax.go`; `Model.minimax`, `Model.mmLoop`, `Model.minimaxSearch`)

`runMinimax.search` polls the context ONCE per visited node, at node entry right after `nodes++` (there is no poll
after the move loop, unlike `runAlphaBeta.search`), and `Minimax.Search` polls once more at the very end. A node that
sees "cancelled" answers `ZeroScore, nil` - a *score*, not a marker (`minimax_cancelled_node`) - and its ancestors keep
iterating; it is the final poll of `Minimax.Search` that turns the run into `ErrHalted` (`none`).
`ex` is any exploration that picks every move (the reference values depend on `ex` only through `pick`; `Minimax` has no
exploration); `mmNodes g ex d p` is the number of nodes of the depth-`d` tree below `p` (a drawn position is a leaf);
`V'` is the plain negamax value *without* root exception for draws (`Proofs/ABTTRef.lean`): `runMinimax.search` tests
`Result().Outcome == Draw` at the root too, `runAlphaBeta.search` does not (`V`); they agree (`V_eq_V'_on`) on every
region with no drawn position at the root ply (`RootFreeOn`).

* `minimax_halt_invalid` - `Minimax.Search` returns `none` (halted) iff its last poll reported "cancelled"; never a score.
* `minimax_halted_at` - with the context cancelled at the `k`-th poll: `none` iff `k ≤ st.polls + mmNodes + 1`, i.e. iff
  the cancellation falls on one of the `mmNodes + 1` polls of the undisturbed run.
* `minimax_no_cancel_eq_V` / `_on` - a run that is live at its end (e.g. `cancelAt = none`) returns `mmNodes` nodes, the
  value `V'` (= `V` under `RootFreeOn`) with the static leaf, and a principal variation (non-empty when the root has a
  legal move and is not mated at once). `minimax_eq_alphabeta`: the same score as `AlphaBeta` over any sound table.
* `minimax_polls` - the exact count: polls made = nodes counted, always; between 1 and `mmNodes`, always; exactly
  `mmNodes` if live at the end. `minimax_state` - `Minimax.Search` touches neither the table nor `cancelAt`.

## The follow-up search: principal variation

`C12.next_search_exact_on` shows the score of the search run after a halted one. The PV:
* `followup_pv_principal_on` / `followup_pv_principal` - it is a `Principal` variation (a best line for `V`, non-empty
  where the root has a legal move and is not mated at once), and so is the PV of the search on the untouched table;
* `followup_pv_may_differ` - but NOT necessarily the same line: on the tiny game the follow-up PV is a proper prefix
  (the halted search had stored an exact entry for the reply, and a table hit returns no continuation);
  `followup_first_move_may_differ` - and with two equally good root moves even the first move differs (the root entry
  stored by the halted shallower search reorders the moves). Both by evaluation.
* `followup_identical_of_table_unchanged` - if the halted search left the table as it found it, the follow-up search
  returns the identical result (node count, score, PV) as on the untouched state;
  `followup_identical_halted_at_once` - in particular when the context was already cancelled when the search started.
-/
namespace Morlock.Props.C12More
open Morlock Morlock.Model Morlock.Model.Score Morlock.Spec Morlock.Proofs.AB
open Morlock.Props.C09
variable {P : Type}

/-! ## Minimax -/

/-- A node of `runMinimax.search` that sees the context cancelled counts itself, polls once and answers
    `ZeroScore, nil` (a score: the halted marker is only produced by `Minimax.Search`). -/
theorem minimax_cancelled_node (g : Game P) (d : Nat) (p : P) (st : SState) (k : Nat) (hk : st.cancelAt = some k)
    (hle : k ≤ st.polls + 1) :
    minimax g d p st = (zeroScore, [], { st with nodes := st.nodes + 1, polls := st.polls + 1 }) := by
  have hc : cancelled ({ st with nodes := st.nodes + 1 } : SState) = true := by
    simp only [cancelled, poll, hk, decide_eq_true_eq]; exact hle
  cases d with
  | zero => rw [minimax_zero, if_pos hc]; rfl
  | succ d => rw [minimax_succ, if_pos hc]; rfl

/-- **C12 for Minimax (a halted run reports halted, never a score).** For every game, depth and starting state:
    `Minimax.Search` returns `none` (`ErrHalted`) exactly if its last poll reported "cancelled". -/
theorem minimax_halt_invalid (g : Game P) (p : P) (d : Nat) (st : SState) :
    (minimaxSearch g p d st).1 = none ↔ ¬ Live (minimaxSearch g p d st).2 := by
  rw [minimaxSearch_eq]
  generalize minimax g d p _ = r
  by_cases hc : cancelled r.2.2 = true
  · rw [if_pos hc]
    exact ⟨fun _ => not_live_of_cancelled hc, fun _ => rfl⟩
  · have hc' : cancelled r.2.2 = false := by simpa using hc
    rw [if_neg hc]
    exact ⟨fun h => (by cases h), fun h => absurd ((cancelled_false_iff r.2.2).1 hc') h⟩

/-- **C12 for Minimax (every cancellation point).** With the context cancelled at the `k`-th poll, `Minimax.Search`
    returns `none` iff `k ≤ st.polls + mmNodes + 1`: the undisturbed run makes exactly `mmNodes + 1` polls (one per
    node visited, one at the end), and a cancellation at any of them - or before - halts it. -/
theorem minimax_halted_at (g : Game P) (ex : P → Explore) (hfull : ∀ p m, (ex p).pick m = true) (p : P) (d : Nat)
    (st : SState) (k : Nat) (hk : st.cancelAt = some k) :
    (minimaxSearch g p d st).1 = none ↔ k ≤ st.polls + mmNodes g ex d p + 1 := by
  obtain ⟨h1, _, _, _, _, h6, h7, h8⟩ := minimaxSearch_spec g ex hfull p d st
  rw [h7]
  constructor
  · intro hnl
    apply Classical.byContradiction
    intro hgt
    apply hnl
    intro k' hk'
    rw [h1, hk] at hk'
    cases hk'
    omega
  · intro hle hl
    have h := (h8 hl).1
    have := hl k (by rw [h1]; exact hk)
    omega

/-- **Minimax without cancellation is the reference negamax.** A run that is live at its end returns the number of
    nodes of the tree, the value `V'` with the static leaf, and a principal variation for `V'`, non-empty if the
    root is not drawn, has a legal move and is not mated at once. -/
theorem minimax_no_cancel_eq_V (g : Game P) (ex : P → Explore) (hfull : ∀ p m, (ex p).pick m = true) (p : P) (d : Nat)
    (st : SState) (hl : Live (minimaxSearch g p d st).2) :
    ∃ pv, (minimaxSearch g p d st).1 = some ⟨mmNodes g ex d p, V' g ex .static d p, pv⟩ ∧
      Principal' g ex .static d p pv ∧
      (∀ d', d = d' + 1 → g.isDraw p = false → legalAny g p (g.moves p) = true →
        V' g ex .static d p ≠ negInfScore → pv ≠ []) :=
  ((minimaxSearch_spec g ex hfull p d st).2.2.2.2.2.2.2 hl).2

/-- `Live` at the end holds whenever the context is never cancelled, or cancelled too late. -/
theorem minimax_live (g : Game P) (ex : P → Explore) (hfull : ∀ p m, (ex p).pick m = true) (p : P) (d : Nat)
    (st : SState) (h : ∀ k, st.cancelAt = some k → st.polls + mmNodes g ex d p + 1 < k) :
    Live (minimaxSearch g p d st).2 := by
  obtain ⟨h1, _, _, _, _, h6, _⟩ := minimaxSearch_spec g ex hfull p d st
  intro k hk
  rw [h1] at hk
  have := h k hk
  omega

/-- The same on a region with no drawn position at ply `r` (e.g. `r = g.ply p` when the root is not drawn and plies
    grow along the tree): the value is `V` of `Proofs/ABRef.lean` (full exploration, static leaf, root ply `r`) and the
    PV is `Principal`. -/
theorem minimax_no_cancel_eq_V_on (g : Game P) (ex : P → Explore) (hfull : ∀ p m, (ex p).pick m = true)
    {R : Nat → P → Prop} (hcl : Closed g ex R) (r : Int) (hrf : RootFreeOn g R r) (p : P) (d : Nat) (hp : R d p)
    (st : SState) (hc : st.cancelAt = none) :
    ∃ pv, (minimaxSearch g p d st).1 = some ⟨mmNodes g ex d p, V g ex .static r d p, pv⟩ ∧
      Principal g ex .static r d p pv := by
  have hl := minimax_live g ex hfull p d st (fun k hk => by rw [hc] at hk; cases hk)
  obtain ⟨pv, e1, e2, _⟩ := minimax_no_cancel_eq_V g ex hfull p d st hl
  exact ⟨pv, by rw [e1, V_eq_V'_on ex .static hcl hrf d p hp], principal_of_principal' hcl hrf pv d p hp e2⟩

/-- **Minimax is a reference for AlphaBeta.** Under the hypotheses of C11 (`search_exact_on`: full exploration, static
    leaf, any sound table), both without cancellation, `AlphaBeta.Search` and `Minimax.Search` report the same score. -/
theorem minimax_eq_alphabeta (g : Game P) (ex : P → Explore) (hfull : ∀ p m, (ex p).pick m = true) (hev : EvalOk g)
    {R : Nat → P → Prop} (hcl : Closed g ex R) (hh : HashOKOn g ex .static R)
    (p : P) (hrf : RootFreeOn g R (g.ply p)) (d : Nat) (hd : d ≤ 127) (hp : R d p)
    (st : SState) (hs : SoundOn g ex .static R st.tt) (hc : st.cancelAt = none) (st' : SState) (hc' : st'.cancelAt = none) :
    (alphaBetaSearch g ex .static p d invalidScore invalidScore st).1.map (·.score) =
      (minimaxSearch g p d st').1.map (·.score) := by
  obtain ⟨_, _, n, pv, e, _⟩ := C11.search_exact_on g ex .static hev hcl hh p hrf d (by simpa [leafGrade] using hd) hp st hs hc
  obtain ⟨pv', e', _⟩ := minimax_no_cancel_eq_V_on g ex hfull hcl (g.ply p) hrf p d hp st' hc'
  rw [e, e']
  rfl

/-- **The exact poll count of `runMinimax.search`.** Whatever the cancellation instant, the number of polls made is
    the number of nodes counted (one poll per node, at its entry), at least 1 and at most the number of nodes of the
    tree; if no poll reported "cancelled" it is exactly the number of nodes of the tree. -/
theorem minimax_polls (g : Game P) (ex : P → Explore) (hfull : ∀ p m, (ex p).pick m = true) (d : Nat) (p : P)
    (st : SState) :
    (minimax g d p st).2.2.polls - st.polls = (minimax g d p st).2.2.nodes - st.nodes ∧
    st.polls + 1 ≤ (minimax g d p st).2.2.polls ∧
    (minimax g d p st).2.2.polls ≤ st.polls + mmNodes g ex d p ∧
    (Live (minimax g d p st).2.2 → (minimax g d p st).2.2.polls = st.polls + mmNodes g ex d p) := by
  obtain ⟨h1, h2, h3⟩ := minimax_spec g ex hfull d p st
  have := h1.count
  exact ⟨by omega, h2, h1.hi, fun hl => (h3 hl).1⟩

/-- `Minimax.Search` leaves nothing behind: the table, the cancellation instant and the fuel flag are untouched; it
    makes one more poll than it counts nodes, between 2 and `mmNodes + 1`, exactly `mmNodes + 1` if it is not halted. -/
theorem minimax_state (g : Game P) (ex : P → Explore) (hfull : ∀ p m, (ex p).pick m = true) (p : P) (d : Nat)
    (st : SState) :
    (minimaxSearch g p d st).2.tt = st.tt ∧ (minimaxSearch g p d st).2.cancelAt = st.cancelAt ∧
    (minimaxSearch g p d st).2.fuelOut = st.fuelOut ∧
    (minimaxSearch g p d st).2.polls = (minimaxSearch g p d st).2.nodes + st.polls + 1 ∧
    st.polls + 2 ≤ (minimaxSearch g p d st).2.polls ∧
    (minimaxSearch g p d st).2.polls ≤ st.polls + mmNodes g ex d p + 1 ∧
    ((minimaxSearch g p d st).1 ≠ none → (minimaxSearch g p d st).2.polls = st.polls + mmNodes g ex d p + 1) := by
  obtain ⟨h1, h2, h3, h4, h5, h6, h7, h8⟩ := minimaxSearch_spec g ex hfull p d st
  refine ⟨h2, h1, h3, h4, h5, h6, fun hne => (h8 ?_).1⟩
  apply Classical.byContradiction
  intro hnl
  exact hne (h7.2 hnl)

/-! ## The follow-up search: its principal variation -/

/-- **C12 (the search after a halted one returns a best line).** Halt a search at an arbitrary instant `k`, then run any
    search on the table it left, with a fresh context: it returns the value `V` of its root with a `Principal`
    variation - every move of it attains the negamax value of the position it is played in - which is non-empty if the
    root has a legal move and is not mated at once. The same holds for the search on the untouched state `st`: both
    lines are best lines of the same value (they need not be the same line: `followup_pv_may_differ`). -/
theorem followup_pv_principal_on (g : Game P) (ex : P → Explore) (le : LeafEval P) (hev : EvalOk g)
    {U : Nat → P → Prop} (hh : HashOKOn g ex le U)
    (p : P) (d : Nat) (hd : leafGrade le + d ≤ 127)
    (hpU : ∀ n x, Tree g ex p d n x → U n x) (hrf : RootFreeOn g (Tree g ex p d) (g.ply p))
    (q : P) (d2 : Nat) (hd2 : leafGrade le + d2 ≤ 127)
    (hqU : ∀ n x, Tree g ex q d2 n x → U n x) (hrfq : RootFreeOn g (Tree g ex q d2) (g.ply q))
    (st : SState) (hs : SoundOn g ex le U st.tt) (k : Nat) :
    let halted := alphaBetaSearch g ex le p d invalidScore invalidScore { st with cancelAt := some k }
    (∃ n pv, (alphaBetaSearch g ex le q d2 invalidScore invalidScore { halted.2 with cancelAt := none }).1 =
        some ⟨n, V g ex le (g.ply q) d2 q, pv⟩ ∧ Principal g ex le (g.ply q) d2 q pv ∧
      (∀ d', d2 = d' + 1 → legalAny g q (g.moves q) = true → V g ex le (g.ply q) d2 q ≠ negInfScore → pv ≠ [])) ∧
    (∃ n pv, (alphaBetaSearch g ex le q d2 invalidScore invalidScore { st with cancelAt := none }).1 =
        some ⟨n, V g ex le (g.ply q) d2 q, pv⟩ ∧ Principal g ex le (g.ply q) d2 q pv ∧
      (∀ d', d2 = d' + 1 → legalAny g q (g.moves q) = true → V g ex le (g.ply q) d2 q ≠ negInfScore → pv ≠ [])) := by
  intro halted
  have h2 : SoundOn g ex le U halted.2.tt :=
    (alphaBetaSearch_tt hev ex le (tree_closed g ex p d) hpU hh p hrf d hd (tree_root g ex p d)
      { st with cancelAt := some k } hs).2.1
  obtain ⟨m1, _, _, f1⟩ := alphaBetaSearch_tt hev ex le (tree_closed g ex q d2) hqU hh q hrfq d2 hd2
    (tree_root g ex q d2) { halted.2 with cancelAt := none } h2
  obtain ⟨m2, _, _, f2⟩ := alphaBetaSearch_tt hev ex le (tree_closed g ex q d2) hqU hh q hrfq d2 hd2
    (tree_root g ex q d2) { st with cancelAt := none } hs
  exact ⟨f1 (live_of_none (by rw [m1.1])), f2 (live_of_none (by rw [m2.1]))⟩

/-- Global form of `followup_pv_principal_on` (`U := Everywhere`; see the remark in C11). -/
theorem followup_pv_principal (g : Game P) (ex : P → Explore) (le : LeafEval P) (hev : EvalOk g) (hh : HashOK g ex le)
    (p : P) (hrf : RootFree g (g.ply p)) (d : Nat) (hd : leafGrade le + d ≤ 127)
    (q : P) (hrfq : RootFree g (g.ply q)) (d2 : Nat) (hd2 : leafGrade le + d2 ≤ 127)
    (st : SState) (hs : Sound g ex le st.tt) (k : Nat) :
    let halted := alphaBetaSearch g ex le p d invalidScore invalidScore { st with cancelAt := some k }
    (∃ n pv, (alphaBetaSearch g ex le q d2 invalidScore invalidScore { halted.2 with cancelAt := none }).1 =
        some ⟨n, V g ex le (g.ply q) d2 q, pv⟩ ∧ Principal g ex le (g.ply q) d2 q pv ∧
      (∀ d', d2 = d' + 1 → legalAny g q (g.moves q) = true → V g ex le (g.ply q) d2 q ≠ negInfScore → pv ≠ [])) ∧
    (∃ n pv, (alphaBetaSearch g ex le q d2 invalidScore invalidScore { st with cancelAt := none }).1 =
        some ⟨n, V g ex le (g.ply q) d2 q, pv⟩ ∧ Principal g ex le (g.ply q) d2 q pv ∧
      (∀ d', d2 = d' + 1 → legalAny g q (g.moves q) = true → V g ex le (g.ply q) d2 q ≠ negInfScore → pv ≠ [])) :=
  followup_pv_principal_on g ex le hev (hh.on Everywhere) p d hd (fun _ _ _ => trivial) (hrf.on _)
    q d2 hd2 (fun _ _ _ => trivial) (hrfq.on _) st (sound_iff_on.1 hs) k

/-- **If the halted search left the table as it found it, nothing at all differs.** The follow-up search then returns
    the identical result - node count, score and principal variation - as the search on the untouched state: the
    counters of the incoming state are immaterial (C18, `Det.alphaBetaSearch_fresh`). No hypothesis on the game. -/
theorem followup_identical_of_table_unchanged (g : Game P) (ex : P → Explore) (le : LeafEval P)
    (p : P) (d : Nat) (q : P) (d2 : Nat) (a b : Score) (st : SState) (k : Nat)
    (htt : (alphaBetaSearch g ex le p d invalidScore invalidScore { st with cancelAt := some k }).2.tt = st.tt) :
    (alphaBetaSearch g ex le q d2 a b
      { (alphaBetaSearch g ex le p d invalidScore invalidScore { st with cancelAt := some k }).2 with
        cancelAt := none }).1 =
    (alphaBetaSearch g ex le q d2 a b { st with cancelAt := none }).1 :=
  alphaBetaSearch_of_tt_eq g ex le q d2 a b _ _ rfl rfl htt

/-- A search started on a context that is already cancelled (`k ≤ st.polls + 1`) polls twice, reports halted and
    leaves the table as it was; the search run next returns the identical result (nodes, score, PV). -/
theorem followup_identical_halted_at_once (g : Game P) (ex : P → Explore) (le : LeafEval P)
    (p : P) (d : Nat) (q : P) (d2 : Nat) (a b : Score) (st : SState) (k : Nat) (hle : k ≤ st.polls + 1) :
    (alphaBetaSearch g ex le p d invalidScore invalidScore { st with cancelAt := some k }).2.tt = st.tt ∧
    (alphaBetaSearch g ex le q d2 a b
      { (alphaBetaSearch g ex le p d invalidScore invalidScore { st with cancelAt := some k }).2 with
        cancelAt := none }).1 =
    (alphaBetaSearch g ex le q d2 a b { st with cancelAt := none }).1 := by
  have htt := alphaBetaSearch_cancelled_at_once_tt g ex le p d { st with cancelAt := some k } k rfl hle
  exact ⟨htt, followup_identical_of_table_unchanged g ex le p d q d2 a b st k htt⟩

/-! ## The PV of the follow-up search is not determined: two counterexamples (by evaluation) -/

section Tiny
open C13 C11

/-- **The PV of the follow-up search may differ (shorter line).** Tiny game of C13, root 0 to depth 2, a table of two
    slots: halted at the 13th poll the search reports `none` and has stored two entries; the search run next returns the
    same score but the PV `[1]`, a proper prefix of the PV `[1, 0]` found on the untouched table: the reply was answered
    from the table (an exact hit carries no continuation). Both are `Principal`. -/
theorem followup_pv_may_differ :
    (alphaBetaSearch tiny allMoves .static 0 2 invalidScore invalidScore { st64 with cancelAt := some 13 }).1 = none ∧
    (alphaBetaSearch tiny allMoves .static 0 2 invalidScore invalidScore
      { (alphaBetaSearch tiny allMoves .static 0 2 invalidScore invalidScore { st64 with cancelAt := some 13 }).2 with
        cancelAt := none }).1.map (fun r => (r.nodes, r.score, r.pv)) = some (1, heuristicScore 15, [mv 1]) ∧
    (alphaBetaSearch tiny allMoves .static 0 2 invalidScore invalidScore
      { st64 with cancelAt := none }).1.map (fun r => (r.nodes, r.score, r.pv)) =
        some (6, heuristicScore 15, [mv 1, mv 0]) ∧
    Principal tiny allMoves .static 0 2 0 [mv 1] ∧ Principal tiny allMoves .static 0 2 0 [mv 1, mv 0] := by
  refine ⟨by decide, by decide, by decide, ?_, ?_⟩
  · exact ⟨2, by decide, rfl, by decide, trivial⟩
  · exact ⟨2, by decide, rfl, by decide, 5, by decide, rfl, by decide, trivial⟩

/-- The tree of `tiny` with all leaves worth 0 and the two replies worth `e1`, `e2` for the side to move there: at depth 2
    both root moves are equally good, at depth 1 they are not. -/
def tie (e1 e2 : Int) : Game Nat where
  isDraw := fun _ => false
  hash := id
  ply := fun p => if p = 0 then 0 else if p < 3 then 1 else 2
  moves := fun p => if p < 3 then [mv 0, mv 1, mv 2] else [mv 0]
  push := fun p m => if p < 3 ∧ m.to < 2 then some (2 * p + 1 + m.to) else none
  inCheck := fun _ => false
  eval := fun p => if p = 1 then e1 else if p = 2 then e2 else 0

/-- **The PV of the follow-up search may differ (another first move).** In `tie 10 (-10)` both root moves are worth 0 at
    depth 2. A depth-1 search halted at its 7th and last poll reports `none` but has stored its best move (move 1)
    for the root; the depth-2 search run next tries it first and returns the line `[1, 0]`, the same search on the
    untouched table returns `[0, 0]`. Same score, both lines principal. -/
theorem followup_first_move_may_differ :
    (alphaBetaSearch (tie 10 (-10)) allMoves .static 0 1 invalidScore invalidScore
      { st64 with cancelAt := some 7 }).1 = none ∧
    (alphaBetaSearch (tie 10 (-10)) allMoves .static 0 2 invalidScore invalidScore
      { (alphaBetaSearch (tie 10 (-10)) allMoves .static 0 1 invalidScore invalidScore
          { st64 with cancelAt := some 7 }).2 with cancelAt := none }).1.map (fun r => (r.score, r.pv)) =
        some (zeroScore, [mv 1, mv 0]) ∧
    (alphaBetaSearch (tie 10 (-10)) allMoves .static 0 2 invalidScore invalidScore
      { st64 with cancelAt := none }).1.map (fun r => (r.score, r.pv)) = some (zeroScore, [mv 0, mv 0]) ∧
    Principal (tie 10 (-10)) allMoves .static 0 2 0 [mv 1, mv 0] ∧
    Principal (tie 10 (-10)) allMoves .static 0 2 0 [mv 0, mv 0] := by
  refine ⟨by decide, by decide, by decide, ?_, ?_⟩
  · exact ⟨2, by decide, rfl, by decide, 5, by decide, rfl, by decide, trivial⟩
  · exact ⟨1, by decide, rfl, by decide, 3, by decide, rfl, by decide, trivial⟩

/-! ## Non-vacuity on the tiny game -/

theorem allMoves_full : ∀ (p : Nat) (m : Move), (allMoves p).pick m = true := fun _ _ => rfl

/-- the tree of root 0 to depth 2 has 7 nodes: `Minimax.Search` makes 8 polls; halted at `k ≤ 8` it reports `none`,
    from 9 on it is never disturbed -/
example : mmNodes tiny allMoves 2 0 = 7 ∧
    (List.range 11).map (fun k => (minimaxSearch tiny 0 2 { st64 with cancelAt := some k }).1.isSome) =
      [false, false, false, false, false, false, false, false, false, true, true] := by decide +kernel

/-- what it returns: 7 nodes, the value of C13's example, the same line as `AlphaBeta` -/
example : (minimaxSearch tiny 0 2 st64).1.map (fun r => (r.nodes, r.score, r.pv)) =
    some (7, heuristicScore 15, [mv 1, mv 0]) := by decide +kernel

-- `minimax_halted_at`
example : (minimaxSearch tiny 0 2 { st64 with cancelAt := some 8 }).1 = none :=
  (minimax_halted_at tiny allMoves allMoves_full 0 2 { st64 with cancelAt := some 8 } 8 rfl).2 (by decide)

example : (minimaxSearch tiny 0 2 { st64 with cancelAt := some 9 }).1 ≠ none :=
  fun h => absurd ((minimax_halted_at tiny allMoves allMoves_full 0 2 { st64 with cancelAt := some 9 } 9 rfl).1 h)
    (by decide)

-- `minimax_cancelled_node`: the inner search returns the score 0, not a marker
example : (minimax tiny 2 0 { st64 with cancelAt := some 1 }).1 = zeroScore := by
  rw [minimax_cancelled_node tiny 2 0 { st64 with cancelAt := some 1 } 1 rfl (by decide)]

-- `minimax_no_cancel_eq_V_on`, `minimax_eq_alphabeta` (root ply 0: `tiny`'s only drawn position is at ply 2)
example : ∃ pv, (minimaxSearch tiny 0 2 st64).1 = some ⟨7, V tiny allMoves .static 0 2 0, pv⟩ ∧
    Principal tiny allMoves .static 0 2 0 pv := by
  have := minimax_no_cancel_eq_V_on tiny allMoves allMoves_full (closed_everywhere _ _) 0
    ((tiny_rootFree 0 (by decide)).on _) 0 2 trivial st64 rfl
  rwa [show mmNodes tiny allMoves 2 0 = 7 by decide] at this

example : (alphaBetaSearch tiny allMoves .static 0 2 invalidScore invalidScore st64).1.map (·.score) =
    (minimaxSearch tiny 0 2 {}).1.map (·.score) :=
  minimax_eq_alphabeta tiny allMoves allMoves_full tiny_evalOk (closed_everywhere _ _) ((tiny_hashOK _).on _) 0
    ((tiny_rootFree _ (by decide)).on _) 2 (by decide) trivial st64 (sound_iff_on.1 (fresh_sound _ _ _ 64 0)) rfl {} rfl

-- `minimax_polls`, whatever the cancellation instant
example (k : Nat) : (minimax tiny 2 0 { st64 with cancelAt := some k }).2.2.polls ≤ 7 := by
  have := (minimax_polls tiny allMoves allMoves_full 2 0 { st64 with cancelAt := some k }).2.2.1
  rwa [show mmNodes tiny allMoves 2 0 = 7 by decide, show ({ st64 with cancelAt := some k } : SState).polls = 0 from rfl,
    Nat.zero_add] at this

-- `followup_pv_principal`: halted at any instant `k`
example (k : Nat) : ∃ n pv, (alphaBetaSearch tiny allMoves .static 0 2 invalidScore invalidScore
      { (alphaBetaSearch tiny allMoves .static 0 3 invalidScore invalidScore
          { st64 with cancelAt := some k }).2 with cancelAt := none }).1 =
        some ⟨n, V tiny allMoves .static 0 2 0, pv⟩ ∧ Principal tiny allMoves .static 0 2 0 pv ∧ pv ≠ [] := by
  obtain ⟨n, pv, e1, e2, e3⟩ := (followup_pv_principal tiny allMoves .static tiny_evalOk (tiny_hashOK _) 0
    (tiny_rootFree _ (by decide)) 3 (by decide) 0 (tiny_rootFree _ (by decide)) 2 (by decide) st64
    (fresh_sound _ _ _ 64 0) k).1
  exact ⟨n, pv, e1, e2, e3 1 rfl (by decide) (by decide)⟩

-- `followup_identical_halted_at_once`
example : (alphaBetaSearch tiny allMoves .static 0 2 invalidScore invalidScore
      { (alphaBetaSearch tiny allMoves .static 0 3 invalidScore invalidScore
          { st64 with cancelAt := some 1 }).2 with cancelAt := none }).1 =
    (alphaBetaSearch tiny allMoves .static 0 2 invalidScore invalidScore { st64 with cancelAt := none }).1 :=
  (followup_identical_halted_at_once tiny allMoves .static 0 3 0 2 _ _ st64 1 (by decide)).2

-- `followup_identical_of_table_unchanged`: halted at the 5th poll, nothing stored yet
example : (alphaBetaSearch tiny allMoves .static 0 2 invalidScore invalidScore
      { (alphaBetaSearch tiny allMoves .static 0 2 invalidScore invalidScore
          { st64 with cancelAt := some 4 }).2 with cancelAt := none }).1 =
    (alphaBetaSearch tiny allMoves .static 0 2 invalidScore invalidScore { st64 with cancelAt := none }).1 :=
  followup_identical_of_table_unchanged tiny allMoves .static 0 2 0 2 _ _ st64 4 rfl

end Tiny

/-! ## Non-vacuity on the chess game (`gX`, `wS`, `w1`, `st4k` as in C11 / C12) -/

section Chess
open C11

theorem fullX_full : ∀ (p : World) (m : Move), (fullX p).pick m = true := fun _ _ => rfl

/-- The depth-2 tree below `wS` (K + N v K + N) has 73 nodes. -/
theorem wS_mmNodes : mmNodes gX fullX 2 wS = 73 := by decide +kernel

set_option maxRecDepth 100000 in
/-- `minimax_halted_at`: `Minimax.Search` of `wS` to depth 2 makes 74 polls; cancelled at the 74th it reports `none`,
    cancelled "at the 75th" it is not disturbed. -/
example :
    (minimaxSearch gX wS 2 { st4k with cancelAt := some 74 }).1 = none ∧
    (minimaxSearch gX wS 2 { st4k with cancelAt := some 75 }).1 ≠ none :=
  ⟨(minimax_halted_at gX fullX fullX_full wS 2 { st4k with cancelAt := some 74 } 74 rfl).2
      (by rw [wS_mmNodes]; decide),
   fun h => absurd ((minimax_halted_at gX fullX fullX_full wS 2 { st4k with cancelAt := some 75 } 75 rfl).1 h)
      (by rw [wS_mmNodes]; decide)⟩

/-- `minimax_no_cancel_eq_V_on` and `minimax_eq_alphabeta` on the search tree of `wS`. -/
example : (∃ pv, (minimaxSearch gX wS 2 st4k).1 = some ⟨73, V gX fullX .static (gX.ply wS) 2 wS, pv⟩ ∧
      Principal gX fullX .static (gX.ply wS) 2 wS pv) ∧
    (alphaBetaSearch gX fullX .static wS 2 invalidScore invalidScore st4k).1.map (·.score) =
      (minimaxSearch gX wS 2 st4k).1.map (·.score) := by
  constructor
  · have := minimax_no_cancel_eq_V_on gX fullX fullX_full (tree_closed _ _ wS 2) (gX.ply wS)
      (wS_noDraw.rootFreeOn _) wS 2 (tree_root _ _ _ _) st4k rfl
    rwa [wS_mmNodes] at this
  · exact minimax_eq_alphabeta gX fullX fullX_full gX_evalOk (tree_closed _ _ wS 2) (wS_hashOK _) wS
      (wS_noDraw.rootFreeOn _) 2 (by decide) (tree_root _ _ _ _) st4k (fresh_sound_on _ _ _ _ 4096 0) rfl st4k rfl

/-- `followup_pv_principal_on`: halt the depth-2 search of `wS` at any instant `k`, then search the successor position
    `w1` (depth 1) on the table left behind: the value and a non-empty best line. -/
example (k : Nat) : ∃ n pv,
    (alphaBetaSearch gX fullX .static w1 1 invalidScore invalidScore
      { (alphaBetaSearch gX fullX .static wS 2 invalidScore invalidScore
          { st4k with cancelAt := some k }).2 with cancelAt := none }).1 =
      some ⟨n, V gX fullX .static (gX.ply w1) 1 w1, pv⟩ ∧ Principal gX fullX .static (gX.ply w1) 1 w1 pv :=
  let ⟨n, pv, e1, e2, _⟩ := (followup_pv_principal_on gX fullX .static gX_evalOk (seqX_hashOK _)
    wS 2 (by decide) (fun n x h => ⟨(wS, 2), by simp [seqX], h⟩)
    ((seqX_noDraw.mono (fun n x h => ⟨(wS, 2), by simp [seqX], h⟩)).rootFreeOn _)
    w1 1 (by decide) (fun n x h => ⟨(w1, 1), by simp [seqX], h⟩)
    ((seqX_noDraw.mono (fun n x h => ⟨(w1, 1), by simp [seqX], h⟩)).rootFreeOn _)
    st4k (fresh_sound_on _ _ _ _ 4096 0) k).1
  ⟨n, pv, e1, e2⟩

end Chess

end Morlock.Props.C12More
