import Morlock.Props.C19
import Morlock.Proofs.EngineMoveAny
/-!
# C19 on EVERY position `fen.Decode` can return (not only the well-formed ones)

`C19.move_accepted_iff` / `move_accepted_iff_model` assume `WF e.pos e.turn` (one king each, castling rights imply king and
rook at home, a consistent en-passant target). `fen.Decode` checks none of that and `Engine.Reset` sets the game up on
whatever it returns. This file says what `Engine.Move` does then.

**What `WF` was used for.** Only C01 `pseudo_nodup` (via `Engine.find_equals`): no two generated moves share from, to and
promotion, so "the FIRST generated move that `Equals` the candidate passes `PushMove`" (what the loop tests) coincides with
"SOME generated move that `Equals` the candidate passes `PushMove`" (what "denotes a legal move" means). The king facts are
not needed for the statement against the model's own `LegalMoves` (`C01.legal_iff` is hypothesis-free); they are needed only
to pass from `LegalMoves` to the reference rules (`legal_perm`), which have nothing to say about such positions anyway.

**What holds for every state, no hypothesis.**
* `move_accepted_iff_first`, `move_accepted_iff_first_legal`: the faithful restatement.
* `move_accepted_legal_any`: an ACCEPTED text always denotes a legal move of the model (`only if` never needed `WF`).
* `rejected_unchanged_any` (and the take-back / reset companions): `C19.move_rejected_unchanged` never had a hypothesis.

**What does not hold: the `if` direction.** `pseudo_nodup` is FALSE on decodable positions, in exactly two ways:
1. the en-passant target holds a piece of the side not to move and a pawn of the side to move attacks it: the generator emits
   `Capture` and then `EnPassant` with the same from/to (`witness_ep_*`: FEN `8/8/4n3/r2P3K/8/8/8/k7 w - e6 0 1`, text
   `d5e6`: the `Capture` d5xe6 comes first and is illegal (it opens the fifth rank for the rook on a5), the `EnPassant` d5xe6
   is accepted by `Position.Move` (it XORs a phantom black pawn onto e5, which blocks that rook) and so is in `LegalMoves`;
   `Engine.Move("d5e6")` answers "illegal move" although `LegalMoves` lists a move with exactly that text);
2. the side to move has a castling right, its rook at home and an empty path, but its (first) king stands next to the castle
   target instead of on e1/e8: the generator emits the king step and then the castle with the same from/to
   (`witness_castle_*`: `k7/8/8/8/8/8/6K1/7R w K - 0 1`, g2g1; there both are legal, the text plays the step, the castle
   "Kg2-g1 + Rh1-f1" cannot be entered: harmless for acceptance, `firstDecides` holds).

**The theorem under the weakest condition.** `firstDecides p turn` (a `Bool`): for every legal move, the first generated move
with the same key passes `Position.Move`. `firstDecides_iff`: on a non-adjudicated board it is EQUIVALENT to "every candidate is
accepted iff it `Equals` a legal move"; `firstDecides_of_texts`: and, on a position representing a board, to the same statement
about texts. `move_accepted_iff_firstDecides`, `move_accepted_iff_decodable_exact`.
Handier sufficient conditions on the bitboards: `epClean` (the e.p. target holds no enemy piece) and `castleClean` (no castle is
generated unless the king is at home) give distinct keys on every position representing a board (`pseudo_nodup_any`) and hence
`move_accepted_iff_clean`, `move_accepted_iff_decodable`.
-/
namespace Morlock.Props.C19Any
open Morlock Morlock.Model Morlock.Model.Fen Morlock.Proofs Morlock.Proofs.Fen Morlock.Proofs.Gen
open Morlock.Proofs.Engine (firstMatch firstDecides keyNodup epClean castleClean acceptsCand)

/-! ## Every state -/

/-- **C19Any `move_accepted_iff_first`.** Every engine state, every text, no hypothesis: `Engine.Move` returns `nil` iff the
    text parses, some generated pseudo-legal move `Equals` the candidate, and `PushMove` takes the FIRST such move. -/
theorem move_accepted_iff_first (z : ZTable) (e : EngineM) (txt : List Char) :
    (e.move z txt).2 = true ↔
      ∃ cand, parseMove txt = some cand ∧
        ∃ m, firstMatch cand (e.pos.pseudoLegalMoves e.turn) = some m ∧ (e.w.pushMove z 0 m).isSome = true :=
  Engine.move_accepted_iff_first z e txt

/-- With `PushMove` resolved: the board is not adjudicated and `Position.Move` accepts the first match. No hypothesis. -/
theorem move_accepted_iff_first_legal (z : ZTable) (e : EngineM) (txt : List Char) :
    (e.move z txt).2 = true ↔
      Engine.Open e ∧ ∃ cand, parseMove txt = some cand ∧
        ∃ m, firstMatch cand (e.pos.pseudoLegalMoves e.turn) = some m ∧ (e.pos.move m).isSome = true :=
  Engine.move_accepted_iff_first_legal z e txt

/-- **C19Any `move_accepted_legal_any`.** The "only if" half of `move_accepted_iff_model` for every state: an accepted text
    denotes a move of the model's `LegalMoves`, and that move was pushed. -/
theorem move_accepted_legal_any (z : ZTable) (e : EngineM) (txt : List Char) (h : (e.move z txt).2 = true) :
    ∃ cand m, parseMove txt = some cand ∧ m ∈ e.pos.legalMoves e.turn ∧ cand.equals m = true ∧
      e.w.pushMove z 0 m = some (e.move z txt).1.w :=
  Engine.move_accepted z e txt h

/-- **C19Any `rejected_unchanged_any`.** A rejected text leaves the whole engine state unchanged, for every state.
    (`C19.move_rejected_unchanged` has no hypothesis; restated here for the record.) -/
theorem rejected_unchanged_any (z : ZTable) (e : EngineM) (txt : List Char) (h : (e.move z txt).2 = false) :
    (e.move z txt).1 = e := C19.move_rejected_unchanged z e txt h

/-- … and the same for `TakeBack` and `Reset`. -/
theorem takeBack_rejected_unchanged_any (e : EngineM) (h : e.takeBack.2 = false) : e.takeBack.1 = e :=
  C19.takeBack_rejected_unchanged e h

theorem reset_rejected_unchanged_any (z : ZTable) (e : EngineM) (txt : List Char) (h : (e.reset z txt).2 = false) :
    (e.reset z txt).1 = e := C19.reset_rejected_unchanged z e txt h

/-! ## The exact condition -/

/-- **C19Any `move_accepted_iff_firstDecides`.** `move_accepted_iff_model` with `WF` replaced by the decidable
    `firstDecides`. -/
theorem move_accepted_iff_firstDecides (z : ZTable) (e : EngineM) (txt : List Char) (ho : Engine.Open e)
    (hf : firstDecides e.pos e.turn = true) :
    (e.move z txt).2 = true ↔
      ∃ cand m, parseMove txt = some cand ∧ m ∈ e.pos.legalMoves e.turn ∧ cand.equals m = true :=
  Engine.move_accepted_iff_firstDecides z e txt ho hf

/-- **`firstDecides` is necessary and sufficient** (per parsed candidate): on a non-adjudicated board, the loop of
    `Engine.Move` accepts exactly the candidates that `Equal` a legal move iff `firstDecides` holds. -/
theorem firstDecides_iff (z : ZTable) (e : EngineM) (ho : Engine.Open e) :
    firstDecides e.pos e.turn = true ↔
      ∀ cand, (acceptsCand z e cand = true ↔ ∃ m, m ∈ e.pos.legalMoves e.turn ∧ cand.equals m = true) :=
  Engine.firstDecides_iff z e ho

/-- **`firstDecides` is necessary and sufficient, for texts**: on a non-adjudicated board whose position represents a mailbox
    board (every decodable position does), `Engine.Move` accepts exactly the texts that denote a move of `LegalMoves` iff
    `firstDecides` holds. (Every generated move has a text: `Engine.parseMove_print`, `Engine.printable_of_mem`.) -/
theorem firstDecides_iff_texts (z : ZTable) (e : EngineM) {b : Proofs.Board} (hr : Rep e.pos b) (ho : Engine.Open e) :
    firstDecides e.pos e.turn = true ↔
      ∀ txt, ((e.move z txt).2 = true ↔
        ∃ cand m, parseMove txt = some cand ∧ m ∈ e.pos.legalMoves e.turn ∧ cand.equals m = true) :=
  Engine.firstDecides_iff_texts z e hr ho

theorem firstDecides_of_texts (z : ZTable) (e : EngineM) {b : Proofs.Board} (hr : Rep e.pos b)
    (h : ∀ txt, (e.move z txt).2 = true ↔
      ∃ cand m, parseMove txt = some cand ∧ m ∈ e.pos.legalMoves e.turn ∧ cand.equals m = true) :
    firstDecides e.pos e.turn = true := Engine.firstDecides_of_texts z e hr h

/-- `WF` implies distinct keys (C01), distinct keys imply `firstDecides`: the new theorem contains the old one. -/
theorem firstDecides_of_wf {p : Position} {turn : Color} (hw : WF p turn) : firstDecides p turn = true :=
  Engine.firstDecides_of_keyNodup (Engine.keyNodup_of_wf hw)

theorem firstDecides_of_keyNodup {p : Position} {turn : Color} (h : keyNodup p turn = true) :
    firstDecides p turn = true := Engine.firstDecides_of_keyNodup h

/-! ## Positions that represent a board: two local conditions give distinct keys -/

/-- **C19Any `pseudo_nodup_any`.** C01 `pseudo_nodup` without `WF`: on every position that represents a mailbox board (any
    number of kings anywhere, any rights, any target) no two generated moves share from, to and promotion, provided the
    en-passant target holds no piece of the other side and a castle is generated only for a king on its home square. -/
theorem pseudo_nodup_any {p : Position} {b : Proofs.Board} (h : Rep p b) {turn : Color}
    (h1 : epClean p turn = true) (h2 : castleClean p turn = true) :
    ((p.pseudoLegalMoves turn).map absMove).Nodup :=
  Engine.pseudo_nodup_clean h (Engine.clean_of_bools h h1 h2)

/-- **C19Any `move_accepted_iff_clean`.** -/
theorem move_accepted_iff_clean (z : ZTable) (e : EngineM) (txt : List Char) {b : Proofs.Board} (hr : Rep e.pos b)
    (ho : Engine.Open e) (h1 : epClean e.pos e.turn = true) (h2 : castleClean e.pos e.turn = true) :
    (e.move z txt).2 = true ↔
      ∃ cand m, parseMove txt = some cand ∧ m ∈ e.pos.legalMoves e.turn ∧ cand.equals m = true :=
  move_accepted_iff_firstDecides z e txt ho
    (Engine.firstDecides_of_keyNodup (Engine.keyNodup_of_clean hr h1 h2))

/-- The engine right after `Reset` on a decodable text. -/
theorem reset_state (z : ZTable) (e0 : EngineM) (fenTxt : List Char) (d : Decoded) (hd : decode fenTxt = some d) :
    (e0.reset z fenTxt).1.pos = d.pos ∧ (e0.reset z fenTxt).1.turn = d.turn ∧ Engine.Open (e0.reset z fenTxt).1 ∧
      Rep d.pos d.pos.square := by
  obtain ⟨_, _, h3, h4, _, _, _, hk⟩ := C19.reset_accepted_new z e0 fenTxt d hd
  exact ⟨h3, h4, hk.notBlocked, C19.decoded_rep_square hd⟩

/-- **C19Any `move_accepted_iff_decodable_exact`.** Whatever text `fen.Decode` accepts: after `Reset` on it, `Engine.Move`
    accepts a text iff it denotes a move of `LegalMoves` — provided `firstDecides` holds of the decoded position, and only then
    (`firstDecides_of_texts`). -/
theorem move_accepted_iff_decodable_exact (z : ZTable) (e0 : EngineM) (fenTxt : List Char) (d : Decoded)
    (hd : decode fenTxt = some d) (hf : firstDecides d.pos d.turn = true) (txt : List Char) :
    ((e0.reset z fenTxt).1.move z txt).2 = true ↔
      ∃ cand m, parseMove txt = some cand ∧ m ∈ d.pos.legalMoves d.turn ∧ cand.equals m = true := by
  obtain ⟨h3, h4, ho, _⟩ := reset_state z e0 fenTxt d hd
  have := move_accepted_iff_firstDecides z (e0.reset z fenTxt).1 txt ho (by rw [h3, h4]; exact hf)
  rw [h3, h4] at this
  exact this

/-- **C19Any `decodable_iff_firstDecides`.** For every decodable text: the engine set up on it judges ALL move texts by
    `LegalMoves` **iff** the decoded position satisfies `firstDecides`. -/
theorem decodable_iff_firstDecides (z : ZTable) (e0 : EngineM) (fenTxt : List Char) (d : Decoded)
    (hd : decode fenTxt = some d) :
    firstDecides d.pos d.turn = true ↔
      ∀ txt, (((e0.reset z fenTxt).1.move z txt).2 = true ↔
        ∃ cand m, parseMove txt = some cand ∧ m ∈ d.pos.legalMoves d.turn ∧ cand.equals m = true) := by
  obtain ⟨h3, h4, ho, hr⟩ := reset_state z e0 fenTxt d hd
  have := firstDecides_iff_texts z (e0.reset z fenTxt).1 (b := d.pos.square) (by rw [h3]; exact hr) ho
  rw [h3, h4] at this
  exact this

/-- **C19Any `move_accepted_iff_decodable`.** Every decodable text whose en-passant target holds no enemy piece and which
    generates a castle only for a king at home — several kings, no king of the other side, rights without rooks, a phantom but
    empty target, … included. -/
theorem move_accepted_iff_decodable (z : ZTable) (e0 : EngineM) (fenTxt : List Char) (d : Decoded)
    (hd : decode fenTxt = some d) (h1 : epClean d.pos d.turn = true) (h2 : castleClean d.pos d.turn = true)
    (txt : List Char) :
    ((e0.reset z fenTxt).1.move z txt).2 = true ↔
      ∃ cand m, parseMove txt = some cand ∧ m ∈ d.pos.legalMoves d.turn ∧ cand.equals m = true :=
  move_accepted_iff_decodable_exact z e0 fenTxt d hd
    (Engine.firstDecides_of_keyNodup (Engine.keyNodup_of_clean (C19.decoded_rep_square hd) h1 h2)) txt

/-! ## Witness 1: a phantom en-passant target on an occupied square — a legal move's text is REJECTED -/

open Morlock.Proofs (exZ)

/-- White Kh5, Pd5; black Ka1, Ra5, Ne6; White to move, en-passant target e6 (where the knight stands). -/
def epFen : List Char := "8/8/4n3/r2P3K/8/8/8/k7 w - e6 0 1".toList

theorem epFen_decodes : (decode epFen).isSome = true := by decide +kernel

def epD : Decoded := (decode epFen).get epFen_decodes

theorem epD_eq : decode epFen = some epD := by simp [epD]

/-- d5 = 36, e6 = 43. -/
def epCand : Move := { «from» := 36, to := 43 }

theorem epCand_eq : parseMove "d5e6".toList = some epCand := by decide

/-- The generator's list: `d5*e6` (capture of the knight), `d5-d6`, `d5*e6 e.p.`, then five king moves. -/
theorem witness_ep_generated :
    (epD.pos.pseudoLegalMoves epD.turn).map (fun m => (m.ty, m.from, m.to, m.capture)) =
      [(.capture, 36, 43, .knight), (.push, 36, 44, .none), (.enPassant, 36, 43, .none),
       (.normal, 32, 24, .none), (.normal, 32, 25, .none), (.normal, 32, 33, .none),
       (.normal, 32, 40, .none), (.normal, 32, 41, .none)] := by decide +kernel

/-- Two generated moves with the same from, to and promotion; the first is refused by `Position.Move`, the second accepted. -/
theorem witness_ep_dup :
    ∃ m1 m2 rest, epD.pos.pseudoLegalMoves epD.turn = m1 :: { ty := .push, «from» := 36, to := 44, piece := .pawn } :: m2 :: rest ∧
      absMove m1 = absMove m2 ∧ m1.ty = .capture ∧ m2.ty = .enPassant ∧
      (epD.pos.move m1).isSome = false ∧ (epD.pos.move m2).isSome = true := by
  have h : (match epD.pos.pseudoLegalMoves epD.turn with
      | m1 :: mp :: m2 :: _ => decide (mp = { ty := .push, «from» := 36, to := 44, piece := .pawn }) &&
          decide (absMove m1 = absMove m2) && decide (m1.ty = .capture) && decide (m2.ty = .enPassant) &&
          !(epD.pos.move m1).isSome && (epD.pos.move m2).isSome
      | _ => false) = true := by decide +kernel
  split at h
  · rename_i m1 mp m2 rest heq
    simp only [Bool.and_eq_true, decide_eq_true_eq, Bool.not_eq_true'] at h
    obtain ⟨⟨⟨⟨⟨a, b⟩, c⟩, d⟩, e⟩, f⟩ := h
    exact ⟨m1, m2, rest, by rw [heq, a], b, c, d, e, f⟩
  · cases h

/-- The position violates both sufficient conditions' en-passant half, has a duplicate key, and fails `firstDecides`. -/
theorem witness_ep_conditions :
    epClean epD.pos epD.turn = false ∧ castleClean epD.pos epD.turn = true ∧ keyNodup epD.pos epD.turn = false ∧
      firstDecides epD.pos epD.turn = false := by decide +kernel

/-- The text `d5e6` denotes a move of `LegalMoves` (the en-passant capture) … -/
theorem witness_ep_legal :
    ∃ m, m ∈ epD.pos.legalMoves epD.turn ∧ epCand.equals m = true ∧ m.ty = .enPassant := by
  have h : ((epD.pos.legalMoves epD.turn).any fun m => epCand.equals m && decide (m.ty = .enPassant)) = true := by
    decide +kernel
  obtain ⟨m, hm, he⟩ := List.any_eq_true.1 h
  simp only [Bool.and_eq_true, decide_eq_true_eq] at he
  exact ⟨m, hm, he.1, he.2⟩

/-- … and `Engine.Move` REJECTS it, whatever the Zobrist table and whatever engine was reset: the first match is the capture,
    and `Position.Move` refuses that. So `move_accepted_iff_model` is false without a side condition:
    **`move_accepted_iff_decodable` does not hold for all decodable positions.** -/
theorem witness_ep_rejected (z : ZTable) (e0 : EngineM) :
    ((e0.reset z epFen).1.move z "d5e6".toList).2 = false ∧
      ∃ cand m, parseMove "d5e6".toList = some cand ∧ m ∈ (e0.reset z epFen).1.pos.legalMoves (e0.reset z epFen).1.turn ∧
        cand.equals m = true := by
  obtain ⟨h3, h4, _, _⟩ := reset_state z e0 epFen epD epD_eq
  constructor
  · cases hacc : ((e0.reset z epFen).1.move z "d5e6".toList).2 with
    | false => rfl
    | true =>
      exfalso
      obtain ⟨_, cand, hp, m, hf, hm⟩ := (move_accepted_iff_first_legal z _ _).1 hacc
      rw [epCand_eq] at hp
      cases hp
      rw [h3, h4] at hf
      rw [h3] at hm
      have h : (match firstMatch epCand (epD.pos.pseudoLegalMoves epD.turn) with
          | some m => (epD.pos.move m).isSome
          | none => false) = false := by decide +kernel
      rw [hf] at h
      simp only [hm] at h
      cases h
  · obtain ⟨m, hm, he, _⟩ := witness_ep_legal
    exact ⟨epCand, m, epCand_eq, by rw [h3, h4]; exact hm, he⟩

/-- The same by plain evaluation of the engine model (sample table `exZ`), with the state unchanged
    (`rejected_unchanged_any`); the king move `h5h4` is accepted as usual. -/
example : (((default : EngineM).reset exZ epFen).1.move exZ "d5e6".toList).2 = false ∧
    (((default : EngineM).reset exZ epFen).1.move exZ "h5h4".toList).2 = true := by decide +kernel

example : (((default : EngineM).reset exZ epFen).1.move exZ "d5e6".toList).1 = ((default : EngineM).reset exZ epFen).1 :=
  rejected_unchanged_any exZ _ _ (witness_ep_rejected exZ default).1

/-! ## Witness 2: a castling right with the king next to the castle target — a duplicate key, harmless here -/

/-- White Kg2, Rh1; black Ka8; White to move with the right `K`. -/
def castleFen : List Char := "k7/8/8/8/8/8/6K1/7R w K - 0 1".toList

theorem castleFen_decodes : (decode castleFen).isSome = true := by decide +kernel

def castleD : Decoded := (decode castleFen).get castleFen_decodes

theorem castleD_eq : decode castleFen = some castleD := by simp [castleD]

/-- The king step g2-g1 and the "castle" g2-g1 (+ Rh1-f1) are both generated and both legal: distinct keys fail, `castleClean`
    fails, but `firstDecides` holds, so `Engine.Move` is still right about every text on this position (`g2g1` plays the step;
    the castle cannot be entered). -/
theorem witness_castle :
    ((castleD.pos.legalMoves castleD.turn).filter fun m => m.from == 9 && m.to == 1).map (fun m => m.ty) =
        [.normal, .kingSideCastle] ∧
      castleClean castleD.pos castleD.turn = false ∧ epClean castleD.pos castleD.turn = true ∧
      keyNodup castleD.pos castleD.turn = false ∧ firstDecides castleD.pos castleD.turn = true := by decide +kernel

example (z : ZTable) (e0 : EngineM) (txt : List Char) :
    ((e0.reset z castleFen).1.move z txt).2 = true ↔
      ∃ cand m, parseMove txt = some cand ∧ m ∈ castleD.pos.legalMoves castleD.turn ∧ cand.equals m = true :=
  move_accepted_iff_decodable_exact z e0 castleFen castleD castleD_eq witness_castle.2.2.2.2 txt

/-! ## Non-vacuity: decodable positions that are NOT well-formed and meet the hypotheses of `move_accepted_iff_decodable` -/

/-- Three white kings, none at home, all four castling rights without any rook, a phantom (empty) en-passant target with no
    pawn in front of it, and no black king. -/
def oddFen : List Char := "8/8/8/3P4/8/2K5/8/K6K w KQkq c6 0 1".toList

theorem oddFen_decodes : (decode oddFen).isSome = true := by decide +kernel

def oddD : Decoded := (decode oddFen).get oddFen_decodes

theorem oddD_eq : decode oddFen = some oddD := by simp [oddD]

theorem oddD_clean : epClean oddD.pos oddD.turn = true ∧ castleClean oddD.pos oddD.turn = true ∧
    WFc oddD.pos oddD.turn = false := by decide +kernel

example (z : ZTable) (e0 : EngineM) (txt : List Char) :
    ((e0.reset z oddFen).1.move z txt).2 = true ↔
      ∃ cand m, parseMove txt = some cand ∧ m ∈ oddD.pos.legalMoves oddD.turn ∧ cand.equals m = true :=
  move_accepted_iff_decodable z e0 oddFen oddD oddD_eq oddD_clean.1 oddD_clean.2.1 txt

/-- On it the phantom en-passant capture `d5c6` is accepted (it is in `LegalMoves`; the reference rules would not allow it),
    `d5d6` too, `d5e6` is not. -/
example : (((default : EngineM).reset exZ oddFen).1.move exZ "d5c6".toList).2 = true ∧
    (((default : EngineM).reset exZ oddFen).1.move exZ "d5d6".toList).2 = true ∧
    (((default : EngineM).reset exZ oddFen).1.move exZ "d5e6".toList).2 = false := by decide +kernel

end Morlock.Props.C19Any
