import Morlock.Props.C03
import Morlock.Proofs.ABEngines
import Morlock.Proofs.EngineKeys
import Morlock.Proofs.ABTuroFuel
/-!
# C03 / C13 for the searches the bundled engines actually run

`Model/EngineExplore.lean`: `bernsteinExplore limit : World → Explore` (BERNSTEIN's plausible-move table, computed from
the node) and `turochampExplore z : World → Explore` (TUROCHAMP's considerable moves: the predicate sees the board after
the move). BERNSTEIN runs `AlphaBeta{Explore: PlausibleMoveTable, Eval: Leaf}`; TUROCHAMP runs
`AlphaBeta{Eval: Quiescence{Explore: ConsiderableMovesOnly}}` (full exploration in the main search). `ev` is the static
evaluation key (any evaluation whose keys are those of non-NaN `float32`s). 
The explorations are tied to the ops that the `bernstein` and `turochamp` streams compare with the Go code by
`bernsteinExplore_eq`, `turochampExplore_pick`, `turochampExplore_moves` (`Proofs/ABEngines.lean`).
-/
namespace Morlock.Props.C13Engines
open Morlock Morlock.Model Morlock.Model.Score Morlock.Spec Morlock.Proofs.AB
open Morlock.Props.C09

/-! ## C13 -/

/-- **C13 for the BERNSTEIN search**: it returns the negamax value over the plausible-move tree, clipped to the window. -/
theorem bernstein_clip (z : ZTable) (ev : Position → Model.Color → Int) (hev : EvalOk (boardGame z ev)) (limit : Int)
    (rootPly : Int) (d : Nat) (hd : d ≤ 127) (w : World) (alpha beta : Score) (st : SState)
    (htt : st.tt.slots.size = 0) (hc : st.cancelAt = none) (ha : okN d alpha) (hb : okN d beta)
    (hab : rank alpha < rank beta) :
    Clip (rank alpha) (rank beta) (rank (V (boardGame z ev) (bernsteinExplore limit) .static rootPly d w))
      (rank (alphabeta (boardGame z ev) (bernsteinExplore limit) .static rootPly d w alpha beta st).1) := by
  have h := C13.alphabeta_clip (boardGame z ev) (bernsteinExplore limit) .static rootPly hev 0 d (Nat.le_refl _)
    (by omega) w alpha beta st htt hc (by rw [Nat.zero_add]; exact ha) (by rw [Nat.zero_add]; exact hb) hab
  exact h

/-- **C13 for the TUROCHAMP search** (quiescence over the considerable moves with `fuel` plies of fuel): it returns the
    negamax value whose leaves are the considerable-moves quiescence values, clipped to the window. -/
theorem turochamp_clip (z : ZTable) (ev : Position → Model.Color → Int) (hev : EvalOk (boardGame z ev)) (fuel : Nat)
    (rootPly : Int) (d : Nat) (hd : fuel + d ≤ 127) (w : World) (alpha beta : Score) (st : SState)
    (htt : st.tt.slots.size = 0) (hc : st.cancelAt = none) (ha : okN (fuel + d) alpha) (hb : okN (fuel + d) beta)
    (hab : rank alpha < rank beta) :
    Clip (rank alpha) (rank beta)
      (rank (V (boardGame z ev) (constEx fullExploration) (turochampLeaf z fuel) rootPly d w))
      (rank (alphabeta (boardGame z ev) (constEx fullExploration) (turochampLeaf z fuel) rootPly d w alpha beta st).1) :=
  C13.alphabeta_clip (boardGame z ev) (constEx fullExploration) (turochampLeaf z fuel) rootPly hev fuel d (Nat.le_refl _)
    hd w alpha beta st htt hc ha hb hab

/-- **C13 for TUROCHAMP's quiescence search itself.** -/
theorem turochamp_quiescence_clip (z : ZTable) (ev : Position → Model.Color → Int) (hev : EvalOk (boardGame z ev))
    (fuel : Nat) (hf : fuel ≤ 127) (w : World) (alpha beta : Score) (st : SState)
    (htt : st.tt.slots.size = 0) (hc : st.cancelAt = none) (ha : okN fuel alpha) (hb : okN fuel beta)
    (hab : rank alpha < rank beta) :
    Clip (rank alpha) (rank beta) (rank (Q (boardGame z ev) (turochampExplore z) fuel w))
      (rank (quiesce (boardGame z ev) (turochampExplore z) fuel w alpha beta st).1) := by
  have h := C13.quiescence_clip (boardGame z ev) (turochampExplore z) hev 0 fuel (by omega) w alpha beta st htt hc
    (by rw [Nat.zero_add]; exact ha) (by rw [Nat.zero_add]; exact hb) hab
  exact h

/-! ## C03 -/

/-- **C03 for the BERNSTEIN search**: at the full window it returns exactly the negamax value over the tree of the
    plausible-move tables (`bernsteinExplore limit`, computed at every node), with a principal variation. -/
theorem bernstein_exact (z : ZTable) (ev : Position → Model.Color → Int) (hev : EvalOk (boardGame z ev)) (limit : Int)
    (rootPly : Int) (d : Nat) (hd : d ≤ 127) (w : World) (st : SState)
    (htt : st.tt.slots.size = 0) (hc : st.cancelAt = none) :
    (alphabeta (boardGame z ev) (bernsteinExplore limit) .static rootPly d w negInfScore infScore st).1 =
      V (boardGame z ev) (bernsteinExplore limit) .static rootPly d w ∧
    Principal (boardGame z ev) (bernsteinExplore limit) .static rootPly d w
      (alphabeta (boardGame z ev) (bernsteinExplore limit) .static rootPly d w negInfScore infScore st).2.1 :=
  ⟨C03.exact _ _ .static rootPly hev d (by show 0 + d ≤ 127; omega) w st htt hc,
   C03.pv_principal _ _ .static rootPly hev d (by show 0 + d ≤ 127; omega) w st htt hc⟩

/-- **C03 for the TUROCHAMP search**: full exploration in the main search, quiescence over the considerable moves
    (`turochampExplore z`: the predicate sees the board after the move) at the leaves. -/
theorem turochamp_exact (z : ZTable) (ev : Position → Model.Color → Int) (hev : EvalOk (boardGame z ev)) (fuel : Nat)
    (rootPly : Int) (d : Nat) (hd : fuel + d ≤ 127) (w : World) (st : SState)
    (htt : st.tt.slots.size = 0) (hc : st.cancelAt = none) :
    (alphabeta (boardGame z ev) (constEx fullExploration) (turochampLeaf z fuel) rootPly d w negInfScore infScore st).1 =
      V (boardGame z ev) (constEx fullExploration) (turochampLeaf z fuel) rootPly d w ∧
    Principal (boardGame z ev) (constEx fullExploration) (turochampLeaf z fuel) rootPly d w
      (alphabeta (boardGame z ev) (constEx fullExploration) (turochampLeaf z fuel) rootPly d w negInfScore infScore st).2.1 :=
  ⟨C03.exact _ _ (turochampLeaf z fuel) rootPly hev d hd w st htt hc,
   C03.pv_principal _ _ (turochampLeaf z fuel) rootPly hev d hd w st htt hc⟩

/-! ## Instances on the chess game (`gX = materialGame exZ`, `wE`; `Proofs/ABChessTree.lean`) -/

-- the engines' searches on `wE` (material evaluation): BERNSTEIN with a 7-move table, TUROCHAMP with 8 plies of fuel
example : Clip (rank (mateInXScore (-2))) (rank (mateInXScore 2))
      (rank (V gX (bernsteinExplore 7) .static 1 2 wE))
      (rank (alphabeta gX (bernsteinExplore 7) .static 1 2 wE (mateInXScore (-2)) (mateInXScore 2) {}).1) :=
  bernstein_clip Proofs.exZ (fun pos turn => f32keyOfInt (materialPawns pos turn)) gX_evalOk 7 1 2 (by decide) wE
    (mateInXScore (-2)) (mateInXScore 2) {} rfl rfl (by decide) (by decide) (by decide)

example : Clip (rank (mateInXScore (-2))) (rank (mateInXScore 5))
      (rank (V gX (constEx fullExploration) (turochampLeaf Proofs.exZ 8) 1 2 wE))
      (rank (alphabeta gX (constEx fullExploration) (turochampLeaf Proofs.exZ 8) 1 2 wE (mateInXScore (-2))
        (mateInXScore 5) {}).1) :=
  turochamp_clip Proofs.exZ (fun pos turn => f32keyOfInt (materialPawns pos turn)) gX_evalOk 8 1 2 (by decide) wE
    (mateInXScore (-2)) (mateInXScore 5) {} rfl rfl (by decide) (by decide) (by decide)

-- the engines' searches on `wE`
example : (alphabeta gX (bernsteinExplore 7) .static 1 3 wE negInfScore infScore {}).1 =
    V gX (bernsteinExplore 7) .static 1 3 wE :=
  (bernstein_exact Proofs.exZ (fun pos turn => f32keyOfInt (materialPawns pos turn)) gX_evalOk 7 1 3 (by decide) wE {}
    rfl rfl).1

example : (alphabeta gX (constEx fullExploration) (turochampLeaf Proofs.exZ 8) 1 2 wE negInfScore infScore {}).1 =
    V gX (constEx fullExploration) (turochampLeaf Proofs.exZ 8) 1 2 wE :=
  (turochamp_exact Proofs.exZ (fun pos turn => f32keyOfInt (materialPawns pos turn)) gX_evalOk 8 1 2 (by decide) wE {}
    rfl rfl).1

/-! ## The engines' own games: no hypothesis on the evaluation

`bernsteinGame z factor = boardGame z (bernsteinKeyF factor)` and `turochampGame z = boardGameW z turochampKey`
(`Model/EngineExplore.lean`) are the games of the `bern-static~` / `turo-quiet~` configurations that the `c03` stream
compares with the Go searches. Their evaluations are `float32` keys on every input (`Proofs/EngineKeys.lean`:
`bernsteinGame_evalOk`, `turochampGame_evalOk`), so C13 / C03 hold for them without an `EvalOk` hypothesis. -/

/-- **C13 for the BERNSTEIN engine** (its own evaluation `bernstein.Eval{Factor: factor}`, its plausible-move table). -/
theorem bernstein_engine_clip (z : ZTable) (factor : Int) (limit : Int)
    (rootPly : Int) (d : Nat) (hd : d ≤ 127) (w : World) (alpha beta : Score) (st : SState)
    (htt : st.tt.slots.size = 0) (hc : st.cancelAt = none) (ha : okN d alpha) (hb : okN d beta)
    (hab : rank alpha < rank beta) :
    Clip (rank alpha) (rank beta) (rank (V (bernsteinGame z factor) (bernsteinExplore limit) .static rootPly d w))
      (rank (alphabeta (bernsteinGame z factor) (bernsteinExplore limit) .static rootPly d w alpha beta st).1) := by
  have h := C13.alphabeta_clip (bernsteinGame z factor) (bernsteinExplore limit) .static rootPly
    (bernsteinGame_evalOk z factor) 0 d (Nat.le_refl _)
    (by omega) w alpha beta st htt hc (by rw [Nat.zero_add]; exact ha) (by rw [Nat.zero_add]; exact hb) hab
  exact h

/-- **C03 for the BERNSTEIN engine**: at the full window the search returns exactly the negamax value of its own
    evaluation over the tree of the plausible-move tables, with a principal variation. -/
theorem bernstein_engine_exact (z : ZTable) (factor : Int) (limit : Int)
    (rootPly : Int) (d : Nat) (hd : d ≤ 127) (w : World) (st : SState)
    (htt : st.tt.slots.size = 0) (hc : st.cancelAt = none) :
    (alphabeta (bernsteinGame z factor) (bernsteinExplore limit) .static rootPly d w negInfScore infScore st).1 =
      V (bernsteinGame z factor) (bernsteinExplore limit) .static rootPly d w ∧
    Principal (bernsteinGame z factor) (bernsteinExplore limit) .static rootPly d w
      (alphabeta (bernsteinGame z factor) (bernsteinExplore limit) .static rootPly d w negInfScore infScore st).2.1 :=
  ⟨C03.exact _ _ .static rootPly (bernsteinGame_evalOk z factor) d (by show 0 + d ≤ 127; omega) w st htt hc,
   C03.pv_principal _ _ .static rootPly (bernsteinGame_evalOk z factor) d (by show 0 + d ≤ 127; omega) w st htt hc⟩

/-- **C13 for the TUROCHAMP engine** (its own evaluation `turochamp.Eval{}`, which reads the castled flags; full
    exploration in the main search, quiescence over the considerable moves with `fuel` plies at the leaves). -/
theorem turochamp_engine_clip (z : ZTable) (fuel : Nat)
    (rootPly : Int) (d : Nat) (hd : fuel + d ≤ 127) (w : World) (alpha beta : Score) (st : SState)
    (htt : st.tt.slots.size = 0) (hc : st.cancelAt = none) (ha : okN (fuel + d) alpha) (hb : okN (fuel + d) beta)
    (hab : rank alpha < rank beta) :
    Clip (rank alpha) (rank beta)
      (rank (V (turochampGame z) (constEx fullExploration) (turochampLeaf z fuel) rootPly d w))
      (rank (alphabeta (turochampGame z) (constEx fullExploration) (turochampLeaf z fuel) rootPly d w alpha beta st).1) :=
  C13.alphabeta_clip (turochampGame z) (constEx fullExploration) (turochampLeaf z fuel) rootPly (turochampGame_evalOk z)
    fuel d (Nat.le_refl _) hd w alpha beta st htt hc ha hb hab

/-- **C13 for the TUROCHAMP engine's quiescence search itself.** -/
theorem turochamp_engine_quiescence_clip (z : ZTable)
    (fuel : Nat) (hf : fuel ≤ 127) (w : World) (alpha beta : Score) (st : SState)
    (htt : st.tt.slots.size = 0) (hc : st.cancelAt = none) (ha : okN fuel alpha) (hb : okN fuel beta)
    (hab : rank alpha < rank beta) :
    Clip (rank alpha) (rank beta) (rank (Q (turochampGame z) (turochampExplore z) fuel w))
      (rank (quiesce (turochampGame z) (turochampExplore z) fuel w alpha beta st).1) := by
  have h := C13.quiescence_clip (turochampGame z) (turochampExplore z) (turochampGame_evalOk z) 0 fuel (by omega) w
    alpha beta st htt hc (by rw [Nat.zero_add]; exact ha) (by rw [Nat.zero_add]; exact hb) hab
  exact h

/-- **C03 for the TUROCHAMP engine**: at the full window the search returns exactly the negamax value whose leaves are
    the considerable-moves quiescence values of its own evaluation, with a principal variation. -/
theorem turochamp_engine_exact (z : ZTable) (fuel : Nat)
    (rootPly : Int) (d : Nat) (hd : fuel + d ≤ 127) (w : World) (st : SState)
    (htt : st.tt.slots.size = 0) (hc : st.cancelAt = none) :
    (alphabeta (turochampGame z) (constEx fullExploration) (turochampLeaf z fuel) rootPly d w negInfScore infScore st).1 =
      V (turochampGame z) (constEx fullExploration) (turochampLeaf z fuel) rootPly d w ∧
    Principal (turochampGame z) (constEx fullExploration) (turochampLeaf z fuel) rootPly d w
      (alphabeta (turochampGame z) (constEx fullExploration) (turochampLeaf z fuel) rootPly d w negInfScore infScore st).2.1 :=
  ⟨C03.exact _ _ (turochampLeaf z fuel) rootPly (turochampGame_evalOk z) d hd w st htt hc,
   C03.pv_principal _ _ (turochampLeaf z fuel) rootPly (turochampGame_evalOk z) d hd w st htt hc⟩

/-! ### Instances on `wE` with the engines' own (float) evaluations. Only the `okN` / `rank` side conditions are decided;
the games are not evaluated. -/

example : Clip (rank (mateInXScore (-2))) (rank (mateInXScore 2))
      (rank (V (bernsteinGame Proofs.exZ 8) (bernsteinExplore 7) .static 1 2 wE))
      (rank (alphabeta (bernsteinGame Proofs.exZ 8) (bernsteinExplore 7) .static 1 2 wE (mateInXScore (-2))
        (mateInXScore 2) {}).1) :=
  bernstein_engine_clip Proofs.exZ 8 7 1 2 (by decide) wE (mateInXScore (-2)) (mateInXScore 2) {} rfl rfl
    (by decide) (by decide) (by decide)

example : (alphabeta (bernsteinGame Proofs.exZ 8) (bernsteinExplore 7) .static 1 2 wE negInfScore infScore {}).1 =
    V (bernsteinGame Proofs.exZ 8) (bernsteinExplore 7) .static 1 2 wE :=
  (bernstein_engine_exact Proofs.exZ 8 7 1 2 (by decide) wE {} rfl rfl).1

example : Clip (rank (mateInXScore (-2))) (rank (mateInXScore 5))
      (rank (V (turochampGame Proofs.exZ) (constEx fullExploration) (turochampLeaf Proofs.exZ 8) 1 2 wE))
      (rank (alphabeta (turochampGame Proofs.exZ) (constEx fullExploration) (turochampLeaf Proofs.exZ 8) 1 2 wE
        (mateInXScore (-2)) (mateInXScore 5) {}).1) :=
  turochamp_engine_clip Proofs.exZ 8 1 2 (by decide) wE (mateInXScore (-2)) (mateInXScore 5) {} rfl rfl
    (by decide) (by decide) (by decide)

example : Clip (rank (heuristicScore (-5))) (rank (heuristicScore 5))
      (rank (Q (turochampGame Proofs.exZ) (turochampExplore Proofs.exZ) 8 wE))
      (rank (quiesce (turochampGame Proofs.exZ) (turochampExplore Proofs.exZ) 8 wE (heuristicScore (-5))
        (heuristicScore 5) {}).1) :=
  turochamp_engine_quiescence_clip Proofs.exZ 8 (by decide) wE (heuristicScore (-5)) (heuristicScore 5) {} rfl rfl
    (by decide) (by decide) (by decide)

example : (alphabeta (turochampGame Proofs.exZ) (constEx fullExploration) (turochampLeaf Proofs.exZ 8) 1 2 wE
      negInfScore infScore {}).1 =
    V (turochampGame Proofs.exZ) (constEx fullExploration) (turochampLeaf Proofs.exZ 8) 1 2 wE :=
  (turochamp_engine_exact Proofs.exZ 8 1 2 (by decide) wE {} rfl rfl).1

-- the evaluations themselves on `wE` are in range (instances of the bounds; nothing is evaluated)
example : -2147483648 < (bernsteinGame Proofs.exZ 8).eval wE ∧ (bernsteinGame Proofs.exZ 8).eval wE < 2147483648 :=
  bernsteinGame_evalOk Proofs.exZ 8 wE
example : -2147483648 < (turochampGame Proofs.exZ).eval wE ∧ (turochampGame Proofs.exZ).eval wE < 2147483648 :=
  turochampGame_evalOk Proofs.exZ wE

/-! ## fuel: TUROCHAMP's quiescence search does not need its fuel

The Go quiescence search has no fuel; `Model.quiesce` has (the driver and the `c03` stream run `turochampLeaf zt 64`).
`ConsiderableMovesOnly` is not captures-only (`C13.chess_enough_fuel` does not apply): a picked move is a capture **or a
move that checkmates** (`turochamp_pick_capture_or_mate`). A capture removes a man, a mated world has no child, so the
explored tree below a world with `k` men is exhausted within `k + 1` plies (`Proofs/ABTuroFuel.lean`): 65 in general,
and 64 - the fuel that is run - on every board with at most 32 men. `Inv` is the play invariant of
`Proofs/ABChessFuel.lean` (it holds for `newBoard` on a `WFplay` position and is preserved by `pushMove` of generated
moves). -/

section Fuel

/-- **What TUROCHAMP's quiescence explores**: a picked move is a capture, or the board after it exists and its side to
    move is checkmated. -/
theorem turochamp_engine_pick (z : ZTable) (w : World) (m : Move) (h : (turochampExplore z w).pick m = true) :
    m.isCapture = true ∨
    ∃ w', w.pushMove z 0 m = some w' ∧ (w'.cur 0).pos.isCheckMate (w'.board 0).turn = true :=
  turochamp_pick_capture_or_mate z w m h

/-- **C13 (fuel) for the TUROCHAMP engine**, at every world `w` satisfying the play invariant `Inv`: the explored
    quiescence tree is exhausted within 65 plies, the reference `Q` is the same for every fuel `≥ 65`, `quiesce` with
    fuel 65 does not report `fuelOut`, and the reference `V` of the main search (any exploration, any depth) is the
    same for every fuel `≥ 65` of its quiescence leaves. -/
theorem turochamp_engine_enough_fuel (z : ZTable) (w : World) (h : Inv w) :
    QDone (turochampGame z) (turochampExplore z) 65 w ∧
    (∀ fuel', 65 ≤ fuel' →
      Q (turochampGame z) (turochampExplore z) fuel' w = Q (turochampGame z) (turochampExplore z) 65 w) ∧
    (∀ a b st, (quiesce (turochampGame z) (turochampExplore z) 65 w a b st).2.fuelOut = st.fuelOut) ∧
    ∀ (ex : World → Explore) (rootPly : Int) (fuel' d : Nat), 65 ≤ fuel' →
      V (turochampGame z) ex (turochampLeaf z fuel') rootPly d w =
        V (turochampGame z) ex (turochampLeaf z 65) rootPly d w :=
  ⟨turochamp_qdone z w h, (turochamp_enough_fuel z w h).1, (turochamp_enough_fuel z w h).2,
   fun ex rootPly fuel' d hf => turochamp_V_fuel_irrelevant z ex rootPly fuel' hf d w h⟩

/-- **C13 (fuel) for the TUROCHAMP engine with the fuel that is run (64)**, on every board with at most 32 men (every
    position of a real game): the explored quiescence tree is exhausted within 64 (indeed 33) plies, the reference `Q`
    is the same for every fuel `≥ 64`, and `quiesce` with fuel 64 does not report `fuelOut`. -/
theorem turochamp_engine_enough_fuel_32 (z : ZTable) (w : World) (h : Inv w) (h32 : popCount (w.cur 0).pos.all ≤ 32) :
    QDone (turochampGame z) (turochampExplore z) 64 w ∧
    QDone (turochampGame z) (turochampExplore z) 33 w ∧
    (∀ fuel', 64 ≤ fuel' →
      Q (turochampGame z) (turochampExplore z) fuel' w = Q (turochampGame z) (turochampExplore z) 64 w) ∧
    ∀ a b st, (quiesce (turochampGame z) (turochampExplore z) 64 w a b st).2.fuelOut = st.fuelOut :=
  ⟨turochamp_qdone_32 z w h h32, turochamp_qdone_33 z w h h32, (turochamp_enough_fuel_32 z w h h32).1,
   (turochamp_enough_fuel_32 z w h h32).2⟩

-- on `wE` (`r3k2r/1P6/8/3pP3/8/8/8/R3K2R w KQkq d6`, 9 men): both forms apply, nothing is evaluated but the man count
example :
    (∀ fuel', 65 ≤ fuel' → Q (turochampGame Proofs.exZ) (turochampExplore Proofs.exZ) fuel' wE =
      Q (turochampGame Proofs.exZ) (turochampExplore Proofs.exZ) 65 wE) ∧
    (∀ a b st, (quiesce (turochampGame Proofs.exZ) (turochampExplore Proofs.exZ) 65 wE a b st).2.fuelOut = st.fuelOut) :=
  ⟨(turochamp_engine_enough_fuel Proofs.exZ wE wE_inv).2.1, (turochamp_engine_enough_fuel Proofs.exZ wE wE_inv).2.2.1⟩

theorem wE_men : popCount (wE.cur 0).pos.all ≤ 32 := by decide +kernel

example :
    (∀ fuel', 64 ≤ fuel' → Q (turochampGame Proofs.exZ) (turochampExplore Proofs.exZ) fuel' wE =
      Q (turochampGame Proofs.exZ) (turochampExplore Proofs.exZ) 64 wE) ∧
    (∀ a b st, (quiesce (turochampGame Proofs.exZ) (turochampExplore Proofs.exZ) 64 wE a b st).2.fuelOut = st.fuelOut) :=
  ⟨(turochamp_engine_enough_fuel_32 Proofs.exZ wE wE_inv wE_men).2.2.1,
   (turochamp_engine_enough_fuel_32 Proofs.exZ wE wE_inv wE_men).2.2.2⟩

/-- `7k/8/6K1/8/8/8/8/1Q6 w`: White mates by the quiet move Qb1-b8. -/
def wN : World :=
  (({} : World).newBoard Proofs.exZ
    ((Position.newPosition [(56, .black, .king), (41, .white, .king), (6, .white, .queen)] 0 0).getD {}) .white 0 1).1

/-- Qb1-b8#. -/
def qb8 : Move := { ty := .normal, «from» := 6, to := 62, piece := .queen }

-- the mate branch is not vacuous, i.e. TUROCHAMP's exploration is **not** captures-only: on `wN` it picks the quiet
-- move Qb8#, a generated move that `PushMove` accepts
set_option maxRecDepth 100000 in
example : qb8 ∈ (turochampGame Proofs.exZ).moves wN ∧ (turochampExplore Proofs.exZ wN).pick qb8 = true ∧
    qb8.isCapture = false ∧ ((turochampGame Proofs.exZ).push wN qb8).isSome = true := by decide +kernel

example : ¬ CapturesOnly (turochampExplore Proofs.exZ) := by
  intro h
  have h1 : (turochampExplore Proofs.exZ wN).pick qb8 = true := by decide +kernel
  exact absurd (h wN qb8 h1) (by decide)

/-- `wN` satisfies the play invariant. -/
theorem wN_inv : Inv wN := by
  have hv : Proofs.ValidPlacements [(56, .black, .king), (41, .white, .king), (6, .white, .queen)] := by
    intro x hx
    simp only [List.mem_cons, List.not_mem_nil, or_false] at hx
    rcases hx with rfl | rfl | rfl <;> simp
  have he : Position.newPosition [(56, .black, .king), (41, .white, .king), (6, .white, .queen)] 0 0 =
      some ((Position.newPosition [(56, .black, .king), (41, .white, .king), (6, .white, .queen)] 0 0).getD {}) := by
    decide +kernel
  have hr := (Proofs.newPosition_rep hv he).1.self
  unfold wN
  exact inv_newBoard Proofs.exZ 0 1 ⟨⟨hr, by decide +kernel⟩, by decide +kernel⟩

-- three men on `wN`: four plies exhaust TUROCHAMP's quiescence tree there (through the mate branch: Qb8# is explored)
example : QDone (turochampGame Proofs.exZ) (turochampExplore Proofs.exZ) 4 wN :=
  turochamp_qdone_men Proofs.exZ 2 wN wN_inv (by
    rw [menP_eq_popCount wN_inv.2.2.1.rep]
    decide +kernel)

end Fuel

end Morlock.Props.C13Engines
