import Morlock.Props.C15Limits
/-!
# C15 — `TimeControl.Limits` on a clock that has run out (negative remainder)

`C15Limits.hard_le_remaining` assumes `0 ≤ remaining`. The uci parser accepts `wtime -500` (GUIs do send negative clocks
after a flag fall), so the excluded branch is reachable; this file states what the code does there, for every `int64`
number of moves to go: `int64` division truncates towards zero, so the limits of `-r` are exactly the negated limits of
`r` - both are `≤ 0` (the search is stopped at the first poll), `remaining ≤ hard ≤ soft ≤ 0`, nothing wraps, nothing panics.
-/
namespace Morlock.Props.C15LimitsNeg
open Morlock Morlock.Model Morlock.Props.C15Limits

/-- The arithmetic of `limits` commutes with negating the clock, whenever the first quotient stays within the clock. -/
theorem core_neg (r m : Int) (h0 : 0 ≤ r) (h1 : r < 4611686018427387904)
    (hq0 : 0 ≤ Int.tdiv r m) (hq1 : Int.tdiv r m ≤ r) :
    wrap64 (Int.tdiv (wrap64 (Int.tdiv (-r) m)) 2) = - wrap64 (Int.tdiv (wrap64 (Int.tdiv r m)) 2) ∧
    wrap64 (3 * wrap64 (Int.tdiv (wrap64 (Int.tdiv (-r) m)) 2)) =
      - wrap64 (3 * wrap64 (Int.tdiv (wrap64 (Int.tdiv r m)) 2)) := by
  rw [Int.neg_tdiv]
  obtain ⟨q, hq⟩ : ∃ q, Int.tdiv r m = q := ⟨_, rfl⟩
  rw [hq] at hq0 hq1 ⊢
  have w1 : wrap64 q = q := by unfold wrap64; omega
  have w1n : wrap64 (-q) = -q := by unfold wrap64; omega
  rw [w1, w1n, Int.neg_tdiv]
  have q2n : 0 ≤ Int.tdiv q 2 := Int.tdiv_nonneg hq0 (by omega)
  have q2m : Int.tdiv q 2 * 2 ≤ q := by
    have := Int.tdiv_mul_le q (b := 2) (by omega)
    rw [if_pos hq0] at this
    simpa using this
  obtain ⟨q2, hq2⟩ : ∃ q2, Int.tdiv q 2 = q2 := ⟨_, rfl⟩
  rw [hq2] at q2n q2m ⊢
  have w2 : wrap64 q2 = q2 := by unfold wrap64; omega
  have w2n : wrap64 (-q2) = -q2 := by unfold wrap64; omega
  rw [w2, w2n]
  have w3 : wrap64 (3 * q2) = 3 * q2 := by unfold wrap64; omega
  have w3n : wrap64 (3 * -q2) = -(3 * q2) := by unfold wrap64; omega
  rw [w3, w3n]
  exact ⟨rfl, rfl⟩

/-- **The limits of a negative clock are the negated limits of its absolute value** (every `int64` moves-to-go). -/
theorem limits_neg (r moves : Int) (h0 : 0 ≤ r) (h1 : r < 4611686018427387904)
    (m0 : -9223372036854775808 ≤ moves) (m1 : moves < 9223372036854775808) :
    limits (-r) moves = (-(limits r moves).1, -(limits r moves).2) := by
  unfold limits
  by_cases hm : moves > 0
  · simp only [hm, if_true]
    by_cases hmax : moves = 9223372036854775807
    · subst hmax
      have hw : wrap64 (9223372036854775807 + 1) = -9223372036854775808 := by decide
      rw [hw]
      have hz : Int.tdiv r (-9223372036854775808) = 0 := by
        rw [show (-9223372036854775808 : Int) = -(9223372036854775808 : Int) by rfl, Int.tdiv_neg,
          Int.tdiv_eq_zero_of_lt h0 (by omega)]
        rfl
      have c := core_neg r (-9223372036854775808) h0 h1 (by rw [hz]; omega) (by rw [hz]; omega)
      exact Prod.ext c.1 c.2
    · have w1 : wrap64 (moves + 1) = moves + 1 := by unfold wrap64; omega
      rw [w1]
      have c := core_neg r (moves + 1) h0 h1 (Int.tdiv_nonneg h0 (by omega)) (Int.tdiv_le_self _ h0)
      exact Prod.ext c.1 c.2
  · simp only [hm, if_false]
    have c := core_neg r Gen.defaultHorizon h0 h1 (Int.tdiv_nonneg h0 (by have := horizon_ok; omega))
      (Int.tdiv_le_self _ h0)
    exact Prod.ext c.1 c.2

/-- **A clock that has run out (`-2^62 < remaining ≤ 0`) gives limits that have run out too, and no further than the
    clock itself:** `remaining ≤ hard ≤ soft ≤ 0` - for every `int64` number of moves to go. -/
theorem negative_clock (remaining moves : Int) (h0 : remaining ≤ 0) (h1 : -4611686018427387904 < remaining)
    (m0 : -9223372036854775808 ≤ moves) (m1 : moves < 9223372036854775808) :
    remaining ≤ (limits remaining moves).2 ∧ (limits remaining moves).2 ≤ (limits remaining moves).1 ∧
    (limits remaining moves).1 ≤ 0 := by
  have h := limits_neg (-remaining) moves (by omega) (by omega) m0 m1
  rw [Int.neg_neg] at h
  have p := hard_le_remaining (-remaining) moves (by omega) (by omega) m0 m1
  rw [h]
  simp only
  omega

/-- Non-vacuity / the concrete case: `wtime -500` ms with 40 moves assumed or 1 move to go. -/
example : limits (-1000000000) 1 = (-250000000, -750000000) := by decide

end Morlock.Props.C15LimitsNeg
