import Morlock.Model.EngineCfg
set_option linter.unusedSimpArgs false

/-!
# C18 / C15: what an analysis is given depends on the game and on what was asked - the configuration side

Theorems over `Model/EngineCfg.lean` (the transcription of the option / table / noise bookkeeping of `engine.Engine`), for
every sequence of operations:

* an analysis never alters the options; the options are exactly what the setters made them (`opts_eq_fold_setters`);
* the depth limit a search is launched with is the one asked for, else the configured one (`launch_depth`);
* the table a search is launched with is the table of the current game (`launch_table`), which only a successful `Reset`
  replaces (`table_changed_only_by_reset`), by a table no earlier game had (`reset_table_fresh`) - or by none when the hash
  is off (`hash_off_no_table`): nothing of an earlier game's table survives a new game;
* the noise a game plays with is the option as it was when the game started (`launch_noise_of_game`), and two searches of
  one game never get the same noise source (`noise_seeds_increase`).
-/
namespace Morlock.Props.C18Cfg
open Morlock.Model.EngineCfg

/-- The effect of an operation on the options: only the three setters have one. -/
def setOpts (o : Opts) : Op → Opts
  | .setDepth n => { o with depth := n }
  | .setHash n => { o with hash := n }
  | .setNoise n => { o with noise := n }
  | _ => o

theorem step_opts (c : Cfg) (op : Op) : (step c op).1.opts = setOpts c.opts op := by
  cases op <;> simp [step, setOpts, startGame]
  · rename_i ok; cases ok <;> simp [step, startGame]
  · rename_i p; cases p <;> simp [step]
  · split <;> simp
  · split <;> simp

/-- An analysis (with or without an explicit limit, accepted or refused) leaves the options as they were. -/
theorem analyze_keeps_options (c : Cfg) (lim : Option Nat) : (step c (.analyze lim)).1.opts = c.opts := by
  rw [step_opts]; rfl

theorem run_fst_cons (c : Cfg) (op : Op) (ops : List Op) : (run c (op :: ops)).1 = (run (step c op).1 ops).1 := by
  simp [run]

/-- After any sequence of operations the options are what the setters in it made them - nothing else writes them. -/
theorem opts_eq_fold_setters (c : Cfg) (ops : List Op) : (run c ops).1.opts = ops.foldl setOpts c.opts := by
  induction ops generalizing c with
  | nil => simp [run]
  | cons op ops ih => rw [run_fst_cons, ih, step_opts]; rfl

/-- The depth limit of a launched search: the explicit one, else the configured depth. -/
theorem launch_depth (c : Cfg) (lim : Option Nat) (l : Launch) (h : (step c (.analyze lim)).2 = .launched l) :
    l.depthLimit = lim.getD c.opts.depth := by
  simp only [step] at h
  split at h
  · cases h
  · cases h; rfl

/-- A launched search works on the table of the current game. -/
theorem launch_table (c : Cfg) (lim : Option Nat) (l : Launch) (h : (step c (.analyze lim)).2 = .launched l) :
    l.table = c.table ∧ l.bytes = c.bytes := by
  simp only [step] at h
  split at h
  · cases h
  · cases h; exact ⟨rfl, rfl⟩

/-- Only a successful `Reset` replaces the game's table. -/
theorem table_changed_only_by_reset (c : Cfg) (op : Op) (h : op ≠ .reset true) :
    (step c op).1.table = c.table ∧ (step c op).1.bytes = c.bytes := by
  cases op <;> simp [step]
  · rename_i ok; cases ok <;> simp_all [step]
  · rename_i p; cases p <;> simp [step]
  · split <;> simp
  · split <;> simp

/-- With the hash switched off, a new game has no table: the old one is gone, contents and all. -/
theorem hash_off_no_table (c : Cfg) (h : c.opts.hash = 0) :
    (step c (.reset true)).1.table = none ∧ (step c (.reset true)).1.bytes = 0 := by
  simp [step, startGame, h]

/-- ... and with the hash on, it has a table of the configured size. -/
theorem hash_on_table (c : Cfg) (h : c.opts.hash > 0) :
    (step c (.reset true)).1.table = some (c.resets + 1) ∧ (step c (.reset true)).1.bytes = c.opts.hash <<< 20 := by
  simp [step, startGame, h]

/-- Tables are numbered by the reset that made them: never ahead of the counter. -/
def TableOk (c : Cfg) : Prop := ∀ g, c.table = some g → g ≤ c.resets

theorem tableOk_new (o : Opts) : TableOk (new o) := by
  intro g h
  simp only [new, startGame] at h ⊢
  split at h
  · cases h; exact Nat.le_refl _
  · cases h

theorem resets_mono (c : Cfg) (op : Op) : c.resets ≤ (step c op).1.resets := by
  cases op <;> simp [step, startGame]
  · rename_i ok; cases ok <;> simp [step, startGame]
  · rename_i p; cases p <;> simp [step]
  · split <;> simp
  · split <;> simp

theorem tableOk_step (c : Cfg) (op : Op) (h : TableOk c) : TableOk (step c op).1 := by
  by_cases hr : op = .reset true
  · subst hr
    intro g hg
    simp only [step, startGame] at hg ⊢
    split at hg
    · cases hg; exact Nat.le_refl _
    · cases hg
  · intro g hg
    rw [(table_changed_only_by_reset c op hr).1] at hg
    exact Nat.le_trans (h g hg) (resets_mono c op)

theorem tableOk_run (c : Cfg) (ops : List Op) (h : TableOk c) : TableOk (run c ops).1 := by
  induction ops generalizing c with
  | nil => simpa [run] using h
  | cons op ops ih => rw [run_fst_cons]; exact ih _ (tableOk_step c op h)

/-- The table of a new game is not the table of the game before it (nor, by `TableOk`, of any earlier one). -/
theorem reset_table_fresh (c : Cfg) (h : TableOk c) (hh : c.opts.hash > 0) :
    (step c (.reset true)).1.table ≠ c.table := by
  rw [(hash_on_table c hh).1]
  intro he
  have := h (c.resets + 1) he.symm
  omega

/-- For every engine, after every sequence of operations: a new game's table was never used before. -/
theorem reset_table_fresh_reachable (o : Opts) (ops : List Op) (hh : (run (new o) ops).1.opts.hash > 0) :
    (step (run (new o) ops).1 (.reset true)).1.table ≠ (run (new o) ops).1.table :=
  reset_table_fresh _ (tableOk_run _ ops (tableOk_new o)) hh

/-- The noise a search is launched with is the noise the GAME was started with (the option as it was at the last `Reset`),
whatever the option says now. -/
theorem launch_noise_of_game (c : Cfg) (lim : Option Nat) (l : Launch) (h : (step c (.analyze lim)).2 = .launched l) :
    l.noise = if c.noise > 0 then some (c.noise, c.searches + 1) else none := by
  simp only [step] at h
  split at h
  · cases h
  · cases h
    by_cases hn : c.noise > 0 <;> simp [hn]

theorem setNoise_keeps_game_noise (c : Cfg) (n : Nat) : (step c (.setNoise n)).1.noise = c.noise := by
  simp [step]

theorem reset_takes_noise (c : Cfg) : (step c (.reset true)).1.noise = c.opts.noise ∧ (step c (.reset true)).1.searches = 0 := by
  simp [step, startGame]

/-- The search counter of a game never decreases except at a new game, and a launch on a noisy game increases it: so two
searches of one game are never handed the same noise source. -/
theorem noise_seeds_increase (c : Cfg) (lim : Option Nat) (l : Launch) (h : (step c (.analyze lim)).2 = .launched l)
    (hn : c.noise > 0) : (step c (.analyze lim)).1.searches = c.searches + 1 ∧ l.noise = some (c.noise, c.searches + 1) := by
  simp only [step] at h ⊢
  split at h
  · cases h
  · rename_i ha
    cases h
    simp [ha, hn]

theorem searches_changed_only_by_reset_and_launch (c : Cfg) (op : Op) (h1 : op ≠ .reset true) (h2 : ∀ lim, op ≠ .analyze lim) :
    (step c op).1.searches = c.searches := by
  cases op <;> simp [step]
  · rename_i ok; cases ok <;> simp_all [step]
  · rename_i p; cases p <;> simp [step]
  · rename_i lim; exact absurd rfl (h2 lim)
  · split <;> simp

/-- A second analysis while one is running is refused and changes nothing. -/
theorem analyze_while_active (c : Cfg) (lim : Option Nat) (h : c.active = true) : step c (.analyze lim) = (c, .error) := by
  simp [step, h]

/-! ### Non-vacuity: a concrete history -/

/-- hash 1, depth 2: analyse with limit 4, then without a limit (configured depth again), switch the hash off, new game. -/
example :
    let c0 := new { depth := 2, hash := 1, noise := 0 }
    let r := run c0 [.analyze (some 4), .halt, .analyze none, .halt, .setHash 0, .reset true, .analyze none]
    r.2 = [.launched ⟨4, some 1, 1 <<< 20, none⟩, .done, .launched ⟨2, some 1, 1 <<< 20, none⟩, .done, .done, .done,
           .launched ⟨2, none, 0, none⟩]
    ∧ r.1.opts = { depth := 2, hash := 0, noise := 0 } := by
  decide

example :
    let c0 := new { depth := 1, hash := 0, noise := 5 }
    (run c0 [.analyze none, .halt, .setNoise 0, .analyze none, .halt, .reset true, .analyze none]).2
      = [.launched ⟨1, none, 0, some (5, 1)⟩, .done, .done, .launched ⟨1, none, 0, some (5, 2)⟩, .done, .done,
         .launched ⟨1, none, 0, none⟩] := by
  decide

end Morlock.Props.C18Cfg
