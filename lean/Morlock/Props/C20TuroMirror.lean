import Morlock.Proofs.TuroMirror
import Morlock.Props.C20TurochampFlt
/-!
# C20 — TUROCHAMP's evaluation is colour-blind, also with a check or an en-passant target on the board

`Props/C20TurochampFlt.lean` proves `evaluate_mirror_quiet` (no check, no e.p. target) and, in general, colour-blindness
up to `MirrorGap` for the side NOT to move (`evaluate_mirror_mover`): for that side `PositionPlay` generates moves with the
e.p. target and check status of the actual position - "en-passant captures" onto the side's own target (they are accepted
by `Position.Move` and remove a phantom pawn: `obs_enpassant_for_side_not_to_move`), captures of a king in check - which no
position of the reference semantics describes.

**Decision of the gap: the evaluation IS colour-blind there too.** The proof does not go through the reference semantics
but through the bitboards (`Proofs/TuroMirror*.lean`): `MP p q` = every bitboard of `q` is the mirror image of the bitboard
of the other colour of `p`; the generator, `Position.Move`, `IsChecked`, `IsCheckMate` commute with it for either colour
(`pseudo_mirror`, `move_mirror`, `legal_mirror`, `isCheckMate_mirror`), also on the positions with a phantom pawn.

1. `mirrorGap_any`: `MirrorGap p q c` for BOTH colours `c`, from `WF p t` alone (no `WFplay`).
2. `legalMoves_mirror_any`: the legal moves of either colour (as `Position.LegalMoves` computes them, phantom captures
   included) of the mirrored position are the mirror images of the legal moves, up to order.
3. `evaluate_mirror`: `Eval.Evaluate` is colour-blind as a float32, for all iteration orders of the mobility maps, on every
   `WF`/`Sane` pair - no `MirrorGap` hypothesis, no "not in check", any e.p. target. `evaluate_mirror_wfplay`: the same with the
   hypotheses of `evaluate_mirror_mover`; `evaluate_mirror_board`: for the model's `evaluate` on boards.
4. Instances: a position with the side to move in check AND an e.p. target AND phantom captures for the other side
   (`chk_mirror`); a position where the ONLY "mate threat" of the side not to move is a phantom en-passant capture
   (`obs_phantom_mate`: the evaluation depends on the e.p. target through a move that does not exist - symmetrically).
-/
namespace Morlock.Props.C20TuroMirror
open Morlock Morlock.Model Morlock.Model.Flt Morlock.Model.Turochamp Morlock.Proofs Morlock.Proofs.Gen
open Morlock.Proofs.Mirror Morlock.Proofs.Turochamp Morlock.Proofs.TuroMirror

/-- the mirror image of a move: origin and destination mirrored, everything else kept -/
theorem mirrorMove_def (m : Move) : mm m = { m with «from» := Spec.mirrorSq m.from, to := Spec.mirrorSq m.to } := rfl

/-- What the hypotheses give: `q` is the mirror image of `p` bitboard by bitboard (`MP`), the occupancy of `p` is the
exclusive or of the two colour sets, and each king set has at most one bit. -/
theorem bits_of_rep {p q : Position} {t : Color} {b : Proofs.Board} (hw : WF p t) (hp : Rep p b)
    (hq : Rep q (mirrorBoard b))
    (hwk : (q.castling &&& wK != 0) = (p.castling &&& bK != 0))
    (hwq : (q.castling &&& wQ != 0) = (p.castling &&& bQ != 0))
    (hbk : (q.castling &&& bK != 0) = (p.castling &&& wK != 0))
    (hbq : (q.castling &&& bQ != 0) = (p.castling &&& wQ != 0))
    (hep0 : p.enpassant = 0 → q.enpassant = 0)
    (hep1 : p.enpassant ≠ 0 → q.enpassant = Spec.mirrorSq p.enpassant ∧ q.enpassant ≠ 0) :
    MP p q ∧ Tri p ∧ ∀ d, One (p.pieces d .king) := by
  have hb : b = p.square := hp.board_eq
  refine ⟨MP.of_rep hw hp hq hwk hwq hbk hbq hep0 hep1, Tri.of_rep hp, fun d => ?_⟩
  exact one_king_of_wfb hp (hb ▸ hw.wfb) d

/-- **mirrorGap_any.** The three terms of `PositionPlay` that read the legal moves - mate threat, "may castle", the exact
mobility sum - are colour-blind for BOTH colours, in particular for the side not to move when the side to move is in
check or an en-passant target is set. -/
theorem mirrorGap_any {p q : Position} {t : Color} {b : Proofs.Board} (hw : WF p t) (hp : Rep p b)
    (hq : Rep q (mirrorBoard b))
    (hwk : (q.castling &&& wK != 0) = (p.castling &&& bK != 0))
    (hwq : (q.castling &&& wQ != 0) = (p.castling &&& bQ != 0))
    (hbk : (q.castling &&& bK != 0) = (p.castling &&& wK != 0))
    (hbq : (q.castling &&& bQ != 0) = (p.castling &&& wQ != 0))
    (hep0 : p.enpassant = 0 → q.enpassant = 0)
    (hep1 : p.enpassant ≠ 0 → q.enpassant = Spec.mirrorSq p.enpassant ∧ q.enpassant ≠ 0) (c : Color) :
    MirrorGap p q c := by
  obtain ⟨h, _, hk⟩ := bits_of_rep hw hp hq hwk hwq hbk hbq hep0 hep1
  exact mirrorGap_bits h hp hk c

/-- **legalMoves_mirror_any.** `Position.LegalMoves` of either colour on the mirrored position = the mirror images of
`Position.LegalMoves` of the other colour, up to order - whoever is to move. -/
theorem legalMoves_mirror_any {p q : Position} {t : Color} {b : Proofs.Board} (hw : WF p t) (hp : Rep p b)
    (hq : Rep q (mirrorBoard b))
    (hwk : (q.castling &&& wK != 0) = (p.castling &&& bK != 0))
    (hwq : (q.castling &&& wQ != 0) = (p.castling &&& bQ != 0))
    (hbk : (q.castling &&& bK != 0) = (p.castling &&& wK != 0))
    (hbq : (q.castling &&& bQ != 0) = (p.castling &&& wQ != 0))
    (hep0 : p.enpassant = 0 → q.enpassant = 0)
    (hep1 : p.enpassant ≠ 0 → q.enpassant = Spec.mirrorSq p.enpassant ∧ q.enpassant ≠ 0) (c : Color) :
    (q.legalMoves c.opp).Perm ((p.legalMoves c).map mm) ∧
    (q.pseudoLegalMoves c.opp).Perm ((p.pseudoLegalMoves c).map mm) := by
  obtain ⟨h, ht, hk⟩ := bits_of_rep hw hp hq hwk hwq hbk hbq hep0 hep1
  exact ⟨legal_mirror h ht hk c, pseudo_mirror h c (hk c)⟩

/-- **positionMove_mirror.** `Position.Move` on a generated move of either colour and on its mirror image: both rejected,
or both accepted and the results are mirror images bitboard by bitboard (also when the result has a phantom pawn). -/
theorem positionMove_mirror {p q : Position} {t : Color} {b : Proofs.Board} (hw : WF p t) (hp : Rep p b)
    (hq : Rep q (mirrorBoard b))
    (hwk : (q.castling &&& wK != 0) = (p.castling &&& bK != 0))
    (hwq : (q.castling &&& wQ != 0) = (p.castling &&& bQ != 0))
    (hbk : (q.castling &&& bK != 0) = (p.castling &&& wK != 0))
    (hbq : (q.castling &&& bQ != 0) = (p.castling &&& wQ != 0))
    (hep0 : p.enpassant = 0 → q.enpassant = 0)
    (hep1 : p.enpassant ≠ 0 → q.enpassant = Spec.mirrorSq p.enpassant ∧ q.enpassant ≠ 0) {c : Color} {m : Move}
    (hm : m ∈ p.pseudoLegalMoves c) :
    (p.move m = none ∧ q.move (mm m) = none) ∨
    ∃ p' q', p.move m = some p' ∧ q.move (mm m) = some q' ∧ MP p' q' ∧ ∀ d, q'.isCheckMate d.opp = p'.isCheckMate d := by
  obtain ⟨h, ht, hk⟩ := bits_of_rep hw hp hq hwk hwq hbk hbq hep0 hep1
  have g := pseudo_ok h.sized hm
  obtain ⟨hsq, htn, hkn⟩ := next_facts hp hk g
  rcases move_mirror h ht hk g.ok (promo_ne_king g) with hn | ⟨turn, pc, hs, a, b'⟩
  · exact Or.inl hn
  · rw [hsq] at hs
    obtain ⟨rfl, rfl⟩ := Prod.mk.inj (Option.some.inj hs)
    have hmp := moveRaw_MP h g.ok c m.piece
    exact Or.inr ⟨_, _, a, b', hmp, fun d => isCheckMate_mirror hmp htn hkn d⟩

/-- **evaluate_mirror.** `Eval.Evaluate` is colour-blind as a float32 - for any iteration orders of the mobility maps on
the two boards - for EVERY well-formed position with at most 16 men a side and no pawn on the first or last rank: `q`
representing the mirrored board (castling rights exchanged, en-passant target mirrored) evaluates for `t.opp` to what `p`
evaluates for `t`. No hypothesis on checks (not even that the side not to move is not in check), none on the e.p. target
beyond `WF`, no `MirrorGap`. -/
theorem evaluate_mirror {p q : Position} {t : Color} {b : Proofs.Board} (hp : Rep p b) (hq : Rep q (mirrorBoard b))
    (hwp : WF p t) (hwq : WF q t.opp)
    (hwk : (q.castling &&& wK != 0) = (p.castling &&& bK != 0))
    (hwq' : (q.castling &&& wQ != 0) = (p.castling &&& bQ != 0))
    (hbk : (q.castling &&& bK != 0) = (p.castling &&& wK != 0))
    (hbq : (q.castling &&& bQ != 0) = (p.castling &&& wQ != 0))
    (hep0 : p.enpassant = 0 → q.enpassant = 0)
    (hep1 : p.enpassant ≠ 0 → q.enpassant = Spec.mirrorSq p.enpassant ∧ q.enpassant ≠ 0)
    (hW : Sane p .white) (hB : Sane p .black)
    (cs co : Bool) (oS oO oS' oO' : List (Nat × Nat) → List (Nat × Nat))
    (hpS : ∀ l, (oS l).Perm l) (hpO : ∀ l, (oO l).Perm l) (hpS' : ∀ l, (oS' l).Perm l) (hpO' : ∀ l, (oO' l).Perm l) :
    evaluateCoreOrd oS oO q cs co t.opp = evaluateCoreOrd oS' oO' p cs co t := by
  have habs := Mirror.abs_eq_mirror hp hq t hwk hwq' hbk hbq hep0 hep1
  have hgap : ∀ c, MirrorGap p q c := mirrorGap_any hwp hp hq hwk hwq' hbk hbq hep0 hep1
  exact evaluateCoreOrd_mirror hwp hwq hp hq habs hwk hwq' hbk hbq hW hB hgap cs co t oS oO oS' oO' hpS hpO hpS' hpO'

/-- `evaluate_mirror` under the hypotheses of `evaluate_mirror_mover`, the `MirrorGap` hypothesis dropped. -/
theorem evaluate_mirror_wfplay {p q : Position} {t : Color} {b : Proofs.Board} (hp : Rep p b)
    (hq : Rep q (mirrorBoard b)) (hwp : Chain.WFplay p t) (hwq : Chain.WFplay q t.opp)
    (hwk : (q.castling &&& wK != 0) = (p.castling &&& bK != 0))
    (hwq' : (q.castling &&& wQ != 0) = (p.castling &&& bQ != 0))
    (hbk : (q.castling &&& bK != 0) = (p.castling &&& wK != 0))
    (hbq : (q.castling &&& bQ != 0) = (p.castling &&& wQ != 0))
    (hep0 : p.enpassant = 0 → q.enpassant = 0)
    (hep1 : p.enpassant ≠ 0 → q.enpassant = Spec.mirrorSq p.enpassant ∧ q.enpassant ≠ 0)
    (hW : Sane p .white) (hB : Sane p .black)
    (cs co : Bool) (oS oO oS' oO' : List (Nat × Nat) → List (Nat × Nat))
    (hpS : ∀ l, (oS l).Perm l) (hpO : ∀ l, (oO l).Perm l) (hpS' : ∀ l, (oS' l).Perm l) (hpO' : ∀ l, (oO' l).Perm l) :
    evaluateCoreOrd oS oO q cs co t.opp = evaluateCoreOrd oS' oO' p cs co t :=
  evaluate_mirror hp hq hwp.1 hwq.1 hwk hwq' hbk hbq hep0 hep1 hW hB cs co oS oO oS' oO' hpS hpO hpS' hpO'

/-- the model's `Eval.Evaluate` with the map summed in insertion order is `evaluateCoreOrd id id` -/
theorem evaluate_eq (w : World) (b : Nat) :
    evaluate w b = evaluateCoreOrd id id (w.cur b).pos (hasCastled w b (w.board b).turn)
      (hasCastled w b (w.board b).turn.opp) (w.board b).turn := rfl

/-- **evaluate_mirror_board.** The model's `Eval.Evaluate` on two boards whose positions are mirror images, with the
sides to move and the has-castled flags exchanged: the same float32. -/
theorem evaluate_mirror_board {w w' : World} {b b' : Nat} {bd : Proofs.Board}
    (hp : Rep (w.cur b).pos bd) (hq : Rep (w'.cur b').pos (mirrorBoard bd))
    (hturn : (w'.board b').turn = (w.board b).turn.opp)
    (hwp : WF (w.cur b).pos (w.board b).turn) (hwq : WF (w'.cur b').pos (w'.board b').turn)
    (hwk : ((w'.cur b').pos.castling &&& wK != 0) = ((w.cur b).pos.castling &&& bK != 0))
    (hwq' : ((w'.cur b').pos.castling &&& wQ != 0) = ((w.cur b).pos.castling &&& bQ != 0))
    (hbk : ((w'.cur b').pos.castling &&& bK != 0) = ((w.cur b).pos.castling &&& wK != 0))
    (hbq : ((w'.cur b').pos.castling &&& bQ != 0) = ((w.cur b).pos.castling &&& wQ != 0))
    (hep0 : (w.cur b).pos.enpassant = 0 → (w'.cur b').pos.enpassant = 0)
    (hep1 : (w.cur b).pos.enpassant ≠ 0 →
      (w'.cur b').pos.enpassant = Spec.mirrorSq (w.cur b).pos.enpassant ∧ (w'.cur b').pos.enpassant ≠ 0)
    (hW : Sane (w.cur b).pos .white) (hB : Sane (w.cur b).pos .black)
    (hcast : ∀ c, hasCastled w' b' c.opp = hasCastled w b c) :
    evaluate w' b' = evaluate w b := by
  rw [evaluate_eq, evaluate_eq, hturn, hcast, copp_opp, ← hcast (w.board b).turn.opp, copp_opp]
  rw [hturn] at hwq
  have := hcast (w.board b).turn.opp
  rw [copp_opp] at this
  rw [this]
  exact evaluate_mirror hp hq hwp hwq hwk hwq' hbk hbq hep0 hep1 hW hB _ _ id id id id
    (fun _ => List.Perm.refl _) (fun _ => List.Perm.refl _) (fun _ => List.Perm.refl _) (fun _ => List.Perm.refl _)

/-! ## Instance 1: the side to move is in check, an e.p. target is set, the other side has phantom captures -/

/-- `r6r/8/8/3k4/3pP3/8/3P1P2/R3K2R b KQ e3`: White has just played e2-e4+; Black, to move, is in check and may take en
passant; White (not to move) is given the phantom captures d2xe3 and f2xe3. -/
def chkPl : List (Nat × Color × Piece) :=
  [(7, .white, .rook), (3, .white, .king), (0, .white, .rook), (12, .white, .pawn), (10, .white, .pawn),
   (27, .white, .pawn), (63, .black, .rook), (56, .black, .rook), (36, .black, .king), (28, .black, .pawn)]
def chkPlB : List (Nat × Color × Piece) := chkPl.map fun x => (Spec.mirrorSq x.1, x.2.1.opp, x.2.2)
def chkPos : Position := (Position.newPosition chkPl 3 19).getD {}
/-- the mirror image `r3k2r/3p1p2/8/3Pp3/3K4/8/8/R6R w kq e6` -/
def chkPosB : Position := (Position.newPosition chkPlB 12 43).getD {}

theorem chkPos_eq : Position.newPosition chkPl 3 19 = some chkPos := by decide +kernel
theorem chkPosB_eq : Position.newPosition chkPlB 12 43 = some chkPosB := by decide +kernel

theorem rep_of_placements {pl : List (Nat × Color × Piece)} {cs ep : Nat} {p : Position}
    (hall : (pl.all fun x => decide (x.1 < 64) && (x.2.2 != Piece.none)) = true)
    (he : Position.newPosition pl cs ep = some p) : Rep p p.square := by
  have hv : ValidPlacements pl := by
    intro x hx
    have := List.all_eq_true.mp hall x hx
    simpa using this
  exact (newPosition_rep hv he).1.self

theorem chkPos_rep : Rep chkPos chkPos.square := rep_of_placements (by decide +kernel) chkPos_eq
theorem chkPosB_rep : Rep chkPosB chkPosB.square := rep_of_placements (by decide +kernel) chkPosB_eq

theorem repM_of_square {p q : Position} (hp : Rep p p.square) (hq : Rep q q.square)
    (h : ∀ s, s < 64 → q.square s = mirrorBoard p.square s) : Rep q (mirrorBoard p.square) := by
  have : q.square = mirrorBoard p.square := by
    funext sq
    by_cases hsq : sq < 64
    · exact h sq hsq
    · have h64 : 64 ≤ sq := by omega
      unfold mirrorBoard
      rw [Spec.mirrorSq_of_ge h64, hq.out sq h64, hp.out sq h64]
  rw [← this]; exact hq

theorem chkPosB_repM : Rep chkPosB (mirrorBoard chkPos.square) :=
  repM_of_square chkPos_rep chkPosB_rep (by decide +kernel)

/-- Black to move is in check, the e.p. target is e3; for White (not to move) the position is not even `WF`, the generator
gives White two "en-passant captures" and `Position.Move` accepts both: the situation `evaluate_mirror_quiet` and
`mirrorGap_closed` exclude. -/
theorem chkPos_facts :
    chkPos.isChecked .black = true ∧ chkPos.enpassant = 19 ∧ WFc chkPos .white = false ∧
    ((chkPos.legalMoves .white).filter fun m => m.ty == .enPassant).map (fun m => (m.from, m.to)) = [(10, 19), (12, 19)] ∧
    ((chkPos.legalMoves .black).filter fun m => m.ty == .enPassant).map (fun m => (m.from, m.to)) = [(28, 19)] := by
  decide +kernel

/-- **chk_mirror**: `evaluate_mirror` applies - Black's evaluation of `chkPos` is White's of `chkPosB`, all orders. -/
theorem chk_mirror (cs co : Bool) (oS oO oS' oO' : List (Nat × Nat) → List (Nat × Nat))
    (hpS : ∀ l, (oS l).Perm l) (hpO : ∀ l, (oO l).Perm l) (hpS' : ∀ l, (oS' l).Perm l) (hpO' : ∀ l, (oO' l).Perm l) :
    evaluateCoreOrd oS oO chkPosB cs co .white = evaluateCoreOrd oS' oO' chkPos cs co .black :=
  evaluate_mirror (t := .black) chkPos_rep chkPosB_repM ⟨chkPos_rep, by decide +kernel⟩ ⟨chkPosB_rep, by decide +kernel⟩
    (by decide +kernel) (by decide +kernel) (by decide +kernel) (by decide +kernel)
    (fun h => absurd h (by decide +kernel)) (fun _ => by decide +kernel)
    ⟨by decide +kernel, by decide +kernel, by decide +kernel⟩ ⟨by decide +kernel, by decide +kernel, by decide +kernel⟩
    cs co oS oO oS' oO' hpS hpO hpS' hpO'

/-- the gap closed on the instance, for the side not to move (White on `chkPos`) -/
example : MirrorGap chkPos chkPosB .white :=
  mirrorGap_any (t := .black) ⟨chkPos_rep, by decide +kernel⟩ chkPos_rep chkPosB_repM (by decide +kernel) (by decide +kernel)
    (by decide +kernel) (by decide +kernel) (fun h => absurd h (by decide +kernel)) (fun _ => by decide +kernel) .white

/- The value on both sides is the float32 `0xc49398f6` = -1180.78 (`#eval`; the kernel needs about a minute for it, so it
is not stated as a theorem; kernel-checked values are given for the lighter instance 2). -/

/-! ## Instance 2: a "mate threat" that is a phantom en-passant capture -/

/-- `k7/2Q4p/8/4P3/4P3/8/3P4/4K2B b - e3`: White has just played e2-e4; Black is to move. -/
def phPl : List (Nat × Color × Piece) :=
  [(63, .black, .king), (48, .black, .pawn), (53, .white, .queen), (35, .white, .pawn), (27, .white, .pawn),
   (12, .white, .pawn), (3, .white, .king), (0, .white, .bishop)]
def phPlB : List (Nat × Color × Piece) := phPl.map fun x => (Spec.mirrorSq x.1, x.2.1.opp, x.2.2)
def phPos : Position := (Position.newPosition phPl 0 19).getD {}
/-- the same board without the e.p. target -/
def phPos0 : Position := (Position.newPosition phPl 0 0).getD {}
/-- the mirror image `4k2b/3p4/8/4p3/4p3/8/2q4P/K7 w - e6` -/
def phPosB : Position := (Position.newPosition phPlB 0 43).getD {}

theorem phPos_eq : Position.newPosition phPl 0 19 = some phPos := by decide +kernel
theorem phPosB_eq : Position.newPosition phPlB 0 43 = some phPosB := by decide +kernel
theorem phPos_rep : Rep phPos phPos.square := rep_of_placements (by decide +kernel) phPos_eq
theorem phPosB_rep : Rep phPosB phPosB.square := rep_of_placements (by decide +kernel) phPosB_eq
theorem phPosB_repM : Rep phPosB (mirrorBoard phPos.square) :=
  repM_of_square phPos_rep phPosB_rep (by decide +kernel)

theorem ph_mate : mayCheckMate phPos .white = true := by decide +kernel
theorem ph_mate0 : mayCheckMate phPos0 .white = false := by decide +kernel
theorem ph_mateB : mayCheckMate phPosB .black = true := by decide +kernel
theorem ph_mating : ((phPos.legalMoves .white).filter fun m => match phPos.move m with
    | some next => next.isCheckMate .black | none => false).map (fun m => (m.ty, m.from, m.to)) =
    [(.enPassant, 12, 19)] := by decide +kernel
theorem ph_value : (evaluateCoreOrd id id phPos false false .black).bind bits32 = some 0xc680ea57 := by decide +kernel
theorem ph_value0 : (evaluateCoreOrd id id phPos0 false false .black).bind bits32 = some 0xc680ea24 := by decide +kernel
theorem ph_valueB : (evaluateCoreOrd id id phPosB false false .white).bind bits32 = some 0xc680ea57 := by decide +kernel

/-- **obs_phantom_mate.** With the e.p. target e3 set, `PositionPlay(b, White)` (White is NOT to move) finds a "mating
move": the phantom capture d2xe3, which removes a black pawn from e4 - where White's own pawn stands - and so opens the
diagonal h1-a8 of the bishop in the occupancy. No real move of White mates (without the target the flag is false). The
evaluation for Black changes from `0xc680ea24` to `0xc680ea57` through a move that does not exist; it does so on the mirror
image as well. -/
theorem obs_phantom_mate :
    mayCheckMate phPos .white = true ∧ mayCheckMate phPos0 .white = false ∧
    ((phPos.legalMoves .white).filter fun m => match phPos.move m with
      | some next => next.isCheckMate .black | none => false).map (fun m => (m.ty, m.from, m.to)) = [(.enPassant, 12, 19)] ∧
    (evaluateCoreOrd id id phPos false false .black).bind bits32 = some 0xc680ea57 ∧
    (evaluateCoreOrd id id phPos0 false false .black).bind bits32 = some 0xc680ea24 ∧
    mayCheckMate phPosB .black = true ∧
    (evaluateCoreOrd id id phPosB false false .white).bind bits32 = some 0xc680ea57 :=
  ⟨ph_mate, ph_mate0, ph_mating, ph_value, ph_value0, ph_mateB, ph_valueB⟩

/-- `evaluate_mirror` on the phantom-mate position -/
theorem ph_mirror (cs co : Bool) (oS oO oS' oO' : List (Nat × Nat) → List (Nat × Nat))
    (hpS : ∀ l, (oS l).Perm l) (hpO : ∀ l, (oO l).Perm l) (hpS' : ∀ l, (oS' l).Perm l) (hpO' : ∀ l, (oO' l).Perm l) :
    evaluateCoreOrd oS oO phPosB cs co .white = evaluateCoreOrd oS' oO' phPos cs co .black :=
  evaluate_mirror (t := .black) phPos_rep phPosB_repM ⟨phPos_rep, by decide +kernel⟩ ⟨phPosB_rep, by decide +kernel⟩
    (by decide +kernel) (by decide +kernel) (by decide +kernel) (by decide +kernel)
    (fun h => absurd h (by decide +kernel)) (fun _ => by decide +kernel)
    ⟨by decide +kernel, by decide +kernel, by decide +kernel⟩ ⟨by decide +kernel, by decide +kernel, by decide +kernel⟩
    cs co oS oO oS' oO' hpS hpO hpS' hpO'

/-- the phantom capture d2xe3 -/
def phMove : Move := { ty := .enPassant, «from» := 12, to := 19, piece := .pawn }
/-- the position `Position.Move` returns for it -/
def phNext : Position := (phPos.move phMove).getD {}

theorem phMove_mem : phMove ∈ phPos.pseudoLegalMoves .white := by decide +kernel
theorem phNext_eq : phPos.move phMove = some phNext := by decide +kernel
theorem phNext_mate : phNext.isCheckMate .black = true := by decide +kernel
/-- the phantom pawn: e4 is empty in the occupancy and holds a white AND a black pawn in the piece sets -/
theorem phNext_phantom : phNext.rotated.rot.testBit 27 = false ∧ (phNext.pieces .white .pawn).testBit 27 = true ∧
    (phNext.pieces .black .pawn).testBit 27 = true ∧ phNext.square 27 = none := by decide +kernel

/-- the position after the phantom capture and the one after its mirror image are mirror images bitboard by bitboard,
and `IsCheckMate` agrees on them (`positionMove_mirror` is not vacuous on a position with a phantom pawn, which
represents no board) -/
example : ∃ q', phPosB.move (mm phMove) = some q' ∧ MP phNext q' ∧ q'.isCheckMate .white = true := by
  rcases positionMove_mirror (t := .black) ⟨phPos_rep, by decide +kernel⟩ phPos_rep phPosB_repM (by decide +kernel)
    (by decide +kernel) (by decide +kernel) (by decide +kernel) (fun h => absurd h (by decide +kernel))
    (fun _ => by decide +kernel) phMove_mem with ⟨hn, _⟩ | ⟨p', q', h1, h2, h3, h4⟩
  · rw [phNext_eq] at hn; cases hn
  · have hp' : p' = phNext := Option.some.inj (h1.symm.trans phNext_eq)
    subst hp'
    refine ⟨q', h2, h3, ?_⟩
    have := h4 .black
    rw [phNext_mate] at this
    exact this

end Morlock.Props.C20TuroMirror
