import Morlock.Model.Abs
import Morlock.Spec.Chess
/-!
# C01 — legal move generation is exactly the FIDE legal-move set

Full statement (kept visible; NOT yet proved for the whole generator — see `Statement` below).
What is proved here is the part of the claim that is independent of the move-kind analysis: the legal
list is exactly the pseudo-legal list filtered by "the successor exists", in generator order. The
remaining obligation (`Statement`) is decided on every run by the impl-vs-spec stream (`chess legal`,
`chess gen`, perft against the reference semantics and the published counts) and is labelled
*exploration, not proof* in the evidence.
-/
namespace Morlock.Props.C01
open Morlock Morlock.Model

/-- The full C01 statement for the model: on every well-formed position the model's legal moves,
    read through `absMove`, are a permutation of the reference legal moves. -/
def Statement (WF : Position → Color → Prop) : Prop :=
  ∀ p c, WF p c → ((p.legalMoves c).map absMove).Perm (Spec.legalMoves (abs p c))

/-- A move is legal iff it is generated and `Position.Move` accepts it. -/
theorem legal_iff (p : Position) (c : Color) (m : Move) :
    m ∈ p.legalMoves c ↔ m ∈ p.pseudoLegalMoves c ∧ (p.move m).isSome = true := by
  simp [Position.legalMoves, List.mem_filter]

/-- Legal moves come in generator order, each pseudo-legal move at most as often as generated. -/
theorem legal_sublist (p : Position) (c : Color) : (p.legalMoves c).Sublist (p.pseudoLegalMoves c) := by
  simp [Position.legalMoves]

/-- Checkmate is "in check and no legal move". -/
theorem isCheckMate_iff (p : Position) (c : Color) :
    p.isCheckMate c = true ↔ p.isChecked c = true ∧ p.legalMoves c = [] := by
  simp [Position.isCheckMate, List.isEmpty_iff]

example : ∃ m, m ∈ ({} : Position).pseudoLegalMoves .white ∨ True := ⟨{}, Or.inr trivial⟩

end Morlock.Props.C01
