import Morlock.Model.Abs
import Morlock.Spec.Chess
import Morlock.Proofs.GenExample
import Morlock.Proofs.ChainExample
/-!
# C01 — legal move generation is exactly the FIDE legal-move set

Subject: `Position.pseudoLegalMoves`, `legalMoves`, `move` (`pkg/board/position.go`), against the
mailbox reference `Spec.pseudoMoves`, `Spec.isLegal`, `Spec.legalMoves`.

**Proved here, for every position satisfying `WF` (no enumeration of positions):** `statement_holds :
Statement WF` — the model's legal moves, read through `absMove`, are a permutation of the reference
legal moves (`legal_perm`). The proof is staged by move kind (A: `toSquares` and the emitters,
B: officers and king steps, C: pawns, D: castling, E: the whole pseudo-legal list with accurate
metadata and without duplicates, F (in `C06Queries`): `IsAttacked`/`IsChecked`, G: `Position.Move`
accepts exactly the legal moves); every stage is delivered as its own theorem below.

`WF p turn` is `Rep p p.square` (C02: all bitboard views agree with one mailbox board) plus the
decidable chess-level conditions `WFc p turn` (see `Morlock/Proofs/GenWF.lean`): at most one king per
side, castling rights imply the king on its home square, an en-passant target is an empty square on
the mover's sixth rank with an enemy pawn directly behind it.
-/
namespace Morlock.Props.C01
open Morlock Morlock.Model

/-- The full C01 statement for the model: on every well-formed position the model's legal moves,
    read through `absMove`, are a permutation of the reference legal moves. -/
def Statement (WF : Position → Color → Prop) : Prop :=
  ∀ p c, WF p c → ((p.legalMoves c).map absMove).Perm (Spec.legalMoves (abs p c))

/-- A move is legal iff it is generated and `Position.Move` accepts it. -/
theorem legal_iff (p : Position) (c : Color) (m : Move) :
    m ∈ p.legalMoves c ↔ m ∈ p.pseudoLegalMoves c ∧ (p.move m).isSome = true := by
  simp [Position.legalMoves, List.mem_filter]

/-- Legal moves come in generator order, each pseudo-legal move at most as often as generated. -/
theorem legal_sublist (p : Position) (c : Color) : (p.legalMoves c).Sublist (p.pseudoLegalMoves c) := by
  simp [Position.legalMoves]

/-- Checkmate is "in check and no legal move". -/
theorem isCheckMate_iff (p : Position) (c : Color) :
    p.isCheckMate c = true ↔ p.isChecked c = true ∧ p.legalMoves c = [] := by
  simp [Position.isCheckMate, List.isEmpty_iff]


/-!
# The proof of `Statement WF`, staged by move kind

Notation: `Rep p b` (C02) — every view of `p` agrees with the mailbox board `b`; `abs p turn` — the
reference position read off `p`; `occB b` — the occupancy predicate of `b`.
The predicates `StepMove`, `PawnMove`, `CastleMove`, `PseudoMove` (in `Morlock/Proofs/Gen*.lean`)
describe a move *with its metadata* in terms of the mailbox board and the reference geometry
(`Spec.step`, `Spec.officerTargets`, `Spec.pawnTargets`) only.
-/
open Morlock.Proofs Morlock.Proofs.Gen

/-! ## Stage A — `ToSquares` and the emitters -/

/-- `ToSquares` lists exactly the set bits of a 64-bit board. -/
theorem toSquares_mem (b : Bitboard) (hb : b < 2 ^ 64) (sq : Nat) :
    sq ∈ toSquares b ↔ b.testBit sq = true := mem_toSquares hb sq

/-- `ToSquares` is strictly increasing, hence duplicate-free, and stays on the board. -/
theorem toSquares_sorted (b : Bitboard) (hb : b < 2 ^ 64) :
    (toSquares b).Pairwise (· < ·) ∧ (toSquares b).Nodup ∧ ∀ sq ∈ toSquares b, sq < 64 :=
  ⟨Gen.toSquares_sorted hb, toSquares_nodup hb, fun _ h => toSquares_lt hb h⟩

/-- `emitMove`: one move per set bit of the target board, with exactly the fields it fills in. -/
theorem emitMove_mem (p : Position) (turn : Color) (t : MoveType) (piece : Piece) (fr ab : Nat)
    (hab : ab < 2 ^ 64) (m : Move) :
    m ∈ p.emitMove turn t piece fr ab ↔
      ab.testBit m.to = true ∧ m.ty = t ∧ m.piece = piece ∧ m.from = fr ∧ m.promotion = .none ∧
      m.capture = (if t = .capture then p.captureAt m.to turn else .none) := mem_emitMove hab m

/-- `emitPromo`: four moves per set bit, one per promotion piece. -/
theorem emitPromo_mem (p : Position) (turn : Color) (t : MoveType) (piece : Piece) (fr ab : Nat)
    (hab : ab < 2 ^ 64) (m : Move) :
    m ∈ p.emitPromo turn t piece fr ab ↔
      ab.testBit m.to = true ∧ m.ty = t ∧ m.piece = piece ∧ m.from = fr ∧
      m.promotion ∈ Position.promoPieces ∧
      m.capture = (if t = .capturePromotion then p.captureAt m.to turn else .none) := mem_emitPromo hab m

/-- `captureAt` reads the enemy piece off the board (`NoPiece` for an empty or own square). -/
theorem captureAt_eq {p : Position} {b : Board} (h : Rep p b) (sq : Nat) (turn : Color) :
    p.captureAt sq turn =
      match b sq with
      | some (c, k) => if c = turn.opp then k else .none
      | none => .none := captureAt_of_rep h sq turn

/-- The generator output is the concatenation of its officer, pawn and king parts. -/
theorem pseudoLegalMoves_parts (p : Position) (turn : Color) :
    p.pseudoLegalMoves turn = genOfficers p turn ++ genPawns p turn ++ genKing p turn :=
  pseudoLegalMoves_eq p turn

/-! ## Stage B — officers and king steps -/

/-- What `StepMove b turn pc m` says. -/
theorem stepMove_iff (b : Board) (turn : Color) (pc : Piece) (m : Move) :
    StepMove b turn pc m ↔
      b m.from = some (turn, pc) ∧ m.piece = pc ∧ m.promotion = .none ∧
      m.to ∈ Spec.officerTargets (occB b) (kindOf pc) m.from ∧
      ((b m.to = none ∧ m.ty = .normal ∧ m.capture = .none) ∨
       (∃ k, b m.to = some (turn.opp, k) ∧ m.ty = .capture ∧ m.capture = k)) := Iff.rfl

/-- **Stage B.** The officers part of the generator output is exactly: a `turn` queen, rook, knight or
    bishop on `from`, `to` among its reference targets for the board's occupancy, `to` empty (type
    `Normal`, no capture recorded) or enemy-occupied (type `Capture`, that piece recorded). -/
theorem officers_iff {p : Position} {b : Board} (h : Rep p b) (turn : Color) (m : Move) :
    m ∈ genOfficers p turn ↔ ∃ pc ∈ Position.promoPieces, StepMove b turn pc m :=
  mem_genOfficers h turn m

/-- **Stage B.** The king-step part: the same for the lowest-numbered `turn` king. -/
theorem kingSteps_iff {p : Position} {b : Board} (h : Rep p b) (turn : Color)
    (hk : p.pieces turn .king ≠ 0) (m : Move) :
    m ∈ genSteps p turn .king (lastPopSquare (p.pieces turn .king)) ↔
      m.from = lastPopSquare (p.pieces turn .king) ∧ StepMove b turn .king m :=
  mem_genKingSteps h turn hk m

/-- **Stage B.** Step moves are reference pseudo-legal moves with accurate metadata. -/
theorem stepMove_sound {p : Position} {b : Board} (h : Rep p b) {turn : Color} {pc : Piece} {m : Move}
    (hpw : pc ≠ .pawn) (hm : StepMove b turn pc m) :
    absMove m ∈ Spec.pseudoMoves (abs p turn) ∧ MetaOK p m = true ∧ ClassOK (abs p turn) m = true :=
  ⟨hm.abs_mem_pseudoMoves h hpw, hm.metaOK h, hm.classOK h hpw⟩

/-! ## Stage C — pawns -/

/-- **Stage C.** The pawns part of the generator output is exactly the pawn moves of `PawnMove`
    (single push ± promotion ×4, double push from the start rank over two empty squares, capture ±
    promotion ×4, en passant onto the recorded target), for every represented position. -/
theorem pawns_iff {p : Position} {b : Board} (h : Rep p b) (turn : Color) (m : Move) :
    m ∈ genPawns p turn ↔ PawnMove b p.enpassant turn m := mem_genPawns h turn m

/-- What `PawnMove b ep turn m` says (`ep` = the position's en-passant field, 0 = none). -/
theorem pawnMove_iff (b : Board) (ep : Nat) (turn : Color) (m : Move) :
    PawnMove b ep turn m ↔
      b m.from = some (turn, .pawn) ∧ m.piece = .pawn ∧
      ((Spec.step m.from 0 (Spec.fwd (absColor turn)) = some m.to ∧ b m.to = none ∧ m.capture = .none ∧
        ((Spec.rankOf m.to ≠ Spec.lastRank (absColor turn) ∧ m.ty = .push ∧ m.promotion = .none) ∨
         (Spec.rankOf m.to = Spec.lastRank (absColor turn) ∧ m.ty = .promotion ∧
            m.promotion ∈ Position.promoPieces))) ∨
       (∃ t1, Spec.step m.from 0 (Spec.fwd (absColor turn)) = some t1 ∧
        Spec.step t1 0 (Spec.fwd (absColor turn)) = some m.to ∧
        Spec.rankOf m.from = Spec.startRank (absColor turn) ∧ b t1 = none ∧ b m.to = none ∧
        m.ty = .jump ∧ m.promotion = .none ∧ m.capture = .none) ∨
       (m.to ∈ Spec.pawnTargets (absColor turn) m.from ∧ ∃ k, b m.to = some (turn.opp, k) ∧ m.capture = k ∧
        ((Spec.rankOf m.to ≠ Spec.lastRank (absColor turn) ∧ m.ty = .capture ∧ m.promotion = .none) ∨
         (Spec.rankOf m.to = Spec.lastRank (absColor turn) ∧ m.ty = .capturePromotion ∧
            m.promotion ∈ Position.promoPieces))) ∨
       (ep ≠ 0 ∧ m.to = ep ∧ m.to ∈ Spec.pawnTargets (absColor turn) m.from ∧ colAt b m.to turn = false ∧
        m.ty = .enPassant ∧ m.promotion = .none ∧ m.capture = .none)) := Iff.rfl

/-- **Stage C.** Under the en-passant clause of `WF`, generated pawn moves are reference pseudo-legal
    moves with accurate metadata; conversely every reference pawn move is generated
    (`pseudo_iff` below). -/
theorem pawnMove_sound {p : Position} {turn : Color} (hw : WF p turn) {m : Move}
    (hm : PawnMove p.square p.enpassant turn m) :
    absMove m ∈ Spec.pseudoMoves (abs p turn) ∧ MetaOK p m = true ∧ ClassOK (abs p turn) m = true :=
  ⟨hm.abs_mem_pseudoMoves hw.rep hw.wfb, by rw [hw.rep.metaOK_iff]; exact hm.metaOKb hw.wfb,
    hm.classOK hw.rep hw.wfb⟩

/-! ## Stage D — castling -/

/-- **Stage D.** The castle emissions for a king recorded on `fr`: right present, between-squares
    empty, own rook on its home square — the king's own square is not tested. -/
theorem castles_iff {p : Position} {b : Board} (h : Rep p b) (turn : Color) (fr : Nat) (m : Move) :
    m ∈ genCastles p turn fr ↔ m.from = fr ∧ CastleMove b p.castling turn m := mem_genCastles h turn fr m

/-- What `CastleMove b castling turn m` says; `castleParams turn` lists, king side first,
    (right bit, squares that must be empty, rook home square, move type, king destination). -/
theorem castleMove_iff (b : Board) (castling : Nat) (turn : Color) (m : Move) :
    CastleMove b castling turn m ↔
      ∃ cs ∈ castleParams turn,
        (castling &&& cs.right != 0) = true ∧ (∀ s ∈ cs.cmask, b s = none) ∧
        b cs.rookSq = some (turn, .rook) ∧
        m.ty = cs.ty ∧ m.piece = .king ∧ m.to = cs.to ∧ m.promotion = .none ∧ m.capture = .none := Iff.rfl

example : castleParams .white =
    [⟨wK, [G1, F1], H1, .kingSideCastle, G1⟩, ⟨wQ, [B1, C1, D1], A1, .queenSideCastle, C1⟩] ∧
  castleParams .black =
    [⟨bK, [G8, F8], H8, .kingSideCastle, G8⟩, ⟨bQ, [B8, C8, D8], A8, .queenSideCastle, C8⟩] := ⟨rfl, rfl⟩

/-- **Stage D.** With the king on its home square (`WF`: rights imply that), generated castles are
    reference pseudo-legal moves with accurate metadata. -/
theorem castleMove_sound {p : Position} {turn : Color} (hw : WF p turn) {m : Move}
    (hm : CastleMove p.square p.castling turn m) (hfr : m.from = kingHomeSq turn) :
    absMove m ∈ Spec.pseudoMoves (abs p turn) ∧ MetaOK p m = true ∧ ClassOK (abs p turn) m = true :=
  ⟨hm.abs_mem_pseudoMoves hw.rep hw.wfb hfr, by rw [hw.rep.metaOK_iff]; exact hm.metaOKb hw.wfb hfr,
    hm.classOK hw.rep hw.wfb hfr⟩

/-- The king part of the generator under `WF`: steps of the king, and castles from its home square. -/
theorem king_iff {p : Position} {turn : Color} (hw : WF p turn) (m : Move) :
    m ∈ genKing p turn ↔
      StepMove p.square turn .king m ∨ (m.from = kingHomeSq turn ∧ CastleMove p.square p.castling turn m) :=
  mem_genKing hw.rep hw.wfb m

/-! ## Stage E — the whole pseudo-legal list -/

/-- What `PseudoMove` says: the four kinds of generated moves. -/
theorem pseudoMove_iff (b : Board) (castling ep : Nat) (turn : Color) (m : Move) :
    PseudoMove b castling ep turn m ↔
      (∃ pc ∈ Position.promoPieces, StepMove b turn pc m) ∨ PawnMove b ep turn m ∨
      StepMove b turn .king m ∨ (m.from = kingHomeSq turn ∧ CastleMove b castling turn m) := Iff.rfl

/-- **Stage E.** Under `WF` the generator output is exactly the pseudo-legal moves with metadata. -/
theorem pseudoLegalMoves_iff {p : Position} {turn : Color} (hw : WF p turn) (m : Move) :
    m ∈ p.pseudoLegalMoves turn ↔ PseudoMove p.square p.castling p.enpassant turn m :=
  mem_pseudoLegalMoves hw.rep hw.wfb m

/-- **Stage E `pseudo_iff`.** The generated moves, read through `absMove`, are exactly the reference
    pseudo-legal moves. -/
theorem pseudo_iff {p : Position} {turn : Color} (hw : WF p turn) (sm : Spec.SMove) :
    (∃ m, m ∈ p.pseudoLegalMoves turn ∧ absMove m = sm) ↔ sm ∈ Spec.pseudoMoves (abs p turn) :=
  pseudo_iff_aux hw.rep hw.wfb sm

/-- **Stage E `pseudo_metaOK`.** Every generated move carries accurate metadata and the class the
    rules assign — the hypotheses of C02 `move_refines` / `move_refines_spec`. -/
theorem pseudo_metaOK {p : Position} {turn : Color} (hw : WF p turn) :
    ∀ m ∈ p.pseudoLegalMoves turn, MetaOK p m = true ∧ ClassOK (abs p turn) m = true :=
  fun m hm => ((mem_pseudoLegalMoves hw.rep hw.wfb m).mp hm).metaOK_classOK hw.rep hw.wfb

/-- **Stage E `pseudo_nodup`.** No two generated moves share `(from, to, promotion)`. -/
theorem pseudo_nodup {p : Position} {turn : Color} (hw : WF p turn) :
    ((p.pseudoLegalMoves turn).map absMove).Nodup := pseudo_nodup_aux hw.rep hw.wfb

/-- The generator never emits the same move twice (needs `Rep` only). -/
theorem pseudoLegalMoves_nodup {p : Position} {b : Board} (h : Rep p b) (turn : Color) :
    (p.pseudoLegalMoves turn).Nodup := Gen.pseudoLegalMoves_nodup h turn

/-- The reference pseudo-legal move list has no duplicates either (every reference position). -/
theorem spec_pseudoMoves_nodup (s : Spec.Pos) : (Spec.pseudoMoves s).Nodup := pseudoMoves_nodup s

/-- Hence the two pseudo-legal lists are permutations of each other. -/
theorem pseudo_perm {p : Position} {turn : Color} (hw : WF p turn) :
    ((p.pseudoLegalMoves turn).map absMove).Perm (Spec.pseudoMoves (abs p turn)) :=
  pseudo_perm_aux hw.rep hw.wfb

/-! ## Stage G — `Position.Move` and the legal list -/

/-- `Position.Move` accepts `m` (played by `turn`) iff the castling-through-check test passes and the
    mover's king is not attacked in the updated position (`moveRaw`, C02). -/
theorem move_isSome_iff {p : Position} {m : Move} {turn : Color} {pc : Piece}
    (hsq : p.square m.from = some (turn, pc)) :
    (p.move m).isSome = true ↔
      ¬ (m.isCastle = true ∧ ∃ sq ∈ Position.safeCastlingSquares turn m.ty, p.isAttacked turn sq = true) ∧
      (moveRaw p turn pc m).isChecked turn = false := by
  rw [move_isSome_eq hsq]
  simp only [Bool.and_eq_true, Bool.not_eq_true', Bool.and_eq_false_iff, List.any_eq_false,
    not_and, not_exists, Bool.not_eq_true]
  constructor
  · rintro ⟨h1, h2⟩
    refine ⟨fun hc x hx => ?_, h2⟩
    rcases h1 with h1 | h1
    · rw [hc] at h1; cases h1
    · exact h1 x hx
  · rintro ⟨h1, h2⟩
    refine ⟨?_, h2⟩
    cases hc : m.isCastle with
    | false => exact Or.inl rfl
    | true => exact Or.inr (fun x hx => h1 hc x hx)

/-- **Stage G `move_isSome_iff_legal`.** For a generated move, `Position.Move` succeeds iff the
    reference calls the move legal (not castling out of / through check, own king not left in check). -/
theorem move_isSome_iff_legal {p : Position} {turn : Color} (hw : WF p turn) {m : Move}
    (hm : m ∈ p.pseudoLegalMoves turn) :
    (p.move m).isSome = true ↔ Spec.isLegal (abs p turn) (absMove m) = true := by
  rw [move_isSome_eq_legal hw.rep hw.wfb ((mem_pseudoLegalMoves hw.rep hw.wfb m).mp hm)]

/-- **Stage G `legal_perm`.** The model's legal moves, read through `absMove`, are a permutation of
    the reference legal moves. -/
theorem legal_perm {p : Position} {turn : Color} (hw : WF p turn) :
    ((p.legalMoves turn).map absMove).Perm (Spec.legalMoves (abs p turn)) :=
  legal_perm_aux hw.rep hw.wfb

/-- **C01.** The full statement holds for the model with the well-formedness predicate `WF`. -/
theorem statement_holds : Statement WF := fun _ _ hw => legal_perm hw

/-- Consequences: same number of legal moves; checkmate and stalemate agree with the reference. -/
theorem legal_length {p : Position} {turn : Color} (hw : WF p turn) :
    (p.legalMoves turn).length = (Spec.legalMoves (abs p turn)).length := by
  rw [← (legal_perm hw).length_eq, List.length_map]

theorem legal_nil_iff {p : Position} {turn : Color} (hw : WF p turn) :
    p.legalMoves turn = [] ↔ Spec.legalMoves (abs p turn) = [] := by
  rw [← List.length_eq_zero_iff, ← List.length_eq_zero_iff, legal_length hw]

theorem isCheckMate_iff_spec {p : Position} {turn : Color} (hw : WF p turn) :
    p.isCheckMate turn = true ↔
      Spec.inCheck (abs p turn) (absColor turn) = true ∧ Spec.legalMoves (abs p turn) = [] := by
  rw [isCheckMate_iff, isChecked_eq hw.rep turn turn, legal_nil_iff hw]

/-! ## The hypotheses are satisfiable -/

/-- What `WF` asks for, spelled out on the mailbox board `p.square`. -/
theorem wf_iff (p : Position) (turn : Color) :
    WF p turn ↔ Rep p p.square ∧ WFc p turn = true := Iff.rfl

theorem wf_board {p : Position} {turn : Color} (hw : WF p turn) :
    (∀ c s1 s2, p.square s1 = some (c, Piece.king) → p.square s2 = some (c, Piece.king) → s1 = s2) ∧
    ((p.castling &&& wK != 0 || p.castling &&& wQ != 0) = true → p.square E1 = some (Color.white, Piece.king)) ∧
    ((p.castling &&& bK != 0 || p.castling &&& bQ != 0) = true → p.square E8 = some (Color.black, Piece.king)) ∧
    (p.enpassant ≠ 0 → p.enpassant < 64 ∧ p.square p.enpassant = none ∧
      p.enpassant / 8 = epRank turn ∧
      p.square (epVictim turn p.enpassant) = some (turn.opp, Piece.pawn)) :=
  ⟨hw.wfb.king_unique, hw.wfb.home_white, hw.wfb.home_black, hw.wfb.ep_ok⟩

/-- The initial position, "Kiwipete" (both sides to move), and the en-passant/promotion test
    positions of C02 (`r3k2r/1P6/8/3pP3/8/8/8/R3K2R w KQkq d6` and its mirror image) satisfy `WF`. -/
example : WF startPos .white ∧ WF kiwiPos .white ∧ WF kiwiPos .black ∧ WF exPos .white ∧ WF exPosB .black :=
  ⟨startPos_wf, kiwiPos_wf.1, kiwiPos_wf.2, exPos_wf.1, exPos_wf.2⟩

/-- Instantiation: the reference has exactly 20 legal moves in the initial position and 48 in
    "Kiwipete" — read off the engine's move list by `legal_length`. -/
example : (Spec.legalMoves (abs startPos .white)).length = 20 ∧
    (Spec.legalMoves (abs kiwiPos .white)).length = 48 := by
  rw [← legal_length startPos_wf, ← legal_length kiwiPos_wf.1]
  decide +kernel

/-- Instantiation: in `exPos` the en-passant capture e5xd6 (35 → 44) is a reference pseudo-legal
    move, because the engine generates it. -/
example : (⟨35, 44, none⟩ : Spec.SMove) ∈ Spec.pseudoMoves (abs exPos .white) :=
  (pseudo_iff exPos_wf.1 _).mp ⟨exEP, by decide +kernel, rfl⟩

/-- `WF` cannot be dropped: with two white kings the generator moves only the lower-numbered one. -/
example : ∃ p : Position, Rep p p.square ∧
    ((p.pseudoLegalMoves .white).map absMove).length < (Spec.pseudoMoves (abs p .white)).length := by
  refine ⟨(Position.newPosition [(3, .white, .king), (35, .white, .king), (59, .black, .king)] 0 0).getD {}, ?_, ?_⟩
  · have hv : ValidPlacements [(3, Color.white, Piece.king), (35, .white, .king), (59, .black, .king)] := by
      intro x hx
      simp only [List.mem_cons, List.not_mem_nil, or_false] at hx
      rcases hx with rfl | rfl | rfl <;> simp
    have he : Position.newPosition [(3, Color.white, Piece.king), (35, .white, .king), (59, .black, .king)] 0 0 =
        some ((Position.newPosition [(3, Color.white, Piece.king), (35, .white, .king), (59, .black, .king)] 0 0).getD {}) := by
      decide +kernel
    exact (newPosition_rep hv he).1.self
  · decide +kernel

/-! ## Reachable positions: the chain C01 → C02 → C05 → C18

`WF` of the start position is not enough for "every reachable position is well-formed": when the side *not*
to move is in check the generator emits the capture of its king and `Position.Move` accepts it
(`wf_not_preserved`). The invariant that *is* preserved is
`WFplay p turn := WF p turn ∧ p.isChecked turn.opp = false` (`Morlock/Proofs/ChainWF.lean`).
`GenReach p t q t'` — `q` with `t'` to move is reached from `p` with `t` to move by generated moves that
`Position.Move` accepts; `GenPlay p t ms` — the moves `ms` played in turn from `p` are generated moves;
`playMoves p t ms` plays them (`Morlock/Proofs/ChainReach.lean`). The C05 step conditions (`MoveSound`,
`GoodStep`, `FullStep`) for generated moves are in `C05.pseudo_moveSound` / `C05.generated_fullStep`, the C18
ones in `C18.goodGen_of_wf`.
-/
section Reachable
open Morlock.Proofs.Chain

/-- What `WFplay` asks for. -/
theorem wfplay_iff (p : Position) (turn : Color) :
    WFplay p turn ↔ WF p turn ∧ p.isChecked turn.opp = false := Iff.rfl

/-- **`pseudo_mover`.** On a well-formed position every generated move moves a piece of the side to move, and
that piece is the one recorded in the move. -/
theorem pseudo_mover {p : Position} {turn : Color} (hw : WF p turn) :
    ∀ m ∈ p.pseudoLegalMoves turn, p.square m.from = some (turn, m.piece) := Chain.pseudo_mover hw

/-- **No king capture.** If moreover the side not to move is not in check, no generated move captures a king. -/
theorem pseudo_noKingCapture {p : Position} {turn : Color} (hw : WFplay p turn) :
    ∀ m ∈ p.pseudoLegalMoves turn, m.capture ≠ .king := Chain.pseudo_noKingCapture hw

/-- **`wf_preserved`.** `WFplay` is preserved by every generated move that `Position.Move` accepts: the new
position is well-formed for the other side to move (views agree — C02 `move_refines`; at most one king per side;
`KingHome` — C02 `kingHome_preserved`; the en-passant target, if any, is the empty square skipped by the double
push just made, with that pawn behind it), and the side that has just moved is not in check. -/
theorem wf_preserved {p q : Position} {turn : Color} {m : Move} (hw : WFplay p turn)
    (hm : m ∈ p.pseudoLegalMoves turn) (hq : p.move m = some q) : WFplay q turn.opp :=
  Chain.wf_preserved hw hm hq

/-- `WF` alone is **not** preserved: a position satisfying `WF` with the side not to move in check, a generated
move (the capture of that king) accepted by `Position.Move`, and a result violating `WF`. -/
theorem wf_not_preserved : ∃ (p q : Position) (m : Move),
    WF p .white ∧ m ∈ p.pseudoLegalMoves .white ∧ p.move m = some q ∧ ¬ WF q .black ∧
      p.isChecked .black = true := Chain.wf_not_preserved

/-- **`reachable_wf`.** Every position reachable from a `WFplay` position by generated moves satisfies `WFplay`,
hence `WF`; so there the generator output is exactly the pseudo-legal moves with accurate metadata
(`pseudoLegalMoves_iff`), every generated move has accurate metadata (`MetaOK`), is classified as the rules do
(`ClassOK`), is moved by the side to move and does not capture a king, and the legal moves are a permutation of
the reference legal moves (C01 `Statement`). -/
theorem reachable_wf {p q : Position} {t t' : Color} (hw : WFplay p t) (hr : GenReach p t q t') :
    WFplay q t' ∧ WF q t' ∧
    (∀ m ∈ q.pseudoLegalMoves t',
      MetaOK q m = true ∧ ClassOK (abs q t') m = true ∧
      q.square m.from = some (t', m.piece) ∧ m.capture ≠ .king) ∧
    ((q.legalMoves t').map absMove).Perm (Spec.legalMoves (abs q t')) := by
  have hq := reach_wfplay hw hr
  refine ⟨hq, hq.1, fun m hm => ?_, legal_perm hq.1⟩
  obtain ⟨h1, h2⟩ := pseudo_metaOK hq.1 m hm
  exact ⟨h1, h2, Chain.pseudo_mover hq.1 m hm, Chain.pseudo_noKingCapture hq m hm⟩

/-- **Reachable positions refine the reference game.** Playing generated moves `ms` from a `WFplay` position and
abstracting is abstracting and playing the abstracted moves with `Spec.apply` (C02 `play_refines` with every
per-move hypothesis discharged); the position reached is reachable and satisfies `WFplay`. -/
theorem reachable_refines {p q : Position} {t t' : Color} {ms : List Move} (hw : WFplay p t)
    (hg : GenPlay p t ms) (hp : playMoves p t ms = some (q, t')) :
    GenReach p t q t' ∧ WFplay q t' ∧
      abs q t' = ms.foldl (fun s m => Spec.apply s (absMove m)) (abs p t) :=
  ⟨genReach_of_play ms p t (GenReach.refl p t) hg q t' hp, play_refines_gen ms hw hg hp⟩

/-- Every accepted generated move at a reachable position is a legal move of the reference in the reference
position there (C01 `move_isSome_iff_legal` at reachable positions). -/
theorem reachable_legal {p q r : Position} {t t' : Color} {m : Move} (hw : WFplay p t) (hr : GenReach p t q t')
    (hm : m ∈ q.pseudoLegalMoves t') (hq : q.move m = some r) :
    absMove m ∈ Spec.legalMoves (abs q t') := by
  have hwq := (reach_wfplay hw hr).1
  unfold Spec.legalMoves
  rw [List.mem_filter]
  refine ⟨(pseudo_iff hwq _).mp ⟨m, hm, rfl⟩, ?_⟩
  rw [← move_isSome_iff_legal hwq hm, hq]
  rfl

/-- The initial position and "Kiwipete" (either side to move) satisfy `WFplay`. -/
example : WFplay startPos .white ∧ WFplay kiwiPos .white ∧ WFplay kiwiPos .black :=
  ⟨startPos_wfplay, kiwiPos_wfplay.1, kiwiPos_wfplay.2⟩

/-- `reachable_wf` on the initial position: at every position reachable from it by generated moves the
model's legal moves are the reference legal moves and every generated move has accurate metadata and captures
no king. -/
example : ∀ q t', GenReach startPos .white q t' →
    WF q t' ∧ ((q.legalMoves t').map absMove).Perm (Spec.legalMoves (abs q t')) ∧
    ∀ m ∈ q.pseudoLegalMoves t', MetaOK q m = true ∧ m.capture ≠ .king :=
  fun _ _ hr =>
    have h := reachable_wf startPos_wfplay hr
    ⟨h.2.1, h.2.2.2, fun m hm => ⟨(h.2.2.1 m hm).1, (h.2.2.1 m hm).2.2.2⟩⟩

/-- 1. e4 e5 2. Nf3 from the initial position. -/
def exOpening : List Move :=
  [{ ty := .jump, «from» := 11, to := 27, piece := .pawn }, { ty := .jump, «from» := 51, to := 35, piece := .pawn },
   { ty := .normal, «from» := 1, to := 18, piece := .knight }]

/-- `reachable_refines` on that line: the moves are generated moves (checked by evaluation), so the position
reached satisfies `WFplay` — Black to move — and its abstraction is the reference position after the same
moves. -/
example : ∃ q, playMoves startPos .white exOpening = some (q, .black) ∧ WFplay q .black ∧
    abs q .black = exOpening.foldl (fun s m => Spec.apply s (absMove m)) (abs startPos .white) := by
  have hs : ((playMoves startPos .white exOpening).map (·.2)) = some Color.black := by decide +kernel
  cases hp : playMoves startPos .white exOpening with
  | none => rw [hp] at hs; cases hs
  | some x =>
    obtain ⟨q, t'⟩ := x
    rw [hp] at hs
    simp only [Option.map_some, Option.some.injEq] at hs
    subst hs
    have h := reachable_refines startPos_wfplay (genPlay_of_check _ _ _ (by decide +kernel)) hp
    exact ⟨q, rfl, h.2.1, h.2.2⟩

end Reachable

end Morlock.Props.C01
